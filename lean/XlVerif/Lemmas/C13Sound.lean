/-
  Lemmas for C13, part 3: the extracted model contains the dependency closure of the focus with identical
  contents, hence agrees with the original on it (after `build_code` on both).
-/
import XlVerif.Lemmas.C13Extract
import XlVerif.Spec.C13
namespace XlVerif.Lemmas.C13
open XlVerif XlVerif.Model.Evaluator XlVerif.Model.C13 XlVerif.Spec.C13

/-! ### the saturation computes the closure -/

section spec
variable {α : Type} [DecidableEq α]

theorem mem_addNew {acc : List α} {b x : α} : x ∈ addNew acc b ↔ x ∈ acc ∨ x = b := by
  unfold addNew
  by_cases h : b ∈ acc
  · simp only [h, if_true]
    constructor
    · exact Or.inl
    · rintro (h1 | h1)
      · exact h1
      · rw [h1]; exact h
  · simp [h]

theorem mem_foldl_addNew {l acc : List α} {x : α} : x ∈ l.foldl addNew acc ↔ x ∈ acc ∨ x ∈ l := by
  induction l generalizing acc with
  | nil => simp
  | cons b rest ih =>
    simp only [List.foldl_cons, ih, mem_addNew, List.mem_cons]
    constructor
    · rintro ((h | h) | h)
      · exact Or.inl h
      · exact Or.inr (Or.inl h)
      · exact Or.inr (Or.inr h)
    · rintro (h | h | h)
      · exact Or.inl (Or.inl h)
      · exact Or.inl (Or.inr h)
      · exact Or.inr h

theorem mem_expand_aux (succ : α → List α) {l acc : List α} {x : α} :
    x ∈ l.foldl (fun acc a => (succ a).foldl addNew acc) acc ↔ x ∈ acc ∨ ∃ a ∈ l, x ∈ succ a := by
  induction l generalizing acc with
  | nil => simp
  | cons b rest ih =>
    simp only [List.foldl_cons, ih, mem_foldl_addNew, List.mem_cons]
    constructor
    · rintro ((h | h) | ⟨a, ha, hx⟩)
      · exact Or.inl h
      · exact Or.inr ⟨b, Or.inl rfl, h⟩
      · exact Or.inr ⟨a, Or.inr ha, hx⟩
    · rintro (h | ⟨a, ha | ha, hx⟩)
      · exact Or.inl (Or.inl h)
      · rw [ha] at hx; exact Or.inl (Or.inr hx)
      · exact Or.inr ⟨a, ha, hx⟩

theorem mem_expand (succ : α → List α) {s : List α} {x : α} :
    x ∈ expand succ s ↔ x ∈ s ∨ ∃ a ∈ s, x ∈ succ a := mem_expand_aux succ

/-- everything the saturation returns lies in the closure -/
theorem closureN_sound (succ : α → List α) (roots : List α) : ∀ (n : Nat) (s : List α),
    (∀ x ∈ s, Closure succ roots x) → ∀ x ∈ closureN succ n s, Closure succ roots x
  | 0, _, h => h
  | n + 1, s, h => by
    apply closureN_sound succ roots n (expand succ s)
    intro x hx
    rcases (mem_expand succ).mp hx with hx | ⟨a, ha, hx⟩
    · exact h x hx
    · exact Closure.step (h a ha) hx

/-- a saturated list that contains the roots contains the whole closure -/
theorem closure_subset_of_saturated (succ : α → List α) (roots s : List α) (hs : saturated succ s = true)
    (hr : ∀ x ∈ roots, x ∈ s) : ∀ x, Closure succ roots x → x ∈ s := by
  intro x hx
  induction hx with
  | root h => exact hr _ h
  | step _ hb ih =>
    simp only [saturated, List.all_eq_true, decide_eq_true_eq] at hs
    exact hs _ ih _ hb

theorem roots_subset_closureN (succ : α → List α) : ∀ (n : Nat) (s : List α), ∀ x ∈ s, x ∈ closureN succ n s
  | 0, _, _, h => h
  | n + 1, s, x, h => roots_subset_closureN succ n (expand succ s) x ((mem_expand succ).mpr (Or.inl h))

end spec

/-! ### hygiene of compiled workbooks -/

structure WF (m : XModel) : Prop where
  rangeNotCell : RangeNotCell m
  nameNotCell : ∀ n, m.isName n = true → m.st.cell? n = none ∧ m.st.range? n = none
  targetNotName : ∀ n t, assoc n m.st.names = some t → m.isName t = false
  memberNotName : ∀ n rn, assoc n m.rnames = some rn → ∀ b ∈ rn.cells.flatten, m.isName b = false

theorem assoc_mem {β} {k : Addr} {v : β} : ∀ {l : List (Addr × β)}, assoc k l = some v → (k, v) ∈ l
  | [], h => by simp [assoc] at h
  | (k', v') :: rest, h => by
    by_cases hk : k = k'
    · simp only [assoc, hk, if_true, Option.some.injEq] at h
      subst h; subst hk; exact List.mem_cons_self
    · simp only [assoc, hk, if_false] at h
      exact List.mem_cons_of_mem _ (assoc_mem h)

theorem wf_of_wfb {m : XModel} (h : wfb m = true) : WF m := by
  simp only [wfb, Bool.and_eq_true, List.all_eq_true, Bool.not_eq_true'] at h
  obtain ⟨⟨h1, h2⟩, h3⟩ := h
  refine ⟨?_, ?_, ?_, ?_⟩
  · intro k r hr
    exact hasKey_false.mp (h1 (k, r) (assoc_mem hr))
  · intro n hn
    simp only [XModel.isName, Bool.or_eq_true] at hn
    rcases hn with hn | hn
    · obtain ⟨t, ht⟩ := hasKey_true.mp hn
      have := h2 (n, t) (assoc_mem ht)
      exact ⟨hasKey_false.mp this.1.1, hasKey_false.mp this.1.2⟩
    · obtain ⟨rn, hrn⟩ := hasKey_true.mp hn
      have := h3 (n, rn) (assoc_mem hrn)
      exact ⟨hasKey_false.mp this.1.1, hasKey_false.mp this.1.2⟩
  · intro n t ht
    exact (h2 (n, t) (assoc_mem ht)).2
  · intro n rn hrn b hb
    exact (h3 (n, rn) (assoc_mem hrn)).2 b hb

/-! ### `build_code` leaves a formula without defined names as it is -/

theorem isName_false {x : XModel} {a : Addr} (h : x.isName a = false) :
    assoc a x.st.names = none ∧ assoc a x.rnames = none := by
  simp only [XModel.isName, Bool.or_eq_false_iff] at h
  exact ⟨hasKey_false.mp h.1, hasKey_false.mp h.2⟩

theorem isName_false_of_sub {x m : XModel} (hs : Sub x m) {a : Addr} (h : m.isName a = false) :
    x.isName a = false := by
  obtain ⟨h1, h2⟩ := isName_false h
  simp only [XModel.isName, Bool.or_eq_false_iff]
  constructor
  · apply hasKey_false.mpr
    cases hx : assoc a x.st.names with
    | none => rfl
    | some t => rw [hs.name a t hx] at h1; cases h1
  · apply hasKey_false.mpr
    cases hx : assoc a x.rnames with
    | none => rfl
    | some rn => rw [hs.rname a rn hx] at h2; cases h2

theorem substAddr_id {x : XModel} {a : Addr} (h : x.isName a = false) (b : Bool) :
    x.substAddr b a = if b then .rng a else .ref a := by
  obtain ⟨h1, h2⟩ := isName_false h
  simp only [XModel.substAddr, h1, h2]

mutual
theorem substFx_id (x : XModel) : ∀ (f : Fx), (∀ t ∈ refsFx f, x.isName t = false) → substFx x f = f
  | .lit _, _ => by simp [substFx]
  | .ref a, h => by simp [substFx, substAddr_id (h a (by simp [refsFx]))]
  | .rng a, h => by simp [substFx, substAddr_id (h a (by simp [refsFx]))]
  | .app g args, h => by
    simp only [substFx]; rw [substList_id x args (by simpa [refsFx] using h)]
  | .iff a b d, h => by
    simp only [substFx]
    rw [substFx_id x a (fun t ht => h t (by simp [refsFx, ht])),
      substFx_id x b (fun t ht => h t (by simp [refsFx, ht])),
      substFx_id x d (fun t ht => h t (by simp [refsFx, ht]))]
  | .sc g args, h => by
    simp only [substFx]; rw [substList_id x args (by simpa [refsFx] using h)]
  | .fail g args, h => by
    simp only [substFx]; rw [substList_id x args (by simpa [refsFx] using h)]
theorem substList_id (x : XModel) : ∀ (l : List Fx), (∀ t ∈ refsList l, x.isName t = false) → substList x l = l
  | [], _ => by simp [substList]
  | a :: rest, h => by
    simp only [substList]
    rw [substFx_id x a (fun t ht => h t (by simp [refsList, ht])),
      substList_id x rest (fun t ht => h t (by simp [refsList, ht]))]
end

theorem substCell_id (x : XModel) (c : Cell) (h : ∀ t ∈ cellTerms c, x.isName t = false) : substCell x c = c := by
  have hmap : c.formula.map (substFx x) = c.formula := by
    cases hf : c.formula with
    | none => rfl
    | some f =>
      have : substFx x f = f := by
        apply substFx_id
        intro t ht
        apply h
        simp only [cellTerms, hf]
        exact (mem_terms t f).mpr ht
      simp only [Option.map_some, this]
  unfold substCell
  rw [hmap]

/-! ### the views of the built model -/

@[simp] theorem buildCode_cell? (x : XModel) (a : Addr) :
    (buildCode x).cell? a = (x.st.cell? a).map (substCell x) := by
  simp only [buildCode, MState.cell?]
  exact assoc_map_snd a (substCell x) x.st.cells
@[simp] theorem buildCode_range? (x : XModel) (a : Addr) : (buildCode x).range? a = x.st.range? a := rfl
@[simp] theorem buildCode_resolve (x : XModel) (a : Addr) : (buildCode x).resolve a = x.st.resolve a := rfl
@[simp] theorem buildCode_names (x : XModel) : (buildCode x).names = x.st.names := rfl

/-! ### the dependency graph of an evaluator model, and the general read theorem -/

/-- what the evaluation of `a` on the (built) model `m` looks at: the cell a name is bound to, the references
    of the formula stored at `a`, the members of the range `a` -/
def stDeps (m : MState) (a : Addr) : List Addr :=
  (match assoc a m.names with
   | some t => [t]
   | none => [])
  ++ ((match m.cell? a with
       | some c => cellTerms c
       | none => [])
  ++ (match m.range? a with
      | some r => r.cells.flatten
      | none => []))

theorem closed_stDeps (m : MState) (roots : List Addr) : Closed (Closure (stDeps m) roots) m where
  resolve := fun a ha => by
    simp only [MState.resolve]
    cases hn : assoc a m.names with
    | none => exact ha
    | some t => exact Closure.step ha (by simp [stDeps, hn])
  cell := fun a c f ha hc hf t ht => by
    apply Closure.step ha
    simp only [stDeps, hc, cellTerms, hf, List.mem_append]
    exact Or.inr (Or.inl ((mem_terms t _).mpr ht))
  range := fun a r ha hr row hrow y hy => by
    apply Closure.step ha
    simp only [stDeps, hr, List.mem_append]
    exact Or.inr (Or.inr (List.mem_flatten.mpr ⟨row, hrow, hy⟩))

/-! ### the guard of finding D1301 -/

/-- no formula stored at an address of `R` mentions a defined name; no range of `R` has one as a member -/
def NameFree (m : XModel) (R : Addr → Prop) : Prop :=
  ∀ a, R a →
    (∀ c, m.st.cell? a = some c → ∀ t ∈ cellTerms c, m.isName t = false)
    ∧ (∀ r, m.st.range? a = some r → ∀ y ∈ r.cells.flatten, m.isName y = false)

theorem nameFree_of_list {m : XModel} {R : Addr → Prop} {s : List Addr} (h : nameFreeOn m s = true)
    (hs : ∀ a, R a → a ∈ s) : NameFree m R := by
  intro a ha
  simp only [nameFreeOn, List.all_eq_true, Bool.and_eq_true] at h
  obtain ⟨h1, h2⟩ := h a (hs a ha)
  constructor
  · intro c hc t ht
    rw [hc] at h1
    simp only [List.all_eq_true, Bool.not_eq_true'] at h1
    exact h1 t ht
  · intro r hr y hy
    rw [hr] at h2
    simp only [List.all_eq_true, Bool.not_eq_true'] at h2
    exact h2 y hy

/-! ### the closure is copied -/

theorem closure_handled {m x0 x : XModel} {focus : List Addr} (hwf : WF m)
    (hfocus : ∀ a ∈ focus, m.st.range? a = none) (hnf : NameFree m (Closure (deps m) focus))
    (hfd : ∀ a ∈ focus, FocusDone m x0 a) (hle : Le x0 x) (hinv : Inv m x []) :
    ∀ a, Closure (deps m) focus a → Handled m x a ∧ (m.isName a = true → a ∈ focus) := by
  intro a ha
  induction ha with
  | root h =>
    rename_i a
    refine ⟨⟨fun r hr => ?_, fun c hc => hle.cell a c ((hfd a h).cell c hc)⟩, fun _ => h⟩
    rw [hfocus a h] at hr; cases hr
  | step hcl hb ih =>
    rename_i a b
    obtain ⟨hha, hna⟩ := ih
    have hnfa := hnf a hcl
    -- copied cells give "handled" for their own address
    have copied : ∀ t c, m.st.cell? t = some c → x0.st.cell? t = some c → Handled m x t := by
      intro t c hc hx
      refine ⟨fun r hr => ?_, fun c' hc' => ?_⟩
      · rw [hwf.rangeNotCell t r hr] at hc; cases hc
      · rw [hc] at hc'; simp only [Option.some.injEq] at hc'; subst hc'
        exact hle.cell t c hx
    simp only [deps, List.mem_append] at hb
    rcases hb with hb | hb | hb
    · -- through a defined name
      cases hn : assoc a m.st.names with
      | some t =>
        rw [hn] at hb
        simp only [List.mem_singleton] at hb
        subst hb
        have hisn : m.isName a = true := by
          simp only [XModel.isName, Bool.or_eq_true]; exact Or.inl (hasKey_true.mpr ⟨_, hn⟩)
        obtain ⟨_, c, hc, hx⟩ := (hfd a (hna hisn)).name (hwf.nameNotCell a hisn).1 _ hn
        refine ⟨copied _ c hc hx, fun h => ?_⟩
        rw [hwf.targetNotName a _ hn] at h; cases h
      | none =>
        rw [hn] at hb
        simp only at hb
        cases hrn : assoc a m.rnames with
        | none => rw [hrn] at hb; cases hb
        | some rn =>
          rw [hrn] at hb
          simp only at hb
          have hisn : m.isName a = true := by
            simp only [XModel.isName, Bool.or_eq_true]; exact Or.inr (hasKey_true.mpr ⟨_, hrn⟩)
          obtain ⟨_, hall⟩ := (hfd a (hna hisn)).rname (hwf.nameNotCell a hisn).1 hn rn hrn
          obtain ⟨c, hc, hx⟩ := hall b hb
          refine ⟨copied b c hc hx, fun h => ?_⟩
          rw [hwf.memberNotName a rn hrn b hb] at h; cases h
    · -- through a formula
      cases hc : m.st.cell? a with
      | none => rw [hc] at hb; cases hb
      | some c =>
        rw [hc] at hb
        simp only at hb
        cases hf : c.formula with
        | none => rw [hf] at hb; cases hb
        | some f =>
          rw [hf] at hb
          simp only at hb
          have hfree := hnfa.1 c hc
          have hid : substFx m f = f := by
            apply substFx_id
            intro t ht
            apply hfree
            simp only [cellTerms, hf]
            exact (mem_terms t f).mpr ht
          rw [hid] at hb
          have hbt : b ∈ cellTerms c := by simp only [cellTerms, hf]; exact hb
          refine ⟨?_, fun h => ?_⟩
          · rcases hinv.cell a c (hha.2 c hc) b hbt with h | h
            · exact h
            · cases h
          · rw [hfree b hbt] at h; cases h
    · -- through a range
      cases hr : m.st.range? a with
      | none => rw [hr] at hb; cases hb
      | some r =>
        rw [hr] at hb
        simp only at hb
        refine ⟨?_, fun h => ?_⟩
        · rcases hinv.range a r (hha.1 r hr) b hb with h | h
          · exact h
          · cases h
        · rw [hnfa.2 r hr b hb] at h; cases h

/-! ### the state before the worklist -/

theorem init_inv {m x0 : XModel} (hrc : RangeNotCell m) (hs : Sub x0 m) (hr : x0.st.ranges = []) :
    Inv m x0 (initTerms x0).reverse where
  sub := hs
  range := fun k r hk => by simp [MState.range?, hr, assoc] at hk
  cell := fun a c hc t ht => by
    cases hk : hasKey t x0.st.cells with
    | true =>
      left
      obtain ⟨c', hc'⟩ := hasKey_true.mp hk
      have hm := hs.cell t c' hc'
      refine ⟨fun r hr' => ?_, fun c'' hc'' => ?_⟩
      · rw [hrc t r hr'] at hm; cases hm
      · rw [hm] at hc''; simp only [Option.some.injEq] at hc''; subst hc''; exact hc'
    | false =>
      right
      apply List.mem_reverse.mpr
      simp only [initTerms, List.mem_flatMap, List.mem_filter]
      exact ⟨(a, c), assoc_mem hc, ht, by simp [hk]⟩

/-- the shape of a successful extraction -/
theorem extract_ok_inv {m x : XModel} {focus : List Addr} (hrc : RangeNotCell m)
    (hx : extract m focus = .ok x) :
    ∃ x0, Sub x0 m ∧ (∀ a ∈ focus, FocusDone m x0 a) ∧ Le x0 x ∧ Inv m x []
      ∧ x.st.names = x0.st.names ∧ x.rnames = x0.rnames ∧ x.formulae = [] := by
  unfold extract at hx
  cases h0 : focusPhase m XModel.empty focus with
  | error e => rw [h0] at hx; cases hx
  | ok x0 =>
    rw [h0] at hx
    simp only [Except.ok.injEq] at hx
    obtain ⟨g, hfd, hr, hf⟩ := focusPhase_ok focus _ _ h0 (sub_empty m)
    have hi := init_inv hrc g.sub (by rw [hr]; rfl)
    obtain ⟨i, l, n1, n2, n3⟩ := worklist_inv hrc (workFuel m (initTerms x0).reverse) x0 _ hi
    have hfin := worklist_finishes m (workFuel m (initTerms x0).reverse) x0 (initTerms x0).reverse
      (mu_le_workFuel m x0 _)
    rw [hfin] at i
    rw [hx] at i l n1 n2 n3
    exact ⟨x0, g.sub, hfd, l, i, n1, n2, by rw [n3, hf]; rfl⟩

/-! ### agreement of the two built models on the closure -/

theorem closed_closure (m : XModel) (focus : List Addr) : Closed (Closure (deps m) focus) (buildCode m) where
  resolve := fun a ha => by
    simp only [MState.resolve, buildCode_names]
    cases hn : assoc a m.st.names with
    | none => exact ha
    | some t => exact Closure.step ha (by simp [deps, hn])
  cell := fun a c' f' ha hc hf t ht => by
    simp only [buildCode_cell?] at hc
    cases hm : m.st.cell? a with
    | none => rw [hm] at hc; cases hc
    | some c =>
      rw [hm] at hc
      simp only [Option.map_some, Option.some.injEq] at hc
      subst hc
      simp only [substCell] at hf
      cases hcf : c.formula with
      | none => rw [hcf] at hf; cases hf
      | some f =>
        rw [hcf] at hf
        simp only [Option.map_some, Option.some.injEq] at hf
        subst hf
        apply Closure.step ha
        simp only [deps, hm, hcf, List.mem_append]
        exact Or.inr (Or.inl ((mem_terms t _).mpr ht))
  range := fun a r ha hr row hrow y hy => by
    simp only [buildCode_range?] at hr
    apply Closure.step ha
    simp only [deps, hr, List.mem_append]
    exact Or.inr (Or.inr (List.mem_flatten.mpr ⟨row, hrow, hy⟩))

theorem extract_agree {m x : XModel} {focus : List Addr} (hwf : WF m)
    (hfocus : ∀ a ∈ focus, m.st.range? a = none) (hnf : NameFree m (Closure (deps m) focus))
    (hx : extract m focus = .ok x) :
    Agree (Closure (deps m) focus) (buildCode m) (buildCode x) := by
  obtain ⟨x0, hs0, hfd, hle, hinv, hn1, hn2, _⟩ := extract_ok_inv hwf.rangeNotCell hx
  have hcl := closure_handled hwf hfocus hnf hfd hle hinv
  have hsub := hinv.sub
  refine ⟨fun a ha => ?_, fun a ha => ?_, fun a ha => ?_⟩
  · -- name resolution
    simp only [MState.resolve, buildCode_names]
    cases hn : assoc a m.st.names with
    | some t =>
      have hisn : m.isName a = true := by
        simp only [XModel.isName, Bool.or_eq_true]; exact Or.inl (hasKey_true.mpr ⟨_, hn⟩)
      obtain ⟨h1, _⟩ := (hfd a ((hcl a ha).2 hisn)).name (hwf.nameNotCell a hisn).1 _ hn
      rw [hn1, h1]
    | none =>
      cases hxn : assoc a x.st.names with
      | none => rfl
      | some t => rw [hsub.name a t hxn] at hn; cases hn
  · -- cells
    simp only [buildCode_cell?]
    cases hm : m.st.cell? a with
    | none =>
      cases hxc : x.st.cell? a with
      | none => simp [CellAgree]
      | some c => rw [hsub.cell a c hxc] at hm; cases hm
    | some c =>
      rw [(hcl a ha).1.2 c hm]
      have hfree := (hnf a ha).1 c hm
      simp only [Option.map_some]
      rw [substCell_id m c hfree, substCell_id x c (fun t ht => isName_false_of_sub hsub (hfree t ht))]
      exact ⟨rfl, rfl, fun _ => rfl⟩
  · -- ranges
    simp only [buildCode_range?]
    cases hm : m.st.range? a with
    | none =>
      cases hxr : x.st.range? a with
      | none => rfl
      | some r => rw [hsub.range a r hxr] at hm; cases hm
    | some r => rw [(hcl a ha).1.1 r hm]

end XlVerif.Lemmas.C13
