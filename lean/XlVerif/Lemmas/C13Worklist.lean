/-
  Lemmas for C13, part 3: the worklist.
  Invariant: every term of a copied formula cell and every member of a copied range is "done" — copied (and,
  for a term that is a defined name, the name is copied and what it is bound to is copied or listed) — or
  still on the list.  The loop never changes what is copied and terminates within `workFuel` iterations.
-/
import XlVerif.Lemmas.C13Extract
namespace XlVerif.Lemmas.C13
open XlVerif XlVerif.Model.Evaluator XlVerif.Model.C13

/-! ### the invariant of the loop -/

/-- a term that is a defined name (and nothing else) has been followed: the name is copied and what it is
    bound to is copied or on the list -/
def NameDone (m x : XModel) (todo : List Addr) (t : Addr) : Prop :=
  m.st.cell? t = none → m.st.range? t = none →
    (∀ a, assoc t m.st.names = some a → assoc t x.st.names = some a ∧ (Handled m x a ∨ a ∈ todo))
    ∧ (assoc t m.st.names = none → ∀ rn, assoc t m.rnames = some rn →
        assoc t x.rnames = some rn ∧ (Handled m x rn.key ∨ rn.key ∈ todo))

def Done (m x : XModel) (todo : List Addr) (t : Addr) : Prop := Handled m x t ∧ NameDone m x todo t

structure Inv (m x : XModel) (todo : List Addr) : Prop where
  sub : Sub x m
  cell : ∀ a c, x.st.cell? a = some c → ∀ t ∈ cellTerms c, Done m x todo t ∨ t ∈ todo
  range : ∀ k r, x.st.range? k = some r → ∀ y ∈ r.cells.flatten, Done m x todo y ∨ y ∈ todo

/-- one iteration: the popped term is done, what is newly copied has its terms pushed -/
theorem inv_step {m x x' : XModel} {t : Addr} {push rest : List Addr} (hg : Grow m x x')
    (ht : Done m x' (push ++ rest) t)
    (hnewc : ∀ a c, x'.st.cell? a = some c → x.st.cell? a = none → ∀ u ∈ cellTerms c, u ∈ push)
    (hnewr : ∀ k r, x'.st.range? k = some r → x.st.range? k = none → ∀ y ∈ r.cells.flatten, y ∈ push)
    (h : Inv m x (t :: rest)) : Inv m x' (push ++ rest) := by
  have tr : ∀ a, Handled m x a ∨ a ∈ t :: rest → Handled m x' a ∨ a ∈ push ++ rest := by
    intro a ha
    rcases ha with ha | ha
    · exact Or.inl (ha.mono hg.le)
    · cases ha with
      | head => exact Or.inl ht.1
      | tail _ h' => exact Or.inr (List.mem_append_right _ h')
  have old : ∀ y, Done m x (t :: rest) y ∨ y ∈ t :: rest → Done m x' (push ++ rest) y ∨ y ∈ push ++ rest := by
    intro y hy
    rcases hy with hy | hy
    · left
      refine ⟨hy.1.mono hg.le, fun h1 h2 => ?_⟩
      obtain ⟨n1, n2⟩ := hy.2 h1 h2
      refine ⟨fun a ha => ?_, fun h0 rn hrn => ?_⟩
      · obtain ⟨p, q⟩ := n1 a ha
        exact ⟨hg.le.name y a p, tr a q⟩
      · obtain ⟨p, q⟩ := n2 h0 rn hrn
        exact ⟨hg.le.rname y rn p, tr rn.key q⟩
    · cases hy with
      | head => exact Or.inl ht
      | tail _ h' => exact Or.inr (List.mem_append_right _ h')
  refine ⟨hg.sub, fun a c hc u hu => ?_, fun k r hk y hy => ?_⟩
  · cases hx : x.st.cell? a with
    | none => exact Or.inr (List.mem_append_left _ (hnewc a c hc hx u hu))
    | some c0 =>
      have : c0 = c := by
        have := hg.le.cell a c0 hx
        rw [hc] at this; exact (Option.some.inj this).symm
      subst this
      exact old u (h.cell a c0 hx u hu)
  · cases hx : x.st.range? k with
    | none => exact Or.inr (List.mem_append_left _ (hnewr k r hk hx y hy))
    | some r0 =>
      have : r0 = r := by
        have := hg.le.range k r0 hx
        rw [hk] at this; exact (Option.some.inj this).symm
      subst this
      exact old y (h.range k r0 hx y hy)

theorem addName_spec {m x : XModel} (hs : Sub x m) {t a : Addr} (hn : assoc t m.st.names = some a) :
    Grow m x (addName x t a) ∧ (addName x t a).st.cells = x.st.cells
      ∧ (addName x t a).st.ranges = x.st.ranges ∧ (addName x t a).formulae = x.formulae
      ∧ assoc t (addName x t a).st.names = some a := by
  unfold addName
  cases hk : hasKey t x.st.names with
  | true =>
    obtain ⟨a', ha'⟩ := hasKey_true.mp hk
    have : a' = a := by have := hs.name t a' ha'; rw [hn] at this; exact (Option.some.inj this).symm
    subst this
    rw [if_pos rfl]
    exact ⟨Grow.refl hs, rfl, rfl, rfl, ha'⟩
  | false =>
    rw [if_neg (by simp)]
    exact ⟨grow_setName hs hn, rfl, rfl, rfl, by simp⟩

theorem addRName_spec {m x : XModel} (hs : Sub x m) {t : Addr} {rn : RName} (hn : assoc t m.rnames = some rn) :
    Grow m x (addRName x t rn) ∧ (addRName x t rn).st.cells = x.st.cells
      ∧ (addRName x t rn).st.ranges = x.st.ranges ∧ (addRName x t rn).formulae = x.formulae
      ∧ assoc t (addRName x t rn).rnames = some rn := by
  unfold addRName
  cases hk : hasKey t x.rnames with
  | true =>
    obtain ⟨rn', hrn'⟩ := hasKey_true.mp hk
    have : rn' = rn := by have := hs.rname t rn' hrn'; rw [hn] at this; exact (Option.some.inj this).symm
    subst this
    rw [if_pos rfl]
    exact ⟨Grow.refl hs, rfl, rfl, rfl, hrn'⟩
  | false =>
    rw [if_neg (by simp)]
    exact ⟨grow_setRName hs hn, rfl, rfl, rfl, by simp⟩

theorem nameStep_spec {m x : XModel} (hs : Sub x m) (t : Addr) :
    Grow m x (nameStep m x t).1
    ∧ (nameStep m x t).1.st.cells = x.st.cells ∧ (nameStep m x t).1.st.ranges = x.st.ranges
    ∧ (nameStep m x t).1.formulae = x.formulae
    ∧ (∀ a, assoc t m.st.names = some a →
        assoc t (nameStep m x t).1.st.names = some a ∧ (nameStep m x t).2 = [a])
    ∧ (assoc t m.st.names = none → ∀ rn, assoc t m.rnames = some rn →
        assoc t (nameStep m x t).1.rnames = some rn ∧ (nameStep m x t).2 = [rn.key])
    ∧ (assoc t m.st.names = none → assoc t m.rnames = none → (nameStep m x t).2 = []) := by
  unfold nameStep
  cases hn : assoc t m.st.names with
  | some a =>
    obtain ⟨g, h1, h2, h3, h4⟩ := addName_spec hs hn
    refine ⟨g, h1, h2, h3, ?_, ?_, ?_⟩
    · intro a' ha'
      simp only [Option.some.injEq] at ha'
      subst ha'
      exact ⟨h4, rfl⟩
    · intro h; cases h
    · intro h; cases h
  | none =>
    cases hrn : assoc t m.rnames with
    | some rn =>
      obtain ⟨g, h1, h2, h3, h4⟩ := addRName_spec hs hrn
      refine ⟨g, h1, h2, h3, ?_, ?_, ?_⟩
      · intro a' ha'; cases ha'
      · intro _ rn' hrn'
        simp only [Option.some.injEq] at hrn'
        subst hrn'
        exact ⟨h4, rfl⟩
      · intro _ h; cases h
    | none =>
      refine ⟨Grow.refl hs, rfl, rfl, rfl, ?_, ?_, ?_⟩
      · intro a' ha'; cases ha'
      · intro _ rn' hrn'; cases hrn'
      · intro _ _; rfl

/-- `step` is `nameStep` on a term that is neither a cell nor a range of the model, `step` otherwise -/
theorem step_cases (m x : XModel) (t : Addr) :
    (m.st.range? t = none ∧ m.st.cell? t = none ∧ step m x t = nameStep m x t)
    ∨ ((m.st.range? t ≠ none ∨ m.st.cell? t ≠ none) ∧ step m x t = baseStep m x t) := by
  unfold step
  cases hr : m.st.range? t with
  | none =>
    cases hc : m.st.cell? t with
    | none => exact Or.inl ⟨rfl, rfl, rfl⟩
    | some c => exact Or.inr ⟨Or.inr (by simp), rfl⟩
  | some r => exact Or.inr ⟨Or.inl (by simp), rfl⟩

theorem step_grow {m x : XModel} (hs : Sub x m) (t : Addr) : Grow m x (step m x t).1 := by
  rcases step_cases m x t with ⟨_, _, h⟩ | ⟨_, h⟩
  · rw [h]; exact (nameStep_spec hs t).1
  · rw [h]; exact baseStep_grow hs t

theorem step_formulae {m x : XModel} (hs : Sub x m) (t : Addr) : (step m x t).1.formulae = x.formulae := by
  rcases step_cases m x t with ⟨_, _, h⟩ | ⟨_, h⟩
  · rw [h]; exact (nameStep_spec hs t).2.2.2.1
  · rw [h]; exact (baseStep_names m x t).2.2

theorem step_inv {m x : XModel} (hrc : RangeNotCell m) {t : Addr} {rest : List Addr}
    (h : Inv m x (t :: rest)) : Inv m (step m x t).1 ((step m x t).2 ++ rest) := by
  rcases step_cases m x t with ⟨hr, hc, he⟩ | ⟨hne, he⟩
  · -- a defined name (or an unknown address)
    rw [he]
    obtain ⟨hg, hcells, hranges, _, hn1, hn2, _⟩ := nameStep_spec h.sub t
    have hcell? : ∀ a, (nameStep m x t).1.st.cell? a = x.st.cell? a := fun a => by
      simp only [MState.cell?, hcells]
    have hrange? : ∀ a, (nameStep m x t).1.st.range? a = x.st.range? a := fun a => by
      simp only [MState.range?, hranges]
    refine inv_step hg ?_ ?_ ?_ h
    · refine ⟨⟨fun r h' => (by rw [hr] at h'; cases h'), fun c h' => (by rw [hc] at h'; cases h')⟩, fun _ _ => ?_⟩
      refine ⟨fun a ha => ?_, fun h0 rn hrn => ?_⟩
      · obtain ⟨p, q⟩ := hn1 a ha
        exact ⟨p, Or.inr (List.mem_append_left _ (by rw [q]; exact List.mem_singleton.mpr rfl))⟩
      · obtain ⟨p, q⟩ := hn2 h0 rn hrn
        exact ⟨p, Or.inr (List.mem_append_left _ (by rw [q]; exact List.mem_singleton.mpr rfl))⟩
    · intro a c hc' hx; rw [hcell? a, hx] at hc'; cases hc'
    · intro k r hk hx; rw [hrange? k, hx] at hk; cases hk
  · -- a cell or a range of the model: the loop body as it is
    rw [he]
    have vac : ∀ (x' : XModel) (todo : List Addr), NameDone m x' todo t := by
      intro x' todo h1 h2
      rcases hne with h' | h'
      · exact absurd h2 h'
      · exact absurd h1 h'
    have hg := baseStep_grow h.sub t
    rcases baseStep_cases m x t with ⟨r, h1, h2, h3⟩ | ⟨c, h1, h2, hnr, h4⟩ | ⟨hnr, hnc, h3⟩
    · rw [h3] at hg ⊢
      refine inv_step hg ⟨⟨fun r' hr' => (by simp [← hr', h1]),
        fun c hc => (by rw [hrc t r h1] at hc; cases hc)⟩, vac _ _⟩ ?_ ?_ h
      · intro a c hc' hx; simp only [cell?_setRange] at hc'; rw [hx] at hc'; cases hc'
      · intro k r' hk hx y hy
        simp only [range?_setRange] at hk
        by_cases hkt : k = t
        · simp only [hkt, if_true, Option.some.injEq] at hk
          subst hk
          exact List.mem_reverse.mpr hy
        · simp only [hkt, if_false] at hk; rw [hx] at hk; cases hk
    · rw [h4] at hg ⊢
      have hH : Handled m (x.setCell t c) t := by
        refine ⟨fun r hr => ?_, fun c' hc' => by simp [← hc', h1]⟩
        cases hx : x.st.range? t with
        | none => exact absurd hx (hnr r hr)
        | some r' => simp only [range?_setCell]; rw [hx, ← hr, h.sub.range t r' hx]
      refine inv_step hg ⟨hH, vac _ _⟩ ?_ ?_ h
      · intro a c' hc' hx u hu
        simp only [cell?_setCell] at hc'
        by_cases hat : a = t
        · simp only [hat, if_true, Option.some.injEq] at hc'
          subst hc'
          exact List.mem_reverse.mpr hu
        · simp only [hat, if_false] at hc'; rw [hx] at hc'; cases hc'
      · intro k r hk hx; simp only [range?_setCell] at hk; rw [hx] at hk; cases hk
    · rw [h3] at hg ⊢
      have hH : Handled m x t := by
        refine ⟨fun r hr => ?_, fun c hc => ?_⟩
        · cases hx : x.st.range? t with
          | none => exact absurd hx (hnr r hr)
          | some r' => rw [← hr, h.sub.range t r' hx]
        · cases hx : x.st.cell? t with
          | none => exact absurd hx (hnc c hc)
          | some c' => rw [← hc, h.sub.cell t c' hx]
      refine inv_step hg ⟨hH, vac _ _⟩ ?_ ?_ h
      · intro a c hc' hx; rw [hx] at hc'; cases hc'
      · intro k r hk hx; rw [hx] at hk; cases hk

theorem worklist_inv {m : XModel} (hrc : RangeNotCell m) : ∀ (n : Nat) (x : XModel) (todo : List Addr),
    Inv m x todo →
      Inv m (worklist m n x todo).1 (worklist m n x todo).2 ∧ Le x (worklist m n x todo).1
        ∧ (worklist m n x todo).1.formulae = x.formulae
  | 0, x, todo, h => ⟨h, Le.refl x, rfl⟩
  | n + 1, x, [], h => ⟨h, Le.refl x, rfl⟩
  | n + 1, x, t :: rest, h => by
    simp only [worklist]
    obtain ⟨i, l, f⟩ := worklist_inv hrc n (step m x t).1 ((step m x t).2 ++ rest) (step_inv hrc h)
    exact ⟨i, (step_grow h.sub t).le.trans l, f.trans (step_formulae h.sub t)⟩

/-! ### termination of the loop -/

/-- a term that will be followed as a defined name is popped twice in effect (itself, then its target) -/
def isNameTerm (m : XModel) (t : Addr) : Bool :=
  (m.st.cell? t).isNone && (m.st.range? t).isNone && m.isName t

def wt (m : XModel) (t : Addr) : Nat := if isNameTerm m t then 2 else 1

def wsum (m : XModel) (l : List Addr) : Nat := sumNat (l.map (wt m))

theorem wsum_append (m : XModel) (l1 l2 : List Addr) : wsum m (l1 ++ l2) = wsum m l1 + wsum m l2 := by
  induction l1 with
  | nil => simp [wsum, sumNat]
  | cons a rest ih => simp only [wsum, List.cons_append, List.map_cons, sumNat] at ih ⊢; omega

theorem wsum_le (m : XModel) (l : List Addr) : wsum m l ≤ 2 * l.length := by
  induction l with
  | nil => simp [wsum, sumNat]
  | cons a rest ih =>
    simp only [wsum, List.map_cons, sumNat, List.length_cons] at ih ⊢
    have : wt m a ≤ 2 := by unfold wt; split <;> omega
    omega

theorem wt_pos (m : XModel) (t : Addr) : 1 ≤ wt m t := by unfold wt; split <;> omega

def mu (m x : XModel) (todo : List Addr) : Nat :=
  wsum m todo + pending (fun c => 2 * (cellTerms c).length) m.st.cells x.st.cells
    + pending (fun (r : Range) => 2 * r.cells.flatten.length) m.st.ranges x.st.ranges

theorem mu_le_workFuel (m x : XModel) (todo : List Addr) : mu m x todo ≤ workFuel m todo := by
  have h0 := wsum_le m todo
  have h1 := pending_le_total (fun c => 2 * (cellTerms c).length) m.st.cells x.st.cells
  have h2 := pending_le_total (fun (r : Range) => 2 * r.cells.flatten.length) m.st.ranges x.st.ranges
  simp only [mu, workFuel]
  omega

theorem step_mu {m x : XModel} (hwf : WF m) (hs : Sub x m) (t : Addr)
    (rest : List Addr) : mu m (step m x t).1 ((step m x t).2 ++ rest) + 1 ≤ mu m x (t :: rest) := by
  rcases step_cases m x t with ⟨hr, hc, he⟩ | ⟨_, he⟩
  · rw [he]
    obtain ⟨_, hcells, hranges, _, hn1, hn2, hn3⟩ := nameStep_spec hs t
    have hcons : wsum m (t :: rest) = wt m t + wsum m rest := by simp [wsum, sumNat]
    simp only [mu, hcells, hranges, wsum_append, hcons]
    cases hn : assoc t m.st.names with
    | some a =>
      have hisn : m.isName t = true := by
        simp only [XModel.isName, Bool.or_eq_true]; exact Or.inl (hasKey_true.mpr ⟨_, hn⟩)
      have h2 : wt m t = 2 := by simp [wt, isNameTerm, hr, hc, hisn]
      have h1 : wsum m (nameStep m x t).2 = 1 := by
        rw [(hn1 a hn).2]
        simp [wsum, sumNat, wt, isNameTerm, hwf.targetNotName t a hn]
      omega
    | none =>
      cases hrn : assoc t m.rnames with
      | some rn =>
        have hisn : m.isName t = true := by
          simp only [XModel.isName, Bool.or_eq_true]; exact Or.inr (hasKey_true.mpr ⟨_, hrn⟩)
        have h2 : wt m t = 2 := by simp [wt, isNameTerm, hr, hc, hisn]
        have h1 : wsum m (nameStep m x t).2 = 1 := by
          rw [(hn2 hn rn hrn).2]
          simp [wsum, sumNat, wt, isNameTerm, key_not_name hwf hrn]
        omega
      | none =>
        have h1 : wsum m (nameStep m x t).2 = 0 := by rw [hn3 hn hrn]; simp [wsum, sumNat]
        have := wt_pos m t
        omega
  · rw [he]
    have hcons : wsum m (t :: rest) = wt m t + wsum m rest := by simp [wsum, sumNat]
    have hpos := wt_pos m t
    rcases baseStep_cases m x t with ⟨r, h1, h2, h3⟩ | ⟨c, h1, h2, _, h4⟩ | ⟨_, _, h3⟩
    · rw [h3]
      have := pending_assocSet (fun (r : Range) => 2 * r.cells.flatten.length) m.st.ranges x.st.ranges t r r h1
        (hasKey_false.mpr h2)
      have hw := wsum_le m r.cells.flatten.reverse
      simp only [mu, XModel.setRange, wsum_append, hcons, List.length_reverse] at this hw ⊢
      omega
    · rw [h4]
      have := pending_assocSet (fun c => 2 * (cellTerms c).length) m.st.cells x.st.cells t c c h1
        (hasKey_false.mpr h2)
      have hw := wsum_le m (cellTerms c).reverse
      simp only [mu, XModel.setCell, wsum_append, hcons, List.length_reverse] at this hw ⊢
      omega
    · rw [h3]
      simp only [mu, List.nil_append, hcons]
      omega

theorem worklist_finishes {m : XModel} (hwf : WF m) :
    ∀ (n : Nat) (x : XModel) (todo : List Addr), Sub x m → mu m x todo ≤ n → (worklist m n x todo).2 = []
  | 0, x, todo, _, h => by
    simp only [worklist]
    cases todo with
    | nil => rfl
    | cons t rest =>
      have := wt_pos m t
      simp only [mu, wsum, List.map_cons, sumNat] at h
      omega
  | n + 1, x, [], _, _ => by simp [worklist]
  | n + 1, x, t :: rest, hs, h => by
    simp only [worklist]
    apply worklist_finishes hwf n _ _ (step_grow hs t).sub
    have := step_mu hwf hs t rest
    omega

end XlVerif.Lemmas.C13
