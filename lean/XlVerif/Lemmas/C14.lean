/-
  Helper lemmas for C14 (aggregates): folds over ℚ, permutations, the bodies of the model as folds,
  validation on clean input, the domain of the property, SUMPRODUCT, the range builder, splits.
  Imports single Mathlib modules (ring, linarith, the ordered field ℚ).
-/
import Mathlib.Tactic.Ring
import Mathlib.Tactic.Linarith
import Mathlib.Algebra.Order.Field.Rat
import XlVerif.Model.C14
import XlVerif.Spec.C14
namespace XlVerif.Lemmas.C14
open XlVerif XlVerif.Model.Value XlVerif.Model.C14 XlVerif.Spec.C14

theorem rsum_append (a b : List Rat) : rsum (a ++ b) = rsum a + rsum b := by
  induction a with
  | nil => simp [rsum]
  | cons x xs ih => simp [rsum, ih]; ring

theorem rsum_perm {a b : List Rat} (h : a.Perm b) : rsum a = rsum b := by
  induction h with
  | nil => rfl
  | cons x _ ih => simp [rsum, ih]
  | swap x y l => simp [rsum]; ring
  | trans _ _ ih1 ih2 => exact ih1.trans ih2

theorem rmin_eq (a b : Rat) : rmin a b = min a b := by unfold rmin; rw [min_def]
theorem rmax_eq (a b : Rat) : rmax a b = max a b := by unfold rmax; rw [max_def]

theorem minL_perm {a b : List Rat} (h : a.Perm b) : minL a = minL b := by
  induction h with
  | nil => rfl
  | cons x _ ih => simp [minL, ih]
  | swap x y l =>
      simp only [minL]; cases minL l <;> simp [rmin_eq, min_comm, min_left_comm]
  | trans _ _ ih1 ih2 => exact ih1.trans ih2

theorem maxL_perm {a b : List Rat} (h : a.Perm b) : maxL a = maxL b := by
  induction h with
  | nil => rfl
  | cons x _ ih => simp [maxL, ih]
  | swap x y l =>
      simp only [maxL]; cases maxL l <;> simp [rmax_eq, max_comm, max_left_comm]
  | trans _ _ ih1 ih2 => exact ih1.trans ih2

theorem add_toRat (a b : Num) : (Num.add a b).toRat = a.toRat + b.toRat := by
  cases a <;> cases b <;> simp [Num.add, Num.toRat]
theorem mul_toRat (a b : Num) : (Num.mul a b).toRat = a.toRat * b.toRat := by
  cases a <;> cases b <;> simp [Num.mul, Num.toRat]

theorem foldl_add_toRat (ns : List Num) (a : Num) :
    (ns.foldl Num.add a).toRat = a.toRat + rsum (ns.map Num.toRat) := by
  induction ns generalizing a with
  | nil => simp [rsum]
  | cons n ns ih => simp [List.foldl, ih, add_toRat, rsum]; ring

theorem sumNum_toRat (ns : List Num) : (sumNum ns).toRat = rsum (ns.map Num.toRat) := by
  unfold sumNum; rw [foldl_add_toRat]; simp [Num.toRat]


/-! ### bounds: minimum ≤ every element ≤ maximum, minimum ≤ mean ≤ maximum -/

theorem minL_le {l : List Rat} {m : Rat} (h : minL l = some m) : ∀ x ∈ l, m ≤ x := by
  induction l generalizing m with
  | nil => simp
  | cons y ys ih =>
    intro x hx
    simp only [minL, Option.some.injEq] at h
    cases hm : minL ys with
    | none =>
      rw [hm] at h; subst h
      cases ys with
      | nil => simp at hx; simp [hx]
      | cons z zs => simp [minL] at hm
    | some m' =>
      rw [hm] at h; subst h
      show rmin y m' ≤ x
      rw [rmin_eq]
      rcases List.mem_cons.mp hx with rfl | hx
      · exact min_le_left _ _
      · exact le_trans (min_le_right _ _) (ih hm x hx)

theorem le_maxL {l : List Rat} {m : Rat} (h : maxL l = some m) : ∀ x ∈ l, x ≤ m := by
  induction l generalizing m with
  | nil => simp
  | cons y ys ih =>
    intro x hx
    simp only [maxL, Option.some.injEq] at h
    cases hm : maxL ys with
    | none =>
      rw [hm] at h; subst h
      cases ys with
      | nil => simp at hx; simp [hx]
      | cons z zs => simp [maxL] at hm
    | some m' =>
      rw [hm] at h; subst h
      show x ≤ rmax y m'
      rw [rmax_eq]
      rcases List.mem_cons.mp hx with rfl | hx
      · exact le_max_left _ _
      · exact le_trans (ih hm x hx) (le_max_right _ _)

theorem minL_mem {l : List Rat} {m : Rat} (h : minL l = some m) : m ∈ l := by
  induction l generalizing m with
  | nil => simp [minL] at h
  | cons y ys ih =>
    simp only [minL, Option.some.injEq] at h
    cases hm : minL ys with
    | none => rw [hm] at h; subst h; simp
    | some m' =>
      rw [hm] at h; subst h
      show rmin y m' ∈ y :: ys
      rw [rmin_eq]
      rcases min_choice y m' with e | e <;> rw [e]
      · simp
      · exact List.mem_cons_of_mem _ (ih hm)

theorem maxL_mem {l : List Rat} {m : Rat} (h : maxL l = some m) : m ∈ l := by
  induction l generalizing m with
  | nil => simp [maxL] at h
  | cons y ys ih =>
    simp only [maxL, Option.some.injEq] at h
    cases hm : maxL ys with
    | none => rw [hm] at h; subst h; simp
    | some m' =>
      rw [hm] at h; subst h
      show rmax y m' ∈ y :: ys
      rw [rmax_eq]
      rcases max_choice y m' with e | e <;> rw [e]
      · simp
      · exact List.mem_cons_of_mem _ (ih hm)

theorem lower_mul_le_rsum {l : List Rat} {lo : Rat} (h : ∀ x ∈ l, lo ≤ x) :
    lo * (l.length : Rat) ≤ rsum l := by
  induction l with
  | nil => simp [rsum]
  | cons y ys ih =>
    have h1 := h y (by simp)
    have h2 := ih (fun x hx => h x (List.mem_cons_of_mem _ hx))
    simp only [List.length_cons, rsum]
    push_cast
    linarith

theorem rsum_le_upper_mul {l : List Rat} {hi : Rat} (h : ∀ x ∈ l, x ≤ hi) :
    rsum l ≤ hi * (l.length : Rat) := by
  induction l with
  | nil => simp [rsum]
  | cons y ys ih =>
    have h1 := h y (by simp)
    have h2 := ih (fun x hx => h x (List.mem_cons_of_mem _ hx))
    simp only [List.length_cons, rsum]
    push_cast
    linarith

/-- for a non-empty list of rationals: minimum ≤ mean ≤ maximum -/
theorem minL_le_meanL_le_maxL {l : List Rat} (hne : l ≠ []) :
    ∃ lo m hi, minL l = some lo ∧ meanL l = some m ∧ maxL l = some hi ∧ lo ≤ m ∧ m ≤ hi := by
  cases l with
  | nil => exact absurd rfl hne
  | cons y ys =>
    have hpos : (0 : Rat) < ((y :: ys).length : Rat) := by
      simp only [List.length_cons]; push_cast; positivity
    refine ⟨_, _, _, rfl, rfl, rfl, ?_, ?_⟩
    · rw [le_div_iff₀ hpos]
      exact lower_mul_le_rsum (minL_le rfl)
    · rw [div_le_iff₀ hpos]
      exact rsum_le_upper_mul (le_maxL rfl)

/-! ### `xl.flatten` and `Array.flat` -/

theorem flatArgs_eq (args : List Arg) : flatArgs args = (args.map Arg.flat).flatten := by
  induction args with
  | nil => simp [flatArgs]
  | cons a as ih => simp [flatArgs, ih]

theorem flatArgs_append (a b : List Arg) : flatArgs (a ++ b) = flatArgs a ++ flatArgs b := by
  simp [flatArgs_eq]

theorem flatArgs_perm {a b : List Arg} (h : a.Perm b) : (flatArgs a).Perm (flatArgs b) := by
  rw [flatArgs_eq, flatArgs_eq]; exact (h.map _).flatten

theorem length_le_width {rows : List (List Py)} : ∀ r ∈ rows, r.length ≤ width rows := by
  induction rows with
  | nil => simp
  | cons r rs ih =>
    intro x hx
    simp only [width, List.foldr_cons]
    rcases List.mem_cons.mp hx with rfl | hx
    · exact Nat.le_max_left _ _
    · exact Nat.le_trans (ih x hx) (Nat.le_max_right _ _)

theorem width_le_of_rect {rows : List (List Py)} {w : Nat} (h : ∀ r ∈ rows, r.length = w) :
    width rows ≤ w := by
  induction rows with
  | nil => simp [width]
  | cons r rs ih =>
    simp only [width, List.foldr_cons]
    have h1 := h r (by simp)
    have h2 := ih (fun x hx => h x (List.mem_cons_of_mem _ hx))
    exact Nat.max_le.mpr ⟨by omega, h2⟩

/-- a rectangular Array is not padded: `.flat` is the concatenation of its rows -/
theorem arrFlat_rect {rows : List (List Py)} {w : Nat} (h : ∀ r ∈ rows, r.length = w) :
    arrFlat rows = rows.flatten := by
  unfold arrFlat
  have hw := width_le_of_rect h
  congr 1
  conv => rhs; rw [← List.map_id rows]
  apply List.map_congr_left
  intro r hr
  have := h r hr
  simp [padRow, show width rows - r.length = 0 by omega]

/-- the width depends on the row lengths only -/
theorem width_eq_of_lengths {a b : List (List Py)} (h : a.map List.length = b.map List.length) :
    width a = width b := by
  induction a generalizing b with
  | nil => cases b <;> simp_all [width]
  | cons r rs ih =>
    cases b with
    | nil => simp at h
    | cons r' rs' =>
      simp only [List.map_cons, List.cons.injEq] at h
      simp only [width, List.foldr_cons, h.1]
      have := ih h.2
      simp only [width] at this
      rw [this]

theorem shape_eq_of_lengths {a b : List (List Py)} (h : a.map List.length = b.map List.length) :
    shape a = shape b := by
  unfold shape
  rw [width_eq_of_lengths h]
  have : (a.map List.length).length = (b.map List.length).length := by rw [h]
  simp at this
  rw [this]

/-! ### the bodies as folds over ℚ -/

theorem sumBody_toRat (ns : List Num) : (sumBody ns).toRat = rsum (ns.map Num.toRat) := by
  unfold sumBody
  split
  · have : ns = [] := List.eq_nil_of_length_eq_zero ‹_›
    subst this; simp [rsum, Num.toRat]
  · exact sumNum_toRat ns

theorem avgBody_toRat (ns : List Num) :
    (avgBody ns).toRat = (meanL (ns.map Num.toRat)).getD 0 := by
  cases ns with
  | nil => simp [avgBody, meanL, Num.toRat]
  | cons n ns =>
    simp only [avgBody, List.length_cons, List.map_cons, meanL, Option.getD_some, List.length_map]
    rw [if_neg (by omega)]
    show (sumNum (n :: ns)).toRat / _ = _
    rw [sumNum_toRat]; rfl

theorem pyMaxFrom_toRat (m : Num) (xs : List Num) :
    (pyMaxFrom m xs).toRat =
      (match maxL (xs.map Num.toRat) with | none => m.toRat | some M => rmax m.toRat M) := by
  induction xs generalizing m with
  | nil => simp [pyMaxFrom, maxL]
  | cons x xs ih =>
    simp only [pyMaxFrom, List.map_cons, maxL]
    split
    · rename_i hlt
      rw [ih x]
      cases maxL (xs.map Num.toRat) with
      | none => simp only [rmax_eq]; rw [max_eq_right (le_of_lt hlt)]
      | some M =>
        simp only [rmax_eq]
        rw [max_eq_right (le_trans (le_of_lt hlt) (le_max_left _ _))]
    · rename_i hlt
      have hle : x.toRat ≤ m.toRat := not_lt.mp hlt
      rw [ih m]
      cases maxL (xs.map Num.toRat) with
      | none => simp only [rmax_eq]; rw [max_eq_left hle]
      | some M =>
        simp only [rmax_eq]
        rw [← max_assoc, max_eq_left hle]

theorem pyMinFrom_toRat (m : Num) (xs : List Num) :
    (pyMinFrom m xs).toRat =
      (match minL (xs.map Num.toRat) with | none => m.toRat | some M => rmin m.toRat M) := by
  induction xs generalizing m with
  | nil => simp [pyMinFrom, minL]
  | cons x xs ih =>
    simp only [pyMinFrom, List.map_cons, minL]
    split
    · rename_i hlt
      rw [ih x]
      cases minL (xs.map Num.toRat) with
      | none => simp only [rmin_eq]; rw [min_eq_right (le_of_lt hlt)]
      | some M =>
        simp only [rmin_eq]
        rw [min_eq_right (le_trans (min_le_left _ _) (le_of_lt hlt))]
    · rename_i hlt
      have hle : m.toRat ≤ x.toRat := not_lt.mp hlt
      rw [ih m]
      cases minL (xs.map Num.toRat) with
      | none => simp only [rmin_eq]; rw [min_eq_left hle]
      | some M =>
        simp only [rmin_eq]
        rw [← min_assoc, min_eq_left hle]

theorem maxBody_toRat (ns : List Num) : (maxBody ns).toRat = (maxL (ns.map Num.toRat)).getD 0 := by
  cases ns with
  | nil => simp [maxBody, maxL, Num.toRat]
  | cons n ns =>
    simp only [maxBody, pyMaxFrom_toRat, List.map_cons, maxL, Option.getD_some]
    cases maxL (ns.map Num.toRat) <;> rfl

theorem minBody_toRat (ns : List Num) : (minBody ns).toRat = (minL (ns.map Num.toRat)).getD 0 := by
  cases ns with
  | nil => simp [minBody, minL, Num.toRat]
  | cons n ns =>
    simp only [minBody, pyMinFrom_toRat, List.map_cons, minL, Option.getD_some]
    cases minL (ns.map Num.toRat) <;> rfl

/-! ### validation of `Tuple[XlNumber]` on clean input -/

def keptOf : Cast → Option Num
  | .keep n => some n
  | _ => none

/-- the validated tuple when nothing stops the validation -/
def kept (ext : Ext) (vs : List Py) : List Num :=
  (vs.filter fun v => !isBlankObj v).filterMap fun v => keptOf (castItem ext v)

/-- no error item, and every item is either kept as a number or dropped -/
def Clean (ext : Ext) (vs : List Py) : Prop :=
  (∀ v ∈ vs, errOf v = none) ∧ ∀ v ∈ vs, castItem ext v = .drop ∨ ∃ n, castItem ext v = .keep n

theorem firstError_none_iff {vs : List Py} : firstError vs = none ↔ ∀ v ∈ vs, errOf v = none := by
  unfold firstError; exact List.findSome?_eq_none_iff

theorem castAll_clean {ext : Ext} {vs : List Py}
    (h : ∀ v ∈ vs, castItem ext v = .drop ∨ ∃ n, castItem ext v = .keep n) :
    castAll ext vs = .ok (vs.filterMap fun v => keptOf (castItem ext v)) := by
  induction vs with
  | nil => rfl
  | cons v vs ih =>
    have ih' := ih (fun x hx => h x (List.mem_cons_of_mem _ hx))
    rcases h v (by simp) with hd | ⟨n, hk⟩
    · simp [castAll, hd, keptOf, ih']
    · simp [castAll, hk, keptOf, ih', Except.map]

theorem validate_clean {ext : Ext} {args : List Arg} (h : Clean ext (flatArgs args)) :
    validateNumbers ext args = .ok (kept ext (flatArgs args)) := by
  unfold validateNumbers
  simp only [firstError_none_iff.mpr h.1]
  exact castAll_clean (fun v hv => h.2 v (List.mem_filter.mp hv).1)

theorem Clean.perm {ext : Ext} {a b : List Py} (hp : a.Perm b) (h : Clean ext a) : Clean ext b :=
  ⟨fun v hv => h.1 v (hp.mem_iff.mpr hv), fun v hv => h.2 v (hp.mem_iff.mpr hv)⟩

theorem kept_perm {ext : Ext} {a b : List Py} (hp : a.Perm b) : (kept ext a).Perm (kept ext b) :=
  (hp.filter _).filterMap _

/-! ### the property's domain -/

def numS : S → Option Num
  | .num n => some n
  | _ => none

theorem numOf_eq (x : S) : numOf x = (numS x).map Num.toRat := by cases x <;> rfl

theorem nums_eq (xs : List S) : nums xs = (xs.filterMap numS).map Num.toRat := by
  unfold nums
  rw [List.map_filterMap]
  congr 1
  funext x
  exact numOf_eq x

/-- a value of the property's domain that is not a BLANK: a number, or a text that is not numeric (the
    empty string of a cell explicitly emptied is one) -/
def InDom (ext : Ext) : S → Prop
  | .num _ => True
  | .text s => textNumber ext s = NumR.xl Code.value
  | _ => False

theorem castItem_dom {ext : Ext} {x : S} (h : InDom ext x) :
    castItem ext (typedPy x) = (match numS x with | some n => .keep n | none => .drop) := by
  cases x <;> simp [InDom] at h <;> simp [castItem, typedPy, pyToS, Py.typed?, toNumber, numS, h]

theorem errOf_dom {ext : Ext} {x : S} (h : InDom ext x) : errOf (typedPy x) = none := by
  cases x <;> simp [InDom] at h <;> rfl

/-- the property's domain: also BLANK objects (an empty member of a range, a reference to a never-stored
    cell) are admitted: the number lists
    skip them, SUMPRODUCT counts them as zero -/
def InDomB (ext : Ext) (x : S) : Prop := x = S.blank ∨ InDom ext x

/-- `to_number(item).value` on a value of the domain -/
def numOr0S : S → Num
  | .num n => n
  | .blank => .flt 0
  | _ => .int 0

theorem numOr0S_toRat (x : S) : (numOr0S x).toRat = valOr0 x := by
  cases x <;> simp [numOr0S, valOr0, numOf, Num.toRat]

theorem castItem_domB {ext : Ext} {x : S} (h : InDomB ext x) :
    castItem ext (typedPy x) = .keep (numOr0S x) ∨
      (castItem ext (typedPy x) = .drop ∧ numOr0S x = .int 0) := by
  rcases h with rfl | h
  · left; simp [castItem, typedPy, pyToS, Py.typed?, toNumber, numOr0S]
  · rw [castItem_dom h]
    cases x <;> simp [InDom] at h <;> simp [numS, numOr0S]

theorem errOf_domB {ext : Ext} {x : S} (h : InDomB ext x) : errOf (typedPy x) = none := by
  rcases h with rfl | h
  · rfl
  · exact errOf_dom h

theorem isBlankObj_typed (x : S) : isBlankObj (typedPy x) = true ↔ x = S.blank := by
  cases x <;> simp [isBlankObj, typedPy]

theorem clean_dom {ext : Ext} {xs : List S} (h : ∀ x ∈ xs, InDomB ext x) :
    Clean ext (xs.map typedPy) := by
  constructor
  · intro v hv
    obtain ⟨x, hx, rfl⟩ := List.mem_map.mp hv
    exact errOf_domB (h x hx)
  · intro v hv
    obtain ⟨x, hx, rfl⟩ := List.mem_map.mp hv
    rcases castItem_domB (h x hx) with hk | ⟨hd, _⟩
    · exact Or.inr ⟨_, hk⟩
    · exact Or.inl hd

theorem filterMap_congr' {α β : Type} {f g : α → Option β} {l : List α}
    (h : ∀ x ∈ l, f x = g x) : l.filterMap f = l.filterMap g := by
  induction l with
  | nil => rfl
  | cons x xs ih =>
    simp only [List.filterMap_cons, h x (by simp), ih (fun y hy => h y (List.mem_cons_of_mem _ hy))]

theorem keptOf_keep (n : Num) : keptOf (.keep n) = some n := rfl
theorem keptOf_drop : keptOf .drop = none := rfl

/-- on the domain the validated tuple is exactly the numbers: texts and empty cells are dropped by
    the cast, BLANK objects are skipped -/
theorem kept_dom {ext : Ext} {xs : List S} (h : ∀ x ∈ xs, InDomB ext x) :
    kept ext (xs.map typedPy) = xs.filterMap numS := by
  unfold kept
  induction xs with
  | nil => rfl
  | cons x xs ih =>
    have ih' := ih (fun y hy => h y (List.mem_cons_of_mem _ hy))
    rcases h x (by simp) with rfl | hx
    · have hb : (!isBlankObj (typedPy S.blank)) = false := rfl
      simp only [List.map_cons, List.filter_cons, hb, Bool.false_eq_true, if_false, ih',
        List.filterMap_cons, numS]
    · have hnb : (!isBlankObj (typedPy x)) = true := by
        cases x <;> simp [InDom] at hx <;> rfl
      have hc := castItem_dom hx
      simp only [List.map_cons, List.filter_cons, hnb, if_true, List.filterMap_cons, hc, ih']
      cases numS x <;> rfl

/-- the model's view of an argument of the statement -/
def conc : A → Arg
  | .scalar x => .scalar (typedPy x)
  | .range rows => .arr (rows.map fun r => r.map typedPy)

/-- an argument whose values satisfy `P`; a range is rectangular -/
def ArgOK (P : S → Prop) : A → Prop
  | .scalar x => P x
  | .range rows => (∃ w, ∀ r ∈ rows, r.length = w) ∧ ∀ r ∈ rows, ∀ x ∈ r, P x

theorem cells_ok {P : S → Prop} {a : A} (h : ArgOK P a) : ∀ x ∈ a.cells, P x := by
  cases a with
  | scalar x => simpa [A.cells, ArgOK] using h
  | range rows =>
    intro x hx
    simp only [A.cells, List.mem_flatten] at hx
    obtain ⟨r, hr, hxr⟩ := hx
    exact h.2 r hr x hxr

theorem addressed_ok {P : S → Prop} {as : List A} (h : ∀ a ∈ as, ArgOK P a) :
    ∀ x ∈ addressed as, P x := by
  induction as with
  | nil => simp [addressed]
  | cons a as ih =>
    intro x hx
    simp only [addressed, List.mem_append] at hx
    rcases hx with hx | hx
    · exact cells_ok (h a (by simp)) x hx
    · exact ih (fun b hb => h b (List.mem_cons_of_mem _ hb)) x hx

theorem flat_conc {P : S → Prop} {a : A} (h : ArgOK P a) : (conc a).flat = a.cells.map typedPy := by
  cases a with
  | scalar x => simp [conc, Arg.flat, A.cells]
  | range rows =>
    obtain ⟨⟨w, hw⟩, _⟩ := h
    simp only [conc, Arg.flat, A.cells]
    rw [arrFlat_rect (w := w)]
    · simp [List.map_flatten]
    · intro r hr
      obtain ⟨r', hr', rfl⟩ := List.mem_map.mp hr
      simpa using hw r' hr'

theorem flatArgs_conc {P : S → Prop} {as : List A} (h : ∀ a ∈ as, ArgOK P a) :
    flatArgs (as.map conc) = (addressed as).map typedPy := by
  induction as with
  | nil => rfl
  | cons a as ih =>
    simp only [List.map_cons, flatArgs, addressed, List.map_append]
    rw [flat_conc (h a (by simp)), ih (fun b hb => h b (List.mem_cons_of_mem _ hb))]

theorem validate_dom {ext : Ext} {as : List A} (h : ∀ a ∈ as, ArgOK (InDomB ext) a) :
    validateNumbers ext (as.map conc) = .ok ((addressed as).filterMap numS) := by
  have hc : Clean ext (flatArgs (as.map conc)) := by
    rw [flatArgs_conc h]; exact clean_dom (addressed_ok h)
  rw [validate_clean hc, flatArgs_conc h, kept_dom (addressed_ok h)]

/-! ### COUNT, COUNTA -/

theorem isNumberType_typed (x : S) : isNumberType (typedPy x) = (numS x).isSome := by
  cases x <;> rfl

theorem isBlankPy_typed (x : S) : isBlankPy (typedPy x) = Spec.C14.isEmpty x := by
  cases x with
  | text s => cases s <;> rfl
  | _ => rfl

theorem typedPy_ne_none (x : S) : typedPy x ≠ Py.none := by cases x <;> simp [typedPy]

theorem filter_isSome_length {α β : Type} (f : α → Option β) (l : List α) :
    (l.filter fun x => (f x).isSome).length = (l.filterMap f).length := by
  induction l with
  | nil => rfl
  | cons x xs ih =>
    cases h : f x <;> simp [h, ih]

theorem count_typed (xs : List S) :
    ((xs.map typedPy).filter isNumberType).length = Spec.C14.count xs := by
  rw [List.filter_map, List.length_map]
  have : (isNumberType ∘ typedPy) = fun x => (numS x).isSome := by
    funext x; exact isNumberType_typed x
  rw [this, filter_isSome_length, Spec.C14.count, nums_eq, List.length_map]

theorem counta_typed (xs : List S) :
    ((xs.map typedPy).filter fun v => !isBlankPy v).length = Spec.C14.counta xs := by
  rw [List.filter_map, List.length_map]
  have : ((fun v => !isBlankPy v) ∘ typedPy) = fun x => !Spec.C14.isEmpty x := by
    funext x; simp [Function.comp, isBlankPy_typed]
  rw [this, Spec.C14.counta]

theorem head_typed_ne_none (xs : List S) : (xs.map typedPy).head? ≠ some Py.none := by
  cases xs with
  | nil => simp
  | cons x xs => simpa using typedPy_ne_none x

/-! ### error items -/

theorem firstError_leftmost {pre post : List Py} {c : Code} (h : ∀ v ∈ pre, errOf v = none) :
    firstError (pre ++ Py.xErr c :: post) = some c := by
  unfold firstError
  rw [List.findSome?_append, List.findSome?_eq_none_iff.mpr h]
  simp [List.findSome?_cons, errOf]

/-! ### SUMPRODUCT -/

theorem foldl_mul_toRat (t : List Num) (a : Num) :
    (t.foldl Num.mul a).toRat = a.toRat * (t.foldl Num.mul (Num.int 1)).toRat := by
  induction t generalizing a with
  | nil => simp [Num.toRat]
  | cons x t ih =>
    simp only [List.foldl_cons]
    rw [ih (Num.mul a x), ih (Num.mul (Num.int 1) x), mul_toRat, mul_toRat]
    simp only [Num.toRat, Int.cast_one]
    ring

theorem prodNum_cons (x : Num) (t : List Num) :
    (prodNum (x :: t)).toRat = x.toRat * (prodNum t).toRat := by
  unfold prodNum
  rw [List.foldl_cons, foldl_mul_toRat, mul_toRat]
  simp [Num.toRat]

theorem prodNum_nil : (prodNum []).toRat = 1 := by simp [prodNum, Num.toRat]

theorem pointMul_ones {c : List Rat} {n : Nat} (h : c.length = n) :
    pointMul c (List.replicate n 1) = c := by
  subst h
  induction c with
  | nil => rfl
  | cons x xs ih =>
    simp only [List.length_cons, List.replicate_succ, pointMul, List.zipWith_cons_cons, mul_one]
    simp only [pointMul] at ih
    rw [ih]

theorem map_prod_zipWith_cons (c : List Num) (T : List (List Num)) :
    (List.zipWith (fun x t => x :: t) c T).map (fun t => (prodNum t).toRat) =
      pointMul (c.map Num.toRat) (T.map fun t => (prodNum t).toRat) := by
  induction c generalizing T with
  | nil => simp [pointMul]
  | cons x xs ih =>
    cases T with
    | nil => simp [pointMul]
    | cons t ts =>
      simp only [List.zipWith_cons_cons, List.map_cons, pointMul, prodNum_cons, List.cons.injEq,
        true_and]
      have := ih ts
      simp only [pointMul] at this
      exact this

theorem zipCols_products {n : Nat} : ∀ (cols : List (List Num)), cols ≠ [] →
    (∀ c ∈ cols, c.length = n) →
    (zipCols cols).map (fun t => (prodNum t).toRat) = products n (cols.map fun c => c.map Num.toRat)
  | [], h, _ => absurd rfl h
  | [c], _, hl => by
    have hc : (c.map Num.toRat).length = n := by simpa using hl c (by simp)
    simp only [zipCols, products, List.map_cons, List.map_nil, List.foldr_cons, List.foldr_nil,
      List.map_map, pointMul_ones hc]
    apply List.map_congr_left
    intro x _
    simp [Function.comp, prodNum_cons, prodNum_nil]
  | c :: c' :: cs, _, hl => by
    have ih := zipCols_products (n := n) (c' :: cs) (by simp)
      (fun d hd => hl d (List.mem_cons_of_mem _ hd))
    show (List.zipWith (fun x t => x :: t) c (zipCols (c' :: cs))).map _ = _
    rw [map_prod_zipWith_cons, ih]
    simp [products]

theorem numOr0All_dom {ext : Ext} {xs : List S} (h : ∀ x ∈ xs, InDomB ext x) :
    numOr0All ext (xs.map typedPy) = .ok (xs.map numOr0S) := by
  induction xs with
  | nil => rfl
  | cons x xs ih =>
    have ih' := ih (fun y hy => h y (List.mem_cons_of_mem _ hy))
    rcases castItem_domB (h x (by simp)) with hk | ⟨hd, h0⟩
    · simp [numOr0All, hk, ih', Except.map]
    · simp [numOr0All, hd, h0, ih', Except.map]

/-- the rows of a range as the Array the model receives -/
def tp (rows : List (List S)) : List (List Py) := rows.map fun r => r.map typedPy

theorem arrFlat_tp {rows : List (List S)} (h : ∃ w, ∀ r ∈ rows, r.length = w) :
    arrFlat (tp rows) = rows.flatten.map typedPy := by
  obtain ⟨w, hw⟩ := h
  rw [arrFlat_rect (w := w)]
  · simp [tp, List.map_flatten]
  · intro r hr
    obtain ⟨r', hr', rfl⟩ := List.mem_map.mp hr
    simpa using hw r' hr'

theorem hasErr_tp {ext : Ext} {rows : List (List S)} (h : ∃ w, ∀ r ∈ rows, r.length = w)
    (hd : ∀ r ∈ rows, ∀ x ∈ r, InDomB ext x) : hasErr (tp rows) = false := by
  unfold hasErr
  rw [arrFlat_tp h, List.any_eq_false]
  intro v hv
  obtain ⟨x, hx, rfl⟩ := List.mem_map.mp hv
  obtain ⟨r, hr, hxr⟩ := List.mem_flatten.mp hx
  simp [errOf_domB (hd r hr x hxr)]

theorem tp_lengths (rows : List (List S)) : (tp rows).map List.length = dims rows := by
  simp [tp, dims, List.map_map, Function.comp_def]

theorem shape_tp_eq {a b : List (List S)} (h : dims b = dims a) : shape (tp b) = shape (tp a) := by
  apply shape_eq_of_lengths
  rw [tp_lengths, tp_lengths, h]

theorem checkArrays_none {sh : Nat × Nat} {as : List (List (List Py))}
    (h : ∀ a ∈ as, shape a = sh ∧ hasErr a = false) : checkArrays sh as = none := by
  induction as with
  | nil => rfl
  | cons a as ih =>
    obtain ⟨h1, h2⟩ := h a (by simp)
    simp [checkArrays, h1, h2, ih (fun b hb => h b (List.mem_cons_of_mem _ hb))]

theorem columnsOf_ok {ext : Ext} {as : List (List (List Py))} {g : List (List Py) → List Num}
    (h : ∀ a ∈ as, numOr0All ext (arrFlat a) = .ok (g a)) : columnsOf ext as = .ok (as.map g) := by
  induction as with
  | nil => rfl
  | cons a as ih =>
    simp [columnsOf, h a (by simp), ih (fun b hb => h b (List.mem_cons_of_mem _ hb)), Except.map]

theorem flatten_length_of_dims {a b : List (List S)} (h : dims b = dims a) :
    b.flatten.length = a.flatten.length := by
  simp only [List.length_flatten]
  simp only [dims] at h
  rw [h]

theorem columnsOf_tp {ext : Ext} {bs : List (List (List S))}
    (hrect : ∀ b ∈ bs, ∃ w, ∀ r ∈ b, r.length = w)
    (hdom : ∀ b ∈ bs, ∀ r ∈ b, ∀ x ∈ r, InDomB ext x) :
    columnsOf ext (bs.map tp) = .ok (bs.map fun rows => rows.flatten.map numOr0S) := by
  induction bs with
  | nil => rfl
  | cons b bs ih =>
    have hb : numOr0All ext (arrFlat (tp b)) = .ok (b.flatten.map numOr0S) := by
      rw [arrFlat_tp (hrect b (by simp))]
      apply numOr0All_dom
      intro y hy
      obtain ⟨r, hr, hyr⟩ := List.mem_flatten.mp hy
      exact hdom b (by simp) r hr y hyr
    have ih' := ih (fun c hc => hrect c (List.mem_cons_of_mem _ hc))
      (fun c hc => hdom c (List.mem_cons_of_mem _ hc))
    simp [columnsOf, hb, ih', Except.map]

/-- the body of SUMPRODUCT after `Array.cast` of every argument -/
def spCore (ext : Ext) (arrays : List (List (List Py))) : VR Num :=
  match arrays with
  | [] => .error (.xl .null)
  | a1 :: _ =>
    if shape a1 = (0, 0) then .ok (.int 0)
    else
      match checkArrays (shape a1) arrays with
      | some c => .error (.xl c)
      | none => (columnsOf ext arrays).map fun cols => sumNum ((zipCols cols).map prodNum)

theorem SUMPRODUCT_eq (ext : Ext) (args : List Arg) :
    SUMPRODUCT ext args = spCore ext (args.map toRows) := rfl

/-- SUMPRODUCT on equally shaped rectangular ranges over the domain is the reference value -/
theorem sumproduct_refines {ext : Ext} (a : List (List S)) (rest : List (List (List S)))
    (hrect : ∀ b ∈ a :: rest, ∃ w, ∀ r ∈ b, r.length = w)
    (hdom : ∀ b ∈ a :: rest, ∀ r ∈ b, ∀ x ∈ r, InDomB ext x)
    (hdims : ∀ b ∈ rest, dims b = dims a) :
    ∃ n, SUMPRODUCT ext ((a :: rest).map fun rows => conc (A.range rows)) = .ok n ∧
      Spec.C14.sumproduct (a :: rest) = some n.toRat := by
  have hall : rest.all (fun b => decide (dims b = dims a)) = true := by
    simp only [List.all_eq_true, decide_eq_true_eq]; exact hdims
  have hspec : Spec.C14.sumproduct (a :: rest) =
      some (rsum (products (vals a).length ((a :: rest).map vals))) := by
    simp only [Spec.C14.sumproduct, hall, if_true]
  have hrows : ((a :: rest).map fun rows => conc (A.range rows)).map toRows = (a :: rest).map tp := by
    simp [conc, toRows, tp]
  rw [SUMPRODUCT_eq, hrows]
  simp only [List.map_cons, spCore]
  by_cases h0 : shape (tp a) = (0, 0)
  · -- `Array([])`: the code answers 0
    refine ⟨.int 0, by simp [h0], ?_⟩
    have ha : a = [] := by
      have : (tp a).length = 0 := by simpa [shape] using congrArg Prod.fst h0
      simpa [tp] using this
    subst ha
    rw [hspec]
    have : ∀ cols : List (List Rat), products 0 cols = [] := by
      intro cols
      induction cols with
      | nil => rfl
      | cons c cs ih => simp [products, pointMul] at ih ⊢; simp [ih]
    simp [vals, this, rsum, Num.toRat]
  · rw [if_neg h0]
    have hchk : checkArrays (shape (tp a)) (tp a :: rest.map tp) = none := by
      apply checkArrays_none
      intro x hx
      obtain ⟨b, hb, rfl⟩ : ∃ b ∈ a :: rest, tp b = x := by
        rcases List.mem_cons.mp hx with rfl | hx
        · exact ⟨a, by simp, rfl⟩
        · obtain ⟨b, hb, rfl⟩ := List.mem_map.mp hx
          exact ⟨b, List.mem_cons_of_mem _ hb, rfl⟩
      refine ⟨?_, hasErr_tp (hrect b hb) (hdom b hb)⟩
      rcases List.mem_cons.mp hb with rfl | hb'
      · rfl
      · exact shape_tp_eq (hdims b hb')
    have hcols : columnsOf ext (tp a :: rest.map tp) =
        .ok ((a :: rest).map fun rows => rows.flatten.map numOr0S) :=
      columnsOf_tp (bs := a :: rest) hrect hdom
    simp only [hchk, hcols, Except.map]
    refine ⟨_, rfl, ?_⟩
    have hne : ((a :: rest).map fun rows => rows.flatten.map numOr0S) ≠ [] := by simp
    have hlen : ∀ c ∈ ((a :: rest).map fun rows => rows.flatten.map numOr0S),
        c.length = (vals a).length := by
      intro c hc
      obtain ⟨b, hb, rfl⟩ := List.mem_map.mp hc
      simp only [List.length_map, vals]
      rcases List.mem_cons.mp hb with rfl | hb'
      · rfl
      · exact flatten_length_of_dims (hdims b hb')
    have hv : ((a :: rest).map fun rows => rows.flatten.map numOr0S).map (fun c => c.map Num.toRat)
        = (a :: rest).map vals := by
      rw [List.map_map]
      apply List.map_congr_left
      intro b _
      simp only [Function.comp, vals, List.map_map]
      apply List.map_congr_left
      intro x _
      exact numOr0S_toRat x
    have hz := zipCols_products (n := (vals a).length) _ hne hlen
    rw [hspec, sumNum_toRat, List.map_map]
    simp only [Function.comp_def] at hz ⊢
    rw [hz, hv]

/-! ### SUMPRODUCT under permutations -/

theorem pointMul_comm (a b : List Rat) : pointMul a b = pointMul b a := by
  induction a generalizing b with
  | nil => cases b <;> simp [pointMul]
  | cons x xs ih =>
    cases b with
    | nil => simp [pointMul]
    | cons y ys =>
      have := ih ys
      simp only [pointMul] at this
      simp [pointMul, mul_comm, this]

theorem pointMul_left_comm (a b c : List Rat) :
    pointMul a (pointMul b c) = pointMul b (pointMul a c) := by
  induction a generalizing b c with
  | nil => cases b <;> cases c <;> simp [pointMul]
  | cons x xs ih =>
    cases b with
    | nil => simp [pointMul]
    | cons y ys =>
      cases c with
      | nil => simp [pointMul]
      | cons z zs =>
        have := ih ys zs
        simp only [pointMul] at this
        simp only [pointMul, List.zipWith_cons_cons, List.cons.injEq]
        exact ⟨by ring, this⟩

/-- the element-wise product does not depend on the order of the arrays -/
theorem products_perm {n : Nat} {c d : List (List Rat)} (h : c.Perm d) :
    products n c = products n d := by
  induction h with
  | nil => rfl
  | cons x _ ih => simp only [products, List.foldr_cons] at ih ⊢; rw [ih]
  | swap x y l => simp only [products, List.foldr_cons]; exact pointMul_left_comm _ _ _
  | trans _ _ ih1 ih2 => exact ih1.trans ih2

/-- the cells of an array taken in the order `idx` -/
def reindex (idx : List Nat) (l : List Rat) : List Rat := idx.map fun i => l.getD i 0

theorem getD_pointMul (a b : List Rat) (i : Nat) :
    (pointMul a b).getD i 0 = a.getD i 0 * b.getD i 0 := by
  induction a generalizing b i with
  | nil => simp [pointMul]
  | cons x xs ih =>
    cases b with
    | nil => simp [pointMul]
    | cons y ys =>
      cases i with
      | zero => simp [pointMul]
      | succ j =>
        have := ih ys j
        simp only [pointMul] at this
        simp only [pointMul, List.zipWith_cons_cons, List.getD_cons_succ]
        exact this

theorem reindex_pointMul (idx : List Nat) (a b : List Rat) :
    pointMul (reindex idx a) (reindex idx b) = reindex idx (pointMul a b) := by
  induction idx with
  | nil => rfl
  | cons i is ih =>
    have h1 := getD_pointMul a b i
    simp only [reindex, pointMul] at ih h1
    simp only [reindex, pointMul, List.map_cons, List.zipWith_cons_cons]
    rw [ih, h1]

theorem reindex_ones {idx : List Nat} {n : Nat} (h : ∀ i ∈ idx, i < n) (hl : idx.length = n) :
    reindex idx (List.replicate n 1) = List.replicate n 1 := by
  rw [List.eq_replicate_iff]
  refine ⟨by simp [reindex, hl], ?_⟩
  intro b hb
  obtain ⟨i, hi, rfl⟩ := List.mem_map.mp hb
  have := h i hi
  simp [List.getD_eq_getElem?_getD, this]

theorem products_reindex {idx : List Nat} {n : Nat} (h : ∀ i ∈ idx, i < n) (hl : idx.length = n)
    (cols : List (List Rat)) :
    products n (cols.map (reindex idx)) = reindex idx (products n cols) := by
  induction cols with
  | nil => simp [products, reindex_ones h hl]
  | cons c cs ih =>
    simp only [products, List.map_cons, List.foldr_cons] at ih ⊢
    rw [ih, reindex_pointMul]

theorem products_length {n : Nat} {cols : List (List Rat)} (h : ∀ c ∈ cols, c.length = n) :
    (products n cols).length = n := by
  induction cols with
  | nil => simp [products]
  | cons c cs ih =>
    have h1 := h c (by simp)
    have h2 := ih (fun d hd => h d (List.mem_cons_of_mem _ hd))
    simp only [products, List.foldr_cons] at h2 ⊢
    simp [pointMul, h1, h2]

theorem reindex_range (l : List Rat) : reindex (List.range l.length) l = l := by
  apply List.ext_getElem
  · simp [reindex]
  · intro i h1 h2
    simp [reindex, List.getD_eq_getElem?_getD, h2]

theorem rsum_reindex {idx : List Nat} {l : List Rat} (h : idx.Perm (List.range l.length)) :
    rsum (reindex idx l) = rsum l := by
  conv => rhs; rw [← reindex_range l]
  exact rsum_perm (h.map _)

/-! ### `RangeNode.eval`: a range with few empty cells is taken whole -/

theorem scanRow_id {maxEmpty : Nat} : ∀ (row : List S) (e : Nat),
    e + (row.filter cellEmpty).length ≤ maxEmpty →
    (scanRow maxEmpty row e).1 = row ∧
      (scanRow maxEmpty row e).2 ≤ e + (row.filter cellEmpty).length
  | [], e, _ => by simp [scanRow]
  | c :: cs, e, h => by
    by_cases hc : cellEmpty c = true
    · simp only [List.filter_cons, hc, if_true, List.length_cons] at h ⊢
      have ih := scanRow_id (maxEmpty := maxEmpty) cs (e + 1) (by omega)
      simp only [scanRow, hc, if_true]
      rw [if_neg (by omega)]
      exact ⟨by simp [ih.1], by have := ih.2; simp only []; omega⟩
    · simp only [List.filter_cons, hc] at h ⊢
      have ih := scanRow_id (maxEmpty := maxEmpty) cs 0 (by simp at h ⊢; omega)
      simp only [scanRow, hc]
      exact ⟨by simp [ih.1], by have := ih.2; simp at this ⊢; omega⟩

theorem scanRows_id {maxEmpty : Nat} : ∀ (rows : List (List S)) (ec er : Nat),
    ec + (rows.flatten.filter cellEmpty).length ≤ maxEmpty → (∀ r ∈ rows, r ≠ []) →
    scanRows maxEmpty rows ec er = rows
  | [], _, _, _, _ => rfl
  | row :: rows, ec, er, h, hne => by
    simp only [List.flatten_cons, List.filter_append, List.length_append] at h
    obtain ⟨h1, h2⟩ := scanRow_id (maxEmpty := maxEmpty) row ec (by omega)
    have hrow : row ≠ [] := hne row (by simp)
    have hemp : (scanRow maxEmpty row ec).1.isEmpty = false := by
      rw [h1]; cases row with
      | nil => exact absurd rfl hrow
      | cons _ _ => rfl
    simp only [scanRows, hemp, Bool.false_eq_true, if_false]
    rw [h1, scanRows_id rows _ 0 (by omega) (fun r hr => hne r (List.mem_cons_of_mem _ hr))]

/-! ### splits -/

theorem nums_append (xs ys : List S) : nums (xs ++ ys) = nums xs ++ nums ys := by
  simp [nums, List.filterMap_append]

theorem vsplit_perm {α : Type} (rows : List (List α)) (k : Nat) :
    ((rows.map fun r => r.take k).flatten ++ (rows.map fun r => r.drop k).flatten).Perm
      rows.flatten := by
  induction rows with
  | nil => simp
  | cons r rs ih =>
    simp only [List.map_cons, List.flatten_cons]
    have h1 : (r.take k ++ (rs.map fun r => r.take k).flatten ++
        (r.drop k ++ (rs.map fun r => r.drop k).flatten)).Perm
        (r.take k ++ (r.drop k ++ ((rs.map fun r => r.take k).flatten ++
          (rs.map fun r => r.drop k).flatten))) := by
      rw [List.append_assoc]
      apply List.Perm.append_left
      rw [← List.append_assoc, ← List.append_assoc]
      exact (List.perm_append_comm).append_right _
    refine h1.trans ?_
    rw [← List.append_assoc, List.take_append_drop]
    exact ih.append_left r

/-! ### further helpers: the mean, addressed cells under permutations, COUNT under permutations,
    the shape check -/

theorem meanL_eq (l : List Rat) :
    meanL l = if l = [] then none else some (rsum l / (l.length : Rat)) := by
  cases l <;> simp [meanL]

theorem meanL_perm {a b : List Rat} (h : a.Perm b) : meanL a = meanL b := by
  rw [meanL_eq, meanL_eq, rsum_perm h, h.length_eq]
  have : a = [] ↔ b = [] := by
    constructor
    · intro e; subst e; exact h.symm.eq_nil
    · intro e; subst e; exact h.eq_nil
  by_cases ha : a = []
  · simp [ha, this.mp ha]
  · simp [ha, mt this.mpr ha]

theorem addressed_eq (as : List A) : addressed as = (as.map A.cells).flatten := by
  induction as with
  | nil => rfl
  | cons a as ih => simp [addressed, ih]

theorem addressed_append (as bs : List A) : addressed (as ++ bs) = addressed as ++ addressed bs := by
  simp [addressed_eq]

theorem addressed_perm {as bs : List A} (h : as.Perm bs) : (addressed as).Perm (addressed bs) := by
  rw [addressed_eq, addressed_eq]; exact (h.map _).flatten

theorem checkArrays_value {sh : Nat × Nat} {as : List (List (List Py))}
    (herr : ∀ a ∈ as, hasErr a = false) (hmis : ∃ a ∈ as, shape a ≠ sh) :
    checkArrays sh as = some Code.value := by
  induction as with
  | nil => obtain ⟨a, ha, _⟩ := hmis; simp at ha
  | cons a as ih =>
    by_cases hs : shape a = sh
    · obtain ⟨b, hb, hne⟩ := hmis
      have hb' : b ∈ as := by
        rcases List.mem_cons.mp hb with rfl | hb'
        · exact absurd hs hne
        · exact hb'
      simp [checkArrays, hs, herr a (by simp),
        ih (fun c hc => herr c (List.mem_cons_of_mem _ hc)) ⟨b, hb', hne⟩]
    · simp [checkArrays, hs]

theorem checkArrays_na {sh : Nat × Nat} {pre post : List (List (List Py))} {a : List (List Py)}
    (hpre : ∀ b ∈ pre, shape b = sh ∧ hasErr b = false) (hs : shape a = sh) (he : hasErr a = true) :
    checkArrays sh (pre ++ a :: post) = some Code.na := by
  induction pre with
  | nil => simp [checkArrays, hs, he]
  | cons b bs ih =>
    obtain ⟨h1, h2⟩ := hpre b (by simp)
    simp [checkArrays, h1, h2, ih (fun c hc => hpre c (List.mem_cons_of_mem _ hc))]

theorem head?_mem {α : Type} {l : List α} {x : α} (h : l.head? = some x) : x ∈ l := by
  cases l with
  | nil => simp at h
  | cons y ys => simp at h; simp [h]

end XlVerif.Lemmas.C14
