/-
  Lemmas for C15, part 3: obligations on the regenerated tables, the criteria parser, the check
  closures, COUNTIF/COUNTIFS, MATCH, VLOOKUP and CHOOSE.  The property theorems are restated (with
  their full statements) in `Props/C15.lean`; this file holds their proofs and the helper lemmas.
-/
import XlVerif.Model.C15
import XlVerif.Spec.C15
import XlVerif.Lemmas.C15Regex
import XlVerif.Lemmas.C15Number
import XlVerif.Props.C09
namespace XlVerif.Lemmas.C15
open XlVerif XlVerif.Model.Value XlVerif.Model.C15 XlVerif.Spec.C09

/-! ## obligations on the regenerated tables -/

/-- the criteria regex of the running code BEHAVES like `regexSplit genAlts` (first alternative that is a prefix, then the
    rest up to a newline): on every probed text (all texts of length ≤ 3 over `< > = a 1 blank newline`, split by the real
    regex when the tables were regenerated) the model splits exactly as the code does.  A behavioural tie: an
    equivalent rewrite of the regex (character classes, compiled, renamed) keeps this obligation. -/
theorem regex_shape : Gen.criteriaSplitProbe.all (fun p => regexSplit genAlts p.1 == (p.2.1, p.2.2)) = true := by
  decide +kernel

/-- its alternatives are operator strings of length ≤ 2 and, tried in order, select the longest
    operator prefix on all 21 representative two-character strings (order/shape condition, not a
    literal comparison: an equivalent reordering still passes) -/
theorem regex_alts_ok : altsOK genAlts = true := by decide

/-- the model's operator type for a statement operator -/
def toBin : Spec.C15.Op → BinOp
  | .eq => .eq | .ne => .ne | .lt => .lt | .le => .le | .gt => .gt | .ge => .ge

/-- `CRITERIA_OPERATORS` maps exactly the six prefixes of the statement to their operators
    (through `lookup`, so the order of the table does not matter) and nothing to the empty prefix -/
theorem operator_table :
    operatorOf [] = none ∧
    operatorOf ['<'] = some .lt ∧ operatorOf ['<', '='] = some .le ∧ operatorOf ['='] = some .eq ∧
    operatorOf ['<', '>'] = some .ne ∧ operatorOf ['>', '='] = some .ge ∧ operatorOf ['>'] = some .gt := by
  decide

/-- `sort_precedence` separates numbers (and dates), texts and booleans -/
theorem precedence_table (n : Num) (t : List Char) (b : Bool) (d : Rat) :
    precedence (.num n) = some 0 ∧ precedence (.text t) = some 1 ∧ precedence (.bool b) = some 2 ∧
    precedence (.date d) = some 0 ∧ precedence .blank = some 0 ∧ ∀ c, precedence (.err c) = none :=
  ⟨rfl, rfl, rfl, rfl, rfl, fun _ => rfl⟩

/-! ## the criteria parser -/

/-- **the regex split is the longest-operator-prefix split, for every string** -/
theorem split_spec (s : List Char) :
    regexSplit genAlts s =
      ((Spec.C15.splitOp s).1, (Spec.C15.splitOp s).2.takeWhile (fun c => c ≠ '\n')) :=
  regexSplit_spec regex_alts_ok s

theorem splitOp_cases (s : List Char) :
    (Spec.C15.splitOp s).1 = [] ∧ (Spec.C15.splitOp s).2 = s ∨
    (Spec.C15.splitOp s).1 = ['<'] ∨ (Spec.C15.splitOp s).1 = ['<', '='] ∨ (Spec.C15.splitOp s).1 = ['='] ∨
    (Spec.C15.splitOp s).1 = ['<', '>'] ∨ (Spec.C15.splitOp s).1 = ['>', '='] ∨ (Spec.C15.splitOp s).1 = ['>'] := by
  unfold Spec.C15.splitOp
  split <;> simp

theorem takeWhile_id {α} {p : α → Bool} {l : List α} (h : ∀ a ∈ l, p a = true) : l.takeWhile p = l := by
  induction l with
  | nil => rfl
  | cons a r ih => simp [h a (by simp), ih (fun b hb => h b (by simp [hb]))]

theorem no_newline {l : List Char} (h : l.contains '\n' = false) :
    l.takeWhile (fun c => c ≠ '\n') = l := by
  apply takeWhile_id
  intro a ha
  simp only [List.contains_eq_mem, decide_eq_false_iff_not] at h
  simp only [ne_eq, decide_not, Bool.not_eq_eq_eq_not, Bool.not_true, decide_eq_false_iff_not]
  intro e; subst e; exact h ha

/-- how `parse_criteria` splits and types a text whose operand has no line break: the operator is the
    statement's, the ordering flag is set exactly for `< <= > >=`, and the operand typed is the
    text after the operator prefix -/
theorem parseText_eq (ext : Ext) (s : List Char) (hnl : (Spec.C15.splitOp s).2.contains '\n' = false) :
    parseText ext s =
      (typeOperand ext (Spec.C15.splitOp s).2).map fun v =>
        ⟨toBin (Spec.C15.opOfPrefix (Spec.C15.splitOp s).1),
         (Spec.C15.opOfPrefix (Spec.C15.splitOp s).1).ordering, v⟩ := by
  obtain ⟨t0, t1, t2, t3, t4, t5, t6⟩ := operator_table
  unfold parseText
  rw [split_spec, no_newline hnl]
  rcases splitOp_cases s with ⟨h, h2⟩ | h | h | h | h | h | h <;>
    simp [h, t0, t1, t2, t3, t4, t5, t6, Spec.C15.opOfPrefix, toBin, Spec.C15.Op.ordering]
  · rw [h2]

/-- **numeric operands**: for every operator prefix and every numeral `-?digits(.digits)?` the
    criterion is (operator, that number) — e.g. `"<-1"` is `(<, -1)`, `">=-2.5"` is `(>=, -2.5)`. -/
theorem parse_numeric (ext : Ext) (s : List Char) (q : Rat)
    (hnl : (Spec.C15.splitOp s).2.contains '\n' = false)
    (h : Spec.C15.number? (Spec.C15.splitOp s).2 = some q) :
    ∃ n, n.toRat = q ∧ parseText ext s =
      some ⟨toBin (Spec.C15.opOfPrefix (Spec.C15.splitOp s).1),
            (Spec.C15.opOfPrefix (Spec.C15.splitOp s).1).ordering, .num n⟩ := by
  obtain ⟨n, hn, hq⟩ := number_sound ext _ q h
  refine ⟨n, hq, ?_⟩
  rw [parseText_eq ext s hnl]
  simp [typeOperand, hn]

/-- **text operands**: for every operator prefix and every word the criterion is (operator, that
    text) -/
theorem parse_word (ext : Ext) (s : List Char)
    (hw : Spec.C15.isWord (Spec.C15.splitOp s).2 = true)
    (hdate : ext.dateParse (Spec.C15.splitOp s).2 = none) :
    parseText ext s =
      some ⟨toBin (Spec.C15.opOfPrefix (Spec.C15.splitOp s).1),
            (Spec.C15.opOfPrefix (Spec.C15.splitOp s).1).ordering, .text (Spec.C15.splitOp s).2⟩ := by
  have hnl : (Spec.C15.splitOp s).2.contains '\n' = false := by
    generalize (Spec.C15.splitOp s).2 = t at hw
    cases t with
    | nil => simp [Spec.C15.isWord] at hw
    | cons c r =>
      simp only [Spec.C15.isWord, Bool.and_eq_true, Bool.not_eq_true'] at hw
      exact hw.1.2
  rw [parseText_eq ext s hnl, word_is_text ext _ hw hdate]
  rfl

/-- **refinement of the parser**: whenever the statement assigns a criterion to a text, the code's
    parser produces that operator, the ordering flag of the operator, and an operand of that class -/
theorem parse_refines (ext : Ext) (s : List Char) (op : Spec.C15.Op) (k : Cls)
    (h : Spec.C15.critOfText s = some (op, k))
    (hdate : ext.dateParse (Spec.C15.splitOp s).2 = none) :
    ∃ v, cls v = some k ∧ parseText ext s = some ⟨toBin op, op.ordering, v⟩ := by
  unfold Spec.C15.critOfText at h
  simp only at h
  split at h
  · simp at h
  · rename_i hnl
    have hnl' : (Spec.C15.splitOp s).2.contains '\n' = false := by simpa using hnl
    split at h
    · rename_i q hq
      simp only [Option.some.injEq, Prod.mk.injEq] at h
      obtain ⟨n, hn, hp⟩ := parse_numeric ext s q hnl' hq
      exact ⟨.num n, by simp [cls, hn, ← h.2], by rw [hp, h.1]⟩
    · split at h
      · rename_i hw
        simp only [Option.some.injEq, Prod.mk.injEq] at h
        exact ⟨.text (Spec.C15.splitOp s).2, by simp [cls, ← h.2], by rw [parse_word ext s hw hdate, h.1]⟩
      · simp at h

/-! ## the check closures -/

/-- the type class of a value as a number (the code's `sort_precedence`) -/
def kindNat : Cls → Nat | .number _ => 0 | .text _ => 1 | .logical _ => 2

theorem precedence_cls {v : S} {k : Cls} (h : cls v = some k) :
    precedence v = some (kindNat k) ∧ isBlank v = false := by
  cases v <;> simp [cls] at h <;> subst h <;> exact ⟨rfl, rfl⟩

theorem sameKind_iff (x k : Cls) : Spec.C15.sameKind x k = decide (kindNat x = kindNat k) := by
  cases x <;> cases k <;> rfl

/-- a check result that is not an error object -/
def CheckR.clean : CheckR → Prop | .err _ => False | _ => True

/-- **the closure of a text criterion decides the statement's predicate**: on a cell of class `x`
    it returns a (Python or Excel) boolean whose truth is `holds op k x`; an ordering criterion
    rejects cells of another type before comparing. -/
theorem checkText_spec (ext : Ext) (op : Spec.C15.Op) {v probe : S} {k x : Cls}
    (hv : cls v = some k) (hp : cls probe = some x) :
    ∃ r, checkText ext ⟨toBin op, op.ordering, v⟩ probe = .ok r ∧
      r.truthy = Spec.C15.holds op k x ∧ CheckR.clean r := by
  obtain ⟨c1, c2, c3, c4, c5, c6⟩ := Props.C09.cmp_refines ext hp hv
  obtain ⟨p1, b1⟩ := precedence_cls hp
  obtain ⟨p2, _⟩ := precedence_cls hv
  cases op <;>
    simp only [checkText, toBin, Spec.C15.Op.ordering, p1, p2, b1, c1, c2, c3, c4, c5, c6, ofOpR,
      Spec.C15.holds, sameKind_iff, if_true, Bool.false_eq_true, if_false]
  · exact ⟨_, rfl, rfl, trivial⟩
  · exact ⟨_, rfl, rfl, trivial⟩
  all_goals
    by_cases hk : kindNat x = kindNat k
    · simp [hk, CheckR.truthy, CheckR.clean]
    · simp [hk, CheckR.truthy, CheckR.clean]

/-- the closure of a plain-value criterion is equality with that value -/
theorem checkPlain_spec {crit probe : S} {k x : Cls} (hv : cls crit = some k) (hp : cls probe = some x) :
    ∃ r, checkPlain crit probe = .ok r ∧ r.truthy = Spec.C15.holds .eq k x ∧ CheckR.clean r := by
  obtain ⟨_, _, c3, _, _, _⟩ := Props.C09.cmp_refines Ext.none hp hv
  have hne : ∀ c, probe ≠ .err c := by intro c h; subst h; simp [cls] at hp
  have h1 : firstErr probe crit = none := (Props.C09.firstErr_none hp hv).1
  have : richCmp .eq probe crit = .val (.bool (decide (x = k))) := by
    simpa [binop, h1] using c3
  cases probe <;> simp_all [checkPlain, ofOpR, CheckR.truthy, CheckR.clean, Spec.C15.holds]

/-! ## COUNTIF -/

theorem sumChecks_count (l : List CheckR) (hl : ∀ r ∈ l, CheckR.clean r) (isNum : Bool) (n : Int) :
    sumChecks l isNum n = .ok (.num (.int (n + ((l.filter CheckR.truthy).length : Nat)))) := by
  induction l generalizing isNum n with
  | nil => simp [sumChecks]
  | cons r rest ih =>
    have hr := hl r (by simp)
    have ih' := fun b m => ih (fun x hx => hl x (by simp [hx])) b m
    cases r with
    | pyFalse => simp [sumChecks, ih', CheckR.truthy]
    | b v =>
      cases v
      · simp [sumChecks, ih', CheckR.truthy]
      · have : (List.filter CheckR.truthy (CheckR.b true :: rest)).length
            = (List.filter CheckR.truthy rest).length + 1 := by
          rw [List.filter_cons_of_pos (by rfl)]; rfl
        simp only [sumChecks, ih', this, if_true]
        congr 3; push_cast; omega
    | err c => exact absurd hr (by simp [CheckR.clean])

/-- a check that decides `pred` on classified cells counts like the filter -/
theorem mapE_counts (chk : S → Except Crash CheckR) (pred : Cls → Bool)
    (hchk : ∀ probe x, cls probe = some x → ∃ r, chk probe = .ok r ∧ r.truthy = pred x ∧ CheckR.clean r)
    (cells : List S) (hc : ∀ c ∈ cells, cls c ≠ none) :
    ∃ l, mapE chk cells = .ok l ∧ (∀ r ∈ l, CheckR.clean r) ∧
      l.map CheckR.truthy = (cells.filterMap cls).map pred := by
  induction cells with
  | nil => exact ⟨[], rfl, by simp, rfl⟩
  | cons c rest ih =>
    obtain ⟨l, hl, hcl, hcount⟩ := ih (fun x hx => hc x (by simp [hx]))
    have hcc := hc c (by simp)
    cases hx : cls c with
    | none => exact absurd hx hcc
    | some x =>
      obtain ⟨r, hr, ht, hclean⟩ := hchk c x hx
      refine ⟨r :: l, by simp [mapE, hr, hl], ?_, ?_⟩
      · intro y hy; rcases List.mem_cons.mp hy with h | h
        · subst h; exact hclean
        · exact hcl y h
      · simp [hx, ht, hcount]

theorem filter_length_map {α} (l : List α) (f : α → Bool) :
    (l.filter f).length = ((l.map f).filter id).length := by
  induction l with
  | nil => rfl
  | cons a r ih => by_cases h : f a = true <;> simp [h, ih]

/-- **countif_spec (text criterion)**: for every criterion text the statement gives a meaning to and
    every column of numbers/texts, COUNTIF is the number of cells for which the criterion holds —
    the length of the filter by the criterion predicate. -/
theorem countif_spec (ext : Ext) (s : List Char) (op : Spec.C15.Op) (k : Cls)
    (h : Spec.C15.critOfText s = some (op, k))
    (hdate : ext.dateParse (Spec.C15.splitOp s).2 = none)
    (cells : List S) (hc : ∀ c ∈ cells, cls c ≠ none) :
    COUNTIF ext cells (.text s) = .ok (.num (.int (Spec.C15.countif op k (cells.filterMap cls)))) := by
  obtain ⟨v, hv, hp⟩ := parse_refines ext s op k h hdate
  obtain ⟨l, hl, hcl, hm⟩ := mapE_counts (checkText ext ⟨toBin op, op.ordering, v⟩) (Spec.C15.holds op k)
    (fun probe x hx => checkText_spec ext op hv hx) cells hc
  simp only [COUNTIF, mkCheck, hp, Option.map_some, hl, sumChecks_count l hcl, Spec.C15.countif]
  rw [filter_length_map l, hm, ← filter_length_map]
  simp

/-- **countif_spec (plain value)**: a criterion that is a value counts the cells equal to it -/
theorem countif_value (ext : Ext) (crit : S) (k : Cls) (hk : cls crit = some k) (ht : ∀ t, crit ≠ .text t)
    (cells : List S) (hc : ∀ c ∈ cells, cls c ≠ none) :
    COUNTIF ext cells crit = .ok (.num (.int (Spec.C15.countif .eq k (cells.filterMap cls)))) := by
  obtain ⟨l, hl, hcl, hm⟩ := mapE_counts (checkPlain crit) (Spec.C15.holds .eq k)
    (fun probe x hx => checkPlain_spec hk hx) cells hc
  have hne : ∀ c, crit ≠ .err c := by intro c h; subst h; simp [cls] at hk
  cases crit with
  | text t => exact absurd rfl (ht t)
  | err c => exact absurd rfl (hne c)
  | _ =>
    simp only [COUNTIF, mkCheck, hl, sumChecks_count l hcl, Spec.C15.countif]
    rw [filter_length_map l, hm, ← filter_length_map]
    simp

/-! ## COUNTIFS -/

/-- the flattened varargs of `COUNTIFS(r1, c1, r2, c2, …)` after the first pair -/
def flattenPairs : List (List S × S) → List S
  | [] => []
  | (r, c) :: rest => r ++ c :: flattenPairs rest

/-- filling one range: the loop collects exactly `rangeLen` items, then takes the next item as the
    criterion -/
theorem regroup_fill (n : Nat) (r : List S) (c : S) (rest : List S) (checks : List S) (ranges : List (List S))
    (acc : List S) (h : acc.length + r.length = n) :
    regroup n (r ++ c :: rest) checks ranges acc acc.length =
      regroup n rest (c :: checks) ((acc.reverse ++ r) :: ranges) [] 0 := by
  induction r generalizing acc with
  | nil =>
    have : acc.length = n := by simpa using h
    simp [regroup, this]
  | cons a r ih =>
    have hne : acc.length ≠ n := by simp at h; omega
    have := ih (a :: acc) (by simp at h ⊢; omega)
    simp only [List.cons_append, regroup, hne, if_false]
    simpa using this

/-- **the regrouping loop recovers the (range, criterion) pairs** when every range has the length of
    the first one -/
theorem regroup_pairs (n : Nat) (more : List (List S × S)) (hlen : ∀ p ∈ more, p.1.length = n)
    (checks : List S) (ranges : List (List S)) :
    regroup n (flattenPairs more) checks ranges [] 0 =
      (checks.reverse ++ more.map (·.2), ranges.reverse ++ more.map (·.1)) := by
  induction more generalizing checks ranges with
  | nil => simp [flattenPairs, regroup]
  | cons p rest ih =>
    obtain ⟨r, c⟩ := p
    have hr : r.length = n := hlen (r, c) (by simp)
    have := regroup_fill n r c (flattenPairs rest) checks ranges [] (by simpa using hr)
    simp only [List.length_nil, List.reverse_nil, List.nil_append] at this
    rw [flattenPairs, this, ih (fun q hq => hlen q (by simp [hq]))]
    simp


/-- a check closure decides the predicate of a criterion on classified cells -/
def Decides (chk : S → Except Crash CheckR) (q : Spec.C15.Op × Cls) : Prop :=
  ∀ probe x, cls probe = some x →
    ∃ r, chk probe = .ok r ∧ r.truthy = Spec.C15.holds q.1 q.2 x ∧ CheckR.clean r

/-- `parse_criteria` of any criteria argument the statement gives a meaning to returns a closure
    deciding that meaning -/
theorem mkCheck_spec (ext : Ext) (hdate : ∀ t, ext.dateParse t = none) (c : S) (q : Spec.C15.Op × Cls)
    (h : Spec.C15.critOf c = some q) : ∃ chk, mkCheck ext c = some chk ∧ Decides chk q := by
  obtain ⟨op, k⟩ := q
  cases c with
  | text s =>
    obtain ⟨v, hv, hp⟩ := parse_refines ext s op k h (hdate _)
    exact ⟨_, by simp [mkCheck, hp], fun probe x hx => checkText_spec ext op hv hx⟩
  | err e => simp [Spec.C15.critOf, cls] at h
  | blank => simp [Spec.C15.critOf, cls] at h
  | num n =>
    simp only [Spec.C15.critOf, cls, Option.map_some, Option.some.injEq, Prod.mk.injEq] at h
    obtain ⟨h1, h2⟩ := h; subst h1; subst h2
    exact ⟨_, rfl, fun probe x hx => checkPlain_spec (crit := .num n) rfl hx⟩
  | bool b =>
    simp only [Spec.C15.critOf, cls, Option.map_some, Option.some.injEq, Prod.mk.injEq] at h
    obtain ⟨h1, h2⟩ := h; subst h1; subst h2
    exact ⟨_, rfl, fun probe x hx => checkPlain_spec (crit := .bool b) rfl hx⟩
  | date d =>
    simp only [Spec.C15.critOf, cls, Option.map_some, Option.some.injEq, Prod.mk.injEq] at h
    obtain ⟨h1, h2⟩ := h; subst h1; subst h2
    exact ⟨_, rfl, fun probe x hx => checkPlain_spec (crit := .date d) rfl hx⟩

/-- evaluation of one row of `zip(*ranges)`: `all([cfn(cvals[i]) for i, cfn in enumerate(checks)])` -/
def rowEval (checks : List (S → Except Crash CheckR)) (row : List S) : Except Crash Bool :=
  (applyChecks checks row).map fun l => l.all CheckR.truthy

theorem rowEval_cons (chk : S → Except Crash CheckR) (chks : List (S → Except Crash CheckR))
    (x : S) (row : List S) (b : CheckR) (fl : Bool) (h1 : chk x = .ok b) (h2 : rowEval chks row = .ok fl) :
    rowEval (chk :: chks) (x :: row) = .ok (b.truthy && fl) := by
  unfold rowEval at h2 ⊢
  cases h : applyChecks chks row with
  | error e => simp [h, Except.map] at h2
  | ok bs =>
    simp only [h, Except.map, Except.ok.injEq] at h2
    simp [applyChecks, h1, h, Except.map, h2]

/-- a column all of whose cells are classified, seen through a deciding check -/
theorem col_flags {chk : S → Except Crash CheckR} {q : Spec.C15.Op × Cls} (hd : Decides chk q)
    {r : List S} {col : List Cls} (hr : r.map cls = col.map some) :
    ∃ a : S → Bool, (∀ x ∈ r, ∃ b, chk x = .ok b ∧ b.truthy = a x) ∧
      r.map a = col.map (Spec.C15.holds q.1 q.2) := by
  refine ⟨fun x => match cls x with | some k => Spec.C15.holds q.1 q.2 k | none => false, ?_, ?_⟩
  · intro x hx
    have : ∃ k, cls x = some k := by
      have : cls x ∈ r.map cls := List.mem_map_of_mem hx
      rw [hr] at this
      obtain ⟨k, _, hk⟩ := List.mem_map.mp this
      exact ⟨k, hk.symm⟩
    obtain ⟨k, hk⟩ := this
    obtain ⟨b, hb, ht, _⟩ := hd x k hk
    exact ⟨b, hb, by simp [hk, ht]⟩
  · induction r generalizing col with
    | nil => cases col <;> simp_all
    | cons x r ih =>
      cases col with
      | nil => simp at hr
      | cons k col =>
        simp only [List.map_cons, List.cons.injEq] at hr
        simp [hr.1, ih hr.2]

/-- the rows of `zip(r, *ranges)` evaluate to the conjunction of the first column's answers with the
    answers of the remaining rows -/
theorem rows_step (chk : S → Except Crash CheckR) (chks : List (S → Except Crash CheckR)) (a : S → Bool)
    (r : List S) (hr : ∀ x ∈ r, ∃ b, chk x = .ok b ∧ b.truthy = a x)
    (rows : List (List S)) (flags : List Bool) (hrows : mapE (rowEval chks) rows = .ok flags) :
    mapE (rowEval (chk :: chks)) (List.zipWith (fun x row => x :: row) r rows) =
      .ok (List.zipWith (fun p q => p && q) (r.map a) flags) := by
  induction r generalizing rows flags with
  | nil => simp [mapE]
  | cons x r ih =>
    cases rows with
    | nil =>
      simp only [mapE, Except.ok.injEq] at hrows
      subst hrows; simp [mapE]
    | cons row rows =>
      simp only [mapE] at hrows
      cases h1 : rowEval chks row with
      | error e => simp [h1] at hrows
      | ok fl =>
        cases h2 : mapE (rowEval chks) rows with
        | error e => simp [h1, h2] at hrows
        | ok fls =>
          simp only [h1, h2, Except.ok.injEq] at hrows
          subst hrows
          obtain ⟨b, hb, hab⟩ := hr x (by simp)
          have := ih (fun y hy => hr y (by simp [hy])) rows fls h2
          simp [mapE, rowEval_cons chk chks x row b fl hb h1, this, hab]

/-- one (range, criterion) pair against its statement-level reading -/
def PairOK (p : List S × S) (q : List Cls × Spec.C15.Op × Cls) : Prop :=
  Spec.C15.critOf p.2 = some q.2 ∧ p.1.map cls = q.1.map some

/-- every pair has its statement-level reading -/
inductive AllPairs : List (List S × S) → List (List Cls × Spec.C15.Op × Cls) → Prop
  | nil : AllPairs [] []
  | cons {p q ps qs} : PairOK p q → AllPairs ps qs → AllPairs (p :: ps) (q :: qs)

/-- the rows of the regrouped ranges evaluate to the position-by-position conjunction -/
theorem rows_flags (ext : Ext) (hdate : ∀ t, ext.dateParse t = none)
    (pairs : List (List S × S)) (sp : List (List Cls × Spec.C15.Op × Cls))
    (h : AllPairs pairs sp) (hne : pairs ≠ []) :
    ∃ checks, optAll ((pairs.map (·.2)).map (mkCheck ext)) = some checks ∧
      mapE (rowEval checks) (rowsOf (pairs.map (·.1))) =
        .ok (Spec.C15.flagsAnd (sp.map fun (col, op, k) => col.map (Spec.C15.holds op k))) := by
  induction h with
  | nil => exact absurd rfl hne
  | @cons p q ps qs hpq hrest ih =>
    obtain ⟨hcrit, hcol⟩ := hpq
    obtain ⟨chk, hchk, hdec⟩ := mkCheck_spec ext hdate p.2 q.2 hcrit
    obtain ⟨a, ha, hmap⟩ := col_flags hdec hcol
    cases hrest with
    | nil =>
      refine ⟨[chk], by simp [optAll, hchk], ?_⟩
      have : ∀ (r : List S), (∀ x ∈ r, ∃ b, chk x = .ok b ∧ b.truthy = a x) →
          mapE (rowEval [chk]) (r.map fun x => [x]) = .ok (r.map a) := by
        intro r hr
        induction r with
        | nil => simp [mapE]
        | cons x r ihr =>
          obtain ⟨b, hb, hab⟩ := hr x (by simp)
          have := ihr (fun y hy => hr y (by simp [hy]))
          simp [mapE, rowEval, applyChecks, hb, Except.map, this, hab]
      obtain ⟨col, op, k⟩ := q
      simpa [rowsOf, Spec.C15.flagsAnd, ← hmap] using this p.1 ha
    | @cons p2 q2 ps2 qs2 hpq2 hrest2 =>
      obtain ⟨checks, hchecks, hrows⟩ := ih (by simp)
      refine ⟨chk :: checks, ?_, ?_⟩
      · have : optAll ((List.map (·.2) (p :: p2 :: ps2)).map (mkCheck ext)) =
            (optAll ((List.map (·.2) (p2 :: ps2)).map (mkCheck ext))).map (chk :: ·) := by
          simp only [List.map_cons, optAll, hchk]
        rw [this, hchecks]; rfl
      · have := rows_step chk checks a p.1 ha _ _ hrows
        obtain ⟨col, op, k⟩ := q
        simp only [List.map_cons, rowsOf, Spec.C15.flagsAnd] at this ⊢
        rw [this, hmap]

/-- **countifs_conj**: for ranges of one common length and criteria the statement gives a meaning to,
    COUNTIFS — through the flattening of its varargs and the regrouping loop — is the number of
    positions at which every criterion holds on its own range. -/
theorem countifs_conj (ext : Ext) (hdate : ∀ t, ext.dateParse t = none)
    (r1 : List S) (c1 : S) (more : List (List S × S))
    (hlen : ∀ p ∈ more, p.1.length = r1.length)
    (sp : List (List Cls × Spec.C15.Op × Cls))
    (h : AllPairs ((r1, c1) :: more) sp) :
    COUNTIFS ext r1 c1 (flattenPairs more) = .ok (.num (.int (Spec.C15.countifs sp))) := by
  obtain ⟨checks, hchecks, hrows⟩ := rows_flags ext hdate _ sp h (by simp)
  have hc1 : ∀ e, c1 ≠ .err e := by
    intro e he
    cases h with
    | cons hpq _ => simp [PairOK, he, Spec.C15.critOf, cls] at hpq
  have hre := regroup_pairs r1.length more hlen [c1] [r1]
  simp only [List.reverse_cons, List.reverse_nil, List.nil_append, List.singleton_append] at hre
  have hchecks' : optAll (List.map (mkCheck ext) (c1 :: more.map (·.2))) = some checks := hchecks
  have hrows' : mapE (fun row => (applyChecks checks row).map fun l => l.all CheckR.truthy)
      (rowsOf (r1 :: more.map (·.1))) =
      .ok (Spec.C15.flagsAnd (sp.map fun (col, op, k) => col.map (Spec.C15.holds op k))) := hrows
  cases c1 with
  | err e => exact absurd rfl (hc1 e)
  | _ =>
    simp only [COUNTIFS, hre, hchecks', hrows', Spec.C15.countifs]

/-! ## comparisons of classified values -/

theorem richCmp_cls {a b : S} {x y : Cls} (ha : cls a = some x) (hb : cls b = some y) :
    richCmp .eq a b = .val (.bool (decide (x = y))) ∧
    richCmp .lt a b = .val (.bool (Cls.ltb x y)) ∧
    richCmp .gt a b = .val (.bool (Cls.ltb y x)) := by
  obtain ⟨c1, c2, c3, _, _, _⟩ := Props.C09.cmp_refines Ext.none ha hb
  obtain ⟨h1, h2, h3⟩ := Props.C09.firstErr_none ha hb
  simp only [binop, h1, h2, h3, Bool.or_self, Bool.false_eq_true, if_false] at c1 c2 c3
  exact ⟨c3, c1, c2⟩

theorem cmpE_cls {a b : S} {x y : Cls} (ha : cls a = some x) (hb : cls b = some y) :
    cmpE .eq a b = .ok (decide (x = y)) ∧ cmpE .lt a b = .ok (Cls.ltb x y) ∧
    cmpE .gt a b = .ok (Cls.ltb y x) ∧ cellEq a b = .ok (decide (x = y)) := by
  obtain ⟨r1, r2, r3⟩ := richCmp_cls ha hb
  refine ⟨by simp [cmpE, r1], by simp [cmpE, r2], by simp [cmpE, r3], ?_⟩
  cases a <;> simp_all [cellEq, cmpE, cls]

/-! ## the order of the statement -/

theorem leb_iff_not_ltb (x y : Cls) : Spec.C15.leb x y = !Cls.ltb y x := by
  unfold Spec.C15.leb
  rcases Props.C09.lt_trichotomous x y with h | h | h
  · have h' : Cls.ltb x y = true := h
    have : Cls.ltb y x = false := by
      cases hh : Cls.ltb y x with
      | false => rfl
      | true => exact absurd hh (Props.C09.lt_asymm h)
    simp [h', this]
  · subst h
    have : Cls.ltb x x = false := by
      cases hh : Cls.ltb x x with
      | false => rfl
      | true => exact absurd hh (Props.C09.lt_irrefl x)
    simp [this]
  · have h' : Cls.ltb y x = true := h
    have h1 : Cls.ltb x y = false := by
      cases hh : Cls.ltb x y with
      | false => rfl
      | true => exact absurd hh (Props.C09.lt_asymm h)
    have h2 : x ≠ y := by
      intro e; subst e; exact Props.C09.lt_irrefl x h
    simp [h', h1, h2]

theorem leb_trans {x y z : Cls} (h1 : Spec.C15.leb x y = true) (h2 : Spec.C15.leb y z = true) :
    Spec.C15.leb x z = true := by
  simp only [Spec.C15.leb, Bool.or_eq_true, decide_eq_true_eq] at h1 h2 ⊢
  rcases h1 with h1 | h1 <;> rcases h2 with h2 | h2
  · exact Or.inl (Props.C09.lt_trans h1 h2)
  · subst h2; exact Or.inl h1
  · subst h1; exact Or.inl h2
  · subst h1; subst h2; exact Or.inr rfl


/-! ## MATCH -/

theorem modeOf_zero : modeOf (.num (.int 0)) = .ok .exact := by decide
theorem modeOf_one : modeOf (.num (.int 1)) = .ok .asc := by decide

theorem classified_cons {v : S} {rest : List S} {xs : List Cls} (hc : (v :: rest).map cls = xs.map some) :
    ∃ x xs', xs = x :: xs' ∧ cls v = some x ∧ rest.map cls = xs'.map some := by
  cases xs with
  | nil => simp at hc
  | cons x xs' =>
    simp only [List.map_cons, List.cons.injEq] at hc
    exact ⟨x, xs', rfl, hc.1, hc.2⟩

theorem matchLoop_exact {key : S} {k : Cls} (hk : cls key = some k) (cells : List S) (xs : List Cls)
    (hc : cells.map cls = xs.map some) (i : Nat) :
    matchLoop .exact key cells i =
      .ok (match Spec.C15.firstIdx k xs with
           | some j => .num (.int ((i + j + 1 : Nat) : Int))
           | none => .err .na) := by
  induction cells generalizing xs i with
  | nil =>
    cases xs with
    | nil => simp [matchLoop, Spec.C15.firstIdx]
    | cons x xs' => simp at hc
  | cons v rest ih =>
    obtain ⟨x, xs', rfl, hv, hrest⟩ := classified_cons hc
    obtain ⟨_, _, _, he⟩ := cmpE_cls hv hk
    by_cases hxk : x = k
    · simp [matchLoop, he, hxk, Spec.C15.firstIdx]
    · simp only [matchLoop, he, hxk, decide_false, Spec.C15.firstIdx, if_false, ih xs' hrest (i + 1)]
      cases Spec.C15.firstIdx k xs' with
      | none => rfl
      | some j => simp only [Option.map_some]; congr 4; omega

theorem flatten_singletons (cells : List S) : (cells.map fun x => [x]).flatten = cells := by
  induction cells with
  | nil => rfl
  | cons a r ih => simp [ih]

/-- **refinement, exact MATCH**: on a column of classified cells MATCH(key, column, 0) is the
    statement's `matchExact`: the 1-based position of the first equal element, #N/A if none. -/
theorem match_exact_refines {key : S} {k : Cls} (hk : cls key = some k) (cells : List S) (xs : List Cls)
    (hne : cells ≠ []) (hc : cells.map cls = xs.map some) :
    MATCH key (cells.map fun x => [x]) (.num (.int 0)) =
      .ok (match Spec.C15.matchExact k xs with
           | some p => .num (.int (p : Int))
           | none => .err .na) := by
  have hkey : ∀ e, key ≠ .err e := by intro e h; subst h; simp [cls] at hk
  cases cells with
  | nil => exact absurd rfl hne
  | cons c r =>
    have hl := matchLoop_exact hk (c :: r) xs hc 0
    have hf := flatten_singletons (c :: r)
    simp only [List.map_cons] at hf
    cases key with
    | err e => exact absurd rfl (hkey e)
    | _ =>
      simp only [MATCH, List.map_cons, List.length_singleton, ne_eq, not_true_eq_false, if_false, modeOf_zero, hf,
        hl, ofE, Spec.C15.matchExact]
      cases Spec.C15.firstIdx k xs <;> simp

/-- what `firstIdx` finds -/
theorem firstIdx_spec (k : Cls) (xs : List Cls) :
    (∀ j, Spec.C15.firstIdx k xs = some j → xs[j]? = some k ∧ ∀ i, i < j → xs[i]? ≠ some k) ∧
    (Spec.C15.firstIdx k xs = none → ∀ x ∈ xs, x ≠ k) := by
  induction xs with
  | nil => simp [Spec.C15.firstIdx]
  | cons x xs ih =>
    by_cases hx : x = k
    · subst hx
      simp [Spec.C15.firstIdx]
    · simp only [Spec.C15.firstIdx, hx, if_false]
      constructor
      · intro j hj
        cases hf : Spec.C15.firstIdx k xs with
        | none => simp [hf] at hj
        | some j' =>
          simp only [hf, Option.map_some, Option.some.injEq] at hj
          subst hj
          obtain ⟨h1, h2⟩ := ih.1 j' hf
          refine ⟨by simpa using h1, ?_⟩
          intro i hi
          cases i with
          | zero => simpa using hx
          | succ i => simpa using h2 i (by omega)
      · intro hn
        cases hf : Spec.C15.firstIdx k xs with
        | some j' => simp [hf] at hn
        | none =>
          intro y hy
          rcases List.mem_cons.mp hy with h | h
          · subst h; exact hx
          · exact ih.2 hf y h

/-- **match_exact_first**: if exact MATCH returns position `p`, element `p` equals the key and no
    earlier element does; if it returns #N/A, no element equals the key. (Equality is that of the one
    total order: numbers numerically, texts case-insensitively.) -/
theorem match_exact_first {key : S} {k : Cls} (hk : cls key = some k) (cells : List S) (xs : List Cls)
    (hne : cells ≠ []) (hc : cells.map cls = xs.map some) :
    (∀ p : Nat, MATCH key (cells.map fun x => [x]) (.num (.int 0)) = .ok (.num (.int p)) →
        1 ≤ p ∧ xs[p - 1]? = some k ∧ ∀ i, i < p - 1 → xs[i]? ≠ some k) ∧
    (MATCH key (cells.map fun x => [x]) (.num (.int 0)) = .ok (.err .na) → ∀ x ∈ xs, x ≠ k) ∧
    ((∃ p : Nat, MATCH key (cells.map fun x => [x]) (.num (.int 0)) = .ok (.num (.int p))) ∨
      MATCH key (cells.map fun x => [x]) (.num (.int 0)) = .ok (.err .na)) := by
  rw [match_exact_refines hk cells xs hne hc]
  obtain ⟨f1, f2⟩ := firstIdx_spec k xs
  unfold Spec.C15.matchExact
  cases hf : Spec.C15.firstIdx k xs with
  | none =>
    exact ⟨fun p hp => by simp at hp, fun _ => f2 hf, Or.inr rfl⟩
  | some j =>
    refine ⟨?_, fun h => by simp at h, Or.inl ⟨j + 1, rfl⟩⟩
    intro p hp
    simp only [Option.map_some, Res.ok.injEq, S.num.injEq, Num.int.injEq] at hp
    have : p = j + 1 := by omega
    subst this
    obtain ⟨h1, h2⟩ := f1 j hf
    exact ⟨by omega, by simpa using h1, fun i hi => h2 i (by omega)⟩


/-- length of the leading run of values that do not exceed the key -/
def prefixLen (k : Cls) (xs : List Cls) : Nat := (xs.takeWhile fun x => Spec.C15.leb x k).length

theorem posOrNa_eq (p : Nat) : posOrNa p = (match p with | 0 => S.err .na | q + 1 => S.num (.int ((q + 1 : Nat) : Int))) := by
  cases p <;> simp [posOrNa]

/-- the scan of approximate MATCH stops at the first value exceeding the key -/
theorem matchLoop_asc {key : S} {k : Cls} (hk : cls key = some k) (cells : List S) (xs : List Cls)
    (hc : cells.map cls = xs.map some) (i : Nat) :
    matchLoop .asc key cells i = .ok (posOrNa (i + prefixLen k xs)) := by
  induction cells generalizing xs i with
  | nil =>
    cases xs with
    | nil => cases i <;> simp [matchLoop, prefixLen, posOrNa]
    | cons x xs' => simp at hc
  | cons v rest ih =>
    obtain ⟨x, xs', rfl, hv, hrest⟩ := classified_cons hc
    obtain ⟨_, _, hg, _⟩ := cmpE_cls hv hk
    have hle := leb_iff_not_ltb x k
    cases hlt : Cls.ltb k x with
    | true =>
      have : Spec.C15.leb x k = false := by simp [hle, hlt]
      simp [matchLoop, hg, hlt, prefixLen, this]
    | false =>
      have : Spec.C15.leb x k = true := by simp [hle, hlt]
      simp only [matchLoop, hg, hlt, ih xs' hrest (i + 1), prefixLen, List.takeWhile_cons, this, if_true,
        List.length_cons]
      congr 2; omega

theorem ltE_cls {a b : S} {x y : Cls} (ha : cls a = some x) (hb : cls b = some y) :
    ltE a b = .ok (Cls.ltb x y) := by
  obtain ⟨_, hl, _, _⟩ := cmpE_cls ha hb
  cases a <;> simp_all [ltE, cls]

/-- `count_run` on non-descending classified data takes everything -/
theorem extendRun_ascending (prev : Item) (acc rest : List Item) (p : Cls) (xs : List Cls)
    (hp : cls prev.2 = some p) (hc : rest.map (fun it => cls it.2) = xs.map some)
    (hasc : Spec.C15.ascending (p :: xs) = true) :
    extendRun false prev acc rest = .ok (rest.reverse ++ acc, []) := by
  induction rest generalizing prev acc p xs with
  | nil => simp [extendRun]
  | cons it rest ih =>
    cases xs with
    | nil => simp at hc
    | cons x xs' =>
      simp only [List.map_cons, List.cons.injEq] at hc
      obtain ⟨hit, hrest⟩ := hc
      simp only [Spec.C15.ascending, Bool.and_eq_true] at hasc
      have hlt : Cls.ltb x p = false := by
        have := hasc.1; rw [leb_iff_not_ltb] at this; simpa using this
      simp [extendRun, ltE_cls hit hp, hlt, ih it (it :: acc) x xs' hit hrest hasc.2]

theorem listNe_self (l : List Item) : listNe l l = .ok false := by
  induction l with
  | nil => rfl
  | cons a r ih => simp [listNe, ih]

/-- **the sortedness test passes on ascending classified data** (whatever its length): `sorted`
    finds one non-descending run and returns the very same elements in the same places. -/
theorem sortedNe_ascending (cells : List S) (xs : List Cls) (hc : cells.map cls = xs.map some)
    (hasc : Spec.C15.ascending xs = true) : sortedNe false cells = .ok (some false) := by
  have key : ∀ (items : List Item), items.map (fun it => cls it.2) = xs.map some →
      sortItems items = .ok (some items) := by
    intro items hi
    match items, xs, hi, hasc with
    | [], _, _, _ => rfl
    | [_], _, _, _ => rfl
    | a :: b :: rest, [], hi, _ => simp at hi
    | a :: b :: rest, [_], hi, _ => simp at hi
    | a :: b :: rest, x :: y :: ys, hi, hasc =>
      simp only [List.map_cons, List.cons.injEq] at hi
      obtain ⟨ha, hb, hrest⟩ := hi
      simp only [Spec.C15.ascending, Bool.and_eq_true] at hasc
      have hlt : Cls.ltb y x = false := by
        have := hasc.1; rw [leb_iff_not_ltb] at this; simpa using this
      have he := extendRun_ascending b [b, a] rest y ys hb hrest hasc.2
      simp [sortItems, ltE_cls hb ha, hlt, he]
  have hitems : (cells.zipIdx.map fun (x, i) => (i, x)).map (fun it => cls it.2) = xs.map some := by
    rw [← hc]
    simp only [List.map_map, Function.comp_def]
    have : ∀ (l : List S) (k : Nat), (l.zipIdx k).map (fun x => cls x.1) = l.map cls := by
      intro l; induction l with
      | nil => intro k; rfl
      | cons a r ih => intro k; simp [List.zipIdx_cons, ih]
    exact this cells 0
  simp only [sortedNe, Bool.false_eq_true, if_false, key _ hitems, listNe_self]

/-- nothing qualifies → `lastLe` is 0 -/
theorem lastLe_none (k : Cls) (xs : List Cls) (h : ∀ x ∈ xs, Spec.C15.leb x k = false) :
    Spec.C15.lastLe k xs = 0 := by
  induction xs with
  | nil => rfl
  | cons x xs ih =>
    simp [Spec.C15.lastLe, ih (fun y hy => h y (by simp [hy])), h x (by simp)]

/-- in ascending data every later element is at least the head -/
theorem ascending_head_le (x : Cls) (xs : List Cls) (h : Spec.C15.ascending (x :: xs) = true) :
    (∀ y ∈ xs, Spec.C15.leb x y = true) ∧ Spec.C15.ascending xs = true := by
  induction xs generalizing x with
  | nil => simp [Spec.C15.ascending]
  | cons y ys ih =>
    simp only [Spec.C15.ascending, Bool.and_eq_true] at h
    obtain ⟨hxy, hrest⟩ := h
    obtain ⟨h1, _⟩ := ih y hrest
    refine ⟨?_, hrest⟩
    intro z hz
    rcases List.mem_cons.mp hz with e | e
    · subst e; exact hxy
    · exact leb_trans hxy (h1 z e)

/-- **in ascending data the last position not exceeding the key is the length of the leading run** -/
theorem lastLe_ascending (k : Cls) (xs : List Cls) (h : Spec.C15.ascending xs = true) :
    Spec.C15.lastLe k xs = prefixLen k xs := by
  induction xs with
  | nil => rfl
  | cons x xs ih =>
    obtain ⟨hall, hasc⟩ := ascending_head_le x xs h
    have ih' := ih hasc
    cases hx : Spec.C15.leb x k with
    | true =>
      simp only [Spec.C15.lastLe, prefixLen, List.takeWhile_cons, hx, if_true, List.length_cons]
      rw [ih']
      cases hp : prefixLen k xs with
      | zero => simp [prefixLen] at hp ⊢; simp [hp]
      | succ p => simp [prefixLen] at hp ⊢; simp [hp]
    | false =>
      have hnone : ∀ y ∈ xs, Spec.C15.leb y k = false := by
        intro y hy
        cases hyk : Spec.C15.leb y k with
        | false => rfl
        | true => rw [leb_trans (hall y hy) hyk] at hx; exact absurd hx (by simp)
      simp [Spec.C15.lastLe, lastLe_none k xs hnone, hx, prefixLen]

/-- **refinement, approximate MATCH**: on an ascending column of classified cells MATCH(key, column, 1)
    (and MATCH(key, column)) is the last position whose value does not exceed the key, #N/A if there
    is none. -/
theorem match_approx_refines {key : S} {k : Cls} (hk : cls key = some k) (cells : List S) (xs : List Cls)
    (hne : cells ≠ []) (hc : cells.map cls = xs.map some) (hasc : Spec.C15.ascending xs = true) :
    MATCH key (cells.map fun x => [x]) (.num (.int 1)) =
      .ok (match Spec.C15.lastLe k xs with
           | 0 => .err .na
           | p + 1 => .num (.int ((p + 1 : Nat) : Int))) := by
  have hkey : ∀ e, key ≠ .err e := by intro e h; subst h; simp [cls] at hk
  cases cells with
  | nil => exact absurd rfl hne
  | cons c r =>
    have hl := matchLoop_asc hk (c :: r) xs hc 0
    have ha := sortedNe_ascending (c :: r) xs hc hasc
    have hf := flatten_singletons (c :: r)
    simp only [List.map_cons] at hf
    rw [Nat.zero_add, ← lastLe_ascending k xs hasc, posOrNa_eq] at hl
    cases key with
    | err e => exact absurd rfl (hkey e)
    | _ =>
      simp only [MATCH, List.map_cons, List.length_singleton, ne_eq, not_true_eq_false, if_false, modeOf_one, hf,
        ha, hl, ofE]

/-- what `lastLe` is: the last position whose value does not exceed the key -/
theorem lastLe_spec (k : Cls) (xs : List Cls) :
    (Spec.C15.lastLe k xs = 0 → ∀ x ∈ xs, Spec.C15.leb x k = false) ∧
    (∀ p, Spec.C15.lastLe k xs = p + 1 →
      (∃ x, xs[p]? = some x ∧ Spec.C15.leb x k = true) ∧
      ∀ j y, p < j → xs[j]? = some y → Spec.C15.leb y k = false) := by
  induction xs with
  | nil => simp [Spec.C15.lastLe]
  | cons x xs ih =>
    obtain ⟨ih0, ihp⟩ := ih
    cases hl : Spec.C15.lastLe k xs with
    | zero =>
      have hnone := ih0 hl
      cases hx : Spec.C15.leb x k with
      | true =>
        simp only [Spec.C15.lastLe, hl, hx, if_true]
        refine ⟨by simp, ?_⟩
        intro p hp
        have : p = 0 := by omega
        subst this
        refine ⟨⟨x, by simp, hx⟩, ?_⟩
        intro j y hj hy
        cases j with
        | zero => omega
        | succ j =>
          simp only [List.getElem?_cons_succ] at hy
          exact hnone y (List.mem_of_getElem? hy)
      | false =>
        simp only [Spec.C15.lastLe, hl, hx]
        refine ⟨?_, by simp⟩
        intro _ y hy
        rcases List.mem_cons.mp hy with e | e
        · subst e; exact hx
        · exact hnone y e
    | succ q =>
      obtain ⟨⟨z, hz, hzk⟩, hafter⟩ := ihp q hl
      simp only [Spec.C15.lastLe, hl]
      refine ⟨by simp, ?_⟩
      intro p hp
      have : p = q + 1 := by omega
      subst this
      refine ⟨⟨z, by simpa using hz, hzk⟩, ?_⟩
      intro j y hj hy
      cases j with
      | zero => omega
      | succ j =>
        simp only [List.getElem?_cons_succ] at hy
        exact hafter j y (by omega) hy

/-- **match_approx_last_le**: on ascending data, if approximate MATCH returns position `p` then
    element `p` does not exceed the key and every later element does; if it returns #N/A every element
    exceeds the key; and it returns one of the two. -/
theorem match_approx_last_le {key : S} {k : Cls} (hk : cls key = some k) (cells : List S) (xs : List Cls)
    (hne : cells ≠ []) (hc : cells.map cls = xs.map some) (hasc : Spec.C15.ascending xs = true) :
    (∀ p : Nat, MATCH key (cells.map fun x => [x]) (.num (.int 1)) = .ok (.num (.int p)) →
        1 ≤ p ∧ (∃ x, xs[p - 1]? = some x ∧ Spec.C15.leb x k = true) ∧
        ∀ j y, p - 1 < j → xs[j]? = some y → Spec.C15.leb y k = false) ∧
    (MATCH key (cells.map fun x => [x]) (.num (.int 1)) = .ok (.err .na) →
        ∀ x ∈ xs, Spec.C15.leb x k = false) ∧
    ((∃ p : Nat, MATCH key (cells.map fun x => [x]) (.num (.int 1)) = .ok (.num (.int p))) ∨
      MATCH key (cells.map fun x => [x]) (.num (.int 1)) = .ok (.err .na)) := by
  rw [match_approx_refines hk cells xs hne hc hasc]
  obtain ⟨l0, lp⟩ := lastLe_spec k xs
  cases hl : Spec.C15.lastLe k xs with
  | zero => exact ⟨fun p hp => by simp at hp, fun _ => l0 hl, Or.inr rfl⟩
  | succ q =>
    refine ⟨?_, fun h => by simp at h, Or.inl ⟨q + 1, rfl⟩⟩
    intro p hp
    simp only [Res.ok.injEq, S.num.injEq, Num.int.injEq] at hp
    have : p = q + 1 := by omega
    subst this
    obtain ⟨h1, h2⟩ := lp q hl
    exact ⟨by omega, by simpa using h1, fun j y hj hy => h2 j y (by omega) hy⟩

/-! ## VLOOKUP -/

/-- a table whose key cells (first column) are classified, with its statement-level reading -/
def KeyedRows (rows : List (List S)) (sp : List (Cls × List S)) : Prop :=
  rows.map (fun row => (row.head?.bind cls, row)) = sp.map (fun p => (some p.1, p.2))

theorem keyed_cons {row : List S} {rows : List (List S)} {sp : List (Cls × List S)}
    (h : KeyedRows (row :: rows) sp) :
    ∃ k' cell tail sp', sp = (k', row) :: sp' ∧ row = cell :: tail ∧ cls cell = some k' ∧ KeyedRows rows sp' := by
  cases sp with
  | nil => simp [KeyedRows] at h
  | cons p sp' =>
    simp only [KeyedRows, List.map_cons, List.cons.injEq, Prod.mk.injEq] at h
    obtain ⟨⟨h1, h2⟩, h3⟩ := h
    cases row with
    | nil => simp at h1
    | cons cell tail =>
      obtain ⟨k', r'⟩ := p
      simp only at h1 h2
      subst h2
      exact ⟨k', cell, tail, sp', rfl, rfl, by simpa using h1, h3⟩

theorem vlookupScan_spec {key : S} {k : Cls} (hk : cls key = some k) (col : Nat) (rows : List (List S))
    (sp : List (Cls × List S)) (h : KeyedRows rows sp) :
    vlookupScan key col rows =
      .ok (match Spec.C15.firstRow k sp with
           | none => .err .na
           | some row => row.getD (col - 1) .blank) := by
  induction rows generalizing sp with
  | nil =>
    cases sp with
    | nil => rfl
    | cons p sp' => simp [KeyedRows] at h
  | cons row rows ih =>
    obtain ⟨k', cell, tail, sp', rfl, rfl, hcell, hrest⟩ := keyed_cons h
    obtain ⟨_, _, _, he⟩ := cmpE_cls hcell hk
    by_cases hkk : k' = k
    · simp [vlookupScan, he, hkk, Spec.C15.firstRow]
    · simp [vlookupScan, he, hkk, Spec.C15.firstRow, ih sp' hrest]

theorem firstRow_mem {k : Cls} {sp : List (Cls × List S)} {row : List S}
    (h : Spec.C15.firstRow k sp = some row) : row ∈ sp.map (·.2) := by
  induction sp with
  | nil => simp [Spec.C15.firstRow] at h
  | cons p sp ih =>
    obtain ⟨k', r⟩ := p
    by_cases hk : k' = k
    · simp [Spec.C15.firstRow, hk] at h; simp [h]
    · simp only [Spec.C15.firstRow, hk, if_false] at h
      simp [ih h]

theorem keyed_rows {rows : List (List S)} {sp : List (Cls × List S)} (h : KeyedRows rows sp) :
    sp.map (·.2) = rows := by
  have := congrArg (List.map Prod.snd) h
  simpa [List.map_map, Function.comp_def] using this.symm

/-- **vlookup_col_range**: a column index below 1 or beyond the width of the table is `#VALUE!`,
    whatever the table contains (also for fractional indices, which are truncated first). -/
theorem vlookup_col_range (key : S) (hkey : ∀ e, key ≠ .err e) (r0 : List S) (rows : List (List S))
    (colIndex : Num) (h : truncNum colIndex < 1 ∨ truncNum colIndex > r0.length) :
    VLOOKUP key (r0 :: rows) colIndex false = .ok (.err .value) := by
  cases key with
  | err e => exact absurd rfl (hkey e)
  | _ =>
    simp only [VLOOKUP, Bool.false_eq_true, if_false]
    rcases h with h | h
    · simp [h]
    · by_cases h1 : truncNum colIndex < 1
      · simp [h1]
      · simp [h1, h]

/-- **vlookup_spec**: for a rectangular table with classified key cells and a whole column index,
    VLOOKUP(key, table, col, FALSE) is the statement's lookup: the requested column of the first row
    whose key equals the lookup value, #N/A if there is none, #VALUE! for a column outside the table. -/
theorem vlookup_spec {key : S} {k : Cls} (hk : cls key = some k) (rows : List (List S))
    (sp : List (Cls × List S)) (hkr : KeyedRows rows sp) (w : Nat) (hw : ∀ row ∈ rows, row.length = w)
    (hne : rows ≠ []) (c : Int) :
    VLOOKUP key rows (.int c) false =
      (match Spec.C15.vlookup k sp w c with
       | .value v => .ok v
       | .na => .ok (.err .na)
       | .colError => .ok (.err .value)) := by
  have hkey : ∀ e, key ≠ .err e := by intro e h; subst h; simp [cls] at hk
  cases rows with
  | nil => exact absurd rfl hne
  | cons r0 rest =>
    have hr0 : r0.length = w := hw r0 (by simp)
    by_cases hout : c < 1 ∨ c > (w : Int)
    · rw [vlookup_col_range key hkey r0 rest (.int c) (by simpa [truncNum, hr0] using hout)]
      simp [Spec.C15.vlookup, hout]
    · have h1 : ¬ c < 1 := fun h => hout (Or.inl h)
      have h2 : ¬ c > (w : Int) := fun h => hout (Or.inr h)
      have hscan := vlookupScan_spec hk c.toNat (r0 :: rest) sp hkr
      cases key with
      | err e => exact absurd rfl (hkey e)
      | _ =>
        simp only [VLOOKUP, Bool.false_eq_true, if_false, truncNum, h1, hr0, h2, hscan, ofE,
          Spec.C15.vlookup]
        cases hf : Spec.C15.firstRow k sp with
        | none => rfl
        | some row =>
          have hmem : row ∈ r0 :: rest := by rw [← keyed_rows hkr]; exact firstRow_mem hf
          have hlen : row.length = w := hw row hmem
          have hidx : c.toNat - 1 < row.length := by omega
          simp [List.getD_eq_getElem?_getD, List.getElem?_eq_getElem hidx]


/-! ## CHOOSE -/

theorem int_lt_one (i : Int) : ((i : Rat) < 1) ↔ i < 1 := by
  have : (1 : Rat) = ((1 : Int) : Rat) := by simp
  rw [this, Rat.intCast_lt_intCast]

theorem int_gt_nat (i : Int) (n : Nat) : ((i : Rat) > (n : Rat)) ↔ i > (n : Int) := by
  have : (n : Rat) = ((n : Int) : Rat) := (Rat.intCast_natCast n).symm
  rw [this, gt_iff_lt, Rat.intCast_lt_intCast]

/-- **choose_spec**: CHOOSE(i, v1..vn) with a whole index is v_i, and #VALUE! when i is outside 1..n
    (n ≤ 254, the number of arguments Excel allows). -/
theorem choose_spec (ext : Ext) (i : Int) (values : List S) (hlen : values.length ≤ 254) :
    CHOOSE ext (.num (.int i)) values =
      (match Spec.C15.choose i values with
       | some v => .ok v
       | none => .ok (.err .value)) := by
  have h254 : ((i : Rat) > 254) ↔ i > 254 := by
    have := int_gt_nat i 254
    simpa using this
  simp only [CHOOSE, toNumber, Num.toRat, int_lt_one, h254, int_gt_nat, truncNum, Spec.C15.choose]
  by_cases h1 : i < 1
  · simp [h1]
  · by_cases h2 : i > (values.length : Int)
    · simp [h2]
    · have h3 : ¬ i > 254 := by omega
      have hidx : i.toNat - 1 < values.length := by omega
      simp [h1, h2, h3, List.getD_eq_getElem?_getD, List.getElem?_eq_getElem hidx]

/-- an index below 1 — also a fractional one such as 0.5 — is #VALUE! -/
theorem choose_below_one (ext : Ext) (n : Num) (values : List S) (h : n.toRat < 1) :
    CHOOSE ext (.num n) values = .ok (.err .value) := by
  simp [CHOOSE, toNumber, h]

/-- a fractional index inside 1..n selects the value at the truncated position -/
theorem choose_fractional (ext : Ext) (q : Rat) (values : List S) (hlen : values.length ≤ 254)
    (h1 : 1 ≤ q) (h2 : q ≤ (values.length : Rat)) :
    CHOOSE ext (.num (.flt q)) values =
      (match Spec.C15.choose q.floor values with
       | some v => .ok v
       | none => .ok (.err .value)) := by
  have hf1 : 1 ≤ q.floor := by
    have := Rat.floor_monotone h1
    have e : ((1 : Int) : Rat) = 1 := by simp
    rw [← e, Rat.floor_intCast] at this
    exact this
  have hf2 : q.floor ≤ (values.length : Int) := by
    have := Rat.floor_monotone h2
    have e : ((values.length : Int) : Rat) = (values.length : Rat) := Rat.intCast_natCast _
    rw [← e, Rat.floor_intCast] at this
    exact this
  have hq0 : ¬ q < 0 := by
    intro h
    have : (1 : Rat) ≤ q := h1
    grind
  have hq1 : ¬ q < 1 := by grind
  have hq254 : ¬ q > 254 := by
    have : (values.length : Rat) ≤ 254 := by
      have e : (254 : Rat) = ((254 : Nat) : Rat) := by simp
      rw [e, Rat.natCast_le_natCast]; exact hlen
    grind
  have hq3 : ¬ q > (values.length : Rat) := by grind
  have hidx : q.floor.toNat - 1 < values.length := by omega
  have hs1 : ¬ q.floor < 1 := by omega
  have hs2 : ¬ q.floor > (values.length : Int) := by omega
  simp [CHOOSE, toNumber, Num.toRat, truncNum, hq0, hq1, hq254, hq3, Spec.C15.choose, hs1, hs2,
    List.getD_eq_getElem?_getD, List.getElem?_eq_getElem hidx]

end XlVerif.Lemmas.C15
