/-
  Lemmas for C15, part 2: Python `int(text)` / `float(text)` (as modelled in `Model.Value`) read every
  numeral of the statement's grammar `-? digits (. digits)?` as the number it denotes; words are not
  numbers.
-/
import XlVerif.Model.C15
import XlVerif.Spec.C15
namespace XlVerif.Lemmas.C15
open XlVerif XlVerif.Model.Value XlVerif.Model.C15

theorem isDigit_iff (c : Char) : isDigit c = true ↔ 48 ≤ c.toNat ∧ c.toNat ≤ 57 := by
  simp only [isDigit, Bool.and_eq_true, decide_eq_true_eq, Char.le_def, UInt32.le_iff_toNat_le]
  rfl

theorem char_eq_iff (c d : Char) : c = d ↔ c.toNat = d.toNat := by
  constructor
  · intro h; rw [h]
  · intro h; exact Char.toNat_inj.mp h

theorem digit_not_ws {c : Char} (h : isDigit c = true) : isWs c = false := by
  rw [isDigit_iff] at h
  simp only [isWs, Bool.or_eq_false_iff, decide_eq_false_iff_not, char_eq_iff]
  have e1 : ' '.toNat = 32 := rfl
  have e2 : '\t'.toNat = 9 := rfl
  have e3 : '\n'.toNat = 10 := rfl
  have e4 : '\r'.toNat = 13 := rfl
  omega

theorem digit_ne {c : Char} (h : isDigit c = true) : c ≠ '-' ∧ c ≠ '+' ∧ c ≠ '_' ∧ c ≠ '.' := by
  rw [isDigit_iff] at h
  simp only [ne_eq, char_eq_iff]
  have e1 : '-'.toNat = 45 := rfl
  have e2 : '+'.toNat = 43 := rfl
  have e3 : '_'.toNat = 95 := rfl
  have e4 : '.'.toNat = 46 := rfl
  omega

theorem spec_isDigit : Spec.C15.isDigit = isDigit := rfl
theorem spec_digitVal : Spec.C15.digitVal = digitVal := rfl

/-! ### strip -/

theorem stripL_id {s : List Char} (h : ∀ c, s.head? = some c → isWs c = false) : stripL s = s := by
  cases s with
  | nil => rfl
  | cons c r => simp [stripL, h c rfl]

theorem strip_id {s : List Char} (h1 : ∀ c, s.head? = some c → isWs c = false)
    (h2 : ∀ c, s.getLast? = some c → isWs c = false) : strip s = s := by
  unfold strip
  rw [stripL_id h1, stripL_id (s := s.reverse) (by simpa [List.head?_reverse] using h2), List.reverse_reverse]

/-! ### digit runs -/

/-- value of a digit run continuing an accumulator -/
def runVal (acc : Nat) (ds : List Char) : Nat := ds.foldl (fun a c => a * 10 + digitVal c) acc

theorem natOf_eq (ds : List Char) : Spec.C15.natOf ds = runVal 0 ds := rfl

theorem go_digits (ds : List Char) (hds : ∀ c ∈ ds, isDigit c = true) (rest : List Char)
    (hrest : rest = [] ∨ ∃ r, rest = '.' :: r) (acc n : Nat) :
    digitsUS.go acc n (ds ++ rest) = (runVal acc ds, n + ds.length, rest) := by
  induction ds generalizing acc n with
  | nil =>
    rcases hrest with h | ⟨r, h⟩ <;> subst h
    · simp [digitsUS.go, runVal]
    · have h1 : isDigit '.' = false := by decide
      have h2 : ('.' = '_') = False := by decide
      unfold digitsUS.go
      simp [runVal, h1, h2]
  | cons d ds ih =>
    have hd := hds d (by simp)
    have := ih (fun c hc => hds c (by simp [hc])) (acc * 10 + digitVal d) (n + 1)
    rw [List.cons_append]
    unfold digitsUS.go
    simp only [hd, if_true, this, runVal, List.foldl_cons, List.length_cons]
    simp; omega

theorem digitsUS_run (d : Char) (ds : List Char) (hd : isDigit d = true) (hds : ∀ c ∈ ds, isDigit c = true)
    (rest : List Char) (hrest : rest = [] ∨ ∃ r, rest = '.' :: r) :
    digitsUS (d :: ds ++ rest) = some (runVal 0 (d :: ds), 1 + ds.length, rest) := by
  simp only [digitsUS, List.cons_append, hd, if_true, go_digits ds hds rest hrest, runVal, List.foldl_cons]
  simp

theorem strip_id_all {s : List Char} (h : ∀ c ∈ s, isWs c = false) : strip s = s :=
  strip_id (fun c hc => h c (List.mem_of_mem_head? hc)) (fun c hc => h c (List.mem_of_mem_getLast? hc))

/-- sign prefix of a numeral -/
inductive Sgn | pos | neg
def Sgn.chars : Sgn → List Char | .pos => [] | .neg => ['-']
def Sgn.int : Sgn → Int | .pos => 1 | .neg => -1

theorem signOf_numeral (sg : Sgn) (d : Char) (hd : isDigit d = true) (r : List Char) :
    signOf (sg.chars ++ d :: r) = (sg.int, d :: r) := by
  cases sg with
  | neg => rfl
  | pos =>
    have := digit_ne hd
    simp only [Sgn.chars, List.nil_append, Sgn.int]
    unfold signOf
    split <;> simp_all

theorem sgn_not_ws (sg : Sgn) : ∀ c ∈ sg.chars, isWs c = false := by
  cases sg <;> simp [Sgn.chars] ; decide


theorem runVal_cons (d : Char) (ds : List Char) : runVal 0 (d :: ds) = runVal (digitVal d) ds := by
  simp [runVal]

theorem pyInt_numeral (sg : Sgn) (d : Char) (ds : List Char) (hd : isDigit d = true)
    (hds : ∀ c ∈ ds, isDigit c = true) :
    pyIntOfText (sg.chars ++ d :: ds) = some (sg.int * (runVal 0 (d :: ds) : Nat)) := by
  have hs : strip (sg.chars ++ d :: ds) = sg.chars ++ d :: ds := by
    apply strip_id_all
    intro c hc
    rcases List.mem_append.mp hc with h | h
    · exact sgn_not_ws sg c h
    · rcases List.mem_cons.mp h with h | h
      · subst h; exact digit_not_ws hd
      · exact digit_not_ws (hds c h)
  have hdig := digitsUS_run d ds hd hds [] (Or.inl rfl)
  rw [List.append_nil] at hdig
  simp [pyIntOfText, hs, signOf_numeral sg d hd ds, hdig]


theorem digit_lower {c : Char} (h : isDigit c = true) : lower c = c := by
  rw [isDigit_iff] at h
  have : ¬ ('A' ≤ c ∧ c ≤ 'Z') := by
    simp only [Char.le_def, UInt32.le_iff_toNat_le]
    have e1 : 'A'.val.toNat = 65 := rfl
    have e2 : c.val.toNat = c.toNat := rfl
    omega
  simp [lower, this]

theorem digit_ne_in {c : Char} (h : isDigit c = true) : c ≠ 'i' ∧ c ≠ 'n' := by
  rw [isDigit_iff] at h
  simp only [ne_eq, char_eq_iff]
  have e1 : 'i'.toNat = 105 := rfl
  have e2 : 'n'.toNat = 110 := rfl
  omega

theorem numeral_chars_not_ws (sg : Sgn) (d : Char) (ds fp : List Char) (hd : isDigit d = true)
    (hds : ∀ c ∈ ds, isDigit c = true) (hfp : ∀ c ∈ fp, isDigit c = true) :
    ∀ c ∈ sg.chars ++ d :: ds ++ '.' :: fp, isWs c = false := by
  intro c hc
  simp only [List.mem_append, List.mem_cons] at hc
  rcases hc with (h | h | h) | h | h
  · exact sgn_not_ws sg c h
  · subst h; exact digit_not_ws hd
  · exact digit_not_ws (hds c h)
  · subst h; decide
  · exact digit_not_ws (hfp c h)

theorem pyInt_decimal (sg : Sgn) (d : Char) (ds fp : List Char) (hd : isDigit d = true)
    (hds : ∀ c ∈ ds, isDigit c = true) (hfp : ∀ c ∈ fp, isDigit c = true) :
    pyIntOfText (sg.chars ++ d :: ds ++ '.' :: fp) = none := by
  have hs := strip_id_all (numeral_chars_not_ws sg d ds fp hd hds hfp)
  have hdig := digitsUS_run d ds hd hds ('.' :: fp) (Or.inr ⟨fp, rfl⟩)
  have hsg := signOf_numeral sg d hd (ds ++ '.' :: fp)
  simp only [List.append_assoc, List.cons_append] at hs hdig hsg ⊢
  simp [pyIntOfText, hs, hsg, hdig]

/-- the decimal value of `ip . fp` under a sign -/
def decVal (sg : Sgn) (ip fp : List Char) : Rat :=
  (sg.int : Rat) * ((runVal 0 ip * 10 ^ fp.length + runVal 0 fp : Nat) : Rat) * (1 / (10 : Rat) ^ fp.length)

/-- the finiteness test at the end of `float(text)` -/
def floatOf (q : Rat) : Option PyFloat :=
  if q ≥ floatMax ∨ q ≤ -floatMax then some .nonfinite else some (.fin q)

theorem floatOf_fin {q : Rat} (h : ¬ (q ≥ floatMax ∨ q ≤ -floatMax)) : floatOf q = some (.fin q) := if_neg h

theorem pyFloat_decimal (sg : Sgn) (d : Char) (ds : List Char) (e : Char) (es : List Char)
    (hd : isDigit d = true) (hds : ∀ c ∈ ds, isDigit c = true)
    (he : isDigit e = true) (hes : ∀ c ∈ es, isDigit c = true) :
    pyFloatOfText (sg.chars ++ d :: ds ++ '.' :: e :: es) = floatOf (decVal sg (d :: ds) (e :: es)) := by
  have hfp : ∀ c ∈ e :: es, isDigit c = true := by
    intro c hc; rcases List.mem_cons.mp hc with h | h
    · subst h; exact he
    · exact hes c h
  have hs := strip_id_all (numeral_chars_not_ws sg d ds (e :: es) hd hds hfp)
  have hdig := digitsUS_run d ds hd hds ('.' :: e :: es) (Or.inr ⟨_, rfl⟩)
  have hdig2 := digitsUS_run e es he hes [] (Or.inl rfl)
  have hsg := signOf_numeral sg d hd (ds ++ '.' :: e :: es)
  have hl := digit_lower hd
  have hn := digit_ne_in hd
  simp only [List.append_assoc, List.cons_append, List.append_nil] at hs hdig hdig2 hsg ⊢
  have hp : pow10 (-((es.length : Int) + 1)) = 1 / (10 : Rat) ^ (es.length + 1) := by
    have h1 : ¬ (-((es.length : Int) + 1) ≥ 0) := by omega
    have h2 : (-(-((es.length : Int) + 1))).toNat = es.length + 1 := by omega
    simp only [pow10, h1, if_false, h2]
  unfold pyFloatOfText floatOf decVal
  simp only [hs, hsg, hdig, hdig2, List.map_cons, hl]
  simp [hn.1, hn.2, hp, Nat.add_comm]

theorem ite_ite_some {c1 c2 : Prop} [Decidable c1] [Decidable c2] {x q : Rat}
    (h : (if c1 then (if c2 then none else some x) else none) = some q) : c1 ∧ ¬ c2 ∧ x = q := by
  by_cases h1 : c1
  · by_cases h2 : c2
    · simp [h1, h2] at h
    · simp [h1, h2] at h; exact ⟨h1, h2, h⟩
  · simp [h1] at h

theorem floatMax_eq : floatMax = Spec.C15.doubleLimit := rfl

theorem numberCore_sound (ext : Ext) (sg : Sgn) (ip rest : List Char) (q : Rat)
    (hall : ∀ c ∈ ip, isDigit c = true)
    (h : Spec.C15.numberCore sg.int ip rest = some q) :
    ∃ n, textNumber ext (sg.chars ++ (ip ++ rest)) = .ok n ∧ n.toRat = q := by
  unfold Spec.C15.numberCore at h
  cases ip with
  | nil => simp at h
  | cons d ds =>
    have hd := hall d (by simp)
    have hds : ∀ c ∈ ds, isDigit c = true := fun c hc => hall c (by simp [hc])
    simp only [reduceCtorEq, if_false] at h
    cases rest with
    | nil =>
      rw [List.append_nil]
      simp only at h
      split at h
      · simp only [Option.some.injEq] at h
        refine ⟨.int (sg.int * (runVal 0 (d :: ds) : Nat)), ?_, ?_⟩
        · simp [textNumber, pyInt_numeral sg d ds hd hds]
        · rw [← h]; simp [Num.toRat, natOf_eq]
      · simp at h
    | cons c fp =>
      obtain ⟨⟨hdot, hne, hfd, _⟩, hq, hx⟩ := ite_ite_some h
      subst hdot
      cases fp with
      | nil => exact absurd rfl hne
      | cons e es =>
        have he : isDigit e = true := (List.all_eq_true.mp hfd) e (by simp)
        have hes : ∀ c ∈ es, isDigit c = true := fun c hc => (List.all_eq_true.mp hfd) c (by simp [hc])
        have hfl := pyFloat_decimal sg d ds e es hd hds he hes
        have hint := pyInt_decimal sg d ds (e :: es) hd hds
          (by intro c hc; rcases List.mem_cons.mp hc with h | h
              · subst h; exact he
              · exact hes c h)
        have hx' : decVal sg (d :: ds) (e :: es) = q := hx
        have hq' : ¬ (decVal sg (d :: ds) (e :: es) ≥ floatMax ∨ decVal sg (d :: ds) (e :: es) ≤ -floatMax) := hq
        rw [floatOf_fin hq', hx'] at hfl
        refine ⟨.flt q, ?_, rfl⟩
        simp only [List.append_assoc, List.cons_append] at hint hfl ⊢
        simp only [textNumber, hint, hfl]

theorem numberBody_sound (ext : Ext) (sg : Sgn) (body : List Char) (q : Rat)
    (h : Spec.C15.numberBody sg.int body = some q) :
    ∃ n, textNumber ext (sg.chars ++ body) = .ok n ∧ n.toRat = q := by
  have := numberCore_sound ext sg (body.takeWhile isDigit) (body.dropWhile isDigit) q
    (fun c hc => (List.all_eq_true.mp List.all_takeWhile) c hc) h
  rwa [List.takeWhile_append_dropWhile] at this

/-- **Every numeral of the statement's grammar is typed as the number it denotes.** -/
theorem number_sound (ext : Ext) (t : List Char) (q : Rat) (h : Spec.C15.number? t = some q) :
    ∃ n, textNumber ext t = .ok n ∧ n.toRat = q := by
  unfold Spec.C15.number? at h
  split at h
  · exact numberBody_sound ext .neg _ q h
  · exact numberBody_sound ext .pos t q h

theorem isLetter_iff (c : Char) : Spec.C15.isLetter c = true ↔
    (97 ≤ c.toNat ∧ c.toNat ≤ 122) ∨ (65 ≤ c.toNat ∧ c.toNat ≤ 90) := by
  simp only [Spec.C15.isLetter, Bool.or_eq_true, Bool.and_eq_true, decide_eq_true_eq, Char.le_def,
    UInt32.le_iff_toNat_le]
  rfl

theorem letter_facts {c : Char} (h : Spec.C15.isLetter c = true) :
    isWs c = false ∧ isDigit c = false ∧ c ≠ '+' ∧ c ≠ '-' ∧ c ≠ '.' := by
  rw [isLetter_iff] at h
  have hd : ¬ (isDigit c = true) := by rw [isDigit_iff]; omega
  refine ⟨?_, by simpa using hd, ?_, ?_, ?_⟩
  · simp only [isWs, Bool.or_eq_false_iff, decide_eq_false_iff_not, char_eq_iff]
    have e1 : ' '.toNat = 32 := rfl
    have e2 : '\t'.toNat = 9 := rfl
    have e3 : '\n'.toNat = 10 := rfl
    have e4 : '\r'.toNat = 13 := rfl
    omega
  all_goals
    simp only [ne_eq, char_eq_iff]
    have e1 : '-'.toNat = 45 := rfl
    have e2 : '+'.toNat = 43 := rfl
    have e4 : '.'.toNat = 46 := rfl
    omega

theorem spec_isSpace : Spec.C15.isSpace = isWs := rfl
theorem spec_lower : Spec.C15.lowerAscii = lower := rfl

theorem booleanTexts_eq : Gen.booleanTexts = ["false".toList, "true".toList] := by decide

/-- **Every word operand is typed as text** (when the date parser does not accept it). -/
theorem word_is_text (ext : Ext) (t : List Char) (hw : Spec.C15.isWord t = true)
    (hdate : ext.dateParse t = none) : typeOperand ext t = some (.text t) := by
  cases t with
  | nil => simp [Spec.C15.isWord] at hw
  | cons c r =>
    simp only [Spec.C15.isWord, Bool.and_eq_true, Bool.not_eq_true', spec_isSpace, spec_lower] at hw
    obtain ⟨⟨⟨hl, hlast⟩, _⟩, hres⟩ := hw
    obtain ⟨hws, hdg, hp, hm, hdot⟩ := letter_facts hl
    have hs : strip (c :: r) = c :: r := by
      apply strip_id
      · intro x hx; simp at hx; subst hx; exact hws
      · intro x hx; rw [hx] at hlast; simpa using hlast
    have hsg : signOf (c :: r) = (1, c :: r) := by
      unfold signOf; split <;> simp_all
    have hdu : digitsUS (c :: r) = none := by simp [digitsUS, hdg]
    have hint : pyIntOfText (c :: r) = none := by simp [pyIntOfText, hs, hsg, hdu]
    have hres' : ¬ ((c :: r).map lower = "inf".toList ∨ (c :: r).map lower = "infinity".toList ∨
        (c :: r).map lower = "nan".toList) ∧ (c :: r).map lower ≠ "true".toList ∧
        (c :: r).map lower ≠ "false".toList := by
      simp only [Spec.C15.reserved, List.contains_eq_mem, List.mem_cons, List.not_mem_nil, or_false,
        decide_eq_false_iff_not] at hres
      exact ⟨fun h => hres (by rcases h with h | h | h <;> simp [h]), fun h => hres (by simp [h]),
        fun h => hres (by simp [h])⟩
    have hfl : pyFloatOfText (c :: r) = none := by
      unfold pyFloatOfText
      simp only [hs, hsg, hdu, hres'.1, if_false]
      split <;> simp_all
    have hb : textBoolByContent (c :: r) = none := by
      have : Gen.booleanTexts.contains ((c :: r).map lower) = false := by
        rw [booleanTexts_eq]
        simp only [List.contains_eq_mem, List.mem_cons, List.not_mem_nil, or_false, decide_eq_false_iff_not]
        intro h; rcases h with h | h
        · exact hres'.2.2 h
        · exact hres'.2.1 h
      simp only [textBoolByContent, this]
      simp
    simp [typeOperand, textNumber, hint, hfl, hb, hdate, castDateTime]

end XlVerif.Lemmas.C15
