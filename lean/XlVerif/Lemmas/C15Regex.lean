/-
  Lemmas for C15, part 1: the regex split of `parse_criteria` is the longest-operator-prefix split of
  the statement, for every string — given a decidable shape condition on the regex alternatives.
-/
import XlVerif.Model.C15
import XlVerif.Spec.C15
namespace XlVerif.Lemmas.C15
open XlVerif XlVerif.Model.Value XlVerif.Model.C15

/-- the operator prefix the regex alternatives select -/
def altOp (alts : List (List Char)) (s : List Char) : List Char :=
  (alts.find? (fun a => a.isPrefixOf s)).getD []

theorem regexSplit_eq (alts : List (List Char)) (s : List Char) :
    regexSplit alts s = (altOp alts s, (s.drop (altOp alts s).length).takeWhile (fun c => c ≠ '\n')) := by
  unfold regexSplit altOp
  cases alts.find? (fun a => a.isPrefixOf s) <;> simp

/-- representative of a character for the purposes of operator matching -/
def norm (c : Char) : Char := if isOpChar c then c else 'x'
/-- the first two characters, normalised -/
def abs2 (s : List Char) : List Char := (s.take 2).map norm

def four : List Char := ['<', '>', '=', 'x']

/-- shape condition on the alternatives: literal strings of at most two operator characters which
    select the longest operator prefix on the 21 representative strings -/
def altsOK (alts : List (List Char)) : Bool :=
  alts.all (fun a => decide (a.length ≤ 2) && a.all isOpChar) &&
  (altOp alts [] == (Spec.C15.splitOp []).1) &&
  four.all (fun c => altOp alts [c] == (Spec.C15.splitOp [c]).1) &&
  four.all (fun c => four.all fun d => altOp alts [c, d] == (Spec.C15.splitOp [c, d]).1)

theorem isOpChar_cases {c : Char} (h : isOpChar c = true) : c = '<' ∨ c = '>' ∨ c = '=' := by
  simp only [isOpChar, Bool.or_eq_true, decide_eq_true_eq] at h
  rcases h with (h | h) | h
  · exact Or.inl h
  · exact Or.inr (Or.inl h)
  · exact Or.inr (Or.inr h)

theorem norm_mem (c : Char) : norm c ∈ four := by
  unfold norm
  split
  · rename_i h
    rcases isOpChar_cases h with h | h | h <;> subst h <;> simp [four]
  · simp [four]

theorem beq_norm {c e : Char} (hc : isOpChar c = true) : (c == e) = (c == norm e) := by
  unfold norm
  split
  · rfl
  · rename_i h
    have h1 : c ≠ e := by intro he; subst he; exact h hc
    have h2 : c ≠ 'x' := by
      rcases isOpChar_cases hc with h | h | h <;> subst h <;> decide
    rw [beq_eq_false_iff_ne.mpr h1, beq_eq_false_iff_ne.mpr h2]

theorem isPrefixOf_abs2 {a : List Char} (hl : a.length ≤ 2) (ha : a.all isOpChar = true) (s : List Char) :
    a.isPrefixOf s = a.isPrefixOf (abs2 s) := by
  match a, hl, ha with
  | [], _, _ => simp
  | [c], _, ha =>
    have hc : isOpChar c = true := by simpa using ha
    cases s with
    | nil => simp [abs2]
    | cons e r => simp [abs2, List.isPrefixOf, beq_norm hc (e := e)]
  | [c, d], _, ha =>
    have hcd : isOpChar c = true ∧ isOpChar d = true := by simpa using ha
    match s with
    | [] => simp [abs2]
    | [e] => simp [abs2, List.isPrefixOf]
    | e :: f :: r => simp [abs2, List.isPrefixOf, beq_norm hcd.1 (e := e), beq_norm hcd.2 (e := f)]
  | _ :: _ :: _ :: _, hl, _ => simp at hl

theorem find?_congr' {α} {l : List α} {p q : α → Bool} (h : ∀ a ∈ l, p a = q a) :
    l.find? p = l.find? q := by
  induction l with
  | nil => rfl
  | cons a r ih =>
    have ha := h a (by simp)
    have ih' := ih (fun b hb => h b (by simp [hb]))
    simp [List.find?_cons, ha, ih']

theorem altOp_abs2 {alts : List (List Char)}
    (h : alts.all (fun a => decide (a.length ≤ 2) && a.all isOpChar) = true) (s : List Char) :
    altOp alts s = altOp alts (abs2 s) := by
  unfold altOp
  congr 1
  apply find?_congr'
  intro a ha
  have := (List.all_eq_true.mp h) a ha
  simp only [Bool.and_eq_true, decide_eq_true_eq] at this
  exact isPrefixOf_abs2 this.1 this.2 s

theorem splitOp_snd (s : List Char) : (Spec.C15.splitOp s).2 = s.drop (Spec.C15.splitOp s).1.length := by
  unfold Spec.C15.splitOp
  split <;> simp

theorem norm_of_op {c : Char} (h : isOpChar c = true) : norm c = c := by simp [norm, h]
theorem norm_of_not {c : Char} (h : isOpChar c = false) : norm c = 'x' := by simp [norm, h]

theorem splitOp_abs2 (s : List Char) : (Spec.C15.splitOp s).1 = (Spec.C15.splitOp (abs2 s)).1 := by
  match s with
  | [] => rfl
  | [c] =>
    by_cases h : isOpChar c = true
    · rcases isOpChar_cases h with h | h | h <;> subst h <;> rfl
    · have h' : isOpChar c = false := by simpa using h
      have hn := norm_of_not h'
      simp only [isOpChar, Bool.or_eq_false_iff, decide_eq_false_iff_not] at h'
      simp only [abs2, List.take, List.map, hn]
      unfold Spec.C15.splitOp
      split <;> simp_all
  | c :: d :: r =>
    have e : abs2 (c :: d :: r) = [norm c, norm d] := rfl
    rw [e]
    by_cases hc : isOpChar c = true
    · by_cases hd : isOpChar d = true
      · rcases isOpChar_cases hc with h | h | h <;> subst h <;>
          rcases isOpChar_cases hd with h | h | h <;> subst h <;> rfl
      · have hd' : isOpChar d = false := by simpa using hd
        rw [norm_of_op hc, norm_of_not hd']
        simp only [isOpChar, Bool.or_eq_false_iff, decide_eq_false_iff_not] at hd'
        rcases isOpChar_cases hc with h | h | h <;> subst h <;>
          (unfold Spec.C15.splitOp; split <;> simp_all)
    · have hc' : isOpChar c = false := by simpa using hc
      rw [norm_of_not hc']
      simp only [isOpChar, Bool.or_eq_false_iff, decide_eq_false_iff_not] at hc'
      have : (Spec.C15.splitOp ['x', norm d]).1 = [] := by
        unfold Spec.C15.splitOp; split <;> simp_all
      rw [this]
      unfold Spec.C15.splitOp; split <;> simp_all

/-- **The regex split is the statement's split, for every string**, for any alternatives list that
    passes the decidable shape check. -/
theorem altOp_eq_splitOp {alts : List (List Char)} (h : altsOK alts = true) (s : List Char) :
    altOp alts s = (Spec.C15.splitOp s).1 := by
  simp only [altsOK, Bool.and_eq_true, beq_iff_eq] at h
  obtain ⟨⟨⟨h1, h2⟩, h3⟩, h4⟩ := h
  rw [altOp_abs2 h1 s, splitOp_abs2 s]
  match s with
  | [] => exact h2
  | [c] =>
    have := (List.all_eq_true.mp h3) (norm c) (norm_mem c)
    simpa [abs2] using this
  | c :: d :: r =>
    have := (List.all_eq_true.mp ((List.all_eq_true.mp h4) (norm c) (norm_mem c))) (norm d) (norm_mem d)
    simpa [abs2] using this

theorem regexSplit_spec {alts : List (List Char)} (h : altsOK alts = true) (s : List Char) :
    regexSplit alts s =
      ((Spec.C15.splitOp s).1, (Spec.C15.splitOp s).2.takeWhile (fun c => c ≠ '\n')) := by
  rw [regexSplit_eq, altOp_eq_splitOp h, splitOp_snd]

end XlVerif.Lemmas.C15
