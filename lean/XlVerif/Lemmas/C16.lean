/-
  Helper lemmas for C16: rounding a rational to an integer (floor, ceiling, toward zero, away from
  zero, nearest with ties away from zero) and scaling by a positive unit.
-/
import XlVerif.Spec.C16
import Mathlib.Tactic.Linarith
import Mathlib.Tactic.Ring
import Mathlib.Tactic.Positivity
import Mathlib.Tactic.FieldSimp
import Mathlib.Algebra.Order.Field.Rat
namespace XlVerif.Lemmas.C16
open XlVerif XlVerif.Spec.C16

/-! ### floor and ceiling -/

theorem floor_le' (y : Rat) : (y.floor : Rat) ≤ y := Rat.floor_le y
theorem lt_floor_add_one' (y : Rat) : y < (y.floor : Rat) + 1 := by
  have := Rat.lt_floor_add_one y; push_cast at this; exact this
theorem le_ceil' (y : Rat) : y ≤ (y.ceil : Rat) := Rat.le_ceil
theorem ceil_lt_add_one' (y : Rat) : (y.ceil : Rat) < y + 1 := Rat.ceil_lt

theorem floor_eq (y : Rat) (k : Int) (h1 : (k : Rat) ≤ y) (h2 : y < (k : Rat) + 1) : y.floor = k := by
  have a : k ≤ y.floor := Rat.le_floor_iff.mpr h1
  have b : y.floor < k + 1 := by
    apply Rat.floor_lt_iff.mpr; push_cast; exact h2
  omega

theorem ceil_eq (y : Rat) (k : Int) (h1 : (k : Rat) - 1 < y) (h2 : y ≤ (k : Rat)) : y.ceil = k := by
  have a : y.ceil ≤ k := Rat.ceil_le_iff.mpr h2
  have b : k - 1 < y.ceil := by
    apply Rat.lt_ceil_iff.mpr; push_cast; exact h1
  omega

theorem floor_mono {y z : Rat} (h : y ≤ z) : y.floor ≤ z.floor := Rat.floor_monotone h
theorem ceil_mono {y z : Rat} (h : y ≤ z) : y.ceil ≤ z.ceil := by
  apply Rat.ceil_le_iff.mpr; exact le_trans h (le_ceil' z)


/-! ### toward zero, away from zero, nearest with ties away from zero -/

theorem truncZ_nonneg {y : Rat} (h : 0 ≤ y) :
    (0 : Rat) ≤ truncZ y ∧ (truncZ y : Rat) ≤ y ∧ y < (truncZ y : Rat) + 1 := by
  have hn : ¬ y < 0 := not_lt.mpr h
  simp only [truncZ, hn, if_false]
  refine ⟨?_, floor_le' y, lt_floor_add_one' y⟩
  have : (0 : Int) ≤ y.floor := Rat.le_floor_iff.mpr (by simpa using h)
  exact_mod_cast this

theorem truncZ_neg {y : Rat} (h : y < 0) :
    (truncZ y : Rat) ≤ 0 ∧ y ≤ (truncZ y : Rat) ∧ (truncZ y : Rat) - 1 < y := by
  simp only [truncZ, h, if_true]
  have h1 := floor_le' (-y)
  have h2 := lt_floor_add_one' (-y)
  have : (0 : Int) ≤ (-y).floor := Rat.le_floor_iff.mpr (by simp; linarith)
  have h3 : (0 : Rat) ≤ ((-y).floor : Rat) := by exact_mod_cast this
  push_cast
  refine ⟨by linarith, by linarith, by linarith⟩

theorem awayZ_nonneg {y : Rat} (h : 0 ≤ y) :
    y ≤ (awayZ y : Rat) ∧ (awayZ y : Rat) < y + 1 := by
  have hn : ¬ y < 0 := not_lt.mpr h
  simp only [awayZ, hn, if_false]
  exact ⟨le_ceil' y, ceil_lt_add_one' y⟩

theorem awayZ_neg {y : Rat} (h : y < 0) :
    (awayZ y : Rat) ≤ y ∧ y - 1 < (awayZ y : Rat) := by
  simp only [awayZ, h, if_true]
  have h1 := le_ceil' (-y)
  have h2 := ceil_lt_add_one' (-y)
  push_cast
  exact ⟨by linarith, by linarith⟩

theorem nearAwayZ_nonneg {y : Rat} (h : 0 ≤ y) :
    (nearAwayZ y : Rat) - 1/2 ≤ y ∧ y < (nearAwayZ y : Rat) + 1/2 := by
  have hn : ¬ y < 0 := not_lt.mpr h
  simp only [nearAwayZ, hn, if_false]
  have h1 := floor_le' (y + 1/2)
  have h2 := lt_floor_add_one' (y + 1/2)
  exact ⟨by linarith, by linarith⟩

theorem nearAwayZ_neg {y : Rat} (h : y < 0) :
    (nearAwayZ y : Rat) - 1/2 < y ∧ y ≤ (nearAwayZ y : Rat) + 1/2 := by
  simp only [nearAwayZ, h, if_true]
  have h1 := floor_le' (-y + 1/2)
  have h2 := lt_floor_add_one' (-y + 1/2)
  push_cast
  exact ⟨by linarith, by linarith⟩

/-- nearest: within one half -/
theorem nearAwayZ_dist (y : Rat) : |y - (nearAwayZ y : Rat)| ≤ 1/2 := by
  rw [abs_le]
  rcases lt_or_ge y 0 with h | h
  · have := nearAwayZ_neg h; constructor <;> linarith
  · have := nearAwayZ_nonneg h; constructor <;> linarith

/-- a tie is resolved away from zero -/
theorem nearAwayZ_tie (y : Rat) (h : |y - (nearAwayZ y : Rat)| = 1/2) :
    |y| < |(nearAwayZ y : Rat)| := by
  rcases lt_or_ge y 0 with hy | hy
  · have hb := nearAwayZ_neg hy
    have hz : (nearAwayZ y : Rat) < 0 := by
      rcases abs_eq (by norm_num : (0:Rat) ≤ 1/2) |>.mp h with e | e <;> linarith
    rw [abs_of_neg hy, abs_of_neg hz]
    rcases abs_eq (by norm_num : (0:Rat) ≤ 1/2) |>.mp h with e | e <;> linarith
  · have hb := nearAwayZ_nonneg hy
    have hz : (0 : Rat) < (nearAwayZ y : Rat) := by
      rcases abs_eq (by norm_num : (0:Rat) ≤ 1/2) |>.mp h with e | e <;> linarith
    rw [abs_of_nonneg hy, abs_of_pos hz]
    rcases abs_eq (by norm_num : (0:Rat) ≤ 1/2) |>.mp h with e | e <;> linarith

/-- no integer is nearer than the chosen one -/
theorem nearAwayZ_nearest (y : Rat) (k : Int) : |y - (nearAwayZ y : Rat)| ≤ |y - (k : Rat)| := by
  have hd := nearAwayZ_dist y
  rcases abs_le.mp hd with ⟨h1, h2⟩
  by_cases hk : k = nearAwayZ y
  · rw [hk]
  · rcases lt_or_gt_of_ne hk with hlt | hgt
    · have : (k : Rat) + 1 ≤ (nearAwayZ y : Rat) := by exact_mod_cast hlt
      have : (1:Rat)/2 ≤ y - k := by linarith
      exact le_trans hd (le_trans this (le_abs_self _))
    · have : (nearAwayZ y : Rat) + 1 ≤ (k : Rat) := by exact_mod_cast hgt
      have : (1:Rat)/2 ≤ -(y - k) := by linarith
      exact le_trans hd (le_trans this (neg_le_abs _))

/-! fixed points: an integer is its own rounding -/

theorem truncZ_int (k : Int) : truncZ (k : Rat) = k := by
  unfold truncZ
  split
  · rw [← Rat.intCast_neg, Rat.floor_intCast]; omega
  · exact Rat.floor_intCast k

theorem awayZ_int (k : Int) : awayZ (k : Rat) = k := by
  unfold awayZ
  split
  · rw [← Rat.intCast_neg, Rat.ceil_intCast]; omega
  · exact Rat.ceil_intCast k

theorem nearAwayZ_int (k : Int) : nearAwayZ (k : Rat) = k := by
  unfold nearAwayZ
  split
  · have : (-(k : Rat) + 1/2).floor = -k := by
      apply floor_eq <;> push_cast <;> linarith
    rw [this]; omega
  · apply floor_eq <;> linarith

/-! monotonicity -/

theorem truncZ_mono {y z : Rat} (h : y ≤ z) : truncZ y ≤ truncZ z := by
  rcases lt_or_ge y 0 with hy | hy <;> rcases lt_or_ge z 0 with hz | hz
  · simp only [truncZ, hy, hz, if_true]
    have := floor_mono (show -z ≤ -y by linarith); omega
  · have a := truncZ_neg hy; have b := truncZ_nonneg hz
    have : (truncZ y : Rat) ≤ truncZ z := by linarith
    exact_mod_cast this
  · linarith
  · simp only [truncZ, not_lt.mpr hy, not_lt.mpr hz, if_false]; exact floor_mono h

theorem awayZ_mono {y z : Rat} (h : y ≤ z) : awayZ y ≤ awayZ z := by
  rcases lt_or_ge y 0 with hy | hy <;> rcases lt_or_ge z 0 with hz | hz
  · simp only [awayZ, hy, hz, if_true]
    have := ceil_mono (show -z ≤ -y by linarith); omega
  · have a := awayZ_neg hy; have b := awayZ_nonneg hz
    have : (awayZ y : Rat) ≤ awayZ z := by linarith
    exact_mod_cast this
  · linarith
  · simp only [awayZ, not_lt.mpr hy, not_lt.mpr hz, if_false]; exact ceil_mono h

theorem nearAwayZ_mono {y z : Rat} (h : y ≤ z) : nearAwayZ y ≤ nearAwayZ z := by
  rcases lt_or_ge y 0 with hy | hy <;> rcases lt_or_ge z 0 with hz | hz
  · simp only [nearAwayZ, hy, hz, if_true]
    have := floor_mono (show -z + 1/2 ≤ -y + 1/2 by linarith); omega
  · have a := nearAwayZ_neg hy; have b := nearAwayZ_nonneg hz
    -- nearAwayZ y ≤ 0 ≤ nearAwayZ z
    have h1 : nearAwayZ y ≤ 0 := by
      have : (nearAwayZ y : Rat) < 0 + 1 := by linarith
      have : nearAwayZ y < 0 + 1 := by exact_mod_cast this
      omega
    have h2 : 0 ≤ nearAwayZ z := by
      have : (0 : Rat) - 1 < (nearAwayZ z : Rat) := by linarith
      have : (0 : Int) - 1 < nearAwayZ z := by exact_mod_cast this
      omega
    omega
  · linarith
  · simp only [nearAwayZ, not_lt.mpr hy, not_lt.mpr hz, if_false]
    exact floor_mono (by linarith)


/-! ### powers of ten and scaling -/

theorem pow10_pos (d : Int) : 0 < pow10 d := Rat.zpow_pos (by norm_num)
theorem pow10_ne (d : Int) : pow10 d ≠ 0 := ne_of_gt (pow10_pos d)
theorem pow10_add (a b : Int) : pow10 (a + b) = pow10 a * pow10 b :=
  Rat.zpow_add (by norm_num) a b
theorem pow10_zero : pow10 0 = 1 := Rat.zpow_zero 10
theorem pow10_neg (d : Int) : pow10 (-d) = (pow10 d)⁻¹ := Rat.zpow_neg 10 d
theorem pow10_natCast (n : Nat) : pow10 (n : Int) = ((10 ^ n : Nat) : Rat) := by
  unfold pow10; rw [Rat.zpow_natCast]; push_cast; rfl
theorem pow10_mul_neg (d : Int) : pow10 d * pow10 (-d) = 1 := by
  rw [pow10_neg]; exact mul_inv_cancel₀ (pow10_ne d)

/-- `x - Z/p = (x·p - Z)/p` -/
theorem sub_scaled (x p : Rat) (hp : 0 < p) (k : Int) : x - (k : Rat) / p = (x * p - k) / p := by
  field_simp

theorem abs_sub_scaled (x p : Rat) (hp : 0 < p) (k : Int) :
    |x - (k : Rat) / p| = |x * p - k| / p := by
  rw [sub_scaled x p hp, abs_div, abs_of_pos hp]

theorem scaled_mul (p : Rat) (hp : 0 < p) (k : Int) : (k : Rat) / p * p = k := by
  field_simp

end XlVerif.Lemmas.C16
