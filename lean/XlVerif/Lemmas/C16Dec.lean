/-
  Helper lemmas for C16, part 2: natural-number division as floor / ceiling of a rational quotient,
  odd symmetry of the three integer roundings, and the value of a `Dec`.
-/
import XlVerif.Model.C16
import XlVerif.Lemmas.C16
set_option linter.unusedTactic false
namespace XlVerif.Lemmas.C16
open XlVerif XlVerif.Spec.C16 XlVerif.Model.C16

/-! ### `N / p` and `N % p` against the rational quotient -/

theorem natDiv_decomp (N p : Nat) (hp : 0 < p) :
    (N : Rat) / (p : Rat) = ((N / p : Nat) : Rat) + ((N % p : Nat) : Rat) / (p : Rat) := by
  have hp' : (0 : Rat) < (p : Rat) := by exact_mod_cast hp
  have h : (N : Rat) = (p : Rat) * ((N / p : Nat) : Rat) + ((N % p : Nat) : Rat) := by
    exact_mod_cast (Nat.div_add_mod N p).symm
  field_simp
  linarith

theorem natMod_frac (N p : Nat) (hp : 0 < p) :
    (0 : Rat) ≤ ((N % p : Nat) : Rat) / (p : Rat) ∧ ((N % p : Nat) : Rat) / (p : Rat) < 1 := by
  have hp' : (0 : Rat) < (p : Rat) := by exact_mod_cast hp
  constructor
  · positivity
  · rw [div_lt_one hp']; exact_mod_cast Nat.mod_lt N hp

theorem floor_natDiv (N p : Nat) (hp : 0 < p) : ((N : Rat) / (p : Rat)).floor = ((N / p : Nat) : Int) := by
  have h := natDiv_decomp N p hp
  have ⟨f0, f1⟩ := natMod_frac N p hp
  apply floor_eq <;> rw [Int.cast_natCast] <;> push_cast <;> linarith

theorem ceil_natDiv (N p : Nat) (hp : 0 < p) :
    ((N : Rat) / (p : Rat)).ceil = ((if N % p > 0 then N / p + 1 else N / p : Nat) : Int) := by
  have h := natDiv_decomp N p hp
  have ⟨f0, f1⟩ := natMod_frac N p hp
  have hp' : (0 : Rat) < (p : Rat) := by exact_mod_cast hp
  split
  · rename_i hr
    have : (0 : Rat) < ((N % p : Nat) : Rat) / (p : Rat) := by
      apply div_pos _ hp'; exact_mod_cast hr
    apply ceil_eq <;> rw [Int.cast_natCast] <;> push_cast <;> linarith
  · rename_i hr
    have hr0 : N % p = 0 := by omega
    rw [hr0] at h
    apply ceil_eq <;> rw [Int.cast_natCast] <;> simp at h <;> linarith

theorem floor_half_natDiv (N p : Nat) (hp : 0 < p) :
    ((N : Rat) / (p : Rat) + 1/2).floor = ((if 2 * (N % p) ≥ p then N / p + 1 else N / p : Nat) : Int) := by
  have h := natDiv_decomp N p hp
  have ⟨f0, f1⟩ := natMod_frac N p hp
  have hp' : (0 : Rat) < (p : Rat) := by exact_mod_cast hp
  split
  · rename_i hr
    have : (1 : Rat) / 2 ≤ ((N % p : Nat) : Rat) / (p : Rat) := by
      rw [le_div_iff₀ hp']
      have : ((p : Nat) : Rat) ≤ ((2 * (N % p) : Nat) : Rat) := by exact_mod_cast hr
      push_cast at this; linarith
    apply floor_eq <;> rw [Int.cast_natCast] <;> push_cast <;> linarith
  · rename_i hr
    have : ((N % p : Nat) : Rat) / (p : Rat) < 1 / 2 := by
      rw [div_lt_iff₀ hp']
      have : ((2 * (N % p) : Nat) : Rat) < ((p : Nat) : Rat) := by exact_mod_cast (by omega : 2 * (N % p) < p)
      push_cast at this; linarith
    apply floor_eq <;> rw [Int.cast_natCast] <;> push_cast <;> linarith

/-! ### the three integer roundings are odd functions -/

theorem truncZ_negArg (y : Rat) : truncZ (-y) = -truncZ y := by
  rcases lt_trichotomy y 0 with h | h | h
  · have h' : ¬ (-y < 0) := by linarith
    simp only [truncZ, h, h', if_true, if_false]; omega
  · subst h; have := truncZ_int 0; simp only [Int.cast_zero] at this; simp [this]
  · have h' : -y < 0 := by linarith
    have h'' : ¬ y < 0 := by linarith
    simp only [truncZ, h', h'', if_true, if_false, neg_neg]

theorem awayZ_negArg (y : Rat) : awayZ (-y) = -awayZ y := by
  rcases lt_trichotomy y 0 with h | h | h
  · have h' : ¬ (-y < 0) := by linarith
    simp only [awayZ, h, h', if_true, if_false]; omega
  · subst h; have := awayZ_int 0; simp only [Int.cast_zero] at this; simp [this]
  · have h' : -y < 0 := by linarith
    have h'' : ¬ y < 0 := by linarith
    simp only [awayZ, h', h'', if_true, if_false, neg_neg]

theorem nearAwayZ_negArg (y : Rat) : nearAwayZ (-y) = -nearAwayZ y := by
  rcases lt_trichotomy y 0 with h | h | h
  · have h' : ¬ (-y < 0) := by linarith
    simp only [nearAwayZ, h, h', if_true, if_false]; omega
  · subst h; have := nearAwayZ_int 0; simp only [Int.cast_zero] at this; simp [this]
  · have h' : -y < 0 := by linarith
    have h'' : ¬ y < 0 := by linarith
    simp only [nearAwayZ, h', h'', if_true, if_false, neg_neg]

/-- the reference rounding that a `decimal` rounding mode stands for -/
def specOf : Mode → Rat → Int → Rat
  | .halfUp => Spec.C16.round
  | .up => Spec.C16.roundUp
  | .down => Spec.C16.roundDown

/-- the integer rounding of a mode -/
def zOf : Mode → Rat → Int
  | .halfUp => nearAwayZ
  | .up => awayZ
  | .down => truncZ

theorem specOf_eq (m : Mode) (x : Rat) (d : Int) : specOf m x d = (zOf m (x * pow10 d) : Rat) / pow10 d := by
  cases m <;> rfl

theorem zOf_negArg (m : Mode) (y : Rat) : zOf m (-y) = -zOf m y := by
  cases m
  · exact nearAwayZ_negArg y
  · exact awayZ_negArg y
  · exact truncZ_negArg y

theorem zOf_int (m : Mode) (k : Int) : zOf m (k : Rat) = k := by
  cases m
  · exact nearAwayZ_int k
  · exact awayZ_int k
  · exact truncZ_int k

theorem specOf_negArg (m : Mode) (x : Rat) (d : Int) : specOf m (-x) d = -specOf m x d := by
  rw [specOf_eq, specOf_eq, neg_mul, zOf_negArg]; push_cast; ring

/-- on a non-negative quotient `N / p` the mode's integer rounding is `bump` -/
theorem zOf_natDiv (m : Mode) (N p : Nat) (hp : 0 < p) :
    zOf m ((N : Rat) / (p : Rat)) = ((bump m (N / p) (N % p) p : Nat) : Int) := by
  have hp' : (0 : Rat) < (p : Rat) := by exact_mod_cast hp
  have hn : ¬ ((N : Rat) / (p : Rat) < 0) := not_lt.mpr (by positivity)
  cases m
  · simp only [zOf, nearAwayZ, hn, if_false, bump]; exact floor_half_natDiv N p hp
  · simp only [zOf, awayZ, hn, if_false, bump]; exact ceil_natDiv N p hp
  · simp only [zOf, truncZ, hn, if_false, bump]; exact floor_natDiv N p hp

/-! ### values of decimals -/

theorem mag_eq (x : Dec) : x.mag = (x.coef : Rat) * pow10 x.exp := rfl

theorem mag_nonneg (x : Dec) : 0 ≤ x.mag := by
  rw [mag_eq]; exact mul_nonneg (by positivity) (le_of_lt (pow10_pos _))

theorem mag_pos_iff (x : Dec) : 0 < x.mag ↔ x.coef ≠ 0 := by
  rw [mag_eq]
  constructor
  · intro h hc; rw [hc] at h; simp at h
  · intro h
    have : (0 : Rat) < (x.coef : Rat) := by exact_mod_cast Nat.pos_of_ne_zero h
    exact mul_pos this (pow10_pos _)

theorem toRat_eq (x : Dec) : x.toRat = if x.neg then -x.mag else x.mag := rfl

theorem isNeg_iff (x : Dec) : x.isNeg = true ↔ x.toRat < 0 := by
  have hm := mag_nonneg x
  have hp := mag_pos_iff x
  unfold Dec.isNeg; rw [toRat_eq]
  cases hn : x.neg <;> simp
  · exact hm
  · constructor
    · intro h; exact hp.mpr h
    · intro h; exact hp.mp h

theorem isPos_iff (x : Dec) : x.isPos = true ↔ 0 < x.toRat := by
  have hm := mag_nonneg x
  have hp := mag_pos_iff x
  unfold Dec.isPos; rw [toRat_eq]
  cases hn : x.neg <;> simp
  · constructor
    · intro h; exact hp.mpr h
    · intro h; exact hp.mp h
  · exact hm

theorem isZero_iff (x : Dec) : x.isZero = true ↔ x.toRat = 0 := by
  have hp := mag_pos_iff x
  have hm := mag_nonneg x
  unfold Dec.isZero; rw [toRat_eq]
  by_cases hc : x.coef = 0
  · have : x.mag = 0 := by rw [mag_eq, hc]; simp
    simp [hc, this]
  · have := hp.mpr hc
    cases x.neg <;> simp [hc] <;> linarith

/-- `pow10` of a non-negative exponent is a natural power of ten -/
theorem pow10_toNat (e : Int) (h : 0 ≤ e) : pow10 e = ((10 ^ e.toNat : Nat) : Rat) := by
  obtain ⟨n, rfl⟩ := Int.eq_ofNat_of_zero_le h
  rw [pow10_natCast]; simp

/-- `pow10` of a negative exponent is the reciprocal of a natural power of ten -/
theorem pow10_negToNat (e : Int) (h : e ≤ 0) : pow10 e = 1 / ((10 ^ (-e).toNat : Nat) : Rat) := by
  obtain ⟨n, hn⟩ := Int.eq_ofNat_of_zero_le (show 0 ≤ -e by omega)
  have : e = -(n : Int) := by omega
  subst this
  rw [pow10_neg, pow10_natCast]; simp


/-! ### `Decimal.quantize` computes the reference rounding of the magnitude -/

theorem val_inj {α} {a b : α} (h : (Res.val a : Res α) = Res.val b) : a = b := by
  injection h

theorem quantize_val (prec : Nat) (mode : Mode) (x : Dec) (t : Int) (r : Dec)
    (h : quantize prec mode x t = .val r) :
    r.neg = x.neg ∧ r.exp = t ∧ r.mag = specOf mode x.mag (-t) := by
  unfold quantize at h
  have hpt : pow10 (-t) ≠ 0 := pow10_ne _
  split at h
  · rename_i hle
    dsimp only at h
    split at h
    · cases h
    · have hr := val_inj h
      subst hr
      refine ⟨rfl, rfl, ?_⟩
      rw [specOf_eq, mag_eq, mag_eq]
      have e1 : (x.coef : Rat) * pow10 x.exp * pow10 (-t)
          = (((x.coef * 10 ^ (x.exp - t).toNat : Nat) : Int) : Rat) := by
        rw [mul_assoc, ← pow10_add, show x.exp + -t = x.exp - t by ring,
          pow10_toNat (x.exp - t) (by omega)]
        push_cast; ring
      rw [e1, zOf_int, pow10_neg]
      push_cast
      field_simp
  · rename_i hlt
    dsimp only at h
    split at h
    · cases h
    · have hr := val_inj h
      subst hr
      refine ⟨rfl, rfl, ?_⟩
      rw [specOf_eq, mag_eq, mag_eq]
      have hp : 0 < 10 ^ (t - x.exp).toNat := Nat.pow_pos (by norm_num)
      have e1 : (x.coef : Rat) * pow10 x.exp * pow10 (-t)
          = (x.coef : Rat) / ((10 ^ (t - x.exp).toNat : Nat) : Rat) := by
        rw [mul_assoc, ← pow10_add, show x.exp + -t = x.exp - t by ring,
          pow10_negToNat (x.exp - t) (by omega), show -(x.exp - t) = t - x.exp by ring]
        ring
      rw [e1, zOf_natDiv _ _ _ hp, pow10_neg, Int.cast_natCast]
      field_simp


theorem quantize_toRat (prec : Nat) (mode : Mode) (x : Dec) (t : Int) (r : Dec)
    (h : quantize prec mode x t = .val r) : r.toRat = specOf mode x.toRat (-t) := by
  obtain ⟨hn, _, hm⟩ := quantize_val prec mode x t r h
  rw [toRat_eq, toRat_eq, hn, hm]
  cases x.neg
  · simp
  · simp [specOf_negArg]

/-- `quantize` yields a value or `InvalidOperation`, nothing else -/
theorem quantize_outcome (prec : Nat) (mode : Mode) (x : Dec) (t : Int) :
    (∃ r, quantize prec mode x t = .val r) ∨ quantize prec mode x t = .crash .invalidOperation := by
  unfold quantize
  split <;> dsimp only <;> split <;> simp

/-! ### digits -/

theorem numDigitsAux_le (fuel n k : Nat) (hk : 1 ≤ k) (h : n < 10 ^ k) : numDigitsAux fuel n ≤ k := by
  induction fuel generalizing n k with
  | zero => simpa [numDigitsAux] using hk
  | succ f ih =>
    unfold numDigitsAux
    split
    · exact hk
    · rename_i h10
      have hk2 : 2 ≤ k := by
        rcases Nat.lt_or_ge k 2 with hk' | hk'
        · have : k = 1 := by omega
          subst this; omega
        · exact hk'
      have : n / 10 < 10 ^ (k - 1) := by
        have e : 10 ^ k = 10 ^ (k - 1) * 10 := by
          rw [← Nat.pow_succ]; congr 1; omega
        rw [e] at h
        exact Nat.div_lt_of_lt_mul (by omega)
      have := ih (n / 10) (k - 1) (by omega) this
      omega

theorem numDigits_le (n k : Nat) (hk : 1 ≤ k) (h : n < 10 ^ k) : numDigits n ≤ k :=
  numDigitsAux_le n n k hk h

theorem bump_le (m : Mode) (q r p : Nat) : bump m q r p ≤ q + 1 := by
  cases m <;> simp only [bump] <;> (try split) <;> omega

set_option exponentiation.threshold 1024 in
/-- within the statement's domain (and far beyond it) the context precision is never exhausted -/
theorem quantize_total (mode : Mode) (x : Dec) (t : Int)
    (hc : x.coef < 10 ^ 17) (he : x.exp ≤ 400) (ht : -250 ≤ t) :
    ∃ r, quantize roundPrec mode x t = .val r := by
  unfold quantize
  split
  · rename_i hle
    dsimp only
    have : numDigits (x.coef * 10 ^ (x.exp - t).toNat) ≤ 700 := by
      apply numDigits_le _ _ (by norm_num)
      have h1 : 10 ^ (x.exp - t).toNat ≤ 10 ^ 650 := Nat.pow_le_pow_right (by norm_num) (by omega)
      calc x.coef * 10 ^ (x.exp - t).toNat < 10 ^ 17 * 10 ^ 650 :=
            Nat.mul_lt_mul_of_lt_of_le hc h1 (by positivity)
        _ ≤ 10 ^ 700 := by rw [← Nat.pow_add]; exact Nat.pow_le_pow_right (by norm_num) (by norm_num)
    simp [roundPrec, Nat.not_lt.mpr this]
  · dsimp only
    have : numDigits (bump mode (x.coef / 10 ^ (t - x.exp).toNat) (x.coef % 10 ^ (t - x.exp).toNat)
        (10 ^ (t - x.exp).toNat)) ≤ 700 := by
      apply numDigits_le _ _ (by norm_num)
      have := bump_le mode (x.coef / 10 ^ (t - x.exp).toNat) (x.coef % 10 ^ (t - x.exp).toNat)
        (10 ^ (t - x.exp).toNat)
      have h2 : x.coef / 10 ^ (t - x.exp).toNat ≤ x.coef := Nat.div_le_self _ _
      have h3 : (10:Nat) ^ 17 + 1 ≤ 10 ^ 700 := by norm_num
      omega
    simp [roundPrec, Nat.not_lt.mpr this]

/-! ### further values -/

theorem mulInt_toRat (s : Dec) (k : Int) : (mulInt s k).toRat = s.toRat * (k : Rat) := by
  unfold mulInt
  rw [toRat_eq, toRat_eq, mag_eq, mag_eq]
  dsimp only
  rcases lt_trichotomy k 0 with hk | hk | hk
  · have e : ((k.natAbs : Nat) : Rat) = -(k : Rat) := by
      have : ((k.natAbs : Nat) : Int) = -k := by omega
      have := congrArg (fun z : Int => (z : Rat)) this
      simpa using this
    have h1 : ¬ (k > 0) := by omega
    cases hs : s.neg <;> simp [hk, h1, e] <;> ring
  · subst hk; cases s.neg <;> simp
  · have e : ((k.natAbs : Nat) : Rat) = (k : Rat) := by
      have : ((k.natAbs : Nat) : Int) = k := by omega
      have := congrArg (fun z : Int => (z : Rat)) this
      simpa using this
    have h1 : ¬ (k < 0) := by omega
    cases hs : s.neg <;> simp [hk, h1, e] <;> ring

theorem pyInt_eq_truncZ (n : Num) : pyInt n = truncZ n.toRat := by
  cases n with
  | int z => simp [pyInt, Num.toRat, truncZ_int]
  | flt q => rfl

theorem pyInt_zero (n : Num) (h : n.toRat = 0) : pyInt n = 0 := by
  rw [pyInt_eq_truncZ, h]
  have := truncZ_int 0
  simpa using this

theorem truncInt_eq (x : Dec) : truncInt x = truncZ x.toRat := by
  have hm := mag_nonneg x
  have key : ((if 0 ≤ x.exp then x.coef * 10 ^ x.exp.toNat else x.coef / 10 ^ (-x.exp).toNat : Nat) : Int)
      = truncZ x.mag := by
    have hn : ¬ x.mag < 0 := not_lt.mpr hm
    simp only [truncZ, hn, if_false]
    split
    · rename_i h
      rw [mag_eq, pow10_toNat _ h]
      have : (x.coef : Rat) * ((10 ^ x.exp.toNat : Nat) : Rat)
          = (((x.coef * 10 ^ x.exp.toNat : Nat) : Int) : Rat) := by push_cast; ring
      rw [this, Rat.floor_intCast]
    · rename_i h
      have hp : 0 < 10 ^ (-x.exp).toNat := Nat.pow_pos (by norm_num)
      rw [mag_eq, pow10_negToNat _ (by omega), mul_one_div, floor_natDiv _ _ hp]
  unfold truncInt
  rw [toRat_eq]
  dsimp only
  cases x.neg
  · simpa using key
  · simp only [if_true, truncZ_negArg]; rw [← key]


/-- quantizing a rounded value again (any mode) changes nothing -/
theorem quantize_idem (prec : Nat) (mode mode' : Mode) (x : Dec) (t : Int) (r : Dec)
    (h : quantize prec mode x t = .val r) : quantize prec mode' r t = .val r := by
  have hd : r.exp = t ∧ ¬ (numDigits r.coef > prec) := by
    unfold quantize at h
    split at h <;> dsimp only at h <;> split at h <;> try (cases h; done)
    all_goals (rename_i hnd; have hr := val_inj h; subst hr; exact ⟨rfl, hnd⟩)
  obtain ⟨he, hnd⟩ := hd
  unfold quantize
  have hle : t ≤ r.exp := by omega
  have h0 : (r.exp - t).toNat = 0 := by omega
  simp only [hle, if_true, h0, Nat.pow_zero, Nat.mul_one, hnd, if_false]
  cases r; simp at he ⊢; exact he.symm

/-- quantizing to an exponent not above the decimal's own only pads zeros -/
theorem quantize_pad (prec : Nat) (mode : Mode) (x : Dec) (t : Int) (r : Dec) (hle : t ≤ x.exp)
    (h : quantize prec mode x t = .val r) : r.toRat = x.toRat := by
  unfold quantize at h
  simp only [hle, if_true] at h
  split at h
  · cases h
  · have hr := val_inj h; subst hr
    rw [toRat_eq, toRat_eq, mag_eq, mag_eq]
    dsimp only
    have : ((x.coef * 10 ^ (x.exp - t).toNat : Nat) : Rat) * pow10 t = (x.coef : Rat) * pow10 x.exp := by
      have e : x.exp = (x.exp - t) + t := by ring
      conv_rhs => rw [e, pow10_add, pow10_toNat (x.exp - t) (by omega)]
      push_cast; ring
    rw [this]

theorem trailingZeros_of_mod (fuel m : Nat) (h : m % 10 ≠ 0) : trailingZeros fuel m = 0 := by
  cases fuel with
  | zero => rfl
  | succ f =>
    unfold trailingZeros
    have : ¬ (m != 0 && m % 10 == 0) = true := by simp [h]
    simp [this]

/-- for every decimal that `decimal.Decimal(str(float))` can produce (an integer written with a
    non-negative exponent, a coefficient without trailing zeros, or one digit after the point)
    the quantisation exponent of CEILING is not above the significance's own exponent -/
theorem quantExp_le (s : Dec) (h : 0 ≤ s.exp ∨ s.coef % 10 ≠ 0 ∨ s.exp = -1) : quantExp s ≤ s.exp := by
  unfold quantExp
  split
  · omega
  · rename_i hneg
    dsimp only
    have hn : 1 ≤ (-s.exp).toNat := by omega
    obtain ⟨n, hn'⟩ : ∃ n, (-s.exp).toNat = n + 1 := ⟨(-s.exp).toNat - 1, by omega⟩
    rw [hn']
    have hp : 10 ^ (n + 1) = 10 * 10 ^ n := by rw [Nat.pow_succ]; ring
    have hp0 : 0 < 10 ^ n := Nat.pow_pos (by norm_num)
    generalize hP : 10 ^ n = P at hp hp0
    rw [hp]
    have hmod : s.coef % (10 * P) % 10 = s.coef % 10 := Nat.mod_mul_right_mod _ _ _
    have hlt : s.coef % (10 * P) < 10 * P := Nat.mod_lt _ (by omega)
    by_cases hc : s.coef % 10 = 0
    · -- an integer-valued decimal with one digit after the point, or no constraint needed
      rcases h with h | h | h
      · omega
      · exact absurd hc h
      · have hn0 : n = 0 := by omega
        subst hn0
        have hP1 : P = 1 := by simpa using hP.symm
        subst hP1
        have hr : s.coef % (10 * 1) = 0 := by omega
        simp [hr]; omega
    · have hr10 : s.coef % (10 * P) % 10 ≠ 0 := by omega
      have hr0 : s.coef % (10 * P) ≠ 0 := by intro h0; rw [h0] at hr10; simp at hr10
      by_cases hsn : s.neg
      · have hm : (10 * P - s.coef % (10 * P)) % 10 ≠ 0 := by omega
        have hm0 : (10 * P - s.coef % (10 * P)) ≠ 0 := by omega
        simp [hsn, hr0, hm0, trailingZeros_of_mod _ _ hm]
      · simp [hsn, hr0, trailingZeros_of_mod _ _ hr10]

theorem quantExp_ge (s : Dec) : -1 ≤ quantExp s ∨ s.exp ≤ quantExp s := by
  unfold quantExp
  split
  · left; omega
  · dsimp only
    generalize (if (s.neg && s.coef % 10 ^ (-s.exp).toNat != 0) = true
      then 10 ^ (-s.exp).toNat - s.coef % 10 ^ (-s.exp).toNat else s.coef % 10 ^ (-s.exp).toNat) = m
    split
    · left; omega
    · right; omega

set_option exponentiation.threshold 2048 in
theorem ceil_natAbs_bound (x s : Rat) (h : quotientOverflows x s = false) :
    (x / s).ceil.natAbs < 10 ^ 309 := by
  unfold quotientOverflows at h
  simp only [decide_eq_false_iff_not, ge_iff_le, not_le] at h
  have hB : ((2 ^ 1024 - 2 ^ 970 : Nat) : Rat) + 1 ≤ ((10 ^ 309 : Nat) : Rat) := by
    have : (2 ^ 1024 - 2 ^ 970 : Nat) + 1 ≤ 10 ^ 309 := by norm_num
    exact_mod_cast this
  have h1 := le_ceil' (x / s)
  have h2 := ceil_lt_add_one' (x / s)
  have hk : -((10 ^ 309 : Nat) : Rat) < ((x / s).ceil : Rat) ∧ ((x / s).ceil : Rat) < ((10 ^ 309 : Nat) : Rat) := by
    split at h <;> constructor <;> linarith
  have hk' : -((10 ^ 309 : Nat) : Int) < (x / s).ceil ∧ (x / s).ceil < ((10 ^ 309 : Nat) : Int) := by
    constructor
    · have := hk.1; exact_mod_cast this
    · have := hk.2; exact_mod_cast this
  omega


/-! ### definitions used by the statements of Props.C16 -/

/-- primitives that return `0` everywhere except a projecting `atan2` -/
def probePrims : Prims :=
  { sin := fun _ => .val 0, cos := fun _ => .val 0, tan := fun _ => .val 0, asin := fun _ => .val 0,
    acos := fun _ => .val 0, atan := fun _ => .val 0, cosh := fun _ => .val 0,
    asinh := fun _ => .val 0, acosh := fun _ => .val 0, exp := fun _ => .val 0,
    ln := fun _ => .val 0, log10 := fun _ => .val 0, sqrt := fun _ => .val 0,
    degrees := fun _ => .val 0, radians := fun _ => .val 0, atan2 := fun y _ => .val y,
    pow := fun _ _ => .val 0, logb := fun _ _ => .val 0, pi := 3 }

/-- the result is a finite value or an Excel error value -/
def Fine {α} (r : Res α) : Prop := (∃ a, r = .val a) ∨ (∃ c, r = .xlerr c)

/-- What the primitives (numpy / libm) are assumed to do: they return a finite value on their
    mathematical domain; `exp`, `cosh` and the degree conversion may overflow to an infinity, a float
    power may raise `OverflowError`; nothing else.  Hypotheses of `domain_total`, not axioms. -/
structure Contracts (P : Prims) : Prop where
  sin : ∀ x, ∃ r, P.sin x = .val r
  cos : ∀ x, ∃ r, P.cos x = .val r
  tan : ∀ x, ∃ r, P.tan x = .val r
  atan : ∀ x, ∃ r, P.atan x = .val r
  asinh : ∀ x, ∃ r, P.asinh x = .val r
  radians : ∀ x, ∃ r, P.radians x = .val r
  atan2 : ∀ y x, ∃ r, P.atan2 y x = .val r
  asin : ∀ x, -1 ≤ x → x ≤ 1 → ∃ r, P.asin x = .val r
  acos : ∀ x, -1 ≤ x → x ≤ 1 → ∃ r, P.acos x = .val r
  acosh : ∀ x, 1 ≤ x → ∃ r, P.acosh x = .val r
  ln : ∀ x, 0 < x → ∃ r, P.ln x = .val r
  log10 : ∀ x, 0 < x → ∃ r, P.log10 x = .val r
  sqrt : ∀ x, 0 ≤ x → ∃ r, P.sqrt x = .val r
  logb : ∀ x b, 0 < x → 0 < b → b ≠ 1 → ∃ r, P.logb x b = .val r
  exp : ∀ x, (∃ r, P.exp x = .val r) ∨ P.exp x = .posInf
  cosh : ∀ x, (∃ r, P.cosh x = .val r) ∨ P.cosh x = .posInf
  degrees : ∀ x, (∃ r, P.degrees x = .val r) ∨ P.degrees x = .posInf ∨ P.degrees x = .negInf
  pow : ∀ x y, (x ≠ 0 ∨ 0 ≤ y) → (0 ≤ x ∨ ((truncZ y : Int) : Rat) = y) →
    (∃ r, P.pow x y = .val r) ∨ P.pow x y = .crash .overflow

/-- a call of one of the modelled functions -/
inductive Call
  | ABS (n : Num) | SIGN (n : Num) | SQRT (n : Num) | POWER (n p : Num) | EXP (n : Num) | LN (n : Num)
  | LOG (n b : Num) | LOG10 (n : Num) | MOD (n d : Num) | FACT (n : Num) | FACTDOUBLE (n : Num)
  | SIN (n : Num) | COS (n : Num) | TAN (n : Num) | ASIN (n : Num) | ACOS (n : Num) | ATAN (n : Num)
  | ATAN2 (x y : Num) | COSH (n : Num) | ASINH (n : Num) | ACOSH (n : Num) | DEGREES (n : Num)
  | RADIANS (n : Num) | PI

/-- run a call on the model -/
def run (P : Prims) : Call → Res Num
  | .ABS n => ABS n | .SIGN n => SIGN n | .SQRT n => SQRT P n | .POWER n p => POWER P n p
  | .EXP n => EXP P n | .LN n => LN P n | .LOG n b => LOG P n b | .LOG10 n => LOG10 P n
  | .MOD n d => MOD n d | .FACT n => FACT n | .FACTDOUBLE n => FACTDOUBLE n
  | .SIN n => SIN P n | .COS n => COS P n | .TAN n => TAN P n | .ASIN n => ASIN P n
  | .ACOS n => ACOS P n | .ATAN n => ATAN P n | .ATAN2 x y => ATAN2 P x y | .COSH n => COSH P n
  | .ASINH n => ASINH P n | .ACOSH n => ACOSH P n | .DEGREES n => DEGREES P n
  | .RADIANS n => RADIANS P n | .PI => PI P

/-- the function and the rational arguments of a call, as the domain table reads them -/
def Call.sig : Call → Fn × List Rat
  | .ABS n => (.ABS, [n.toRat]) | .SIGN n => (.SIGN, [n.toRat]) | .SQRT n => (.SQRT, [n.toRat])
  | .POWER n p => (.POWER, [n.toRat, p.toRat]) | .EXP n => (.EXP, [n.toRat]) | .LN n => (.LN, [n.toRat])
  | .LOG n b => (.LOG, [n.toRat, b.toRat]) | .LOG10 n => (.LOG10, [n.toRat])
  | .MOD n d => (.MOD, [n.toRat, d.toRat]) | .FACT n => (.FACT, [n.toRat])
  | .FACTDOUBLE n => (.FACTDOUBLE, [n.toRat]) | .SIN n => (.SIN, [n.toRat]) | .COS n => (.COS, [n.toRat])
  | .TAN n => (.TAN, [n.toRat]) | .ASIN n => (.ASIN, [n.toRat]) | .ACOS n => (.ACOS, [n.toRat])
  | .ATAN n => (.ATAN, [n.toRat]) | .ATAN2 x y => (.ATAN2, [x.toRat, y.toRat]) | .COSH n => (.COSH, [n.toRat])
  | .ASINH n => (.ASINH, [n.toRat]) | .ACOSH n => (.ACOSH, [n.toRat]) | .DEGREES n => (.DEGREES, [n.toRat])
  | .RADIANS n => (.RADIANS, [n.toRat]) | .PI => (.PI, [])


end XlVerif.Lemmas.C16
