/-
  C18 — the civil calendar of the model: days-from-civil and civil-from-days are inverse on all of ℤ.

  Arithmetic proof.  Within one 400-year era the year-of-era formula
  `g doe = (doe - doe/1460 + doe/36524 - doe/146096) / 365` is monotone below the last day of the era,
  and it is pinned at both ends of each of the 400 years (a `decide` over 400 rows, `yearTable`); so it
  inverts the day count `Y k = 365k + k/4 - k/100` of the years before year `k`.  Everything else is
  linear arithmetic with division by literals (`omega`).
-/
import XlVerif.Model.C18
namespace XlVerif.Lemmas.C18Cal
open XlVerif XlVerif.Model.C18

/-- days of the era before (March-based) year `k` -/
def Y (k : Int) : Int := 365 * k + k / 4 - k / 100
/-- same, with the era's length at `k = 400` -/
def Y' (k : Int) : Int := if k = 400 then 146097 else Y k
/-- the year-of-era formula of civil-from-days -/
def g (doe : Int) : Int := (doe - doe / 1460 + doe / 36524 - doe / 146096) / 365

/-- the formula is right at the first and at the last day of each year of the era -/
theorem yearTable : ∀ k : Nat, k < 400 → g (Y k) = k ∧ g (Y' (k + 1) - 1) = k := by
  decide +kernel

theorem g_mono (a b : Int) (h0 : 0 ≤ a) (h : a ≤ b) (hb : b < 146096) : g a ≤ g b := by
  unfold g
  have h1 : a / 146096 = 0 := by omega
  have h2 : b / 146096 = 0 := by omega
  have : a - a / 1460 + a / 36524 ≤ b - b / 1460 + b / 36524 := by omega
  omega

theorem g_range (a : Int) (h0 : 0 ≤ a) (h1 : a < 146097) : 0 ≤ g a ∧ g a ≤ 399 := by
  unfold g; omega

theorem Y_step (k : Int) (_h0 : 0 ≤ k) (_h1 : k < 400) :
    Y' (k + 1) - Y k = 365 + (if (k + 1) % 4 = 0 ∧ ((k + 1) % 100 ≠ 0 ∨ k + 1 = 400) then 1 else 0) := by
  unfold Y' Y; split <;> split <;> omega

theorem Y_mono (j k : Int) (h0 : 0 ≤ j) (h : j < k) (hk : k ≤ 400) : Y' (j + 1) ≤ Y' k := by
  unfold Y' Y; split <;> split <;> omega

/-- the year-of-era formula inverts `Y` on the whole era -/
theorem g_spec (a : Int) (h0 : 0 ≤ a) (h1 : a < 146097) : Y (g a) ≤ a ∧ a < Y' (g a + 1) := by
  have hr := g_range a h0 h1
  by_cases hlast : a = 146096
  · subst hlast; decide
  have ha : a < 146096 := by omega
  constructor
  · -- otherwise `a` lies before year `g a`, i.e. at most at the last day of year `g a - 1`
    apply Classical.byContradiction; intro hlt
    have hk1 : 1 ≤ g a := by
      apply Classical.byContradiction; intro hk
      have : g a = 0 := by omega
      rw [this] at hlt; unfold Y at hlt; omega
    have ht := (yearTable (g a - 1).toNat (by omega)).2
    have e : (((g a - 1).toNat : Nat) : Int) = g a - 1 := by omega
    rw [e] at ht
    have e2 : g a - 1 + 1 = g a := by omega
    rw [e2] at ht
    have hY : Y' (g a) = Y (g a) := by unfold Y'; split <;> omega
    rw [hY] at ht
    have hb : Y (g a) - 1 < 146096 := by unfold Y; omega
    have := g_mono a (Y (g a) - 1) h0 (by omega) hb
    omega
  · apply Classical.byContradiction; intro hge
    have hk : g a + 1 ≤ 399 := by
      apply Classical.byContradiction; intro hk
      have : g a = 399 := by omega
      rw [this] at hge; unfold Y' at hge; simp at hge; omega
    have ht := (yearTable (g a + 1).toNat (by omega)).1
    have e : (((g a + 1).toNat : Nat) : Int) = g a + 1 := by omega
    rw [e] at ht
    have hY : Y' (g a + 1) = Y (g a + 1) := by unfold Y'; split <;> omega
    rw [hY] at hge
    have := g_mono (Y (g a + 1)) a (by unfold Y; omega) (by omega) ha
    omega


/-- March-based leap flag of year-of-era `k`: the year that *ends* with the leap day -/
def L (k : Int) : Int := if (k + 1) % 4 = 0 ∧ ((k + 1) % 100 ≠ 0 ∨ k + 1 = 400) then 1 else 0

/-- everything civil-from-days computes inside one era, in terms of `doe` alone -/
theorem era_fields (doe : Int) (h0 : 0 ≤ doe) (h1 : doe < 146097) :
    0 ≤ g doe ∧ g doe ≤ 399 ∧ 0 ≤ doe - Y (g doe) ∧ doe - Y (g doe) ≤ 364 + L (g doe) := by
  have hr := g_range doe h0 h1
  have hs := g_spec doe h0 h1
  have hst := Y_step (g doe) hr.1 (by omega)
  unfold L
  refine ⟨hr.1, hr.2, by omega, ?_⟩
  split at hst <;> simp_all <;> omega

/-- month and day from the March-based day of year -/
theorem month_fields (doy l : Int) (h0 : 0 ≤ doy) (hl : l = 0 ∨ l = 1) (h1 : doy ≤ 364 + l) :
    0 ≤ (5 * doy + 2) / 153 ∧ (5 * doy + 2) / 153 ≤ 11 ∧
    1 ≤ doy - (153 * ((5 * doy + 2) / 153) + 2) / 5 + 1 ∧
    (((5 * doy + 2) / 153 = 11) → doy - (153 * ((5 * doy + 2) / 153) + 2) / 5 + 1 ≤ 28 + l) ∧
    (((5 * doy + 2) / 153 = 1 ∨ (5 * doy + 2) / 153 = 3 ∨ (5 * doy + 2) / 153 = 6 ∨ (5 * doy + 2) / 153 = 8) →
        doy - (153 * ((5 * doy + 2) / 153) + 2) / 5 + 1 ≤ 30) ∧
    doy - (153 * ((5 * doy + 2) / 153) + 2) / 5 + 1 ≤ 31 := by
  omega


/-- a date of the calendar -/
abbrev Valid (c : YMD) : Prop := 1 ≤ c.m ∧ c.m ≤ 12 ∧ 1 ≤ c.d ∧ c.d ≤ daysInMonth c.y c.m

/-- the date assembled from era, year of era and March-based day of year -/
def civOf (era k doy : Int) : YMD :=
  let mp := (5 * doy + 2) / 153
  let d := doy - (153 * mp + 2) / 5 + 1
  let m := if mp < 10 then mp + 3 else mp - 9
  ⟨if m ≤ 2 then k + era * 400 + 1 else k + era * 400, m, d⟩

theorem civil_eq (z : Int) :
    civilFromDays z = civOf (z / 146097) (g (z - z / 146097 * 146097))
      (z - z / 146097 * 146097 - Y (g (z - z / 146097 * 146097))) := rfl

theorem civOf_valid (era k doy : Int) (_hk0 : 0 ≤ k) (_hk1 : k ≤ 399) (h0 : 0 ≤ doy)
    (h1 : doy ≤ 364 + L k) : Valid (civOf era k doy) := by
  have hl : L k = 0 ∨ L k = 1 := by unfold L; split <;> simp
  have hm := month_fields doy (L k) h0 hl h1
  unfold Valid civOf daysInMonth Leap
  simp only []
  generalize hmp : (5 * doy + 2) / 153 = mp at *
  have hcases : mp = 0 ∨ mp = 1 ∨ mp = 2 ∨ mp = 3 ∨ mp = 4 ∨ mp = 5 ∨ mp = 6 ∨ mp = 7 ∨ mp = 8
      ∨ mp = 9 ∨ mp = 10 ∨ mp = 11 := by omega
  unfold L at hm
  rcases hcases with h | h | h | h | h | h | h | h | h | h | h | h <;> subst h <;> simp at hm ⊢ <;>
    (try omega)

theorem days_civOf (era k doy : Int) (hk0 : 0 ≤ k) (hk1 : k ≤ 399) (h0 : 0 ≤ doy)
    (h1 : doy ≤ 364 + L k) : daysFromCivil (civOf era k doy) = era * 146097 + Y k + doy := by
  have hl : L k = 0 ∨ L k = 1 := by unfold L; split <;> simp
  have hm := month_fields doy (L k) h0 hl h1
  unfold daysFromCivil civOf Y
  simp only []
  generalize hmp : (5 * doy + 2) / 153 = mp at *
  have hcases : mp = 0 ∨ mp = 1 ∨ mp = 2 ∨ mp = 3 ∨ mp = 4 ∨ mp = 5 ∨ mp = 6 ∨ mp = 7 ∨ mp = 8
      ∨ mp = 9 ∨ mp = 10 ∨ mp = 11 := by omega
  rcases hcases with h | h | h | h | h | h | h | h | h | h | h | h <;> subst h <;> simp <;> omega

/-- … and days-from-civil maps it back: civil-from-days is injective, days-from-civil surjective -/
theorem days_civil (z : Int) : daysFromCivil (civilFromDays z) = z := by
  have hd0 : 0 ≤ z - z / 146097 * 146097 := by omega
  have hd1 : z - z / 146097 * 146097 < 146097 := by omega
  have he := era_fields _ hd0 hd1
  rw [civil_eq, days_civOf _ _ _ he.1 he.2.1 he.2.2.1 he.2.2.2]
  omega

theorem civil_valid (z : Int) : Valid (civilFromDays z) := by
  have hd0 : 0 ≤ z - z / 146097 * 146097 := by omega
  have hd1 : z - z / 146097 * 146097 < 146097 := by omega
  have he := era_fields _ hd0 hd1
  rw [civil_eq]
  exact civOf_valid _ _ _ he.1 he.2.1 he.2.2.1 he.2.2.2

theorem Y'_le (k : Int) (hk0 : 0 ≤ k) (hk1 : k ≤ 399) : Y' (k + 1) ≤ 146097 := by
  by_cases h : k + 1 = 400
  · rw [h]; unfold Y'; simp
  · have := Y_mono k 400 hk0 (by omega) (by omega); unfold Y' at this ⊢; simp at this; split <;> omega

theorem g_unique (doe k : Int) (hk0 : 0 ≤ k) (hk1 : k ≤ 399) (h0 : Y k ≤ doe) (h1 : doe < Y' (k + 1)) :
    g doe = k := by
  have hY0 : 0 ≤ Y k := by unfold Y; omega
  have hY1 : Y' (k + 1) ≤ 146097 := Y'_le k hk0 hk1
  have hs := g_spec doe (by omega) (by omega)
  have hr := g_range doe (by omega) (by omega)
  apply Classical.byContradiction; intro hne
  by_cases hlt : g doe < k
  · have := Y_mono (g doe) k hr.1 hlt (by omega)
    have e : Y' k = Y k := by unfold Y'; split <;> omega
    omega
  · have hgt : k < g doe := by omega
    have := Y_mono k (g doe) hk0 hgt (by omega)
    have e : Y' (g doe) = Y (g doe) := by unfold Y'; split <;> omega
    omega

/-- civil-from-days inverts days-from-civil on the dates of the calendar -/
theorem civil_days (c : YMD) (hv : Valid c) : civilFromDays (daysFromCivil c) = c := by
  obtain ⟨y, m, d⟩ := c
  unfold Valid daysInMonth Leap at hv
  simp only [] at hv
  -- the components days-from-civil computes
  generalize hy' : (if m ≤ 2 then y - 1 else y) = y'
  generalize hera : y' / 400 = era
  generalize hk : y' - era * 400 = k
  generalize hmp : (if m > 2 then m - 3 else m + 9) = mp
  generalize hdoy : (153 * mp + 2) / 5 + d - 1 = doy
  have hk0 : 0 ≤ k := by omega
  have hk1 : k ≤ 399 := by omega
  have hmp0 : 0 ≤ mp ∧ mp ≤ 11 := by split at hmp <;> omega
  have hL : L k = 1 ↔ (y' + 1) % 4 = 0 ∧ ((y' + 1) % 100 ≠ 0 ∨ (y' + 1) % 400 = 0) := by
    unfold L; split <;> omega
  have hl : L k = 0 ∨ L k = 1 := by unfold L; split <;> simp
  have hd0 : 0 ≤ doy := by omega
  have hd1 : doy ≤ 364 + L k := by
    obtain ⟨hm1, hm12, hd1, hdm⟩ := hv
    have hcases : m = 1 ∨ m = 2 ∨ m = 3 ∨ m = 4 ∨ m = 5 ∨ m = 6 ∨ m = 7 ∨ m = 8 ∨ m = 9
        ∨ m = 10 ∨ m = 11 ∨ m = 12 := by omega
    rcases hcases with h | h | h | h | h | h | h | h | h | h | h | h <;> subst h <;>
      simp at hdm hmp hy' <;> (try omega)
  have hz : daysFromCivil ⟨y, m, d⟩ = era * 146097 + (Y k + doy) := by
    unfold daysFromCivil Y
    simp only []
    rw [hy', hera, hk, hmp, hdoy]
    omega
  have hst := Y_step k hk0 (by omega)
  have hle := Y'_le k hk0 hk1
  have hYk : 0 ≤ Y k := by unfold Y; omega
  have hLk : L k = if (k + 1) % 4 = 0 ∧ ((k + 1) % 100 ≠ 0 ∨ k + 1 = 400) then 1 else 0 := rfl
  rw [← hLk] at hst
  have hera' : (era * 146097 + (Y k + doy)) / 146097 = era := by omega
  have hg : g (Y k + doy) = k := g_unique _ _ hk0 hk1 (by omega) (by omega)
  rw [hz, civil_eq, hera']
  have e1 : era * 146097 + (Y k + doy) - era * 146097 = Y k + doy := by omega
  rw [e1, hg]
  have e2 : Y k + doy - Y k = doy := by omega
  rw [e2]
  -- the month and the day come back
  have hX : (5 * doy + 2) / 153 = mp := by
    obtain ⟨hm1, hm12, hdd1, hdm⟩ := hv
    have hcases : mp = 0 ∨ mp = 1 ∨ mp = 2 ∨ mp = 3 ∨ mp = 4 ∨ mp = 5 ∨ mp = 6 ∨ mp = 7 ∨ mp = 8
        ∨ mp = 9 ∨ mp = 10 ∨ mp = 11 := by omega
    rcases hcases with h | h | h | h | h | h | h | h | h | h | h | h <;> subst h <;>
      split at hmp <;> split at hdm <;> (try split at hdm) <;> (try split at hdm) <;> omega
  unfold civOf
  simp only []
  rw [hX]
  split at hmp <;> split at hy' <;> simp <;> (try omega)

end XlVerif.Lemmas.C18Cal
