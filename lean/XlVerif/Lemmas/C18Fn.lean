/-
  C18 — the model's functions on whole serials: closed forms, helper lemmas and the proofs of the
  property theorems that `Props/C18.lean` states.  (`Props/C18.lean` holds only the statements of the
  property theorems, the table obligation and the examples.)
-/
import XlVerif.Lemmas.C18Spec
import XlVerif.Lemmas.C18Iso
import Mathlib.Tactic.Linarith
import Mathlib.Tactic.NormNum
import Mathlib.Tactic.Ring
import Mathlib.Algebra.Order.Field.Rat
namespace XlVerif.Lemmas.C18Fn
open XlVerif XlVerif.Model.C18 XlVerif.Lemmas.C18Cal XlVerif.Lemmas.C18Spec XlVerif.Lemmas.C18SpecCal
open XlVerif.Spec.C18 (Date ordinal daysBeforeYear serialOf serialOfOrdinal nextDay IsDateOf)

/-! ### The serial ↔ date conversion on whole days -/

/-- the whole serials that denote a day: 1 … 2958465 without Excel's fictitious 29 February 1900 -/
abbrev IsSerial (n : Int) : Prop := 1 ≤ n ∧ n ≤ 2958465 ∧ n ≠ 60

/-- days from 1900-01-01 to the day of serial `n` -/
def dayOf (n : Int) : Int := n - (if n ≥ 60 then 2 else 1)

/-- the calendar date the model assigns to serial `n` -/
def dateOf (n : Int) : Date := toSpec (DT.ymd ⟨dayOf n, 0⟩)

theorem minDay_eq : minDay = -693595 := rfl
theorem maxDay_eq : maxDay = 2958463 := rfl

theorem mkDT_ok (d : Int) (s : Rat) (h0 : -693595 ≤ d) (h1 : d ≤ 2958463) : mkDT d s = .ok ⟨d, s⟩ := by
  unfold mkDT; rw [if_neg (by rw [minDay_eq, maxDay_eq]; omega)]

theorem number_to_datetime_whole (n : Int) (h : IsSerial n) :
    numberToDatetime (.int n) = .ok ⟨dayOf n, 0⟩ := by
  rw [numberToDatetime_int]; unfold dayOf
  apply mkDT_ok <;> split <;> omega

/-- serial → date → serial is the identity on every whole serial -/
theorem serial_roundtrip (n : Int) (h : IsSerial n) :
    (numberToDatetime (.int n)).map datetimeToNumber = .ok (n : Rat) := by
  rw [number_to_datetime_whole n h]
  unfold Res.map dayOf
  simp only []
  rw [datetimeToNumber_whole]
  congr 2
  split <;> split <;> omega

/-- date → serial → date is the identity on every day 1900-01-01 … 9999-12-31 -/
theorem datetime_roundtrip (d : Int) (h0 : 0 ≤ d) (h1 : d ≤ maxDay) :
    numberToDatetime (.flt (datetimeToNumber ⟨d, 0⟩)) = .ok ⟨d, 0⟩ := by
  rw [datetimeToNumber_whole, numberToDatetime_flt_int, numberToDatetime_int]
  rw [maxDay_eq] at h1
  have e : (d + (if d > 58 then 2 else 1) - if d + (if d > 58 then 2 else 1) ≥ 60 then 2 else 1) = d := by
    split <;> split <;> omega
  rw [e]
  apply mkDT_ok <;> omega

/-- every day of the date system is the day of exactly one serial -/
theorem serial_onto (d : Int) (h0 : 0 ≤ d) (h1 : d ≤ maxDay) :
    IsSerial (d + (if d > 58 then 2 else 1)) ∧ dayOf (d + (if d > 58 then 2 else 1)) = d := by
  rw [maxDay_eq] at h1; unfold dayOf IsSerial
  split <;> (try split) <;> omega

/-- the conversion is strictly monotone in both directions -/
theorem serial_monotone (n n' : Int) (h : IsSerial n) (h' : IsSerial n') (hlt : n < n') :
    dayOf n < dayOf n' := by
  unfold dayOf; split <;> split <;> omega

theorem datetime_monotone (d d' : Int) (hlt : d < d') :
    datetimeToNumber ⟨d, 0⟩ < datetimeToNumber ⟨d', 0⟩ := by
  rw [datetimeToNumber_whole, datetimeToNumber_whole, Rat.intCast_lt_intCast]
  split <;> split <;> omega

/-- the date of a serial is a date of the Gregorian calendar whose 1900-system serial is `n`:
    together with `serialOf_injective` this determines it -/
theorem serial_date_spec (n : Int) (h : IsSerial n) : IsDateOf n (dateOf n) := by
  have hs := spec_of_civil (dayOf n + epochCivil)
  unfold dateOf DT.ymd
  simp only []
  refine ⟨hs.1, ?_⟩
  unfold serialOf
  rw [hs.2]
  unfold serialOfOrdinal dayOf epochCivil
  simp only []
  split <;> split <;> omega

/-- consecutive serials are consecutive calendar days (61 follows 59: serial 60 is no day) -/
theorem serial_succ (n : Int) (h : IsSerial n) (h' : IsSerial (n + 1)) :
    dateOf (n + 1) = nextDay (dateOf n) := by
  have h1 := serial_date_spec n h
  have h2 := serial_date_spec (n + 1) h'
  have hn := nextDay_spec (dateOf n) h1.1
  apply serialOf_injective _ _ h2.1 hn.1
  rw [h2.2]
  have := h1.2
  unfold serialOf at this ⊢
  rw [hn.2]
  unfold serialOfOrdinal at this ⊢
  simp only [] at this ⊢
  split at this <;> split <;> omega

theorem serial_succ_leap_gap : dateOf 61 = nextDay (dateOf 59) := by decide

/-- the reference serial is strictly increasing along the calendar and hits every whole serial but 60 -/
theorem serialOf_bijection :
    (∀ a b : Date, a.Valid → b.Valid → a.lt b → serialOf a < serialOf b) ∧
    (∀ n : Int, IsSerial n → ∃ c : Date, c.Valid ∧ serialOf c = n) :=
  ⟨serialOf_lt, fun n h => ⟨dateOf n, serial_date_spec n h⟩⟩

/-! ### YEAR, MONTH, DAY of every serial are the Gregorian fields -/

theorem serialDate_whole (n : Int) (h : IsSerial n) : serialDate (.int n) = .ok ⟨dayOf n, 0⟩ := by
  unfold serialDate pyInt; exact number_to_datetime_whole n h

/-- the year of a serial of the date system lies in 1900 … 9999 -/
theorem year_range (n : Int) (h : IsSerial n) : 1900 ≤ (dateOf n).y ∧ (dateOf n).y ≤ 9999 := by
  have hs := serial_date_spec n h
  have hb := ordinal_bounds (dateOf n) hs.1
  have hser := hs.2
  unfold serialOf serialOfOrdinal at hser
  simp only [] at hser
  have e1 : daysBeforeYear 1900 = 693595 := by decide
  have e2 : daysBeforeYear 10000 = 3652059 := by decide
  constructor
  · apply Classical.byContradiction; intro hc
    have := dby_mono ((dateOf n).y + 1) 1900 (by omega)
    split at hser <;> omega
  · apply Classical.byContradiction; intro hc
    have := dby_mono 10000 (dateOf n).y (by omega)
    split at hser <;> omega

theorem year_spec (n : Int) (h : IsSerial n) : YEAR (.int n) = .ok (dateOf n).y := by
  have hr := year_range n h
  unfold YEAR
  rw [serialDate_whole n h]
  unfold Res.bind
  simp only []
  have e : (DT.ymd ⟨dayOf n, 0⟩).y = (dateOf n).y := rfl
  rw [e, if_neg (by omega)]

theorem month_spec (n : Int) (h : IsSerial n) : MONTH (.int n) = .ok (dateOf n).m := by
  unfold MONTH; rw [serialDate_whole n h]; rfl

theorem day_spec (n : Int) (h : IsSerial n) : DAY (.int n) = .ok (dateOf n).d := by
  unfold DAY; rw [serialDate_whole n h]; rfl

/-- `fields_spec`: for every serial 61 … 2958465 (and 1 … 59) YEAR, MONTH and DAY return the fields of
    the one Gregorian date whose 1900-system serial is `n` -/
theorem fields_spec (n : Int) (h : IsSerial n) :
    ∃ c : Date, IsDateOf n c ∧ (∀ c' : Date, IsDateOf n c' → c' = c) ∧
      YEAR (.int n) = .ok c.y ∧ MONTH (.int n) = .ok c.m ∧ DAY (.int n) = .ok c.d := by
  refine ⟨dateOf n, serial_date_spec n h, ?_, year_spec n h, month_spec n h, day_spec n h⟩
  intro c' hc'
  have hs := serial_date_spec n h
  exact serialOf_injective c' (dateOf n) hc'.1 hs.1 (by rw [hc'.2, hs.2])

/-! ### WEEKDAY: every return type is the documented rotation of the ISO weekday -/

/-- a tuple of `WEEKDAY` lists, for Monday … Sunday, the numbers of return type `rt`
    (in particular `rt` is a documented return type and the tuple has seven entries) -/
def rowOK (rt : Int) (tup : List Int) : Bool :=
  (List.range 7).all fun w =>
    (tup[w]?).isSome && tup[w]? == Spec.C18.weekdayNum rt ((w : Int) + 1)

/-- table obligation on the tables observed by probing the running WEEKDAY: the default is return type 1, every row is
    the rotation its key stands for (so a key outside 1, 2, 3, 11 … 17 cannot occur), and every
    documented return type has a row -/
def tableOK : Bool :=
  rowOK 1 Gen.weekdayDefault &&
  (Gen.weekdayTables.all fun p => rowOK p.1 p.2) &&
  ([1, 2, 3, 11, 12, 13, 14, 15, 16, 17].all fun k => (Gen.weekdayTables.lookup k).isSome)

theorem weekday_tables : tableOK = true := by decide

theorem lookup_mem {l : List (Int × List Int)} {k : Int} {v : List Int} (h : l.lookup k = some v) :
    (k, v) ∈ l := by
  induction l with
  | nil => simp [List.lookup] at h
  | cons p t ih =>
    obtain ⟨a, b⟩ := p
    by_cases hk : k = a
    · subst hk
      simp [List.lookup] at h
      subst h; simp
    · have : (k == a) = false := by simp [hk]
      simp [List.lookup, this] at h
      exact List.mem_cons_of_mem _ (ih h)

theorem rowOK_get {rt : Int} {tup : List Int} (h : rowOK rt tup = true) (w : Int) (h0 : 0 ≤ w) (h6 : w ≤ 6) :
    ∃ v, Spec.C18.weekdayNum rt (w + 1) = some v ∧ pick tup w = .ok v := by
  unfold rowOK at h
  rw [List.all_eq_true] at h
  have := h w.toNat (by rw [List.mem_range]; omega)
  have e : ((w.toNat : Nat) : Int) = w := by omega
  rw [e, Bool.and_eq_true] at this
  obtain ⟨h1, h2⟩ := this
  have h2 := eq_of_beq h2
  unfold pick
  cases hg : tup[w.toNat]? with
  | none => rw [hg] at h1; simp at h1
  | some v => exact ⟨v, by rw [← h2, hg], rfl⟩

theorem pyWeekday_spec (n : Int) (_h : IsSerial n) :
    pyWeekday ⟨dayOf n, 0⟩ = Spec.C18.isoWeekday (dateOf n) - 1 := by
  have hs := spec_of_civil (dayOf n + epochCivil)
  have e : ordinal (dateOf n) = dayOf n + epochCivil - 305 := hs.2
  unfold pyWeekday ordinalOfDay Spec.C18.isoWeekday
  rw [e]; unfold epochCivil; simp only []; omega

theorem isoWeekday_range (c : Date) : 1 ≤ Spec.C18.isoWeekday c ∧ Spec.C18.isoWeekday c ≤ 7 := by
  unfold Spec.C18.isoWeekday; omega

/-- `weekday_types`: for every serial and every return type — omitted, valid or invalid — WEEKDAY is
    the reference numbering of the date's ISO weekday, or #NUM! -/
theorem weekday_spec (n : Int) (h : IsSerial n) (rt : Option Int) :
    WEEKDAY (.int n) (rt.map Num.int) =
      match Spec.C18.weekdayNum (rt.getD 1) (Spec.C18.isoWeekday (dateOf n)) with
      | some v => .ok v
      | none => .err .num := by
  have htab := weekday_tables
  unfold tableOK at htab
  rw [Bool.and_eq_true, Bool.and_eq_true] at htab
  obtain ⟨⟨hdef, hrows⟩, hkeys⟩ := htab
  have hw := pyWeekday_spec n h
  have hr := isoWeekday_range (dateOf n)
  have hiso : Spec.C18.isoWeekday (dateOf n) = pyWeekday ⟨dayOf n, 0⟩ + 1 := by omega
  unfold WEEKDAY
  rw [serialDate_whole n h]
  unfold Res.bind
  simp only []
  rw [hiso]
  cases rt with
  | none =>
    simp only [Option.map, Option.getD]
    obtain ⟨v, hv, hp⟩ := rowOK_get hdef (pyWeekday ⟨dayOf n, 0⟩) (by omega) (by omega)
    rw [hv, hp]
  | some r =>
    simp only [Option.map, Option.getD, pyInt]
    cases hl : Gen.weekdayTables.lookup r with
    | some tup =>
      simp only []
      have hmem := lookup_mem hl
      rw [List.all_eq_true] at hrows
      have hrow := hrows (r, tup) hmem
      simp only [] at hrow
      obtain ⟨v, hv, hp⟩ := rowOK_get hrow (pyWeekday ⟨dayOf n, 0⟩) (by omega) (by omega)
      rw [hv, hp]
    | none =>
      simp only []
      have : Spec.C18.weekdayNum r (pyWeekday ⟨dayOf n, 0⟩ + 1) = none := by
        unfold Spec.C18.weekdayNum
        have hk : ∀ k ∈ [1, 2, 3, 11, 12, 13, 14, 15, 16, 17], r ≠ k := by
          intro k hk hrk
          rw [List.all_eq_true] at hkeys
          have := hkeys k hk
          rw [← hrk, hl] at this
          simp at this
        have n1 := hk 1 (by simp); have n2 := hk 2 (by simp); have n3 := hk 3 (by simp)
        have n11 := hk 11 (by simp); have n12 := hk 12 (by simp); have n13 := hk 13 (by simp)
        have n14 := hk 14 (by simp); have n15 := hk 15 (by simp); have n16 := hk 16 (by simp)
        have n17 := hk 17 (by simp)
        rw [if_neg n1, if_neg n2, if_neg n3, if_neg (by omega)]
      rw [this]

/-! ### ISOWEEKNUM -/

theorem ordinal_jan1 (y : Int) : ordinal ⟨y, 1, 1⟩ = daysBeforeYear y + 1 := by
  rw [ordinal_def]; simp [Spec.C18.cumDays, adj]

theorem isoWeek1Monday_eq (y : Int) : isoWeek1Monday y = Lemmas.C18Iso.w1 (daysBeforeYear y + 1) := by
  unfold isoWeek1Monday ymd2ord Lemmas.C18Iso.w1
  have := ordinal_eq y 1 1 (by omega) (by omega)
  rw [ordinal_jan1] at this
  simp only []
  rw [← this]

/-- Python's `isocalendar` week of any day is the ISO 8601 week of its Gregorian date -/
theorem isoWeek_spec (day : Int) : isoWeek ⟨day, 0⟩ = Spec.C18.isoWeek (toSpec (DT.ymd ⟨day, 0⟩)) := by
  have hs := spec_of_civil (day + epochCivil)
  have hb := ordinal_bounds _ hs.1
  have hst := dby_step (toSpec (DT.ymd ⟨day, 0⟩)).y
  have hst' := dby_step ((toSpec (DT.ymd ⟨day, 0⟩)).y - 1)
  have e : ordinal (toSpec (DT.ymd ⟨day, 0⟩)) = ordinalOfDay day := by
    unfold DT.ymd ordinalOfDay; simp only []; rw [hs.2]; unfold epochCivil; omega
  have ey : (DT.ymd ⟨day, 0⟩).y = (toSpec (DT.ymd ⟨day, 0⟩)).y := rfl
  have hb' : daysBeforeYear (toSpec (DT.ymd ⟨day, 0⟩)).y + 1 ≤ ordinalOfDay day ∧
      ordinalOfDay day ≤ daysBeforeYear ((toSpec (DT.ymd ⟨day, 0⟩)).y + 1) := by
    rw [← e]; exact hb
  unfold isoWeek Spec.C18.isoWeek Spec.C18.isoWeekday
  simp only []
  rw [e, ey, isoWeek1Monday_eq, isoWeek1Monday_eq, isoWeek1Monday_eq]
  simp only [ordinal_jan1]
  generalize (toSpec (DT.ymd ⟨day, 0⟩)).y = y at *
  generalize ordinalOfDay day = o at *
  have e1 : y - 1 + 1 = y := by omega
  rw [e1] at hst'
  have h3 : (daysBeforeYear (y + 1) + 1) - (daysBeforeYear y + 1) = 365 ∨
      (daysBeforeYear (y + 1) + 1) - (daysBeforeYear y + 1) = 366 := by split at hst <;> omega
  have h4 : (daysBeforeYear y + 1) - (daysBeforeYear (y - 1) + 1) = 365 ∨
      (daysBeforeYear y + 1) - (daysBeforeYear (y - 1) + 1) = 366 := by split at hst' <;> omega
  have key := Lemmas.C18Iso.iso_arith o (daysBeforeYear (y - 1) + 1) (daysBeforeYear y + 1)
    (daysBeforeYear (y + 1) + 1) hb'.1 (by omega) h3 h4
  rw [key]
  -- the year of the Thursday, as the specification names it
  by_cases c1 : o + 4 - ((o - 1) % 7 + 1) < daysBeforeYear y + 1
  · simp only [if_pos c1]
  · simp only [if_neg c1]
    by_cases c2 : o + 4 - ((o - 1) % 7 + 1) ≥ daysBeforeYear (y + 1) + 1
    · simp only [if_pos c2]
    · simp only [if_neg c2]

theorem dtInt_serial (n : Int) (h : IsSerial n) : dtInt ⟨dayOf n, 0⟩ = n := by
  rw [dtInt_whole]; unfold dayOf; split <;> split <;> omega

/-- `isoweek_spec`: ISOWEEKNUM of every serial is the ISO 8601 week number of its date -/
theorem isoweeknum_spec (n : Int) (h : IsSerial n) :
    ISOWEEKNUM ⟨dayOf n, 0⟩ = .ok (Spec.C18.isoWeek (dateOf n)) := by
  unfold ISOWEEKNUM
  rw [dtInt_serial n h, number_to_datetime_whole n h]
  unfold Res.map
  simp only []
  rw [isoWeek_spec]
  rfl

/-! ### DATE -/

/-- days-from-civil is affine in the day of the month -/
theorem daysFromCivil_day (y m d : Int) : daysFromCivil ⟨y, m, d⟩ = daysFromCivil ⟨y, m, 1⟩ + (d - 1) := by
  unfold daysFromCivil; simp only []; omega

/-- the closed form of `DATE`: arguments truncated, year rule, month carry by floor division, day offset,
    then the range checks of the code (`datetime` exists for years 1 … 9999 only; outside → #NUM!) -/
theorem DATE_closed (year month day : Num) (hy0 : 0 ≤ pyInt year) (hy1 : pyInt year ≤ 9999) :
    DATE year month day =
      let y' := if pyInt year < 1900 then 1900 + pyInt year else pyInt year
      let ym := Spec.C18.monthShift y' 1 (pyInt month - 1)
      if ym.1 < 1 ∨ ym.1 > 9999 then .err .num else
      let dd := ordinal ⟨ym.1, ym.2, 1⟩ + (pyInt day - 1) - 693596
      if dd < -693595 ∨ dd > 2958463 then .err .num else
      if dd < 0 then .err .num else .ok ⟨dd, 0⟩ := by
  have hc := carryYM_eq 1900 1 ((if pyInt year < 1900 then 1900 + pyInt year else pyInt year) - 1900)
    (pyInt month - 1) (by omega) (by omega)
  have e : (1900 + ((if pyInt year < 1900 then 1900 + pyInt year else pyInt year) - 1900))
      = (if pyInt year < 1900 then 1900 + pyInt year else pyInt year) := by omega
  rw [e] at hc
  have hy : ¬ ¬ (0 ≤ pyInt year ∧ pyInt year ≤ 9999) := by omega
  unfold DATE addRel
  simp only [if_neg hy, hc]
  have hm : 1 ≤ (Spec.C18.monthShift (if pyInt year < 1900 then 1900 + pyInt year else pyInt year) 1
      (pyInt month - 1)).2 ∧ (Spec.C18.monthShift (if pyInt year < 1900 then 1900 + pyInt year else pyInt year) 1
      (pyInt month - 1)).2 ≤ 12 := by
    unfold Spec.C18.monthShift; simp only []; omega
  generalize Spec.C18.monthShift (if pyInt year < 1900 then 1900 + pyInt year else pyInt year) 1
    (pyInt month - 1) = ym at hm ⊢
  by_cases hr : ym.1 < 1 ∨ ym.1 > 9999
  · simp only [if_pos hr]
  · simp only [if_neg hr]
    have hd : min (daysInMonth ym.1 ym.2) (Option.getD none 1) = 1 := by
      have := dim_pos ym.1 ym.2
      rw [dim_eq] at this
      simp only [Option.getD]; omega
    have e2 : daysFromCivil ⟨ym.1, ym.2, 1⟩ - epochCivil + (pyInt day - 1)
        = ordinal ⟨ym.1, ym.2, 1⟩ + (pyInt day - 1) - 693596 := by
      rw [ordinal_eq _ _ _ hm.1 hm.2]; unfold epochCivil; omega
    rw [hd, e2]
    generalize ordinal ⟨ym.1, ym.2, 1⟩ + (pyInt day - 1) - 693596 = dd
    unfold mkDT
    rw [minDay_eq, maxDay_eq]
    by_cases hov : dd < -693595 ∨ dd > 2958463
    · simp only [if_pos hov]
    · simp only [if_neg hov]

theorem DATE_eq (y m d : Int) (hy0 : 0 ≤ y) (hy1 : y ≤ 9999) :
    DATE (.int y) (.int m) (.int d) =
      let y' := if y < 1900 then 1900 + y else y
      let ym := Spec.C18.monthShift y' 1 (m - 1)
      if ym.1 < 1 ∨ ym.1 > 9999 then .err .num else
      let day := ordinal ⟨ym.1, ym.2, 1⟩ + (d - 1) - 693596
      if day < -693595 ∨ day > 2958463 then .err .num else
      if day < 0 then .err .num else .ok ⟨day, 0⟩ :=
  DATE_closed (.int y) (.int m) (.int d) hy0 hy1

/-- observable serial of a function result -/
def serialRes (r : Res DT) : Res Rat := r.map datetimeToNumber

/-- `date_carry`: for all whole arguments DATE agrees with the reference — months and days outside
    their ranges carry into the next units, years 0 … 1899 count from 1900, and a year outside 0 … 9999
    or a result outside 1900-01-01 … 9999-12-31 is #NUM! — provided the month offset alone stays within
    the years 1 … 9999 of a `datetime` (otherwise the code answers #NUM! whatever the day offset) -/
theorem date_carry (y m d : Int)
    (hrange : 0 ≤ y ∧ y ≤ 9999 →
      1 ≤ (Spec.C18.monthShift (if y < 1900 then 1900 + y else y) 1 (m - 1)).1 ∧
      (Spec.C18.monthShift (if y < 1900 then 1900 + y else y) 1 (m - 1)).1 ≤ 9999) :
    serialRes (DATE (.int y) (.int m) (.int d)) =
      match Spec.C18.date y m d with
      | some s => .ok (s : Rat)
      | none => .err .num := by
  by_cases hy : 0 ≤ y ∧ y ≤ 9999
  · have hr := hrange hy
    rw [DATE_eq y m d hy.1 hy.2]
    unfold Spec.C18.date
    have e : (if y < 1900 then y + 1900 else y) = (if y < 1900 then 1900 + y else y) := by split <;> omega
    simp only [e]
    generalize Spec.C18.monthShift (if y < 1900 then 1900 + y else y) 1 (m - 1) = ym at hr ⊢
    generalize ordinal ⟨ym.1, ym.2, 1⟩ + (d - 1) = o
    have h1 : ¬ (ym.1 < 1 ∨ ym.1 > 9999) := by omega
    have h3 : ¬ (y < 0 ∨ y > 9999) := by omega
    simp only [if_neg h1, if_neg h3]
    unfold serialOfOrdinal Spec.C18.maxSerial
    simp only []
    by_cases hov : o - 693596 < -693595 ∨ o - 693596 > 2958463
    · have h4 : (if o - 693595 ≥ 60 then o - 693595 + 1 else o - 693595) < 1 ∨
          (if o - 693595 ≥ 60 then o - 693595 + 1 else o - 693595) > 2958465 := by split <;> omega
      simp only [if_pos hov, if_pos h4]; rfl
    · simp only [if_neg hov]
      by_cases hneg : o - 693596 < 0
      · have h4 : (if o - 693595 ≥ 60 then o - 693595 + 1 else o - 693595) < 1 ∨
            (if o - 693595 ≥ 60 then o - 693595 + 1 else o - 693595) > 2958465 := by split <;> omega
        simp only [if_pos hneg, if_pos h4]; rfl
      · have h4 : ¬ ((if o - 693595 ≥ 60 then o - 693595 + 1 else o - 693595) < 1 ∨
            (if o - 693595 ≥ 60 then o - 693595 + 1 else o - 693595) > 2958465) := by split <;> omega
        simp only [if_neg hneg, if_neg h4]
        unfold serialRes Res.map
        simp only []
        rw [datetimeToNumber_whole]
        congr 2
        split <;> split <;> omega
  · have h3 : y < 0 ∨ y > 9999 := by omega
    have h3' : ¬ (0 ≤ pyInt (.int y) ∧ pyInt (.int y) ≤ 9999) := by unfold pyInt; omega
    unfold DATE Spec.C18.date
    simp only [if_pos h3, if_pos h3']
    rfl

/-- `date_inverse`: DATE(YEAR(n), MONTH(n), DAY(n)) = n for every serial -/
theorem date_inverse (n : Int) (h : IsSerial n) :
    DATE (.int (dateOf n).y) (.int (dateOf n).m) (.int (dateOf n).d) = .ok ⟨dayOf n, 0⟩ := by
  have hs := serial_date_spec n h
  have hyr := year_range n h
  obtain ⟨⟨hm1, hm12, hd1, hdm⟩, hser⟩ := hs
  rw [DATE_eq _ _ _ (by omega) (by omega)]
  have ey : (if (dateOf n).y < 1900 then 1900 + (dateOf n).y else (dateOf n).y) = (dateOf n).y := by
    rw [if_neg (by omega)]
  have hshift : Spec.C18.monthShift (dateOf n).y 1 ((dateOf n).m - 1) = ((dateOf n).y, (dateOf n).m) := by
    unfold Spec.C18.monthShift; apply Prod.ext <;> simp only [] <;> omega
  have ho : ordinal ⟨(dateOf n).y, (dateOf n).m, 1⟩ + ((dateOf n).d - 1) = ordinal (dateOf n) := by
    rw [ordinal_def]; show _ = ordinal ⟨(dateOf n).y, (dateOf n).m, (dateOf n).d⟩; rw [ordinal_def]; omega
  unfold serialOf serialOfOrdinal at hser
  simp only [] at hser
  have hday : ordinal (dateOf n) - 693596 = dayOf n := by
    unfold dayOf; split at hser <;> split <;> omega
  simp only [ey, hshift, ho, hday]
  have h1 : ¬ ((dateOf n).y < 1 ∨ (dateOf n).y > 9999) := by omega
  have h2 : ¬ (dayOf n < -693595 ∨ dayOf n > 2958463) := by unfold dayOf; split <;> omega
  have h3 : ¬ dayOf n < 0 := by unfold dayOf; split <;> omega
  simp only [if_neg h1, if_neg h2, if_neg h3]

theorem date_inverse_serial (n : Int) (h : IsSerial n) :
    serialRes (DATE (.int (dateOf n).y) (.int (dateOf n).m) (.int (dateOf n).d)) = .ok (n : Rat) := by
  rw [date_inverse n h, ← serial_roundtrip n h, number_to_datetime_whole n h]; rfl

/-! ### EDATE and EOMONTH -/

theorem ordinal_range (c : Date) (hv : c.Valid) (hy0 : 1 ≤ c.y) (hy1 : c.y ≤ 9999) :
    1 ≤ ordinal c ∧ ordinal c ≤ 3652059 := by
  have hb := ordinal_bounds c hv
  have e1 : daysBeforeYear 1 = 0 := by decide
  have e2 : daysBeforeYear 10000 = 3652059 := by decide
  have m1 := dby_mono 1 c.y hy0
  have m2 := dby_mono (c.y + 1) 10000 (by omega)
  omega

/-- the `datetime` of a date of the calendar in years 1 … 9999 -/
theorem dtOfYMD_valid (c : YMD) (hv : Valid c) (hy0 : 1 ≤ c.y) (hy1 : c.y ≤ 9999) (s : Rat) :
    dtOfYMD c s = .ok ⟨ordinal (toSpec c) - 693596, s⟩ := by
  have hr := ordinal_range (toSpec c) hv hy0 hy1
  have ho : ordinal (toSpec c) = daysFromCivil c - 305 := ordinal_eq c.y c.m c.d hv.1 hv.2.1
  unfold dtOfYMD
  have e : daysFromCivil c - epochCivil = ordinal (toSpec c) - 693596 := by rw [ho]; unfold epochCivil; omega
  rw [e]
  exact mkDT_ok _ _ (by omega) (by omega)

theorem ymd_of_valid (c : YMD) (hv : Valid c) (s : Rat) : DT.ymd ⟨ordinal (toSpec c) - 693596, s⟩ = c := by
  have ho : ordinal (toSpec c) = daysFromCivil c - 305 := ordinal_eq c.y c.m c.d hv.1 hv.2.1
  unfold DT.ymd
  simp only []
  have e : ordinal (toSpec c) - 693596 + epochCivil = daysFromCivil c := by rw [ho]; unfold epochCivil; omega
  rw [e]
  exact civil_days c hv

theorem number_of_date (c : Date) : datetimeToNumber ⟨ordinal c - 693596, 0⟩ = ((serialOf c : Int) : Rat) := by
  rw [datetimeToNumber_whole]
  unfold serialOf serialOfOrdinal
  simp only []
  congr 1
  split <;> split <;> omega

theorem day_neg_iff (c : Date) : ordinal c - 693596 < 0 ↔ serialOf c < 1 := by
  unfold serialOf serialOfOrdinal
  simp only []
  split <;> omega

theorem ymd_dateOf (n : Int) : toSpec (DT.ymd ⟨dayOf n, 0⟩) = dateOf n := rfl

theorem addMonths_valid (c : Date) (hv : c.Valid) (k : Int) : (Spec.C18.addMonths c k).Valid := by
  unfold Spec.C18.addMonths
  simp only []
  have hm : 1 ≤ (Spec.C18.monthShift c.y c.m k).2 ∧ (Spec.C18.monthShift c.y c.m k).2 ≤ 12 := by
    unfold Spec.C18.monthShift; simp only []; omega
  have hp := dim_pos (Spec.C18.monthShift c.y c.m k).1 (Spec.C18.monthShift c.y c.m k).2
  obtain ⟨_, _, hd1, _⟩ := hv
  refine ⟨hm.1, hm.2, ?_, ?_⟩ <;> simp only [] <;> omega

theorem serial_lt_one_iff (c : Date) (hv : c.Valid) : serialOf c < 1 ↔ c.y < 1900 := by
  have hb := ordinal_bounds c hv
  have e1 : daysBeforeYear 1900 = 693595 := by decide
  unfold serialOf serialOfOrdinal
  simp only []
  constructor
  · intro hlt
    apply Classical.byContradiction; intro hc
    have := dby_mono 1900 c.y (by omega)
    split at hlt <;> omega
  · intro hlt
    have := dby_mono (c.y + 1) 1900 (by omega)
    split <;> omega

theorem serial_gt_max_iff (c : Date) (hv : c.Valid) : serialOf c > Spec.C18.maxSerial ↔ c.y > 9999 := by
  have hb := ordinal_bounds c hv
  have e1 : daysBeforeYear 10000 = 3652059 := by decide
  unfold serialOf serialOfOrdinal Spec.C18.maxSerial
  simp only []
  constructor
  · intro hgt
    apply Classical.byContradiction; intro hc
    have := dby_mono (c.y + 1) 10000 (by omega)
    split at hgt <;> omega
  · intro hgt
    have := dby_mono 10000 c.y (by omega)
    split <;> omega

/-- closed form of the common part of EDATE and EOMONTH on a whole serial: the date moved by whole
    months and clipped, #NUM! when it leaves 1900-01-01 … 9999-12-31 -/
theorem edateCore_eq (n k : Int) (h : IsSerial n) :
    edateCore ⟨dayOf n, 0⟩ (.int k) =
      if serialOf (Spec.C18.addMonths (dateOf n) k) < 1 ∨
          serialOf (Spec.C18.addMonths (dateOf n) k) > Spec.C18.maxSerial then .err .num
      else .ok ⟨ordinal (Spec.C18.addMonths (dateOf n) k) - 693596, 0⟩ := by
  have hs := serial_date_spec n h
  have hv := addMonths_valid (dateOf n) hs.1 k
  have hlt := serial_lt_one_iff _ hv
  have hgt := serial_gt_max_iff _ hv
  unfold edateCore
  rw [dtInt_serial n h, number_to_datetime_whole n h]
  unfold Res.bind
  simp only []
  have ey : (DT.ymd ⟨dayOf n, 0⟩).y = (dateOf n).y := rfl
  have em : (DT.ymd ⟨dayOf n, 0⟩).m = (dateOf n).m := rfl
  have ed : (DT.ymd ⟨dayOf n, 0⟩).d = (dateOf n).d := rfl
  have hc := carryYM_eq (dateOf n).y (dateOf n).m 0 k hs.1.1 hs.1.2.1
  have e0 : (dateOf n).y + 0 = (dateOf n).y := by omega
  rw [e0] at hc
  have hadd : addRel (DT.ymd ⟨dayOf n, 0⟩) 0 (pyInt (.int k)) none
      = if (Spec.C18.addMonths (dateOf n) k).y < 1 ∨ (Spec.C18.addMonths (dateOf n) k).y > 9999
        then .crash .valueError
        else .ok ⟨(Spec.C18.addMonths (dateOf n) k).y, (Spec.C18.addMonths (dateOf n) k).m,
             (Spec.C18.addMonths (dateOf n) k).d⟩ := by
    unfold addRel
    simp only [pyInt, ey, em, ed, hc]
    unfold Spec.C18.addMonths
    simp only [Option.getD]
    have hmin : min (daysInMonth (Spec.C18.monthShift (dateOf n).y (dateOf n).m k).1
        (Spec.C18.monthShift (dateOf n).y (dateOf n).m k).2) (dateOf n).d
        = min (dateOf n).d (Spec.C18.daysInMonth (Spec.C18.monthShift (dateOf n).y (dateOf n).m k).1
        (Spec.C18.monthShift (dateOf n).y (dateOf n).m k).2) := by rw [dim_eq]; omega
    rw [hmin]
  rw [hadd]
  by_cases hyr : (Spec.C18.addMonths (dateOf n) k).y < 1 ∨ (Spec.C18.addMonths (dateOf n) k).y > 9999
  · have : serialOf (Spec.C18.addMonths (dateOf n) k) < 1 ∨
        serialOf (Spec.C18.addMonths (dateOf n) k) > Spec.C18.maxSerial := by
      rcases hyr with h1 | h2
      · exact Or.inl (hlt.mpr (by omega))
      · exact Or.inr (hgt.mpr h2)
    simp only [if_pos hyr, if_pos this]
  · simp only [if_neg hyr]
    have hdt := dtOfYMD_valid ⟨(Spec.C18.addMonths (dateOf n) k).y, (Spec.C18.addMonths (dateOf n) k).m,
      (Spec.C18.addMonths (dateOf n) k).d⟩ hv
      (show 1 ≤ (Spec.C18.addMonths (dateOf n) k).y by omega)
      (show (Spec.C18.addMonths (dateOf n) k).y ≤ 9999 by omega) 0
    rw [hdt]
    simp only []
    have et : toSpec ⟨(Spec.C18.addMonths (dateOf n) k).y, (Spec.C18.addMonths (dateOf n) k).m,
      (Spec.C18.addMonths (dateOf n) k).d⟩ = Spec.C18.addMonths (dateOf n) k := rfl
    rw [et]
    have hneg_iff := day_neg_iff (Spec.C18.addMonths (dateOf n) k)
    have hnotgt : ¬ serialOf (Spec.C18.addMonths (dateOf n) k) > Spec.C18.maxSerial :=
      fun hh => hyr (Or.inr (hgt.mp hh))
    by_cases hneg : serialOf (Spec.C18.addMonths (dateOf n) k) < 1
    · simp only [if_pos (hneg_iff.mpr hneg), if_pos (Or.inl hneg : _ ∨ _)]
    · have : ¬ (serialOf (Spec.C18.addMonths (dateOf n) k) < 1 ∨
          serialOf (Spec.C18.addMonths (dateOf n) k) > Spec.C18.maxSerial) := by
        intro hh; rcases hh with h1 | h2
        · exact hneg h1
        · exact hnotgt h2
      simp only [if_neg (fun hh => hneg (hneg_iff.mp hh)), if_neg this]

/-- `edate_clip`: EDATE moves every serial by whole months and clips the day to the end of the target
    month; a result outside 1900-01-01 … 9999-12-31 is #NUM! -/
theorem edate_clip (n k : Int) (h : IsSerial n) :
    serialRes (EDATE ⟨dayOf n, 0⟩ (.int k)) =
      match Spec.C18.edate (dateOf n) k with
      | some s => .ok (s : Rat)
      | none => .err .num := by
  have hs := serial_date_spec n h
  have hv := addMonths_valid (dateOf n) hs.1 k
  have hgt := serial_gt_max_iff _ hv
  unfold EDATE Spec.C18.edate
  rw [edateCore_eq n k h]
  simp only []
  by_cases hout : serialOf (Spec.C18.addMonths (dateOf n) k) < 1 ∨
      serialOf (Spec.C18.addMonths (dateOf n) k) > Spec.C18.maxSerial
  · simp only [if_pos hout]; rfl
  · simp only [if_neg hout]
    have hd0 : 0 ≤ ordinal (Spec.C18.addMonths (dateOf n) k) - 693596 := by
      have := day_neg_iff (Spec.C18.addMonths (dateOf n) k); omega
    have hyr : (Spec.C18.addMonths (dateOf n) k).y ≤ 9999 := by
      apply Classical.byContradiction; intro hc
      exact hout (Or.inr (hgt.mpr (by omega)))
    have hlt := serial_lt_one_iff _ hv
    have hy1 : 1 ≤ (Spec.C18.addMonths (dateOf n) k).y := by
      apply Classical.byContradiction; intro hc
      exact hout (Or.inl (hlt.mpr (by omega)))
    have hor := ordinal_range _ hv hy1 hyr
    unfold Res.bind
    simp only []
    rw [datetime_roundtrip _ hd0 (by rw [maxDay_eq]; omega)]
    unfold serialRes Res.map
    simp only []
    rw [number_of_date]

theorem endOfMonth_valid (c : Date) (hv : c.Valid) : (Spec.C18.endOfMonth c).Valid := by
  have := dim_pos c.y c.m
  obtain ⟨h1, h12, _, _⟩ := hv
  unfold Spec.C18.endOfMonth
  refine ⟨h1, h12, ?_, ?_⟩ <;> simp only [] <;> omega

/-- `eomonth`: EOMONTH is the last day of the month reached by moving whole months -/
theorem eomonth_spec (n k : Int) (h : IsSerial n) :
    EOMONTH ⟨dayOf n, 0⟩ (.int k) =
      match Spec.C18.eomonth (dateOf n) k with
      | some s => .ok (s : Rat)
      | none => .err .num := by
  have hs := serial_date_spec n h
  have hv := addMonths_valid (dateOf n) hs.1 k
  have hve := endOfMonth_valid _ hv
  have h1 := serial_lt_one_iff _ hv
  have h2 := serial_lt_one_iff _ hve
  have g1 := serial_gt_max_iff _ hv
  have g2 := serial_gt_max_iff _ hve
  have ey : (Spec.C18.endOfMonth (Spec.C18.addMonths (dateOf n) k)).y = (Spec.C18.addMonths (dateOf n) k).y := rfl
  rw [ey] at h2 g2
  unfold EOMONTH Spec.C18.eomonth
  rw [edateCore_eq n k h]
  simp only []
  by_cases hout : serialOf (Spec.C18.addMonths (dateOf n) k) < 1 ∨
      serialOf (Spec.C18.addMonths (dateOf n) k) > Spec.C18.maxSerial
  · have : serialOf (Spec.C18.endOfMonth (Spec.C18.addMonths (dateOf n) k)) < 1 ∨
        serialOf (Spec.C18.endOfMonth (Spec.C18.addMonths (dateOf n) k)) > Spec.C18.maxSerial := by
      rcases hout with a | b
      · exact Or.inl (h2.mpr (h1.mp a))
      · exact Or.inr (g2.mpr (g1.mp b))
    simp only [if_pos hout, if_pos this]; rfl
  · have : ¬ (serialOf (Spec.C18.endOfMonth (Spec.C18.addMonths (dateOf n) k)) < 1 ∨
        serialOf (Spec.C18.endOfMonth (Spec.C18.addMonths (dateOf n) k)) > Spec.C18.maxSerial) := by
      intro hh; rcases hh with a | b
      · exact hout (Or.inl (h1.mpr (h2.mp a)))
      · exact hout (Or.inr (g1.mpr (g2.mp b)))
    simp only [if_neg hout, if_neg this]
    have hyr : (Spec.C18.addMonths (dateOf n) k).y ≤ 9999 := by
      apply Classical.byContradiction; intro hc
      exact hout (Or.inr (g1.mpr (by omega)))
    have hy1 : 1 ≤ (Spec.C18.addMonths (dateOf n) k).y := by
      apply Classical.byContradiction; intro hc
      exact hout (Or.inl (h1.mpr (by omega)))
    unfold Res.bind
    simp only []
    generalize hc : Spec.C18.addMonths (dateOf n) k = c at *
    have hy := ymd_of_valid ⟨c.y, c.m, c.d⟩ hv 0
    have et : toSpec ⟨c.y, c.m, c.d⟩ = c := rfl
    rw [et] at hy
    rw [hy]
    have hcar := carryYM_eq c.y c.m 0 0 hv.1 hv.2.1
    have hsh : Spec.C18.monthShift (c.y + 0) c.m 0 = (c.y, c.m) := by
      obtain ⟨hm1, hm12, _, _⟩ := hv
      unfold Spec.C18.monthShift; apply Prod.ext <;> simp only [] <;> omega
    rw [hsh] at hcar
    unfold addRel
    simp only [hcar]
    have hyr' : ¬ (c.y < 1 ∨ c.y > 9999) := by omega
    simp only [if_neg hyr']
    have hmin : min (daysInMonth c.y c.m) (Option.getD (some 31) c.d) = Spec.C18.daysInMonth c.y c.m := by
      have := dim_pos c.y c.m
      rw [dim_eq] at this ⊢
      simp only [Option.getD]; omega
    rw [hmin]
    have hdt := dtOfYMD_valid ⟨c.y, c.m, Spec.C18.daysInMonth c.y c.m⟩ hve hy1 hyr 0
    rw [hdt]
    unfold Res.map
    simp only []
    have et2 : toSpec ⟨c.y, c.m, Spec.C18.daysInMonth c.y c.m⟩ = Spec.C18.endOfMonth c := rfl
    rw [et2, number_of_date]

/-! ### The fraction of a serial is the time of day (and D45: not on the way back) -/

theorem floor_int_add_frac (n : Int) (f : Rat) (hf0 : 0 ≤ f) (hf1 : f < 1) : ((n : Rat) + f).floor = n := by
  rw [Rat.add_comm, Rat.floor_add_intCast]
  have h1 : f.floor < 1 := Rat.floor_lt_iff.mpr (by exact_mod_cast hf1)
  have h2 : (0 : Int) ≤ f.floor := Rat.le_floor_iff.mpr (by exact_mod_cast hf0)
  omega

/-- serial → datetime puts the fraction of the serial into the time of day, on every serial
    (also on serial 59, D1802) -/
theorem fraction_is_time (n : Int) (f : Rat) (h : IsSerial n) (hf0 : 0 ≤ f) (hf1 : f < 1) :
    numberToDatetime (.flt ((n : Rat) + f)) = .ok ⟨dayOf n, f * 86400⟩ := by
  have hfl := floor_int_add_frac n f hf0 hf1
  have hn : (1 : Rat) ≤ (n : Rat) := by exact_mod_cast h.1
  unfold numberToDatetime
  have hpy : pyInt (.flt ((n : Rat) + f)) = n := by
    unfold pyInt
    simp only []
    rw [if_neg (by linarith), hfl]
  have hq : (Num.flt ((n : Rat) + f)).toRat = (n : Rat) + f := rfl
  rw [hpy, hq]
  simp only [hfl]
  have hge : ((n : Rat) + f ≥ 60) ↔ n ≥ 60 := by
    constructor
    · intro hh
      apply Classical.byContradiction; intro hc
      have : (n : Rat) ≤ 59 := by exact_mod_cast (by omega : n ≤ 59)
      linarith
    · intro hh
      have : (60 : Rat) ≤ (n : Rat) := by exact_mod_cast hh
      linarith
  simp only [hge]
  have e : ((n : Rat) + f - (n : Rat)) * 86400 = f * 86400 := by ring
  rw [e]
  unfold dayOf
  apply mkDT_ok <;> split <;> omega

/-
  D45 (known finding, hard-coded in tests/xlfunctions/test_xltypes.py).  GOAL, full strength:

    theorem time_is_fraction (d : Int) (s : Rat) (h0 : 0 ≤ s) (h1 : s < 86400) :
        datetimeToNumber ⟨d, s⟩ = ((d + (if d > 58 then 2 else 1) : Int) : Rat) + s / 86400

  It is FALSE for the code as written (`delta.seconds / 24 * 60 * 60` multiplies by 150 instead of
  dividing by 86400): the kernel-checked counter-example below is 2020-01-01 12:00.
-/
theorem time_is_fraction_counterexample :
    datetimeToNumber ⟨43829, 43200⟩ = 6523831 ∧ (6523831 : Rat) ≠ 43831 + 43200 / 86400 := by
  constructor
  · decide +kernel
  · norm_num

/-- what the code does compute: 150 "days" per second -/
theorem datetime_to_number_as_coded (d : Int) (s : Int) :
    datetimeToNumber ⟨d, (s : Rat)⟩ = ((d + (if d > 58 then 2 else 1) : Int) : Rat) + 150 * (s : Rat) := by
  unfold datetimeToNumber
  simp only [Rat.floor_intCast]
  ring

/-- the guarded version that holds: at midnight the serial is whole and exact -/
theorem time_is_fraction_partial (d : Int) :
    datetimeToNumber ⟨d, 0⟩ = ((d + (if d > 58 then 2 else 1) : Int) : Rat) + 0 / 86400 := by
  rw [datetimeToNumber_whole]; norm_num

/-! ### DAYS, DATEDIF, YEARFRAC -/

/-- the calendar days between two serials -/
theorem dayOf_sub (n1 n2 : Int) (h1 : IsSerial n1) (h2 : IsSerial n2) :
    dayOf n2 - dayOf n1 = ordinal (dateOf n2) - ordinal (dateOf n1) := by
  have e1 := (spec_of_civil (dayOf n1 + epochCivil)).2
  have e2 := (spec_of_civil (dayOf n2 + epochCivil)).2
  show _ = ordinal (toSpec (civilFromDays (dayOf n2 + epochCivil))) - ordinal (toSpec (civilFromDays (dayOf n1 + epochCivil)))
  omega

/-- `days_sub`: DAYS is the difference of the serials; on one side of the fictitious 29 February 1900
    that is the number of calendar days between the dates -/
theorem days_sub (n1 n2 : Int) (_h1 : IsSerial n1) (_h2 : IsSerial n2) :
    DAYS ⟨dayOf n2, 0⟩ ⟨dayOf n1, 0⟩ = .ok ((n2 - n1 : Int) : Rat) := by
  unfold DAYS
  rw [datetimeToNumber_whole, datetimeToNumber_whole, ← Rat.intCast_sub]
  congr 2
  unfold dayOf
  split <;> split <;> split <;> split <;> omega

theorem days_calendar (n1 n2 : Int) (h1 : IsSerial n1) (h2 : IsSerial n2)
    (hside : (n1 < 60 ∧ n2 < 60) ∨ (60 < n1 ∧ 60 < n2)) :
    n2 - n1 = ordinal (dateOf n2) - ordinal (dateOf n1) := by
  rw [← dayOf_sub n1 n2 h1 h2]; unfold dayOf; split <;> split <;> omega

theorem number_serial (n : Int) (h : IsSerial n) : datetimeToNumber ⟨dayOf n, 0⟩ = (n : Rat) := by
  rw [datetimeToNumber_whole]; congr 1; unfold dayOf; split <;> split <;> omega

/-- `datedif_spec`: for two serials in order, DATEDIF gives the calendar days ("D"), the complete
    months ("M") and the complete years ("Y") between the dates, in either letter case -/
theorem datedif_spec (n1 n2 : Int) (h1 : IsSerial n1) (h2 : IsSerial n2) (hle : n1 ≤ n2) :
    DATEDIF ⟨dayOf n1, 0⟩ ⟨dayOf n2, 0⟩ ['D'] = .ok (ordinal (dateOf n2) - ordinal (dateOf n1)) ∧
    DATEDIF ⟨dayOf n1, 0⟩ ⟨dayOf n2, 0⟩ ['M'] = .ok (Spec.C18.completeMonths (dateOf n1) (dateOf n2)) ∧
    DATEDIF ⟨dayOf n1, 0⟩ ⟨dayOf n2, 0⟩ ['Y'] = .ok (Spec.C18.completeYears (dateOf n1) (dateOf n2)) ∧
    DATEDIF ⟨dayOf n1, 0⟩ ⟨dayOf n2, 0⟩ ['d'] = DATEDIF ⟨dayOf n1, 0⟩ ⟨dayOf n2, 0⟩ ['D'] ∧
    DATEDIF ⟨dayOf n1, 0⟩ ⟨dayOf n2, 0⟩ ['m'] = DATEDIF ⟨dayOf n1, 0⟩ ⟨dayOf n2, 0⟩ ['M'] ∧
    DATEDIF ⟨dayOf n1, 0⟩ ⟨dayOf n2, 0⟩ ['y'] = DATEDIF ⟨dayOf n1, 0⟩ ⟨dayOf n2, 0⟩ ['Y'] := by
  have hgt : ¬ datetimeToNumber ⟨dayOf n1, 0⟩ > datetimeToNumber ⟨dayOf n2, 0⟩ := by
    rw [number_serial n1 h1, number_serial n2 h2]
    have : (n1 : Rat) ≤ (n2 : Rat) := by exact_mod_cast hle
    linarith
  have hv1 := (serial_date_spec n1 h1).1
  have hv2 := (serial_date_spec n2 h2).1
  have hday : dayOf n1 ≤ dayOf n2 := by unfold dayOf; split <;> split <;> omega
  have hsub := dayOf_sub n1 n2 h1 h2
  have core : ∀ u : List Char, DATEDIF ⟨dayOf n1, 0⟩ ⟨dayOf n2, 0⟩ u =
      (let a := DT.ymd ⟨dayOf n1, 0⟩
       let b := DT.ymd ⟨dayOf n2, 0⟩
       let months0 := (b.y - a.y) * 12 + (b.m - a.m)
       let months := if b.d < a.d then months0 - 1 else months0
       let u := u.map upperChar
       if u = ['Y'] then .ok (months / 12)
       else if u = ['M'] then .ok months
       else if u = ['D'] then .ok (rruleDailyCount (dayOf n1) (dayOf n2))
       else if u = ['M', 'D'] then
         (replaceYMD ⟨1900, 1, a.d⟩).bind fun x => (replaceYMD ⟨1900, 1, b.d⟩).bind fun y =>
           .ok (rruleDailyCount x.day y.day)
       else if u = ['Y', 'M'] then .ok ((if a.m ≤ b.m then b.m - a.m + 1 else 0) - 1)
       else if u = ['Y', 'D'] then
         (replaceYMD ⟨1900, a.m, a.d⟩).bind fun x => (replaceYMD ⟨1900, b.m, b.d⟩).bind fun y =>
           .ok (rruleDailyCount x.day y.day)
       else .ok 0) := by
    intro u
    unfold DATEDIF
    rw [if_neg hgt, dtInt_serial n1 h1, dtInt_serial n2 h2, number_to_datetime_whole n1 h1,
      number_to_datetime_whole n2 h2]
    rfl
  have ud : ['d'].map upperChar = ['D'] := by decide
  have um : ['m'].map upperChar = ['M'] := by decide
  have uy : ['y'].map upperChar = ['Y'] := by decide
  have uD : ['D'].map upperChar = ['D'] := by decide
  have uM : ['M'].map upperChar = ['M'] := by decide
  have uY : ['Y'].map upperChar = ['Y'] := by decide
  refine ⟨?_, ?_, ?_, ?_, ?_, ?_⟩
  · rw [core]; simp only [uD, if_true]
    rw [if_neg (by decide), if_neg (by decide)]
    unfold rruleDailyCount; rw [if_pos hday]; congr 1; omega
  · rw [core]; simp only [uM, if_true]
    rw [if_neg (by decide)]
    unfold Spec.C18.completeMonths
    show Res.ok (if (dateOf n2).d < (dateOf n1).d then
      ((dateOf n2).y - (dateOf n1).y) * 12 + ((dateOf n2).m - (dateOf n1).m) - 1
      else ((dateOf n2).y - (dateOf n1).y) * 12 + ((dateOf n2).m - (dateOf n1).m)) = _
    congr 1
    split <;> omega
  · rw [core]; simp only [uY, if_true]
    unfold Spec.C18.completeYears
    show Res.ok ((if (dateOf n2).d < (dateOf n1).d then
      ((dateOf n2).y - (dateOf n1).y) * 12 + ((dateOf n2).m - (dateOf n1).m) - 1
      else ((dateOf n2).y - (dateOf n1).y) * 12 + ((dateOf n2).m - (dateOf n1).m)) / 12) = _
    obtain ⟨ha1, ha12, _, _⟩ := hv1
    obtain ⟨hb1, hb12, _, _⟩ := hv2
    congr 1
    split <;> split <;> omega
  · rw [core, core]; simp only [ud, uD]
  · rw [core, core]; simp only [um, uM]
  · rw [core, core]; simp only [uy, uY]

theorem deltaDays_whole (d1 d2 : Int) : deltaDays ⟨d1, 0⟩ ⟨d2, 0⟩ = d2 - d1 := by
  unfold deltaDays
  simp

/-- YEARFRAC on two whole serials, in either order: the arguments are put in order, then the basis
    selects the day count -/
theorem YEARFRAC_whole (n1 n2 : Int) (h1 : IsSerial n1) (h2 : IsSerial n2) (hle : n1 ≤ n2) (b : Int) :
    (YEARFRAC ⟨dayOf n1, 0⟩ ⟨dayOf n2, 0⟩ (.int b) =
      if b = 0 then d30360e (DT.ymd ⟨dayOf n1, 0⟩) (DT.ymd ⟨dayOf n2, 0⟩) true
      else if b = 1 then actAfb (DT.ymd ⟨dayOf n1, 0⟩) (DT.ymd ⟨dayOf n2, 0⟩)
      else if b = 2 then .ok (((dayOf n2 - dayOf n1 : Int) : Rat) / 360)
      else if b = 3 then .ok (((dayOf n2 - dayOf n1 : Int) : Rat) / 365)
      else if b = 4 then d30360e (DT.ymd ⟨dayOf n1, 0⟩) (DT.ymd ⟨dayOf n2, 0⟩) false
      else .err .value) ∧
    YEARFRAC ⟨dayOf n2, 0⟩ ⟨dayOf n1, 0⟩ (.int b) = YEARFRAC ⟨dayOf n1, 0⟩ ⟨dayOf n2, 0⟩ (.int b) := by
  have c1 : ¬ ((n1 : Rat) < 1) := by
    have : (1 : Rat) ≤ (n1 : Rat) := by exact_mod_cast h1.1
    linarith
  have c2 : ¬ ((n2 : Rat) < 1) := by
    have : (1 : Rat) ≤ (n2 : Rat) := by exact_mod_cast h2.1
    linarith
  have c3 : ¬ ((n1 : Rat) > (n2 : Rat)) := by
    have : (n1 : Rat) ≤ (n2 : Rat) := by exact_mod_cast hle
    linarith
  have hb : ∀ k : Int, ((Num.int b).toRat = (k : Rat)) ↔ b = k := by
    intro k; rw [toRat_int]; exact Rat.intCast_inj
  have hb0 := hb 0; have hb1 := hb 1; have hb2 := hb 2; have hb3 := hb 3; have hb4 := hb 4
  simp only [Int.cast_ofNat, Int.cast_zero, Int.cast_one] at hb0 hb1 hb2 hb3 hb4
  have first : YEARFRAC ⟨dayOf n1, 0⟩ ⟨dayOf n2, 0⟩ (.int b) =
      if b = 0 then d30360e (DT.ymd ⟨dayOf n1, 0⟩) (DT.ymd ⟨dayOf n2, 0⟩) true
      else if b = 1 then actAfb (DT.ymd ⟨dayOf n1, 0⟩) (DT.ymd ⟨dayOf n2, 0⟩)
      else if b = 2 then .ok (((dayOf n2 - dayOf n1 : Int) : Rat) / 360)
      else if b = 3 then .ok (((dayOf n2 - dayOf n1 : Int) : Rat) / 365)
      else if b = 4 then d30360e (DT.ymd ⟨dayOf n1, 0⟩) (DT.ymd ⟨dayOf n2, 0⟩) false
      else .err .value := by
    unfold YEARFRAC
    simp only [number_serial n1 h1, number_serial n2 h2, if_neg c1, if_neg c2, if_neg c3,
      deltaDays_whole, hb0, hb1, hb2, hb3, hb4]
  refine ⟨first, ?_⟩
  by_cases heq : n1 = n2
  · subst heq; rfl
  · have c4 : (n2 : Rat) > (n1 : Rat) := by
      have : (n1 : Rat) < (n2 : Rat) := by exact_mod_cast (by omega : n1 < n2)
      linarith
    rw [first]
    unfold YEARFRAC
    simp only [number_serial n1 h1, number_serial n2 h2, if_neg c1, if_neg c2, if_pos c4,
      deltaDays_whole, hb0, hb1, hb2, hb3, hb4]

/-- `yearfrac_23`: on the actual bases YEARFRAC is the number of calendar days between the dates
    divided by 360 (basis 2) and by 365 (basis 3), whatever the order of the arguments -/
theorem yearfrac_23 (n1 n2 : Int) (h1 : IsSerial n1) (h2 : IsSerial n2) (hle : n1 ≤ n2) :
    YEARFRAC ⟨dayOf n1, 0⟩ ⟨dayOf n2, 0⟩ (.int 2)
      = .ok (((ordinal (dateOf n2) - ordinal (dateOf n1) : Int) : Rat) / 360) ∧
    YEARFRAC ⟨dayOf n2, 0⟩ ⟨dayOf n1, 0⟩ (.int 2)
      = .ok (((ordinal (dateOf n2) - ordinal (dateOf n1) : Int) : Rat) / 360) ∧
    YEARFRAC ⟨dayOf n1, 0⟩ ⟨dayOf n2, 0⟩ (.int 3)
      = .ok (((ordinal (dateOf n2) - ordinal (dateOf n1) : Int) : Rat) / 365) ∧
    YEARFRAC ⟨dayOf n2, 0⟩ ⟨dayOf n1, 0⟩ (.int 3)
      = .ok (((ordinal (dateOf n2) - ordinal (dateOf n1) : Int) : Rat) / 365) := by
  have w2 := YEARFRAC_whole n1 n2 h1 h2 hle 2
  have w3 := YEARFRAC_whole n1 n2 h1 h2 hle 3
  have hs := dayOf_sub n1 n2 h1 h2
  simp only [show ¬ ((2 : Int) = 0) by decide, show ¬ ((2 : Int) = 1) by decide, if_false, if_true] at w2
  simp only [show ¬ ((3 : Int) = 0) by decide, show ¬ ((3 : Int) = 1) by decide,
    show ¬ ((3 : Int) = 2) by decide, if_false, if_true] at w3
  rw [hs] at w2 w3
  exact ⟨w2.1, by rw [w2.2, w2.1], w3.1, by rw [w3.2, w3.1]⟩

/-- a basis outside 0 … 4 is #VALUE! -/
theorem yearfrac_bad_basis (n1 n2 : Int) (h1 : IsSerial n1) (h2 : IsSerial n2) (hle : n1 ≤ n2) (b : Int)
    (hb : b < 0 ∨ 4 < b) : YEARFRAC ⟨dayOf n1, 0⟩ ⟨dayOf n2, 0⟩ (.int b) = .err .value := by
  rw [(YEARFRAC_whole n1 n2 h1 h2 hle b).1]
  rw [if_neg (by omega), if_neg (by omega), if_neg (by omega), if_neg (by omega), if_neg (by omega)]

/-
  Bases 0 and 4 (30/360).  GOAL, full strength, on the dates where the US and the European convention
  coincide with the plain count (`Spec.C18.Plain360`: day ≤ 28, and not the last day of February):

    theorem yearfrac_30360 (a b : YMD) (ha : Plain360 (toSpec a)) (hb : Plain360 (toSpec b))
        (hle : 0 ≤ days360 (toSpec a) (toSpec b)) (matu : Bool) :
        d30360e a b matu = .ok ((days360 (toSpec a) (toSpec b) : Rat) / 360)

  It is FALSE for the `yearfrac` package conventions the code calls (finding D1803): the package
  treats *every* 28 February as day 30 — also in a leap year, where it is not the end of the month.
  Kernel-checked counter-example: 2020-02-28 → 2020-03-28 is 30 days on every 30/360 convention.
-/
theorem yearfrac_30360_counterexample :
    Spec.C18.Plain360 ⟨2020, 2, 28⟩ ∧ Spec.C18.Plain360 ⟨2020, 3, 28⟩ ∧
    Spec.C18.days360 ⟨2020, 2, 28⟩ ⟨2020, 3, 28⟩ = 30 ∧
    d30360e ⟨2020, 2, 28⟩ ⟨2020, 3, 28⟩ true = .ok (28 / 360) ∧
    d30360e ⟨2020, 2, 28⟩ ⟨2020, 3, 28⟩ false = .ok (28 / 360) := by decide +kernel

/-- the guarded version that holds: no date is a 28 February (and no day is 29 … 31) -/
theorem yearfrac_30360_partial (a b : YMD) (ha : a.d ≤ 28 ∧ ¬ (a.m = 2 ∧ a.d = 28))
    (hb : b.d ≤ 28 ∧ ¬ (b.m = 2 ∧ b.d = 28))
    (hle : 0 ≤ Spec.C18.days360 (toSpec a) (toSpec b)) (matu : Bool) :
    d30360e a b matu = .ok ((Spec.C18.days360 (toSpec a) (toSpec b) : Rat) / 360) := by
  unfold Spec.C18.days360 toSpec at hle ⊢
  simp only [] at hle ⊢
  unfold d30360e
  have e2 : (if b.m = 2 ∧ b.d ≥ 28 then (if matu = true then b.d else 30) else (if b.d > 30 then 30 else b.d)) = b.d := by
    rw [if_neg (by omega), if_neg (by omega)]
  have e1 : (if a.m = 2 ∧ a.d ≥ 28 then (30 : Int) else (if a.d > 30 then 30 else a.d)) = a.d := by
    rw [if_neg (by omega), if_neg (by omega)]
  simp only [e1, e2]
  have e3 : 360 * (b.y - a.y) + 30 * (b.m - a.m) + b.d - a.d = 360 * (b.y - a.y) + 30 * (b.m - a.m) + (b.d - a.d) := by
    omega
  rw [e3, if_neg (by omega)]

/-- with `YEARFRAC_whole`: bases 0 and 4 on two serials none of which is a 28 February or a 29th-31st -/
theorem yearfrac_04_partial (n1 n2 : Int) (h1 : IsSerial n1) (h2 : IsSerial n2) (hle : n1 ≤ n2)
    (ha : (dateOf n1).d ≤ 28 ∧ ¬ ((dateOf n1).m = 2 ∧ (dateOf n1).d = 28))
    (hb : (dateOf n2).d ≤ 28 ∧ ¬ ((dateOf n2).m = 2 ∧ (dateOf n2).d = 28))
    (hpos : 0 ≤ Spec.C18.days360 (dateOf n1) (dateOf n2)) :
    YEARFRAC ⟨dayOf n1, 0⟩ ⟨dayOf n2, 0⟩ (.int 0) = .ok ((Spec.C18.days360 (dateOf n1) (dateOf n2) : Rat) / 360) ∧
    YEARFRAC ⟨dayOf n1, 0⟩ ⟨dayOf n2, 0⟩ (.int 4) = .ok ((Spec.C18.days360 (dateOf n1) (dateOf n2) : Rat) / 360) := by
  have w0 := (YEARFRAC_whole n1 n2 h1 h2 hle 0).1
  have w4 := (YEARFRAC_whole n1 n2 h1 h2 hle 4).1
  simp only [if_true] at w0
  simp only [show ¬ ((4 : Int) = 0) by decide, show ¬ ((4 : Int) = 1) by decide,
    show ¬ ((4 : Int) = 2) by decide, show ¬ ((4 : Int) = 3) by decide, if_false, if_true] at w4
  rw [w0, w4]
  exact ⟨yearfrac_30360_partial _ _ ha hb hpos true, yearfrac_30360_partial _ _ ha hb hpos false⟩

/-
  Basis 1 (actual/actual).  GOAL: `actAfb a b = .ok r` with `|r - Spec.C18.yearfrac1 a b| < 1/1000`
  for all dates a ≤ b of the date system.  FALSE (finding D1804): the code calls the AFB convention of
  the `yearfrac` package, which divides a period inside a leap year but after February by 365 where
  Excel's actual/actual divides by 366, and counts whole years where Excel averages year lengths.
  Kernel-checked counter-example: 2012-03-01 → 2012-12-31 is 305 days.
-/
theorem yearfrac_1_counterexample :
    actAfb ⟨2012, 3, 1⟩ ⟨2012, 12, 31⟩ = .ok (305 / 365) ∧
    Spec.C18.yearfrac1 ⟨2012, 3, 1⟩ ⟨2012, 12, 31⟩ = 305 / 366 ∧
    ((305 : Rat) / 365 - 305 / 366 > 1 / 1000) := by
  refine ⟨by decide +kernel, by decide +kernel, by norm_num⟩

/-- the guarded version that holds exactly: both dates in one common (non-leap) year -/
theorem yearfrac_1_partial (a b : YMD) (ha : Valid a) (hb : Valid b) (hy : a.y = b.y) (hl : ¬ Leap a.y)
    (hle : ordinal (toSpec a) < ordinal (toSpec b)) :
    actAfb a b = .ok (Spec.C18.yearfrac1 (toSpec a) (toSpec b)) := by
  have oa : ordinal (toSpec a) = daysFromCivil a - 305 := ordinal_eq a.y a.m a.d ha.1 ha.2.1
  have ob : ordinal (toSpec b) = daysFromCivil b - 305 := ordinal_eq b.y b.m b.d hb.1 hb.2.1
  have hy' : (toSpec a).y = (toSpec b).y := hy
  have hl' : ¬ Spec.C18.Leap (toSpec a).y := hl
  have hd : daysFromCivil b - daysFromCivil a = ordinal (toSpec b) - ordinal (toSpec a) := by omega
  unfold actAfb
  simp only [if_pos hy, hd]
  rw [if_neg (show ¬ (ordinal (toSpec b) - ordinal (toSpec a) < 0) by omega)]
  have hden : (if Leap a.y ∧ a.m < 3 then (366 : Rat) else 365) = 365 := if_neg (fun h => hl h.1)
  rw [hden]
  unfold Spec.C18.yearfrac1
  simp only []
  rw [if_neg (show ¬ (ordinal (toSpec b) - ordinal (toSpec a) = 0) by omega)]
  have hw : ((toSpec a).y = (toSpec b).y ∨ ((toSpec b).y = (toSpec a).y + 1 ∧
      ((toSpec a).m > (toSpec b).m ∨ ((toSpec a).m = (toSpec b).m ∧ (toSpec a).d ≥ (toSpec b).d)))) := Or.inl hy'
  rw [if_pos hw]
  simp only [if_pos hy']
  have hdec : decide (Spec.C18.Leap (toSpec a).y) = false := decide_eq_false hl'
  rw [hdec]
  simp

end XlVerif.Lemmas.C18Fn
