/-
  C18 — the arithmetic heart of ISOWEEKNUM: Python's `isocalendar` week (first Monday on or before
  the year's first Thursday, with the two year-boundary corrections) is the position of the week's
  Thursday among the Thursdays of its year.
-/
import Mathlib.Tactic.SplitIfs
namespace XlVerif.Lemmas.C18Iso

/-- `_isoweek1monday` as a function of the ordinal `j` of 1 January -/
def w1 (j : Int) : Int := if (j + 6) % 7 > 3 then j - (j + 6) % 7 + 7 else j - (j + 6) % 7

/-- `o` = ordinal of the day, `j0` / `jm` / `jp` = ordinals of 1 January of its year, the year before
    and the year after -/
theorem iso_arith (o jm j0 jp : Int) (h1 : j0 ≤ o) (h2 : o < jp)
    (h3 : jp - j0 = 365 ∨ jp - j0 = 366) (h4 : j0 - jm = 365 ∨ j0 - jm = 366) :
    (if (o - w1 j0) / 7 < 0 then (o - w1 jm) / 7 + 1
     else if (o - w1 j0) / 7 ≥ 52 ∧ o ≥ w1 jp then 1
     else (o - w1 j0) / 7 + 1)
    = (o + 4 - ((o - 1) % 7 + 1)
        - (if o + 4 - ((o - 1) % 7 + 1) < j0 then jm
           else if o + 4 - ((o - 1) % 7 + 1) ≥ jp then jp else j0)) / 7 + 1 := by
  unfold w1
  split_ifs <;> omega

end XlVerif.Lemmas.C18Iso
