/-
  C18 — facts about the reference calendar of `Spec.C18` (closed form vs. the definitional description)
  and its link to the model's civil calendar.
-/
import XlVerif.Lemmas.C18Cal
import XlVerif.Lemmas.C18SpecCal
import Mathlib.Tactic.SplitIfs
namespace XlVerif.Lemmas.C18Spec
open XlVerif XlVerif.Model.C18 XlVerif.Lemmas.C18Cal
open XlVerif.Spec.C18 (Date ordinal daysBeforeYear cumDays serialOf serialOfOrdinal nextDay)
open XlVerif.Lemmas.C18SpecCal

/-- the model's date record read as a date of the specification -/
def toSpec (c : YMD) : Date := ⟨c.y, c.m, c.d⟩

theorem leap_iff (y : Int) : Spec.C18.Leap y ↔ Model.C18.Leap y := Iff.rfl

theorem dim_eq (y m : Int) : Spec.C18.daysInMonth y m = Model.C18.daysInMonth y m := rfl

theorem valid_iff (c : YMD) : (toSpec c).Valid ↔ Valid c := Iff.rfl

/-- the closed form of the specification is the model's day count, shifted -/
theorem ordinal_eq (y m d : Int) (h1 : 1 ≤ m) (h12 : m ≤ 12) :
    ordinal ⟨y, m, d⟩ = daysFromCivil ⟨y, m, d⟩ - 305 := by
  unfold ordinal daysFromCivil daysBeforeYear cumDays Spec.C18.Leap
  simp only []
  have hcases : m = 1 ∨ m = 2 ∨ m = 3 ∨ m = 4 ∨ m = 5 ∨ m = 6 ∨ m = 7 ∨ m = 8 ∨ m = 9
      ∨ m = 10 ∨ m = 11 ∨ m = 12 := by omega
  rcases hcases with h | h | h | h | h | h | h | h | h | h | h | h <;> subst h <;> simp <;>
    (try split) <;> omega



/-- the civil date of a day count is a date of the reference calendar with that day number -/
theorem spec_of_civil (z : Int) :
    (toSpec (civilFromDays z)).Valid ∧ ordinal (toSpec (civilFromDays z)) = z - 305 := by
  have hv := civil_valid z
  refine ⟨hv, ?_⟩
  have := ordinal_eq (civilFromDays z).y (civilFromDays z).m (civilFromDays z).d hv.1 hv.2.1
  unfold toSpec
  rw [this, days_civil]

/-- and every date of the reference calendar is the civil date of its day number -/
theorem civil_of_spec (c : Date) (hv : c.Valid) : civilFromDays (ordinal c + 305) = ⟨c.y, c.m, c.d⟩ := by
  obtain ⟨y, m, d⟩ := c
  have := ordinal_eq y m d hv.1 hv.2.1
  rw [this]
  have e : daysFromCivil ⟨y, m, d⟩ - 305 + 305 = daysFromCivil ⟨y, m, d⟩ := by omega
  rw [e]
  exact civil_days ⟨y, m, d⟩ hv

-- ---------------------------------------------------------------- evaluating the model on whole days

theorem toRat_int (n : Int) : (Num.int n).toRat = (n : Rat) := rfl

theorem numberToDatetime_int (n : Int) :
    numberToDatetime (.int n) = mkDT (n - (if n ≥ 60 then 2 else 1)) 0 := by
  unfold numberToDatetime
  simp only [toRat_int, pyInt, Rat.floor_intCast, Rat.sub_self, Rat.zero_mul]
  have : ((n : Rat) ≥ 60) ↔ n ≥ 60 := by
    have : (60 : Rat) = ((60 : Int) : Rat) := rfl
    rw [ge_iff_le, ge_iff_le, this, Rat.intCast_le_intCast]
  simp only [this]

theorem datetimeToNumber_whole (d : Int) :
    datetimeToNumber ⟨d, 0⟩ = ((d + (if d > 58 then 2 else 1) : Int) : Rat) := by
  unfold datetimeToNumber
  have h0 : (0 : Rat).floor = 0 := Rat.floor_intCast 0
  simp only [h0]
  have : ((0 : Int) : Rat) / 24 * 60 * 60 = 0 := by
    rw [Rat.div_def]; simp
  rw [this, Rat.add_zero]

theorem pyInt_flt_int (k : Int) : pyInt (.flt (k : Rat)) = k := by
  unfold pyInt
  simp only []
  by_cases h : (k : Rat) < 0
  · rw [if_pos h]
    have : -(k : Rat) = ((-k : Int) : Rat) := by simp
    rw [this, Rat.floor_intCast]; omega
  · rw [if_neg h, Rat.floor_intCast]

theorem dtInt_whole (d : Int) : dtInt ⟨d, 0⟩ = d + (if d > 58 then 2 else 1) := by
  unfold dtInt; rw [datetimeToNumber_whole, pyInt_flt_int]

theorem numberToDatetime_flt_int (k : Int) : numberToDatetime (.flt (k : Rat)) = numberToDatetime (.int k) := by
  unfold numberToDatetime
  rw [pyInt_flt_int]
  rfl


/-- relativedelta's sign–magnitude month carry is the floor-division carry of the specification -/
theorem carryYM_eq (y m years months : Int) (h1 : 1 ≤ m) (h12 : m ≤ 12) :
    carryYM y m years months = Spec.C18.monthShift (y + years) m months := by
  unfold carryYM fixMonths Spec.C18.monthShift
  simp only []
  split_ifs <;> (apply Prod.ext <;> simp only [] <;> omega)

end XlVerif.Lemmas.C18Spec
