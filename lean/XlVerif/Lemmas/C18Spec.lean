/-
  C18 — facts about the reference calendar of `Spec.C18` (closed form vs. the definitional description)
  and its link to the model's civil calendar.
-/
import XlVerif.Lemmas.C18Cal
import XlVerif.Spec.C18
namespace XlVerif.Lemmas.C18Spec
open XlVerif XlVerif.Model.C18 XlVerif.Lemmas.C18Cal
open XlVerif.Spec.C18 (Date ordinal daysBeforeYear cumDays serialOf serialOfOrdinal nextDay)

/-- the model's date record read as a date of the specification -/
def toSpec (c : YMD) : Date := ⟨c.y, c.m, c.d⟩

theorem leap_iff (y : Int) : Spec.C18.Leap y ↔ Model.C18.Leap y := Iff.rfl

theorem dim_eq (y m : Int) : Spec.C18.daysInMonth y m = Model.C18.daysInMonth y m := rfl

theorem valid_iff (c : YMD) : (toSpec c).Valid ↔ Valid c := Iff.rfl

/-- the year lengths -/
theorem dby_step (y : Int) :
    daysBeforeYear (y + 1) - daysBeforeYear y = if Spec.C18.Leap y then 366 else 365 := by
  unfold daysBeforeYear Spec.C18.Leap
  split <;> omega

theorem dby_mono (u v : Int) (h : u ≤ v) : daysBeforeYear u + 365 * (v - u) ≤ daysBeforeYear v := by
  unfold daysBeforeYear; omega

/-- the closed form of the specification is the model's day count, shifted -/
theorem ordinal_eq (y m d : Int) (h1 : 1 ≤ m) (h12 : m ≤ 12) :
    ordinal ⟨y, m, d⟩ = daysFromCivil ⟨y, m, d⟩ - 305 := by
  unfold ordinal daysFromCivil daysBeforeYear cumDays Spec.C18.Leap
  simp only []
  have hcases : m = 1 ∨ m = 2 ∨ m = 3 ∨ m = 4 ∨ m = 5 ∨ m = 6 ∨ m = 7 ∨ m = 8 ∨ m = 9
      ∨ m = 10 ∨ m = 11 ∨ m = 12 := by omega
  rcases hcases with h | h | h | h | h | h | h | h | h | h | h | h <;> subst h <;> simp <;>
    (try split) <;> omega

end XlVerif.Lemmas.C18Spec
