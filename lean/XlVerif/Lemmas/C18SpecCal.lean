/-
  C18 — facts about the reference calendar of `Spec.C18` alone: the closed forms `ordinal` / `serialOf`
  satisfy the definitional description (year lengths, the day after a date, calendar order).
-/
import XlVerif.Spec.C18
namespace XlVerif.Lemmas.C18SpecCal
open XlVerif XlVerif.Spec.C18

/-- the year lengths -/
theorem dby_step (y : Int) :
    daysBeforeYear (y + 1) - daysBeforeYear y = if Leap y then 366 else 365 := by
  unfold daysBeforeYear Leap
  split <;> omega

theorem dby_mono (u v : Int) (h : u ≤ v) : daysBeforeYear u + 365 * (v - u) ≤ daysBeforeYear v := by
  unfold daysBeforeYear; omega


/-- a date lies inside its year -/
theorem ordinal_bounds (c : Date) (hv : c.Valid) :
    daysBeforeYear c.y + 1 ≤ ordinal c ∧ ordinal c ≤ daysBeforeYear (c.y + 1) := by
  obtain ⟨y, m, d⟩ := c
  have hst := dby_step y
  unfold Date.Valid daysInMonth at hv
  simp only [] at hv
  obtain ⟨h1, h12, hd1, hdm⟩ := hv
  unfold ordinal cumDays
  simp only []
  have hcases : m = 1 ∨ m = 2 ∨ m = 3 ∨ m = 4 ∨ m = 5 ∨ m = 6 ∨ m = 7 ∨ m = 8 ∨ m = 9
      ∨ m = 10 ∨ m = 11 ∨ m = 12 := by omega
  rcases hcases with h | h | h | h | h | h | h | h | h | h | h | h <;> subst h <;>
    simp at hdm ⊢ <;> split at hst <;> simp_all <;> omega

/-- leap-day adjustment of `ordinal` -/
def adj (y m : Int) : Int := if m > 2 ∧ Leap y then 1 else 0

theorem ordinal_def (y m d : Int) : ordinal ⟨y, m, d⟩ = daysBeforeYear y + cumDays m + adj y m + d := rfl

theorem dim_pos (y m : Int) : 28 ≤ daysInMonth y m ∧ daysInMonth y m ≤ 31 := by
  unfold daysInMonth; split <;> (try split) <;> omega

theorem cum_step (y m : Int) (h1 : 1 ≤ m) (h11 : m ≤ 11) :
    cumDays (m + 1) + adj y (m + 1) = cumDays m + adj y m + daysInMonth y m := by
  have hcases : m = 1 ∨ m = 2 ∨ m = 3 ∨ m = 4 ∨ m = 5 ∨ m = 6 ∨ m = 7 ∨ m = 8 ∨ m = 9
      ∨ m = 10 ∨ m = 11 := by omega
  rcases hcases with h | h | h | h | h | h | h | h | h | h | h <;> subst h <;>
    simp [cumDays, adj, daysInMonth] <;> (try split) <;> omega

theorem cum_last (y : Int) : cumDays 12 + adj y 12 + daysInMonth y 12 = daysBeforeYear (y + 1) - daysBeforeYear y := by
  have := dby_step y
  simp [cumDays, adj, daysInMonth]
  split at this <;> simp_all <;> omega

/-- the day after a date of the calendar is a date of the calendar, one day later -/
theorem nextDay_spec (c : Date) (hv : c.Valid) :
    (nextDay c).Valid ∧ ordinal (nextDay c) = ordinal c + 1 := by
  obtain ⟨y, m, d⟩ := c
  obtain ⟨h1, h12, hd1, hdm⟩ := hv
  simp only [] at h1 h12 hd1 hdm
  unfold nextDay
  simp only []
  by_cases hA : d < daysInMonth y m
  · rw [if_pos hA]
    refine ⟨⟨h1, h12, by simp only []; omega, by simp only []; omega⟩, ?_⟩
    rw [ordinal_def, ordinal_def]; omega
  · rw [if_neg hA]
    by_cases hB : m < 12
    · rw [if_pos hB]
      have hp := dim_pos y (m + 1)
      refine ⟨⟨by simp only []; omega, by simp only []; omega, by simp only []; omega, by simp only []; omega⟩, ?_⟩
      rw [ordinal_def, ordinal_def]
      have := cum_step y m h1 (by omega)
      omega
    · rw [if_neg hB]
      have hm : m = 12 := by omega
      subst hm
      have hp := dim_pos (y + 1) 1
      refine ⟨⟨by simp only []; omega, by simp only []; omega, by simp only []; omega, by simp only []; omega⟩, ?_⟩
      rw [ordinal_def, ordinal_def]
      have := cum_last y
      have e : cumDays 1 + adj (y + 1) 1 = 0 := by simp [cumDays, adj]
      omega


theorem cum_bounds (m : Int) (h1 : 1 ≤ m) (h12 : m ≤ 12) :
    30 * (m - 1) - 1 ≤ cumDays m ∧ cumDays m ≤ 31 * (m - 1) := by
  have hcases : m = 1 ∨ m = 2 ∨ m = 3 ∨ m = 4 ∨ m = 5 ∨ m = 6 ∨ m = 7 ∨ m = 8 ∨ m = 9
      ∨ m = 10 ∨ m = 11 ∨ m = 12 := by omega
  rcases hcases with h | h | h | h | h | h | h | h | h | h | h | h <;> subst h <;> simp [cumDays]

theorem adj_range (y m : Int) : 0 ≤ adj y m ∧ adj y m ≤ 1 := by unfold adj; split <;> omega

/-- calendar order is the order of day numbers -/
theorem ordinal_lt (a b : Date) (ha : a.Valid) (hb : b.Valid) (h : a.lt b) : ordinal a < ordinal b := by
  have hba := ordinal_bounds a ha
  have hbb := ordinal_bounds b hb
  obtain ⟨y, m, d⟩ := a
  obtain ⟨y', m', d'⟩ := b
  obtain ⟨h1, h12, hd1, hdm⟩ := ha
  obtain ⟨h1', h12', hd1', hdm'⟩ := hb
  simp only [] at h1 h12 hd1 hdm h1' h12' hd1' hdm' hba hbb
  unfold Date.lt at h
  simp only [] at h
  rcases h with h | ⟨rfl, h | ⟨rfl, h⟩⟩
  · have := dby_mono (y + 1) y' (by omega)
    omega
  · rw [ordinal_def, ordinal_def]
    have hs := cum_step y m h1 (by omega)
    have hb1 := cum_bounds (m + 1) (by omega) (by omega)
    have hb2 := cum_bounds m' h1' h12'
    have ha1 := adj_range y (m + 1)
    have ha2 := adj_range y m'
    by_cases he : m + 1 = m'
    · subst he; omega
    · omega
  · rw [ordinal_def, ordinal_def]; omega

theorem serialOfOrdinal_lt (o o' : Int) (h : o < o') : serialOfOrdinal o < serialOfOrdinal o' := by
  unfold serialOfOrdinal; simp only []; split <;> split <;> omega

/-- the serial is strictly increasing along the calendar: no two dates share a serial -/
theorem serialOf_lt (a b : Date) (ha : a.Valid) (hb : b.Valid) (h : a.lt b) : serialOf a < serialOf b :=
  serialOfOrdinal_lt _ _ (ordinal_lt a b ha hb h)

theorem lt_trichotomy (a b : Date) : a.lt b ∨ a = b ∨ b.lt a := by
  obtain ⟨y, m, d⟩ := a
  obtain ⟨y', m', d'⟩ := b
  unfold Date.lt
  simp only [Date.mk.injEq]
  omega

theorem serialOf_injective (a b : Date) (ha : a.Valid) (hb : b.Valid) (h : serialOf a = serialOf b) :
    a = b := by
  rcases lt_trichotomy a b with h' | h' | h'
  · have := serialOf_lt a b ha hb h'; omega
  · exact h'
  · have := serialOf_lt b a hb ha h'; omega

end XlVerif.Lemmas.C18SpecCal
