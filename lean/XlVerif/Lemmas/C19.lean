/-
  Helper lemmas for C19 (pure arithmetic over the digit functions; no generated table is mentioned):
  Python's digit printing (`Nat.toDigits`) against the fixed-width reference digits, the positional
  value of digit strings, `int(str, base)` as a Horner fold, and the sign-bit mask arithmetic.
-/
import XlVerif.Model.C19
import XlVerif.Spec.C19
namespace XlVerif.Lemmas.C19
open XlVerif XlVerif.Model.C19 XlVerif.Spec.C19

/-! ### characters -/

theorem upper_digitChar : ∀ d, d < 16 → upperChar (Nat.digitChar d) = digitCh d := by decide
theorem dec_digitChar : ∀ d, d < 10 → Nat.digitChar d = digitCh d := by decide
theorem digitCh_zero_iff : ∀ d, d < 16 → (digitCh d = '0' ↔ d = 0) := by decide
theorem digitValue_digitCh : ∀ d, d < 16 → digitValue (digitCh d) = d := by decide

/-! ### leading zeros -/

/-- drop leading zeros -/
abbrev D (s : List Char) : List Char := s.dropWhile (· = '0')

theorem stripZeros_eq (s : List Char) :
    stripZeros s = if (D s).isEmpty then ['0'] else D s := rfl

theorem D_replicate_append (n : Nat) (ys : List Char) : D (List.replicate n '0' ++ ys) = D ys := by
  induction n with
  | zero => simp
  | succ n ih => simp [List.replicate_succ, D] at ih ⊢

theorem fixed_zero (b k : Nat) : fixed b k 0 = List.replicate k '0' := by
  induction k with
  | zero => rfl
  | succ k ih =>
    simp only [fixed, Nat.zero_div, Nat.zero_mod, ih]
    rw [List.replicate_succ']; rfl

theorem length_fixed (b k v : Nat) : (fixed b k v).length = k := by
  induction k generalizing v with
  | zero => rfl
  | succ k ih => simp [fixed, ih]

/-- Python's digits of a positive number are the fixed-width digits without the leading zeros
    (`g` is the case mapping applied to Python's lower-case digits). -/
theorem toDigits_eq_D_fixed (g : Char → Char) (b : Nat) (hb : 2 ≤ b) (hb16 : b ≤ 16)
    (hg : ∀ d, d < b → g (Nat.digitChar d) = digitCh d) :
    ∀ (k v : Nat), 1 ≤ v → v < b ^ k → (Nat.toDigits b v).map g = D (fixed b k v) := by
  intro k
  induction k with
  | zero => intro v h1 h2; simp at h2; omega
  | succ k ih =>
    intro v h1 h2
    have hmod : v % b < b := Nat.mod_lt _ (by omega)
    rw [Nat.toDigits_eq_if (by omega)]
    simp only [fixed]
    by_cases hv : v < b
    · have hdiv : v / b = 0 := Nat.div_eq_of_lt hv
      have hm : v % b = v := Nat.mod_eq_of_lt hv
      rw [if_pos hv, hdiv, fixed_zero, D_replicate_append, hm]
      have hne : digitCh v ≠ '0' := by
        intro h; have := (digitCh_zero_iff v (by omega)).1 h; omega
      simp [D, List.dropWhile, hne, hg v hv]
    · rw [if_neg hv]
      have hdiv1 : 1 ≤ v / b := (Nat.le_div_iff_mul_le (by omega)).2 (by omega)
      have hdivlt : v / b < b ^ k := by
        apply Nat.div_lt_of_lt_mul
        rw [Nat.pow_succ, Nat.mul_comm] at h2; exact h2
      have h := ih (v / b) hdiv1 hdivlt
      have hne : D (fixed b k (v / b)) ≠ [] := by
        rw [← h]; simp
      rw [List.map_append, h, List.map_singleton, hg _ hmod]
      show _ = List.dropWhile _ (_ ++ _)
      rw [List.dropWhile_append]
      have : (List.dropWhile (fun x => decide (x = '0')) (fixed b k (v / b))).isEmpty = false := by
        cases hh : List.dropWhile (fun x => decide (x = '0')) (fixed b k (v / b)) with
        | nil => exact absurd hh hne
        | cons _ _ => rfl
      simp [this]

theorem toDigits_zero_map (g : Char → Char) (b : Nat) (hg : g '0' = '0') :
    (Nat.toDigits b 0).map g = ['0'] := by
  simp [Nat.toDigits_zero, hg]

theorem stripZeros_fixed_zero (b k : Nat) : stripZeros (fixed b k 0) = ['0'] := by
  have : D (fixed b k 0) = [] := by
    rw [fixed_zero]; simp [D]
  rw [stripZeros_eq, this]; rfl

/-- Python's digits of any number below `b^k` (k ≥ 1) are the reference digits. -/
theorem toDigits_eq_stripZeros (g : Char → Char) (b : Nat) (hb : 2 ≤ b) (hb16 : b ≤ 16)
    (hg : ∀ d, d < b → g (Nat.digitChar d) = digitCh d) (k v : Nat) (hv : v < b ^ k) :
    (Nat.toDigits b v).map g = stripZeros (fixed b k v) := by
  by_cases h0 : v = 0
  · subst h0
    rw [stripZeros_fixed_zero]
    have := hg 0 (by omega)
    simp [Nat.toDigits_zero] 
    exact this
  · have h := toDigits_eq_D_fixed g b hb hb16 hg k v (by omega) hv
    have : ((Nat.toDigits b v).map g).isEmpty = false := by
      cases hh : Nat.toDigits b v with
      | nil => exact absurd hh (by simp)
      | cons _ _ => rfl
    rw [stripZeros_eq, ← h, this]; rfl

/-! ### positional value -/

theorem positional_append (b : Nat) (xs : List Char) (c : Char) :
    positional b (xs ++ [c]) = positional b xs * b + digitValue c := by
  induction xs with
  | nil => simp [positional]
  | cons x xs ih =>
    simp only [List.cons_append, positional, ih, List.length_append, List.length_singleton,
      Nat.pow_succ]
    rw [Nat.add_mul, Nat.mul_assoc, Nat.add_assoc]

theorem positional_fixed (b : Nat) (hb : 1 ≤ b) (hb16 : b ≤ 16) :
    ∀ (k v : Nat), v < b ^ k → positional b (fixed b k v) = v := by
  intro k
  induction k with
  | zero => intro v hv; simp at hv; subst hv; rfl
  | succ k ih =>
    intro v hv
    have hmod : v % b < b := Nat.mod_lt _ (by omega)
    have hdivlt : v / b < b ^ k := by
      apply Nat.div_lt_of_lt_mul
      rw [Nat.pow_succ, Nat.mul_comm] at hv; exact hv
    simp only [fixed]
    rw [positional_append, ih _ hdivlt, digitValue_digitCh _ (by omega)]
    exact Nat.div_add_mod' v b

theorem positional_D (b : Nat) (s : List Char) : positional b (D s) = positional b s := by
  induction s with
  | nil => rfl
  | cons c s ih =>
    by_cases hc : c = '0'
    · subst hc
      have : D ('0' :: s) = D s := by simp [D, List.dropWhile]
      rw [this, ih]
      have : digitValue '0' = 0 := by decide
      simp [positional, this]
    · have : D (c :: s) = c :: s := by simp [D, List.dropWhile, hc]
      rw [this]

theorem positional_stripZeros (b : Nat) (s : List Char) :
    positional b (stripZeros s) = positional b s := by
  rw [stripZeros_eq]
  split
  · rename_i h
    have h' : D s = [] := by simpa using h
    rw [← positional_D b s, h']
    have : digitValue '0' = 0 := by decide
    simp [positional, this]
  · exact positional_D b s

theorem mem_fixed (b : Nat) (hb : 1 ≤ b) (c : Char) :
    ∀ (k v : Nat), c ∈ fixed b k v → ∃ d, d < b ∧ c = digitCh d := by
  intro k
  induction k with
  | zero => intro v h; simp [fixed] at h
  | succ k ih =>
    intro v h
    simp only [fixed, List.mem_append, List.mem_singleton] at h
    rcases h with h | h
    · exact ih _ h
    · exact ⟨v % b, Nat.mod_lt _ (by omega), h⟩

theorem D_suffix (s : List Char) : D s <:+ s := List.dropWhile_suffix _

theorem mem_stripZeros {c : Char} {s : List Char} (h : c ∈ stripZeros s) : c = '0' ∨ c ∈ s := by
  rw [stripZeros_eq] at h
  split at h
  · left; simpa using h
  · right; exact (D_suffix s).subset h

theorem length_stripZeros_pos (s : List Char) : 1 ≤ (stripZeros s).length := by
  rw [stripZeros_eq]
  split
  · simp
  · rename_i h
    cases hh : D s with
    | nil => simp [hh] at h
    | cons _ _ => simp

theorem length_stripZeros_le (s : List Char) (hs : 1 ≤ s.length) :
    (stripZeros s).length ≤ s.length := by
  rw [stripZeros_eq]
  split
  · simpa using hs
  · exact (D_suffix s).length_le

theorem stripZeros_ne_nil (s : List Char) : stripZeros s ≠ [] := by
  intro h; have := length_stripZeros_pos s; rw [h] at this; simp at this

/-- a string whose leading-zero-free part has full length has no leading zero -/
theorem D_eq_self_of_length {s : List Char} (h : (D s).length = s.length) : D s = s :=
  (D_suffix s).eq_of_length h

/-! ### `int(str, base)` is the positional value -/

theorem intBaseFold_eq (b : Nat) (s : List Char)
    (hs : ∀ c ∈ s, charDigit c = some (digitValue c) ∧ digitValue c < b) :
    ∀ acc, intBaseFold b s acc = some (acc * b ^ s.length + positional b s) := by
  induction s with
  | nil => intro acc; simp [intBaseFold, positional]
  | cons c s ih =>
    intro acc
    have ⟨h1, h2⟩ := hs c (by simp)
    have ih' := ih (fun c hc => hs c (by simp [hc]))
    simp only [intBaseFold, intBaseStep, h1, h2, if_true, ih', positional, List.length_cons,
      Nat.pow_succ]
    congr 1
    rw [Nat.add_mul, Nat.mul_assoc, Nat.add_assoc, Nat.mul_comm (b ^ s.length) b]

theorem positional_lt (b : Nat) (_hb : 1 ≤ b) (s : List Char) (hs : ∀ c ∈ s, digitValue c < b) :
    positional b s < b ^ s.length := by
  induction s with
  | nil => simp [positional]
  | cons c s ih =>
    have h1 := hs c (by simp)
    have ih' := ih (fun c hc => hs c (by simp [hc]))
    simp only [positional, List.length_cons, Nat.pow_succ]
    have : (digitValue c + 1) * b ^ s.length ≤ b * b ^ s.length :=
      Nat.mul_le_mul_right _ (by omega)
    rw [Nat.add_mul, Nat.one_mul] at this
    rw [Nat.mul_comm (b ^ s.length) b]
    omega

/-! ### the sign-bit mask -/

theorem and_two_pow (a k : Nat) (h : a < 2 ^ (k + 1)) :
    a &&& 2 ^ k = if 2 ^ k ≤ a then 2 ^ k else 0 := by
  have hp : 0 < 2 ^ k := Nat.two_pow_pos k
  have h1 : (a &&& 2 ^ k) % 2 ^ k = 0 := by
    rw [Nat.and_mod_two_pow]; simp
  have h2 : (a &&& 2 ^ k) / 2 ^ k = a / 2 ^ k % 2 := by
    rw [Nat.and_div_two_pow, Nat.div_self hp, Nat.and_one_is_mod]
  have h3 := Nat.div_add_mod (a &&& 2 ^ k) (2 ^ k)
  rw [h1, h2] at h3
  have hlt : a / 2 ^ k < 2 := by
    apply Nat.div_lt_of_lt_mul; rw [Nat.pow_succ] at h; exact h
  by_cases hle : 2 ^ k ≤ a
  · have : 1 ≤ a / 2 ^ k := (Nat.le_div_iff_mul_le hp).2 (by omega)
    have e : a / 2 ^ k % 2 = 1 := by omega
    rw [e] at h3; simp [hle]; omega
  · have : a / 2 ^ k = 0 := Nat.div_eq_of_lt (by omega)
    rw [this] at h3; simp [hle]; omega

/-- `(a & ~mask) - (a & mask)` with `mask = 2^k` reads a `(k+1)`-bit pattern as a signed number. -/
theorem mask_value (a k : Nat) (h : a < 2 ^ (k + 1)) :
    pyAnd (Int.ofNat a) (~~~(Int.ofNat (2 ^ k))) - pyAnd (Int.ofNat a) (Int.ofNat (2 ^ k))
      = if 2 ^ k ≤ a then (a : Int) - (2 ^ (k + 1) : Nat) else (a : Int) := by
  have e : (~~~(Int.ofNat (2 ^ k)) : Int) = Int.negSucc (2 ^ k) := rfl
  rw [e]
  simp only [pyAnd, natAndNot, and_two_pow a k h]
  have hp : 2 ^ (k + 1) = 2 ^ k + 2 ^ k := by rw [Nat.pow_succ]; omega
  by_cases hle : 2 ^ k ≤ a
  · simp only [hle, if_true, hp]
    have : Int.ofNat (a - 2 ^ k) = (a : Int) - (2 ^ k : Nat) := Int.ofNat_sub hle
    rw [this]; clear e this
    show (a : Int) - ((2 ^ k : Nat) : Int) - ((2 ^ k : Nat) : Int) = _
    omega
  · simp [hle]

/-! ### names, and the boolean form of "meets the reference semantics" -/

/-- names of the twelve functions -/
def tag : Radix → List Char
  | .bin => ['B', 'I', 'N'] | .oct => ['O', 'C', 'T'] | .hex => ['H', 'E', 'X']
def DEC : List Char := ['D', 'E', 'C']
/-- `DEC2BIN`, `DEC2OCT`, `DEC2HEX` -/
def dec2 (r : Radix) : List Char := DEC ++ '2' :: tag r
/-- `BIN2DEC`, `OCT2DEC`, `HEX2DEC` -/
def toDec (r : Radix) : List Char := tag r ++ '2' :: DEC
/-- `BIN2OCT`, … -/
def cross (r r' : Radix) : List Char := tag r ++ '2' :: tag r'

/-- integers as arguments -/
abbrev I (z : Int) : S := .num (.int z)
abbrev T (s : List Char) : S := .text s

/-- the outcome `r` is what the statement demands -/
def Meets : Want → Res S → Prop
  | .val v, r => r = .ok v
  | .err c, r => r = .err c
  | .anyErr, r => r = .err .num ∨ r = .err .value
  | .silent, _ => True


/-- boolean form of `Meets`; a silent Spec counts as failure, so a decision by evaluation is not
    vacuous -/
def meetsB (w : Want) (r : Res S) : Bool :=
  match w with
  | .val v => decide (r = .ok v)
  | .err c => decide (r = .err c)
  | .anyErr => decide (r = .err .num) || decide (r = .err .value)
  | .silent => false

def BIN : Radix := .bin

/-- integers `lo … lo+len−1` × places omitted and 1…10 through the model of DEC2BIN -/
def windowChunk (lo : Int) (len : Nat) : Bool :=
  (List.range len).all fun i =>
    let n : Int := (i : Int) + lo
    meetsB (want (dec2 BIN) (I n) none) (call (dec2 BIN) (I n) none) &&
    (List.range 10).all fun j =>
      let k : Int := (j : Int) + 1
      meetsB (want (dec2 BIN) (I n) (some (I k))) (call (dec2 BIN) (I n) (some (I k)))

/-- four integers beyond each edge of the window, and the places values −1, 0, 11, 12 on the edges -/
def windowEdges : Bool :=
  ([-516, -515, -514, -513, 512, 513, 514, 515] : List Int).all (fun n =>
    meetsB (want (dec2 BIN) (I n) none) (call (dec2 BIN) (I n) none) &&
    meetsB (want (dec2 BIN) (I n) (some (I 10))) (call (dec2 BIN) (I n) (some (I 10)))) &&
  ([-512, -1, 0, 1, 511] : List Int).all (fun n =>
    ([-1, 0, 11, 12] : List Int).all fun k =>
      meetsB (want (dec2 BIN) (I n) (some (I k))) (call (dec2 BIN) (I n) (some (I k))))

/-- BIN2DEC(DEC2BIN(n)) = n on the whole window -/
def windowRoundtrip : Bool :=
  (List.range 1024).all fun i =>
    let n : Int := (i : Int) - 512
    match call (dec2 BIN) (I n) none with
    | .ok (.text s) => decide (call (toDec BIN) (T s) none = .ok (I n))
    | _ => false

end XlVerif.Lemmas.C19
