/-
  C19: the whole binary window decided by kernel evaluation (`decide +kernel`): the model of DEC2BIN
  against the reference semantics for every integer −512…511 × places omitted / 1…10, the window
  edges, and the round trip through BIN2DEC.  Kept in its own file because it takes ≈ 40 s; it is
  rebuilt only when the generated tables, the model or the Spec change.
-/
import XlVerif.Lemmas.C19
namespace XlVerif.Lemmas.C19

theorem window_ok : windowChunk (-512) 1024 = true := by decide +kernel
theorem window_edges_ok : windowEdges = true := by decide +kernel
theorem window_roundtrip_ok : windowRoundtrip = true := by decide +kernel

end XlVerif.Lemmas.C19
