/-
  Helper lemmas for C20.

  1. `pySum`, the geometric sum and the closed form of the annuity recursion `Spec.C20.balance` (over ℚ).
  2. The discounted sum `Σ cᵢ/(1+r)^(k+i)` over an *arbitrary* linearly ordered field `K` (`pvFromK`),
     its monotonicity in the rate, and the cast `ℚ → K`.  The internal rate of return of rational cash
     flows is in general irrational, so the uniqueness statement is proved for roots in any ordered
     field (ℝ in particular), while the certificate (two signs) is evaluated in ℚ.
-/
import XlVerif.Model.C20
import XlVerif.Spec.C20
import Mathlib.Tactic.FieldSimp
import Mathlib.Tactic.Ring
import Mathlib.Tactic.Linarith
import Mathlib.Tactic.Positivity
import Mathlib.Algebra.Order.Field.Basic
import Mathlib.Algebra.Order.Field.Rat
import Mathlib.Data.Rat.Cast.Order

namespace XlVerif.Lemmas.C20
open XlVerif XlVerif.Model.C20 XlVerif.Spec.C20

/-! ### Python `sum` -/

theorem foldl_add (l : List ℚ) (a : ℚ) : l.foldl (· + ·) a = a + l.foldl (· + ·) 0 := by
  induction l generalizing a with
  | nil => simp
  | cons x xs ih => simp only [List.foldl_cons]; rw [ih (a + x), ih (0 + x)]; ring

@[simp] theorem pySum_nil : pySum [] = 0 := rfl

@[simp] theorem pySum_cons (x : ℚ) (l : List ℚ) : pySum (x :: l) = x + pySum l := by
  unfold pySum; simp only [List.foldl_cons]; rw [foldl_add]; ring

theorem pySum_eq_sum (l : List ℚ) : pySum l = l.sum := by
  induction l with
  | nil => rfl
  | cons x xs ih => simp [ih]

/-! ### geometric sum and the annuity recursion -/

/-- `Σ_{k<n} x^k` -/
def geom (x : ℚ) : Nat → ℚ
  | 0 => 0
  | n + 1 => geom x n + x ^ n

theorem geom_mul (x : ℚ) (n : Nat) : geom x n * (x - 1) = x ^ n - 1 := by
  induction n with
  | zero => simp [geom]
  | succ n ih => simp only [geom, add_mul, ih, pow_succ]; ring

theorem geom_one (n : Nat) : geom 1 n = n := by
  induction n with
  | zero => simp [geom]
  | succ n ih => simp only [geom, ih, one_pow]; push_cast; ring

theorem geom_pos (x : ℚ) (hx : 0 < x) (n : Nat) (hn : 0 < n) : 0 < geom x n := by
  induction n with
  | zero => omega
  | succ n ih =>
    simp only [geom]
    have : 0 < x ^ n := pow_pos hx n
    rcases Nat.eq_zero_or_pos n with h | h
    · subst h; simp [geom]
    · linarith [ih h]

/-- closed form of the account recursion: `b·x^n + pmt·s·Σ_{k<n} x^k`, `x = 1+r`, `s = x` for payments
    at the beginning of the period and `1` for payments at the end. -/
theorem balance_eq (r pmt : ℚ) (w : Bool) (n : Nat) (b : ℚ) :
    balance r pmt w n b
      = b * (1 + r) ^ n + pmt * (if w then 1 + r else 1) * geom (1 + r) n := by
  induction n generalizing b with
  | zero => simp [balance, geom]
  | succ n ih =>
    simp only [balance, geom, ih]
    cases w <;> simp only [Bool.false_eq_true, if_true, if_false] <;> ring

/-! ### discounted sums over an ordered field -/

section field
variable {K : Type*} [Field K] [LinearOrder K] [IsStrictOrderedRing K]

/-- `Σ_i c_i / (1+r)^(k+i)` over `K` -/
def pvFromK (r : K) : Nat → List K → K
  | _, [] => 0
  | k, c :: cs => c / (1 + r) ^ k + pvFromK r (k + 1) cs

theorem pvFromK_anti {r s : K} (hr : -1 < r) (hrs : r ≤ s) (cs : List K) (hnn : ∀ c ∈ cs, 0 ≤ c)
    (k : Nat) : pvFromK s k cs ≤ pvFromK r k cs := by
  induction cs generalizing k with
  | nil => simp [pvFromK]
  | cons c cs ih =>
    simp only [pvFromK]
    have h1 : 0 < 1 + r := by linarith
    have hc : 0 ≤ c := hnn c (by simp)
    have hp : (1 + r) ^ k ≤ (1 + s) ^ k := pow_le_pow_left₀ h1.le (by linarith) k
    have : c / (1 + s) ^ k ≤ c / (1 + r) ^ k := div_le_div_of_nonneg_left hc (pow_pos h1 k) hp
    have := ih (fun c hc => hnn c (by simp [hc])) (k + 1)
    linarith

theorem pvFromK_strictAnti {r s : K} (hr : -1 < r) (hrs : r < s) (cs : List K) (hnn : ∀ c ∈ cs, 0 ≤ c)
    (hpos : ∃ c ∈ cs, 0 < c) (k : Nat) (hk : 0 < k) : pvFromK s k cs < pvFromK r k cs := by
  induction cs generalizing k with
  | nil => simp at hpos
  | cons c cs ih =>
    simp only [pvFromK]
    have h1 : 0 < 1 + r := by linarith
    have hc : 0 ≤ c := hnn c (by simp)
    have hnn' : ∀ c ∈ cs, 0 ≤ c := fun c hc => hnn c (by simp [hc])
    have hp : (1 + r) ^ k < (1 + s) ^ k := pow_lt_pow_left₀ (by linarith) h1.le (by omega)
    obtain ⟨d, hd, hd0⟩ := hpos
    rcases List.mem_cons.mp hd with rfl | hmem
    · have h2 : d / (1 + s) ^ k < d / (1 + r) ^ k := div_lt_div_of_pos_left hd0 (pow_pos h1 k) hp
      have := pvFromK_anti hr hrs.le cs hnn' (k + 1)
      linarith
    · have h2 : c / (1 + s) ^ k ≤ c / (1 + r) ^ k :=
        div_le_div_of_nonneg_left hc (pow_pos h1 k) hp.le
      have := ih hnn' ⟨d, hmem, hd0⟩ (k + 1) (by omega)
      linarith

omit [LinearOrder K] [IsStrictOrderedRing K] in
/-- multiplying the discount index: `pvFromK r (k+1) cs = pvFromK r k cs / (1+r)` -/
theorem pvFromK_succ {r : K} (hr : 1 + r ≠ 0) (cs : List K) (k : Nat) :
    pvFromK r (k + 1) cs = pvFromK r k cs / (1 + r) := by
  induction cs generalizing k with
  | nil => simp [pvFromK]
  | cons c cs ih =>
    simp only [pvFromK, ih (k + 1)]
    have : (1 + r) ^ k ≠ 0 := pow_ne_zero _ hr
    field_simp
    ring

omit [IsStrictOrderedRing K] in
/-- a stream of non-negative flows with positive sum contains a positive flow -/
theorem exists_pos_of_sum_pos (cs : List K) (hnn : ∀ c ∈ cs, 0 ≤ c) (hs : 0 < cs.sum) :
    ∃ c ∈ cs, 0 < c := by
  induction cs with
  | nil => simp at hs
  | cons c cs ih =>
    by_cases hc : 0 < c
    · exact ⟨c, by simp, hc⟩
    · have hc0 : c = 0 := le_antisymm (not_lt.mp hc) (hnn c (by simp))
      subst hc0
      simp only [List.sum_cons, zero_add] at hs
      obtain ⟨d, hd, hd0⟩ := ih (fun c hc => hnn c (by simp [hc])) hs
      exact ⟨d, by simp [hd], hd0⟩

end field

theorem pvFromK_rat (r : ℚ) (k : Nat) (cs : List ℚ) : pvFromK r k cs = pvFrom r k cs := by
  induction cs generalizing k with
  | nil => rfl
  | cons c cs ih => simp only [pvFromK, pvFrom, ih]

/-- the discounted sum commutes with the cast of ℚ into any ordered field -/
theorem pvFromK_cast {K : Type*} [Field K] [LinearOrder K] [IsStrictOrderedRing K]
    (r : ℚ) (k : Nat) (cs : List ℚ) :
    pvFromK (r : K) k (cs.map (fun c : ℚ => (c : K))) = ((pvFrom r k cs : ℚ) : K) := by
  induction cs generalizing k with
  | nil => simp [pvFromK, pvFrom]
  | cons c cs ih => simp only [List.map_cons, pvFromK, pvFrom, ih]; push_cast; ring

theorem sum_map_cast {K : Type*} [Field K] [LinearOrder K] [IsStrictOrderedRing K] (cs : List ℚ) :
    (cs.map fun c : ℚ => (c : K)).sum = ((cs.sum : ℚ) : K) := by
  induction cs with
  | nil => simp
  | cons c cs ih => simp [ih]

/-! ### date-weighted discounted sums (XNPV) over an ordered field, for an abstract power function -/

section xnpv
variable {K : Type*} [Field K] [LinearOrder K] [IsStrictOrderedRing K]

/-- `Σ vᵢ / W((dᵢ − d₁)/365)` over `K` (the shape of `Spec.C20.xnpvFrom`) -/
def xnpvFromK (W : K → K) (d1 : K) : List K → List K → K
  | v :: vs, d :: ds => v / W ((d - d1) / 365) + xnpvFromK W d1 vs ds
  | _, _ => 0

/-- what is assumed about the power function `pw b t = b ** t` (true of the real power; floats and
    the harness' 50-digit decimals only approximate it): `b⁰ = 1`, `bᵗ > 0`, and `b ↦ bᵗ` is strictly
    increasing on `b > 0` for every exponent `t > 0`. -/
structure IsPow (pw : K → K → K) : Prop where
  zero : ∀ b, 0 < b → pw b 0 = 1
  pos : ∀ b t, 0 < b → 0 < pw b t
  mono : ∀ b b' t, 0 < b → b < b' → 0 < t → pw b t < pw b' t

theorem offset_nonneg {d1 d : K} (h : d1 ≤ d) : 0 ≤ (d - d1) / 365 :=
  div_nonneg (by linarith) (by norm_num)

theorem offset_pos {d1 d : K} (h : d1 < d) : 0 < (d - d1) / 365 :=
  div_pos (by linarith) (by norm_num)

theorem IsPow.le_of_lt {pw : K → K → K} (h : IsPow pw) {b b' t : K} (hb : 0 < b) (hbb : b < b')
    (ht : 0 ≤ t) : pw b t ≤ pw b' t := by
  rcases eq_or_lt_of_le ht with h0 | h0
  · rw [← h0, h.zero b hb, h.zero b' (by linarith)]
  · exact (h.mono b b' t hb hbb h0).le

theorem xnpvFromK_anti {pw : K → K → K} (h : IsPow pw) {r s : K} (hr : -1 < r) (hrs : r < s) (d1 : K) :
    ∀ (vs ds : List K), (∀ v ∈ vs, 0 ≤ v) → (∀ d ∈ ds, d1 ≤ d) →
      xnpvFromK (pw (1 + s)) d1 vs ds ≤ xnpvFromK (pw (1 + r)) d1 vs ds := by
  intro vs
  induction vs with
  | nil => intro ds _ _; simp [xnpvFromK]
  | cons v vs ih =>
    intro ds hnn hd
    cases ds with
    | nil => simp [xnpvFromK]
    | cons d ds =>
      simp only [xnpvFromK]
      have h1 : 0 < 1 + r := by linarith
      have hv : 0 ≤ v := hnn v (by simp)
      have ht := offset_nonneg (hd d (by simp))
      have hw := h.le_of_lt h1 (by linarith : 1 + r < 1 + s) ht
      have : v / pw (1 + s) ((d - d1) / 365) ≤ v / pw (1 + r) ((d - d1) / 365) :=
        div_le_div_of_nonneg_left hv (h.pos _ _ h1) hw
      have := ih ds (fun v hv => hnn v (by simp [hv])) (fun d hd' => hd d (by simp [hd']))
      linarith

theorem xnpvFromK_strictAnti {pw : K → K → K} (h : IsPow pw) {r s : K} (hr : -1 < r) (hrs : r < s)
    (d1 : K) : ∀ (vs ds : List K), (∀ v ∈ vs, 0 ≤ v) → (∀ d ∈ ds, d1 ≤ d) →
      (∃ p ∈ vs.zip ds, 0 < p.1 ∧ d1 < p.2) →
      xnpvFromK (pw (1 + s)) d1 vs ds < xnpvFromK (pw (1 + r)) d1 vs ds := by
  intro vs
  induction vs with
  | nil => intro ds _ _ hp; simp at hp
  | cons v vs ih =>
    intro ds hnn hd hp
    cases ds with
    | nil => simp at hp
    | cons d ds =>
      simp only [xnpvFromK]
      have h1 : 0 < 1 + r := by linarith
      have h1s : 1 + r < 1 + s := by linarith
      have hv : 0 ≤ v := hnn v (by simp)
      have hnn' : ∀ v ∈ vs, 0 ≤ v := fun v hv => hnn v (by simp [hv])
      have hd' : ∀ x ∈ ds, d1 ≤ x := fun x hx => hd x (by simp [hx])
      obtain ⟨p, hp, hp1, hp2⟩ := hp
      simp only [List.zip_cons_cons, List.mem_cons] at hp
      rcases hp with rfl | hmem
      · have hw := h.mono _ _ _ h1 h1s (offset_pos hp2)
        have : v / pw (1 + s) ((d - d1) / 365) < v / pw (1 + r) ((d - d1) / 365) :=
          div_lt_div_of_pos_left hp1 (h.pos _ _ h1) hw
        have := xnpvFromK_anti h hr hrs d1 vs ds hnn' hd'
        linarith
      · have hw := h.le_of_lt h1 h1s (offset_nonneg (hd d (by simp)))
        have : v / pw (1 + s) ((d - d1) / 365) ≤ v / pw (1 + r) ((d - d1) / 365) :=
          div_le_div_of_nonneg_left hv (h.pos _ _ h1) hw
        have := ih ds hnn' hd' ⟨p, hmem, hp1, hp2⟩
        linarith

omit [IsStrictOrderedRing K] in
/-- a positive total of non-negative flows on later dates yields a positive flow on a later date -/
theorem exists_pos_zip (d1 : K) : ∀ (vs ds : List K), vs.length = ds.length → (∀ v ∈ vs, 0 ≤ v) →
    (∀ d ∈ ds, d1 < d) → 0 < vs.sum → ∃ p ∈ vs.zip ds, 0 < p.1 ∧ d1 < p.2 := by
  intro vs
  induction vs with
  | nil => intro ds _ _ _ hs; simp at hs
  | cons v vs ih =>
    intro ds hlen hnn hd hs
    cases ds with
    | nil => simp at hlen
    | cons d ds =>
      by_cases hv : 0 < v
      · exact ⟨(v, d), by simp, hv, hd d (by simp)⟩
      · have hv0 : v = 0 := le_antisymm (not_lt.mp hv) (hnn v (by simp))
        subst hv0
        simp only [List.sum_cons, zero_add] at hs
        obtain ⟨p, hp, h1, h2⟩ := ih ds (by simpa using hlen) (fun v hv => hnn v (by simp [hv]))
          (fun x hx => hd x (by simp [hx])) hs
        exact ⟨p, by simp [hp], h1, h2⟩

end xnpv

theorem xnpvFromK_rat (W : ℚ → ℚ) (d1 : ℚ) : ∀ (vs ds : List ℚ),
    xnpvFromK W d1 vs ds = xnpvFrom W d1 vs ds := by
  intro vs
  induction vs with
  | nil => intro ds; simp [xnpvFromK, xnpvFrom]
  | cons v vs ih =>
    intro ds
    cases ds with
    | nil => simp [xnpvFromK, xnpvFrom]
    | cons d ds => simp only [xnpvFromK, xnpvFrom, ih]

end XlVerif.Lemmas.C20
