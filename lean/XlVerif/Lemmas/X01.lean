/-
  XlVerif.Lemmas.X01 — the evaluator model instantiated with the library semantics agrees with the AST
  evaluator of C01 on operator formulas.

  `evalFx_toFx_operators`: for every parse tree `a` built from numeric literals, plain cell references,
  unary minus and the binary operators (`OpAst`), the formula tree `toFx sheet keys a` evaluated by
  `Evaluator.evalFx` under `libSemOf ext` gives the outcome `Model.C01.evalAst` gives (`evalAstE ext`, the same
  function with the library behaviour `ext` as a parameter; `evalAstE C01.ext0 = C01.evalAst`), for every
  evaluation context whose memo holds cell values — by induction on the tree.
-/
import XlVerif.Model.X01
import XlVerif.Model.X01Sem
import XlVerif.Model.C01
namespace XlVerif.Lemmas.X01
open XlVerif XlVerif.Model.Tokenizer XlVerif.Model.Parser XlVerif.Model.Evaluator XlVerif.Model.Value
open XlVerif.Model.X01

/-! ### `Model.C01.evalAst` with the library behaviour as a parameter -/

def evalAstE (ext : Ext) (env : Model.C01.Env) : Ast → OpR
  | .operand t => Model.C01.evalOperand t env
  | .unop t r =>
    (match t.v with
     | .s sym =>
       (match lookup sym Gen.prefixOpToFunc with
        | none => .py .keyError
        | some f =>
          (match evalAstE ext env r with
           | .val x => applyPrefixE ext f x
           | o => o))
     | .f _ => .py .keyError)
  | .binop t l r =>
    (match t.v with
     | .s sym =>
       (match lookup sym Gen.infixOpToFunc with
        | none => .py .keyError
        | some f =>
          (match evalAstE ext env l with
           | .val x =>
             (match evalAstE ext env r with
              | .val y => applyInfixE ext f x y
              | o => o)
           | o => o))
     | .f _ => .py .keyError)
  | .func _ _ => .py .other

theorem applyInfixE_ext0 (f : List Char) (x y : S) :
    applyInfixE Model.C01.ext0 f x y = Model.C01.applyInfix f x y := rfl

theorem applyPrefixE_ext0 (f : List Char) (x : S) :
    applyPrefixE Model.C01.ext0 f x = Model.C01.applyPrefix f x := rfl

/-- with the library behaviour of the C01 driver, `evalAstE` IS `Model.C01.evalAst` -/
theorem evalAstE_ext0 (env : Model.C01.Env) : ∀ a : Ast, evalAstE Model.C01.ext0 env a = Model.C01.evalAst env a
  | .operand t => by simp [evalAstE, Model.C01.evalAst]
  | .unop t r => by
    simp only [evalAstE, Model.C01.evalAst, evalAstE_ext0 env r, applyPrefixE_ext0]
    rfl
  | .binop t l r => by
    simp only [evalAstE, Model.C01.evalAst, evalAstE_ext0 env l, evalAstE_ext0 env r, applyInfixE_ext0]
    rfl
  | .func _ _ => by simp [evalAstE, Model.C01.evalAst]

/-! ### outcomes -/

/-- the outcome of `node.eval(context)` that corresponds to an outcome of the AST evaluator of C01:
    a Python exception of the body becomes "problem" (wrapped by `evaluate`), a non-finite float the sentinel -/
def liftFx : OpR → Res
  | .val s => .val (.s s)
  | .nonfinite => .exc .runtime nonfiniteMark
  | .py k => .exc .problem (crashLen k)

/-- what `evalFx` makes of the result of a call -/
def resOfAppR : AppR → Res
  | .val v => .val v
  | .raiseRuntime n => .exc .runtime n
  | .raiseOther n => .exc .problem n

theorem resOfAppR_ofOpR (o : OpR) : resOfAppR (ofOpR o) = liftFx o := by cases o <;> rfl

theorem liftFx_val {o : OpR} {v : V} (h : liftFx o = .val v) : ∃ s, o = .val s ∧ v = .s s := by
  cases o with
  | val s => exact ⟨s, rfl, by simpa [liftFx] using h.symm⟩
  | nonfinite => simp [liftFx] at h
  | py k => simp [liftFx] at h

/-! ### the function table -/

theorem findIdx_lt_get {α} (p : α → Bool) : ∀ (l : List α) (h : l.findIdx p < l.length), p (l[l.findIdx p]) = true
  | [], h => by simp at h
  | a :: l, h => by
    by_cases ha : p a = true
    · simp [List.findIdx_cons, ha]
    · have ha' : p a = false := by simpa using ha
      simp only [List.findIdx_cons, ha', cond_false, List.length_cons] at h ⊢
      have := findIdx_lt_get p l (by omega)
      simpa using this

/-- `funcIndex` finds a function of that name -/
theorem funcIndex_some {name : Text} {id : Nat} (h : funcIndex name = some id) :
    ∃ f, funcAt id = some f ∧ f.name = name := by
  unfold funcIndex at h
  simp only at h
  split at h
  · rename_i hlt
    cases h
    refine ⟨Gen.registry[Gen.registry.findIdx fun f => f.name == name], ?_, ?_⟩
    · simp [funcAt, hlt]
    · have := findIdx_lt_get (fun f : Gen.Func => f.name == name) Gen.registry hlt
      simpa using this
  · cases h

theorem lookup_mem {β} {k : List Char} {v : β} : ∀ {l : List (List Char × β)}, lookup k l = some v → (k, v) ∈ l
  | [], h => by simp [lookup] at h
  | (k', v') :: rest, h => by
    simp only [lookup] at h
    split at h
    · rename_i hk; cases h; subst hk; exact List.mem_cons_self
    · exact List.mem_cons_of_mem _ (lookup_mem h)

theorem isInfixName_of_lookup {sym f : List Char} (h : lookup sym Gen.infixOpToFunc = some f) :
    isInfixName f = true := by
  unfold isInfixName
  rw [List.any_eq_true]
  exact ⟨(sym, f), lookup_mem h, by simp⟩

theorem isPrefixName_of_lookup {sym f : List Char} (h : lookup sym Gen.prefixOpToFunc = some f) :
    isPrefixName f = true := by
  unfold isPrefixName
  rw [List.any_eq_true]
  exact ⟨(sym, f), lookup_mem h, by simp⟩

/-- the library semantics on two scalar operands of a function bound to an infix operator -/
theorem appOf_infix (ext : Ext) {sym f : List Char} {id : Nat} (hl : lookup sym Gen.infixOpToFunc = some f)
    (hi : funcIndex f = some id) (x y : S) :
    (libSemOf ext).app id [.s x, .s y] = ofOpR (applyInfixE ext f x y) := by
  obtain ⟨fn, hfn, hname⟩ := funcIndex_some hi
  show appOf ext id [.s x, .s y] = _
  simp only [appOf, hfn, hname, isInfixName_of_lookup hl, if_true]

theorem appOf_prefix (ext : Ext) {sym f : List Char} {id : Nat} (hl : lookup sym Gen.prefixOpToFunc = some f)
    (hi : funcIndex f = some id) (x : S) :
    (libSemOf ext).app id [.s x] = ofOpR (applyPrefixE ext f x) := by
  obtain ⟨fn, hfn, hname⟩ := funcIndex_some hi
  show appOf ext id [.s x] = _
  simp only [appOf, hfn, hname, isPrefixName_of_lookup hl, if_true]

/-! ### operator trees over a model whose referenced cells hold numbers -/

/-- the value the evaluator reads at an address -/
def cellVal (m : MState) (a : Addr) : V :=
  match m.cell? a with
  | none => .s .blank
  | some c => c.value

/-- the cell at `a` is a constant (or absent) -/
def ConstAt (m : MState) (a : Addr) : Prop :=
  m.resolve a = a ∧ ∀ c, m.cell? a = some c → c.formula = none

/-- the operand token `t` of a formula on `sheet`: a numeric literal that is a finite number, or a plain
    reference to a cell that is a constant (or absent) and holds what `env` says -/
def OperandOK (m : MState) (sheet : Text) (keys : List Text) (env : Model.C01.Env) (t : Tok) : Prop :=
  match t.st, t.v with
  | .range, .s v =>
    v.contains '!' = false ∧ v.contains ':' = false ∧
    keys.contains (Model.C03.fullAddress v sheet) = false ∧
    ConstAt m (Model.C03.fullAddress v sheet) ∧
    cellVal m (Model.C03.fullAddress v sheet) =
      (match env (Model.C01.stripDollar v) with | some n => .s (.num n) | none => .s .blank)
  | .number, .s v => ∃ n, textNumber Ext.none v = .ok n
  | .number, .f _ => True
  | _, _ => False

/-- operator trees: operands as above, unary minus (a prefix operator of the table), binary operators of the table -/
inductive OpAst (m : MState) (sheet : Text) (keys : List Text) (env : Model.C01.Env) : Ast → Prop
  | operand (t : Tok) (h : OperandOK m sheet keys env t) : OpAst m sheet keys env (.operand t)
  | unop (t : Tok) (r : Ast) (sym : List Char) (ht : t.t = .opPre) (hv : t.v = .s sym)
      (hs : (lookup sym Gen.prefixOpToFunc).isSome) (hr : OpAst m sheet keys env r) : OpAst m sheet keys env (.unop t r)
  | binop (t : Tok) (l r : Ast) (sym : List Char) (hv : t.v = .s sym)
      (hs : (lookup sym Gen.infixOpToFunc).isSome)
      (hl : OpAst m sheet keys env l) (hr : OpAst m sheet keys env r) : OpAst m sheet keys env (.binop t l r)

/-- every memo entry is the value of its cell -/
def MemoOK (m : MState) (memo : List (Addr × V)) : Prop := ∀ a v, assoc a memo = some v → v = cellVal m a

theorem assoc_append_single {β} (a b : Addr) (w : β) : ∀ (l : List (Addr × β)),
    assoc a (l ++ [(b, w)]) = (match assoc a l with | some v => some v | none => if a = b then some w else none)
  | [] => by simp [assoc]
  | (k, v) :: rest => by
    simp only [List.cons_append, assoc]
    split
    · rfl
    · exact assoc_append_single a b w rest

theorem memoOK_append {m : MState} {memo : List (Addr × V)} (h : MemoOK m memo) (b : Addr) :
    MemoOK m (memo ++ [(b, cellVal m b)]) := by
  intro a v hv
  rw [assoc_append_single] at hv
  cases hm : assoc a memo with
  | some w =>
    rw [hm] at hv
    have hwv : w = v := by simpa using hv
    exact hwv ▸ h a w hm
  | none =>
    rw [hm] at hv
    simp only at hv
    split at hv
    · rename_i hab; cases hv; rw [hab]
    · cases hv

section
variable (ext : Ext) (m : MState) (fuel : Nat)

/-- `Evaluator.evaluate` of a constant (or absent) cell returns its value and leaves the context alone -/
theorem evalCell_const (c : Ctx Unit) (a : Addr) (h : ConstAt m a) :
    evalCell (pureStore m) (libSemOf ext) (fuel + 1) c a = (c, .val (cellVal m a)) := by
  obtain ⟨hr, hc⟩ := h
  simp only [evalCell, pureStore, hr, cellVal]
  cases hcell : m.cell? a with
  | none => rfl
  | some cell => simp [hc cell hcell]

/-- `context.eval_cell(addr)` of such a cell: its value, and the memo keeps holding cell values -/
theorem evalRef_const (c : Ctx Unit) (a : Addr) (h : ConstAt m a) (hm : MemoOK m c.memo) :
    ∃ c', evalRef (evalCell (pureStore m) (libSemOf ext) (fuel + 1)) c a = (c', .val (cellVal m a)) ∧
      MemoOK m c'.memo := by
  unfold evalRef
  cases hmem : assoc a c.memo with
  | some v => exact ⟨c, by simp [hm a v hmem], hm⟩
  | none =>
    simp only [evalCell_const ext m fuel _ a h]
    exact ⟨_, rfl, memoOK_append hm a⟩

end

/-- **`evalFx_toFx_operators`.**  For every operator tree `a`, in every context whose memo holds cell values:
    evaluating the compiled tree `toFx sheet keys a` under the library semantics gives the outcome of the AST
    evaluator of C01 on `a` (and the memo keeps holding cell values). -/
theorem evalFx_toFx_operators (ext : Ext) (m : MState) (fuel : Nat) (sheet : Text) (keys : List Text)
    (env : Model.C01.Env) :
    ∀ (a : Ast), OpAst m sheet keys env a → ∀ fx, toFx sheet keys a = .ok fx →
    ∀ (c : Ctx Unit), MemoOK m c.memo →
      ∃ c', evalFx (pureStore m) (libSemOf ext) (evalCell (pureStore m) (libSemOf ext) (fuel + 1)) c fx
              = (c', liftFx (evalAstE ext env a)) ∧ MemoOK m c'.memo := by
  intro a ha
  induction ha with
  | operand t h =>
    intro fx hfx c hm
    obtain ⟨v, ty, st⟩ := t
    unfold OperandOK at h
    cases st <;> cases v <;> simp only at h
    case range.s s =>
      obtain ⟨h1, h2, hk, hc, hv⟩ := h
      simp only [toFx, operandFx, hk, Bool.false_eq_true, if_false] at hfx
      cases hfx
      rw [evalFx]
      obtain ⟨c', hc', hm'⟩ := evalRef_const ext m fuel c _ hc hm
      refine ⟨c', ?_, hm'⟩
      rw [hc', hv]
      simp only [evalAstE, Model.C01.evalOperand, h1, h2, Bool.false_or]
      cases env (Model.C01.stripDollar s) <;> rfl
    case number.s s =>
      obtain ⟨n, hn⟩ := h
      have hn' : textNumber Model.C01.ext0 s = .ok n := hn
      simp only [toFx, operandFx, hn, litFx] at hfx
      cases hfx
      rw [evalFx]
      exact ⟨c, by simp [evalAstE, Model.C01.evalOperand, hn', liftFx], hm⟩
    case number.f q =>
      simp only [toFx, operandFx, litFx] at hfx
      cases hfx
      rw [evalFx]
      exact ⟨c, by simp [evalAstE, Model.C01.evalOperand, liftFx], hm⟩
  | unop t r sym ht hv hs hr ih =>
    intro fx hfx c hm
    obtain ⟨f, hf⟩ := Option.isSome_iff_exists.mp hs
    simp only [toFx, ht, hv, if_true] at hfx
    cases hr' : toFx sheet keys r with
    | error e => simp [hr'] at hfx
    | ok r' =>
      simp only [hr', opFx, hf] at hfx
      cases hi : funcIndex f with
      | none => simp [hi] at hfx
      | some id =>
        simp only [hi] at hfx
        cases hfx
        obtain ⟨c1, h1, hm1⟩ := ih r' hr' c hm
        rw [evalFx]
        simp only [evalArgs, h1]
        simp only [evalAstE, hv, hf]
        cases ho : evalAstE ext env r with
        | val x =>
          refine ⟨c1, ?_, hm1⟩
          simp only [liftFx, appOf_prefix ext hf hi x]
          cases applyPrefixE ext f x <;> rfl
        | nonfinite => exact ⟨c1, by simp [liftFx], hm1⟩
        | py k => exact ⟨c1, by simp [liftFx], hm1⟩
  | binop t l r sym hv hs hl hr ihl ihr =>
    intro fx hfx c hm
    obtain ⟨f, hf⟩ := Option.isSome_iff_exists.mp hs
    simp only [toFx, hv] at hfx
    cases hl' : toFx sheet keys l with
    | error e => simp [hl'] at hfx
    | ok l' =>
      cases hr' : toFx sheet keys r with
      | error e => simp [hl', hr'] at hfx
      | ok r' =>
        simp only [hl', hr', opFx, hf] at hfx
        cases hi : funcIndex f with
        | none => simp [hi] at hfx
        | some id =>
          simp only [hi] at hfx
          cases hfx
          obtain ⟨c1, h1, hm1⟩ := ihl l' hl' c hm
          rw [evalFx]
          simp only [evalArgs, h1]
          simp only [evalAstE, hv, hf]
          cases hol : evalAstE ext env l with
          | val x =>
            obtain ⟨c2, h2, hm2⟩ := ihr r' hr' c1 hm1
            simp only [liftFx, h2]
            cases hor : evalAstE ext env r with
            | val y =>
              refine ⟨c2, ?_, hm2⟩
              simp only [liftFx, appOf_infix ext hf hi x y]
              cases applyInfixE ext f x y <;> rfl
            | nonfinite => exact ⟨c2, by simp [liftFx], hm2⟩
            | py k => exact ⟨c2, by simp [liftFx], hm2⟩
          | nonfinite => exact ⟨c1, by simp [liftFx], hm1⟩
          | py k => exact ⟨c1, by simp [liftFx], hm1⟩

end XlVerif.Lemmas.X01
