/-
  XlVerif.Lemmas.X01Call — from a formula TEXT over constant cells of a workbook source to the context-free value of
  its compiled tree: every reference of a well-formed formula (any spelling: relative, `$`-absolute, sheet-qualified,
  quoted titles; cells and rectangular ranges) compiles to a `ref` / `rng` leaf that reads constants, so the whole tree
  — operators, calls nested at will, IF / AND / OR — satisfies `ConstFx` and `fresh_const_cell` applies.
-/
import XlVerif.Lemmas.X01Const
import XlVerif.Lemmas.X01Terms
import XlVerif.Lemmas.X01Total
namespace XlVerif.Lemmas.X01
open XlVerif XlVerif.Model.Tokenizer XlVerif.Model.Parser XlVerif.Model.Evaluator XlVerif.Model.Value
open XlVerif.Model.X01 XlVerif.Spec.C02 XlVerif.Lemmas.C02

/-! ### the source side -/

/-- the source gives the address a constant, or does not mention it -/
def ConstSrc (src : Source) (a : Text) : Prop :=
  match srcLookup src.defaultSheet a src.cells with
  | none => True
  | some (.const _) => True
  | some (.formula _) => False

/-- the current value of the address according to the source: its constant, blank if absent -/
def srcCellVal (src : Source) (a : Text) : V :=
  match srcLookup src.defaultSheet a src.cells with
  | some (.const v) => .s v
  | _ => .s .blank

/-- a reference of a formula on `sheet` reads constants: the cell, resp. every member of the (completely read:
    at most MAX_EMPTY cells, finding D6) rectangle `resolve_ranges` gives for its address -/
def RefConst (src : Source) (sheet : Text) (r : Ref) : Prop :=
  match r.last with
  | none => ConstSrc src (Model.C03.fullAddress r.denoted sheet)
  | some _ =>
    ∀ s mat, Model.C03.resolveRanges (Model.C03.fullAddress r.denoted sheet) = .val (s, mat) →
      (∀ a ∈ mat.flatten, ConstSrc src a) ∧ mat.length + mat.flatten.length ≤ Gen.maxEmpty

mutual
/-- every reference of the formula (also inside calls) reads constants -/
def RefsConst (src : Source) (sheet : Text) : Expr → Prop
  | .ref r => RefConst src sheet r
  | .neg e => RefsConst src sheet e
  | .bin _ l r => RefsConst src sheet l ∧ RefsConst src sheet r
  | .paren e => RefsConst src sheet e
  | .call _ _ args => RefsConstL src sheet args
  | _ => True
def RefsConstL (src : Source) (sheet : Text) : List Expr → Prop
  | [] => True
  | a :: as => RefsConst src sheet a ∧ RefsConstL src sheet as
end

theorem RefsConstL_iff (src : Source) (sheet : Text) (as : List Expr) :
    RefsConstL src sheet as ↔ ∀ a ∈ as, RefsConst src sheet a := by
  induction as with
  | nil => simp [RefsConstL]
  | cons a as ih => simp [RefsConstL, ih]

mutual
/-- the references written in a formula -/
def refsOf : Expr → List Ref
  | .ref r => [r]
  | .neg e => refsOf e
  | .bin _ l r => refsOf l ++ refsOf r
  | .paren e => refsOf e
  | .call _ _ args => refsOfL args
  | _ => []
def refsOfL : List Expr → List Ref
  | [] => []
  | a :: as => refsOf a ++ refsOfL as
end

theorem mem_refsOfL {r : Ref} : ∀ {as : List Expr}, r ∈ refsOfL as ↔ ∃ a ∈ as, r ∈ refsOf a
  | [] => by simp [refsOfL]
  | a :: as => by simp [refsOfL, mem_refsOfL (as := as)]

theorem mem_toksArgs {t : Tok} : ∀ {as : List Expr} {a : Expr}, a ∈ as → t ∈ toks a → t ∈ toksArgs as
  | [], _, h, _ => by cases h
  | [x], a, h, ht => by
    simp only [List.mem_singleton] at h
    subst h
    rw [toksArgs_single]; exact ht
  | x :: y :: ys, a, h, ht => by
    rw [toksArgs_cons2]
    rcases List.mem_cons.mp h with rfl | h
    · exact List.mem_append_left _ ht
    · exact List.mem_append_right _ (List.mem_cons_of_mem _ (mem_toksArgs h ht))

/-- every written reference is a token of the formula -/
theorem refTok_mem_toks (r : Ref) : ∀ (e : Expr), r ∈ refsOf e → refTok r ∈ toks e := by
  intro e
  induction e using Expr.ind with
  | num n p => intro h; simp [refsOf] at h
  | str s => intro h; simp [refsOf] at h
  | bool b => intro h; simp [refsOf] at h
  | err c => intro h; simp [refsOf] at h
  | ref r' => intro h; simp only [refsOf, List.mem_singleton] at h; subst h; simp [toks]
  | neg e ih => intro h; simp only [refsOf] at h; simp [toks, ih h]
  | bin o l r' ihl ihr =>
    intro h
    simp only [refsOf, List.mem_append] at h
    rcases h with h | h
    · simp [toks, ihl h]
    · simp [toks, ihr h]
  | paren e ih => intro h; simp only [refsOf] at h; simp [toks, ih h]
  | call a f args ih =>
    intro h
    simp only [refsOf] at h
    obtain ⟨x, hx, hrx⟩ := mem_refsOfL.mp h
    simp only [toks]
    exact List.mem_append_left _ (List.mem_cons_of_mem _ (mem_toksArgs hx (ih x hx hrx)))

theorem denoted_mem_rangeVals (r : Ref) (e : Expr) (h : r ∈ refsOf e) : r.denoted ∈ rangeVals (toks e) := by
  unfold rangeVals
  rw [List.mem_filterMap]
  exact ⟨refTok r, refTok_mem_toks r e h, by simp [refTok]⟩

/-! ### addresses of well-formed references -/

theorem sheet_denoted_cases (q : SheetQ) (hq : q.WF) :
    (q = .none ∧ q.denoted = []) ∨ ∃ n, q.denoted = n ++ ['!'] ∧ ':' ∉ n := by
  cases q with
  | none => exact Or.inl ⟨rfl, rfl⟩
  | plain n =>
    refine Or.inr ⟨n, rfl, ?_⟩
    intro hmem
    have := hq.2 ':' hmem
    simp [nameCh, specialChars] at this
  | quoted n => exact Or.inr ⟨n, rfl, hq⟩

theorem not_mem_removeChar {c x : Char} {s : List Char} (h : x ∉ s) : x ∉ Model.C03.removeChar c s := by
  intro hm
  exact h (List.mem_filter.mp hm).1

/-- the address of a single-cell reference contains no `:` (Excel forbids it in sheet titles) -/
theorem cellRef_no_colon (r : Ref) (hwf : r.WF) (hlast : r.last = none) (sheet : Text) (hsheet : sheet.contains ':' = false) :
    Model.C03.has ':' (Model.C03.fullAddress r.denoted sheet) = false := by
  obtain ⟨hq, hc, _⟩ := hwf
  obtain ⟨hb, _⟩ := Lemmas.C01.cell_no_bang r.first hc
  have hcol := noColon_cell r.first hc
  have hsh : ':' ∉ sheet := by simpa using hsheet
  have hcoords : r.coords = r.first.text := by simp [Ref.coords, hlast]
  rcases sheet_denoted_cases r.sheet hq with ⟨_, hd⟩ | ⟨n, hd, hn⟩
  · have hden : r.denoted = r.first.text := by simp [Ref.denoted, hd, hcoords]
    rw [hden, fullAddress_plain sheet hb]
    simp only [Model.C03.has, List.contains_eq_mem, List.mem_append, List.mem_cons, decide_eq_false_iff_not]
    intro h
    rcases h with h | h | h
    · exact hsh h
    · cases h
    · exact not_mem_removeChar hcol h
  · have hden : r.denoted = n ++ '!' :: r.first.text := by simp [Ref.denoted, hd, hcoords]
    rw [hden, fullAddress_split sheet (rsplitLast_append' '!' _ hb n)]
    simp only [Model.C03.has, List.contains_eq_mem, List.mem_append, List.mem_cons, decide_eq_false_iff_not]
    intro h
    rcases h with h | h | h
    · exact hn h
    · cases h
    · exact not_mem_removeChar hcol h

/-- the address of a range reference contains a `:` -/
theorem rangeRef_colon (r : Ref) (c2 : Spec.C02.Cell) (hlast : r.last = some c2) (sheet : Text) :
    Model.C03.has ':' (Model.C03.fullAddress r.denoted sheet) = true := by
  have hmem : ':' ∈ r.denoted := by simp [Ref.denoted, Ref.coords, hlast]
  -- stripping `$` and prefixing a sheet keep every `:`
  cases hr : Model.C03.rsplitLast '!' r.denoted with
  | some p =>
    obtain ⟨s, coord⟩ := p
    obtain ⟨hv, _⟩ := rsplitLast_some '!' r.denoted s coord hr
    rw [fullAddress_split sheet hr]
    rw [hv] at hmem
    simp only [List.mem_append, List.mem_cons] at hmem
    simp only [Model.C03.has, List.contains_eq_mem, List.mem_append, List.mem_cons, decide_eq_true_eq]
    rcases hmem with h | h | h
    · exact Or.inl h
    · cases h
    · exact Or.inr (Or.inr (List.mem_filter.mpr ⟨h, by decide⟩))
  | none =>
    rw [fullAddress_plain sheet (contains_false_of_none hr)]
    simp only [Model.C03.has, List.contains_eq_mem, List.mem_append, List.mem_cons, decide_eq_true_eq]
    exact Or.inr (Or.inr (List.mem_filter.mpr ⟨hmem, by decide⟩))

/-! ### the compiled model -/

theorem assoc_isSome_iff {β} (k : Addr) : ∀ (l : List (Addr × β)), (assoc k l).isSome = true ↔ k ∈ l.map (·.1)
  | [] => by simp [assoc]
  | (k', v) :: rest => by
    simp only [assoc, List.map_cons, List.mem_cons]
    by_cases h : k = k'
    · simp [h]
    · simp [h, assoc_isSome_iff k rest]

/-- what the evaluator reads at an address the source gives a constant or does not mention -/
theorem constAt_of_src {src : Source} {m : MState} (hc : compile src = .ok m) (hn : src.names = []) (a : Text)
    (h : ConstSrc src a) : ConstAt m a ∧ cellVal m a = srcCellVal src a := by
  obtain ⟨hnames, _, hcells⟩ := compile_transparent hc hn
  obtain ⟨k1, k2, _⟩ := hcells a
  unfold ConstSrc at h
  unfold srcCellVal cellVal ConstAt
  refine ⟨⟨by simp [MState.resolve, hnames, assoc], ?_⟩, ?_⟩
  · intro c hcell
    cases hl : srcLookup src.defaultSheet a src.cells with
    | none =>
      rcases k1 hl with h' | ⟨c', h', hf', _⟩
      · rw [h'] at hcell; cases hcell
      · rw [h'] at hcell; cases hcell; exact hf'
    | some cont =>
      rw [hl] at h
      cases cont with
      | const v =>
        obtain ⟨c', h', hf', _⟩ := k2 v hl
        rw [h'] at hcell; cases hcell; exact hf'
      | formula t => cases h
  · cases hl : srcLookup src.defaultSheet a src.cells with
    | none =>
      rcases k1 hl with h' | ⟨c', h', _, hv'⟩
      · simp [h']
      · simp [h', hv']
    | some cont =>
      rw [hl] at h
      cases cont with
      | const v =>
        obtain ⟨c', h', _, hv'⟩ := k2 v hl
        simp [h', hv']
      | formula t => cases h

/-- a range reference of the formula is registered in `model.ranges` -/
def Registered (m : MState) (sheet : Text) (r : Ref) : Prop :=
  r.last.isSome = true →
    ∃ s mat, Model.C03.resolveRanges (Model.C03.fullAddress r.denoted sheet) = .val (s, mat) ∧
      m.range? (Model.C03.fullAddress r.denoted sheet) = some { cells := mat }

/-- the value a reference has according to the source: the cell's constant (blank if absent), resp. the row-major
    array of the constants of the rectangle -/
def refVal (src : Source) (sheet : Text) (r : Ref) : V :=
  match r.last with
  | none => srcCellVal src (Model.C03.fullAddress r.denoted sheet)
  | some _ =>
    match Model.C03.resolveRanges (Model.C03.fullAddress r.denoted sheet) with
    | .val (_, mat) => toArray (mat.map fun row => row.map (srcCellVal src))
    | _ => .s .blank

section
variable {src : Source} {m : MState} (hc : compile src = .ok m) (hn : src.names = [])
variable (sheet : Text) (hsheet : sheet.contains ':' = false)
include hc hn hsheet

/-- a reference token over constants compiles to a leaf that reads constants, and its context-free value is the
    value the source gives it -/
theorem ref_const (sem : Sem) (r : Ref) (hwf : r.WF) (hrc : RefConst src sheet r) (hreg : Registered m sheet r) :
    ∃ fx, operandFx sheet (m.ranges.map (·.1)) (refTok r) = .ok fx ∧ ConstFx m fx ∧
      pureVal sem m fx = .val (refVal src sheet r) := by
  obtain ⟨_, hkeys, _⟩ := compile_transparent hc hn
  cases hlast : r.last with
  | none =>
    have hno := cellRef_no_colon r hwf hlast sheet hsheet
    have hnk : (m.ranges.map (·.1)).contains (Model.C03.fullAddress r.denoted sheet) = false := by
      cases hk : (m.ranges.map (·.1)).contains (Model.C03.fullAddress r.denoted sheet) with
      | false => rfl
      | true =>
        have := hkeys _ (by simpa using hk)
        rw [hno] at this; cases this
    have hrn : m.range? (Model.C03.fullAddress r.denoted sheet) = none := by
      cases hq : m.range? (Model.C03.fullAddress r.denoted sheet) with
      | none => rfl
      | some x =>
        have : (assoc (Model.C03.fullAddress r.denoted sheet) m.ranges).isSome = true := by
          have h2 : assoc (Model.C03.fullAddress r.denoted sheet) m.ranges = some x := hq
          rw [h2]; rfl
        have hmem := (assoc_isSome_iff _ _).mp this
        have : (m.ranges.map (·.1)).contains (Model.C03.fullAddress r.denoted sheet) = true := by simpa using hmem
        rw [hnk] at this; cases this
    simp only [RefConst, hlast] at hrc
    obtain ⟨hca, hval⟩ := constAt_of_src hc hn _ hrc
    refine ⟨.ref (Model.C03.fullAddress r.denoted sheet), by simp only [operandFx, refTok, hnk, Bool.false_eq_true, if_false], by simpa [ConstFx] using hca, ?_⟩
    simp [pureVal, refVal, hlast, hval]
  | some c2 =>
    obtain ⟨s, mat, hres, hrange⟩ := hreg (by simp [hlast])
    have hk : (m.ranges.map (·.1)).contains (Model.C03.fullAddress r.denoted sheet) = true := by
      have : (assoc (Model.C03.fullAddress r.denoted sheet) m.ranges).isSome = true := by
        have h2 : assoc (Model.C03.fullAddress r.denoted sheet) m.ranges = some { cells := mat } := hrange
        rw [h2]; rfl
      simpa using (assoc_isSome_iff _ _).mp this
    simp only [RefConst, hlast] at hrc
    obtain ⟨hmem, hsmall⟩ := hrc s mat hres
    have hcells : ∀ a ∈ mat.flatten, ConstAt m a ∧ cellVal m a = srcCellVal src a :=
      fun a ha => constAt_of_src hc hn a (hmem a ha)
    refine ⟨.rng (Model.C03.fullAddress r.denoted sheet), by simp only [operandFx, refTok, hk, if_true], ?_, ?_⟩
    · simp only [ConstFx, hrange]
      exact ⟨fun a ha => (hcells a ha).1, hsmall⟩
    · simp only [pureVal, hrange, refVal, hlast, hres, rangeArray]
      congr 2
      apply List.map_congr_left
      intro row hrow
      apply List.map_congr_left
      intro a ha
      exact (hcells a (List.mem_flatten.mpr ⟨row, hrow, ha⟩)).2

theorem constFx_opFx (table : List (Text × Text)) (sym : Text) (args : List Fx) (fx : Fx)
    (h : opFx table sym args = .ok fx) (ha : ConstFxL m args) : ConstFx m fx := by
  unfold opFx at h
  cases hl : lookup sym table with
  | none => rw [hl] at h; simp only [Except.ok.injEq] at h; subst h; simp [ConstFx]
  | some f =>
    rw [hl] at h
    simp only at h
    cases hi : funcIndex f with
    | none => rw [hi] at h; simp at h
    | some id => rw [hi] at h; simp only [Except.ok.injEq] at h; subst h; simpa [ConstFx] using ha

theorem constFx_callFx (tv : Text) (args : List Fx) (ha : ConstFxL m args) : ConstFx m (callFx tv args) := by
  unfold callFx
  simp only
  repeat' split
  all_goals first
    | (simpa [ConstFx] using ha)
    | (simp_all [ConstFx, ConstFxL, litFx]; done)
    | (simp [ConstFx, litFx]; done)

theorem constFxL_of_list : ∀ (args : List Expr) (fxs : List Fx), toFxList sheet (m.ranges.map (·.1)) (astsOf args) = .ok fxs →
    (∀ x ∈ args, ∀ fx, toFx sheet (m.ranges.map (·.1)) (astOf x) = .ok fx → ConstFx m fx) → ConstFxL m fxs
  | [], fxs, h, _ => by simp only [astsOf, toFxList, Except.ok.injEq] at h; subst h; trivial
  | a :: as, fxs, h, ih => by
    simp only [astsOf, toFxList] at h
    cases ha : toFx sheet (m.ranges.map (·.1)) (astOf a) with
    | error e => rw [ha] at h; simp at h
    | ok a' =>
      rw [ha] at h
      simp only at h
      cases hr : toFxList sheet (m.ranges.map (·.1)) (astsOf as) with
      | error e => rw [hr] at h; simp at h
      | ok as' =>
        rw [hr] at h
        simp only [Except.ok.injEq] at h
        subst h
        exact ⟨ih a List.mem_cons_self a' ha,
          constFxL_of_list as as' hr fun x hx => ih x (List.mem_cons_of_mem _ hx)⟩

set_option maxRecDepth 8000 in
/-- **every compiled tree of a formula over constants reads only constants** -/
theorem constFx_astOf : ∀ (e : Expr), WF e → RefsConst src sheet e → (∀ r ∈ refsOf e, Registered m sheet r) →
    ∀ fx, toFx sheet (m.ranges.map (·.1)) (astOf e) = .ok fx → ConstFx m fx := by
  intro e
  induction e using Expr.ind with
  | num n p =>
    intro _ _ _ fx h
    have := fxNodes_operandFx sheet _ _ fx (by simpa [astOf, toFx] using h)
    simp only [astOf, toFx, operandFx, numTok] at h
    cases p <;> simp only [if_true, Bool.false_eq_true, if_false] at h
    · split at h <;> first | (cases h; simp [ConstFx, litFx]) | cases h
    · cases h; simp [ConstFx, litFx]
  | str s => intro _ _ _ fx h; simp only [astOf, toFx, operandFx, strTok, Except.ok.injEq] at h; subst h; simp [ConstFx, litFx]
  | bool b =>
    intro _ _ _ fx h
    simp only [astOf, toFx, operandFx, boolTok] at h
    split at h <;> first | (cases h; simp [ConstFx, litFx]) | cases h
  | err c =>
    intro _ _ _ fx h
    simp only [astOf, toFx, operandFx, errTok] at h
    split at h <;> first | (cases h; simp [ConstFx, litFx]) | cases h
  | ref r =>
    intro hwf hrc hreg fx h
    obtain ⟨fx', h', hcfx, _⟩ := ref_const hc hn sheet hsheet ⟨fun _ _ => .val (.s .blank), fun _ => none⟩ r hwf hrc
      (hreg r (by simp [refsOf]))
    simp only [astOf, toFx] at h
    rw [h'] at h
    cases h
    exact hcfx
  | neg e ih =>
    intro hwf hrc hreg fx h
    simp only [astOf, toFx, negTok, if_true] at h
    cases hr : toFx sheet (m.ranges.map (·.1)) (astOf e) with
    | error er => rw [hr] at h; simp at h
    | ok r' =>
      rw [hr] at h
      simp only at h
      exact constFx_opFx hc hn sheet hsheet _ _ _ fx h ⟨ih hwf.1 hrc hreg r' hr, trivial⟩
  | bin o l r ihl ihr =>
    intro hwf hrc hreg fx h
    simp only [astOf, toFx, binTok] at h
    cases hl : toFx sheet (m.ranges.map (·.1)) (astOf l) with
    | error er => rw [hl] at h; simp at h
    | ok l' =>
      cases hr : toFx sheet (m.ranges.map (·.1)) (astOf r) with
      | error er => rw [hl, hr] at h; simp at h
      | ok r' =>
        rw [hl, hr] at h
        simp only at h
        simp only [RefsConst] at hrc
        exact constFx_opFx hc hn sheet hsheet _ _ _ fx h
          ⟨ihl hwf.1 hrc.1 (fun x hx => hreg x (by simp [refsOf, hx])) l' hl,
           ihr hwf.2.1 hrc.2 (fun x hx => hreg x (by simp [refsOf, hx])) r' hr, trivial⟩
  | paren e ih => intro hwf hrc hreg fx h; exact ih hwf hrc hreg fx h
  | call a f args ih =>
    intro hwf hrc hreg fx h
    simp only [astOf, toFx, fnName] at h
    cases hl : toFxList sheet (m.ranges.map (·.1)) (astsOf args) with
    | error er => rw [hl] at h; simp at h
    | ok fxs =>
      rw [hl] at h
      simp only [Except.ok.injEq] at h
      subst h
      have hw := (WFs_iff args).mp hwf.2
      have hrs := (RefsConstL_iff src sheet args).mp hrc
      have hL : ConstFxL m fxs := by
        apply constFxL_of_list hc hn sheet hsheet args fxs hl
        intro x hx fx' hfx'
        exact ih x hx (hw x hx) (hrs x hx) (fun r hr => hreg r (mem_refsOfL.mpr ⟨x, hx, hr⟩)) fx' hfx'
      exact constFx_callFx hc hn sheet hsheet f fxs hL

end

end XlVerif.Lemmas.X01
