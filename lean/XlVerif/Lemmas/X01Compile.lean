/-
  XlVerif.Lemmas.X01Compile — `Model.X01.compile` is transparent.

  `compile_transparent`: if a workbook source (without defined names) compiles to the model `m`, then for every
  address `k`
    * a constant of the source is a constant cell of `m` with that value,
    * a formula text of the source is a formula cell of `m` whose tree is `toFx` of `Parser.parse` of the text
      (compiled on the sheet of `k`, against the range keys of `m`), with the text's length,
    * an address the source does not mention is absent from `m`, or a blank constant (a range member created
      by `build_ranges`),
  and every key of `m.ranges` contains a `:`.  (The LAST entry of the source for an address counts, as in a dict.)
-/
import XlVerif.Model.X01
namespace XlVerif.Lemmas.X01
open XlVerif XlVerif.Model.Tokenizer XlVerif.Model.Parser XlVerif.Model.Evaluator XlVerif.Model.Value
open XlVerif.Model.X01

/-- the address `read_and_parse_dict` files an input key under -/
def addrOf (ds : Text) (item : Text) : Text := if Model.C03.has '!' item then item else ds ++ ['!'] ++ item

/-- the content the source gives the address `k` (the last entry counts) -/
def srcLookup (ds : Text) (k : Text) : List (Text × Content) → Option Content
  | [] => none
  | (item, c) :: rest =>
    match srcLookup ds k rest with
    | some c' => some c'
    | none => if k = addrOf ds item then some c else none

/-! ### association lists -/

theorem assoc_assocSet {β} (k a : Addr) (v : β) : ∀ (l : List (Addr × β)),
    assoc k (assocSet a v l) = if k = a then some v else assoc k l
  | [] => by simp [assocSet, assoc]
  | (k', v') :: rest => by
    simp only [assocSet]
    by_cases h : a = k'
    · subst h
      simp only [if_true, assoc]
      by_cases hk : k = a <;> simp [hk]
    · simp only [h, if_false, assoc]
      by_cases hk : k = k'
      · subst hk
        have : ¬ k = a := fun e => h e.symm
        simp [this]
      · simp only [hk, if_false]
        exact assoc_assocSet k a v rest

theorem assoc_append_single' {β} (a b : Addr) (w : β) : ∀ (l : List (Addr × β)),
    assoc a (l ++ [(b, w)]) = (match assoc a l with | some v => some v | none => if a = b then some w else none)
  | [] => by simp [assoc]
  | (k, v) :: rest => by
    simp only [List.cons_append, assoc]
    split
    · rfl
    · exact assoc_append_single' a b w rest

theorem keys_assocSet {β} (a : Addr) (v : β) : ∀ (l : List (Addr × β)) (k : Addr),
    k ∈ (assocSet a v l).map (·.1) → k = a ∨ k ∈ l.map (·.1)
  | [], k, h => by simpa [assocSet] using h
  | (k', v') :: rest, k, h => by
    simp only [assocSet] at h
    by_cases e : a = k'
    · subst e
      simp only [if_true, List.map_cons, List.mem_cons] at h
      rcases h with h | h
      · exact Or.inl h
      · exact Or.inr (by simp [h])
    · simp only [e, if_false, List.map_cons, List.mem_cons] at h
      rcases h with h | h
      · exact Or.inr (by simp [h])
      · rcases keys_assocSet a v rest k h with h | h
        · exact Or.inl h
        · exact Or.inr (by simp [h])

/-! ### `read_and_parse_dict` -/

theorem readCells_assoc (ds : Text) : ∀ (items : List (Text × Content)) (acc out : List (Text × PreCell)),
    readCells ds items acc = .ok out → ∀ k,
      (srcLookup ds k items = none → assoc k out = assoc k acc) ∧
      (∀ v, srcLookup ds k items = some (.const v) → assoc k out = some ⟨v, none⟩) ∧
      (∀ text, srcLookup ds k items = some (.formula text) →
        ∃ terms, formulaTerms (Model.C03.sheetOf k) text = .ok terms ∧
          assoc k out = some ⟨.blank, some ⟨text, Model.C03.sheetOf k, terms⟩⟩)
  | [], acc, out, h, k => by
    simp only [readCells] at h
    cases h
    simp [srcLookup]
  | (item, c) :: rest, acc, out, h, k => by
    simp only [readCells] at h
    have haddr : (if Model.C03.has '!' item then item else ds ++ ['!'] ++ item) = addrOf ds item := rfl
    rw [haddr] at h
    cases c with
    | const v =>
      simp only at h
      cases hx : Model.C03.xlCellCheck (addrOf ds item) with
      | val u =>
        rw [hx] at h
        simp only at h
        obtain ⟨h1, h2, h3⟩ := readCells_assoc ds rest _ out h k
        simp only [srcLookup]
        cases hl : srcLookup ds k rest with
        | some c' =>
          refine ⟨by simp, ?_, ?_⟩
          · intro v' e; simp only at e; cases e; exact h2 v' hl
          · intro t e; simp only at e; cases e; exact h3 t hl
        | none =>
          have h1' := h1 hl
          rw [assoc_assocSet] at h1'
          by_cases hk : k = addrOf ds item
          · simp only [hk, if_true] at h1' ⊢
            refine ⟨by simp, ?_, by simp⟩
            intro v' e; simp only [Option.some.injEq, Content.const.injEq] at e; subst e; exact hk ▸ h1'
          · simp only [hk, if_false] at h1' ⊢
            exact ⟨fun _ => h1', by simp, by simp⟩
      | crash _ => rw [hx] at h; simp at h
      | nan => rw [hx] at h; simp at h
      | posInf => rw [hx] at h; simp at h
      | negInf => rw [hx] at h; simp at h
      | diverge => rw [hx] at h; simp at h
    | formula text =>
      simp only at h
      cases ht : formulaTerms (Model.C03.sheetOf (addrOf ds item)) text with
      | error e => rw [ht] at h; simp at h
      | ok terms =>
        rw [ht] at h
        simp only at h
        cases hx : Model.C03.xlCellCheck (addrOf ds item) with
        | val u =>
          rw [hx] at h
          simp only at h
          obtain ⟨h1, h2, h3⟩ := readCells_assoc ds rest _ out h k
          simp only [srcLookup]
          cases hl : srcLookup ds k rest with
          | some c' =>
            refine ⟨by simp, ?_, ?_⟩
            · intro v' e; simp only at e; cases e; exact h2 v' hl
            · intro t e; simp only at e; cases e; exact h3 t hl
          | none =>
            have h1' := h1 hl
            rw [assoc_assocSet] at h1'
            by_cases hk : k = addrOf ds item
            · simp only [hk, if_true] at h1' ⊢
              refine ⟨by simp, by simp, ?_⟩
              intro t e
              simp only [Option.some.injEq, Content.formula.injEq] at e
              subst e
              exact ⟨terms, ht, hk ▸ h1'⟩
            · simp only [hk, if_false] at h1' ⊢
              exact ⟨fun _ => h1', by simp, by simp⟩
        | crash _ => rw [hx] at h; simp at h
        | nan => rw [hx] at h; simp at h
        | posInf => rw [hx] at h; simp at h
        | negInf => rw [hx] at h; simp at h
        | diverge => rw [hx] at h; simp at h

/-! ### `build_ranges` -/

def IsBlankCell (pc : PreCell) : Prop := pc.value = .blank ∧ pc.formula = none

theorem addBlanks_spec : ∀ (as : List Text) (cells out : List (Text × PreCell)),
    addBlanks as cells = .ok out →
      (∀ k pc, assoc k cells = some pc → assoc k out = some pc) ∧
      (∀ k pc, assoc k out = some pc → assoc k cells = some pc ∨ (assoc k cells = none ∧ IsBlankCell pc))
  | [], cells, out, h => by
    simp only [addBlanks] at h
    cases h
    exact ⟨fun _ _ h => h, fun _ _ h => Or.inl h⟩
  | a :: rest, cells, out, h => by
    simp only [addBlanks] at h
    split at h
    · exact addBlanks_spec rest cells out h
    · rename_i hnone
      have hnone' : assoc a cells = none := by
        cases hc : assoc a cells with
        | none => rfl
        | some x => simp [hc] at hnone
      cases hx : Model.C03.xlCellCheck a with
      | val u =>
        rw [hx] at h
        simp only at h
        obtain ⟨p1, p2⟩ := addBlanks_spec rest _ out h
        constructor
        · intro k pc hk
          apply p1
          rw [assoc_append_single', hk]
        · intro k pc hk
          rcases p2 k pc hk with h' | ⟨h', hb⟩
          · rw [assoc_append_single'] at h'
            cases hc : assoc k cells with
            | some x => rw [hc] at h'; exact Or.inl h'
            | none =>
              rw [hc] at h'
              simp only at h'
              split at h'
              · cases h'; exact Or.inr ⟨rfl, rfl, rfl⟩
              · cases h'
          · rw [assoc_append_single'] at h'
            cases hc : assoc k cells with
            | some x => rw [hc] at h'; cases h'
            | none => exact Or.inr ⟨rfl, hb⟩
      | crash _ => rw [hx] at h; simp at h
      | nan => rw [hx] at h; simp at h
      | posInf => rw [hx] at h; simp at h
      | negInf => rw [hx] at h; simp at h
      | diverge => rw [hx] at h; simp at h

/-- what `build_ranges` may do to a partially built model -/
structure Grows (b b' : Built) : Prop where
  keep : ∀ k pc, assoc k b.cells = some pc → assoc k b'.cells = some pc
  fresh : ∀ k pc, assoc k b'.cells = some pc → assoc k b.cells = some pc ∨ (assoc k b.cells = none ∧ IsBlankCell pc)
  keys : ∀ key, key ∈ b'.ranges.map (·.1) → key ∈ b.ranges.map (·.1) ∨ Model.C03.has ':' key = true

theorem Grows.refl (b : Built) : Grows b b :=
  ⟨fun _ _ h => h, fun _ _ h => Or.inl h, fun _ h => Or.inl h⟩

theorem Grows.trans {a b c : Built} (h1 : Grows a b) (h2 : Grows b c) : Grows a c where
  keep := fun k pc h => h2.keep k pc (h1.keep k pc h)
  fresh := fun k pc h => by
    rcases h2.fresh k pc h with h' | ⟨h', hb⟩
    · exact h1.fresh k pc h'
    · cases hc : assoc k a.cells with
      | none => exact Or.inr ⟨rfl, hb⟩
      | some x => have := h1.keep k x hc; rw [h'] at this; cases this
  keys := fun key h => by
    rcases h2.keys key h with h' | h'
    · exact h1.keys key h'
    · exact Or.inr h'

theorem buildTerm_grows (ds : Text) (b b' : Built) (term : Text) (h : buildTerm ds b term = .ok b') : Grows b b' := by
  unfold buildTerm at h
  simp only at h
  by_cases hc : Model.C03.has ':' term = true
  · simp only [hc, if_true] at h
    generalize hrg : (if Model.C03.has '!' term = true then term else ds ++ ['!'] ++ term) = range at h
    have hcr : Model.C03.has ':' range = true := by
      rw [← hrg]
      split
      · exact hc
      · simp only [Model.C03.has, List.contains_eq_mem, List.mem_append, decide_eq_true_eq] at hc ⊢
        exact Or.inr hc
    cases hr : Model.C03.resolveRanges range with
    | val p =>
      obtain ⟨s, mtx⟩ := p
      rw [hr] at h
      simp only [assoc_assocSet, if_true] at h
      cases ha : addBlanks (List.flatten mtx) b.cells with
      | error e => rw [ha] at h; simp at h
      | ok cells =>
        rw [ha] at h
        simp only [Except.ok.injEq] at h
        subst h
        obtain ⟨p1, p2⟩ := addBlanks_spec _ _ _ ha
        exact ⟨p1, p2, fun key hk => by
          rcases keys_assocSet _ _ _ key hk with e | e
          · exact Or.inr (e ▸ hcr)
          · exact Or.inl e⟩
    | crash _ => rw [hr] at h; simp at h
    | nan => rw [hr] at h; simp at h
    | posInf => rw [hr] at h; simp at h
    | negInf => rw [hr] at h; simp at h
    | diverge => rw [hr] at h; simp at h
  · simp only [hc, Bool.false_eq_true, if_false] at h
    cases hr : assoc term b.ranges with
    | none => rw [hr] at h; simp only [Except.ok.injEq] at h; subst h; exact Grows.refl b
    | some r =>
      rw [hr] at h
      simp only at h
      cases ha : addBlanks r.cells.flatten b.cells with
      | error e => rw [ha] at h; simp at h
      | ok cells =>
        rw [ha] at h
        simp only [Except.ok.injEq] at h
        subst h
        obtain ⟨p1, p2⟩ := addBlanks_spec _ _ _ ha
        exact ⟨p1, p2, fun key hk => Or.inl hk⟩

theorem buildTerms_grows (ds : Text) : ∀ (ts : List Text) (b b' : Built), buildTerms ds ts b = .ok b' → Grows b b'
  | [], b, b', h => by simp only [buildTerms, Except.ok.injEq] at h; subst h; exact Grows.refl b
  | t :: rest, b, b', h => by
    simp only [buildTerms] at h
    cases ht : buildTerm ds b t with
    | error e => rw [ht] at h; simp at h
    | ok b1 =>
      rw [ht] at h
      exact (buildTerm_grows ds b b1 t ht).trans (buildTerms_grows ds rest b1 b' h)

/-! ### `build_code` -/

theorem compileCell_key {names : List (Text × Text)} {keys : List Text} {a : Text} {c : PreCell} {x : Addr × Cell}
    (h : compileCell names keys a c = .ok x) : x.1 = a := by
  unfold compileCell at h
  cases hf : c.formula with
  | none => rw [hf] at h; simp only [Except.ok.injEq] at h; subst h; rfl
  | some f =>
    rw [hf] at h
    simp only at h
    cases hp : parse names f.text with
    | error e => rw [hp] at h; simp at h
    | ok ast =>
      rw [hp] at h
      simp only at h
      cases ht : toFx f.sheet keys ast with
      | error e => rw [ht] at h; simp at h
      | ok fx => rw [ht] at h; simp only [Except.ok.injEq] at h; subst h; rfl

theorem compileCells_assoc (names : List (Text × Text)) (keys : List Text) :
    ∀ (cs : List (Text × PreCell)) (out : List (Addr × Cell)), compileCells names keys cs = .ok out → ∀ k,
      (assoc k cs = none → assoc k out = none) ∧
      (∀ pc, assoc k cs = some pc → ∃ x, compileCell names keys k pc = .ok (k, x) ∧ assoc k out = some x)
  | [], out, h, k => by
    simp only [compileCells, Except.ok.injEq] at h
    subst h
    simp [assoc]
  | (a, c) :: rest, out, h, k => by
    simp only [compileCells] at h
    cases hc : compileCell names keys a c with
    | error e => rw [hc] at h; simp at h
    | ok x =>
      rw [hc] at h
      simp only at h
      cases hr : compileCells names keys rest with
      | error e => rw [hr] at h; simp at h
      | ok xs =>
        rw [hr] at h
        simp only [Except.ok.injEq] at h
        subst h
        have hx := compileCell_key hc
        obtain ⟨xa, xc⟩ := x
        simp only at hx
        subst hx
        obtain ⟨r1, r2⟩ := compileCells_assoc names keys rest xs hr k
        simp only [assoc]
        by_cases hk : k = xa
        · subst hk
          simp only [if_true]
          exact ⟨by simp, fun pc e => by cases e; exact ⟨xc, hc, rfl⟩⟩
        · simp only [hk, if_false]
          exact ⟨r1, r2⟩

/-! ### `compile` -/

theorem compile_inv {src : Source} {m : MState} (h : compile src = .ok m) :
    ∃ cells names b cs,
      readCells src.defaultSheet src.cells [] = .ok cells ∧ bindNames cells src.names [] = .ok names ∧
      buildRanges src.defaultSheet cells = .ok b ∧
      compileCells names (b.ranges.map (·.1)) b.cells = .ok cs ∧
      m = { cells := cs, ranges := b.ranges, names := names } := by
  unfold compile at h
  cases h1 : readCells src.defaultSheet src.cells [] with
  | error e => rw [h1] at h; simp at h
  | ok cells =>
    rw [h1] at h
    simp only at h
    cases h2 : bindNames cells src.names [] with
    | error e => rw [h2] at h; simp at h
    | ok names =>
      rw [h2] at h
      simp only at h
      cases h3 : buildRanges src.defaultSheet cells with
      | error e => rw [h3] at h; simp at h
      | ok b =>
        rw [h3] at h
        simp only at h
        cases h4 : compileCells names (b.ranges.map (·.1)) b.cells with
        | error e => rw [h4] at h; simp at h
        | ok cs =>
          rw [h4] at h
          simp only [Except.ok.injEq] at h
          exact ⟨cells, names, b, cs, rfl, h2, h3, h4, h.symm⟩

/-- **`compile` is transparent** (see the header) -/
theorem compile_transparent {src : Source} {m : MState} (h : compile src = .ok m) (hn : src.names = []) :
    m.names = [] ∧
    (∀ key, key ∈ m.ranges.map (·.1) → Model.C03.has ':' key = true) ∧
    ∀ k,
      (srcLookup src.defaultSheet k src.cells = none →
        m.cell? k = none ∨ ∃ c, m.cell? k = some c ∧ c.formula = none ∧ c.value = .s .blank) ∧
      (∀ v, srcLookup src.defaultSheet k src.cells = some (.const v) →
        ∃ c, m.cell? k = some c ∧ c.formula = none ∧ c.value = .s v) ∧
      (∀ text, srcLookup src.defaultSheet k src.cells = some (.formula text) →
        ∃ ast fx c, parse [] text = .ok ast ∧ toFx (Model.C03.sheetOf k) (m.ranges.map (·.1)) ast = .ok fx ∧
          m.cell? k = some c ∧ c.formula = some fx ∧ c.formulaLen = text.length) := by
  obtain ⟨cells, names, b, cs, h1, h2, h3, h4, rfl⟩ := compile_inv h
  rw [hn] at h2
  simp only [bindNames, Except.ok.injEq] at h2
  subst h2
  have hg : Grows { cells := cells, ranges := [] } b := buildTerms_grows _ _ _ _ h3
  refine ⟨rfl, ?_, ?_⟩
  · intro key hk
    rcases hg.keys key hk with h' | h'
    · simp at h'
    · exact h'
  · intro k
    obtain ⟨r1, r2, r3⟩ := readCells_assoc _ _ _ _ h1 k
    obtain ⟨c1, c2⟩ := compileCells_assoc _ _ _ _ h4 k
    refine ⟨?_, ?_, ?_⟩
    · intro hl
      have hk : assoc k cells = none := by rw [r1 hl]; rfl
      cases hb : assoc k b.cells with
      | none => exact Or.inl (c1 hb)
      | some pc =>
        rcases hg.fresh k pc hb with h' | ⟨_, hbl⟩
        · rw [hk] at h'; cases h'
        · obtain ⟨x, hx, hout⟩ := c2 pc hb
          refine Or.inr ⟨x, hout, ?_⟩
          unfold compileCell at hx
          rw [hbl.2] at hx
          simp only [Except.ok.injEq, Prod.mk.injEq, true_and] at hx
          subst hx
          exact ⟨rfl, by rw [hbl.1]⟩
    · intro v hl
      have hb := hg.keep k _ (r2 v hl)
      obtain ⟨x, hx, hout⟩ := c2 _ hb
      refine ⟨x, hout, ?_⟩
      unfold compileCell at hx
      simp only [Except.ok.injEq, Prod.mk.injEq, true_and] at hx
      subst hx
      exact ⟨rfl, rfl⟩
    · intro text hl
      obtain ⟨terms, _, hcell⟩ := r3 text hl
      have hb := hg.keep k _ hcell
      obtain ⟨x, hx, hout⟩ := c2 _ hb
      unfold compileCell at hx
      simp only at hx
      cases hp : parse [] text with
      | error e => rw [hp] at hx; simp at hx
      | ok ast =>
        rw [hp] at hx
        simp only at hx
        cases ht : toFx (Model.C03.sheetOf k) (b.ranges.map (·.1)) ast with
        | error e => rw [ht] at hx; simp at hx
        | ok fx =>
          rw [ht] at hx
          simp only [Except.ok.injEq, Prod.mk.injEq, true_and] at hx
          subst hx
          exact ⟨ast, fx, _, rfl, ht, hout, rfl, rfl⟩

end XlVerif.Lemmas.X01
