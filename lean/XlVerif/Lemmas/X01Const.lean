/-
  XlVerif.Lemmas.X01Const — formula trees over constant cells evaluate compositionally.

  `pureVal sem m fx` is the value of the tree `fx` read off the model `m` without an evaluation context (no
  memo, no in-progress stack, no fuel): literals, the current values of the referenced cells (blank for an absent
  cell), the row-major array of current values of a range, `sem.app` on the values of the arguments (errors of
  arguments propagate left to right), IF / AND / OR lazily.  `evalFx_const`: whenever every cell the tree reads is
  a constant (or absent) and every range it reads has at most MAX_EMPTY cells (finding D6: longer empty runs are
  cut), `Evaluator.evalFx` — with its memo, write-backs and cross-cell recursion — returns `pureVal`; for every
  function semantics `sem`, by induction on the tree (nested calls included).
-/
import XlVerif.Lemmas.X01
namespace XlVerif.Lemmas.X01
open XlVerif XlVerif.Model.Evaluator XlVerif.Model.Value XlVerif.Model.X01

/-! ### the context-free value of a tree -/

def rangeArray (m : MState) (r : Range) : V := toArray (r.cells.map fun row => row.map (cellVal m))

mutual
def pureVal (sem : Sem) (m : MState) : Fx → Res
  | .lit v => .val v
  | .ref a => .val (cellVal m a)
  | .rng k =>
    (match m.range? k with
     | some r => .val (rangeArray m r)
     | none => .val (cellVal m k))
  | .app f args =>
    (match pureArgs sem m args with
     | .ok vs => resOfAppR (sem.app f vs)
     | .error e => e)
  | .iff c t e =>
    (match pureVal sem m c with
     | .val v =>
       (match sem.truth v with
        | none => .val v
        | some true => pureVal sem m t
        | some false => pureVal sem m e)
     | r => r)
  | .sc isAnd args => pureSc sem m isAnd args
  | .fail n _ => .exc .problem n
def pureArgs (sem : Sem) (m : MState) : List Fx → Except Res (List V)
  | [] => .ok []
  | a :: rest =>
    (match pureVal sem m a with
     | .val v =>
       (match pureArgs sem m rest with
        | .ok vs => .ok (v :: vs)
        | .error e => .error e)
     | e => .error e)
def pureSc (sem : Sem) (m : MState) (isAnd : Bool) : List Fx → Res
  | [] => .val (.s (.bool isAnd))
  | a :: rest =>
    (match pureVal sem m a with
     | .val v =>
       (match argVerdict sem isAnd v with
        | .neutral => pureSc sem m isAnd rest
        | .decided b => .val (.s (.bool b))
        | .error e => .val e)
     | r => r)
end

/-- a range whose members are constants (or absent) and that is read completely (no MAX_EMPTY cut) -/
def RangeOK (m : MState) (r : Range) : Prop :=
  (∀ a ∈ r.cells.flatten, ConstAt m a) ∧ r.cells.length + r.cells.flatten.length ≤ Gen.maxEmpty

mutual
/-- every cell the tree reads is a constant (or absent) -/
def ConstFx (m : MState) : Fx → Prop
  | .lit _ => True
  | .ref a => ConstAt m a
  | .rng k =>
    (match m.range? k with
     | some r => RangeOK m r
     | none => ConstAt m k)
  | .app _ args => ConstFxL m args
  | .iff c t e => ConstFx m c ∧ ConstFx m t ∧ ConstFx m e
  | .sc _ args => ConstFxL m args
  | .fail _ _ => True
def ConstFxL (m : MState) : List Fx → Prop
  | [] => True
  | a :: as => ConstFx m a ∧ ConstFxL m as
end

/-! ### constant cells, for every semantics -/

section
variable (sem : Sem) (m : MState) (fuel : Nat)

theorem evalCell_const' (c : Ctx Unit) (a : Addr) (h : ConstAt m a) :
    evalCell (pureStore m) sem (fuel + 1) c a = (c, .val (cellVal m a)) := by
  obtain ⟨hr, hc⟩ := h
  simp only [evalCell, pureStore, hr, cellVal]
  cases hcell : m.cell? a with
  | none => rfl
  | some cell => simp [hc cell hcell]

theorem evalRef_const' (c : Ctx Unit) (a : Addr) (h : ConstAt m a) (hm : MemoOK m c.memo) :
    ∃ c', evalRef (evalCell (pureStore m) sem (fuel + 1)) c a = (c', .val (cellVal m a)) ∧ MemoOK m c'.memo := by
  unfold evalRef
  cases hmem : assoc a c.memo with
  | some v => exact ⟨c, by simp [hm a v hmem], hm⟩
  | none =>
    simp only [evalCell_const' sem m fuel _ a h]
    exact ⟨_, rfl, memoOK_append hm a⟩

/-- one row of a range of constants, while the run of empty cells stays below MAX_EMPTY -/
theorem evalRow_const : ∀ (row : List Addr) (c : Ctx Unit) (ec : Nat) (acc : List V),
    (∀ a ∈ row, ConstAt m a) → MemoOK m c.memo → ec + row.length ≤ Gen.maxEmpty →
    ∃ c' ec', evalRow (evalCell (pureStore m) sem (fuel + 1)) c row ec acc
        = (c', .ok (ec', acc ++ row.map (cellVal m))) ∧ MemoOK m c'.memo ∧ ec' ≤ ec + row.length
  | [], c, ec, acc, _, hm, _ => ⟨c, ec, by simp [evalRow], hm, by simp⟩
  | a :: rest, c, ec, acc, hc, hm, hb => by
    obtain ⟨c1, h1, hm1⟩ := evalRef_const' sem m fuel c a (hc a List.mem_cons_self) hm
    have hrest : ∀ x ∈ rest, ConstAt m x := fun x hx => hc x (List.mem_cons_of_mem _ hx)
    simp only [List.length_cons] at hb
    rw [evalRow, h1]
    simp only
    by_cases he : isEmptyValue (cellVal m a) = true
    · simp only [he, if_true]
      have hnot : ¬ (ec + 1 > Gen.maxEmpty) := by omega
      simp only [hnot, if_false]
      obtain ⟨c2, ec2, h2, hm2, hle⟩ := evalRow_const rest c1 (ec + 1) (acc ++ [cellVal m a]) hrest hm1 (by omega)
      exact ⟨c2, ec2, by simp [h2], hm2, by simp only [List.length_cons]; omega⟩
    · simp only [he, Bool.false_eq_true, if_false]
      obtain ⟨c2, ec2, h2, hm2, hle⟩ := evalRow_const rest c1 0 (acc ++ [cellVal m a]) hrest hm1 (by omega)
      exact ⟨c2, ec2, by simp [h2], hm2, by simp only [List.length_cons]; omega⟩

/-- the rows of a range of constants -/
theorem evalRows_const : ∀ (rows : List (List Addr)) (c : Ctx Unit) (w : Walk),
    (∀ a ∈ rows.flatten, ConstAt m a) → MemoOK m c.memo →
    w.emptyCol + rows.flatten.length ≤ Gen.maxEmpty → w.emptyRow + rows.length ≤ Gen.maxEmpty →
    ∃ c' w', evalRows (evalCell (pureStore m) sem (fuel + 1)) c rows w = (c', .ok w') ∧ MemoOK m c'.memo ∧
      w'.rows = w.rows ++ rows.map fun row => row.map (cellVal m)
  | [], c, w, _, hm, _, _ => ⟨c, w, by simp [evalRows], hm, by simp⟩
  | row :: rest, c, w, hc, hm, hcol, hrow => by
    have hrowc : ∀ a ∈ row, ConstAt m a := fun a ha => hc a (by simp [ha])
    have hrestc : ∀ a ∈ rest.flatten, ConstAt m a := fun a ha => hc a (by simp only [List.flatten_cons, List.mem_append]; exact Or.inr ha)
    simp only [List.flatten_cons, List.length_append, List.length_cons] at hcol hrow
    obtain ⟨c1, ec1, h1, hm1, hle⟩ := evalRow_const sem m fuel row c w.emptyCol [] hrowc hm (by omega)
    rw [evalRows, h1]
    simp only [List.nil_append]
    by_cases hemp : (row.map (cellVal m)).isEmpty = true
    · simp only [hemp, if_true]
      have hnot : ¬ (w.emptyRow + 1 > Gen.maxEmpty) := by omega
      simp only [hnot, if_false]
      obtain ⟨c2, w2, h2, hm2, hrows⟩ := evalRows_const rest c1
        { emptyCol := ec1, emptyRow := w.emptyRow + 1, rows := w.rows ++ [row.map (cellVal m)] } hrestc hm1
        (by simp only; omega) (by simp only; omega)
      exact ⟨c2, w2, h2, hm2, by simp [hrows]⟩
    · simp only [hemp, Bool.false_eq_true, if_false]
      obtain ⟨c2, w2, h2, hm2, hrows⟩ := evalRows_const rest c1
        { emptyCol := ec1, emptyRow := 0, rows := w.rows ++ [row.map (cellVal m)] } hrestc hm1
        (by simp only; omega) (by simp only; omega)
      exact ⟨c2, w2, h2, hm2, by simp [hrows]⟩

mutual
/-- **`evalFx_const`.**  A tree that reads only constant cells evaluates to its context-free value `pureVal`. -/
theorem evalFx_const : ∀ (fx : Fx), ConstFx m fx → ∀ (c : Ctx Unit), MemoOK m c.memo →
    ∃ c', evalFx (pureStore m) sem (evalCell (pureStore m) sem (fuel + 1)) c fx = (c', pureVal sem m fx) ∧
      MemoOK m c'.memo
  | .lit v, _, c, hm => ⟨c, by rw [evalFx, pureVal], hm⟩
  | .ref a, h, c, hm => by
    rw [evalFx, pureVal]
    exact evalRef_const' sem m fuel c a (by simpa [ConstFx] using h) hm
  | .rng k, h, c, hm => by
    rw [evalFx, pureVal]
    simp only [ConstFx] at h
    have hrq : (pureStore m).range? c.st k = m.range? k := rfl
    rw [hrq]
    cases hr : m.range? k with
    | none =>
      rw [hr] at h
      simp only
      exact evalRef_const' sem m fuel c k h hm
    | some r =>
      rw [hr] at h
      obtain ⟨hc, hb⟩ := h
      obtain ⟨c1, w1, h1, hm1, hrows⟩ := evalRows_const sem m fuel r.cells c {} hc hm
        (by simp only; omega) (by simp only; omega)
      simp only [h1]
      refine ⟨_, ?_, hm1⟩
      simp [hrows, rangeArray, pureStore]
  | .app f args, h, c, hm => by
    rw [evalFx, pureVal]
    obtain ⟨c1, h1, hm1⟩ := evalArgs_const args (by simpa [ConstFx] using h) c hm
    rw [h1]
    cases hp : pureArgs sem m args with
    | ok vs => simp only; cases sem.app f vs <;> exact ⟨c1, rfl, hm1⟩
    | error e => exact ⟨c1, rfl, hm1⟩
  | .iff cnd t e, h, c, hm => by
    rw [evalFx, pureVal]
    simp only [ConstFx] at h
    obtain ⟨c1, h1, hm1⟩ := evalFx_const cnd h.1 c hm
    rw [h1]
    cases hv : pureVal sem m cnd with
    | val v =>
      simp only
      cases ht : sem.truth v with
      | none => exact ⟨c1, rfl, hm1⟩
      | some b =>
        cases b with
        | true => simp only; exact evalFx_const t h.2.1 c1 hm1
        | false => simp only; exact evalFx_const e h.2.2 c1 hm1
    | exc k n => exact ⟨c1, rfl, hm1⟩
  | .sc isAnd args, h, c, hm => by
    rw [evalFx, pureVal]
    exact evalSc_const isAnd args (by simpa [ConstFx] using h) c hm
  | .fail n args, _, c, hm => ⟨c, by rw [evalFx, pureVal], hm⟩
theorem evalArgs_const : ∀ (args : List Fx), ConstFxL m args → ∀ (c : Ctx Unit), MemoOK m c.memo →
    ∃ c', evalArgs (pureStore m) sem (evalCell (pureStore m) sem (fuel + 1)) c args
        = (c', pureArgs sem m args) ∧ MemoOK m c'.memo
  | [], _, c, hm => ⟨c, by rw [evalArgs, pureArgs], hm⟩
  | a :: rest, h, c, hm => by
    simp only [ConstFxL] at h
    rw [evalArgs, pureArgs]
    obtain ⟨c1, h1, hm1⟩ := evalFx_const a h.1 c hm
    rw [h1]
    cases hv : pureVal sem m a with
    | val v =>
      simp only
      obtain ⟨c2, h2, hm2⟩ := evalArgs_const rest h.2 c1 hm1
      rw [h2]
      cases pureArgs sem m rest <;> exact ⟨c2, rfl, hm2⟩
    | exc k n => exact ⟨c1, rfl, hm1⟩
theorem evalSc_const : ∀ (isAnd : Bool) (args : List Fx), ConstFxL m args → ∀ (c : Ctx Unit), MemoOK m c.memo →
    ∃ c', evalSc (pureStore m) sem (evalCell (pureStore m) sem (fuel + 1)) c isAnd args
        = (c', pureSc sem m isAnd args) ∧ MemoOK m c'.memo
  | isAnd, [], _, c, hm => ⟨c, by rw [evalSc, pureSc], hm⟩
  | isAnd, a :: rest, h, c, hm => by
    simp only [ConstFxL] at h
    rw [evalSc, pureSc]
    obtain ⟨c1, h1, hm1⟩ := evalFx_const a h.1 c hm
    rw [h1]
    cases hv : pureVal sem m a with
    | val v =>
      simp only
      cases argVerdict sem isAnd v with
      | neutral => exact evalSc_const isAnd rest h.2 c1 hm1
      | decided b => exact ⟨c1, rfl, hm1⟩
      | error e => exact ⟨c1, rfl, hm1⟩
    | exc k n => exact ⟨c1, rfl, hm1⟩
end

/-- what `Evaluator.evaluate` makes of the outcome of the formula of the cell `a` (text of length `len`): an exception
    that is no RuntimeError is wrapped once ("Problem evaluating cell …") -/
def cellRes (a : Addr) (len : Nat) : Res → Res
  | .exc .problem n => .exc .runtime (35 + a.length + len + n)
  | r => r

/-- **`fresh_const_cell`.**  A formula cell whose tree reads only constants evaluates (fresh evaluator) to the
    context-free value of its tree. -/
theorem fresh_const_cell (a : Addr) (cell : Model.Evaluator.Cell) (fx : Fx)
    (hres : m.resolve a = a) (hcell : m.cell? a = some cell) (hf : cell.formula = some fx) (hc : ConstFx m fx) :
    fresh sem (fuel + 2) m a = cellRes a cell.formulaLen (pureVal sem m fx) := by
  unfold fresh
  rw [evalCell]
  simp only [pureStore, hres, hcell, hf]
  have hm0 : MemoOK m ([] : List (Addr × V)) := fun _ _ h => by simp [assoc] at h
  obtain ⟨c', hc', _⟩ := evalFx_const sem m fuel fx hc
    { st := (), evaluating := [a], memo := [], trace := [a] } hm0
  have hce : evalFx (pureStore m) sem (evalCell (pureStore m) sem (fuel + 1))
      { st := (), evaluating := [a], memo := [], trace := [a] } fx = (c', pureVal sem m fx) := hc'
  simp only [pureStore] at hce
  simp only [List.contains_nil, Bool.false_eq_true, if_false, List.nil_append, hce]
  cases hv : pureVal sem m fx with
  | val v => simp [cellRes]
  | exc k n => cases k <;> simp [cellRes]

end

end XlVerif.Lemmas.X01
