/-
  XlVerif.Lemmas.X01History — `set_cell_value` keeps formulas, ranges and "reads only constants"; so after any
  history of sets and evaluations a formula over constants evaluates to the context-free value of its tree in the
  model with the CURRENT inputs (`Model.C04.inputsAfter`) — through `Props.C04.C04`.
-/
import XlVerif.Lemmas.X01Const
import XlVerif.Props.C04
namespace XlVerif.Lemmas.X01
open XlVerif XlVerif.Model.Evaluator XlVerif.Model.Value XlVerif.Model.X01 XlVerif.Model.C04 XlVerif.Lemmas.C04

theorem assoc_append_new {β} (k a : Addr) (w : β) (l : List (Addr × β)) :
    assoc k (l ++ [(a, w)]) = (match assoc k l with | some v => some v | none => if k = a then some w else none) :=
  assoc_append_single k a w l

/-- what `set_cell_value` does to the cell at an address: an existing cell keeps its formula and the length of its
    text, a new cell is a constant -/
theorem setCellValue_cell (m : MState) (x : Addr) (v : V) (a : Addr) :
    (∀ c, m.cell? a = some c → ∃ c', (m.setCellValue x v).cell? a = some c' ∧ c'.formula = c.formula ∧
        c'.formulaLen = c.formulaLen) ∧
    (∀ c', (m.setCellValue x v).cell? a = some c' →
      (∃ c, m.cell? a = some c ∧ c'.formula = c.formula ∧ c'.formulaLen = c.formulaLen) ∨
      (m.cell? a = none ∧ c'.formula = none)) := by
  rw [setCellValue_eq]
  cases hx : m.cell? (m.resolve x) with
  | some cx =>
    simp only
    by_cases ha : a = m.resolve x
    · subst ha
      have hsame : ({ m with cells := assocUpdate (m.resolve x) (fun c => { c with value := v }) m.cells } : MState).cell?
          (m.resolve x) = (m.cell? (m.resolve x)).map fun c => { c with value := v } := by
        show assoc _ (assocUpdate _ _ _) = _
        rw [assoc_assocUpdate_same]; rfl
      rw [hsame, hx]
      refine ⟨fun c hc => ?_, fun c' hc' => ?_⟩
      · cases hc; exact ⟨_, rfl, rfl, rfl⟩
      · simp only [Option.map_some, Option.some.injEq] at hc'
        subst hc'
        exact Or.inl ⟨cx, rfl, rfl, rfl⟩
    · have hoth : ({ m with cells := assocUpdate (m.resolve x) (fun c => { c with value := v }) m.cells } : MState).cell? a
          = m.cell? a := by
        show assoc _ (assocUpdate _ _ _) = _
        rw [assoc_assocUpdate_other _ _ _ _ ha]; rfl
      rw [hoth]
      exact ⟨fun c hc => ⟨c, hc, rfl, rfl⟩, fun c' hc' => Or.inl ⟨c', hc', rfl, rfl⟩⟩
  | none =>
    simp only
    have hnew : ({ m with cells := m.cells ++ [(m.resolve x, { value := v, formula := none })] } : MState).cell? a
        = (match assoc a m.cells with
           | some c => some c
           | none => if a = m.resolve x then some { value := v, formula := none } else none) := by
      show assoc _ (_ ++ _) = _
      rw [assoc_append_new]
      cases assoc a m.cells <;> rfl
    have hcell : m.cell? a = assoc a m.cells := rfl
    rw [hnew, hcell]
    constructor
    · intro c hc
      rw [hc]
      exact ⟨c, rfl, rfl, rfl⟩
    · intro c' hc'
      cases hca : assoc a m.cells with
      | some c => rw [hca] at hc'; cases hc'; exact Or.inl ⟨_, rfl, rfl, rfl⟩
      | none =>
        rw [hca] at hc'
        simp only at hc'
        split at hc'
        · cases hc'; exact Or.inr ⟨rfl, rfl⟩
        · cases hc'

theorem setCellValue_range (m : MState) (x : Addr) (v : V) (k : Addr) :
    (m.setCellValue x v).range? k = m.range? k := by
  rw [setCellValue_eq]
  split <;> rfl

theorem constAt_set (m : MState) (x : Addr) (v : V) (a : Addr) (h : ConstAt m a) : ConstAt (m.setCellValue x v) a := by
  obtain ⟨hr, hc⟩ := h
  refine ⟨by rw [setCellValue_resolve]; exact hr, ?_⟩
  intro c' hc'
  rcases (setCellValue_cell m x v a).2 c' hc' with ⟨c, hcm, hf, _⟩ | ⟨_, hf⟩
  · rw [hf]; exact hc c hcm
  · exact hf

mutual
theorem constFx_set (m : MState) (x : Addr) (v : V) : ∀ (fx : Fx), ConstFx m fx → ConstFx (m.setCellValue x v) fx
  | .lit _, _ => by simp [ConstFx]
  | .ref a, h => by simp only [ConstFx] at h ⊢; exact constAt_set m x v a h
  | .rng k, h => by
    simp only [ConstFx, setCellValue_range] at h ⊢
    cases hr : m.range? k with
    | none => rw [hr] at h; exact constAt_set m x v k h
    | some r =>
      rw [hr] at h
      exact ⟨fun a ha => constAt_set m x v a (h.1 a ha), h.2⟩
  | .app _ args, h => by simp only [ConstFx] at h ⊢; exact constFxL_set m x v args h
  | .iff c t e, h => by
    simp only [ConstFx] at h ⊢
    exact ⟨constFx_set m x v c h.1, constFx_set m x v t h.2.1, constFx_set m x v e h.2.2⟩
  | .sc _ args, h => by simp only [ConstFx] at h ⊢; exact constFxL_set m x v args h
  | .fail _ _, _ => by simp [ConstFx]
theorem constFxL_set (m : MState) (x : Addr) (v : V) : ∀ (args : List Fx), ConstFxL m args → ConstFxL (m.setCellValue x v) args
  | [], _ => by simp [ConstFxL]
  | a :: rest, h => by
    simp only [ConstFxL] at h ⊢
    exact ⟨constFx_set m x v a h.1, constFxL_set m x v rest h.2⟩
end

/-- a formula cell over constants stays one along any history -/
theorem inputsAfter_keeps (fx : Fx) (a : Addr) (len : Nat) : ∀ (pre : List Op) (m : MState),
    m.resolve a = a → (∃ c, m.cell? a = some c ∧ c.formula = some fx ∧ c.formulaLen = len) → ConstFx m fx →
    (inputsAfter m pre).resolve a = a ∧
    (∃ c, (inputsAfter m pre).cell? a = some c ∧ c.formula = some fx ∧ c.formulaLen = len) ∧
    ConstFx (inputsAfter m pre) fx
  | [], m, hr, hc, hf => ⟨hr, hc, hf⟩
  | .set x v :: rest, m, hr, hc, hf => by
    simp only [inputsAfter]
    obtain ⟨c, hcm, hcf, hcl⟩ := hc
    obtain ⟨c', hc', hf', hl'⟩ := (setCellValue_cell m x v a).1 c hcm
    exact inputsAfter_keeps fx a len rest _ (by rw [setCellValue_resolve]; exact hr)
      ⟨c', hc', by rw [hf', hcf], by rw [hl', hcl]⟩ (constFx_set m x v fx hf)
  | .eval _ :: rest, m, hr, hc, hf => by simp only [inputsAfter]; exact inputsAfter_keeps fx a len rest m hr hc hf
  | .get _ :: rest, m, hr, hc, hf => by simp only [inputsAfter]; exact inputsAfter_keeps fx a len rest m hr hc hf

/-- **after any history** of `set_cell_value` / `evaluate` / `get_cell_value` on the model, `evaluate` of a formula cell
    over constants returns the context-free value of its tree for the CURRENT inputs -/
theorem history_const_cell (sem : Sem) (fuel : Nat) (m : MState) (pre : List Op) (a : Addr) (fx : Fx) (len : Nat)
    (hr : m.resolve a = a) (hc : ∃ c, m.cell? a = some c ∧ c.formula = some fx ∧ c.formulaLen = len)
    (hf : ConstFx m fx) :
    (evaluate sem (fuel + 2) (run sem (fuel + 2) m pre).1 a).2.1
      = cellRes a len (pureVal sem (inputsAfter m pre) fx) := by
  obtain ⟨hr', ⟨c', hc', hf', hl'⟩, hcf'⟩ := inputsAfter_keeps fx a len pre m hr hc hf
  rw [(Props.C04.C04 sem (fuel + 2) m pre a).1, ← Props.C04.memo_sound,
    fresh_const_cell sem (inputsAfter m pre) fuel a c' fx hr' hc' hf' hcf', hl']

end XlVerif.Lemmas.X01
