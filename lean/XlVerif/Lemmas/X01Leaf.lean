/-
  XlVerif.Lemmas.X01Leaf — the arguments of a call that are literals or references: what they compile to and the
  value the source gives them; the call node of a registered strict function.
-/
import XlVerif.Lemmas.X01Call
namespace XlVerif.Lemmas.X01
open XlVerif XlVerif.Model.Tokenizer XlVerif.Model.Parser XlVerif.Model.Evaluator XlVerif.Model.Value
open XlVerif.Model.X01 XlVerif.Spec.C02 XlVerif.Lemmas.C02

/-- the Python number a numeric literal is read as (`Number.cast` of the token text: `int` for plain digits,
    otherwise `float`); `numOfLit_spec`: its value is the Spec value of the literal -/
def numOfLit (n : NumLit) : Num :=
  match textNumber Ext.none n.text with
  | .ok k => k
  | _ => .int 0

theorem numOfLit_spec (n : NumLit) (h : n.WF) (hfin : Lemmas.C01.LitFinite n) :
    textNumber Ext.none n.text = .ok (numOfLit n) ∧ (numOfLit n).toRat = Spec.C01.litValue n ∧
      ((n.fp = none ∧ n.exp = none) → numOfLit n = .int (digitsVal n.ip)) := by
  obtain ⟨k, hk, hv, hi⟩ := Lemmas.C01.textNumber_lit n h hfin
  have hk' : textNumber Ext.none n.text = .ok k := hk
  have : numOfLit n = k := by simp [numOfLit, hk']
  rw [this]
  exact ⟨hk', hv, hi⟩

/-- scalar literals and references -/
def IsLeaf : Expr → Bool
  | .num _ _ => true
  | .str _ => true
  | .bool _ => true
  | .err _ => true
  | .ref _ => true
  | _ => false

/-- the value of a leaf: the Spec value of a literal, the current value(s) of the referenced cell(s) -/
def leafVal (src : Source) (sheet : Text) : Expr → V
  | .num n false => .s (.num (numOfLit n))
  | .num n true => .s (.num (.flt (n.value / 100)))
  | .str s => .s (.text s)
  | .bool b => .s (.bool b)
  | .err c => .s (.err c)
  | .ref r => refVal src sheet r
  | _ => .s .blank

section
variable {src : Source} {m : MState} (hc : compile src = .ok m) (hn : src.names = [])
variable (sheet : Text) (hsheet : sheet.contains ':' = false)
include hc hn hsheet

theorem leaf_val (sem : Sem) (x : Expr) (hleaf : IsLeaf x = true) (hwf : WF x) (hl : LitsOK x)
    (hrc : RefsConst src sheet x) (hreg : ∀ r ∈ refsOf x, Registered m sheet r) :
    ∃ fx, toFx sheet (m.ranges.map (·.1)) (astOf x) = .ok fx ∧ pureVal sem m fx = .val (leafVal src sheet x) := by
  cases x with
  | num n p =>
    cases p with
    | true =>
      refine ⟨litFx (.num (.flt (n.value / 100))), ?_, by simp [pureVal, litFx, leafVal]⟩
      simp [astOf, numTok, toFx, operandFx]
    | false =>
      obtain ⟨hk, _, _⟩ := numOfLit_spec n hwf.1 hl
      refine ⟨litFx (.num (numOfLit n)), ?_, by simp [pureVal, litFx, leafVal]⟩
      simp [astOf, numTok, toFx, operandFx, hk]
  | str s => exact ⟨litFx (.text s), by simp [astOf, strTok, toFx, operandFx], by simp [pureVal, litFx, leafVal]⟩
  | bool b =>
    cases b
    · have : toBoolean (.text ['F', 'A', 'L', 'S', 'E']) = .ok false := by decide
      exact ⟨litFx (.bool false), by simp [astOf, boolTok, boolText, toFx, operandFx, this],
        by simp [pureVal, litFx, leafVal]⟩
    · have : toBoolean (.text ['T', 'R', 'U', 'E']) = .ok true := by decide
      exact ⟨litFx (.bool true), by simp [astOf, boolTok, boolText, toFx, operandFx, this],
        by simp [pureVal, litFx, leafVal]⟩
  | err c =>
    have : Model.C01.codeOfText c.text = some c := by cases c <;> decide
    exact ⟨litFx (.err c), by simp [astOf, errTok, toFx, operandFx, this], by simp [pureVal, litFx, leafVal]⟩
  | ref r =>
    obtain ⟨fx, h1, _, h3⟩ := ref_const hc hn sheet hsheet sem r hwf hrc (hreg r (by simp [refsOf]))
    exact ⟨fx, by simpa [astOf, toFx] using h1, by simpa [leafVal] using h3⟩
  | neg e => simp [IsLeaf] at hleaf
  | bin o l r => simp [IsLeaf] at hleaf
  | paren e => simp [IsLeaf] at hleaf
  | call a f args => simp [IsLeaf] at hleaf

theorem leaves_val (sem : Sem) : ∀ (args : List Expr),
    (∀ x ∈ args, IsLeaf x = true ∧ WF x ∧ LitsOK x ∧ RefsConst src sheet x ∧ ∀ r ∈ refsOf x, Registered m sheet r) →
    ∃ fxs, toFxList sheet (m.ranges.map (·.1)) (astsOf args) = .ok fxs ∧ fxs.length = args.length ∧
      pureArgs sem m fxs = .ok (args.map (leafVal src sheet))
  | [], _ => ⟨[], rfl, rfl, by simp [pureArgs]⟩
  | x :: rest, h => by
    obtain ⟨h1, h2, h3, h4, h5⟩ := h x List.mem_cons_self
    obtain ⟨fx, hfx, hv⟩ := leaf_val hc hn sheet hsheet sem x h1 h2 h3 h4 h5
    obtain ⟨fxs, hfxs, hlen, hvs⟩ := leaves_val sem rest fun y hy => h y (List.mem_cons_of_mem _ hy)
    exact ⟨fx :: fxs, by simp [astsOf, toFxList, hfx, hfxs], by simp [hlen], by simp [pureArgs, hv, hvs]⟩

end

/-- the call node of a registered strict function (not IF / AND / OR) with an admissible number of arguments -/
theorem callFx_app (f : Text) (fxs : List Fx) (id : Nat) (fn : Gen.Func) (hid : funcIndex (callName f) = some id)
    (hfn : funcAt id = some fn) (har : arityCheck fn.params fxs.length = .ok)
    (h1 : callName f ≠ nameIF) (h2 : callName f ≠ nameAND) (h3 : callName f ≠ nameOR) :
    callFx f fxs = .app id fxs := by
  simp [callFx, hid, hfn, har, h1, h2, h3]

theorem pureVal_app (sem : Sem) (m : MState) (id : Nat) (fxs : List Fx) (vs : List V)
    (h : pureArgs sem m fxs = .ok vs) : pureVal sem m (.app id fxs) = resOfAppR (sem.app id vs) := by
  simp [pureVal, h]

/-! ### values of expressions, compositionally -/

/-- the formula `x` (written on `sheet`, compiled against the ranges of `m`) has the value `v` -/
def ExprVal (sem : Sem) (m : MState) (sheet : Text) (x : Expr) (v : V) : Prop :=
  ∃ fx, toFx sheet (m.ranges.map (·.1)) (astOf x) = .ok fx ∧ pureVal sem m fx = .val v

/-- the written arguments `args` have the values `vs` (evaluated left to right, none fails) -/
def ArgsVal (sem : Sem) (m : MState) (sheet : Text) (args : List Expr) (vs : List V) : Prop :=
  ∃ fxs, toFxList sheet (m.ranges.map (·.1)) (astsOf args) = .ok fxs ∧ fxs.length = args.length ∧
    pureArgs sem m fxs = .ok vs

theorem ArgsVal.nil (sem : Sem) (m : MState) (sheet : Text) : ArgsVal sem m sheet [] [] :=
  ⟨[], rfl, rfl, by simp [pureArgs]⟩

theorem ArgsVal.cons {sem : Sem} {m : MState} {sheet : Text} {x : Expr} {v : V} {rest : List Expr} {vs : List V}
    (hx : ExprVal sem m sheet x v) (hr : ArgsVal sem m sheet rest vs) : ArgsVal sem m sheet (x :: rest) (v :: vs) := by
  obtain ⟨fx, h1, h2⟩ := hx
  obtain ⟨fxs, h3, h4, h5⟩ := hr
  exact ⟨fx :: fxs, by simp [astsOf, toFxList, h1, h3], by simp [h4], by simp [pureArgs, h2, h5]⟩

theorem ExprVal.paren {sem : Sem} {m : MState} {sheet : Text} {x : Expr} {v : V} (h : ExprVal sem m sheet x v) :
    ExprVal sem m sheet (.paren x) v := by
  obtain ⟨fx, h1, h2⟩ := h
  exact ⟨fx, by simpa [astOf] using h1, h2⟩

/-- a call of a registered strict function whose arguments have values: the compiled node and its outcome -/
theorem call_res {sem : Sem} {m : MState} {sheet : Text} (a : Bool) (f : Text) {args : List Expr} {vs : List V}
    (hargs : ArgsVal sem m sheet args vs) (id : Nat) (fn : Gen.Func) (hid : funcIndex (callName f) = some id)
    (hfn : funcAt id = some fn) (har : arityCheck fn.params args.length = .ok)
    (h1 : callName f ≠ nameIF) (h2 : callName f ≠ nameAND) (h3 : callName f ≠ nameOR) :
    ∃ fx, toFx sheet (m.ranges.map (·.1)) (astOf (.call a f args)) = .ok fx ∧
      pureVal sem m fx = resOfAppR (sem.app id vs) := by
  obtain ⟨fxs, hl, hlen, hp⟩ := hargs
  refine ⟨.app id fxs, ?_, pureVal_app sem m id fxs vs hp⟩
  simp only [astOf, toFx, fnName, hl]
  rw [callFx_app f fxs id fn hid hfn (by rw [hlen]; exact har) h1 h2 h3]

theorem call_exprVal {sem : Sem} {m : MState} {sheet : Text} (a : Bool) (f : Text) {args : List Expr} {vs : List V}
    (hargs : ArgsVal sem m sheet args vs) (id : Nat) (fn : Gen.Func) (hid : funcIndex (callName f) = some id)
    (hfn : funcAt id = some fn) (har : arityCheck fn.params args.length = .ok)
    (h1 : callName f ≠ nameIF) (h2 : callName f ≠ nameAND) (h3 : callName f ≠ nameOR)
    (w : V) (hw : sem.app id vs = .val w) : ExprVal sem m sheet (.call a f args) w := by
  obtain ⟨fx, hfx, hv⟩ := call_res a f hargs id fn hid hfn har h1 h2 h3
  exact ⟨fx, hfx, by rw [hv, hw]; rfl⟩

end XlVerif.Lemmas.X01
