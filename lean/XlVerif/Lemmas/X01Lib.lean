/-
  XlVerif.Lemmas.X01Lib — what `libSem.app` computes for some registered functions on typed arguments: the
  `validate_args` wrapper (`wrapX`, driven by the function's registry entry) unfolded around the body models of the
  property builders.  The ids are looked up in the (regenerated) registry by name.
-/
import XlVerif.Model.X01Sem
namespace XlVerif.Lemmas.X01
open XlVerif XlVerif.Model.Evaluator XlVerif.Model.Value XlVerif.Model.Validate XlVerif.Model.X01

set_option maxRecDepth 100000

/-- the id of a registered function -/
def idOf (name : String) : Nat := (funcIndex name.toList).getD 0
/-- its registry entry -/
def fnOf (name : String) : Gen.Func := (funcAt (idOf name)).getD ⟨[], [], false, [], .none⟩

theorem appOf_body (ext : Ext) (id : Nat) (f : Gen.Func) (body : List VArg → XR V) (args : List V)
    (hf : funcAt id = some f) (hin : isInfixName f.name = false) (hpre : isPrefixName f.name = false)
    (hagg : aggregateOf ext (String.ofList f.name) = none) (hb : bodyOf ext (String.ofList f.name) = some body) :
    appOf ext id args = ofXR id (wrapX ext f body args) := by
  unfold appOf
  simp only [hf, hin, hpre, Bool.false_eq_true, if_false]
  have : funApp ext id f args = ofXR id (wrapX ext f body args) := by simp [funApp, hagg, hb]
  split <;> exact this

theorem appOf_agg (ext : Ext) (id : Nat) (f : Gen.Func) (g : List V → XR V) (args : List V)
    (hf : funcAt id = some f) (hin : isInfixName f.name = false) (hpre : isPrefixName f.name = false)
    (hagg : aggregateOf ext (String.ofList f.name) = some g) :
    appOf ext id args = ofXR id (g args) := by
  unfold appOf
  simp only [hf, hin, hpre, Bool.false_eq_true, if_false]
  have : funApp ext id f args = ofXR id (g args) := by simp [funApp, hagg]
  split <;> exact this

/-! ### text: LEFT -/

def fLEFT : Gen.Func := ⟨"LEFT".toList, "text".toList, true,
  [⟨"text".toList, false, .xlText, false⟩, ⟨"num_chars".toList, false, .xlNumber, true⟩], .xlText⟩
def bLEFT : List VArg → XR V := fun vs => match vs with
  | [.s (.text t)] => ofC17 vText (Model.C17.LEFT t (.int 1))
  | [.s (.text t), .s (.num n)] => ofC17 vText (Model.C17.LEFT t n)
  | _ => .unsup

theorem LEFT_app (ext : Ext) (s : List Char) (k : Num) :
    (libSemOf ext).app (idOf "LEFT") [.s (.text s), .s (.num k)] =
      (match Model.C17.LEFT s k with | .ok t => AppR.val (.s (.text t)) | .error c => .val (.s (.err c))) := by
  simp only [libSemOf]
  rw [appOf_body ext (idOf "LEFT") fLEFT bLEFT _ rfl rfl rfl rfl rfl]
  simp [wrapX, fLEFT, bLEFT, bindArgs, itemOfV, pyOfS, validateAllX, validateParamX, validateParam, annotScalar?,
    castScalar, pyToS, Py.typed?, toStr, toNumber, XR.ofR, XR.map, XR.bind, retCast, ofC17, vText, vErr, ofXR]
  cases Model.C17.LEFT s k <;> simp [ofC17, retCast, castScalar, pyToS, Py.typed?, pyOfS, toStr, XR.ofR, XR.map, XR.bind, ofXR, vText, vErr]

/-! ### rounding: ROUND on whole numbers -/

def fROUND : Gen.Func := ⟨"ROUND".toList, "math".toList, true,
  [⟨"number".toList, false, .xlNumber, false⟩, ⟨"num_digits".toList, false, .xlNumber, true⟩,
   ⟨"_rounding".toList, false, .none, true⟩], .none⟩

theorem ROUND_app_int (ext : Ext) (z d : Int) (hd : d.natAbs ≤ 400) (v : Model.C16.RVal)
    (h : Model.C16.ROUND ⟨decide (z < 0), z.natAbs, 0⟩ (.int d) = .val v) :
    (libSemOf ext).app (idOf "ROUND") [.s (.num (.int z)), .s (.num (.int d))] = .val (.s (.num (.flt v.toRat))) := by
  simp only [libSemOf]
  obtain ⟨body, hb⟩ : ∃ body, bodyOf ext "ROUND" = some body := ⟨_, rfl⟩
  have hnot : ¬ (d.natAbs > 400) := by omega
  have hbody : body [.s (.num (.int z)), .s (.num (.int d))] = .ok (rvalFlt v) := by
    have := hb
    simp only [bodyOf, Option.some.injEq] at this
    rw [← this]
    simp [Model.C16.pyInt, hnot, decOfNum, h, ofC16]
  rw [appOf_body ext (idOf "ROUND") fROUND body _ rfl rfl rfl rfl hb]
  simp [wrapX, fROUND, bindArgs, itemOfV, pyOfS, validateAllX, validateParamX, validateParam, annotScalar?,
    castScalar, pyToS, Py.typed?, toNumber, XR.ofR, XR.map, XR.bind, hbody]
  cases v <;> simp [rvalFlt, vFlt, Model.C16.RVal.toRat, retCast, ofXR]

/-! ### base conversion: DEC2BIN of a whole number -/

def fDEC2BIN : Gen.Func := ⟨"DEC2BIN".toList, "engineering".toList, true,
  [⟨"number".toList, false, .xlAnything, false⟩, ⟨"places".toList, false, .xlAnything, true⟩], .xlText⟩

theorem DEC2BIN_body (ext : Ext) (z : Int) :
    ∃ body, bodyOf ext "DEC2BIN" = some body ∧
      body [.s (.num (.int z))] = ofC19 (Model.C19.call "DEC2BIN".toList (.num (.int z)) none) := by
  obtain ⟨body, hb⟩ : ∃ body, bodyOf ext "DEC2BIN" = some body := ⟨_, rfl⟩
  refine ⟨body, hb, ?_⟩
  have := hb
  simp only [bodyOf, Option.some.injEq] at this
  rw [← this]
  simp

theorem DEC2BIN_app (ext : Ext) (z : Int) (t : List Char)
    (h : Model.C19.call "DEC2BIN".toList (.num (.int z)) none = .ok (.text t)) :
    (libSemOf ext).app (idOf "DEC2BIN") [.s (.num (.int z))] = .val (.s (.text t)) := by
  simp only [libSemOf]
  obtain ⟨body, hb, hbody0⟩ := DEC2BIN_body ext z
  have hbody : body [.s (.num (.int z))] = .ok (.s (.text t)) := by rw [hbody0, h]; rfl
  rw [appOf_body ext (idOf "DEC2BIN") fDEC2BIN body _ rfl rfl rfl rfl hb]
  simp [wrapX, fDEC2BIN, bindArgs, itemOfV, pyOfS, validateAllX, validateParamX, validateParam, annotScalar?,
    castScalar, castFromNative, Py.typed?, XR.ofR, XR.map, XR.bind, hbody, retCast, pyToS, toStr, ofXR]

theorem DEC2BIN_app_err (ext : Ext) (z : Int) (c : Code)
    (h : Model.C19.call "DEC2BIN".toList (.num (.int z)) none = .err c) :
    (libSemOf ext).app (idOf "DEC2BIN") [.s (.num (.int z))] = .val (.s (.err c)) := by
  simp only [libSemOf]
  obtain ⟨body, hb, hbody0⟩ := DEC2BIN_body ext z
  have hbody : body [.s (.num (.int z))] = .xl c := by rw [hbody0, h]; rfl
  rw [appOf_body ext (idOf "DEC2BIN") fDEC2BIN body _ rfl rfl rfl rfl hb]
  simp [wrapX, fDEC2BIN, bindArgs, itemOfV, pyOfS, validateAllX, validateParamX, validateParam, annotScalar?,
    castScalar, castFromNative, Py.typed?, XR.ofR, XR.map, XR.bind, hbody, ofXR, vErr]

/-! ### aggregates: SUM of one range -/

def fSUM : Gen.Func := ⟨"SUM".toList, "math".toList, true,
  [⟨"numbers".toList, true, .tuple .xlNumber, false⟩], .xlNumber⟩

theorem pyOfS_eq_typedPy : pyOfS = Model.C14.typedPy := by
  funext x; cases x <;> rfl

theorem SUM_app_range (ext : Ext) (rows : List (List S)) (k : Num)
    (h : Model.C14.SUM ext [.arr (rows.map fun r => r.map Model.C14.typedPy)] = .ok k) :
    (libSemOf ext).app (idOf "SUM") [.arr rows] = .val (.s (.num k)) := by
  simp only [libSemOf]
  obtain ⟨g, hg⟩ : ∃ g, aggregateOf ext "SUM" = some g := ⟨_, rfl⟩
  have hgv : g [.arr rows] = .ok (vNum k) := by
    have := hg
    simp only [aggregateOf, Option.some.injEq] at this
    rw [← this]
    simp [argOfV, pyOfS_eq_typedPy, h, ofVR]
  rw [appOf_agg ext (idOf "SUM") fSUM g _ rfl rfl rfl hg, hgv]
  simp [vNum, ofXR]

/-! ### criteria: COUNTIF of a range and a text criterion -/

def fCOUNTIF : Gen.Func := ⟨"COUNTIF".toList, "statistics".toList, true,
  [⟨"countRange".toList, false, .xlArray, false⟩, ⟨"criteria".toList, false, .xlAnything, false⟩], .xlNumber⟩

theorem COUNTIF_app (ext : Ext) (rows : List (List S)) (s : List Char) (n : Int)
    (h : Model.C15.COUNTIF ext rows.flatten (.text s) = .ok (.num (.int n))) :
    (libSemOf ext).app (idOf "COUNTIF") [.arr rows, .s (.text s)] = .val (.s (.num (.int n))) := by
  simp only [libSemOf]
  obtain ⟨body, hb⟩ : ∃ body, bodyOf ext "COUNTIF" = some body := ⟨_, rfl⟩
  have hbody : body [.a rows, .s (.text s)] = ofC15 (Model.C15.COUNTIF ext rows.flatten (.text s)) := by
    have := hb
    simp only [bodyOf, Option.some.injEq] at this
    rw [← this]
    simp [rowsOf]
  rw [appOf_body ext (idOf "COUNTIF") fCOUNTIF body _ rfl rfl rfl rfl hb]
  simp [wrapX, fCOUNTIF, bindArgs, itemOfV, pyOfS, validateAllX, validateParamX, validateParam, annotScalar?,
    castScalar, castFromNative, Py.typed?, XR.ofR, XR.map, XR.bind, hbody, h, ofC15, retCast, pyToS, toNumber, ofXR, vNum]

/-! ### lookup: VLOOKUP(key, table, col) -/

def fVLOOKUP : Gen.Func := ⟨"VLOOKUP".toList, "lookup".toList, true,
  [⟨"lookup_value".toList, false, .xlAnything, false⟩, ⟨"table_array".toList, false, .xlArray, false⟩,
   ⟨"col_index_num".toList, false, .xlNumber, false⟩, ⟨"range_lookup".toList, false, .none, true⟩], .xlAnything⟩

theorem VLOOKUP_app (ext : Ext) (key : S) (hkey : ∀ e, key ≠ .err e) (rows : List (List S)) (c : Int) (v : S)
    (h : Model.C15.VLOOKUP key rows (.int c) false = .ok v) :
    (libSemOf ext).app (idOf "VLOOKUP") [.s key, .arr rows, .s (.num (.int c))] = .val (.s v) := by
  simp only [libSemOf]
  obtain ⟨body, hb⟩ : ∃ body, bodyOf ext "VLOOKUP" = some body := ⟨_, rfl⟩
  have hbody : body [.s key, .a rows, .s (.num (.int c))] = .ok (.s v) := by
    have := hb
    simp only [bodyOf, Option.some.injEq] at this
    rw [← this]
    simp only [rowsOf, h]
    cases v <;> rfl
  rw [appOf_body ext (idOf "VLOOKUP") fVLOOKUP body _ rfl rfl rfl rfl hb]
  cases key <;> (try (exact absurd rfl (hkey _))) <;>
  simp [wrapX, fVLOOKUP, bindArgs, itemOfV, pyOfS, validateAllX, validateParamX, validateParam, annotScalar?,
    castScalar, castFromNative, Py.typed?, XR.ofR, XR.map, XR.bind, hbody, retCast, pyToS, toNumber, ofXR]

/-! ### financial: NPV of literal cash flows -/

def fNPV : Gen.Func := ⟨"NPV".toList, "financial".toList, true,
  [⟨"rate".toList, false, .xlNumber, false⟩, ⟨"values".toList, true, .tuple .xlNumber, false⟩], .xlNumber⟩

theorem flattenItems_nums (cs : List Num) :
    flattenItems (cs.map fun c => Item.sc (.xNumber c)) = cs.map fun c => Sum.inr (Py.xNumber c) := by
  induction cs with
  | nil => rfl
  | cons c cs ih => simp [flattenItems, ih]

theorem firstErrItem_nums (cs : List Num) :
    firstErrItem (cs.map fun c => (Sum.inr (Py.xNumber c) : S ⊕ Py)) = none := by
  induction cs with
  | nil => rfl
  | cons c cs ih => simp [firstErrItem, typedOf, isErrPy, ih]

theorem castItems_nums (ext : Ext) (cs : List Num) :
    List.filterMap (fun x => match castScalar ext XlT.number (typedOf x) with | R.ok s => some s | _ => none)
      (List.filter (fun x => !isBlankPy (typedOf x)) (cs.map fun c => (Sum.inr (Py.xNumber c) : S ⊕ Py)))
      = cs.map S.num := by
  induction cs with
  | nil => rfl
  | cons c cs ih =>
    rw [List.map_cons, List.filter_cons]
    have h1 : (!isBlankPy (typedOf (Sum.inr (Py.xNumber c) : S ⊕ Py))) = true := rfl
    rw [if_pos h1, List.filterMap_cons]
    have h2 : castScalar ext XlT.number (typedOf (Sum.inr (Py.xNumber c) : S ⊕ Py)) = R.ok (S.num c) := by
      simp [castScalar, typedOf, pyToS, Py.typed?, toNumber]
    rw [h2]
    exact congrArg (S.num c :: ·) ih

theorem validateTuple_nums (ext : Ext) (cs : List Num) :
    validateTuple ext .number (cs.map fun c => Item.sc (.xNumber c)) = .ok (cs.map S.num) := by
  unfold validateTuple
  rw [flattenItems_nums]
  simp only [firstErrItem_nums]
  exact congrArg R.ok (castItems_nums ext cs)

theorem NPV_app (ext : Ext) (r : Num) (cs : List Num) (q : Rat)
    (h : Model.C20.NPV r.toRat (cs.map Num.toRat) = .ok q) :
    (libSemOf ext).app (idOf "NPV") (.s (.num r) :: cs.map fun c => V.s (.num c)) = .val (.s (.num (.flt q))) := by
  simp only [libSemOf]
  obtain ⟨body, hb⟩ : ∃ body, bodyOf ext "NPV" = some body := ⟨_, rfl⟩
  have hnums : ∀ cs : List Num, numsOf (cs.map S.num) = some cs := by
    intro cs
    induction cs with
    | nil => rfl
    | cons c cs ih => simp [numsOf, ih]
  have hnums := hnums cs
  have hbody : body [.s (.num r), .tup (cs.map S.num)] = ofC20 (Model.C20.NPV r.toRat (cs.map Num.toRat)) := by
    have := hb
    simp only [bodyOf, Option.some.injEq] at this
    rw [← this]
    simp [hnums]
  rw [appOf_body ext (idOf "NPV") fNPV body _ rfl rfl rfl rfl hb]
  have hitems : (cs.map fun c => V.s (.num c)).map itemOfV = cs.map fun c => Item.sc (.xNumber c) := by
    simp [itemOfV, pyOfS]
  simp [wrapX, fNPV, bindArgs, itemOfV, pyOfS, validateAllX, validateParamX, validateParam, annotScalar?,
    castScalar, pyToS, Py.typed?, toNumber, XR.ofR, XR.map, XR.bind]
  rw [show (cs.map (itemOfV ∘ fun c => V.s (.num c))) = cs.map (fun c => Item.sc (.xNumber c)) from by
    simp [Function.comp, itemOfV, pyOfS]]
  simp [validateTuple_nums, XR.ofR, XR.map, XR.bind, hbody, h, ofC20, retCast, castScalar, pyToS, Py.typed?, pyOfS,
    toNumber, ofXR, vFlt, vNum]

/-! ### dates: YEAR / MONTH / DAY of a number, DATE of three numbers -/

def fSerial (name modl : String) : Gen.Func := ⟨name.toList, modl.toList, true,
  [⟨"serial_number".toList, false, .xlNumber, false⟩], .xlNumber⟩

theorem YEAR_app (ext : Ext) (n : Num) (y : Int) (h : Model.C18.YEAR n = .ok y) :
    (libSemOf ext).app (idOf "YEAR") [.s (.num n)] = .val (.s (.num (.int y))) := by
  simp only [libSemOf]
  obtain ⟨body, hb⟩ : ∃ body, bodyOf ext "YEAR" = some body := ⟨_, rfl⟩
  have hbody : body [.s (.num n)] = ofC18 vInt (Model.C18.YEAR n) := by
    have := hb
    simp only [bodyOf, Option.some.injEq] at this
    rw [← this]
    try rfl
  rw [appOf_body ext (idOf "YEAR") (fSerial "YEAR" "date") body _ rfl rfl rfl rfl hb]
  simp [wrapX, fSerial, bindArgs, itemOfV, pyOfS, validateAllX, validateParamX, validateParam, annotScalar?,
    castScalar, pyToS, Py.typed?, toNumber, XR.ofR, XR.map, XR.bind, hbody, h, ofC18, vInt, retCast, ofXR, vNum]

theorem MONTH_app (ext : Ext) (n : Num) (y : Int) (h : Model.C18.MONTH n = .ok y) :
    (libSemOf ext).app (idOf "MONTH") [.s (.num n)] = .val (.s (.num (.int y))) := by
  simp only [libSemOf]
  obtain ⟨body, hb⟩ : ∃ body, bodyOf ext "MONTH" = some body := ⟨_, rfl⟩
  have hbody : body [.s (.num n)] = ofC18 vInt (Model.C18.MONTH n) := by
    have := hb
    simp only [bodyOf, Option.some.injEq] at this
    rw [← this]
    try rfl
  rw [appOf_body ext (idOf "MONTH") (fSerial "MONTH" "date") body _ rfl rfl rfl rfl hb]
  simp [wrapX, fSerial, bindArgs, itemOfV, pyOfS, validateAllX, validateParamX, validateParam, annotScalar?,
    castScalar, pyToS, Py.typed?, toNumber, XR.ofR, XR.map, XR.bind, hbody, h, ofC18, vInt, retCast, ofXR, vNum]

theorem DAY_app (ext : Ext) (n : Num) (y : Int) (h : Model.C18.DAY n = .ok y) :
    (libSemOf ext).app (idOf "DAY") [.s (.num n)] = .val (.s (.num (.int y))) := by
  simp only [libSemOf]
  obtain ⟨body, hb⟩ : ∃ body, bodyOf ext "DAY" = some body := ⟨_, rfl⟩
  have hbody : body [.s (.num n)] = ofC18 vInt (Model.C18.DAY n) := by
    have := hb
    simp only [bodyOf, Option.some.injEq] at this
    rw [← this]
    try rfl
  rw [appOf_body ext (idOf "DAY") (fSerial "DAY" "date") body _ rfl rfl rfl rfl hb]
  simp [wrapX, fSerial, bindArgs, itemOfV, pyOfS, validateAllX, validateParamX, validateParam, annotScalar?,
    castScalar, pyToS, Py.typed?, toNumber, XR.ofR, XR.map, XR.bind, hbody, h, ofC18, vInt, retCast, ofXR, vNum]

def fDATE : Gen.Func := ⟨"DATE".toList, "date".toList, true,
  [⟨"year".toList, false, .xlNumber, false⟩, ⟨"month".toList, false, .xlNumber, false⟩,
   ⟨"day".toList, false, .xlNumber, false⟩], .xlDateTime⟩

theorem DATE_app (ext : Ext) (y mo d : Num) (t : Model.C18.DT) (h : Model.C18.DATE y mo d = .ok t) :
    (libSemOf ext).app (idOf "DATE") [.s (.num y), .s (.num mo), .s (.num d)]
      = .val (.s (.date (Model.C18.datetimeToNumber t))) := by
  simp only [libSemOf]
  obtain ⟨body, hb⟩ : ∃ body, bodyOf ext "DATE" = some body := ⟨_, rfl⟩
  have hbody : body [.s (.num y), .s (.num mo), .s (.num d)] = ofC18 dateV (Model.C18.DATE y mo d) := by
    have := hb
    simp only [bodyOf, Option.some.injEq] at this
    rw [← this]
    try rfl
  rw [appOf_body ext (idOf "DATE") fDATE body _ rfl rfl rfl rfl hb]
  simp [wrapX, fDATE, bindArgs, itemOfV, pyOfS, validateAllX, validateParamX, validateParam, annotScalar?,
    castScalar, pyToS, Py.typed?, toNumber, XR.ofR, XR.map, XR.bind, hbody, h, ofC18, dateV, retCast, castDateTimeS, ofXR]

end XlVerif.Lemmas.X01
