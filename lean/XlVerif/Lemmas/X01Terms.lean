/-
  XlVerif.Lemmas.X01Terms — the ranges a formula text refers to are registered by `compile`.

  * `getTokens_render_eq`: `XLFormula.__post_init__` tokenizes the text WITH its leading `=`; for every rendering of a
    well-formed formula the tokens are those of C02 (`toks e`) — leading blanks after the `=` included.
  * `term_mem_termsLoop`: the term `XLFormula` registers for a reference token is `fullAddress` of the token (the
    duplicate test of the loop compares raw token values with terms; it never loses an address).
  * `compile_range_registered`: in the compiled model, every reference token of a formula cell whose address contains a
    `:` is a key of `model.ranges`, bound to the matrix `resolve_ranges` gives for that address.
-/
import XlVerif.Lemmas.X01Compile
import XlVerif.Props.C02
namespace XlVerif.Lemmas.X01
open XlVerif XlVerif.Model.Tokenizer XlVerif.Model.Parser XlVerif.Model.Evaluator XlVerif.Model.Value
open XlVerif.Model.X01 XlVerif.Spec.C02 XlVerif.Lemmas.C02

/-! ### the tokens of a rendering, with the leading `=` -/

theorem pass2_lead (b : Blanks) (e : Expr) (r0 r1 : Run) :
    pass2 (wsT r0 ++ (raw b e ++ wsT r1)) = raw0 e := by
  unfold pass2
  by_cases h0 : r0 = []
  · have hw : wsT r0 = [] := by simp [wsT, h0]
    rw [hw, List.nil_append, p2 e b none (wsT r1) [] (fun l => pass2_ws_end l r1)]
    simp
  · have hw : wsT r0 = [wsTok] := by simp [wsT, h0]
    rw [hw]
    have : pass2Aux none ([wsTok] ++ (raw b e ++ wsT r1)) = pass2Aux (some wsTok) (raw b e ++ wsT r1) := by
      simp [pass2Aux, wsTok, tok]
    rw [this, p2 e b (some wsTok) (wsT r1) [] (fun l => pass2_ws_end l r1)]
    simp

/-- `ExcelParser().getTokens(formula)` on the full text of a rendering (`=`, blanks, the expression, blanks) -/
theorem getTokens_render_eq (e : Expr) (hwf : WF e) (b : Blanks) : getTokens (render b e) = .ok (toks e) := by
  obtain ⟨c, cs, hc, hok⟩ := body_head e hwf (b.sub 0)
  unfold getTokens render
  rw [pass1_eq]
  have hs : stripLeading ('=' :: sp (b.slot 0) ++ body (b.sub 0) e ++ sp (b.slot 1))
      = sp (b.slot 0) ++ (body (b.sub 0) e ++ sp (b.slot 1)) := by
    have : isBlank '=' = false := by decide
    simp [stripLeading, this]
  rw [hs, hc, List.cons_append, lex_sp (b.slot 0) {} c (cs ++ sp (b.slot 1)) hok.1 rfl, ← List.cons_append, ← hc]
  rw [Props.C02.lex_render e hwf (b.sub 0) _ (sp (b.slot 1)) rfl (delim_sp_nil _), lex_sp_end (b.slot 1) _ rfl]
  simp only [fin, List.nil_append]
  rw [flushAs_nil _ _ rfl]
  simp only [List.append_assoc, pass2_lead, pass3_raw0 e hwf, pass4_toks]

/-! ### texts -/

theorem rsplitLast_none' (sep : Char) : ∀ (s : List Char), s.contains sep = false → Model.C03.rsplitLast sep s = none
  | [], _ => rfl
  | c :: s, h => by
    simp only [List.contains_cons, Bool.or_eq_false_iff] at h
    have hc : ¬ c = sep := by
      intro e; subst e; simp at h
    simp [Model.C03.rsplitLast, rsplitLast_none' sep s h.2, hc]

theorem rsplitLast_append' (sep : Char) (coord : List Char) (hc : coord.contains sep = false) :
    ∀ (s : List Char), Model.C03.rsplitLast sep (s ++ sep :: coord) = some (s, coord)
  | [] => by simp [Model.C03.rsplitLast, rsplitLast_none' sep coord hc]
  | c :: s => by simp [Model.C03.rsplitLast, rsplitLast_append' sep coord hc s]

/-- `rpartition` finds a separator whenever there is one -/
theorem rsplitLast_ne_none (c : Char) : ∀ (w : List Char), w.contains c = true → Model.C03.rsplitLast c w ≠ none
  | [], hw => by simp at hw
  | x :: w, hw => by
    simp only [Model.C03.rsplitLast]
    cases hrw : Model.C03.rsplitLast c w with
    | some p => simp
    | none =>
      simp only
      by_cases hx : x = c
      · simp [hx]
      · simp only [List.contains_cons, Bool.or_eq_true, beq_iff_eq] at hw
        rcases hw with hw | hw
        · exact absurd hw.symm hx
        · exact absurd hrw (rsplitLast_ne_none c w hw)

theorem contains_false_of_none {c : Char} {w : List Char} (h : Model.C03.rsplitLast c w = none) : w.contains c = false := by
  cases hc : w.contains c with
  | false => rfl
  | true => exact absurd h (rsplitLast_ne_none c w hc)

/-- what `rpartition` returns: the text is `before ++ sep :: after` and `after` has no `sep` -/
theorem rsplitLast_some (sep : Char) : ∀ (v s coord : List Char), Model.C03.rsplitLast sep v = some (s, coord) →
    v = s ++ sep :: coord ∧ coord.contains sep = false
  | [], s, coord, h => by simp [Model.C03.rsplitLast] at h
  | c :: v, s, coord, h => by
    simp only [Model.C03.rsplitLast] at h
    cases hr : Model.C03.rsplitLast sep v with
    | some p =>
      obtain ⟨a, b⟩ := p
      rw [hr] at h
      simp only [Option.some.injEq, Prod.mk.injEq] at h
      obtain ⟨h1, h2⟩ := h
      subst h1; subst h2
      obtain ⟨e1, e2⟩ := rsplitLast_some sep v a b hr
      exact ⟨by rw [e1]; rfl, e2⟩
    | none =>
      rw [hr] at h
      simp only at h
      split at h
      · rename_i hcs
        simp only [Option.some.injEq, Prod.mk.injEq] at h
        obtain ⟨h1, h2⟩ := h
        subst h1; subst h2; subst hcs
        exact ⟨rfl, contains_false_of_none hr⟩
      · cases h

theorem removeChar_idem (c : Char) (s : List Char) :
    Model.C03.removeChar c (Model.C03.removeChar c s) = Model.C03.removeChar c s := by
  simp [Model.C03.removeChar, List.filter_filter]

theorem contains_removeChar_false {c x : Char} {s : List Char} (h : s.contains x = false) :
    (Model.C03.removeChar c s).contains x = false := by
  rw [Bool.eq_false_iff] at h ⊢
  intro hc
  apply h
  simp only [Model.C03.removeChar, List.contains_eq_mem, decide_eq_true_eq] at hc ⊢
  exact (List.mem_filter.mp hc).1

/-- `full_address` of a sheet-qualified token: the markers go from the coordinate part -/
theorem fullAddress_split {v s coord : Text} (sheet : Text) (h : Model.C03.rsplitLast '!' v = some (s, coord)) :
    Model.C03.fullAddress v sheet = s ++ '!' :: Model.C03.removeChar '$' coord := by
  have hhas : Model.C03.has '!' (s ++ '!' :: Model.C03.removeChar '$' coord) = true := by simp [Model.C03.has]
  simp [Model.C03.fullAddress, Model.C03.stripCoordDollar, h, hhas]

/-- … of an unqualified token: the sheet of the context is prefixed -/
theorem fullAddress_plain {v : Text} (sheet : Text) (h : v.contains '!' = false) :
    Model.C03.fullAddress v sheet = sheet ++ '!' :: Model.C03.removeChar '$' v := by
  have hno : Model.C03.has '!' (Model.C03.removeChar '$' v) = false := contains_removeChar_false h
  simp [Model.C03.fullAddress, Model.C03.stripCoordDollar, rsplitLast_none' '!' v h, hno]

/-- the address is a fixed point of `full_address`: absolute markers gone, sheet present -/
theorem fullAddress_idem (v sheet : Text) :
    Model.C03.fullAddress (Model.C03.fullAddress v sheet) sheet = Model.C03.fullAddress v sheet := by
  cases hr : Model.C03.rsplitLast '!' v with
  | some p =>
    obtain ⟨s, coord⟩ := p
    obtain ⟨_, hno⟩ := rsplitLast_some '!' v s coord hr
    have hno' := contains_removeChar_false (c := '$') hno
    rw [fullAddress_split sheet hr, fullAddress_split sheet (rsplitLast_append' '!' _ hno' s), removeChar_idem]
  | none =>
    have hv := contains_false_of_none hr
    have hno' := contains_removeChar_false (c := '$') hv
    rw [fullAddress_plain sheet hv, fullAddress_split sheet (rsplitLast_append' '!' _ hno' sheet), removeChar_idem]

theorem fullAddress_has_bang (v sheet : Text) : Model.C03.has '!' (Model.C03.fullAddress v sheet) = true := by
  unfold Model.C03.fullAddress
  simp only
  split
  · assumption
  · simp [Model.C03.has]

/-! ### `XLFormula.terms` -/

/-- the token values of the range operands -/
def rangeVals (ts : List Tok) : List Text :=
  ts.filterMap fun t =>
    if t.t = .operand && t.st = .range then (match t.v with | .s v => some v | .f _ => none) else none

theorem formulaTerms_render (sheet : Text) (e : Expr) (hwf : WF e) (b : Blanks) :
    formulaTerms sheet (render b e) = .ok (Model.C03.termsLoop sheet (rangeVals (toks e)) []) := by
  unfold formulaTerms
  rw [getTokens_render_eq e hwf b]
  rfl

theorem termsLoop_step (sheet : Text) (tv : Text) (rest acc : List Text) :
    Model.C03.termsLoop sheet (tv :: rest) acc =
      if acc.contains tv then Model.C03.termsLoop sheet rest acc
      else Model.C03.termsLoop sheet rest (acc ++ [Model.C03.fullAddress tv sheet]) := by
  simp [Model.C03.termsLoop, Model.C03.fullAddress]

/-- nothing is lost: what is in the accumulator stays, and every token contributes its address -/
theorem termsLoop_mem (sheet : Text) : ∀ (refs acc : List Text),
    (∀ t ∈ acc, Model.C03.fullAddress t sheet = t) →
    (∀ t ∈ acc, t ∈ Model.C03.termsLoop sheet refs acc) ∧
    (∀ tv ∈ refs, Model.C03.fullAddress tv sheet ∈ Model.C03.termsLoop sheet refs acc)
  | [], acc, _ => ⟨fun t ht => by simpa [Model.C03.termsLoop] using ht, fun _ h => by cases h⟩
  | tv :: rest, acc, hn => by
    rw [termsLoop_step]
    by_cases hc : acc.contains tv = true
    · simp only [hc, if_true]
      obtain ⟨i1, i2⟩ := termsLoop_mem sheet rest acc hn
      refine ⟨i1, ?_⟩
      intro x hx
      rcases List.mem_cons.mp hx with rfl | hx
      · have hmem : x ∈ acc := by simpa using hc
        rw [hn x hmem]
        exact i1 x hmem
      · exact i2 x hx
    · simp only [hc, Bool.false_eq_true, if_false]
      have hn' : ∀ t ∈ acc ++ [Model.C03.fullAddress tv sheet], Model.C03.fullAddress t sheet = t := by
        intro t ht
        rcases List.mem_append.mp ht with ht | ht
        · exact hn t ht
        · simp only [List.mem_singleton] at ht
          subst ht
          exact fullAddress_idem tv sheet
      obtain ⟨i1, i2⟩ := termsLoop_mem sheet rest _ hn'
      refine ⟨fun t ht => i1 t (List.mem_append_left _ ht), ?_⟩
      intro x hx
      rcases List.mem_cons.mp hx with rfl | hx
      · exact i1 _ (List.mem_append_right _ (List.mem_singleton.mpr rfl))
      · exact i2 x hx

theorem term_mem_termsLoop (sheet : Text) (refs : List Text) (tv : Text) (h : tv ∈ refs) :
    Model.C03.fullAddress tv sheet ∈ Model.C03.termsLoop sheet refs [] :=
  (termsLoop_mem sheet refs [] (fun _ h => by cases h)).2 tv h

/-! ### `build_ranges` registers them -/

/-- every key of `model.ranges` is bound to the matrix `resolve_ranges` gives for it -/
def RegOK (ranges : List (Text × Range)) : Prop :=
  ∀ t r, assoc t ranges = some r → ∃ s mat, Model.C03.resolveRanges t = .val (s, mat) ∧ r = { cells := mat }

theorem buildTerm_reg (ds : Text) (b b' : Built) (term : Text) (h : buildTerm ds b term = .ok b') (hreg : RegOK b.ranges) :
    RegOK b'.ranges ∧ (∀ t, (assoc t b.ranges).isSome → (assoc t b'.ranges).isSome) ∧
    (Model.C03.has ':' term = true → Model.C03.has '!' term = true → (assoc term b'.ranges).isSome) := by
  unfold buildTerm at h
  simp only at h
  by_cases hc : Model.C03.has ':' term = true
  · simp only [hc, if_true] at h
    generalize hrg : (if Model.C03.has '!' term = true then term else ds ++ ['!'] ++ term) = range at h
    cases hr : Model.C03.resolveRanges range with
    | val p =>
      obtain ⟨s, mtx⟩ := p
      rw [hr] at h
      simp only [assoc_assocSet, if_true] at h
      cases ha : addBlanks (List.flatten mtx) b.cells with
      | error e => rw [ha] at h; simp at h
      | ok cells =>
        rw [ha] at h
        simp only [Except.ok.injEq] at h
        subst h
        refine ⟨?_, ?_, ?_⟩
        · intro t r ht
          simp only [assoc_assocSet] at ht
          by_cases e : t = range
          · simp only [e, if_true, Option.some.injEq] at ht
            subst e
            exact ⟨s, mtx, hr, ht.symm⟩
          · simp only [e, if_false] at ht
            exact hreg t r ht
        · intro t ht
          simp only [assoc_assocSet]
          by_cases e : t = range <;> simp [e, ht]
        · intro _ hb
          simp only [hb, if_true] at hrg
          subst hrg
          simp [assoc_assocSet]
    | crash _ => rw [hr] at h; simp at h
    | nan => rw [hr] at h; simp at h
    | posInf => rw [hr] at h; simp at h
    | negInf => rw [hr] at h; simp at h
    | diverge => rw [hr] at h; simp at h
  · simp only [hc, Bool.false_eq_true, if_false] at h
    cases hr : assoc term b.ranges with
    | none =>
      rw [hr] at h
      simp only [Except.ok.injEq] at h
      subst h
      exact ⟨hreg, fun _ h => h, fun h' => absurd h' hc⟩
    | some r =>
      rw [hr] at h
      simp only at h
      cases ha : addBlanks r.cells.flatten b.cells with
      | error e => rw [ha] at h; simp at h
      | ok cells =>
        rw [ha] at h
        simp only [Except.ok.injEq] at h
        subst h
        exact ⟨hreg, fun _ h => h, fun h' => absurd h' hc⟩

theorem buildTerms_reg (ds : Text) : ∀ (ts : List Text) (b b' : Built), buildTerms ds ts b = .ok b' → RegOK b.ranges →
    RegOK b'.ranges ∧ (∀ t, (assoc t b.ranges).isSome → (assoc t b'.ranges).isSome) ∧
    (∀ t ∈ ts, Model.C03.has ':' t = true → Model.C03.has '!' t = true → (assoc t b'.ranges).isSome)
  | [], b, b', h, hreg => by
    simp only [buildTerms, Except.ok.injEq] at h
    subst h
    exact ⟨hreg, fun _ h => h, fun _ h => by cases h⟩
  | t :: rest, b, b', h, hreg => by
    simp only [buildTerms] at h
    cases ht : buildTerm ds b t with
    | error e => rw [ht] at h; simp at h
    | ok b1 =>
      rw [ht] at h
      obtain ⟨r1, k1, a1⟩ := buildTerm_reg ds b b1 t ht hreg
      obtain ⟨r2, k2, a2⟩ := buildTerms_reg ds rest b1 b' h r1
      refine ⟨r2, fun x hx => k2 x (k1 x hx), ?_⟩
      intro x hx hc hb
      rcases List.mem_cons.mp hx with rfl | hx
      · exact k2 _ (a1 hc hb)
      · exact a2 x hx hc hb

theorem assoc_mem {β} {k : Addr} {v : β} : ∀ {l : List (Addr × β)}, assoc k l = some v → (k, v) ∈ l
  | [], h => by simp [assoc] at h
  | (k', v') :: rest, h => by
    simp only [assoc] at h
    split at h
    · rename_i hk; cases h; subst hk; exact List.mem_cons_self
    · exact List.mem_cons_of_mem _ (assoc_mem h)

/-- **`compile_range_registered`.**  In the compiled model every reference token of a formula cell whose address
    contains a `:` is a key of `model.ranges`, bound to the matrix of `resolve_ranges` of that address. -/
theorem compile_range_registered {src : Source} {m : MState} (h : compile src = .ok m) (k : Text) (e : Expr) (hwf : WF e)
    (b : Blanks) (hcell : srcLookup src.defaultSheet k src.cells = some (.formula (render b e)))
    (tv : Text) (htv : tv ∈ rangeVals (toks e))
    (hcolon : Model.C03.has ':' (Model.C03.fullAddress tv (Model.C03.sheetOf k)) = true) :
    ∃ s mat, Model.C03.resolveRanges (Model.C03.fullAddress tv (Model.C03.sheetOf k)) = .val (s, mat) ∧
      m.range? (Model.C03.fullAddress tv (Model.C03.sheetOf k)) = some { cells := mat } := by
  obtain ⟨cells, names, bb, cs, h1, _, h3, _, rfl⟩ := compile_inv h
  obtain ⟨_, _, r3⟩ := readCells_assoc _ _ _ _ h1 k
  obtain ⟨terms, hterms, hpc⟩ := r3 _ hcell
  rw [formulaTerms_render _ e hwf b] at hterms
  simp only [Except.ok.injEq] at hterms
  have hmemT : Model.C03.fullAddress tv (Model.C03.sheetOf k) ∈ terms := by
    rw [← hterms]; exact term_mem_termsLoop _ _ tv htv
  have hall : Model.C03.fullAddress tv (Model.C03.sheetOf k) ∈
      (cells.filterMap fun kc => kc.2.formula.map (·.terms)).flatten := by
    rw [List.mem_flatten]
    refine ⟨terms, ?_, hmemT⟩
    rw [List.mem_filterMap]
    exact ⟨(k, _), assoc_mem hpc, by simp⟩
  unfold buildRanges at h3
  obtain ⟨hreg, _, hadd⟩ := buildTerms_reg _ _ _ _ h3 (fun t r ht => by simp [assoc] at ht)
  have hs := hadd _ hall hcolon (fullAddress_has_bang _ _)
  obtain ⟨r, hr⟩ := Option.isSome_iff_exists.mp hs
  obtain ⟨s, mat, hres, hrm⟩ := hreg _ r hr
  exact ⟨s, mat, hres, by simp [MState.range?, hr, hrm]⟩

end XlVerif.Lemmas.X01
