/-
  XlVerif.Lemmas.X01Total — `toFx` is total on the parse trees of well-formed formulas and produces one
  `Fx` node per construct (plus the `ValueExpr` defaults of omitted IF branches).
-/
import XlVerif.Lemmas.X01
import XlVerif.Lemmas.C01
namespace XlVerif.Lemmas.X01
open XlVerif XlVerif.Model.Tokenizer XlVerif.Model.Parser XlVerif.Model.Evaluator XlVerif.Model.Value
open XlVerif.Model.X01 XlVerif.Spec.C02 XlVerif.Lemmas.C02

/-! ### node counts -/

mutual
def fxNodes : Fx → Nat
  | .lit _ => 1
  | .ref _ => 1
  | .rng _ => 1
  | .app _ args => 1 + fxNodesL args
  | .iff c t e => 1 + fxNodes c + fxNodes t + fxNodes e
  | .sc _ args => 1 + fxNodesL args
  | .fail _ args => 1 + fxNodesL args
def fxNodesL : List Fx → Nat
  | [] => 0
  | a :: as => fxNodes a + fxNodesL as
end

/-- branches of `IF` that the call omits (`ValueExpr(True)` / `ValueExpr(False)` stand in for them) -/
def ifOmitted (tvalue : Text) (n : Nat) : Nat :=
  if callName tvalue = nameIF then (if n = 1 then 2 else if n = 2 then 1 else 0) else 0

mutual
def astNodes : Ast → Nat
  | .operand _ => 1
  | .unop _ r => 1 + astNodes r
  | .binop _ l r => 1 + astNodes l + astNodes r
  | .func _ args => 1 + astNodesL args
def astNodesL : List Ast → Nat
  | [] => 0
  | a :: as => astNodes a + astNodesL as
end

mutual
def omitted : Ast → Nat
  | .operand _ => 0
  | .unop _ r => omitted r
  | .binop _ l r => omitted l + omitted r
  | .func t args => (match t.v with | .s tv => ifOmitted tv args.length | .f _ => 0) + omittedL args
def omittedL : List Ast → Nat
  | [] => 0
  | a :: as => omitted a + omittedL as
end

/-! ### table obligations on the registry: IF takes one to three arguments; the operator functions exist -/

/-- the registry entry of IF: registered, one required and two optional positional parameters -/
def ifCheck : Bool :=
  match funcIndex nameIF with
  | some i =>
    (match funcAt i with
     | some f =>
       (arityCheck f.params 0 != .ok) && (arityCheck f.params 1 == .ok) && (arityCheck f.params 2 == .ok) &&
       (arityCheck f.params 3 == .ok) && (f.params.length == 3) && f.params.all (fun p => !p.variadic)
     | none => false)
  | none => false

theorem ifCheck_true : ifCheck = true := by decide +kernel

theorem arity_tooMany : ∀ (ps : List Gen.Param) (k : Nat), ps.all (fun p => !p.variadic) = true → ps.length < k →
    arityCheck ps k = .tooMany
  | [], 0, _, h => by simp at h
  | [], k + 1, _, _ => rfl
  | p :: ps, 0, _, h => by simp at h
  | p :: ps, k + 1, hv, h => by
    simp only [List.all_cons, Bool.and_eq_true, Bool.not_eq_eq_eq_not, Bool.not_true] at hv
    simp only [arityCheck, hv.1, Bool.false_eq_true, if_false]
    exact arity_tooMany ps k hv.2 (by simpa using h)

theorem if_registered : ∃ i f, funcIndex nameIF = some i ∧ funcAt i = some f ∧
    arityCheck f.params 0 ≠ .ok ∧ arityCheck f.params 1 = .ok ∧ arityCheck f.params 2 = .ok ∧
    arityCheck f.params 3 = .ok ∧ ∀ n, arityCheck f.params (n + 4) = .tooMany := by
  have h := ifCheck_true
  unfold ifCheck at h
  cases hi : funcIndex nameIF with
  | none => rw [hi] at h; simp at h
  | some i =>
    rw [hi] at h
    simp only at h
    cases hf : funcAt i with
    | none => rw [hf] at h; simp at h
    | some f =>
      rw [hf] at h
      simp only [Bool.and_eq_true, bne_iff_ne, ne_eq, beq_iff_eq] at h
      obtain ⟨⟨⟨⟨⟨h0, h1⟩, h2⟩, h3⟩, hlen⟩, hvar⟩ := h
      exact ⟨i, f, rfl, hf, h0, h1, h2, h3, fun n => arity_tooMany _ _ hvar (by omega)⟩

theorem and_or_not_if : nameAND ≠ nameIF ∧ nameOR ≠ nameIF := by decide

theorem fxNodes_opFx (table : List (Text × Text)) (sym : Text) (args : List Fx) (fx : Fx)
    (h : opFx table sym args = .ok fx) : fxNodes fx = 1 + fxNodesL args := by
  unfold opFx at h
  cases hl : lookup sym table with
  | none => rw [hl] at h; simp only [Except.ok.injEq] at h; subst h; simp [fxNodes]
  | some f =>
    rw [hl] at h
    simp only at h
    cases hi : funcIndex f with
    | none => rw [hi] at h; simp at h
    | some id => rw [hi] at h; simp only [Except.ok.injEq] at h; subst h; simp [fxNodes]

theorem fxNodes_callFx (tv : Text) (args : List Fx) :
    fxNodes (callFx tv args) = 1 + fxNodesL args + ifOmitted tv args.length := by
  obtain ⟨i, f, hi, hf, h0, h1, h2, h3, h4⟩ := if_registered
  unfold callFx ifOmitted
  by_cases hif : callName tv = nameIF
  · simp only [hif, hi, hf, if_true]
    match args with
    | [] =>
      cases ha : arityCheck f.params ([] : List Fx).length with
      | ok => exact absurd ha h0
      | tooMany => simp [fxNodes, fxNodesL]
      | missing p => simp [fxNodes, fxNodesL]
    | [c] =>
      have h1' : arityCheck f.params (0 + 1) = .ok := h1
      simp only [List.length_cons, List.length_nil, h1', fxNodes, fxNodesL, litFx]
      simp
    | [c, t] =>
      have h2' : arityCheck f.params (0 + 1 + 1) = .ok := h2
      simp only [List.length_cons, List.length_nil, h2', fxNodes, fxNodesL, litFx]
      simp
      omega
    | [c, t, e] =>
      have h3' : arityCheck f.params (0 + 1 + 1 + 1) = .ok := h3
      simp only [List.length_cons, List.length_nil, h3', fxNodes, fxNodesL]
      simp
      omega
    | c :: t :: e :: x :: rest =>
      have hlen : (c :: t :: e :: x :: rest).length = rest.length + 4 := by simp
      have e1 : ¬ (rest.length + 4 = 1) := by omega
      have e2 : ¬ (rest.length + 4 = 2) := by omega
      simp only [hlen, h4, fxNodes, fxNodesL, e1, e2, if_false, Nat.add_zero]
  · simp only [hif, if_false]
    cases hx : funcIndex (callName tv) with
    | none => simp [fxNodes]
    | some id =>
      simp only
      cases hg : funcAt id with
      | none => simp [fxNodes]
      | some g =>
        simp only
        cases arityCheck g.params args.length with
        | tooMany => simp [fxNodes]
        | missing p => simp [fxNodes]
        | ok =>
          simp only
          by_cases ha : callName tv = nameAND
          · simp only [ha, if_true]
            by_cases he : args.isEmpty = true
            · have : args = [] := by simpa using he
              subst this
              simp [fxNodes, fxNodesL, litFx]
            · simp [he, fxNodes]
          · simp only [ha, if_false]
            by_cases ho : callName tv = nameOR
            · simp only [ho, if_true]
              by_cases he : args.isEmpty = true
              · have : args = [] := by simpa using he
                subst this
                simp [fxNodes, fxNodesL, litFx]
              · simp [he, fxNodes]
            · simp [ho, fxNodes]

theorem fxNodes_operandFx (sheet : Text) (keys : List Text) (t : Tok) (fx : Fx)
    (h : operandFx sheet keys t = .ok fx) : fxNodes fx = 1 := by
  unfold operandFx at h
  repeat' split at h
  all_goals (try (simp only [Except.ok.injEq, reduceCtorEq] at h))
  all_goals (try subst h)
  all_goals (first | (split <;> simp [fxNodes]) | simp [fxNodes, fxNodesL, litFx])

mutual
/-- one `Fx` node per node of the parse tree, plus the defaults of omitted IF branches -/
theorem toFx_nodes (sheet : Text) (keys : List Text) : ∀ (a : Ast) (fx : Fx),
    toFx sheet keys a = .ok fx → fxNodes fx = astNodes a + omitted a
  | .operand t, fx, h => by
    simp only [toFx] at h
    simp [fxNodes_operandFx sheet keys t fx h, astNodes, omitted]
  | .unop t r, fx, h => by
    simp only [toFx] at h
    split at h
    · split at h
      · rename_i sym hv
        cases hr : toFx sheet keys r with
        | error e => rw [hr] at h; simp at h
        | ok r' =>
          rw [hr] at h
          simp only at h
          rw [fxNodes_opFx _ _ _ _ h]
          simp [fxNodesL, astNodes, omitted, toFx_nodes sheet keys r r' hr]
          omega
      · cases h
    · cases h
  | .binop t l r, fx, h => by
    simp only [toFx] at h
    split at h
    · cases hl : toFx sheet keys l with
      | error e => rw [hl] at h; simp at h
      | ok l' =>
        cases hr : toFx sheet keys r with
        | error e => rw [hl, hr] at h; simp at h
        | ok r' =>
          rw [hl, hr] at h
          simp only at h
          rw [fxNodes_opFx _ _ _ _ h]
          simp [fxNodesL, astNodes, omitted, toFx_nodes sheet keys l l' hl, toFx_nodes sheet keys r r' hr]
          omega
    · cases h
  | .func t args, fx, h => by
    simp only [toFx] at h
    split at h
    · rename_i tv hv
      cases ha : toFxList sheet keys args with
      | error e => rw [ha] at h; simp at h
      | ok args' =>
        rw [ha] at h
        simp only [Except.ok.injEq] at h
        subst h
        obtain ⟨hn, hlen⟩ := toFxList_nodes sheet keys args args' ha
        rw [fxNodes_callFx, hn, hlen]
        simp only [astNodes, omitted, hv]
        omega
    · cases h
theorem toFxList_nodes (sheet : Text) (keys : List Text) : ∀ (as : List Ast) (fxs : List Fx),
    toFxList sheet keys as = .ok fxs → fxNodesL fxs = astNodesL as + omittedL as ∧ fxs.length = as.length
  | [], fxs, h => by
    simp only [toFxList, Except.ok.injEq] at h
    subst h
    simp [fxNodesL, astNodesL, omittedL]
  | a :: as, fxs, h => by
    simp only [toFxList] at h
    cases ha : toFx sheet keys a with
    | error e => rw [ha] at h; simp at h
    | ok a' =>
      rw [ha] at h
      simp only at h
      cases hr : toFxList sheet keys as with
      | error e => rw [hr] at h; simp at h
      | ok as' =>
        rw [hr] at h
        simp only [Except.ok.injEq] at h
        subst h
        obtain ⟨h1, h2⟩ := toFxList_nodes sheet keys as as' hr
        simp only [fxNodesL, astNodesL, omittedL, toFx_nodes sheet keys a a' ha, h1, List.length_cons, h2]
        exact ⟨by omega, trivial⟩
end

/-! ### totality on well-formed formulas -/

mutual
/-- every numeric literal of the formula is a finite double (also inside calls) -/
def LitsOK : Expr → Prop
  | .num n _ => Lemmas.C01.LitFinite n
  | .neg e => LitsOK e
  | .bin _ l r => LitsOK l ∧ LitsOK r
  | .paren e => LitsOK e
  | .call _ _ args => LitsOKs args
  | _ => True
def LitsOKs : List Expr → Prop
  | [] => True
  | a :: as => LitsOK a ∧ LitsOKs as
end

theorem LitsOKs_iff (as : List Expr) : LitsOKs as ↔ ∀ a ∈ as, LitsOK a := by
  induction as with
  | nil => simp [LitsOKs]
  | cons a as ih => simp [LitsOKs, ih]

theorem toFxList_ok (sheet : Text) (keys : List Text) : ∀ (as : List Ast),
    (∀ a ∈ as, ∃ fx, toFx sheet keys a = .ok fx) → ∃ fxs, toFxList sheet keys as = .ok fxs
  | [], _ => ⟨[], rfl⟩
  | a :: as, h => by
    obtain ⟨fx, hfx⟩ := h a List.mem_cons_self
    obtain ⟨fxs, hfxs⟩ := toFxList_ok sheet keys as fun x hx => h x (List.mem_cons_of_mem _ hx)
    exact ⟨fx :: fxs, by simp [toFxList, hfx, hfxs]⟩

theorem mem_astsOf {a : Ast} : ∀ {as : List Expr}, a ∈ astsOf as → ∃ e ∈ as, a = astOf e
  | [], h => by simp [astsOf] at h
  | e :: es, h => by
    simp only [astsOf, List.mem_cons] at h
    rcases h with h | h
    · exact ⟨e, List.mem_cons_self, h⟩
    · obtain ⟨x, hx, hax⟩ := mem_astsOf h
      exact ⟨x, List.mem_cons_of_mem _ hx, hax⟩

theorem opFx_prefix_ok (args : List Fx) : ∃ fx, opFx Gen.prefixOpToFunc ['-'] args = .ok fx := by
  have h : (match lookup ['-'] Gen.prefixOpToFunc with
            | some f => (funcIndex f).isSome
            | none => false) = true := by decide +kernel
  cases hl : lookup ['-'] Gen.prefixOpToFunc with
  | none => rw [hl] at h; simp at h
  | some f =>
    rw [hl] at h
    simp only at h
    obtain ⟨id, hid⟩ := Option.isSome_iff_exists.mp h
    exact ⟨.app id args, by simp [opFx, hl, hid]⟩

theorem funcIndex_funcName (o : Spec.C02.BinOp) : (funcIndex (Lemmas.C01.funcName o)).isSome = true := by
  cases o <;> decide +kernel

/-- **`toFx_total_on_wf`** (existence part): compiling the parse tree of a well-formed formula never fails -/
theorem toFx_astOf_ok (hT : Lemmas.C01.OpFuncOK Gen.infixOpToFunc Gen.prefixOpToFunc)
    (sheet : Text) (keys : List Text) : ∀ e : Expr, WF e → LitsOK e → ∃ fx, toFx sheet keys (astOf e) = .ok fx := by
  intro e
  induction e using Expr.ind with
  | num n p =>
    intro hwf hl
    cases p with
    | true => simp only [astOf, numTok, toFx, operandFx, if_true]; exact ⟨_, rfl⟩
    | false =>
      obtain ⟨k, hk, _⟩ := Lemmas.C01.textNumber_lit n hwf.1 hl
      have hk' : textNumber Ext.none n.text = .ok k := hk
      simp only [astOf, numTok, toFx, operandFx, Bool.false_eq_true, if_false, hk']
      exact ⟨_, rfl⟩
  | str s => intro _ _; simp only [astOf, strTok, toFx, operandFx]; exact ⟨_, rfl⟩
  | bool b =>
    intro _ _
    cases b
    · have : toBoolean (.text ['F', 'A', 'L', 'S', 'E']) = .ok false := by decide
      simp only [astOf, boolTok, boolText, toFx, operandFx, Bool.false_eq_true, if_false, this]
      exact ⟨_, rfl⟩
    · have : toBoolean (.text ['T', 'R', 'U', 'E']) = .ok true := by decide
      simp only [astOf, boolTok, boolText, toFx, operandFx, if_true, this]
      exact ⟨_, rfl⟩
  | err c =>
    intro _ _
    have : Model.C01.codeOfText c.text = some c := by cases c <;> decide
    simp only [astOf, errTok, toFx, operandFx, this]
    exact ⟨_, rfl⟩
  | ref r => intro _ _; simp only [astOf, refTok, toFx, operandFx]; exact ⟨_, rfl⟩
  | neg e ih =>
    intro hwf hl
    obtain ⟨fx, hfx⟩ := ih hwf.1 hl
    obtain ⟨gx, hgx⟩ := opFx_prefix_ok [fx]
    exact ⟨gx, by simp [astOf, negTok, toFx, hfx, hgx]⟩
  | bin o l r ihl ihr =>
    intro hwf hl
    obtain ⟨lx, hlx⟩ := ihl hwf.1 hl.1
    obtain ⟨rx, hrx⟩ := ihr hwf.2.1 hl.2
    obtain ⟨id, hid⟩ := Option.isSome_iff_exists.mp (funcIndex_funcName o)
    exact ⟨.app id [lx, rx], by simp [astOf, binTok, toFx, hlx, hrx, opFx, hT.1 o, hid]⟩
  | paren e ih => intro hwf hl; exact ih hwf hl
  | call a f args ih =>
    intro hwf hl
    have hw := (WFs_iff args).mp hwf.2
    have hls := (LitsOKs_iff args).mp hl
    obtain ⟨fxs, hfxs⟩ := toFxList_ok sheet keys (astsOf args) fun x hx => by
      obtain ⟨e, he, rfl⟩ := mem_astsOf hx
      exact ih e he (hw e he) (hls e he)
    exact ⟨callFx f fxs, by simp [astOf, fnName, toFx, hfxs]⟩

/-- an unknown function name becomes `Fx.fail` (the `KeyError` of `context.namespace[func_name]`,
    raised before any argument is evaluated) -/
theorem callFx_unknown (tv : Text) (args : List Fx) (h : funcIndex (callName tv) = none) :
    callFx tv args = .fail (keyErrorLen (callName tv)) args := by
  simp [callFx, h]

end XlVerif.Lemmas.X01
