/-
  XlVerif.Lemmas.X01Transport — from a formula TEXT in a workbook source to the value of its compiled tree: the cell
  `compile` makes of `render b e`, the registration of its ranges, the values of literal / reference arguments against
  any model with the same ranges (the current inputs after a history), and their agreement with the source.
-/
import XlVerif.Lemmas.X01Leaf
import XlVerif.Lemmas.X01History
namespace XlVerif.Lemmas.X01
open XlVerif XlVerif.Model.Tokenizer XlVerif.Model.Parser XlVerif.Model.Evaluator XlVerif.Model.Value
open XlVerif.Model.X01 XlVerif.Spec.C02 XlVerif.Lemmas.C02 XlVerif.Model.C04 XlVerif.Lemmas.C04

/-! ### histories keep the ranges -/

theorem setCellValue_ranges (m : MState) (x : Addr) (v : V) : (m.setCellValue x v).ranges = m.ranges := by
  rw [setCellValue_eq]
  split <;> rfl

theorem inputsAfter_ranges : ∀ (pre : List Op) (m : MState), (inputsAfter m pre).ranges = m.ranges
  | [], _ => rfl
  | .set x v :: rest, m => by
    simp only [inputsAfter]
    rw [inputsAfter_ranges rest, setCellValue_ranges]
  | .eval _ :: rest, m => by simp only [inputsAfter]; exact inputsAfter_ranges rest m
  | .get _ :: rest, m => by simp only [inputsAfter]; exact inputsAfter_ranges rest m

/-! ### the formula cell of a source -/

/-- the source `src` (without defined names) compiles to `m`, and its cell `sheet!coord` holds the formula `text` -/
structure FormulaAt (src : Source) (m : MState) (sheet coord : Text) (text : Text) : Prop where
  compiled : compile src = .ok m
  noNames : src.names = []
  sheetOK : sheet.contains ':' = false
  coordOK : coord.contains '!' = false
  holds : srcLookup src.defaultSheet (sheet ++ '!' :: coord) src.cells = some (.formula text)

theorem sheetOf_append' (sheet coord : List Char) (hc : coord.contains '!' = false) :
    Model.C03.sheetOf (sheet ++ '!' :: coord) = sheet := by
  simp [Model.C03.sheetOf, rsplitLast_append' '!' coord hc sheet]

/-- every range reference written in the formula of a cell is registered in `model.ranges` -/
theorem registered_of_cell {src : Source} {m : MState} {sheet coord : Text} (e : Expr) (hwf : WF e) (b : Blanks)
    (H : FormulaAt src m sheet coord (render b e)) : ∀ r ∈ refsOf e, Registered m sheet r := by
  intro r hr hlast
  cases hl : r.last with
  | none => rw [hl] at hlast; cases hlast
  | some c2 =>
    have := compile_range_registered H.compiled (sheet ++ '!' :: coord) e hwf b H.holds r.denoted
      (denoted_mem_rangeVals r e hr)
      (by rw [sheetOf_append' sheet coord H.coordOK]; exact rangeRef_colon r c2 hl sheet)
    rw [sheetOf_append' sheet coord H.coordOK] at this
    exact this

/-- **the compiled cell.**  The cell holding `render b e` is a formula cell of the model whose tree is the compilation
    of the expected parse tree `astOf e`; when every reference reads constants, the tree reads only constants. -/
theorem formula_cell {src : Source} {m : MState} {sheet coord : Text} (e : Expr) (hwf : WF e) (b : Blanks)
    (H : FormulaAt src m sheet coord (render b e)) :
    ∃ fx, toFx sheet (m.ranges.map (·.1)) (astOf e) = .ok fx ∧
      m.resolve (sheet ++ '!' :: coord) = sheet ++ '!' :: coord ∧
      (∃ c, m.cell? (sheet ++ '!' :: coord) = some c ∧ c.formula = some fx ∧ c.formulaLen = (render b e).length) ∧
      (RefsConst src sheet e → ConstFx m fx) := by
  obtain ⟨hnames, _, hcells⟩ := compile_transparent H.compiled H.noNames
  obtain ⟨ast, fx, c, hparse, htofx, hmc, hcf, hlen⟩ := (hcells (sheet ++ '!' :: coord)).2.2 _ H.holds
  rw [Props.C02.parse_render e hwf b] at hparse
  cases hparse
  rw [sheetOf_append' sheet coord H.coordOK] at htofx
  refine ⟨fx, htofx, by simp [MState.resolve, hnames, assoc], ⟨c, hmc, hcf, hlen⟩, fun hrefs => ?_⟩
  exact constFx_astOf H.compiled H.noNames sheet H.sheetOK e hwf hrefs (registered_of_cell e hwf b H) fx htofx

/-- evaluating the cell: fresh, and after any history -/
theorem formula_cell_value {src : Source} {m : MState} {sheet coord : Text} (e : Expr) (hwf : WF e) (b : Blanks)
    (H : FormulaAt src m sheet coord (render b e)) (hrefs : RefsConst src sheet e) (sem : Sem) (fuel : Nat) :
    ∃ fx, toFx sheet (m.ranges.map (·.1)) (astOf e) = .ok fx ∧
      fresh sem (fuel + 2) m (sheet ++ '!' :: coord)
        = cellRes (sheet ++ '!' :: coord) (render b e).length (pureVal sem m fx) ∧
      ∀ pre : List Op,
        (evaluate sem (fuel + 2) (run sem (fuel + 2) m pre).1 (sheet ++ '!' :: coord)).2.1
          = cellRes (sheet ++ '!' :: coord) (render b e).length (pureVal sem (inputsAfter m pre) fx) := by
  obtain ⟨fx, h1, h2, ⟨c, h3, h4, h5⟩, h6⟩ := formula_cell e hwf b H
  refine ⟨fx, h1, ?_, fun pre => ?_⟩
  · rw [fresh_const_cell sem m fuel _ c fx h2 h3 h4 (h6 hrefs), h5]
  · exact history_const_cell sem fuel m pre _ fx _ h2 ⟨c, h3, h4, h5⟩ (h6 hrefs)

/-! ### values of literal and reference arguments against a model -/

/-- the value a reference has in the model `m'`: the current value of the cell (blank if absent), resp. the row-major
    array of the current values of the rectangle -/
def refValM (m' : MState) (sheet : Text) (r : Ref) : V :=
  match r.last with
  | none => cellVal m' (Model.C03.fullAddress r.denoted sheet)
  | some _ =>
    match Model.C03.resolveRanges (Model.C03.fullAddress r.denoted sheet) with
    | .val (_, mat) => toArray (mat.map fun row => row.map (cellVal m'))
    | _ => .s .blank

/-- the value of a literal / reference argument in the model `m'` -/
def leafValM (m' : MState) (sheet : Text) : Expr → V
  | .num n false => .s (.num (numOfLit n))
  | .num n true => .s (.num (.flt (n.value / 100)))
  | .str s => .s (.text s)
  | .bool b => .s (.bool b)
  | .err c => .s (.err c)
  | .ref r => refValM m' sheet r
  | _ => .s .blank

section
variable {src : Source} {m : MState} (hc : compile src = .ok m) (hn : src.names = [])
variable (sheet : Text) (hsheet : sheet.contains ':' = false)
include hc hn hsheet

theorem ref_fx (sem : Sem) (r : Ref) (hwf : r.WF) (hreg : Registered m sheet r) :
    ∃ fx, operandFx sheet (m.ranges.map (·.1)) (refTok r) = .ok fx ∧
      ∀ m' : MState, m'.ranges = m.ranges → pureVal sem m' fx = .val (refValM m' sheet r) := by
  obtain ⟨_, hkeys, _⟩ := compile_transparent hc hn
  cases hlast : r.last with
  | none =>
    have hno := cellRef_no_colon r hwf hlast sheet hsheet
    have hnk : (m.ranges.map (·.1)).contains (Model.C03.fullAddress r.denoted sheet) = false := by
      cases hk : (m.ranges.map (·.1)).contains (Model.C03.fullAddress r.denoted sheet) with
      | false => rfl
      | true =>
        have := hkeys _ (by simpa using hk)
        rw [hno] at this; cases this
    refine ⟨.ref (Model.C03.fullAddress r.denoted sheet),
      by simp only [operandFx, refTok, hnk, Bool.false_eq_true, if_false], fun m' _ => ?_⟩
    simp [pureVal, refValM, hlast]
  | some c2 =>
    obtain ⟨s, mat, hres, hrange⟩ := hreg (by simp [hlast])
    have hk : (m.ranges.map (·.1)).contains (Model.C03.fullAddress r.denoted sheet) = true := by
      have : (assoc (Model.C03.fullAddress r.denoted sheet) m.ranges).isSome = true := by
        have h2 : assoc (Model.C03.fullAddress r.denoted sheet) m.ranges = some { cells := mat } := hrange
        rw [h2]; rfl
      simpa using (assoc_isSome_iff _ _).mp this
    refine ⟨.rng (Model.C03.fullAddress r.denoted sheet), by simp only [operandFx, refTok, hk, if_true],
      fun m' hr => ?_⟩
    have hrange' : m'.range? (Model.C03.fullAddress r.denoted sheet) = some { cells := mat } := by
      have h2 : assoc (Model.C03.fullAddress r.denoted sheet) m.ranges = some { cells := mat } := hrange
      show assoc _ m'.ranges = _
      rw [hr, h2]
    simp only [pureVal, hrange', refValM, hlast, hres, rangeArray]

theorem leaf_valM (sem : Sem) (x : Expr) (hleaf : IsLeaf x = true) (hwf : WF x) (hl : LitsOK x)
    (hreg : ∀ r ∈ refsOf x, Registered m sheet r) :
    ∃ fx, toFx sheet (m.ranges.map (·.1)) (astOf x) = .ok fx ∧
      ∀ m' : MState, m'.ranges = m.ranges → pureVal sem m' fx = .val (leafValM m' sheet x) := by
  cases x with
  | num n p =>
    cases p with
    | true =>
      refine ⟨litFx (.num (.flt (n.value / 100))), ?_, fun _ _ => by simp [pureVal, litFx, leafValM]⟩
      simp [astOf, numTok, toFx, operandFx]
    | false =>
      obtain ⟨hk, _, _⟩ := numOfLit_spec n hwf.1 hl
      refine ⟨litFx (.num (numOfLit n)), ?_, fun _ _ => by simp [pureVal, litFx, leafValM]⟩
      simp [astOf, numTok, toFx, operandFx, hk]
  | str s =>
    exact ⟨litFx (.text s), by simp [astOf, strTok, toFx, operandFx], fun _ _ => by simp [pureVal, litFx, leafValM]⟩
  | bool b =>
    cases b
    · have : toBoolean (.text ['F', 'A', 'L', 'S', 'E']) = .ok false := by decide
      exact ⟨litFx (.bool false), by simp [astOf, boolTok, boolText, toFx, operandFx, this],
        fun _ _ => by simp [pureVal, litFx, leafValM]⟩
    · have : toBoolean (.text ['T', 'R', 'U', 'E']) = .ok true := by decide
      exact ⟨litFx (.bool true), by simp [astOf, boolTok, boolText, toFx, operandFx, this],
        fun _ _ => by simp [pureVal, litFx, leafValM]⟩
  | err c =>
    have : Model.C01.codeOfText c.text = some c := by cases c <;> decide
    exact ⟨litFx (.err c), by simp [astOf, errTok, toFx, operandFx, this],
      fun _ _ => by simp [pureVal, litFx, leafValM]⟩
  | ref r =>
    obtain ⟨fx, h1, h3⟩ := ref_fx hc hn sheet hsheet sem r hwf (hreg r (by simp [refsOf]))
    exact ⟨fx, by simpa [astOf, toFx] using h1, fun m' hr => by simpa [leafValM] using h3 m' hr⟩
  | neg e => simp [IsLeaf] at hleaf
  | bin o l r => simp [IsLeaf] at hleaf
  | paren e => simp [IsLeaf] at hleaf
  | call a f args => simp [IsLeaf] at hleaf

theorem leaves_valM (sem : Sem) : ∀ (args : List Expr),
    (∀ x ∈ args, IsLeaf x = true ∧ WF x ∧ LitsOK x ∧ ∀ r ∈ refsOf x, Registered m sheet r) →
    ∃ fxs, toFxList sheet (m.ranges.map (·.1)) (astsOf args) = .ok fxs ∧ fxs.length = args.length ∧
      ∀ m' : MState, m'.ranges = m.ranges → pureArgs sem m' fxs = .ok (args.map (leafValM m' sheet))
  | [], _ => ⟨[], rfl, rfl, fun _ _ => by simp [pureArgs]⟩
  | x :: rest, h => by
    obtain ⟨h1, h2, h3, h5⟩ := h x List.mem_cons_self
    obtain ⟨fx, hfx, hv⟩ := leaf_valM hc hn sheet hsheet sem x h1 h2 h3 h5
    obtain ⟨fxs, hfxs, hlen, hvs⟩ := leaves_valM sem rest fun y hy => h y (List.mem_cons_of_mem _ hy)
    exact ⟨fx :: fxs, by simp [astsOf, toFxList, hfx, hfxs], by simp [hlen],
      fun m' hr => by simp [pureArgs, hv m' hr, hvs m' hr]⟩

omit hsheet in
/-- on references to constants the model value is the value the source gives -/
theorem leafValM_src (x : Expr) (hrc : RefsConst src sheet x) : leafValM m sheet x = leafVal src sheet x := by
  cases x with
  | ref r =>
    simp only [leafValM, leafVal, refValM, refVal]
    simp only [RefsConst, RefConst] at hrc
    cases hlast : r.last with
    | none =>
      rw [hlast] at hrc
      exact (constAt_of_src hc hn _ hrc).2
    | some c2 =>
      rw [hlast] at hrc
      simp only
      cases hres : Model.C03.resolveRanges (Model.C03.fullAddress r.denoted sheet) with
      | val p =>
        obtain ⟨s, mat⟩ := p
        simp only
        congr 1
        apply List.map_congr_left
        intro row hrow
        apply List.map_congr_left
        intro a ha
        exact (constAt_of_src hc hn a ((hrc s mat hres).1 a (List.mem_flatten.mpr ⟨row, hrow, ha⟩))).2
      | _ => rfl
  | num n p => cases p <;> rfl
  | str s => rfl
  | bool b => rfl
  | err c => rfl
  | neg e => rfl
  | bin o l r => rfl
  | paren e => rfl
  | call a f args => rfl

end

/-- a name the registry binds to `id` is the name of the entry `id` -/
theorem callName_eq {f : Text} {id : Nat} {fn : Gen.Func} (hid : funcIndex (callName f) = some id)
    (hfn : funcAt id = some fn) : callName f = fn.name := by
  obtain ⟨g, hg, hname⟩ := funcIndex_some hid
  rw [hfn] at hg
  cases hg
  exact hname.symm

end XlVerif.Lemmas.X01
