/-
  XlVerif.Lemmas.X01Wrap — the wrapper of the pipeline (`Model.X01.validateAllX`) is the shared model of
  `validate_args` (`Model.Validate.validateAll`) wherever the latter applies: no `Array` at a scalar parameter,
  no `XlDateTime` parameter; the only other difference is that a non-finite number (the placeholder of
  `castScalar`) is "outside the model".
-/
import XlVerif.Model.X01Sem
namespace XlVerif.Lemmas.X01
open XlVerif XlVerif.Model.Value XlVerif.Model.Validate XlVerif.Model.X01 XlVerif.Gen

def notDateTime : Annot → Bool
  | .xlDateTime => false
  | _ => true

def notArrayArg : PArg → Bool
  | .one (.arr _) => false
  | _ => true

theorem validateParamX_refines (ext : Ext) (p : Param) (a : PArg) (hp : notDateTime p.annot = true)
    (ha : notArrayArg a = true) :
    validateParamX ext p a = .unsup ∨ validateParamX ext p a = XR.ofR (validateParam ext p a) := by
  cases a with
  | many xs => right; unfold validateParamX; rfl
  | one x =>
    cases x with
    | arr rows => simp [notArrayArg] at ha
    | sc v =>
      cases hann : p.annot with
      | xlDateTime => rw [hann] at hp; simp [notDateTime] at hp
      | xlNumber =>
        unfold validateParamX
        simp only [hann]
        cases hv : validateParam ext p (.one (.sc v)) with
        | ok r =>
          cases r with
          | s x => cases x <;> simp [XR.ofR]
          | _ => simp
        | xl c => simp [XR.ofR]
        | py k => simp [XR.ofR]
      | _ => right; unfold validateParamX; simp [hann]

theorem validateAllX_refines (ext : Ext) : ∀ (ps : List Param) (as : List PArg),
    (∀ p ∈ ps, notDateTime p.annot = true) → (∀ a ∈ as, notArrayArg a = true) →
    validateAllX ext ps as = .unsup ∨ validateAllX ext ps as = XR.ofR (validateAll ext ps as)
  | [], as, _, _ => by right; cases as <;> rfl
  | p :: ps, [], _, _ => by right; rfl
  | p :: ps, a :: as, hp, ha => by
    have hp1 := hp p List.mem_cons_self
    have ha1 := ha a List.mem_cons_self
    have ih := validateAllX_refines ext ps as (fun q hq => hp q (List.mem_cons_of_mem _ hq))
      (fun b hb => ha b (List.mem_cons_of_mem _ hb))
    by_cases herr : ∃ c, a = .one (.sc (.xErr c))
    · obtain ⟨c, rfl⟩ := herr
      right
      simp [validateAllX, validateAll, XR.ofR]
    · have hne : ∀ c, a ≠ .one (.sc (.xErr c)) := fun c e => herr ⟨c, e⟩
      have e1 : validateAllX ext (p :: ps) (a :: as) =
          (match validateParamX ext p a with
           | .ok v => (validateAllX ext ps as).map (v :: ·)
           | .xl c => .xl c | .py k => .py k | .rt n => .rt n | .unsup => .unsup) := by
        rw [validateAllX] <;> first | exact fun c e => hne c e | rfl
      have e2 : validateAll ext (p :: ps) (a :: as) =
          (match validateParam ext p a with
           | .ok v => (match validateAll ext ps as with
                       | .ok vs => .ok (v :: vs) | .xl c => .xl c | .py k => .py k)
           | .xl c => .xl c | .py k => .py k) := by
        rw [validateAll] <;> first | exact fun c e => hne c e | rfl
      rw [e1, e2]
      rcases validateParamX_refines ext p a hp1 ha1 with h | h
      · left; rw [h]
      · rw [h]
        cases hv : validateParam ext p a with
        | ok v =>
          simp only [XR.ofR]
          rcases ih with h' | h'
          · left; rw [h']; rfl
          · right; rw [h']
            cases validateAll ext ps as <;> rfl
        | xl c => right; rfl
        | py k => right; rfl

end XlVerif.Lemmas.X01
