/-
  XlVerif.Model.C01 — evaluation of a parsed operator formula: `OperandNode.eval`, `RangeNode.eval`
  (a plain cell reference in a model whose cells hold numbers) and `OperatorNode.eval`
  (xlcalculator/ast_nodes.py), dispatching through the regenerated maps `Gen.infixOpToFunc` /
  `Gen.prefixOpToFunc` to the operator functions of the value layer (`Model/Value.lean`: OP_*, POWER,
  CONCAT).  `evaluateFormula` = parse, then evaluate — what `Evaluator.evaluate(cell)` returns for a
  cell holding the formula.  Function calls and sheet-qualified / range references are not modelled
  here (`unsupported`).
-/
import XlVerif.Model.Parser
import XlVerif.Model.Value
import XlVerif.Gen.OpFuncs
namespace XlVerif.Model.C01
open XlVerif XlVerif.Model.Value XlVerif.Model.Tokenizer XlVerif.Model.Parser

/-- the cells of the compiled model: address (no sheet, no `$`) ↦ number; `none` = no such cell (blank) -/
abbrev Env := List Char → Option Num

/-- library behaviour outside the model: no text is a date, float text forms are not produced,
    non-integral powers are not computed -/
def ext0 : Ext := Ext.none

/-- `RangeNode.full_address`: `$` removed (the sheet prefix is implicit) -/
def stripDollar (s : List Char) : List Char := s.filter fun c => c ≠ '$'

def codeOfText (v : List Char) : Option Code :=
  [Code.null, .div0, .value, .ref, .name, .num, .na].find? fun c => c.text = v

/-- the operator function registered under a name -/
def applyInfix (fname : List Char) (l r : S) : OpR :=
  if fname = "OP_MUL".toList then binop ext0 .mul l r
  else if fname = "OP_DIV".toList then binop ext0 .div l r
  else if fname = "OP_ADD".toList then binop ext0 .add l r
  else if fname = "OP_SUB".toList then binop ext0 .sub l r
  else if fname = "POWER".toList then power ext0 l r
  else if fname = "CONCAT".toList then concat ext0 l r
  else if fname = "OP_EQ".toList then binop ext0 .eq l r
  else if fname = "OP_NE".toList then binop ext0 .ne l r
  else if fname = "OP_GT".toList then binop ext0 .gt l r
  else if fname = "OP_LT".toList then binop ext0 .lt l r
  else if fname = "OP_GE".toList then binop ext0 .ge l r
  else if fname = "OP_LE".toList then binop ext0 .le l r
  else .py .other

def applyPrefix (fname : List Char) (x : S) : OpR :=
  if fname = "OP_NEG".toList then neg ext0 x
  else if fname = "OP_PERCENT".toList then percent ext0 x
  else .py .other

/-- `OperandNode.eval` / `RangeNode.eval` -/
def evalOperand (t : Tok) (env : Env) : OpR :=
  match t.st, t.v with
  | .range, .s v =>
    if v.contains '!' || v.contains ':' then .py .other          -- not modelled here
    else (match env (stripDollar v) with
          | some n => .val (.num n)
          | none => .val .blank)
  | .logical, .s v => .val (.bool (decide (v = "TRUE".toList)))
  | .text, .s v => .val (.text v)
  | .error, .s v => (match codeOfText v with | some c => .val (.err c) | none => .py .other)
  | _, .s v =>                                                  -- `Number.cast(self.tvalue)` of a string
    (match textNumber ext0 v with
     | .ok n => .val (.num n)
     | .nonfinite => .nonfinite
     | .xl c => .val (.err c)
     | .py k => .py k)
  | _, .f q => .val (.num (.flt q))                             -- a folded percent literal (a float)

/-- `eval` of the parse tree -/
def evalAst (env : Env) : Ast → OpR
  | .operand t => evalOperand t env
  | .unop t r =>
    (match t.v with
     | .s sym =>
       (match lookup sym Gen.prefixOpToFunc with
        | none => .py .keyError
        | some f =>
          (match evalAst env r with
           | .val x => applyPrefix f x
           | o => o))
     | .f _ => .py .keyError)
  | .binop t l r =>
    (match t.v with
     | .s sym =>
       (match lookup sym Gen.infixOpToFunc with
        | none => .py .keyError
        | some f =>
          (match evalAst env l with
           | .val x =>
             (match evalAst env r with
              | .val y => applyInfix f x y
              | o => o)
           | o => o))
     | .f _ => .py .keyError)
  | .func _ _ => .py .other

def crashOf : PErr → Crash
  | .lex .indexError => .indexError
  | .lex .valueError => .valueError
  | .valueError => .valueError
  | .syntaxError => .syntaxError
  | .indexError => .indexError
  | .keyError => .keyError
  | .unsupported => .other

/-- what `Evaluator.evaluate(cell)` returns for a cell holding `formula` -/
def evaluateFormula (formula : List Char) (env : Env) : OpR :=
  match parse [] formula with
  | .ok a => evalAst env a
  | .error e => .py (crashOf e)

end XlVerif.Model.C01
