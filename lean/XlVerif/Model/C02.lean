/-
  XlVerif.Model.C02 — the observable of property C02: the tree walk of the result of
  `FormulaParser().parse` as `(function name, args) / (operator, left, right) / (reference text) /
  (literal kind, value)`.  `shape` forgets the token bookkeeping (ttype/tsubtype strings) of the
  model's `Ast` and keeps exactly what the walk keeps.  The tokenizer and parser models themselves are
  `Model/Tokenizer.lean` and `Model/Parser.lean`.
-/
import XlVerif.Model.Parser
import XlVerif.Spec.C02
namespace XlVerif.Model.C02
open XlVerif XlVerif.Model.Tokenizer XlVerif.Model.Parser
open XlVerif.Spec.C02 (Tree)

/-- an operand node: by token subtype (`OperandNode` / `RangeNode`) -/
def shapeOperand (t : Tok) : Tree :=
  if t.t ≠ .operand then .unknown else
  match t.st, t.v with
  | .text, .s v => .str v
  | .number, .s v => .num v
  | .number, .f q => .pct q
  | .logical, .s v =>
    if v = "TRUE".toList then .bool true else if v = "FALSE".toList then .bool false else .unknown
  | .error, .s v => .err v
  | .range, .s v => .ref v
  | _, _ => .unknown

mutual
def shape : Ast → Tree
  | .operand t => shapeOperand t
  | .unop t r =>
    (match t.t, t.v with
     | .opPre, .s v => .unop v (shape r)
     | _, _ => .unknown)
  | .binop t l r =>
    (match t.t, t.v with
     | .opIn, .s v => .binop v (shape l) (shape r)
     | _, _ => .unknown)
  | .func t args =>
    (match t.t, t.v with
     | .function, .s v => .call v (shapes args)
     | _, _ => .unknown)
def shapes : List Ast → List Tree
  | [] => []
  | a :: as => shape a :: shapes as
end

end XlVerif.Model.C02
