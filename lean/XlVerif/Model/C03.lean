/-
  Model of the reference machinery of xlcalculator, statement by statement, on texts (`List Char`):

  * tokenizer.py   `col2num`, `num2col`; the `inPath` (single-quote) branch of the tokenizer for one
                   reference operand (`tokRef`)
  * utils.py       `resolve_sheet`, `resolve_address`, `resolve_ranges`
  * xltypes.py     `XLCell.__post_init__`, `XLRange.__post_init__`, `XLFormula.terms`
  * ast_nodes.py   `RangeNode.full_address`, `RangeNode.eval` with the MAX_EMPTY counters,
                   `EvalContext.sheet`, the evaluation of operator / function nodes
  * evaluator.py   `Evaluator.evaluate`, `EvaluatorContext.eval_cell`, `resolve_names`
  * model.py       `read_and_parse_dict`, `build_defined_names`, `build_ranges`, `build_code` /
                   `_defn_address`, and parser.py's substitution of defined names

  openpyxl's `get_column_letter`, `column_index_from_string`, `COORD_RE`, `ABSOLUTE_RE` /
  `range_boundaries` and `SHEET_TITLE` are modelled by hand (tied by the correspondence run only).

  What functions and operators *compute* is not the subject of C03: the evaluator is parametrised by
  `un : Nat → V → V` and `bin : Nat → V → V → V`; the theorems hold for every choice, the driver
  instantiates them with `SUM`, `COUNTA` and `+`.
-/
import XlVerif.Base
import XlVerif.Gen.Misc
import XlVerif.Gen.OpFuncs
namespace XlVerif.Model.C03
open XlVerif

abbrev Text := List Char

/-! ## tokenizer.py: `col2num`, `num2col` -/

/-- `sum((ord(c) - 64) * 26 ** i for i, c in enumerate(cs))`, `i` starting at `i`. -/
def col2numRev : List Char → Nat → Int
  | [], _ => 0
  | c :: cs, i => ((c.toNat : Int) - 64) * (26 : Int) ^ i + col2numRev cs (i + 1)

/-- `col2num(col)`; `none` = `Exception("Column may not be empty")`. -/
def col2num (col : Text) : Option Int :=
  if col = [] then none else some (col2numRev (col.reverse.filter (· != '$')) 0)

/-- `ascii_uppercase[r - 1]` for `1 ≤ r ≤ 26`. -/
def upperLetter (r : Nat) : Char := Char.ofNat (64 + r)

/-- the `while q > 0` loop of `num2col` (fuel ≥ q suffices: `q` strictly decreases). -/
def num2colLoop : Nat → Nat → Text → Text
  | 0, _, s => s
  | f + 1, q, s =>
    if q > 0 then
      if q % 26 = 0 then num2colLoop f (q / 26 - 1) (upperLetter 26 :: s)
      else num2colLoop f (q / 26) (upperLetter (q % 26) :: s)
    else s

/-- `num2col(num)`; `none` = `Exception("Number must be larger than 0")`. -/
def num2col (num : Int) : Option Text :=
  if num < 1 then none else some (num2colLoop num.toNat num.toNat [])

/-! ## openpyxl.utils.cell: `get_column_letter`, `column_index_from_string` (hand model) -/

def isUpper (c : Char) : Bool := 65 ≤ c.toNat && c.toNat ≤ 90
def isLower (c : Char) : Bool := 97 ≤ c.toNat && c.toNat ≤ 122
def isLetter (c : Char) : Bool := isUpper c || isLower c
def isDigit (c : Char) : Bool := 48 ≤ c.toNat && c.toNat ≤ 57
/-- `str.upper()` on ASCII. -/
def upperChar (c : Char) : Char := if isLower c then Char.ofNat (c.toNat - 32) else c

/-- the `while col_idx:` loop of `get_column_letter` (`result.insert(0, …)`; a remainder of 0 inserts
    the empty string and then `"Z"`). -/
def gclLoop : Nat → Nat → Text → Text
  | 0, _, res => res
  | f + 1, idx, res =>
    if idx ≠ 0 then
      if idx % 26 = 0 then gclLoop f (idx / 26 - 1) ('Z' :: res)
      else gclLoop f (idx / 26) (upperLetter (idx % 26) :: res)
    else res

/-- `get_column_letter(col_idx)`; ValueError outside `1 … 18278`. -/
def getColumnLetter (idx : Int) : Out Text :=
  if ¬ (1 ≤ idx ∧ idx ≤ 18278) then .crash .valueError
  else if idx < 26 then .val [upperLetter idx.toNat]
  else .val (gclLoop idx.toNat idx.toNat [])

/-- `zip(reversed(col.upper()), (1, 26, 676))` summed; `none` = a character that is not a letter. -/
def cifsSum : List Char → List Nat → Option Nat
  | [], _ => some 0
  | _, [] => some 0
  | c :: cs, p :: ps =>
    if isUpper c then (cifsSum cs ps).map (· + (c.toNat - 64) * p) else none

/-- `column_index_from_string(col)`. -/
def columnIndexFromString (col : Text) : Out Nat :=
  if col.length > 3 then .crash .valueError else
  match cifsSum (col.map upperChar).reverse [1, 26, 676] with
  | none => .crash .valueError
  | some idx => if 0 < idx ∧ idx < 18279 then .val idx else .crash .valueError

/-! ## Python text helpers -/

/-- `s.split(sep)` for a one-character separator (never returns `[]`). -/
def splitOn (sep : Char) : Text → List Text
  | [] => [[]]
  | c :: s =>
    match splitOn sep s with
    | [] => [[]]
    | w :: ws => if c = sep then [] :: w :: ws else (c :: w) :: ws

/-- `s.replace(c, '')`. -/
def removeChar (c : Char) (s : Text) : Text := s.filter (· != c)

/-- `s.rsplit(sep, 1)` / `s.rpartition(sep)`: the texts before and after the LAST `sep`
    (`none` when there is no `sep`). -/
def rsplitLast (sep : Char) : Text → Option (Text × Text)
  | [] => none
  | c :: s =>
    match rsplitLast sep s with
    | some (a, b) => some (c :: a, b)
    | none => if c = sep then some ([], s) else none

/-- `sheet, sep, coord = s.rpartition('!'); sheet + sep + coord.replace('$', '')`: the absolute markers are
    removed from the coordinate part only (a sheet title may contain a `$` of its own). -/
def stripCoordDollar (s : Text) : Text :=
  match rsplitLast '!' s with
  | some (sheet, coord) => sheet ++ '!' :: removeChar '$' coord
  | none => removeChar '$' s

/-- `c in s`. -/
def has (c : Char) (s : Text) : Bool := s.contains c

/-- white space of `str.strip()` (the ASCII part and NEL / NBSP). -/
def isSpace (c : Char) : Bool :=
  c = ' ' || (9 ≤ c.toNat && c.toNat ≤ 13) || (28 ≤ c.toNat && c.toNat ≤ 31) || c.toNat = 133
    || c.toNat = 160

def strip (s : Text) : Text := ((s.dropWhile isSpace).reverse.dropWhile isSpace).reverse

/-- `int(s)` on a non-empty string of ASCII digits. -/
def digitsVal (s : Text) : Nat := s.foldl (fun a c => a * 10 + (c.toNat - 48)) 0

def digitChar (d : Nat) : Char := Char.ofNat (48 + d)

def natReprLoop : Nat → Nat → Text → Text
  | 0, _, s => s
  | f + 1, n, s => if n < 10 then digitChar n :: s else natReprLoop f (n / 10) (digitChar (n % 10) :: s)

/-- `str(n)` for a natural number. -/
def natRepr (n : Nat) : Text := natReprLoop (n + 1) n []

/-! ## Python dicts: insertion-ordered association lists -/

abbrev Dict (α : Type) := List (Text × α)

def dget {α} : Dict α → Text → Option α
  | [], _ => none
  | (k', v) :: d, k => if k' = k then some v else dget d k

def dhas {α} (d : Dict α) (k : Text) : Bool := (dget d k).isSome

def dset {α} : Dict α → Text → α → Dict α
  | [], k, v => [(k, v)]
  | (k', v') :: d, k, v => if k' = k then (k, v) :: d else (k', v') :: dset d k v

/-! ## utils.py: `resolve_sheet` (the regular expression `SHEET_TITLE`, hand model) -/

/-- The text after an opening apostrophe is `m ++ "'"` with `m ∈ ([^']|'')*`; returns `m`
    (`group("quoted")`, the raw text). -/
def quotedBody : Text → Option Text
  | [] => none
  | ['\''] => some []
  | '\'' :: '\'' :: r => (quotedBody r).map fun m => '\'' :: '\'' :: m
  | '\'' :: _ => none
  | c :: r => (quotedBody r).map fun m => c :: m

/-- `quoted.replace("''", "'")` (left to right, non-overlapping) -/
def undouble : Text → Text
  | '\'' :: '\'' :: r => '\'' :: undouble r
  | c :: r => c :: undouble r
  | [] => []

/-- `resolve_sheet(sheet_str)` (`re.fullmatch` of `SHEET_TITLE` on `sheet_str + '!'`).  `none` = Python `None`
    (the title `''`: `quoted` is empty, hence falsy, and `group("notquoted")` is `None`).  When the
    expression does not match, and also when its unquoted alternative matches, the result is the
    stripped string itself. -/
def resolveSheet (sheetStr : Text) : Option Text :=
  let s := strip sheetStr
  match s with
  | '\'' :: rest =>
    match quotedBody rest with
    | some m => if m = [] then none else some (undouble m)
    | none => some s
  | _ => some s

/-! ## openpyxl: `COORD_RE`, `ABSOLUTE_RE`, `range_boundaries` (hand model) -/

/-- `[$]?` -/
def optDollar : Text → Text
  | '$' :: s => s
  | s => s

/-- `([A-Za-z]{1,3})?` — greedy; the rest must not start with a letter for the whole expression to
    match (checked by the callers through the next component). -/
def takeLetters : Nat → Text → Text × Text
  | 0, s => ([], s)
  | _ + 1, [] => ([], [])
  | n + 1, c :: s =>
    if isLetter c then ((c :: (takeLetters n s).1), (takeLetters n s).2) else ([], c :: s)

/-- `(\d+)?` -/
def takeDigits : Text → Text × Text
  | [] => ([], [])
  | c :: s => if isDigit c then ((c :: (takeDigits s).1), (takeDigits s).2) else ([], c :: s)

def optGroup (t : Text) : Option Text := if t = [] then none else some t

/-- `COORD_RE.split(addr_str)[1:3]`: `some (col, row)` when `^[$]?([A-Za-z]{1,3})[$]?(\d+)$` matches,
    else the slice is empty and the unpacking raises ValueError. -/
def coordSplit (s : Text) : Option (Text × Text) :=
  let s := optDollar s
  let (col, s) := takeLetters 3 s
  if col = [] then none else
  let s := optDollar s
  let (row, s) := takeDigits s
  if row = [] then none else
  if s = [] then some (col, row) else none

/-- `resolve_address(addr)`: `(sheet, col, row)`; ValueError when `addr` has no `!` or the
    coordinate (the text after the last `!`) does not match. -/
def resolveAddress (addr : Text) : Out (Option Text × Text × Text) :=
  match rsplitLast '!' addr with                      -- `addr.rsplit('!', 1)`
  | some (sheetStr, addrStr) =>
    match coordSplit addrStr with
    | some (col, row) => .val (resolveSheet sheetStr, col, row)
    | none => .crash .valueError
  | none => .crash .valueError

/-- `XLCell.__post_init__`: the address must resolve, the column must be a column. -/
def xlCellCheck (addr : Text) : Out Unit :=
  match resolveAddress addr with
  | .val (_, col, _) =>
    match columnIndexFromString col with
    | .val _ => .val ()
    | _ => .crash .valueError
  | _ => .crash .valueError

/-- the groups of `ABSOLUTE_RE` -/
structure RangeMatch where
  minCol : Option Text
  minRow : Option Text
  sep : Bool
  maxCol : Option Text
  maxRow : Option Text

/-- `ABSOLUTE_RE.match(range_string)` — the components have disjoint alphabets, so greedy matching
    without backtracking is the regular expression. -/
def absoluteRe (s : Text) : Option RangeMatch :=
  let s := optDollar s
  let (c1, s) := takeLetters 3 s
  let s := optDollar s
  let (r1, s) := takeDigits s
  match s with
  | [] => some ⟨optGroup c1, optGroup r1, false, none, none⟩
  | ':' :: s =>
    let s := optDollar s
    let (c2, s) := takeLetters 3 s
    let s := optDollar s
    let (r2, s) := takeDigits s
    if s = [] then some ⟨optGroup c1, optGroup r1, true, optGroup c2, optGroup r2⟩ else none
  | _ => none

structure Bounds where
  minCol : Option Nat
  minRow : Option Nat
  maxCol : Option Nat
  maxRow : Option Nat
  deriving DecidableEq, Repr

def optCol : Option Text → Out (Option Nat)
  | none => .val none
  | some c => (columnIndexFromString c).map some

/-- `range_boundaries(range_string)` -/
def rangeBoundaries (rng : Text) : Out Bounds :=
  match absoluteRe rng with
  | none => .crash .valueError
  | some m =>
    let allCols := m.minCol.isSome && m.maxCol.isSome
    let anyCols := m.minCol.isSome || m.maxCol.isSome
    let allRows := m.minRow.isSome && m.maxRow.isSome
    let anyRows := m.minRow.isSome || m.maxRow.isSome
    if m.sep && !((allCols && allRows) || (allCols && !anyRows) || (allRows && !anyCols)) then
      .crash .valueError
    else
      match optCol m.minCol, optCol m.maxCol with
      | .val minCol, .val maxCol =>
        let minRow := m.minRow.map digitsVal
        let maxRow := m.maxRow.map digitsVal
        .val ⟨minCol, minRow, if m.maxCol.isSome then maxCol else minCol,
              if m.maxRow.isSome then maxRow else minRow⟩
      | _, _ => .crash .valueError

/-! ## utils.py: `resolve_ranges` -/

/-- Python `x or d` for an optional integer. -/
def orDefault (x : Option Nat) (d : Nat) : Nat :=
  match x with
  | none => d
  | some 0 => d
  | some n => n

/-- `range(lo, hi + 1)` -/
def rangeIncl (lo hi : Nat) : List Nat := List.range' lo (hi + 1 - lo)

/-- union of two strictly increasing lists (a `set` read back with `sorted`). -/
def mergeCols : Nat → List Nat → List Nat → List Nat
  | 0, a, b => a ++ b
  | _ + 1, [], b => b
  | _ + 1, a, [] => a
  | f + 1, x :: a, y :: b =>
    if x < y then x :: mergeCols f a (y :: b)
    else if y < x then y :: mergeCols f (x :: a) b
    else x :: mergeCols f a b

/-- `range_cells: defaultdict(set)` read back with `sorted(range_cells.items())`: rows in increasing
    order, each with its columns in increasing order. -/
abbrev RowSets := List (Nat × List Nat)

def mergeRows : Nat → RowSets → RowSets → RowSets
  | 0, a, b => a ++ b
  | _ + 1, [], b => b
  | _ + 1, a, [] => a
  | f + 1, (r, cs) :: a, (r', cs') :: b =>
    if r < r' then (r, cs) :: mergeRows f a ((r', cs') :: b)
    else if r' < r then (r', cs') :: mergeRows f ((r, cs) :: a) b
    else (r, mergeCols (cs.length + cs'.length) cs cs') :: mergeRows f a b

/-- the two nested `for` loops over one area -/
def areaRows (minCol minRow maxCol maxRow : Nat) : RowSets :=
  (rangeIncl minRow maxRow).map fun r => (r, rangeIncl minCol maxCol)

/-- state of the loop over the comma-separated areas: `sheet` (`none` = Python `None`) and
    `range_cells` -/
def resolveAreas : List Text → Option Text → RowSets → Out (Option Text × RowSets)
  | [], sheet, acc => .val (sheet, acc)
  | rng :: rest, sheet, acc =>
    let step (sheet : Option Text) (rng : Text) : Out (Option Text × RowSets) :=
      match rangeBoundaries rng with
      | .val b =>
        let rows := areaRows (orDefault b.minCol 1) (orDefault b.minRow 1)
          (orDefault b.maxCol Gen.maxCol) (orDefault b.maxRow Gen.maxRow)
        resolveAreas rest sheet (mergeRows (acc.length + rows.length) acc rows)
      | _ => .crash .valueError
    if has '!' rng then
      match rsplitLast '!' rng with                     -- `rng.rsplit('!', 1)`
      | some (sheetStr, rng') =>
        let rngSheet := resolveSheet sheetStr
        if sheet.isSome && sheet != rngSheet then .crash .valueError
        else step rngSheet rng'
      | none => .crash .valueError
    else step sheet rng

/-- `f'{sheet_str}{get_column_letter(col_idx)}{row_idx}'` -/
def cellText (sheetStr : Text) (col row : Nat) : Out Text :=
  match getColumnLetter col with
  | .val l => .val (sheetStr ++ l ++ natRepr row)
  | _ => .crash .valueError

def mapOut {α β} (f : α → Out β) : List α → Out (List β)
  | [] => .val []
  | a :: as =>
    match f a with
    | .val b =>
      match mapOut f as with
      | .val bs => .val (b :: bs)
      | o => o.map fun _ => []
    | o => o.map fun _ => []

/-- `resolve_ranges(ranges, default_sheet)`: the sheet and the row-major matrix of cell addresses. -/
def resolveRanges (ranges : Text) (defaultSheet : Text := "Sheet1".toList) :
    Out (Text × List (List Text)) :=
  match resolveAreas (splitOn ',' ranges) none [] with
  | .val (sheet, rows) =>
    let sheet := sheet.getD defaultSheet
    let sheetStr := if sheet = [] then [] else sheet ++ ['!']
    match mapOut (fun (rc : Nat × List Nat) => mapOut (fun c => cellText sheetStr c rc.1) rc.2) rows with
    | .val m => .val (sheet, m)
    | o => o.map fun _ => ([], [])
  | o => o.map fun _ => ([], [])

/-! ## tokenizer: the single-quote (`inPath`) state on one reference operand -/

/-- Characters of a reference token: a `'` switches `inPath`, inside it `''` is one apostrophe. -/
def tokRefLoop : Bool → Text → Text
  | _, [] => []
  | true, '\'' :: '\'' :: s => '\'' :: tokRefLoop true s
  | true, '\'' :: s => tokRefLoop false s
  | true, c :: s => c :: tokRefLoop true s
  | false, '\'' :: s => tokRefLoop true s
  | false, c :: s => c :: tokRefLoop false s

/-- token value of a reference operand written `raw` in the formula text -/
def tokRef (raw : Text) : Text := tokRefLoop false raw

/-! ## formulas -/

/-- The part of the AST that C03 is about.  `ref t` is a `RangeNode` whose token value is `t`. -/
inductive Expr
  | num (z : Int)
  | ref (t : Text)
  | un (f : Nat) (a : Expr)
  | bin (f : Nat) (a b : Expr)
  deriving DecidableEq, Repr, Inhabited

/-- token values of the range operands, in token order -/
def Expr.refs : Expr → List Text
  | .num _ => []
  | .ref t => [t]
  | .un _ a => a.refs
  | .bin _ a b => a.refs ++ b.refs

def Expr.mapRef (g : Text → Text) : Expr → Expr
  | .num z => .num z
  | .ref t => .ref (g t)
  | .un f a => .un f (a.mapRef g)
  | .bin f a b => .bin f (a.mapRef g) (b.mapRef g)

/-- `XLFormula.__post_init__`: the terms (`$` removed from the coordinates, sheet prefixed when unqualified); the
    duplicate test compares the raw token value with the terms collected so far. -/
def termsLoop (sheetName : Text) : List Text → List Text → List Text
  | [], terms => terms
  | tv :: rest, terms =>
    if terms.contains tv then termsLoop sheetName rest terms
    else
      let term := stripCoordDollar tv
      let term := if has '!' term then term else sheetName ++ ['!'] ++ term
      termsLoop sheetName rest (terms ++ [term])

def formulaTerms (sheetName : Text) (e : Expr) : List Text := termsLoop sheetName e.refs []

/-- `RangeNode.full_address(context)` -/
def fullAddress (tvalue : Text) (ctxSheet : Text) : Text :=
  let addr := stripCoordDollar tvalue
  if has '!' addr then addr else ctxSheet ++ ['!'] ++ addr

/-! ## the model (workbook) -/

structure Formula where
  sheetName : Text
  /-- token tree of the formula text (quotes already removed by the tokenizer) -/
  tokens : Expr
  terms : List Text
  /-- `formula.ast` (set by `build_code`: defined names substituted) -/
  ast : Expr
  deriving Repr, Inhabited

structure Cell where
  value : S
  formula : Option Formula
  deriving Repr, Inhabited

/-- a defined name is bound to a cell (`XLCell`, by address) or to a range (`XLRange`, by its key
    in `ranges`) -/
inductive Defn
  | cell (addr : Text)
  | range (key : Text)
  deriving DecidableEq, Repr, Inhabited

structure Wb where
  cells : Dict Cell := []
  ranges : Dict (List (List Text)) := []
  names : Dict Defn := []
  deriving Repr, Inhabited

/-! ## ast_nodes.py: `RangeNode.eval` -/

/-- `cell.value == '' or cell.value is None` -/
def isEmptyS : S → Bool
  | .blank => true
  | .text [] => true
  | _ => false

/-- inner loop over one row of a range: the cells kept and the running `empty_col`.
    `me` is MAX_EMPTY. -/
def readRow (me : Nat) (ec : Text → Out V) : List Text → Nat → Out (List S × Nat)
  | [], emptyCol => .val ([], emptyCol)
  | a :: rest, emptyCol =>
    match ec a with
    | .val (.s x) =>
      if isEmptyS x then
        if emptyCol + 1 > me then .val ([], emptyCol + 1)            -- `break`
        else
          match readRow me ec rest (emptyCol + 1) with
          | .val (xs, n) => .val (x :: xs, n)
          | o => o
      else
        match readRow me ec rest 0 with
        | .val (xs, n) => .val (x :: xs, n)
        | o => o
    | .val (.arr _) => .crash .attributeError                        -- `Array` has no `.value`
    | o => o.map fun _ => ([], 0)

/-- outer loop: `empty_row`, `empty_col` (cumulative across rows), the rows kept. -/
def readRows (me : Nat) (ec : Text → Out V) : List (List Text) → Nat → Nat → Out (List (List S))
  | [], _, _ => .val []
  | row :: rest, emptyRow, emptyCol =>
    match readRow me ec row emptyCol with
    | .val (xs, n) =>
      if xs = [] then
        if emptyRow + 1 > me then .val []                            -- `break`
        else
          match readRows me ec rest (emptyRow + 1) n with
          | .val m => .val (xs :: m)
          | o => o
      else
        match readRows me ec rest 0 n with
        | .val m => .val (xs :: m)
        | o => o
    | o => o.map fun _ => []

/-- `RangeNode.eval(context)`; `ec` is `context.eval_cell`, `ctxSheet` is `context.sheet`. -/
def rangeNodeEval (me : Nat) (wb : Wb) (ec : Text → Out V) (ctxSheet : Text) (tvalue : Text) : Out V :=
  let addr := fullAddress tvalue ctxSheet
  match dget wb.ranges addr with
  | some rows => (readRows me ec rows 0 0).map V.arr
  | none => ec addr

section eval
variable (un : Nat → V → V) (bin : Nat → V → V → V) (me : Nat)

/-- `ASTNode.eval(context)` for the node kinds of `Expr`. -/
def evalExpr (wb : Wb) (ec : Text → Out V) (ctxSheet : Text) : Expr → Out V
  | .num z => .val (.s (.num (.int z)))
  | .ref t => rangeNodeEval me wb ec ctxSheet t
  | .un f a =>
    match evalExpr wb ec ctxSheet a with
    | .val x => .val (un f x)
    | o => o
  | .bin f a b =>
    match evalExpr wb ec ctxSheet a with
    | .val x =>
      match evalExpr wb ec ctxSheet b with
      | .val y => .val (bin f x y)
      | o => o
    | o => o

/-- `ref.rsplit("!", 1)[0]` -/
def sheetOf (ref : Text) : Text :=
  match rsplitLast '!' ref with
  | some (sheet, _) => sheet
  | none => ref

/-- the `try … except` of `Evaluator.evaluate`: every exception leaves as RuntimeError. -/
def wrapRuntime : Out V → Out V
  | .crash _ => .crash .runtime
  | o => o

/-- `Evaluator.evaluate(addr)` below `resolve_names` — every formula cell is evaluated in a context
    of its own (`_get_context(addr)`, whose sheet is `addr.rsplit('!', 1)[0]`), and the cells it reads are
    evaluated through `EvaluatorContext.eval_cell` → `evaluate(addr, None)`, i.e. again in a fresh
    context.  `evaluating` is `Evaluator._evaluating`; fuel stands for Python's recursion. -/
def evalCell (wb : Wb) : Nat → List Text → Text → Out V
  | 0, _, _ => .diverge
  | fuel + 1, evaluating, addr =>
    match dget wb.cells addr with
    | none => .val (.s .blank)
    | some cell =>
      match cell.formula with
      | none => .val (.s cell.value)
      | some fm =>
        if evaluating.contains addr then .crash .runtime
        else wrapRuntime (evalExpr un bin me wb (evalCell wb fuel (evaluating ++ [addr])) (sheetOf addr) fm.ast)

/-- `Evaluator.resolve_names(addr)` followed by `evaluate`. -/
def evaluate (wb : Wb) (fuel : Nat) (addr : Text) : Out V :=
  match dget wb.names addr with
  | some (.cell a) => evalCell un bin me wb fuel [] a
  | some (.range _) => .crash .valueError
  | none => evalCell un bin me wb fuel [] addr

end eval

/-! ## model.py: building the model -/

/-- a value of the input dict / of a worksheet cell -/
inductive Item
  | const (v : S)
  | formula (raw : Expr)      -- references as written in the formula text (with quotes)
  deriving Repr, Inhabited

/-- the loop of `read_and_parse_dict` (also `Reader.read_cells`, whose keys are all qualified) -/
def readCells (defaultSheet : Text) : List (Text × Item) → Dict Cell → Out (Dict Cell)
  | [], cells => .val cells
  | (item, v) :: rest, cells =>
    let cellAddress := if has '!' item then item else defaultSheet ++ ['!'] ++ item
    match xlCellCheck cellAddress with
    | .val () =>
      match v with
      | .const x => readCells defaultSheet rest (dset cells cellAddress ⟨x, none⟩)
      | .formula raw =>
        let sheetName := sheetOf cellAddress
        let tokens := raw.mapRef tokRef
        readCells defaultSheet rest
          (dset cells cellAddress ⟨.blank, some ⟨sheetName, tokens, formulaTerms sheetName tokens, tokens⟩⟩)
    | _ => .crash .valueError

/-- the address a defined name's text stands for in `build_defined_names`: `$` removed from the coordinates,
    and when there is a `!`, the sheet part (before the last `!`) resolved (`f'{None}!…'` prints `None`) -/
def nameAddress (text : Text) : Text :=
  let cellAddress := stripCoordDollar text
  match rsplitLast '!' cellAddress with
  | some (sheetStr, coord) => (resolveSheet sheetStr).getD "None".toList ++ ['!'] ++ coord
  | none => cellAddress

/-- one defined name of `build_defined_names` -/
def defineName (wb : Wb) (name text : Text) : Out Wb :=
  let cellAddress := nameAddress text
  if !has ':' cellAddress then
    if dhas wb.cells cellAddress then .val { wb with names := dset wb.names name (.cell cellAddress) }
    else .val wb                                    -- "refers to empty cell … not being loaded"
  else
    match resolveRanges cellAddress with
    | .val (_, m) =>
      .val { wb with names := dset wb.names name (.range cellAddress),
                     ranges := dset wb.ranges cellAddress m }
    | _ => .crash .valueError

def buildDefinedNames : List (Text × Text) → Wb → Out Wb
  | [], wb => .val wb
  | (n, t) :: rest, wb =>
    match defineName wb n t with
    | .val wb' => buildDefinedNames rest wb'
    | o => o

/-- `cells[a] = XLCell(a, None)` for the members that have no cell yet -/
def addBlankCells : List Text → Dict Cell → Out (Dict Cell)
  | [], cells => .val cells
  | a :: rest, cells =>
    if dhas cells a then addBlankCells rest cells
    else
      match xlCellCheck a with
      | .val () => addBlankCells rest (dset cells a ⟨.blank, none⟩)
      | _ => .crash .valueError

/-- body of the inner loop of `build_ranges` for one term -/
def buildRangesTerm (defaultSheet : Text) (wb : Wb) (term : Text) : Out Wb :=
  let reg : Out (Text × Wb) :=
    if has ':' term then
      let range := if has '!' term then term else defaultSheet ++ ['!'] ++ term
      match resolveRanges range with
      | .val (_, m) => .val (range, { wb with ranges := dset wb.ranges range m })
      | _ => .crash .valueError
    else .val (term, wb)
  match reg with
  | .val (range, wb) =>
    match dget wb.ranges range with
    | some m =>
      match addBlankCells m.flatten wb.cells with
      | .val cells => .val { wb with cells := cells }
      | _ => .crash .valueError
    | none => .val wb
  | o => o.map fun _ => wb

def buildRangesTerms (defaultSheet : Text) : List Text → Wb → Out Wb
  | [], wb => .val wb
  | t :: rest, wb =>
    match buildRangesTerm defaultSheet wb t with
    | .val wb' => buildRangesTerms defaultSheet rest wb'
    | o => o

/-- `build_ranges`: over the formulas present when it starts, in insertion order -/
def buildRanges (defaultSheet : Text) (wb : Wb) : Out Wb :=
  buildRangesTerms defaultSheet
    ((wb.cells.filterMap fun kc => kc.2.formula.map (·.terms)).flatten) wb

/-- `Model._defn_address` -/
def defnAddress : Defn → Text
  | .cell a => a
  | .range k => k

/-- parser.py, `shunting_yard`: a range operand whose value is a defined name is replaced by the
    name's address -/
def substNames (names : Dict Defn) (e : Expr) : Expr :=
  e.mapRef fun t => match dget names t with
    | some d => defnAddress d
    | none => t

/-- `Model.build_code` -/
def buildCode (wb : Wb) : Wb :=
  { wb with cells := wb.cells.map fun kc =>
      (kc.1, { kc.2 with formula := kc.2.formula.map fun fm =>
        { fm with ast := substNames wb.names fm.tokens } }) }

/-- `read_and_parse_dict` / `parse_archive` + `build_code`: cells, defined names, ranges, code. -/
def compile (defaultSheet : Text) (items : List (Text × Item)) (names : List (Text × Text)) : Out Wb :=
  match readCells defaultSheet items [] with
  | .val cells =>
    match buildDefinedNames names { cells := cells } with
    | .val wb =>
      match buildRanges defaultSheet wb with
      | .val wb => .val (buildCode wb)
      | o => o
    | o => o
  | o => o.map fun _ => {}

/-! ## model.py: `Model.set_cell_value` (by address or by the name of a cell) -/

/-- `set_cell_value(address, value)`: an existing cell keeps its formula and gets the value, a missing
    cell is created (`XLCell(address, value)`). -/
def setCellValue (wb : Wb) (address : Text) (v : S) : Out Wb :=
  let address := match dget wb.names address with
    | some (.cell a) => a
    | _ => address
  match dget wb.cells address with
  | some cell => .val { wb with cells := dset wb.cells address { cell with value := v } }
  | none =>
    match xlCellCheck address with
    | .val () => .val { wb with cells := dset wb.cells address ⟨v, none⟩ }
    | _ => .crash .valueError

/-! ## known finding D6: the guard "no MAX_EMPTY truncation" -/

/-- the running counter of consecutive empty cells (row-major, across rows) never exceeds `me` -/
def runOK (me : Nat) : Nat → List Bool → Bool
  | _, [] => true
  | cnt, true :: bs => cnt + 1 ≤ me && runOK me (cnt + 1) bs
  | _, false :: bs => runOK me 0 bs

/-- length of the longest run of `true` -/
def maxRunAux : Nat → Nat → List Bool → Nat
  | best, cur, [] => max best cur
  | best, cur, true :: bs => maxRunAux best (cur + 1) bs
  | best, cur, false :: bs => maxRunAux (max best cur) 0 bs

def maxBlankRun (pattern : List (List Bool)) : Nat := maxRunAux 0 0 pattern.flatten

/-- **guard of D6** on the blank pattern of a range (row-major): no run of more than MAX_EMPTY
    consecutive empty cells -/
def noTruncation (me : Nat) (pattern : List (List Bool)) : Bool := runOK me 0 pattern.flatten

/-! ## the functions used by the driver's probes (`SUM`, `COUNTA`, `+`); not the subject of C03 -/

/-- `Number.cast` of a scalar (texts: decimal digits only; everything else is #VALUE!) -/
def numOfS : S → Except Code Rat
  | .num n => .ok n.toRat
  | .blank => .ok 0
  | .bool b => .ok (if b then 1 else 0)
  | .text t => if !t.isEmpty && t.all isDigit then .ok (digitsVal t : Nat) else .error .value
  | .date d => .ok d
  | .err c => .error c

/-- what a member of a range adds to `SUM` -/
def sumTerm : S → Rat
  | .num n => n.toRat
  | .bool b => if b then 1 else 0
  | _ => 0

def cSum : V → V
  | .s (.err c) => .s (.err c)
  | .s x => .s (.num (.flt (sumTerm x)))
  | .arr m =>
    match m.flatten.find? fun x => match x with | .err _ => true | _ => false with
    | some e => .s e
    | none => .s (.num (.flt ((m.flatten.map sumTerm).foldl (· + ·) 0)))

def cCountA : V → V
  | .s x => .s (.num (.int (if isEmptyS x then 0 else 1)))
  | .arr m => .s (.num (.int ((m.flatten.filter fun x => !isEmptyS x).length)))

def cAdd : V → V → V
  | .s x, .s y =>
    match numOfS x, numOfS y with
    | .ok a, .ok b => .s (.num (.flt (a + b)))
    | .error c, _ => .s (.err c)
    | _, .error c => .s (.err c)
  | _, _ => .s (.err .value)

def cSub : V → V → V
  | .s x, .s y =>
    match numOfS x, numOfS y with
    | .ok a, .ok b => .s (.num (.flt (a - b)))
    | .error c, _ => .s (.err c)
    | _, .error c => .s (.err c)
  | _, _ => .s (.err .value)

def cUn : Nat → V → V
  | 0 => cSum
  | _ => cCountA

def cBin : Nat → V → V → V
  | 1 => cSub
  | _ => cAdd

end XlVerif.Model.C03
