/-
  Model for C04 / C05 on top of `Model.Evaluator`: the state machine of a *history* of public-API
  calls on one model (`set_cell_value`, `evaluate`, `get_cell_value`), and of a *schedule* of
  `evaluate` calls issued by several `Evaluator` objects that share one model.

  What an `Evaluator` object keeps between calls is modelled explicitly: its in-progress stack
  `_evaluating` (`Sys.stacks`).  Contexts and their memo (`EvaluatorContext._values`) live inside one
  `evalCell` run (`Ctx`) and are dropped when it returns — that is the D10 repair; before it the memo
  was a class-level `lru_cache` that kept every context alive.
-/
import XlVerif.Model.Evaluator
namespace XlVerif.Model.C04
open XlVerif XlVerif.Model.Evaluator

/-- one call of the public API -/
inductive Op
  | set (a : Addr) (v : V)      -- `evaluator.set_cell_value(a, v)`, `a` an address or a defined name
  | eval (a : Addr)             -- `evaluator.evaluate(a)`
  | get (a : Addr)              -- `evaluator.get_cell_value(a)`
  deriving Repr, Inhabited

/-- what the call returns -/
inductive Resp
  | unit
  | res (r : Res)
  | got (v : V)
  deriving DecidableEq, Repr, Inhabited

def step (sem : Sem) (fuel : Nat) (m : MState) : Op → MState × Resp
  | .set a v => (m.setCellValue a v, .unit)
  | .eval a => ((evaluate sem fuel m a).1, .res (evaluate sem fuel m a).2.1)
  | .get a => (m, .got (m.getCellValue a))

/-- run a history; the model after it and the responses in order -/
def run (sem : Sem) (fuel : Nat) : MState → List Op → MState × List Resp
  | m, [] => (m, [])
  | m, op :: rest =>
    let r := step sem fuel m op
    let rs := run sem fuel r.1 rest
    (rs.1, r.2 :: rs.2)

/-- the model a user would hold who only performed the `set` calls of the history (the "current inputs") -/
def inputsAfter : MState → List Op → MState
  | m, [] => m
  | m, .set a v :: rest => inputsAfter (m.setCellValue a v) rest
  | m, _ :: rest => inputsAfter m rest

/-- the results of the `evaluate` calls of a history -/
def evalResults : List Resp → List Res
  | [] => []
  | .res r :: rest => r :: evalResults rest
  | _ :: rest => evalResults rest

/-! ### several evaluators sharing one model -/

/-- the model plus what each `Evaluator` object retains between calls: its `_evaluating` stack -/
structure Sys where
  model : MState
  stacks : List (List Addr)
  deriving Repr, Inhabited

def Sys.init (m : MState) (evaluators : Nat) : Sys := { model := m, stacks := List.replicate evaluators [] }

/-- `evaluators[e].evaluate(a)`; the context it returns is dropped except for the evaluator's stack -/
def Sys.evaluate (sem : Sem) (fuel : Nat) (s : Sys) (e : Nat) (a : Addr) : Sys × Res :=
  let out := evalCell mutStore sem fuel { st := s.model, evaluating := s.stacks.getD e [], memo := [] } a
  ({ model := out.1.st, stacks := s.stacks.set e out.1.evaluating }, out.2)

/-- a schedule: which evaluator evaluates which cell, in order (repetitions allowed) -/
def Sys.runSched (sem : Sem) (fuel : Nat) : Sys → List (Nat × Addr) → Sys × List Res
  | s, [] => (s, [])
  | s, (e, a) :: rest =>
    let r := Sys.evaluate sem fuel s e a
    let rs := Sys.runSched sem fuel r.1 rest
    (rs.1, r.2 :: rs.2)

/-- `n` passes over the same schedule -/
def Sys.rounds (sem : Sem) (fuel : Nat) (sched : List (Nat × Addr)) : Nat → Sys → Sys
  | 0, s => s
  | n + 1, s => Sys.rounds sem fuel sched n (Sys.runSched sem fuel s sched).1

/-! ### size of what is retained -/

def sizeV : V → Nat
  | .s _ => 1
  | .arr rows => 1 + (rows.map fun r => 1 + r.length).sum

/-- cells, ranges and stored values of the model plus the evaluators' stacks: everything that stays
    reachable between two calls -/
def Sys.size (s : Sys) : Nat :=
  (s.model.cells.map fun p => 1 + sizeV p.2.value).sum
  + (s.model.ranges.map fun p => 1 + (match p.2.value with | some v => sizeV v | none => 0)).sum
  + s.model.names.length
  + (s.stacks.map fun st => 1 + st.length).sum

/-! ### a small workbook used by the `example`s of Props/C04 and Props/C05: A1 = 1, B1 = A1, C1 = B1,
    the name `x` bound to A1; `sem0` is a trivial function semantics -/

def sem0 : Sem := { app := fun _ vs => .val (vs.headD (.s .blank)), truth := fun _ => some true }
def wbA : Addr := "S!A1".toList
def wbB : Addr := "S!B1".toList
def wbC : Addr := "S!C1".toList
def wb : MState :=
  { cells := [(wbA, { value := .s (.num (.int 1)), formula := none }),
              (wbB, { value := .s .blank, formula := some (.ref wbA) }),
              (wbC, { value := .s .blank, formula := some (.ref wbB) })],
    ranges := [], names := [("x".toList, wbA)] }

/-! ### the two spellings of an address (`Model.set_cell_value` / `get_cell_value` dispatch on the type of `address`) -/

/-- a string (an address or a defined name) or an `XLCell` object carrying the address -/
inductive Handle
  | str (a : Addr)
  | cell (a : Addr)
  deriving Repr, Inhabited

/-- `Model.set_cell_value(address, value)`.  A string goes through the defined names; an `XLCell` is never a key of
    `defined_names` (its keys are strings), so its `.address` is used as it stands: the stored cell gets the value, a cell
    that is not in the model yet is created (`XLCell(address.address, value)`, the D0402 repair). -/
def setCellValueH (m : MState) : Handle → V → MState
  | .str a, v => m.setCellValue a v
  | .cell a, v =>
    match m.cell? a with
    | some _ => { m with cells := assocUpdate a (fun c => { c with value := v }) m.cells }
    | none => { m with cells := m.cells ++ [(a, { value := v, formula := none })] }

/-- `Model.get_cell_value(address)` with the same dispatch -/
def getCellValueH (m : MState) : Handle → V
  | .str a => m.getCellValue a
  | .cell a =>
    match m.cell? a with
    | some c => c.value
    | none => .s (.num (.int 0))

end XlVerif.Model.C04
