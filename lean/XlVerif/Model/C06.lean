/-
  XlVerif.Model.C06 — the static dependency structure of a model as `Evaluator.evaluate` sees it
  (cell references and range members, after `resolve_names`), plus the sizes that occur in the
  failure messages.  The evaluator itself is `Model/Evaluator.lean` (shared, validated separately).

  * `targets rc f`  : the addresses `f` hands to `context.eval_cell`, in evaluation order: a cell
                      reference, every member of a range (`RangeNode.eval` walks `context.ranges[key].cells`;
                      a key that is no range is evaluated like a cell reference).  The arguments of an unknown
                      function are NOT targets: `namespace[name]` raises KeyError before any argument is touched.
                      For the lazy nodes every syntactic branch is listed (an over-approximation).
  * `deps m a`      : the cells the formula of (resolved) cell `a` may evaluate, each after `resolve_names`
  * `strict f`      : `f` is built from literals, references, ranges and strict calls only
-/
import XlVerif.Model.Evaluator
namespace XlVerif.Model.C06
open XlVerif XlVerif.Model.Evaluator

mutual
def targets (rc : Addr → Option (List (List Addr))) : Fx → List Addr
  | .lit _ => []
  | .ref a => [a]
  | .rng k => (match rc k with | some rows => rows.flatten | none => [k])
  | .app _ args => targetsL rc args
  | .iff c t e => targets rc c ++ (targets rc t ++ targets rc e)
  | .sc _ args => targetsL rc args
  | .fail _ _ => []
def targetsL (rc : Addr → Option (List (List Addr))) : List Fx → List Addr
  | [] => []
  | a :: rest => targets rc a ++ targetsL rc rest
end

mutual
/-- literals, references, ranges, strict functions / operators only -/
def strict : Fx → Bool
  | .lit _ => true
  | .ref _ => true
  | .rng _ => true
  | .app _ args => strictL args
  | .iff _ _ _ => false
  | .sc _ _ => false
  | .fail _ _ => false
def strictL : List Fx → Bool
  | [] => true
  | a :: rest => strict a && strictL rest
end

mutual
/-- the `repr` lengths of the unknown-function failures inside a formula -/
def failLens : Fx → List Nat
  | .lit _ => []
  | .ref _ => []
  | .rng _ => []
  | .app _ args => failLensL args
  | .iff c t e => failLens c ++ (failLens t ++ failLens e)
  | .sc _ args => failLensL args
  | .fail n _ => [n]
def failLensL : List Fx → List Nat
  | [] => []
  | a :: rest => failLens a ++ failLensL rest
end

/-- the member matrix of a range key (`model.ranges[key].cells`) -/
def rcOf (m : MState) (k : Addr) : Option (List (List Addr)) := (m.range? k).map (·.cells)

/-- formula of the cell stored under the (resolved) address `a` -/
def formulaAt (m : MState) (a : Addr) : Option Fx := (m.cell? a).bind (·.formula)

/-- static dependency function on resolved addresses -/
def deps (m : MState) (a : Addr) : List Addr :=
  match formulaAt m a with
  | some f => (targets (rcOf m) f).map m.resolve
  | none => []

/-- every formula of the model is strict -/
def strictModel (m : MState) : Prop := ∀ a f, formulaAt m a = some f → strict f = true

/-- every range is small enough for `RangeNode.eval` to visit all its members (no `MAX_EMPTY` break) -/
def smallRanges (m : MState) : Prop :=
  ∀ k rows, rcOf m k = some rows → rows.flatten.length ≤ Gen.maxEmpty ∧ rows.length ≤ Gen.maxEmpty

/-- at most one `eval_cell` per formula: the model is a bundle of chains -/
def chainModel (m : MState) : Prop := ∀ a f, formulaAt m a = some f → (targets (rcOf m) f).length ≤ 1

/-- longest address / formula text stored in the model -/
def maxAddrLen (m : MState) : Nat := m.cells.foldl (fun n p => max n p.1.length) 0
def maxFormulaLen (m : MState) : Nat := m.cells.foldl (fun n p => max n p.2.formulaLen) 0

/-! ### one Evaluator object used for several evaluations -/

/-- the state an `Evaluator` carries from one `evaluate` call to the next: the model it mutates and its
    in-progress list `_evaluating` -/
structure EvState where
  st : MState
  evaluating : List Addr := []

/-- `evaluator.evaluate(a)` on an evaluator in state `e` (a fresh context, i.e. an empty memo, per call) -/
def evaluateOn (sem : Sem) (fuel : Nat) (e : EvState) (a : Addr) : EvState × Res :=
  let (c, r) := evalCell mutStore sem fuel { st := e.st, evaluating := e.evaluating, memo := [] } a
  ({ st := c.st, evaluating := c.evaluating }, r)

/-- a history of evaluations on ONE evaluator -/
def runHist (sem : Sem) (fuel : Nat) : EvState → List Addr → EvState × List Res
  | e, [] => (e, [])
  | e, a :: rest =>
    let (e1, r) := evaluateOn sem fuel e a
    let (e2, rs) := runHist sem fuel e1 rest
    (e2, r :: rs)

/-- executable versions for the driver -/
def strictModelB (m : MState) : Bool :=
  m.cells.all fun p => match p.2.formula with | some f => strict f | none => true

end XlVerif.Model.C06
