/-
  Model for C08 beyond the shared value layer: function-name resolution in `FunctionNode.eval`
  (`tvalue.upper().replace('_XLFN.', '')` then `context.namespace[name]`) and the registration state
  machine (`xl.register` adds to the global `FUNCTIONS`; `Evaluator.__init__` takes a *copy*).
-/
import XlVerif.Model.Validate
namespace XlVerif.Model.C08
open XlVerif XlVerif.Model.Value XlVerif.Gen

/-- Python `s.replace(pat, "")` for a non-empty pattern: remove every non-overlapping occurrence,
    scanning left to right. `skip` = characters of a matched occurrence still to be dropped. -/
def removeAllAux (pat : List Char) : Nat → List Char → List Char
  | _, [] => []
  | n + 1, _ :: s => removeAllAux pat n s
  | 0, c :: s =>
    if pat ≠ [] ∧ pat.isPrefixOf (c :: s) then removeAllAux pat (pat.length - 1) s
    else c :: removeAllAux pat 0 s

def removeAll (pat s : List Char) : List Char := removeAllAux pat 0 s

def xlfnPrefix : List Char := "_XLFN.".toList

/-- the key `FunctionNode.eval` looks up -/
def resolveName (tvalue : List Char) : List Char := removeAll xlfnPrefix (tvalue.map upper)

/-- a namespace: name → some identifier of the function object -/
abbrev Namespace := List (List Char × Nat)

def nsLookup (ns : Namespace) (k : List Char) : Option Nat :=
  match ns with
  | [] => none
  | (k', v) :: rest => if k = k' then some v else nsLookup rest k

/-- `dict[name] = func` -/
def nsSet (ns : Namespace) (k : List Char) (v : Nat) : Namespace :=
  match ns with
  | [] => [(k, v)]
  | (k', v') :: rest => if k = k' then (k, v) :: rest else (k', v') :: nsSet rest k v

/-- state: the global `xl.FUNCTIONS` and the namespaces of the evaluators created so far -/
structure RegState where
  global : Namespace
  evaluators : List Namespace

inductive RegOp
  | register (name : List Char) (fn : Nat)     -- `@xl.register()` (or `FUNCTIONS.register`)
  | newEvaluator                               -- `Evaluator(model)`: `namespace = xl.FUNCTIONS.copy()`

def RegState.step (s : RegState) : RegOp → RegState
  | .register n f => { s with global := nsSet s.global n f }
  | .newEvaluator => { s with evaluators := s.evaluators ++ [s.global] }

end XlVerif.Model.C08
