/-
  XlVerif.Model.C10 — the bodies of `xlfunctions/logical.py` (IF, AND, OR, NOT) on THUNKS, the way
  `FunctionNode.eval` hands `XlExpr` parameters to them (`func_xltypes.Expr`: a callable evaluated on
  demand), and their embedding into the evaluator model.

  * A thunk is a state transformer `τ → τ × Res`: calling it may evaluate cells (changing the evaluation
    context, in particular the trace of cells whose evaluation was started), may raise (`Res.exc`) and
    — in the theorems — is completely arbitrary.
  * `IF_` / `IF2_` / `IF1_` : `logical_test()`, an error is returned, only the selected thunk is called; the
    defaults of omitted branches are `ValueExpr(True)` / `ValueExpr(False)`.
  * `SC isAnd`  : the loop of AND (`isAnd = true`) / OR: each argument is called, flattened, an error among
    its items is raised (= returned by `validate_args`), blanks are skipped, the first deciding item stops
    the loop; `AND_` / `OR_` add the `#NULL!` of an empty argument list.
  * `NOT_`      : error returned, otherwise `not bool(value)`.
  * `Lx` / `evalLx` : formulas over these bodies whose leaves are formulas of the shared evaluator model
    (`Fx`), with a spy node (a registered function that logs its call and then calls its thunk); `evalEntry`
    is `Evaluator.evaluate` for a cell holding such a formula.
-/
import XlVerif.Model.Evaluator
import XlVerif.Model.Value
import XlVerif.Model.C06
namespace XlVerif.Model.C10
open XlVerif XlVerif.Model.Evaluator XlVerif.Model.Value

/-- `bool(test)` as used by IF / AND / OR / NOT; `none` = the value is an Excel error -/
def truthOf : V → Option Bool
  | .s (.err _) => none
  | .s x => some (truthy x)
  | .arr _ => some true        -- outside the domain (the code raises ValueError: truth value of an Array)

abbrev XExpr (τ : Type) := τ → τ × Res

section bodies
variable {τ : Type}

/-- `ValueExpr(value)` -/
def constT (v : V) : XExpr τ := fun s => (s, .val v)

/-- `IF(logical_test, value_if_true, value_if_false)` -/
def IF_ (truth : V → Option Bool) (c t e : XExpr τ) : XExpr τ := fun s =>
  match c s with
  | (s1, .val v) =>
    (match truth v with
     | none => (s1, .val v)            -- `if isinstance(test, ExcelError): return test`
     | some true => t s1
     | some false => e s1)
  | r => r
/-- `IF(c, a)`: `value_if_false = ValueExpr(False)` -/
def IF2_ (truth : V → Option Bool) (c t : XExpr τ) : XExpr τ := IF_ truth c t (constT (.s (.bool false)))
/-- `IF(c)`: `value_if_true = ValueExpr(True)` -/
def IF1_ (truth : V → Option Bool) (c : XExpr τ) : XExpr τ :=
  IF_ truth c (constT (.s (.bool true))) (constT (.s (.bool false)))

/-- `xl.flatten([val])` -/
def flat : V → List S
  | .s x => [x]
  | .arr rows => rows.flatten

/-- `Blank.is_blank(item)`: a Blank, None, or anything equal to `''` -/
def isBlankItem : S → Bool
  | .blank => true
  | .text [] => true
  | _ => false

/-- first loop over the items of one evaluated argument: `if isinstance(item, ExcelError): raise item` -/
def firstError : List S → Option Code
  | [] => none
  | .err c :: _ => some c
  | _ :: rest => firstError rest

/-- second loop: blanks skipped; `true` = an item decides (a false item in AND, a true item in OR) -/
def decides (isAnd : Bool) : List S → Bool
  | [] => false
  | x :: rest => if isBlankItem x then decides isAnd rest else if truthy x = isAnd then decides isAnd rest else true

/-- verdict on one evaluated argument -/
inductive Step | error (c : Code) | decided | continue
  deriving DecidableEq, Repr

def stepOf (isAnd : Bool) (v : V) : Step :=
  match firstError (flat v) with
  | some c => .error c
  | none => if decides isAnd (flat v) then .decided else .continue

/-- the `for logical in logicals:` loop of AND (`isAnd`) / OR -/
def SC (isAnd : Bool) : List (XExpr τ) → XExpr τ
  | [] => fun s => (s, .val (.s (.bool isAnd)))
  | t :: rest => fun s =>
    match t s with
    | (s1, .val v) =>
      (match stepOf isAnd v with
       | .error c => (s1, .val (.s (.err c)))           -- `raise item`, returned by `validate_args`
       | .decided => (s1, .val (.s (.bool (!isAnd))))
       | .continue => SC isAnd rest s1)
    | r => r

/-- `AND(*logicals)` / `OR(*logicals)`: `#NULL!` without arguments -/
def ANDOR_ (isAnd : Bool) (args : List (XExpr τ)) : XExpr τ :=
  if args.isEmpty then constT (.s (.err .null)) else SC isAnd args

/-- value part of NOT -/
def notV : V → V
  | .s (.err c) => .s (.err c)
  | .s x => .s (.bool (!truthy x))
  | .arr _ => .s (.bool false)   -- outside the domain

/-- `NOT(logical)` -/
def NOT_ (a : XExpr τ) : XExpr τ := fun s =>
  match a s with
  | (s1, .val v) => (s1, .val (notV v))
  | r => r

/-- the loop of the shared evaluator model (`Evaluator.evalSc`) on thunks: each evaluated argument is flattened
    and judged by `Evaluator.itemsVerdict` (generic in the truth function of the semantics) -/
def SCs (truth : V → Option Bool) (isAnd : Bool) : List (XExpr τ) → XExpr τ
  | [] => fun s => (s, .val (.s (.bool isAnd)))
  | t :: rest => fun s =>
    match t s with
    | (s1, .val v) =>
      (match itemsVerdict truth isAnd (argItems v) with
       | .neutral => SCs truth isAnd rest s1
       | .decided b => (s1, .val (.s (.bool b)))
       | .error e => (s1, .val e))
    | r => r

end bodies

/-! ### formulas over the bodies -/

/-- formulas of the correspondence: the leaves are formulas of the shared model -/
inductive Lx
  | fx (f : Fx)
  | app (g : Nat) (args : List Lx)      -- strict operator / function
  | if3 (c t e : Lx)
  | if2 (c t : Lx)
  | if1 (c : Lx)
  | andor (isAnd : Bool) (args : List Lx)
  | not (a : Lx)
  | spy (k : Nat) (a : Lx)              -- `SPY(k, a)`: logs `k`, then calls its thunk
  | fail (n : Nat) (args : List Lx)     -- unknown function
  deriving Repr, Inhabited

/-- the trace entry written by `SPY(k, …)` -/
def spyAddr (k : Nat) : Addr := '#' :: (toString k).toList

section eval
variable {σ : Type} (S : Store σ) (sem : Sem) (ce : Ctx σ → Addr → Ctx σ × Res)

mutual
def evalLx : Lx → XExpr (Ctx σ)
  | .fx f => fun c => evalFx S sem ce c f
  | .app g args => fun c =>
    (match evalLxArgs args c with
     | (c', .ok vs) =>
       (match sem.app g vs with
        | .val v => (c', .val v)
        | .raiseRuntime n => (c', .exc .runtime n)
        | .raiseOther n => (c', .exc .problem n))
     | (c', .error e) => (c', e))
  | .if3 a b d => IF_ sem.truth (evalLx a) (evalLx b) (evalLx d)
  | .if2 a b => IF2_ sem.truth (evalLx a) (evalLx b)
  | .if1 a => IF1_ sem.truth (evalLx a)
  | .andor isAnd args => ANDOR_ isAnd (thunks args)
  | .not a => NOT_ (evalLx a)
  | .spy k a => fun c => evalLx a { c with trace := c.trace ++ [spyAddr k] }
  | .fail n _ => fun c => (c, .exc .problem n)

def thunks : List Lx → List (XExpr (Ctx σ))
  | [] => []
  | a :: rest => evalLx a :: thunks rest

def evalLxArgs : List Lx → Ctx σ → Ctx σ × Except Res (List V)
  | [], c => (c, .ok [])
  | a :: rest, c =>
    (match evalLx a c with
     | (c', .val v) =>
       (match evalLxArgs rest c' with
        | (c'', .ok vs) => (c'', .ok (v :: vs))
        | (c'', .error e) => (c'', .error e))
     | (c', e) => (c', .error e))
end

/-- `Evaluator.evaluate(a)` for the cell `a` holding the formula `f` (of text length `len`): steps 3 and 4 of
    `evaluate` (push on the in-progress stack, evaluate, pop, wrap a non-RuntimeError once, write back) -/
def evalEntry (fuel : Nat) (c : Ctx σ) (a : Addr) (len : Nat) (f : Lx) : Ctx σ × Res :=
  if c.evaluating.contains a then
    (c, .exc .cycle (20 + a.length + sumLens c.evaluating))
  else
    let c1 := { c with evaluating := a :: c.evaluating, trace := c.trace ++ [a] }
    let (c2, r) := evalLx S sem (evalCell S sem fuel) f c1
    let c3 := { c2 with evaluating := c.evaluating }
    match r with
    | .val v => ({ c3 with st := S.writeCell c3.st a v }, .val v)
    | .exc .problem n => (c3, .exc .runtime (35 + a.length + len + n))
    | e => (c3, e)
end eval

/-- `Evaluator(model).evaluate(a)` where the entry cell `a` holds `f` -/
def evaluateLx (sem : Sem) (fuel : Nat) (m : MState) (a : Addr) (len : Nat) (f : Lx) : Res × List Addr :=
  let (c, r) := evalEntry mutStore sem fuel { st := m, evaluating := [], memo := [] } a len f
  (r, c.trace)

/-! ### one Evaluator object over a sequence of inputs -/
open XlVerif.Model.C06 (EvState evaluateOn)

/-- `evaluator.evaluate(a)` on a REUSED evaluator (state `e`: the model it mutates and its `_evaluating`), the
    entry cell `a` holding `f` -/
def evaluateLxOn (sem : Sem) (fuel : Nat) (e : EvState) (a : Addr) (len : Nat) (f : Lx) : EvState × Res × List Addr :=
  let (c, r) := evalEntry mutStore sem fuel { st := e.st, evaluating := e.evaluating, memo := [] } a len f
  ({ st := c.st, evaluating := c.evaluating }, r, c.trace)

/-- what a client does with one evaluator between two evaluations -/
inductive HStep
  | cell (a : Addr)                          -- `evaluator.evaluate(a)` on an ordinary cell
  | entry (a : Addr) (len : Nat) (f : Lx)    -- … on a cell holding a formula over IF / AND / OR / NOT
  | set (a : Addr) (v : V)                   -- `evaluator.set_cell_value(a, v)`: a new truth assignment

def stepOn (sem : Sem) (fuel : Nat) (e : EvState) : HStep → EvState
  | .cell a => (evaluateOn sem fuel e a).1
  | .entry a len f => (evaluateLxOn sem fuel e a len f).1
  | .set a v => { e with st := e.st.setCellValue a v }

mutual
/-- formulas that the shared model can express directly (no spy, no omitted branch, NOT as function 11) -/
def Lx.toFx? : Lx → Option Fx
  | .fx f => some f
  | .app g args => (Lx.toFxL? args).map (Fx.app g)
  | .if3 a b d => do
      let a' ← Lx.toFx? a
      let b' ← Lx.toFx? b
      let d' ← Lx.toFx? d
      pure (Fx.iff a' b' d')
  | .if2 _ _ => none
  | .if1 _ => none
  | .andor isAnd args =>
    -- `Fx.sc` flattens its evaluated arguments like logical.py does: range arguments are expressible;
    -- only the `#NULL!` of an empty argument list is not (`Fx.sc b []` is the neutral element)
    if args.isEmpty then none
    else (Lx.toFxL? args).map (Fx.sc isAnd)
  | .not a => (Lx.toFx? a).map fun a' => Fx.app 11 [a']
  | .spy _ _ => none
  | .fail n args => (Lx.toFxL? args).map (Fx.fail n)
def Lx.toFxL? : List Lx → Option (List Fx)
  | [] => some []
  | a :: rest => do
      let a' ← Lx.toFx? a
      let r' ← Lx.toFxL? rest
      pure (a' :: r')
end

end XlVerif.Model.C10
