/-
  Model of the workbook loader: xlcalculator/reader.py (`Reader.read_cells`, `read_defined_names`),
  patch.py (the `cvalue` extension), model.py (`ModelCompiler.parse_archive`, `build_defined_names`,
  `link_cells_to_defined_names`, `build_ranges`, `Model.get_cell_value`), xltypes.py (`XLCell`,
  `XLFormula.terms`, `XLRange`) and utils.py (`resolve_sheet`, `resolve_ranges`) — statement by statement,
  on texts (`List Char`) as the Python works on `str`.

  What the code leans on in openpyxl is a *hand model of the contract*, not verified (tied to the
  running library by the correspondence check only): value typing per storage form (`castValue` =
  `WorkSheetParser.parse_cell`), the shared-formula table and `Translator.translate_formula`
  (`scan`/`shiftTok`/`translate`: every non-`$` coordinate of the master is moved by the member's offset),
  `cell.coordinate`/`get_column_letter` (`Spec.coordText`), `range_boundaries` (`rangeBoundaries`), the
  regex `SHEET_TITLE` (`resolveSheet`), and the tokenizer's RANGE operands (`rangeTerms`).

  The input type (abstract workbook) is shared with `Spec.C11`; nothing else of the spec is used except
  the A1 rendering functions (`colName`, `digits`, `coordText`, `refText`, `renderToks`).
-/
import XlVerif.Base
import XlVerif.Gen.Misc
import XlVerif.Spec.C11
namespace XlVerif.Model.C11
open XlVerif
open XlVerif.Spec.C11 (Text Coord PyVal Stored FTok FForm SCell Sheet Target TargetForm DefName Workbook
  colName digits coordText refText renderToks)

/-! ## Python dicts (insertion-ordered association lists) -/

abbrev Dict (α : Type) := List (Text × α)

/-- `d.get(k)`. -/
def dget {α} : Dict α → Text → Option α
  | [], _ => none
  | (k', v) :: d, k => if k' = k then some v else dget d k

/-- `d[k] = v`: replaces in place, or appends. -/
def dset {α} : Dict α → Text → α → Dict α
  | [], k, v => [(k, v)]
  | (k', v') :: d, k, v => if k' = k then (k, v) :: d else (k', v') :: dset d k v

/-- `k in d`. -/
def dhas {α} (d : Dict α) (k : Text) : Bool := (dget d k).isSome

def dkeys {α} (d : Dict α) : List Text := d.map Prod.fst

/-- `if k in d: d[k] = f(d[k])`. -/
def dmodify {α} : Dict α → Text → (α → α) → Dict α
  | [], _, _ => []
  | (k', v) :: d, k, f => if k' = k then (k', f v) :: d else (k', v) :: dmodify d k f

/-- `dict(entries)`: later entries win, position of the first occurrence is kept. -/
def dofList {α} (l : List (Text × α)) : Dict α := l.foldl (fun d e => dset d e.1 e.2) []

/-! ## openpyxl contract: typing of a stored value (`parse_cell`, also used with `data_only=True` for
    the cached result that patch.py keeps as `cvalue`) -/

/-- `value = element.findtext(v) or None`, then the cast by `t`/number format. -/
def castValue (sst : List Text) : Stored → PyVal
  | .empty => .none
  | .n (.int z) => .int z                         -- `_cast_number`: no `.`/`e`/`E` in the literal
  | .n (.flt q) => .flt q
  | .nDate v => .date v.toRat                     -- `from_excel` (1900 system), a datetime
  | .s idx => .str (sst.getD idx [])              -- IndexError beyond the table: not a SpreadsheetML file
  | .str t => if t = [] then .none else .str t    -- `'' or None`
  | .inl t => .str t
  | .b v => .bool v
  | .e t => if t = [] then .none else .str t

/-! ## openpyxl contract: formula tokens and the shared-formula translator -/

def isUpper (c : Char) : Bool := 65 ≤ c.toNat && c.toNat ≤ 90
def isDigit (c : Char) : Bool := 48 ≤ c.toNat && c.toNat ≤ 57
def isLower (c : Char) : Bool := 97 ≤ c.toNat && c.toNat ≤ 122
/-- characters of names (Excel: letters, digits, `_`, `.`, `\\`, `?`), numbers and references. -/
def isWordChar (c : Char) : Bool :=
  isUpper c || isLower c || isDigit c || c = '_' || c = '.' || c = '$' || c = '\\' || c = '?' || 128 ≤ c.toNat

/-- `column_index_from_string` (upper-case letters). -/
def colIndex (s : Text) : Nat := s.foldl (fun a c => a * 26 + (c.toNat - 64)) 0
/-- `int(s)` on decimal digits. -/
def natOf (s : Text) : Nat := s.foldl (fun a c => a * 10 + (c.toNat - 48)) 0

/-- optional leading `$`. -/
def stripDollar : Text → Bool × Text
  | '$' :: s => (true, s)
  | s => (false, s)

/-- `CELL_REF_RE`: `\$?[A-Z]{1,3}\$?[1-9][0-9]{0,6}` on a whole word. -/
def parseRef (w : Text) : Option FTok :=
  let (ac, w1) := stripDollar w
  let letters := w1.takeWhile isUpper
  let w2 := w1.dropWhile isUpper
  let (ar, ds) := stripDollar w2
  if letters.length < 1 || letters.length > 3 then none
  else if ds.length < 1 || ds.length > 7 || !ds.all isDigit || ds.head? = some '0' then none
  else some (.cell ac (colIndex letters) ar (natOf ds))

/-- a text literal: up to and including the closing `"`. -/
def spanStr (s : Text) : Text × Text :=
  match s.dropWhile (· ≠ '"') with
  | [] => (s, [])
  | q :: rest => (s.takeWhile (· ≠ '"') ++ [q], rest)

/-- a quoted sheet name after its opening apostrophe: up to and including the closing one
    (`''` stands for an apostrophe inside). -/
def spanQuote : Text → Text × Text
  | [] => ([], [])
  | c :: s =>
    if c = '\'' then
      match s with
      | [] => (['\''], [])
      | d :: s' => if d = '\'' then let r := spanQuote s'; ('\'' :: '\'' :: r.1, r.2) else (['\''], d :: s')
    else let r := spanQuote s; (c :: r.1, r.2)

/-- Tokens of a formula text (without the leading `=`): text literals, quoted or bare sheet prefixes,
    function names, cell references, anything else.  `fuel ≥ length` suffices. -/
def scanF : Nat → Text → List FTok
  | 0, _ => []
  | _, [] => []
  | f + 1, c :: s =>
    if c = '"' then
      let r := spanStr s
      .lit ('"' :: r.1) :: scanF f r.2
    else if c = '\'' then
      let r := spanQuote s
      if r.2.head? = some '!' then .pfx ('\'' :: r.1) :: scanF f (r.2.drop 1)
      else .lit ('\'' :: r.1) :: scanF f r.2
    else if isWordChar c then
      let w := c :: s.takeWhile isWordChar
      let rest := s.dropWhile isWordChar
      if rest.head? = some '!' then .pfx w :: scanF f (rest.drop 1)            -- a sheet prefix
      else if rest.head? = some '(' then .lit w :: scanF f rest                  -- a function name
      else (parseRef w).getD (.lit w) :: scanF f rest                            -- a reference, or not
    else .lit [c] :: scanF f s

def scan (s : Text) : List FTok := scanF s.length s

/-- The scanner reads the formulas of these cells back as the tokens they were written from (this is
    what ties the token lists of the abstract workbook to the text the translator works on). -/
def scanOK (cells : List SCell) : Bool :=
  cells.all fun c =>
    match c.formula with
    | some (.plain toks) => scan (renderToks toks) == toks
    | some (.master _ toks) => scan (renderToks toks) == toks
    | _ => true

/-- `Translator.translate_row` / `translate_col`: a `$` coordinate stays, another one moves by the
    delta (`TranslatorError` when it would leave the sheet: not a SpreadsheetML file). -/
def translateCoord (abs : Bool) (x : Nat) (delta : Int) : Nat :=
  if abs then x else ((x : Int) + delta).toNat

def shiftTok (cdelta rdelta : Int) : FTok → FTok
  | .cell ac col ar row => .cell ac (translateCoord ac col cdelta) ar (translateCoord ar row rdelta)
  | t => t

/-- `Translator(master, origin).translate_formula(dest)`; `master` is the text of `<f>`. -/
def translate (master : Text) (origin dest : Coord) : Text :=
  '=' :: renderToks ((scan master).map (shiftTok ((dest.col : Int) - origin.col) ((dest.row : Int) - origin.row)))

/-- `self.shared_formulae`: si ↦ (text of the master's `<f>`, its coordinate). -/
abbrev Shared := List (Nat × Text × Coord)

def sharedGet : Shared → Nat → Option (Text × Coord)
  | [], _ => none
  | (i, v) :: sh, si => if i = si then some v else sharedGet sh si

/-- `parse_formula` for `t="shared"`: a registered group translates; otherwise a non-empty text
    registers the group.  Returns the cell's value and the table. -/
def parseShared (sh : Shared) (si : Nat) (text : Text) (coord : Coord) : Text × Shared :=
  match sharedGet sh si with
  | some (mtext, origin) => (translate mtext origin coord, sh)
  | none => if text ≠ [] then ('=' :: text, (si, text, coord) :: sh) else (['='], sh)

/-- What openpyxl (with patch.py) hands over for one `<c>`: `cell.coordinate`, `cell.value` when
    `data_type == 'f'` (the formula), and the typed value (`cell.value` of a constant, `cell.cvalue`
    of a formula cell). -/
structure PCell where
  coordinate : Text
  formula : Option Text
  value : PyVal
  deriving DecidableEq, Repr

/-- cells of one sheet in document order (`WorkSheetParser.parse` + `bind_cells`). -/
def parseCells (sst : List Text) : Shared → List SCell → List PCell
  | _, [] => []
  | sh, c :: cs =>
    let v := castValue sst c.stored
    let co := coordText c.coord
    match c.formula with
    | none => ⟨co, none, v⟩ :: parseCells sst sh cs
    | some (.plain toks) => ⟨co, some ('=' :: renderToks toks), v⟩ :: parseCells sst sh cs
    | some (.master si toks) =>
      let r := parseShared sh si (renderToks toks) c.coord
      ⟨co, some r.1, v⟩ :: parseCells sst r.2 cs
    | some (.member si) =>
      let r := parseShared sh si [] c.coord
      ⟨co, some r.1, v⟩ :: parseCells sst r.2 cs

/-! ## xltypes -/

structure XLFormula where
  formula : Text
  sheetName : Text
  deriving DecidableEq, Repr

structure XLCell where
  address : Text
  value : PyVal
  formula : Option XLFormula
  definedNames : List Text
  deriving DecidableEq, Repr

structure XLRange where
  addressStr : Text
  name : Text
  sheet : Text
  cells : List (List Text)
  deriving DecidableEq, Repr

/-- `model.defined_names[name]`: the very `XLCell` object of `model.cells` (kept as its key), or an
    `XLRange`. -/
inductive Defn
  | cell (address : Text)
  | range (r : XLRange)
  deriving DecidableEq, Repr

structure M where
  cells : Dict XLCell
  formulae : Dict XLFormula
  names : Dict Defn
  ranges : Dict XLRange
  deriving DecidableEq, Repr

/-! ## reader.py -/

/-- one sheet's contribution to `cells` (and, for `data_type == 'f'`, to `formulae`). -/
def sheetEntries (sst : List Text) (sh : Sheet) : List (Text × XLCell) :=
  (parseCells sst [] sh.cells).map fun pc =>
    let a := sh.name ++ '!' :: pc.coordinate
    (a, ⟨a, pc.value, pc.formula.map fun f => ⟨f, sh.name⟩, []⟩)

/-- the loop nest of `read_cells`: sheets in workbook order, ignored ones skipped, cells in document
    order. -/
def cellEntries (wb : Workbook) (ignore : List Text) : List (Text × XLCell) :=
  (wb.sheets.filter fun sh => !ignore.contains sh.name).flatMap (sheetEntries wb.sst)

def formulaEntries (es : List (Text × XLCell)) : List (Text × XLFormula) :=
  es.filterMap fun e => e.2.formula.map fun f => (e.1, f)

/-- `Reader.read_cells`: `[cells, formulae, ranges]`. -/
def readCells (wb : Workbook) (ignore : List Text) : M :=
  let es := cellEntries wb ignore
  { cells := dofList es, formulae := dofList (formulaEntries es), names := [], ranges := [] }

def doubleApos : Text → Text
  | [] => []
  | c :: s => if c = '\'' then '\'' :: '\'' :: doubleApos s else c :: doubleApos s

/-- the text of `<definedName>` (`defn.value`). -/
def Target.text (t : Target) : Text :=
  (if t.quoted then '\'' :: doubleApos t.sheet ++ ['\''] else t.sheet) ++ '!' ::
    refText t.ac1 t.c1.col t.ar1 t.c1.row ++
    (match t.snd with
     | none => []
     | some (ac2, c2, ar2) => ':' :: refText ac2 c2.col ar2 c2.row)

def targetText : TargetForm → Text
  | .ref t => Target.text t
  | .raw t => t

/-- `Reader.read_defined_names`: visible names whose value is not `#REF!`. -/
def readDefinedNames (wb : Workbook) : List (Text × Text) :=
  wb.names.filterMap fun d =>
    let v := targetText d.target
    if !d.hidden && v ≠ "#REF!".toList then some (d.name, v) else none

/-! ## utils.py -/

def isSpace (c : Char) : Bool := c = ' ' || c = '\t' || c = '\n' || c = '\r'

/-- `str.strip()`. -/
def strip (s : Text) : Text := ((s.dropWhile isSpace).reverse.dropWhile isSpace).reverse

/-- body of a quoted title after the opening apostrophe, when the rest is `([^']|'')*'` exactly. -/
def quotedBody : Text → Option Text
  | [] => none
  | c :: s =>
    if c = '\'' then
      match s with
      | [] => some []                                -- the closing apostrophe
      | d :: s' => if d = '\'' then (quotedBody s').map fun b => '\'' :: '\'' :: b else none
    else (quotedBody s).map fun b => c :: b

/-- `quoted.replace("''", "'")`: left to right, non-overlapping. -/
def unApos : Text → Text
  | [] => []
  | c :: s =>
    if c = '\'' then
      match s with
      | [] => [c]
      | d :: s' => if d = '\'' then '\'' :: unApos s' else c :: d :: unApos s'
    else c :: unApos s

/-- `resolve_sheet`: `re.fullmatch(SHEET_TITLE, sheet_str + '!')`; group `quoted` with
    its doubled apostrophes un-doubled, or `notquoted` (no `'`, `^`, blank), else the text itself. -/
def resolveSheet (sheetStr : Text) : Text :=
  let s := strip sheetStr
  match s with
  | [] => s
  | c :: rest =>
    if c = '\'' then
      match quotedBody rest with
      | some body => if body = [] then "None".toList else unApos body     -- `if quoted: … else notquoted (None)`
      | none => s
    else s

/-- `s.rsplit(c, 1)` when `c` occurs. -/
def rsplit1 (c : Char) (s : Text) : Text × Text :=
  let tail := (s.reverse.takeWhile (· ≠ c)).reverse
  (s.take (s.length - tail.length - 1), tail)

/-- `s.split(c)` into head and rest at the first occurrence. -/
def split1 (c : Char) (s : Text) : Text × Option Text :=
  match s.dropWhile (· ≠ c) with
  | [] => (s, none)
  | _ :: rest => (s.takeWhile (· ≠ c), some rest)

/-- one end of `range_boundaries`: `[$]?letters?[$]?digits?` (0 = absent; upper-case letters, as files
    have them). -/
def boundary (s : Text) : Nat × Nat :=
  let s := s.filter (· ≠ '$')
  (colIndex (s.takeWhile isUpper), natOf ((s.dropWhile isUpper).takeWhile isDigit))

/-- `range_boundaries` with the `or 1` / `or MAX` defaults of `resolve_ranges`. -/
def rangeBoundaries (rng : Text) : (Nat × Nat) × (Nat × Nat) :=
  let p := split1 ':' rng
  let b1 := boundary p.1
  let b2 := match p.2 with | some t => boundary t | none => b1
  ((if b1.1 = 0 then 1 else b1.1, if b1.2 = 0 then 1 else b1.2),
   (if b2.1 = 0 then Gen.maxCol else b2.1, if b2.2 = 0 then Gen.maxRow else b2.2))

/-- `resolve_ranges` for a single area (the `split(',')` over several areas is not modelled): the sheet
    part is cut at the last `!`; the matrix of addresses, row by row. -/
def resolveRanges (a : Text) : Text × List (List Text) :=
  let p := rsplit1 '!' a
  let sheet := if a.contains '!' then resolveSheet p.1 else "Sheet1".toList
  let rng := if a.contains '!' then p.2 else a
  let b := rangeBoundaries rng
  let sheetStr := if sheet = [] then [] else sheet ++ ['!']
  (sheet,
   (List.range (b.2.2 + 1 - b.1.2)).map fun i =>
     (List.range (b.2.1 + 1 - b.1.1)).map fun j =>
       sheetStr ++ colName (b.1.1 + j) ++ digits (b.1.2 + i))

/-- `XLRange(address_str, name)`. -/
def mkRange (a name : Text) : XLRange :=
  let r := resolveRanges a
  ⟨a, name, r.1, r.2⟩

/-! ## model.py -/

/-- the address computed at the top of the loop of `build_defined_names`: `rpartition('!')`, the `$`
    dropped from the coordinate part only, the sheet part resolved. -/
def normAddress (target : Text) : Text :=
  if target.contains '!' then
    let p := rsplit1 '!' target
    resolveSheet p.1 ++ '!' :: p.2.filter (· ≠ '$')
  else target.filter (· ≠ '$')

/-- the tail of the loop body: a name for a formula cell is entered in `formulae` too. -/
def linkFormula (m : M) (name a : Text) : M :=
  if dhas m.formulae a && !dhas m.formulae name then
    match (dget m.cells a).bind (·.formula) with
    | some f => { m with formulae := dset m.formulae name f }
    | none => m
  else m

/-- one iteration of `build_defined_names`. -/
def defineName (m : M) (name target : Text) : M :=
  let a := normAddress target
  if !a.contains ':' then
    if !dhas m.cells a then m                      -- "refers to empty cell … Is not being loaded."
    else linkFormula { m with names := dset m.names name (.cell a) } name a
  else
    let r := mkRange a name
    linkFormula { m with names := dset m.names name (.range r), ranges := dset m.ranges a r } name a

def buildDefinedNames (m : M) (defs : List (Text × Text)) : M :=
  defs.foldl (fun m d => defineName m d.1 d.2) m

def addName (name : Text) (c : XLCell) : XLCell := { c with definedNames := c.definedNames ++ [name] }

/-- one iteration of `link_cells_to_defined_names` (range members that are not cells are skipped). -/
def linkOne (cells : Dict XLCell) (name : Text) : Defn → Dict XLCell
  | .cell a => dmodify cells a (addName name)
  | .range r => r.cells.flatten.foldl (fun cs a => dmodify cs a (addName name)) cells

def linkCells (m : M) : M :=
  { m with cells := m.names.foldl (fun cs d => linkOne cs d.1 d.2) m.cells }

/-- the tokenizer drops the quotes of a quoted sheet name and un-doubles its apostrophes. -/
def unquote : Text → Text
  | '\'' :: s =>
    let rec go : Text → Text
      | [] => []
      | ['\''] => []
      | '\'' :: '\'' :: s => '\'' :: go s
      | c :: s => c :: go s
    go s
  | s => s

/-- a reference with its `$` markers dropped. -/
def bareRef (col row : Nat) : Text := colName col ++ digits row

/-- the RANGE operands of `XLFormula.terms` that denote areas (`$` dropped, own sheet prefixed). -/
def areaTerms (sheet : Text) : List FTok → List Text
  | .pfx p :: .cell _ c1 _ r1 :: .lit [':'] :: .cell _ c2 _ r2 :: rest =>
      (unquote p ++ '!' :: bareRef c1 r1 ++ ':' :: bareRef c2 r2) :: areaTerms sheet rest
  | .cell _ c1 _ r1 :: .lit [':'] :: .cell _ c2 _ r2 :: rest =>
      (sheet ++ '!' :: bareRef c1 r1 ++ ':' :: bareRef c2 r2) :: areaTerms sheet rest
  | _ :: rest => areaTerms sheet rest
  | [] => []

def rangeTerms (f : XLFormula) : List Text := areaTerms f.sheetName (scan (f.formula.drop 1))

/-- `if cell_address not in self.model.cells: self.model.cells[cell_address] = XLCell(cell_address, None)`. -/
def addBlank (cells : Dict XLCell) (a : Text) : Dict XLCell :=
  if dhas cells a then cells else dset cells a ⟨a, .none, none, []⟩

/-- the body of the inner loop of `build_ranges` for a term with `:`. -/
def useRange (m : M) (t : Text) : M :=
  let r := mkRange t t
  { m with ranges := dset m.ranges t r, cells := r.cells.flatten.foldl addBlank m.cells }

/-- `build_ranges` (what it does to `cells` and `ranges`; `associated_cells` is not modelled). -/
def buildRanges (m : M) : M :=
  m.formulae.foldl (fun m e => (rangeTerms e.2).foldl useRange m) m

/-- `link_cells_to_defined_names` raises for a range without rows ("This isn't a dim2 array"). -/
def emptyRangeCrash (m : M) : Bool :=
  m.names.any fun d => match d.2 with | .range r => r.cells.isEmpty | .cell _ => false

/-- `ModelCompiler.parse_archive` after `openpyxl.load_workbook`. -/
def load (wb : Workbook) (ignore : List Text) : Except Crash M :=
  let m1 := buildDefinedNames (readCells wb ignore) (readDefinedNames wb)
  if emptyRangeCrash m1 then .error .other else
  .ok (buildRanges (linkCells m1))

/-- `Model.get_cell_value` for a text address. -/
def getCellValue (m : M) (address : Text) : PyVal :=
  let a := match dget m.names address with
    | some (.cell a') => a'
    | _ => address
  match dget m.cells a with
  | some c => c.value
  | none => .int 0

end XlVerif.Model.C11
