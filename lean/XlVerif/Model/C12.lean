/-
  Model of `Model.persist_to_json_file` / `Model.construct_from_json_file` / `Model.build_code`
  (xlcalculator/model.py) over an abstract Python object graph.

  What is modelled *as observed* (jsonpickle 4.x — a library: modelled, not verified; tied to the running
  code by the correspondence run only):
  * `jsonpickle.encode(output, keys=True)` / `jsonpickle.decode(bytes, keys=True, classes=(…))` as `encode` /
    `decode` between `Py` (object graph) and `Json`;
  * a class named in the JSON is resolved through the `classes=` allow-list or, failing that, by importing it
    by its qualified name (`Cfg.importable`, an environment parameter); an unresolved class leaves the raw JSON
    dict in place of the object;
  * instances with a `__dict__` (the dataclasses, AST nodes) are written attribute by attribute and restored
    without calling `__init__`; slot-only instances (`ExcelType`: Number, Text, Boolean, DateTime, Blank) are
    written through `__getnewargs__` and rebuilt with `cls.__new__(cls, *args)` — without `__getnewargs__`
    nothing but the class name is written and, because `__new__` requires the value, the raw dict comes back
    (defect D26, repaired in /repo);
  * exceptions (`ExcelError` values) go through `py/reduce`; `datetime`, `uuid.UUID`, numpy scalars and pandas
    frames have handlers of their own and are opaque here (`Py.lib`);
  * a shared object is written once; every other occurrence is a back reference.  jsonpickle numbers objects
    in traversal order (`py/id`); the model abstracts the number to the *home path* of the first occurrence
    (`Py.alias`).  That pickler and unpickler agree on the numbering is observed, not modelled;
  * the recursion of the encoder: a graph nested deeper than `Cfg.maxDepth` raises `RecursionError`
    (finding D1201: the compiled AST of a long formula is part of the persisted graph);
  * `os.path.splitext`, `str.lower` (ASCII), `gzip.GzipFile` vs `open`.

  Tables come from `Gen.C12` (regenerated from the running code on every run).
-/
import XlVerif.Base
import XlVerif.Gen.C12Dataclass
namespace XlVerif.Model.C12
open XlVerif

abbrev Text := List Char

/-- A Python `float`, as far as persistence can tell values apart. -/
inductive Flt | fin (q : Rat) | negZero | nan | posInf | negInf
  deriving DecidableEq, Repr, Inhabited

/-- Abstract Python object graph. -/
inductive Py where
  | none
  | bool (b : Bool)
  | int (z : Int)
  | float (f : Flt)
  | str (s : Text)
  | list (xs : List Py)
  | tuple (xs : List Py)
  | set (xs : List Py)
  | dict (kvs : List (Text × Py))
  /-- instance with a `__dict__`: class (qualified name) and attributes, in `__dict__` order -/
  | obj (cls : Text) (fields : List (Text × Py))
  /-- slot-only instance (`ExcelType`): class and the values of its slots (= `__getnewargs__()`) -/
  | slots (cls : Text) (args : List Py)
  /-- instance pickled through `__reduce__` (exceptions): class, constructor arguments, `__dict__` -/
  | reduce (cls : Text) (args : List Py) (state : List (Text × Py))
  /-- library object with a jsonpickle handler of its own (datetime, uuid, numpy, pandas): opaque payload -/
  | lib (cls : Text) (payload : Text)
  /-- a class object -/
  | cls (name : Text)
  /-- another occurrence of the object whose first occurrence lives at `home` (path from the root) -/
  | alias (home : List Text)
  deriving Repr, Inhabited

/-- JSON values. -/
inductive Json where
  | null
  | bool (b : Bool)
  | int (z : Int)
  | float (f : Flt)
  | str (s : Text)
  | arr (xs : List Json)
  | obj (kvs : List (Text × Json))
  deriving Repr, Inhabited

/-! ### jsonpickle's tags -/
def tObject : Text := ['p', 'y', '/', 'o', 'b', 'j', 'e', 'c', 't']
def tId : Text := ['p', 'y', '/', 'i', 'd']
def tTuple : Text := ['p', 'y', '/', 't', 'u', 'p', 'l', 'e']
def tSet : Text := ['p', 'y', '/', 's', 'e', 't']
def tType : Text := ['p', 'y', '/', 't', 'y', 'p', 'e']
def tReduce : Text := ['p', 'y', '/', 'r', 'e', 'd', 'u', 'c', 'e']
def tNewargs : Text := ['p', 'y', '/', 'n', 'e', 'w', 'a', 'r', 'g', 's']
/-- stands for whatever a handler writes next to `py/object` (`__reduce__`, `hex`, …) -/
def tLib : Text := ['p', 'y', '/', 'l', 'i', 'b']
/-- `jsonpickle.tags.RESERVED` as far as the model uses it. -/
def reserved : List Text := [tId, tTuple, tSet, tObject, tType, tReduce, tNewargs, tLib]
def isReserved (k : Text) : Bool := reserved.contains k

/-- `jsonpickle.tags.JSON_KEY` -/
def jsonKeyPrefix : Text := ['j', 's', 'o', 'n', ':', '/', '/']

/-- Configuration: what the source says (from `Gen.C12`) and what the environment provides. -/
structure Cfg where
  /-- `jsonpickle.encode(…, keys=?)` -/
  keysW : Bool
  /-- `jsonpickle.decode(…, keys=?)` -/
  keysR : Bool
  /-- the `classes=(…)` allow-list -/
  allow : List Text
  /-- environment: the class can be imported by its qualified name in the reading process -/
  importable : Text → Bool
  /-- `ExcelType.__getnewargs__` exists and returns every slot -/
  newargs : Bool
  /-- classes whose `__new__` has a required parameter -/
  newRequired : List Text
  /-- the compiled AST is part of the persisted graph -/
  persistsAst : Bool
  /-- deepest nesting the encoder manages inside the interpreter's recursion limit (environment) -/
  maxDepth : Nat

def Cfg.resolvable (cfg : Cfg) (c : Text) : Bool := cfg.allow.contains c || cfg.importable c

/-- with `keys=True` a string key that starts with `json://` is escaped (the JSON quoting inside the
    escape is abstracted away) -/
def escapeKey (keys : Bool) (k : Text) : Text :=
  if keys && jsonKeyPrefix.isPrefixOf k then jsonKeyPrefix ++ k else k
def unescapeKey (keys : Bool) (k : Text) : Text :=
  if keys && jsonKeyPrefix.isPrefixOf k then k.drop jsonKeyPrefix.length else k

/-! ### encode -/
mutual
def encode (cfg : Cfg) : Py → Json
  | .none => .null
  | .bool b => .bool b
  | .int z => .int z
  | .float f => .float f
  | .str s => .str s
  | .list xs => .arr (encodeL cfg xs)
  | .tuple xs => .obj [(tTuple, .arr (encodeL cfg xs))]
  | .set xs => .obj [(tSet, .arr (encodeL cfg xs))]
  | .dict kvs => .obj (encodeF cfg kvs)
  | .obj c fs => .obj ((tObject, .str c) :: encodeF cfg fs)
  | .slots c args =>
      if cfg.newargs then .obj [(tObject, .str c), (tNewargs, .obj [(tTuple, .arr (encodeL cfg args))])]
      else .obj [(tObject, .str c)]
  | .reduce c args st =>
      .obj [(tReduce, .arr [.obj [(tType, .str c)], .obj [(tTuple, .arr (encodeL cfg args))],
                            .obj (encodeF cfg st)])]
  | .lib c p => .obj [(tObject, .str c), (tLib, .str p)]
  | .cls n => .obj [(tType, .str n)]
  | .alias h => .obj [(tId, .arr (h.map .str))]
def encodeL (cfg : Cfg) : List Py → List Json
  | [] => []
  | x :: xs => encode cfg x :: encodeL cfg xs
def encodeF (cfg : Cfg) : List (Text × Py) → List (Text × Json)
  | [] => []
  | (k, v) :: r => (escapeKey cfg.keysW k, encode cfg v) :: encodeF cfg r
end

/-! ### decode -/
mutual
/-- a JSON value read as plain Python data (what is left in place of an object that cannot be rebuilt) -/
def raw : Json → Py
  | .null => .none
  | .bool b => .bool b
  | .int z => .int z
  | .float f => .float f
  | .str s => .str s
  | .arr xs => .list (rawL xs)
  | .obj kvs => .dict (rawF kvs)
def rawL : List Json → List Py
  | [] => []
  | x :: xs => raw x :: rawL xs
def rawF : List (Text × Json) → List (Text × Py)
  | [] => []
  | (k, v) :: r => (k, raw v) :: rawF r
end

def lookup (k : Text) : List (Text × α) → Option α
  | [] => none
  | (k', v) :: r => if k' = k then some v else lookup k r

def textsOf : List Py → List Text
  | [] => []
  | .str s :: r => s :: textsOf r
  | _ :: r => textsOf r

/-- attributes / dict entries after the tags are dropped and the keys unescaped -/
def restoreItems (keys : Bool) : List (Text × Py) → List (Text × Py)
  | [] => []
  | (k, v) :: r => if isReserved k then restoreItems keys r else (unescapeKey keys k, v) :: restoreItems keys r

/-- `Unpickler._restore_tags` on a JSON object whose members are already restored (`fs`);
    `self` is the same object read as plain data. -/
def interp (cfg : Cfg) (self : Py) (fs : List (Text × Py)) : Py :=
  match lookup tTuple fs with
  | some (.list xs) => .tuple xs
  | some _ => self
  | none =>
  match lookup tSet fs with
  | some (.list xs) => .set xs
  | some _ => self
  | none =>
  match lookup tId fs with
  | some (.list ps) => .alias (textsOf ps)
  | some _ => self
  | none =>
  match lookup tObject fs with
  | some (.str c) =>
      if !cfg.resolvable c then self else
      match lookup tNewargs fs with
      | some (.tuple args) => .slots c args
      | some _ => self
      | none =>
      match lookup tLib fs with
      | some (.str p) => .lib c p
      | some _ => self
      | none => if cfg.newRequired.contains c then self else .obj c (restoreItems cfg.keysR fs)
  | some _ => self
  | none =>
  match lookup tType fs with
  | some (.str c) => if cfg.resolvable c then .cls c else self
  | some _ => self
  | none =>
  match lookup tReduce fs with
  | some (.list [.cls c, .tuple args, .dict st]) => .reduce c args st
  | some _ => self
  | none => .dict (restoreItems cfg.keysR fs)

mutual
def decode (cfg : Cfg) : Json → Py
  | .null => .none
  | .bool b => .bool b
  | .int z => .int z
  | .float f => .float f
  | .str s => .str s
  | .arr xs => .list (decodeL cfg xs)
  | .obj kvs => interp cfg (.dict (rawF kvs)) (decodeF cfg kvs)
def decodeL (cfg : Cfg) : List Json → List Py
  | [] => []
  | x :: xs => decode cfg x :: decodeL cfg xs
def decodeF (cfg : Cfg) : List (Text × Json) → List (Text × Py)
  | [] => []
  | (k, v) :: r => (k, decode cfg v) :: decodeF cfg r
end

/-! ### which graphs survive -/

/-- A key / attribute name the codec leaves alone: not one of the tags, and not starting with `json://`
    (jsonpickle escapes such string keys under `keys=True`; observed on the running code: the back references
    of a dict with an escaped key come out wrong — such keys cannot come from a workbook, Excel forbids `/` in
    sheet names and defined names, and they are outside the fragment). -/
def okKey (k : Text) : Bool := !isReserved k && !jsonKeyPrefix.isPrefixOf k

mutual
/-- `enc cfg g`: every class in `g` can be resolved by the reader, slot-only objects can be rebuilt, no
    attribute or key is one of jsonpickle's tags. -/
def enc (cfg : Cfg) : Py → Bool
  | .none | .bool _ | .int _ | .float _ | .str _ | .alias _ => true
  | .list xs | .tuple xs | .set xs => encL cfg xs
  | .dict kvs => encF cfg kvs
  | .obj c fs => cfg.resolvable c && !cfg.newRequired.contains c && encF cfg fs
  | .slots c args => cfg.newargs && cfg.resolvable c && encL cfg args
  | .reduce c args st => cfg.resolvable c && encL cfg args && encF cfg st
  | .lib c _ => cfg.resolvable c
  | .cls n => cfg.resolvable n
def encL (cfg : Cfg) : List Py → Bool
  | [] => true
  | x :: xs => enc cfg x && encL cfg xs
def encF (cfg : Cfg) : List (Text × Py) → Bool
  | [] => true
  | (k, v) :: r => okKey k && enc cfg v && encF cfg r
end

mutual
/-- nesting depth of a graph (what the encoder's recursion is proportional to) -/
def depth : Py → Nat
  | .none | .bool _ | .int _ | .float _ | .str _ | .alias _ | .lib _ _ | .cls _ => 0
  | .list xs | .tuple xs | .set xs => depthL xs + 1
  | .dict kvs => depthF kvs + 1
  | .obj _ fs => depthF fs + 1
  | .slots _ args => depthL args + 1
  | .reduce _ args st => max (depthL args) (depthF st) + 1
def depthL : List Py → Nat
  | [] => 0
  | x :: xs => max (depth x) (depthL xs)
def depthF : List (Text × Py) → Nat
  | [] => 0
  | (_, v) :: r => max (depth v) (depthF r)
end

/-! ### the model object: four dicts -/
def kCells : Text := ['c', 'e', 'l', 'l', 's']
def kDefinedNames : Text := ['d', 'e', 'f', 'i', 'n', 'e', 'd', '_', 'n', 'a', 'm', 'e', 's']
def kFormulae : Text := ['f', 'o', 'r', 'm', 'u', 'l', 'a', 'e']
def kRanges : Text := ['r', 'a', 'n', 'g', 'e', 's']

/-- The four attributes of a `Model` instance (normally dicts). -/
structure PModel where
  cells : Py
  definedNames : Py
  formulae : Py
  ranges : Py
  deriving Repr, Inhabited

/-- `Model()` -/
def PModel.empty : PModel := ⟨.dict [], .dict [], .dict [], .dict []⟩

/-- `getattr(self, a)` for the four dict attributes (`none` = AttributeError) -/
def PModel.attr (m : PModel) (a : Text) : Option Py :=
  if a = kCells then some m.cells
  else if a = kDefinedNames then some m.definedNames
  else if a = kFormulae then some m.formulae
  else if a = kRanges then some m.ranges
  else none

/-- `setattr(self, a, v)`; an attribute the model does not track is accepted and ignored -/
def PModel.setAttr (m : PModel) (a : Text) (v : Py) : PModel :=
  if a = kCells then { m with cells := v }
  else if a = kDefinedNames then { m with definedNames := v }
  else if a = kFormulae then { m with formulae := v }
  else if a = kRanges then { m with ranges := v }
  else m

/-! ### attribute access on objects -/
def fAddress : Text := ['a', 'd', 'd', 'r', 'e', 's', 's']
def fValue : Text := ['v', 'a', 'l', 'u', 'e']
def fFormula : Text := ['f', 'o', 'r', 'm', 'u', 'l', 'a']
def fAst : Text := ['a', 's', 't']
def fNeedUpdate : Text := ['n', 'e', 'e', 'd', '_', 'u', 'p', 'd', 'a', 't', 'e']
def fAddressStr : Text := ['a', 'd', 'd', 'r', 'e', 's', 's', '_', 's', 't', 'r']
def fCellsField : Text := kCells
def clsCell : Text := "xlcalculator.xltypes.XLCell".toList
def clsFormula : Text := "xlcalculator.xltypes.XLFormula".toList
def clsRange : Text := "xlcalculator.xltypes.XLRange".toList

/-- `setattr(o, k, v)` on a `__dict__`: replaces the entry or appends a new one -/
def setField (k : Text) (v : Py) : List (Text × Py) → List (Text × Py)
  | [] => [(k, v)]
  | (k', v') :: r => if k' = k then (k, v) :: r else (k', v') :: setField k v r

/-- `cell.formula.ast = a` when the cell object carries a formula object -/
def withAst (a : Py) (cell : Py) : Py :=
  match cell with
  | .obj c fs =>
    match lookup fFormula fs with
    | some (.obj fc ffs) => .obj c (setField fFormula (.obj fc (setField fAst a ffs)) fs)
    | _ => cell
  | _ => cell

/-- the formula text of a cell object, if it has a formula object with a text -/
def formulaTextOf (cell : Py) : Option Text :=
  match cell with
  | .obj _ fs =>
    match lookup fFormula fs with
    | some (.obj _ ffs) => (match lookup fFormula ffs with | some (.str t) => some t | _ => none)
    | _ => none
  | _ => none

def mapDict (f : Py → Py) : List (Text × Py) → List (Text × Py)
  | [] => []
  | (k, c) :: r => (k, f c) :: mapDict f r

/-- apply `f` to every value of `self.cells` -/
def PModel.mapCells (f : Py → Py) (m : PModel) : PModel :=
  match m.cells with
  | .dict kvs => { m with cells := .dict (mapDict f kvs) }
  | _ => m

/-- the model with every compiled AST removed -/
def clearAst (m : PModel) : PModel := m.mapCells (withAst .none)

/-! ### what a cell shows, and the observable of a model -/
structure CellView where
  /-- class name when the entry is an instance with a `__dict__` -/
  cls : Option Text
  address : Option Py
  value : Option Py
  /-- `some t`: the cell has a formula object whose text is `t` -/
  formula : Option (Option Py)
  deriving Repr, Inhabited

def cellView : Py → CellView
  | .obj c fs =>
    { cls := some c, address := lookup fAddress fs, value := lookup fValue fs,
      formula := match lookup fFormula fs with
        | some (.obj _ ffs) => some (lookup fFormula ffs)
        | _ => none }
  | _ => { cls := none, address := none, value := none, formula := none }

def viewsOf : Py → List (Text × CellView)
  | .dict kvs => kvs.map fun (k, c) => (k, cellView c)
  | _ => []

/-- a stored value; a value object shared with another cell is looked up at its home `cells/<k>/value` -/
def derefValue (views : List (Text × CellView)) : Option Py → Option Py
  | some (.alias [s, k, f]) =>
      if s = kCells ∧ f = fValue then (match lookup k views with | some v => v.value | none => none) else none
  | v => v

/-- address matrix of an `XLRange` object: its `cells` attribute -/
def rangeView (r : Py) : Option (Option Py × Option Py) :=
  match r with
  | .obj c fs => if c = clsRange then some (lookup fAddressStr fs, lookup fCellsField fs) else none
  | _ => none

/-- what a defined name is bound to -/
inductive NameTarget
  | cell (address : Option Py)
  | range (addressStr : Option Py) (matrix : Option Py)
  | other
  deriving Repr, Inhabited

def sectionItems : Py → List (Text × Py)
  | .dict kvs => kvs
  | _ => []

def nameTarget (views : List (Text × CellView)) (ranges : List (Text × Py)) (d : Py) : NameTarget :=
  match d with
  | .alias [s, k] =>
      if s = kCells then
        (match lookup k views with
         | some v => if v.cls = some clsCell then .cell v.address else .other
         | none => .other)
      else if s = kRanges then
        (match (lookup k ranges).bind rangeView with | some (a, mx) => .range a mx | none => .other)
      else .other
  | .obj c fs =>
      if c = clsCell then .cell (lookup fAddress fs)
      else match rangeView (.obj c fs) with
        | some (a, mx) => .range a mx
        | none => .other
  | _ => .other

def rangeTarget (names : List (Text × Py)) (r : Py) : Option (Option Py × Option Py) :=
  match r with
  | .alias [s, n] => if s = kDefinedNames then (lookup n names).bind rangeView else none
  | _ => rangeView r

def formulaEntry (views : List (Text × CellView)) (f : Py) : Option (Option Py) :=
  match f with
  | .alias [s, k, a] =>
      if s = kCells ∧ a = fFormula then (match lookup k views with | some v => v.formula | none => none) else none
  | .obj _ ffs => some (lookup fFormula ffs)
  | _ => none

/-- The property's observable: cells (address, value, formula text), formulae (text), defined names (kind and
    target), ranges (address and matrix), each in dict order. -/
structure Observable where
  cells : List (Text × (Option Text × Option Py × Option Py × Option (Option Py)))
  formulae : List (Text × Option (Option Py))
  names : List (Text × NameTarget)
  ranges : List (Text × Option (Option Py × Option Py))
  deriving Repr, Inhabited

def observeViews (views : List (Text × CellView)) (m : PModel) : Observable :=
  { cells := views.map fun (k, v) => (k, v.cls, v.address, derefValue views v.value, v.formula)
    formulae := (sectionItems m.formulae).map fun (k, f) => (k, formulaEntry views f)
    names := (sectionItems m.definedNames).map fun (k, d) => (k, nameTarget views (sectionItems m.ranges) d)
    ranges := (sectionItems m.ranges).map fun (k, r) => (k, rangeTarget (sectionItems m.definedNames) r) }

def observe (m : PModel) : Observable := observeViews (viewsOf m.cells) m

/-! ### build_code -/
/-- `name -> self._defn_address(defn)` for every defined name, as far as the parser can see it: the kind and
    target of every name. -/
abbrev Names := List (Text × NameTarget)

/-- `Model.build_code`: every cell with a formula gets `formula.ast = FormulaParser().parse(text, names)`.
    The parser is an uninterpreted parameter. -/
def buildCode (parse : Text → Names → Py) (m : PModel) : PModel :=
  let names := (observe m).names
  m.mapCells fun c =>
    match formulaTextOf c with
    | some t => withAst (parse t names) c
    | none => c

/-! ### persist_to_json_file / construct_from_json_file -/
inductive Opener | plain | gzip
  deriving DecidableEq, Repr, Inhabited

/-- `str.rfind(c)` as a running scan: index of the last occurrence, `best` if there is none -/
def rfind (c : Char) : Text → Nat → Int → Int
  | [], _, best => best
  | x :: r, i, best => rfind c r (i + 1) (if x = c then (i : Int) else best)

/-- `os.path.splitext` (posixpath) -/
def splitext (p : Text) : Text × Text :=
  let sepIndex := rfind '/' p 0 (-1)
  let dotIndex := rfind '.' p 0 (-1)
  if dotIndex > sepIndex then
    let between := (p.drop (sepIndex + 1).toNat).take (dotIndex - (sepIndex + 1)).toNat
    if between.any (· != '.') then (p.take dotIndex.toNat, p.drop dotIndex.toNat) else (p, [])
  else (p, [])

def lowerChar (c : Char) : Char := if 'A' ≤ c ∧ c ≤ 'Z' then Char.ofNat (c.toNat + 32) else c

/-- the test `os.path.splitext(fname)[-1](.lower())? in [...]` of one method -/
structure ExtTest where
  lowers : Bool
  exts : List Text
  deriving Repr

def writerTest : ExtTest := ⟨Gen.C12.writerExtLowers, Gen.C12.writerGzipExts⟩
def readerTest : ExtTest := ⟨Gen.C12.readerExtLowers, Gen.C12.readerGzipExts⟩

/-- `gzip.GzipFile if <test> else open`; `lower` is `str.lower` -/
def ExtTest.opener (t : ExtTest) (lower : Text → Text) (fname : Text) : Opener :=
  let e := (splitext fname).2
  let e := if t.lowers then lower e else e
  if t.exts.contains e then .gzip else .plain

/-- A file: how it was written, and the JSON text in it. -/
structure File where
  codec : Opener
  content : Json
  deriving Repr

/-- reading with the other opener fails (`gzip.BadGzipFile`, resp. undecodable bytes) -/
def File.read (f : File) (o : Opener) : Except Crash Json :=
  if o = f.codec then .ok f.content
  else match o with
    | .gzip => .error .other
    | .plain => .error .valueError

/-- the configuration the source and this environment give -/
def Cfg.current (importable : Text → Bool) (maxDepth : Nat) : Cfg :=
  { keysW := Gen.C12.encodeKeys, keysR := Gen.C12.decodeKeys, allow := Gen.C12.allowList,
    importable := importable,
    newargs := Gen.C12.excelTypeHasNewargs && Gen.C12.newargsAttrs == Gen.C12.excelTypeSlots
               && Gen.C12.newParams == Gen.C12.excelTypeSlots,
    newRequired := Gen.C12.newRequired, persistsAst := Gen.C12.persistsAst, maxDepth := maxDepth }

/-- the dict `output` of `persist_to_json_file`, from the table of `'key': self.attr` entries -/
def outputOf (m : PModel) : List (Text × Text) → Except Crash (List (Text × Py))
  | [] => .ok []
  | (k, a) :: r =>
    match m.attr a with
    | none => .error .attributeError
    | some v => (outputOf m r).map fun rest => (k, v) :: rest

/-- what is handed to `jsonpickle.encode` -/
def persisted (cfg : Cfg) (writes : List (Text × Text)) (m : PModel) : Except Crash Py :=
  (outputOf (if cfg.persistsAst then m else clearAst m) writes).map .dict

/-- `Model.persist_to_json_file(fname)` -/
def persistWith (cfg : Cfg) (writes : List (Text × Text)) (wt : ExtTest) (lower : Text → Text)
    (m : PModel) (fname : Text) : Except Crash File :=
  match persisted cfg writes m with
  | .error e => .error e
  | .ok out =>
    if depth out > cfg.maxDepth then .error .recursion
    else .ok ⟨wt.opener lower fname, encode cfg out⟩

/-- the assignments `self.attr = data['key']` -/
def assignAll (data : List (Text × Py)) : List (Text × Text) → PModel → Except Crash PModel
  | [], m => .ok m
  | (a, k) :: r, m =>
    match lookup k data with
    | none => .error .keyError
    | some v => assignAll data r (m.setAttr a v)

/-- `self.construct_from_json_file(fname, build_code)`: `self` is the receiving `Model` object with whatever it
    held before (a fresh `Model()`, the persisting object itself after further changes, an object that loaded
    another file earlier); the four attributes are *rebound* to the decoded dicts. -/
def constructWith (cfg : Cfg) (reads : List (Text × Text)) (rt : ExtTest) (lower : Text → Text)
    (parse : Text → Names → Py) (self : PModel) (f : File) (fname : Text) (buildCodeFlag : Bool) :
    Except Crash PModel :=
  match f.read (rt.opener lower fname) with
  | .error e => .error e
  | .ok j =>
    match decode cfg j with
    | .dict data =>
      (assignAll data reads self).map fun m => if buildCodeFlag then buildCode parse m else m
    | _ => .error .typeError

def persist (cfg : Cfg) (lower : Text → Text) (m : PModel) (fname : Text) : Except Crash File :=
  persistWith cfg Gen.C12.persistWrites writerTest lower m fname
def construct (cfg : Cfg) (lower : Text → Text) (parse : Text → Names → Py) (self : PModel) (f : File)
    (fname : Text) (buildCodeFlag : Bool) : Except Crash PModel :=
  constructWith cfg Gen.C12.readAssigns readerTest lower parse self f fname buildCodeFlag

/-! ### the rest of the history: evaluate, set_cell_value -/

/-- `setattr` of every `(attribute, value)` of `sets` on the object stored under `addr` -/
def storeCell (addr : Text) (sets : List (Text × Py)) (p : Text × Py) : Text × Py :=
  if p.1 = addr then
    (p.1, match p.2 with
          | .obj cl fs => .obj cl (sets.foldl (fun acc (q : Text × Py) => setField q.1 q.2 acc) fs)
          | x => x)
  else p

/-- `cell.value = v` (and further attributes) on the object stored under `addr` -/
def storeAt (addr : Text) (sets : List (Text × Py)) (m : PModel) : PModel :=
  match m.cells with
  | .dict kvs => { m with cells := .dict (kvs.map (storeCell addr sets)) }
  | _ => m

/-- `Evaluator.evaluate(addr)` on a formula cell: `cell.value = value; cell.need_update = False` -/
def storeEvaluated (addr : Text) (v : Py) (m : PModel) : PModel :=
  storeAt addr [(fValue, v), (fNeedUpdate, .bool false)] m

/-- `Model.set_cell_value(addr, v)` for a string address: overwrite the value of an existing cell, or add
    `fresh = XLCell(addr, v)` -/
def setCellValue (addr : Text) (v : Py) (fresh : Py) (m : PModel) : PModel :=
  match m.cells with
  | .dict kvs =>
    if (lookup addr kvs).isSome then storeAt addr [(fValue, v)] m
    else { m with cells := .dict (kvs ++ [(addr, fresh)]) }
  | _ => m

/-! ### which model states survive -/

/-- the four dicts of a model, as the entries of the persisted dict in canonical order -/
def rootItems (m : PModel) : List (Text × Py) :=
  [(kCells, m.cells), (kDefinedNames, m.definedNames), (kFormulae, m.formulae), (kRanges, m.ranges)]

/-- what `persist_to_json_file` hands to the encoder: the model, without the compiled ASTs if the source
    leaves them out -/
def stripped (cfg : Cfg) (m : PModel) : PModel := if cfg.persistsAst then m else clearAst m

/-- the object graph of the model is encodable -/
def Encodable (cfg : Cfg) (m : PModel) : Prop := encF cfg (rootItems m) = true
/-- … and not nested deeper than the encoder manages -/
def Shallow (cfg : Cfg) (m : PModel) : Prop := depthF (rootItems m) + 1 ≤ cfg.maxDepth

/-- A model state survives persistence: its object graph (as handed to the encoder) is encodable and not nested
    deeper than the encoder's recursion allows. -/
def Persistable (cfg : Cfg) (m : PModel) : Prop :=
  Encodable cfg (stripped cfg m) ∧ Shallow cfg (stripped cfg m)

/-- every cell that carries a formula object carries a formula text (what `build_code` hands to the parser) -/
def textedCell (c : Py) : Bool :=
  match c with
  | .obj _ fs =>
    match lookup fFormula fs with
    | some (.obj _ ffs) => (match lookup fFormula ffs with | some (.str _) => true | _ => false)
    | _ => true
  | _ => true

def textedItems : List (Text × Py) → Bool
  | [] => true
  | (_, c) :: r => textedCell c && textedItems r

def Texted (m : PModel) : Bool :=
  match m.cells with
  | .dict kvs => textedItems kvs
  | _ => true

/-- classes jsonpickle has a handler for (`f_token.unique_identifier` is annotated with the module `uuid`) -/
def handled : List Text := ["uuid".toList, "uuid.UUID".toList, "datetime.datetime".toList]

/-- JSON-native values, and `datetime` (jsonpickle's own handler) -/
def nativeVal : Py → Bool
  | .none | .bool _ | .int _ | .float _ | .str _ => true
  | .lib c _ => handled.contains c
  | _ => false

def nativeItems : List (Text × Py) → Bool
  | [] => true
  | (k, v) :: r => okKey k && nativeVal v && nativeItems r

/-- what `Evaluator.evaluate` stores in a cell: a native value, an `ExcelType` instance
    (Number, Text, Boolean, DateTime, Blank) around a native payload, or an `ExcelError` -/
def evaluatedVal : Py → Bool
  | .slots c [p] => Gen.C12.excelTypeClasses.contains c && nativeVal p
  | .reduce c args st => Gen.C12.errorClasses.contains c && args.all nativeVal && nativeItems st
  | v => nativeVal v

/-- an instance of one of the four dataclasses whose `__dict__` holds exactly the dataclass fields -/
def mkInstance (row : Gen.C12.ClassRow) (vals : Text → Py) : Py :=
  .obj row.qualname (row.fields.map fun f => (f.name, vals f.name))

end XlVerif.Model.C12
