/-
  XlVerif.Model.C13 — model of `ModelCompiler.extract(model, focus)` (xlcalculator/model.py) together
  with the parts of `Model` it touches: `cells`, `ranges`, `defined_names`, `formulae`, `build_code`.

  * `XModel` = the evaluator's `MState` (cells / ranges / names bound to a cell) plus the defined names
    bound to a range (`XLRange` objects in `defined_names`) and the keys of `formulae`.
    Formulas are stored as *source* trees: a reference may be a defined name (the token text).
  * `buildCode` = `Model.build_code()`: every formula is re-parsed with the model's OWN defined names,
    which replaces a name by the address it is bound to (`parser.shunting_yard`: "Resolve the named range
    once and for all").  The evaluator runs on `buildCode x`.
  * `terms` = `XLFormula.terms`: the operand tokens of the formula text — taken from the tokens, i.e. from
    the source tree, names NOT resolved.
  * `extract` mirrors the method statement by statement: focus loop, collection of the terms of the copied
    cells, the worklist (a Python list used as a stack: `pop()` takes the last element, `extend` appends),
    `build_code`.  `model.cells[...]` on a missing key is Python's `KeyError`: `Except.error addr`
    (only a defined name bound to a cell that is not in `model.cells` can raise it).
    The model mirrors /repo after the repairs of D27, D1301 (defined names used in formulas are followed) and
    D1302 (members of a focused named range that are not cells are skipped).
-/
import XlVerif.Model.Evaluator
namespace XlVerif.Model.C13
open XlVerif XlVerif.Model.Evaluator

/-! ### `XLFormula.terms` -/

mutual
/-- the reference operands of a formula in textual order -/
def refsFx : Fx → List Addr
  | .lit _ => []
  | .ref a => [a]
  | .rng k => [k]
  | .app _ args => refsList args
  | .iff c t e => refsFx c ++ (refsFx t ++ refsFx e)
  | .sc _ args => refsList args
  | .fail _ args => refsList args
def refsList : List Fx → List Addr
  | [] => []
  | a :: rest => refsFx a ++ refsList rest
end

/-- keep the first occurrence of every element -/
def dedup : List Addr → List Addr
  | [] => []
  | a :: rest => a :: (dedup rest).filter (fun b => b != a)

/-- `formula.terms`: the direct references (cells, range keys, defined names), de-duplicated in order -/
def terms (f : Fx) : List Addr := dedup (refsFx f)

/-! ### the model object -/

/-- an `XLRange` stored in `defined_names` -/
structure RName where
  key : Addr                   -- the address text it was defined with = its key in `model.ranges`
  cells : List (List Addr)     -- `XLRange.cells`
  deriving Repr, Inhabited

structure XModel where
  st : MState                            -- `cells`, `ranges`, `defined_names` bound to a cell
  rnames : List (Addr × RName) := []     -- `defined_names` bound to a range
  formulae : List Addr := []             -- keys of `formulae`
  deriving Repr, Inhabited

def XModel.empty : XModel := { st := { cells := [], ranges := [], names := [] } }

def hasKey {β} (k : Addr) (l : List (Addr × β)) : Bool := (assoc k l).isSome

/-- is `a` a key of `defined_names` -/
def XModel.isName (x : XModel) (a : Addr) : Bool := hasKey a x.st.names || hasKey a x.rnames

def XModel.setCell (x : XModel) (a : Addr) (c : Cell) : XModel :=
  { x with st := { x.st with cells := assocSet a c x.st.cells } }
def XModel.setRange (x : XModel) (k : Addr) (r : Range) : XModel :=
  { x with st := { x.st with ranges := assocSet k r x.st.ranges } }
def XModel.setName (x : XModel) (n t : Addr) : XModel :=
  { x with st := { x.st with names := assocSet n t x.st.names } }
def XModel.setRName (x : XModel) (n : Addr) (rn : RName) : XModel :=
  { x with rnames := assocSet n rn x.rnames }

/-! ### `build_code` -/

/-- the operand a reference token denotes once the model's defined names are resolved -/
def XModel.substAddr (x : XModel) (isRng : Bool) (a : Addr) : Fx :=
  match assoc a x.st.names with
  | some t => .ref t
  | none =>
    match assoc a x.rnames with
    | some rn => .rng rn.key
    | none => if isRng then .rng a else .ref a

mutual
def substFx (x : XModel) : Fx → Fx
  | .lit v => .lit v
  | .ref a => x.substAddr false a
  | .rng k => x.substAddr true k
  | .app f args => .app f (substList x args)
  | .iff c t e => .iff (substFx x c) (substFx x t) (substFx x e)
  | .sc b args => .sc b (substList x args)
  | .fail n args => .fail n (substList x args)
def substList (x : XModel) : List Fx → List Fx
  | [] => []
  | a :: rest => substFx x a :: substList x rest
end

def substCell (x : XModel) (c : Cell) : Cell := { c with formula := c.formula.map (substFx x) }

/-- `Model.build_code()`: the model the evaluator runs on -/
def buildCode (x : XModel) : MState :=
  { x.st with cells := x.st.cells.map fun p => (p.1, substCell x p.2) }

/-! ### `ModelCompiler.extract` -/

/-- `extracted_model.cells[a] = copy.deepcopy(model.cells[a])` (KeyError when `a` is not a cell) -/
def copyCell (m : XModel) (x : XModel) (a : Addr) : Except Addr XModel :=
  match m.st.cell? a with
  | some c => .ok (x.setCell a c)
  | none => .error a

/-- the members of a focused named range: `if column in model.cells: extracted_model.cells[column] = …` -/
def copyCellsOpt (m : XModel) : XModel → List Addr → XModel
  | x, [] => x
  | x, a :: rest =>
    match m.st.cell? a with
    | some c => copyCellsOpt m (x.setCell a c) rest
    | none => copyCellsOpt m x rest

/-- one iteration of `for address in focus:` -/
def focusStep (m : XModel) (x : XModel) (a : Addr) : Except Addr XModel :=
  match m.st.cell? a with
  | some c => .ok (x.setCell a c)
  | none =>
    match assoc a m.st.names with
    | some t => copyCell m (x.setName a t) t
    | none =>
      match assoc a m.rnames with
      | some rn => .ok (copyCellsOpt m (x.setRName a rn) rn.cells.flatten)
      | none => .ok x

def focusPhase (m : XModel) : XModel → List Addr → Except Addr XModel
  | x, [] => .ok x
  | x, a :: rest =>
    match focusStep m x a with
    | .ok x' => focusPhase m x' rest
    | .error e => .error e

def cellTerms (c : Cell) : List Addr :=
  match c.formula with
  | some f => terms f
  | none => []

/-- `terms_to_copy` after the second loop: the terms of the copied formula cells that are not copied cells
    (`cell.formula = deepcopy(...)` in the first branch re-copies an equal formula: no effect) -/
def initTerms (x : XModel) : List Addr :=
  x.st.cells.flatMap fun p => (cellTerms p.2).filter fun t => !(hasKey t x.st.cells)

/-- `elif term in model.cells and term not in extracted_model.cells:` -/
def cellStep (m x : XModel) (t : Addr) : XModel × List Addr :=
  match m.st.cell? t with
  | some c => if hasKey t x.st.cells then (x, []) else (x.setCell t c, (cellTerms c).reverse)
  | none => (x, [])

/-- the `if` / `elif` branches of the loop body for the popped `term`: the new model and what is pushed
    (the stack is kept top-first, so an `extend` prepends the reversed list) -/
def baseStep (m x : XModel) (t : Addr) : XModel × List Addr :=
  match m.st.range? t with
  | some r => if hasKey t x.st.ranges then cellStep m x t else (x.setRange t r, r.cells.flatten.reverse)
  | none => cellStep m x t

/-- `if name not in extracted_model.defined_names: extracted_model.defined_names[name] = deepcopy(...)` -/
def addName (x : XModel) (t a : Addr) : XModel := if hasKey t x.st.names then x else x.setName t a
def addRName (x : XModel) (t : Addr) (rn : RName) : XModel := if hasKey t x.rnames then x else x.setRName t rn

/-- the `else:` branch for a term that is neither a cell nor a range of the model: a defined name used in a
    formula is copied and the address / range key it is bound to (`_defn_address`) is pushed.
    (The Python term carries the sheet of the formula, `Sheet1!name`; here a name is its own term.) -/
def nameStep (m x : XModel) (t : Addr) : XModel × List Addr :=
  match assoc t m.st.names with
  | some a => (addName x t a, [a])
  | none =>
    match assoc t m.rnames with
    | some rn => (addRName x t rn, [rn.key])
    | none => (x, [])

/-- the body of `while terms_to_copy:`; the `else:` branch does something only when
    `term not in model.cells and term not in model.ranges` -/
def step (m x : XModel) (t : Addr) : XModel × List Addr :=
  match m.st.range? t, m.st.cell? t with
  | none, none => nameStep m x t
  | _, _ => baseStep m x t

def worklist (m : XModel) : Nat → XModel → List Addr → XModel × List Addr
  | 0, x, todo => (x, todo)
  | _ + 1, x, [] => (x, [])
  | n + 1, x, t :: rest =>
    let p := step m x t
    worklist m n p.1 (p.2 ++ rest)

def sumNat : List Nat → Nat
  | [] => 0
  | a :: rest => a + sumNat rest

/-- enough iterations for the loop to finish (theorem `worklist_terminates`): every iteration pops one term;
    the terms of a cell / the members of a range are pushed at most once; a term that is a defined name
    pushes one more (what it is bound to) -/
def workFuel (m : XModel) (todo : List Addr) : Nat :=
  2 * todo.length + sumNat (m.st.cells.map fun p => 2 * (cellTerms p.2).length)
    + sumNat (m.st.ranges.map fun p => 2 * p.2.cells.flatten.length)

/-- `extract(model, focus)`; the result is what `extracted_model` holds (its `formulae` stay empty, ranges
    are copied by the worklist only); `build_code` is applied by the evaluator's view `buildCode` -/
def extract (m : XModel) (focus : List Addr) : Except Addr XModel :=
  match focusPhase m XModel.empty focus with
  | .error e => .error e
  | .ok x0 =>
    let todo := (initTerms x0).reverse
    .ok (worklist m (workFuel m todo) x0 todo).1

/-! ### the dependency graph of the built model (the `succ` of `Spec.C13.Closure`) -/

/-- what the evaluation of `a` looks at next: the target of a defined name (for a name bound to a range:
    its member cells), the references of the built formula stored at `a`, the members of the range `a` -/
def deps (m : XModel) (a : Addr) : List Addr :=
  (match assoc a m.st.names with
   | some t => [t]
   | none =>
     match assoc a m.rnames with
     | some rn => rn.cells.flatten
     | none => [])
  ++ ((match m.st.cell? a with
       | some c =>
         (match c.formula with
          | some f => terms (substFx m f)
          | none => [])
       | none => [])
  ++ (match m.st.range? a with
      | some r => r.cells.flatten
      | none => []))

/-- (statistics only) no formula stored at the listed addresses mentions a defined name and no range there
    has a defined name as a member — the cases that did not need the repair of D1301 -/
def nameFreeOn (m : XModel) (s : List Addr) : Bool :=
  s.all fun a =>
    (match m.st.cell? a with
     | some c => (cellTerms c).all fun t => !(m.isName t)
     | none => true)
    && (match m.st.range? a with
        | some r => r.cells.flatten.all fun y => !(m.isName y)
        | none => true)

/-- hygiene of compiled workbooks: a range key is not a cell address and its members are not defined names;
    a defined name is neither a cell address nor a range key; the target of a name is not a name; the members
    of a named range are neither names nor range keys; a named range is registered in `ranges` under its key -/
def wfb (m : XModel) : Bool :=
  (m.st.ranges.all fun p => !(hasKey p.1 m.st.cells) && p.2.cells.flatten.all fun y => !(m.isName y))
  && (m.st.names.all fun p => !(hasKey p.1 m.st.cells) && !(hasKey p.1 m.st.ranges) && !(m.isName p.2))
  && (m.rnames.all fun p => !(hasKey p.1 m.st.cells) && !(hasKey p.1 m.st.ranges)
        && hasKey p.2.key m.st.ranges
        && p.2.cells.flatten.all fun b => !(m.isName b) && !(hasKey b m.st.ranges))

/-- `set_cell_value` calls applied in order (on the built model: `set_cell_value` does not re-parse) -/
def applySets (sets : List (Addr × V)) (m : MState) : MState :=
  sets.foldl (fun m s => m.setCellValue s.1 s.2) m

/-- the original model together with the result: extraction is a function of the model, the original is
    returned as it was (object identity / aliasing is not modelled; the harness compares the original
    before and after, also after changes of the extract) -/
def runExtract (m : XModel) (focus : List Addr) : XModel × Except Addr XModel := (m, extract m focus)

end XlVerif.Model.C13
