/-
  Model of the aggregate functions of xlcalculator, statement by statement:
    xlfunctions/xl.py            flatten, _validate for Tuple[XlNumber] / Tuple[XlArray], validate_args
    xlfunctions/func_xltypes.py  Array (a DataFrame: ragged rows are padded with None), Array.flat,
                                 Array.cast, Number.cast / Number.is_type / Blank.is_blank
    xlfunctions/math.py          SUM, SUMPRODUCT
    xlfunctions/statistics.py    AVERAGE, COUNT, COUNTA, MAX, MIN
    ast_nodes.py                 RangeNode.eval (how the Array of a range is built from its cells)
  The casts of single values are the shared ones of `Model.Value`.  Core Lean only.
-/
import XlVerif.Model.Value
import XlVerif.Gen.C14Consts
namespace XlVerif.Model.C14
open XlVerif XlVerif.Model.Value

/-- An argument as it reaches a registered function: a scalar (native or typed spelling, or an
    Excel error), an `Array` given by its rows, or a Python list / tuple of arguments. -/
inductive Arg
  | scalar (v : Py)
  | arr (rows : List (List Py))
  | list (xs : List Arg)

/-! ### `Array`: a `pandas.DataFrame` built from rows -/

/-- number of columns of the DataFrame: the longest row -/
def width (rows : List (List Py)) : Nat := rows.foldr (fun r w => max r.length w) 0

/-- the DataFrame constructor pads short rows with `None` -/
def padRow (w : Nat) (r : List Py) : List Py := r ++ List.replicate (w - r.length) Py.none

/-- `Array.flat` = `list(self.values.flat)`: row-major, padded -/
def arrFlat (rows : List (List Py)) : List Py := (rows.map (padRow (width rows))).flatten

/-- `DataFrame.shape` (`Array([])` has shape `(0, 0)`) -/
def shape (rows : List (List Py)) : Nat × Nat := (rows.length, width rows)

/-! ### `xl.flatten` ("fully recursive flattening") -/

mutual
/-- what one element contributes to `flat` -/
def Arg.flat : Arg → List Py
  | .scalar v => [v]
  | .arr rows => arrFlat rows
  | .list xs => flatArgs xs
/-- `xl.flatten(values)` for a tuple / list of arguments -/
def flatArgs : List Arg → List Py
  | [] => []
  | a :: as => a.flat ++ flatArgs as
end

/-! ### `_validate(Tuple[XlNumber], val, name)` -/

def errOf : Py → Option Code
  | .xErr c => some c
  | _ => none

/-- `for item in val: if isinstance(item, ExcelError): raise item` — the leftmost error item -/
def firstError (vs : List Py) : Option Code := vs.findSome? errOf

/-- outcome of `_safe_validate(XlNumber, item)` = `Number.cast(item)` with Excel errors swallowed:
    a number is kept, an item that cannot be cast is dropped.  (`nonfinite`: a text such as "inf"
    becomes a non-finite float, which the ideal-real model does not follow; `crash`: a Python
    exception, which `_safe_validate` does not catch.) -/
inductive Cast
  | keep (n : Num) | drop | nonfinite | crash (k : Crash)
  deriving DecidableEq, Repr

/-- `Number.cast(item)`: typed objects and registered natives go through `__Number__`
    (`Model.Value.toNumber`); an unregistered native type raises `#VALUE!`. -/
def castItem (ext : Ext) (v : Py) : Cast :=
  match pyToS v with
  | .ok s =>
    (match toNumber ext s with
     | .ok n => .keep n
     | .nonfinite => .nonfinite
     | .xl _ => .drop
     | .py k => .crash k)
  | .xl _ => .drop
  | .py k => .crash k

/-- why a call stops early: an Excel error is returned, or the run leaves the model -/
inductive Stop
  | xl (c : Code) | nonfinite | py (k : Crash)
  deriving DecidableEq, Repr

/-- result of a wrapped call: `ok` value, or the reason it stopped -/
abbrev VR (α : Type) := Except Stop α

/-- `tuple(filter(lambda x: x is not None, [_safe_validate(itype, item, name) for item in val]))` -/
def castAll (ext : Ext) : List Py → VR (List Num)
  | [] => .ok []
  | v :: vs =>
    match castItem ext v with
    | .keep n => (castAll ext vs).map (fun ns => n :: ns)
    | .drop => castAll ext vs
    | .nonfinite => .error .nonfinite
    | .crash k => .error (.py k)

/-- `isinstance(item, (Blank, type(None)))`: a BLANK object (an empty member of a range, a reference to
    a never-stored cell) or Python `None` (the padding of a ragged Array) -/
def isBlankObj : Py → Bool
  | .none => true
  | .xBlank => true
  | _ => false

/-- `_validate(Tuple[XlNumber], args, name)` inside `validate_args`: flatten, raise the leftmost
    error item (returned by the wrapper), skip the blank items (`Blank` / `None`: an empty cell is
    not a zero), cast every other item and drop what cannot be cast. -/
def validateNumbers (ext : Ext) (args : List Arg) : VR (List Num) :=
  let vs := flatArgs args
  match firstError vs with
  | some c => .error (.xl c)
  | none => castAll ext (vs.filter fun v => !isBlankObj v)

/-! ### the bodies over the validated tuple of `Number`s -/

/-- Python `sum(numbers)`: a left fold from the int `0` (`0 + Number` → `Number.__radd__`) -/
def sumNum (ns : List Num) : Num := ns.foldl Num.add (.int 0)

/-- `SUM`: `if len(numbers) == 0: return 0`, else `sum(numbers)` -/
def sumBody (ns : List Num) : Num := if ns.length = 0 then .int 0 else sumNum ns

/-- `AVERAGE`: `if len(numbers) < 1: return 0`, else `sum(numbers) / len(numbers)`
    (`Number.__truediv__`: float division) -/
def avgBody (ns : List Num) : Num :=
  if ns.length < 1 then .int 0 else .flt ((sumNum ns).toRat / (ns.length : Rat))

/-- Python `max(iterable)`: keeps the first maximal item (`if item > max_item`) -/
def pyMaxFrom (m : Num) : List Num → Num
  | [] => m
  | x :: xs => if m.toRat < x.toRat then pyMaxFrom x xs else pyMaxFrom m xs

/-- Python `min(iterable)`: keeps the first minimal item (`if item < min_item`) -/
def pyMinFrom (m : Num) : List Num → Num
  | [] => m
  | x :: xs => if x.toRat < m.toRat then pyMinFrom x xs else pyMinFrom m xs

/-- `MAX`: `if len(numbers) < 1: return 0`, else `max(filter(Number.is_type, numbers))`
    (after validation every item is a `Number`, the filter keeps all) -/
def maxBody : List Num → Num
  | [] => .int 0
  | n :: ns => pyMaxFrom n ns

def minBody : List Num → Num
  | [] => .int 0
  | n :: ns => pyMinFrom n ns

def SUM (ext : Ext) (args : List Arg) : VR Num := (validateNumbers ext args).map sumBody
def AVERAGE (ext : Ext) (args : List Arg) : VR Num := (validateNumbers ext args).map avgBody
def MAX (ext : Ext) (args : List Arg) : VR Num := (validateNumbers ext args).map maxBody
def MIN (ext : Ext) (args : List Arg) : VR Num := (validateNumbers ext args).map minBody

/-! ### COUNT and COUNTA (their `*values` carry no annotation: nothing is cast) -/

/-- `Number.is_type(value)` = `isinstance(value, (Number, int, float, numpy.int64, numpy.float64))`;
    a native `bool` is an `int`, `numpy.float64` is a `float`; the 32-bit numpy scalars are neither -/
def isNumberType : Py → Bool
  | .int _ => true | .float _ => true | .bool _ => true
  | .npInt64 _ => true | .npFloat64 _ => true | .xNumber _ => true
  | _ => false

/-- `Blank.is_blank(value)` = `isinstance(value, (Blank, NoneType)) or value == ''` -/
def isBlankPy : Py → Bool
  | .none => true | .xBlank => true
  | .str s => s.isEmpty | .xText s => s.isEmpty
  | _ => false

def COUNT (args : List Arg) : VR Num :=
  let vs := flatArgs args
  if vs.isEmpty || vs.head? = some Py.none then .error (.xl .value)
  else if vs.length > 255 then .error (.xl .value)
  else .ok (.int (vs.filter isNumberType).length)

def COUNTA (args : List Arg) : VR Num :=
  let vs := flatArgs args
  if vs.isEmpty || vs.head? = some Py.none then .error (.xl .null)
  else if vs.length > 256 then .error (.xl .value)
  else .ok (.int (vs.filter fun v => !isBlankPy v).length)

/-! ### SUMPRODUCT (`*arrays: Tuple[XlArray]`: every argument through `Array.cast`) -/

/-- `Array.cast(value)`: an Array is itself, a list / tuple becomes `Array(value)` (a list of scalars
    is one column, a list of lists is the rows), a scalar becomes `Array([[value]])`.
    (Mixed nesting is pandas' business and outside this model.) -/
def toRows : Arg → List (List Py)
  | .scalar v => [[v]]
  | .arr rows => rows
  | .list xs => xs.map Arg.flat

def hasErr (rows : List (List Py)) : Bool := (arrFlat rows).any fun v => (errOf v).isSome

/-- the loop over the arrays: a shape different from the first one's raises `#VALUE!`, an error
    item anywhere in the array raises `#N/A` -/
def checkArrays (sh : Nat × Nat) : List (List (List Py)) → Option Code
  | [] => none
  | a :: as =>
    if shape a ≠ sh then some .value
    else if hasErr a then some .na
    else checkArrays sh as

/-- `to_number = _safe_cast(Number.cast, Number(0))` over the items of one array -/
def numOr0All (ext : Ext) : List Py → VR (List Num)
  | [] => .ok []
  | v :: vs =>
    match castItem ext v with
    | .keep n => (numOr0All ext vs).map (fun ns => n :: ns)
    | .drop => (numOr0All ext vs).map (fun ns => Num.int 0 :: ns)
    | .nonfinite => .error .nonfinite
    | .crash k => .error (.py k)

/-- `columns = [[to_number(item).value for item in array.flat] for array in arrays]` -/
def columnsOf (ext : Ext) : List (List (List Py)) → VR (List (List Num))
  | [] => .ok []
  | a :: as =>
    match numOr0All ext (arrFlat a) with
    | .ok c => (columnsOf ext as).map (fun cs => c :: cs)
    | .error e => .error e

/-- Python `zip(*columns)` for equally long columns -/
def zipCols : List (List Num) → List (List Num)
  | [] => []
  | [c] => c.map fun x => [x]
  | c :: cs => List.zipWith (fun x t => x :: t) c (zipCols cs)

/-- `math.prod(items)`: a left fold from the int `1` -/
def prodNum (t : List Num) : Num := t.foldl Num.mul (.int 1)

def SUMPRODUCT (ext : Ext) (args : List Arg) : VR Num :=
  let arrays := args.map toRows
  match arrays with
  | [] => .error (.xl .null)
  | a1 :: _ =>
    if shape a1 = (0, 0) then .ok (.int 0)
    else
      match checkArrays (shape a1) arrays with
      | some c => .error (.xl c)
      | none => (columnsOf ext arrays).map fun cols => sumNum ((zipCols cols).map prodNum)

/-! ### `RangeNode.eval`: the Array of a range

  The cells of a range are the typed values `Evaluator.evaluate` returns for its members (a native
  value a function without return annotation hands back is cast to its Excel type first).
  `ModelCompiler.build_ranges` creates every member that is not stored as `XLCell(addr, None)`: an
  empty member evaluates to BLANK (`S.blank`); a cell explicitly set to `''` (`set_cell_value`)
  evaluates to `Text('')` (`S.text []`).  Both are "empty" for the run counting below; in the number
  lists the BLANK is skipped (`isBlankObj`) and the `Text('')` fails the cast and is dropped. -/

/-- a typed cell value as the Python object the evaluator hands on -/
def typedPy : S → Py
  | .num n => .xNumber n | .text s => .xText s | .bool b => .xBoolean b
  | .blank => .xBlank | .date d => .xDateTime d | .err c => .xErr c

/-- `cell.value == '' or cell.value is None` -/
def cellEmpty : S → Bool
  | .text s => s.isEmpty
  | .blank => true
  | _ => false

/-- the inner loop over one row; `e` is `empty_col`, which is *not* reset between rows.
    Returns `row_cells` and the new `empty_col`. -/
def scanRow (maxEmpty : Nat) : List S → Nat → List S × Nat
  | [], e => ([], e)
  | c :: cs, e =>
    if cellEmpty c then
      if e + 1 > maxEmpty then ([], e + 1)                     -- `break`: the cell is not appended
      else let r := scanRow maxEmpty cs (e + 1); (c :: r.1, r.2)
    else let r := scanRow maxEmpty cs 0; (c :: r.1, r.2)

/-- the outer loop; `ec` = `empty_col`, `er` = `empty_row` -/
def scanRows (maxEmpty : Nat) : List (List S) → Nat → Nat → List (List S)
  | [], _, _ => []
  | row :: rows, ec, er =>
    let r := scanRow maxEmpty row ec
    if r.1.isEmpty then
      if er + 1 > maxEmpty then []                             -- `break`: nothing more is appended
      else r.1 :: scanRows maxEmpty rows r.2 (er + 1)
    else r.1 :: scanRows maxEmpty rows r.2 0

/-- `RangeNode.eval` for an address that is a range of the model: `Array(range_cells)` -/
def rangeArrayWith (maxEmpty : Nat) (cells : List (List S)) : Arg :=
  .arr ((scanRows maxEmpty cells 0 0).map fun r => r.map typedPy)

/-- with the `MAX_EMPTY` the code has now -/
def rangeArray (cells : List (List S)) : Arg := rangeArrayWith Gen.C14.maxEmpty cells

/-- an operand of an aggregate formula after `FunctionNode.eval` evaluated it -/
inductive FArg
  | value (x : S)                    -- a literal or a single-cell reference: its typed value
  | range (cells : List (List S))    -- a range of the model: the typed values of its cells

def FArg.eval : FArg → Arg
  | .value x => .scalar (typedPy x)
  | .range cells => rangeArray cells

end XlVerif.Model.C14
