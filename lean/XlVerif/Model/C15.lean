/-
  XlVerif.Model.C15 — model of the criteria and lookup functions of xlcalculator:
  `xlfunctions/xlcriteria.py` (parse_criteria), `xlfunctions/statistics.py` (COUNTIF, COUNTIFS) and
  `xlfunctions/lookup.py` (CHOOSE, VLOOKUP, MATCH), statement by statement, on top of the shared
  value-layer model (`Model/Value.lean`: casts, sort keys, the comparison operators).

  The regular expression and the operator table are read from `Gen.Misc` (regenerated from the
  running module on every check), so a changed regex or table changes this model.

  Core Lean only.  Cells, lookup values, criteria and results are typed scalars `S`; a Python
  exception escaping the API is the outcome `Res.crash`.
-/
import XlVerif.Model.Value
import XlVerif.Gen.Misc
import XlVerif.Gen.TypeTables
namespace XlVerif.Model.C15
open XlVerif XlVerif.Model.Value

/-- outcome of a registered function: the value returned to the caller (an Excel error is a value),
    a Python exception, or "outside this model" (a criterion operand that is a non-finite float). -/
inductive Res
  | ok (v : S) | crash (k : Crash) | unmodelled
  deriving DecidableEq, Repr, Inhabited

/-! ## `CRITERIA_REGEX` : `(alt|alt|…)?(.*)` -/

/-- split a regex body at `|` -/
def splitBar : List Char → List (List Char)
  | [] => [[]]
  | c :: r =>
    if c = '|' then [] :: splitBar r
    else match splitBar r with
      | [] => [[c]]
      | a :: as => (c :: a) :: as

def isOpChar (c : Char) : Bool := c = '<' || c = '>' || c = '='

/-- the alternatives of a regex of the shape `(a1|a2|…)?(.*)` whose alternatives are literal
    strings over `< > =`; `none` = the regex does not have this shape. -/
def regexAlts (re : List Char) : Option (List (List Char)) :=
  match re with
  | '(' :: rest =>
    let body := rest.takeWhile (fun c => c ≠ ')')
    let tail := rest.dropWhile (fun c => c ≠ ')')
    if tail = [')', '?', '(', '.', '*', ')'] ∧ body.all (fun c => isOpChar c || c = '|')
    then some (splitBar body) else none
  | _ => none

/-- the operator alternatives of the running code's criteria regex, longest first, obtained by PROBING the regex
    (`Gen.criteriaAlts`; the obligation `Props.C15.regex_shape` ties `regexSplit genAlts` to the probed behaviour of
    the regex on every text of length ≤ 3 over `< > = a 1 blank newline`) -/
def genAlts : List (List Char) := Gen.criteriaAlts

/-- `re.search(CRITERIA_REGEX, s).group(1) or ''` and `.group(2)`: the alternatives are tried in
    order and the first one that is a prefix wins (the rest `(.*)` always matches, so there is no
    backtracking into a later alternative); `.` does not match a newline. -/
def regexSplit (alts : List (List Char)) (s : List Char) : List Char × List Char :=
  match alts.find? (fun a => a.isPrefixOf s) with
  | some a => (a, (s.drop a.length).takeWhile (fun c => c ≠ '\n'))
  | none => ([], s.takeWhile (fun c => c ≠ '\n'))

/-- function name in `CRITERIA_OPERATORS` → the operator it denotes -/
def opOfName (n : List Char) : Option BinOp :=
  if n = "OP_LT".toList then some .lt else if n = "OP_LE".toList then some .le
  else if n = "OP_EQ".toList then some .eq else if n = "OP_NE".toList then some .ne
  else if n = "OP_GE".toList then some .ge else if n = "OP_GT".toList then some .gt
  else none

/-- `CRITERIA_OPERATORS.get(str_operator)` -/
def operatorOf (strOp : List Char) : Option BinOp :=
  (lookup strOp Gen.criteriaOperators).bind opOfName

/-! ## operand typing: `for XlType in (Number, DateTime, Boolean): try value = XlType.cast(str_value)` -/

/-- `DateTime.cast(text)` = `Text.__datetime__`: a float text is a serial, otherwise dateutil;
    `none` = ValueExcelError -/
def castDateTime (ext : Ext) (t : List Char) : Option Rat :=
  match pyFloatOfText t with
  | some (.fin q) => some q
  | _ => ext.dateParse t

/-- the typed operand; `none` = a non-finite float (`"inf"`, `"nan"`, `"1e999"`), not modelled -/
def typeOperand (ext : Ext) (t : List Char) : Option S :=
  match textNumber ext t with
  | .ok n => some (.num n)
  | .nonfinite => none
  | .py _ => none
  | .xl _ =>
    match castDateTime ext t with
    | some d => some (.date d)
    | none =>
      match textBoolByContent t with
      | some b => some (.bool b)
      | none => some (.text t)

/-- a parsed text criterion -/
structure Crit where
  op : BinOp
  ordering : Bool
  value : S
  deriving DecidableEq, Repr

/-- `parse_criteria(criteria)` for a text criterion -/
def parseText (ext : Ext) (s : List Char) : Option Crit :=
  let (strOp, rest) := regexSplit genAlts s
  let (op, strValue) : BinOp × List Char :=
    match operatorOf strOp with
    | some o => (o, rest)
    | none => (.eq, s)            -- `operator = CRITERIA_OPERATORS['=']; str_value = criteria`
  let ordering := strOp = ['<'] ∨ strOp = ['<', '='] ∨ strOp = ['>'] ∨ strOp = ['>', '=']
  (typeOperand ext strValue).map fun v => ⟨op, ordering, v⟩

/-! ## the check closures -/

/-- class name of a typed scalar (for `sort_precedence`); an `ExcelError` has none -/
def className : S → Option (List Char)
  | .num _ => some "Number".toList | .text _ => some "Text".toList | .bool _ => some "Boolean".toList
  | .date _ => some "DateTime".toList | .blank => some "Blank".toList | .err _ => none

/-- `x.sort_precedence` (AttributeError on an error object) -/
def precedence (x : S) : Option Nat := (className x).bind fun c => lookup c Gen.sortPrecedence

/-- what one call of `check` puts into the list that is summed -/
inductive CheckR | pyFalse | b (v : Bool) | err (c : Code)
  deriving DecidableEq, Repr

def ofOpR : OpR → Except Crash CheckR
  | .val (.bool v) => .ok (.b v)
  | .val (.err c) => .ok (.err c)
  | .py k => .error k
  | _ => .error .other

/-- the closure returned for a text criterion -/
def checkText (ext : Ext) (c : Crit) (probe : S) : Except Crash CheckR :=
  if c.ordering then
    match precedence probe, precedence c.value with
    | some p, some q =>
      if (p, isBlank probe) ≠ (q, false) then .ok .pyFalse
      else ofOpR (binop ext c.op probe c.value)
    | _, _ => .error .attributeError
  else ofOpR (binop ext c.op probe c.value)

/-- the closure returned for a non-text criterion: `x == criteria` (an error cell is an exception
    object: `ExcelError.__eq__` is identity, i.e. the Python `False`) -/
def checkPlain (crit probe : S) : Except Crash CheckR :=
  match probe with
  | .err _ => .ok .pyFalse
  | _ => ofOpR (richCmp .eq probe crit)

/-- `parse_criteria(criteria)`; `none` = operand not modelled -/
def mkCheck (ext : Ext) (crit : S) : Option (S → Except Crash CheckR) :=
  match crit with
  | .text s => (parseText ext s).map (checkText ext)
  | c => some (checkPlain c)

def mapE {α β ε} (f : α → Except ε β) : List α → Except ε (List β)
  | [] => .ok []
  | a :: as =>
    match f a with
    | .error e => .error e
    | .ok b => match mapE f as with
      | .error e => .error e
      | .ok bs => .ok (b :: bs)

/-! ## COUNTIF -/

/-- `sum([...])` over check results. `isNum` = the accumulator already is a `Number` object
    (`0 + Boolean` goes through `Boolean.__radd__`); an error object added to the int `0` is a
    TypeError, added to a `Number` it is `#VALUE!` ("Unknown object type", caught by validate_args). -/
def sumChecks : List CheckR → Bool → Int → Res
  | [], _, n => .ok (.num (.int n))
  | .pyFalse :: r, isNum, n => sumChecks r isNum n
  | .b v :: r, _, n => sumChecks r true (n + (if v then 1 else 0))
  | .err _ :: _, isNum, _ => if isNum then .ok (.err .value) else .crash .typeError

def COUNTIF (ext : Ext) (cells : List S) (crit : S) : Res :=
  match crit with
  | .err c => .ok (.err c)          -- validate_args returns an error argument
  | _ =>
    match mkCheck ext crit with
    | none => .unmodelled
    | some chk =>
      match mapE chk cells with
      | .error k => .crash k
      | .ok l => sumChecks l false 0

/-! ## COUNTIFS -/

/-- the regrouping loop over the flattened `*rangesAndCriteria`; `checks` and `ranges` are kept in
    reverse order. Returns `(checks, ranges)` in call order; an unfinished `newRange` is dropped. -/
def regroup (rangeLen : Nat) : List S → List S → List (List S) → List S → Nat → List S × List (List S)
  | [], checks, ranges, _, _ => (checks.reverse, ranges.reverse)
  | item :: rest, checks, ranges, newRange, idx =>
    if idx = rangeLen then regroup rangeLen rest (item :: checks) (newRange.reverse :: ranges) [] 0
    else regroup rangeLen rest checks ranges (item :: newRange) (idx + 1)

/-- truthiness of a check result inside `all([...])` -/
def CheckR.truthy : CheckR → Bool
  | .pyFalse => false | .b v => v | .err _ => true

/-- `zip(*ranges)` -/
def rowsOf : List (List S) → List (List S)
  | [] => []
  | [r] => r.map fun x => [x]
  | r :: rs => List.zipWith (fun x row => x :: row) r (rowsOf rs)

/-- `[cfn(cvals[i]) for i, cfn in enumerate(checks)]` (there are as many values as checks) -/
def applyChecks : List (S → Except Crash CheckR) → List S → Except Crash (List CheckR)
  | f :: fs, v :: vs =>
    match f v with
    | .error e => .error e
    | .ok b => match applyChecks fs vs with
      | .error e => .error e
      | .ok bs => .ok (b :: bs)
  | _, _ => .ok []

def optAll {α} : List (Option α) → Option (List α)
  | [] => some []
  | none :: _ => none
  | some a :: r => (optAll r).map (a :: ·)

def COUNTIFS (ext : Ext) (range1 : List S) (crit1 : S) (rest : List S) : Res :=
  match crit1 with
  | .err c => .ok (.err c)
  | _ =>
    let (crits, ranges) := regroup range1.length rest [crit1] [range1] [] 0
    match optAll (crits.map (mkCheck ext)) with
    | none => .unmodelled
    | some checks =>
      match mapE (fun row => (applyChecks checks row).map fun l => l.all CheckR.truthy) (rowsOf ranges) with
      | .error k => .crash k
      | .ok flags => .ok (.num (.int (flags.filter id).length))

/-! ## MATCH -/

/-- truth of a rich comparison used as a Python condition -/
def cmpE (op : Cmp) (a b : S) : Except Crash Bool :=
  match richCmp op a b with
  | .val (.bool v) => .ok v
  | .py k => .error k
  | _ => .error .other

/-- `val == lookup_value` with a cell on the left: an error cell (an exception object) equals nothing -/
def cellEq (v key : S) : Except Crash Bool :=
  match v with
  | .err _ => .ok false
  | _ => cmpE .eq v key

/-! ### `lookup_array != sorted(lookup_array)` as Python performs it

`sorted` is CPython's list sort.  For fewer than 64 elements it is: find the leading run
(`count_run`: strictly descending — then reversed in place — or non-descending), then insert every
further element by binary search (`binarysort`).  The comparisons, in exactly this order, are
`x < y` calls; the first one that raises ends the call.  The model keeps the position of every
element (its identity): list `!=` first tests identity and only then `==`.  Lists of 64 or more
elements whose leading run is not the whole list need timsort's merges: not modelled. -/

/-- `x < y` as `sorted` evaluates it (`ISLT`): `ExcelType.__lt__`, or the reflected `__gt__` when `x` is
    an error object (AttributeError: the error has no `_sort_key`); two error objects do not support
    `<` at all (TypeError). -/
def ltE (x y : S) : Except Crash Bool :=
  match x, y with
  | .err _, .err _ => .error .typeError
  | _, _ => cmpE .lt x y

/-- an element with its position in the original list -/
abbrev Item := Nat × S

/-- `count_run` after the first comparison: extend the run while `x < prev` has the value `desc`;
    `acc` is the run so far, last element first. Returns the reversed run and the rest. -/
def extendRun (desc : Bool) : Item → List Item → List Item → Except Crash (List Item × List Item)
  | _, acc, [] => .ok (acc, [])
  | prev, acc, x :: rest =>
    match ltE x.2 prev.2 with
    | .error e => .error e
    | .ok b => if b = desc then extendRun desc x (x :: acc) rest else .ok (acc, x :: rest)

/-- the binary search of `binarysort`: `l`, `r` bound the insertion point in the sorted prefix `a` -/
def binSearch (pivot : S) (a : List Item) : Nat → Nat → Nat → Except Crash Nat
  | 0, l, _ => .ok l
  | fuel + 1, l, r =>
    if l < r then
      let p := l + (r - l) / 2
      match ltE pivot (a.getD p (0, .blank)).2 with
      | .error e => .error e
      | .ok true => binSearch pivot a fuel l p
      | .ok false => binSearch pivot a fuel (p + 1) r
    else .ok l

/-- insert the remaining elements one after the other -/
def insertAll : List Item → List Item → Except Crash (List Item)
  | a, [] => .ok a
  | a, x :: rest =>
    match binSearch x.2 a (a.length + 1) 0 a.length with
    | .error e => .error e
    | .ok pos => insertAll (a.take pos ++ x :: a.drop pos) rest

/-- `sorted(items)`; `none` = needs merges (64 or more elements, not one run) -/
def sortItems (items : List Item) : Except Crash (Option (List Item)) :=
  match items with
  | a :: b :: rest =>
    match ltE b.2 a.2 with
    | .error e => .error e
    | .ok desc =>
      match extendRun desc b [b, a] rest with
      | .error e => .error e
      | .ok (acc, remaining) =>
        let run := if desc then acc else acc.reverse
        if remaining.isEmpty then .ok (some run)
        else if items.length ≥ 64 then .ok none
        else match insertAll run remaining with
          | .error e => .error e
          | .ok r => .ok (some r)
  | l => .ok (some l)

/-- list `!=` on two lists of equal length: the first pair that is neither identical nor `==` -/
def listNe : List Item → List Item → Except Crash Bool
  | a :: as, b :: bs =>
    if a.1 = b.1 then listNe as bs
    else match cellEq a.2 b.2 with
      | .error e => .error e
      | .ok true => listNe as bs
      | .ok false => .ok true
  | _, _ => .ok false

/-- `lookup_array != sorted(lookup_array, reverse=rev)`; `reverse=True` sorts the reversed list and
    reverses the result. `none` = not modelled (see above). -/
def sortedNe (rev : Bool) (cells : List S) : Except Crash (Option Bool) :=
  let items : List Item := cells.zipIdx.map fun (x, i) => (i, x)
  match sortItems (if rev then items.reverse else items) with
  | .error e => .error e
  | .ok none => .ok none
  | .ok (some sorted) =>
    match listNe items (if rev then sorted.reverse else sorted) with
    | .error e => .error e
    | .ok b => .ok (some b)

inductive Mode | exact | asc | desc
  deriving DecidableEq, Repr

/-- `i or NaExcelError(...)` -/
def posOrNa (i : Nat) : S := if i = 0 then .err .na else .num (.int i)

/-- the scan `for i, val in enumerate(lookup_array)`; `i` = index of the head, `n` = `len` -/
def matchLoop (mode : Mode) (key : S) : List S → Nat → Except Crash S
  | [], i =>
    match mode with
    | .exact => .ok (.err .na)
    | _ => .ok (if i = 0 then .err .na else .num (.int i))      -- `len(lookup_array)` if non-empty
  | v :: rest, i =>
    match mode with
    | .exact =>
      (match cellEq v key with
       | .error e => .error e
       | .ok true => .ok (.num (.int (i + 1)))
       | .ok false => matchLoop mode key rest (i + 1))
    | .asc =>
      (match cmpE .gt v key with
       | .error e => .error e
       | .ok true => .ok (posOrNa i)
       | .ok false => matchLoop mode key rest (i + 1))
    | .desc =>
      (match cellEq v key with
       | .error e => .error e
       | .ok true => .ok (.num (.int (i + 1)))
       | .ok false =>
         match cmpE .lt v key with
         | .error e => .error e
         | .ok true => .ok (posOrNa i)
         | .ok false => matchLoop mode key rest (i + 1))

/-- `match_type == 1` / `== -1` on the typed argument (default: the int 1) -/
def modeOf (mt : S) : Except Crash Mode :=
  match cmpE .eq mt (.num (.int 1)) with
  | .error e => .error e
  | .ok true => .ok .asc
  | .ok false =>
    match cmpE .eq mt (.num (.int (-1))) with
    | .error e => .error e
    | .ok true => .ok .desc
    | .ok false => .ok .exact

def ofE : Except Crash S → Res
  | .ok v => .ok v
  | .error k => .crash k

def MATCH (key : S) (rows : List (List S)) (mt : S) : Res :=
  match key, mt with
  | .err c, _ => .ok (.err c)
  | _, .err c => .ok (.err c)
  | _, _ =>
    match rows with
    | [] => .crash .indexError                              -- `lookup_array.values[0]`
    | r0 :: _ =>
      if r0.length ≠ 1 then .crash .assertion else
      let cells := rows.flatten
      match modeOf mt with
      | .error e => .crash e
      | .ok .exact => ofE (matchLoop .exact key cells 0)
      | .ok .asc =>
        (match sortedNe false cells with
         | .error e => .crash e
         | .ok none => .unmodelled
         | .ok (some true) => .ok (.err .na)           -- "Values must be sorted in ascending order"
         | .ok (some false) => ofE (matchLoop .asc key cells 0))
      | .ok .desc =>
        (match sortedNe true cells with
         | .error e => .crash e
         | .ok none => .unmodelled
         | .ok (some true) => .ok (.err .na)
         | .ok (some false) => ofE (matchLoop .desc key cells 0))

/-! ## VLOOKUP -/

/-- `int(Number)` = `int(float(value))`: truncation toward zero -/
def truncNum : Num → Int
  | .int z => z
  | .flt q => if q < 0 then -((-q).floor) else q.floor

/-- the row scan: the requested cell of the first row whose first cell equals the key -/
def vlookupScan (key : S) (col : Nat) : List (List S) → Except Crash S
  | [] => .ok (.err .na)
  | row :: rest =>
    match row with
    | [] => .error .indexError
    | k :: _ =>
      match cellEq k key with
      | .error e => .error e
      | .ok true => .ok (row.getD (col - 1) .blank)
      | .ok false => vlookupScan key col rest

def VLOOKUP (key : S) (rows : List (List S)) (colIndex : Num) (rangeLookup : Bool) : Res :=
  match key with
  | .err c => .ok (.err c)
  | _ =>
    if rangeLookup then .crash .other             -- NotImplementedError
    else
      let col := truncNum colIndex
      if col < 1 then .ok (.err .value)
      else match rows with
        | [] => .crash .indexError
        | r0 :: _ =>
          if col > r0.length then .ok (.err .value)
          else ofE (vlookupScan key col.toNat rows)

/-! ## CHOOSE -/

def CHOOSE (ext : Ext) (index : S) (values : List S) : Res :=
  match index with
  | .err c => .ok (.err c)
  | _ =>
    match toNumber ext index with
    | .xl c => .ok (.err c)
    | .py k => .crash k
    | .nonfinite => .unmodelled
    | .ok n =>
      if n.toRat < 1 ∨ n.toRat > 254 then .ok (.err .value)
      else if n.toRat > values.length then .ok (.err .value)
      else .ok (values.getD ((truncNum n).toNat - 1) .blank)

end XlVerif.Model.C15
