/-
  Model of the math and rounding functions of xlcalculator/xlfunctions/math.py (bodies after
  `validate_args` has cast the arguments to `Number`), statement by statement.

  * The ROUND family works on `decimal.Decimal(str(number))`: a finite decimal
    `(sign, coefficient, exponent)`, exactly as `decimal` does, including the context precision
    (`dc.prec = 700`) whose overflow raises `decimal.InvalidOperation`.
  * CEILING / FLOOR / EVEN use float arithmetic in the source; here they are computed over the
    exact decimal values of their arguments ("ideal reals", DESIGN.md §3.1).
  * The transcendental functions are a domain guard plus an uninterpreted primitive (`Prims`),
    called with the argument order of the source.
  Core Lean only.
-/
import XlVerif.Base
namespace XlVerif.Model.C16
open XlVerif

/-- Outcome of a function body: a value, an Excel error (raised in the body and turned into a value
    by `validate_args`), a Python exception escaping the API, or a non-finite float. -/
inductive Res (α : Type)
  | val (a : α) | xlerr (c : Code) | crash (k : Crash) | nan | posInf | negInf
  deriving DecidableEq, Repr, Inhabited

/-- A finite `decimal.Decimal`: `(-1)^neg · coef · 10^exp`. -/
structure Dec where
  neg : Bool
  coef : Nat
  exp : Int
  deriving DecidableEq, Repr, Inhabited

namespace Dec
/-- magnitude `coef · 10^exp` -/
def mag (x : Dec) : Rat := (x.coef : Rat) * (10 : Rat) ^ x.exp
/-- the rational the decimal denotes -/
def toRat (x : Dec) : Rat := if x.neg then -x.mag else x.mag
/-- `number < 0` (false for `-0.0`) -/
def isNeg (x : Dec) : Bool := x.neg && x.coef != 0
/-- `0 < number` -/
def isPos (x : Dec) : Bool := !x.neg && x.coef != 0
def isZero (x : Dec) : Bool := x.coef == 0
end Dec

/-- The rounding modes of the `decimal` module that math.py uses. -/
inductive Mode | halfUp | up | down
  deriving DecidableEq, Repr, Inhabited

def numDigitsAux : Nat → Nat → Nat
  | 0, _ => 1
  | fuel + 1, n => if n < 10 then 1 else numDigitsAux fuel (n / 10) + 1

/-- number of decimal digits of a coefficient (`len(ans._int)`; `0` has one digit) -/
def numDigits (n : Nat) : Nat := numDigitsAux n n

/-- rounding of the quotient `q` with remainder `r` of a division by `p`, on magnitudes -/
def bump (mode : Mode) (q r p : Nat) : Nat :=
  match mode with
  | .halfUp => if 2 * r ≥ p then q + 1 else q
  | .up => if r > 0 then q + 1 else q
  | .down => q

/-- `Decimal.quantize` to the exponent `t` under `rounding = mode` and context precision `prec`:
    `InvalidOperation` when the coefficient of the result has more than `prec` digits. -/
def quantize (prec : Nat) (mode : Mode) (x : Dec) (t : Int) : Res Dec :=
  if t ≤ x.exp then
    let c := x.coef * 10 ^ (x.exp - t).toNat
    if numDigits c > prec then .crash .invalidOperation else .val ⟨x.neg, c, t⟩
  else
    let p := 10 ^ (t - x.exp).toNat
    let c := bump mode (x.coef / p) (x.coef % p) p
    if numDigits c > prec then .crash .invalidOperation else .val ⟨x.neg, c, t⟩

/-- `dc.prec = 700` in `_round`. -/
def roundPrec : Nat := 700

/-- `int(Number)` = `int(float(value))`: truncation toward zero. -/
def pyInt : Num → Int
  | .int z => z
  | .flt q => if q < 0 then -((-q).floor) else q.floor

/-- Results of the rounding family: a decimal that the code passes to `float(...)`, or a number. -/
inductive RVal | dec (d : Dec) | num (n : Num)
  deriving DecidableEq, Repr, Inhabited

/-- the rational value of a result -/
def RVal.toRat : RVal → Rat
  | .dec d => d.toRat
  | .num n => n.toRat

/-- `_round(number, num_digits, _rounding)`:
    `round(decimal.Decimal(str(number)), int(num_digits))` under a local context, then `float(ans)`. -/
def pyRound (mode : Mode) (x : Dec) (numDigits : Num) : Res RVal :=
  match quantize roundPrec mode x (-(pyInt numDigits)) with
  | .val d => .val (.dec d)
  | .xlerr c => .xlerr c | .crash k => .crash k | .nan => .nan | .posInf => .posInf | .negInf => .negInf

def ROUND (x : Dec) (nd : Num) : Res RVal := pyRound .halfUp x nd
def ROUNDUP (x : Dec) (nd : Num) : Res RVal := pyRound .up x nd
def ROUNDDOWN (x : Dec) (nd : Num) : Res RVal := pyRound .down x nd

def INT (x : Dec) : Res RVal :=
  if x.isNeg then pyRound .up x (.int 0) else pyRound .down x (.int 0)

/-- `math.trunc(number)` on the decimal value -/
def truncInt (x : Dec) : Int :=
  let m : Nat := if 0 ≤ x.exp then x.coef * 10 ^ x.exp.toNat else x.coef / 10 ^ (-x.exp).toNat
  if x.neg then -(m : Int) else m

def TRUNC (x : Dec) (nd : Num) : Res RVal :=
  if nd.toRat == 0 then .val (.num (.int (truncInt x)))
  else pyRound .down x nd

/-- The float quotient `x / s` of a non-zero `x` rounds to zero (finding D1605): the ideal quotient is
    at or below half the smallest subnormal double, `2^-1075 ≈ 2.47e-324` (a little slack covers the
    decimal spelling of subnormal doubles: `repr(2^-1074)` is `5e-324`). -/
def quotientUnderflows (x s : Rat) : Bool :=
  let q := x / s
  q != 0 && (if q < 0 then -q else q) ≤ 3 / ((10 ^ 324 : Nat) : Rat)

/-- `math.ceil(abs(float(number)) / 2.) * -2` resp. `math.ceil(float(number) / 2.) * 2`
    (D1605: for the smallest subnormal double the float quotient is zero). -/
def EVEN (x : Dec) : Res RVal :=
  if quotientUnderflows x.mag 2 then .val (.num (.int 0))
  else if x.isNeg then .val (.num (.int ((x.mag / 2).ceil * -2)))
  else .val (.num (.int ((x.toRat / 2).ceil * 2)))

/-- The float quotient `number / significance` is infinite (`math.ceil`/`math.floor` then raise
    `OverflowError`): the ideal quotient is at or beyond the rounding boundary `2^1024 - 2^970`. -/
def quotientOverflows (x s : Rat) : Bool :=
  let q := x / s
  (if q < 0 then -q else q) ≥ ((2 ^ 1024 - 2 ^ 970 : Nat) : Rat)

def trailingZeros : Nat → Nat → Nat
  | 0, _ => 0
  | fuel + 1, m => if m != 0 && m % 10 == 0 then trailingZeros fuel (m / 10) + 1 else 0

/-- exponent of `decimal.Decimal(str(significance % 1))`: the fractional part of the significance,
    as the decimal that `str` prints (`'0.0'` for an integer-valued significance). -/
def quantExp (s : Dec) : Int :=
  if 0 ≤ s.exp then -1 else
    let p := 10 ^ (-s.exp).toNat
    let r := s.coef % p
    let m := if s.neg && r != 0 then p - r else r        -- Python's `%` is floored
    if m == 0 then -1 else s.exp + trailingZeros m m

/-- `significance * k` for an integer `k`, as an exact decimal -/
def mulInt (s : Dec) (k : Int) : Dec :=
  ⟨(s.neg && k > 0) || (!s.neg && k < 0), s.coef * k.natAbs, s.exp⟩

def isIntRat (q : Rat) : Bool := q.den == 1

def CEILING (x s : Dec) : Res RVal :=
  if s.isZero then .val (.num (.int 0))
  else if s.isNeg && x.isPos then .xlerr .num
  else
    let xq := x.toRat
    let sq := s.toRat
    if quotientOverflows xq sq then .xlerr .num else
    -- D1605: an underflowing float quotient is zero, and so is its ceiling
    let ceiling := mulInt s (if quotientUnderflows xq sq then 0 else (xq / sq).ceil)
    if isIntRat (xq / sq) then .val (.dec ceiling)              -- number % significance == 0
    else
      let mode := if x.isNeg && s.isNeg then Mode.down else Mode.up
      match quantize 700 mode ceiling (quantExp s) with
      | .val d => .val (.dec d)
      | .xlerr c => .xlerr c | .crash k => .crash k | .nan => .nan | .posInf => .posInf
      | .negInf => .negInf

def FLOOR (x s : Dec) : Res RVal :=
  if s.isNeg && x.isPos then .xlerr .num
  else if x.isZero then .val (.num (.int 0))
  else if s.isZero then .xlerr .div0
  else
    let xq := x.toRat
    let sq := s.toRat
    if quotientOverflows xq sq then .xlerr .num
    else .val (.dec (mulInt s (if quotientUnderflows xq sq then 0 else (xq / sq).floor)))

/-! ### elementary functions -/

/-- Uninterpreted numeric primitives (numpy / libm).  Their contracts are hypotheses of the
    theorems (`Props.C16.Contracts`), never axioms. -/
structure Prims where
  sin : Rat → Out Rat
  cos : Rat → Out Rat
  tan : Rat → Out Rat
  asin : Rat → Out Rat
  acos : Rat → Out Rat
  atan : Rat → Out Rat
  cosh : Rat → Out Rat
  asinh : Rat → Out Rat
  acosh : Rat → Out Rat
  exp : Rat → Out Rat
  ln : Rat → Out Rat
  log10 : Rat → Out Rat
  sqrt : Rat → Out Rat
  degrees : Rat → Out Rat
  radians : Rat → Out Rat
  atan2 : Rat → Rat → Out Rat
  pow : Rat → Rat → Out Rat
  logb : Rat → Rat → Out Rat
  pi : Rat

/-- a float result of a primitive becomes the function's result -/
def lift : Out Rat → Res Num
  | .val q => .val (.flt q)
  | .crash k => .crash k
  | .nan => .nan | .posInf => .posInf | .negInf => .negInf
  | .diverge => .crash .other

/-- `_finite(result)`: `#NUM!` for an infinite result -/
def finite : Out Rat → Res Num
  | .posInf => .xlerr .num
  | .negInf => .xlerr .num
  | o => lift o

def fact : Nat → Nat
  | 0 => 1
  | n + 1 => (n + 1) * fact n

def fact2 : Nat → Nat
  | 0 => 1
  | 1 => 1
  | n + 2 => (n + 2) * fact2 n

def ABS : Num → Res Num
  | .int z => .val (.int z.natAbs)
  | .flt q => .val (.flt (if q < 0 then -q else q))

def ACOS (P : Prims) (n : Num) : Res Num :=
  if n.toRat < -1 ∨ n.toRat > 1 then .xlerr .num else lift (P.acos n.toRat)

def ACOSH (P : Prims) (n : Num) : Res Num :=
  if n.toRat < 1 then .xlerr .name else lift (P.acosh n.toRat)

def ASIN (P : Prims) (n : Num) : Res Num :=
  if n.toRat < -1 ∨ n.toRat > 1 then .xlerr .num else lift (P.asin n.toRat)

def ASINH (P : Prims) (n : Num) : Res Num := lift (P.asinh n.toRat)
def ATAN (P : Prims) (n : Num) : Res Num := lift (P.atan n.toRat)

/-- `np.arctan2(float(y_num), float(x_num))` -/
def ATAN2 (P : Prims) (xNum yNum : Num) : Res Num := lift (P.atan2 yNum.toRat xNum.toRat)

def COS (P : Prims) (n : Num) : Res Num := lift (P.cos n.toRat)
def COSH (P : Prims) (n : Num) : Res Num := finite (P.cosh n.toRat)
def DEGREES (P : Prims) (n : Num) : Res Num := finite (P.degrees n.toRat)
def EXP (P : Prims) (n : Num) : Res Num := finite (P.exp n.toRat)

def FACT (n : Num) : Res Num :=
  if n.toRat < 0 then .xlerr .num else .val (.int (fact (pyInt n).toNat))

def FACTDOUBLE (n : Num) : Res Num :=
  if n.toRat < 0 then .xlerr .num else .val (.int (fact2 (pyInt n).toNat))

def LN (P : Prims) (n : Num) : Res Num :=
  if n.toRat ≤ 0 then .xlerr .num else lift (P.ln n.toRat)

def LOG (P : Prims) (n b : Num) : Res Num :=
  if n.toRat ≤ 0 ∨ b.toRat ≤ 0 then .xlerr .num
  else if b.toRat == 1 then .xlerr .div0
  else lift (P.logb n.toRat b.toRat)

def LOG10 (P : Prims) (n : Num) : Res Num :=
  if n.toRat ≤ 0 then .xlerr .num else lift (P.log10 n.toRat)

/-- `number % divisor`: Python's floored remainder, `int % int` stays an `int` -/
def MOD (n d : Num) : Res Num :=
  if d.toRat == 0 then .xlerr .div0
  else match n, d with
    | .int a, .int b => .val (.int (a.fmod b))
    | _, _ => .val (.flt (n.toRat - d.toRat * ((n.toRat / d.toRat).floor : Rat)))

def PI (P : Prims) : Res Num := .val (.flt P.pi)

/-- `np.power(number, power)` on `Number`s is `Number(number.value ** power.value)`; the
    `OverflowError` of a float power is caught and becomes `#NUM!`. -/
def POWER (P : Prims) (n p : Num) : Res Num :=
  if n.toRat == 0 ∧ p.toRat < 0 then .xlerr .div0
  else if n.toRat < 0 ∧ ((pyInt p : Int) : Rat) ≠ p.toRat then .xlerr .num
  else
    let viaFloat : Res Num :=
      match P.pow n.toRat p.toRat with
      | .crash .overflow => .xlerr .num
      | o => lift o
    match n, p with
    | .int a, .int b => if 0 ≤ b then .val (.int (a ^ b.toNat)) else viaFloat
    | _, _ => viaFloat

def RADIANS (P : Prims) (n : Num) : Res Num := lift (P.radians n.toRat)

/-- `np.sign(float(number))` -/
def SIGN (n : Num) : Res Num :=
  .val (.flt (if n.toRat < 0 then -1 else if n.toRat == 0 then 0 else 1))

def SIN (P : Prims) (n : Num) : Res Num := lift (P.sin n.toRat)

def SQRT (P : Prims) (n : Num) : Res Num :=
  if n.toRat < 0 then .xlerr .num else lift (P.sqrt n.toRat)

def TAN (P : Prims) (n : Num) : Res Num := lift (P.tan n.toRat)

/-- `ISEVEN` / `ISODD` of information.py: `int(num)` then parity (the `== 1` special case is
    subsumed by Python's floored `% 2`). -/
def ISEVEN (n : Num) : Bool := if pyInt n == 1 then false else (pyInt n).fmod 2 == 0
def ISODD (n : Num) : Bool := if pyInt n == 1 then true else !((pyInt n).fmod 2 == 0)

end XlVerif.Model.C16
