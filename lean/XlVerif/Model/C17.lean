/-
  Model of xlcalculator/xlfunctions/text.py (bodies after `validate_args` has cast the arguments):
  statement-by-statement mirror of the Python, with Python's slice and `str.index` semantics.
  Arguments: texts are `List Char`, numbers are `Num` and go through `int(...)` as in the code.
-/
import XlVerif.Base
import XlVerif.Gen.Misc
namespace XlVerif.Model.C17
open XlVerif

/-- Result of a text function body: a value or an Excel error raised inside the body. -/
abbrev R (α : Type) := Except Code α

/-- `int(Number)` = `int(float(value))`: truncation toward zero (ideal reals). -/
def pyInt : Num → Int
  | .int z => z
  | .flt q => if q < 0 then -((-q).floor) else q.floor

/-- Normalise one Python slice bound against a length (`PySlice_AdjustIndices`). -/
def pyIdx (len : Nat) (i : Int) : Nat :=
  if i < 0 then (if i + len < 0 then 0 else (i + len).toNat) else min i.toNat len

/-- Python `s[lo:hi]` for arbitrary integers. -/
def pySlice {α} (s : List α) (lo hi : Int) : List α :=
  let a := pyIdx s.length lo
  let b := pyIdx s.length hi
  (s.drop a).take (b - a)

/-- Python `s[:hi]`. -/
def pySliceTo {α} (s : List α) (hi : Int) : List α := pySlice s 0 hi
/-- Python `s[lo:]`. -/
def pySliceFrom {α} (s : List α) (lo : Int) : List α := s.drop (pyIdx s.length lo)

/-- scan for `t` in `s`, `off` = index of the head of `s` in the original text. -/
def findAt (t : List Char) : List Char → Nat → Option Nat
  | [], off => if t = [] then some off else none
  | c :: s, off => if t.isPrefixOf (c :: s) then some off else findAt t s (off + 1)

/-- Python `s.index(t, start)` for `start ≥ 0` (`none` = ValueError). -/
def pyIndex (t s : List Char) (start : Nat) : Option Nat :=
  if start > s.length then none else findAt t (s.drop start) start

def upperChar (c : Char) : Char := if 'a' ≤ c ∧ c ≤ 'z' then Char.ofNat (c.toNat - 32) else c
def lowerChar (c : Char) : Char := if 'A' ≤ c ∧ c ≤ 'Z' then Char.ofNat (c.toNat + 32) else c

/-- Python `s.split(' ')`. -/
def splitSp : List Char → List (List Char)
  | [] => [[]]
  | c :: s =>
    match splitSp s with
    | [] => [[]]   -- unreachable: `splitSp` never returns `[]`
    | w :: ws => if c = ' ' then [] :: w :: ws else (c :: w) :: ws

/-- Python `' '.join(ws)`. -/
def joinSp : List (List Char) → List Char
  | [] => []
  | [w] => w
  | w :: ws => w ++ ' ' :: joinSp ws

-- ---------------------------------------------------------------- the bodies

def LEN (text : List Char) : R Int := .ok text.length

def LEFT (text : List Char) (numChars : Num) : R (List Char) :=
  let n := pyInt numChars
  if n < 0 then .error .value else .ok (pySliceTo text n)

def RIGHT (text : List Char) (numChars : Num) : R (List Char) :=
  let n := pyInt numChars
  if n < 0 then .error .value
  else .ok (pySliceFrom text ((text.length : Int) - min n text.length))

def MID (text : List Char) (startNum numChars : Num) : R (List Char) :=
  if text.length > Gen.cellCharacterLimit then .error .value else
  let st := pyInt startNum
  if st < 1 then .error .num else
  let n := pyInt numChars
  if n < 0 then .error .num else
  let i := st - 1
  .ok (pySlice text i (i + n))

def FIND (findText withinText : List Char) (startNum : Num) : R Int :=
  let st := pyInt startNum
  if st < 1 then .error .value else
  match pyIndex findText withinText (st - 1).toNat with
  | some i => .ok (i + 1)
  | none => .error .value

def REPLACE (oldText : List Char) (startNum numChars : Num) (newText : List Char) : R (List Char) :=
  let st := pyInt startNum - 1
  let n := pyInt numChars
  if st < 0 ∨ n < 0 then .error .value
  else .ok (pySliceTo oldText st ++ newText ++ pySliceFrom oldText (st + n))

def UPPER (text : List Char) : R (List Char) := .ok (text.map upperChar)
def LOWER (text : List Char) : R (List Char) := .ok (text.map lowerChar)

def TRIM (text : List Char) : R (List Char) :=
  .ok (joinSp ((splitSp text).filter fun w => !w.isEmpty))

def EXACT (a b : List Char) : R Bool := .ok (a == b)

/-- `CONCAT(*texts)` after flattening and `Text.cast` of every item. -/
def CONCAT (texts : List (List Char)) : R (List Char) :=
  if texts.length > 254 then .error .value else .ok texts.flatten

end XlVerif.Model.C17
