/-
  Model of xlcalculator/xlfunctions/utils.py and xlcalculator/xlfunctions/date.py (bodies after
  `validate_args` has cast the arguments), statement by statement.

  * Python `datetime` is modelled by `DT` = whole days since EXCEL_EPOCH (1900-01-01) plus the seconds
    into the day (an ideal rational; microsecond rounding is not modelled).  Its calendar is the
    proleptic Gregorian calendar, computed with the days-from-civil / civil-from-days algorithm on `Int`
    (`Lemmas/C18Cal.lean` proves the two are inverse on all of ℤ).  `datetime` only exists for years
    1 … 9999: outside, constructing one raises `OverflowError` / `ValueError` (modelled as crashes).
  * `dateutil.relativedelta` (sign–magnitude month carry, day clipped to the month's end), the `rrule`
    counting used by DATEDIF and the two `yearfrac` conventions used by YEARFRAC are hand models of the
    part of the library that is used.
  * The WEEKDAY tuples are read from `Gen.C18Date` (observed by probing the running WEEKDAY on a
    Monday … Sunday for every candidate return type: behaviour, not source text).
  * The model mirrors the code after the repairs D44 (serial 59), D46/D56 (DATE bounds), D47 (DATEDIF M/Y by
    field arithmetic), D48 (`year = int(year)`), D1801 (EDATE/EOMONTH epoch check `<`), D1802 (offset rule
    `value >= 60`) and D1805 (`try … except (OverflowError, ValueError)` → #NUM!).  D45 (the time of day in
    `datetime_to_number`) is hard-coded in the suite and is modelled as written.
-/
import XlVerif.Base
import XlVerif.Gen.C18Date
namespace XlVerif.Model.C18
open XlVerif

/-- Outcome of a function body: a value, an Excel error raised inside the body (returned as an error
    value by `validate_args`), or a Python exception escaping the call. -/
inductive Res (α : Type)
  | ok (a : α) | err (c : Code) | crash (k : Crash)
  deriving DecidableEq, Repr

namespace Res
def bind {α β} (r : Res α) (f : α → Res β) : Res β :=
  match r with
  | ok a => f a | err c => err c | crash k => crash k
def map {α β} (f : α → β) : Res α → Res β
  | ok a => ok (f a) | err c => err c | crash k => crash k
end Res

/-- `int(Number)` = `int(float(value))`: truncation toward zero (ideal reals). -/
def pyInt : Num → Int
  | .int z => z
  | .flt q => if q < 0 then -((-q).floor) else q.floor

-- ------------------------------------------------------------------ proleptic Gregorian calendar

structure YMD where
  y : Int
  m : Int
  d : Int
  deriving DecidableEq, Repr, Inhabited

abbrev Leap (y : Int) : Prop := y % 4 = 0 ∧ (y % 100 ≠ 0 ∨ y % 400 = 0)

/-- `calendar.monthrange(y, m)[1]` -/
def daysInMonth (y m : Int) : Int :=
  if m = 2 then (if Leap y then 29 else 28)
  else if m = 4 ∨ m = 6 ∨ m = 9 ∨ m = 11 then 30 else 31

/-- days since 0000-03-01 of a civil date (days-from-civil) -/
def daysFromCivil (c : YMD) : Int :=
  let y := if c.m ≤ 2 then c.y - 1 else c.y
  let era := y / 400
  let yoe := y - era * 400
  let mp := if c.m > 2 then c.m - 3 else c.m + 9
  let doy := (153 * mp + 2) / 5 + c.d - 1
  let doe := yoe * 365 + yoe / 4 - yoe / 100 + doy
  era * 146097 + doe

/-- civil date of a day count since 0000-03-01 (civil-from-days) -/
def civilFromDays (z : Int) : YMD :=
  let era := z / 146097
  let doe := z - era * 146097
  let yoe := (doe - doe / 1460 + doe / 36524 - doe / 146096) / 365
  let doy := doe - (365 * yoe + yoe / 4 - yoe / 100)
  let mp := (5 * doy + 2) / 153
  let d := doy - (153 * mp + 2) / 5 + 1
  let m := if mp < 10 then mp + 3 else mp - 9
  ⟨if m ≤ 2 then yoe + era * 400 + 1 else yoe + era * 400, m, d⟩

/-- `daysFromCivil ⟨1900, 1, 1⟩` -/
def epochCivil : Int := 693901

/-- `datetime.toordinal()` of the date `day` days after the epoch (0001-01-01 has ordinal 1) -/
def ordinalOfDay (day : Int) : Int := day + 693596

/-- `_ymd2ord` -/
def ymd2ord (c : YMD) : Int := daysFromCivil c - 305

-- ------------------------------------------------------------------ datetime

/-- a `datetime.datetime`: whole days since 1900-01-01 and seconds into the day (0 ≤ sec < 86400) -/
structure DT where
  day : Int
  sec : Rat
  deriving DecidableEq, Repr

/-- `datetime.min` / `datetime.max` as days from the epoch: 0001-01-01 and 9999-12-31 -/
def minDay : Int := -693595
def maxDay : Int := 2958463

/-- `EXCEL_EPOCH + timedelta(days, seconds)`: OverflowError outside years 1 … 9999 -/
def mkDT (day : Int) (sec : Rat) : Res DT :=
  if day < minDay ∨ day > maxDay then .crash .overflow else .ok ⟨day, sec⟩

def DT.ymd (t : DT) : YMD := civilFromDays (t.day + epochCivil)

/-- `datetime.weekday()`: Monday = 0 -/
def pyWeekday (t : DT) : Int := (ordinalOfDay t.day + 6) % 7

/-- `_isoweek1monday(year)` -/
def isoWeek1Monday (year : Int) : Int :=
  let firstday := ymd2ord ⟨year, 1, 1⟩
  let firstweekday := (firstday + 6) % 7
  let week1monday := firstday - firstweekday
  if firstweekday > 3 then week1monday + 7 else week1monday

/-- `datetime.isocalendar()[1]` -/
def isoWeek (t : DT) : Int :=
  let year := t.ymd.y
  let today := ordinalOfDay t.day
  let week := (today - isoWeek1Monday year) / 7
  if week < 0 then (today - isoWeek1Monday (year - 1)) / 7 + 1
  else if week ≥ 52 ∧ today ≥ isoWeek1Monday (year + 1) then 1
  else week + 1

-- ------------------------------------------------------------------ utils.py

/-- `utils.number_to_datetime(value)` -/
def numberToDatetime (v : Num) : Res DT :=
  let q := v.toRat
  let offset : Int := if q ≥ 60 then 2 else 1
  mkDT (pyInt v - offset) ((q - (q.floor : Rat)) * 86400)

/-- `utils.datetime_to_number(value)`; note `delta.seconds / 24 * 60 * 60` as written (D45) -/
def datetimeToNumber (t : DT) : Rat :=
  let offset : Int := if t.day > 58 then 2 else 1
  ((t.day + offset : Int) : Rat) + ((t.sec.floor : Int) : Rat) / 24 * 60 * 60

/-- `int(x)` for a `DateTime` x: `int(float(x))` = `int(datetime_to_number(x.value))` -/
def dtInt (t : DT) : Int := pyInt (.flt (datetimeToNumber t))

/-- `DateTime.cast(n)` for a number: `Number.__datetime__` -/
def castDateTime (v : Num) : Res DT := numberToDatetime v

-- ------------------------------------------------------------------ dateutil.relativedelta

/-- `relativedelta._fix` on the months field: sign–magnitude divmod by 12, carried into years -/
def fixMonths (years months : Int) : Int × Int :=
  if months > 11 ∨ months < -11 then
    let s : Int := if months < 0 then -1 else 1
    let a := months * s
    (years + (a / 12) * s, (a % 12) * s)
  else (years, months)

/-- year and month of `dt + relativedelta(years=…, months=…)` as `relativedelta.__add__` computes them:
    `year = dt.year + years`, then `month += months` with a carry of at most one year -/
def carryYM (y m years months : Int) : Int × Int :=
  let fm := fixMonths years months
  let year0 := y + fm.1
  if fm.2 ≠ 0 then
    let month1 := m + fm.2
    if month1 > 12 then (year0 + 1, month1 - 12)
    else if month1 < 1 then (year0 - 1, month1 + 12)
    else (year0, month1)
  else (year0, m)

/-- the date part of `dt + relativedelta(years=…, months=…, day=absDay)`: month carry, day clipped to
    the length of the target month; `datetime.replace` raises ValueError outside years 1 … 9999 -/
def addRel (c : YMD) (years months : Int) (absDay : Option Int) : Res YMD :=
  let ym := carryYM c.y c.m years months
  let day := min (daysInMonth ym.1 ym.2) (absDay.getD c.d)
  if ym.1 < 1 ∨ ym.1 > 9999 then .crash .valueError else .ok ⟨ym.1, ym.2, day⟩

/-- the datetime at midnight of a civil date -/
def dtOfYMD (c : YMD) (sec : Rat) : Res DT := mkDT (daysFromCivil c - epochCivil) sec

-- ------------------------------------------------------------------ date.py

/-- `DATE(year, month, day)`; `EXCEL_EPOCH + delta` sits in `try … except (OverflowError, ValueError)`:
    a date outside the years a `datetime` can hold is #NUM! -/
def DATE (year month day : Num) : Res DT :=
  let y0 := pyInt year
  if ¬ (0 ≤ y0 ∧ y0 ≤ 9999) then .err .num else
  let y := if y0 < 1900 then 1900 + y0 else y0
  match addRel ⟨1900, 1, 1⟩ (y - 1900) (pyInt month - 1) none with
  | .ok c =>
    match mkDT (daysFromCivil c - epochCivil + (pyInt day - 1)) 0 with
    | .ok r => if r.day < 0 then .err .num else .ok r
    | .err e => .err e
    | .crash _ => .err .num
  | .err e => .err e
  | .crash _ => .err .num

/-- `utils.number_to_datetime(int(serial_number))` -/
def serialDate (n : Num) : Res DT := numberToDatetime (.int (pyInt n))

def DAY (n : Num) : Res Int := (serialDate n).map fun t => t.ymd.d
def MONTH (n : Num) : Res Int := (serialDate n).map fun t => t.ymd.m

def YEAR (n : Num) : Res Int :=
  (serialDate n).bind fun t =>
    let y := t.ymd.y
    if y < 1900 ∨ y > 9999 then .err .value else .ok y

/-- `weekDays[date.weekday()]` (IndexError if the tuple is too short) -/
def pick (tup : List Int) (wd : Int) : Res Int :=
  match tup[wd.toNat]? with
  | some x => .ok x
  | none => .crash .indexError

/-- `WEEKDAY(serial_number, return_type)`; `rt = none` = omitted -/
def WEEKDAY (n : Num) (rt : Option Num) : Res Int :=
  (serialDate n).bind fun t =>
    match rt with
    | none => pick Gen.weekdayDefault (pyWeekday t)
    | some r =>
      match Gen.weekdayTables.lookup (pyInt r) with
      | some tup => pick tup (pyWeekday t)
      | none => .err .num

/-- `ISOWEEKNUM(date)` -/
def ISOWEEKNUM (d : DT) : Res Int :=
  (numberToDatetime (.int (dtInt d))).map isoWeek

/-- `DAYS(end_date, start_date)`: `Number.cast(end).value - Number.cast(start).value` (floats) -/
def DAYS (e s : DT) : Res Rat := .ok (datetimeToNumber e - datetimeToNumber s)

/-- `utils.number_to_datetime(int(start_date)) + relativedelta(months=int(months))` inside
    `try … except (OverflowError, ValueError)` (→ #NUM!), then the epoch check -/
def edateCore (start : DT) (months : Num) : Res DT :=
  match (numberToDatetime (.int (dtInt start))).bind fun base =>
      (addRel base.ymd 0 (pyInt months) none).bind fun c => dtOfYMD c base.sec with
  | .ok edate => if edate.day < 0 then .err .num else .ok edate
  | .err e => .err e
  | .crash _ => .err .num

/-- `EDATE`: the float `datetime_to_number(edate)` is cast back to a DateTime on return -/
def EDATE (start : DT) (months : Num) : Res DT :=
  (edateCore start months).bind fun edate => numberToDatetime (.flt (datetimeToNumber edate))

/-- `EOMONTH`: `edate + relativedelta(day=31)` -/
def EOMONTH (start : DT) (months : Num) : Res Rat :=
  (edateCore start months).bind fun edate =>
    (addRel edate.ymd 0 0 (some 31)).bind fun c =>
      (dtOfYMD c edate.sec).map datetimeToNumber

def upperChar (c : Char) : Char := if 'a' ≤ c ∧ c ≤ 'z' then Char.ofNat (c.toNat - 32) else c

/-- `len(list(rrule(DAILY, dtstart=a, until=b))) - 1` for two datetimes at midnight -/
def rruleDailyCount (a b : Int) : Int := (if a ≤ b then b - a + 1 else 0) - 1

/-- `datetime.replace(year=…, month=…, day=…)`: ValueError if the day does not exist -/
def replaceYMD (c : YMD) : Res DT :=
  if 1 ≤ c.d ∧ c.d ≤ daysInMonth c.y c.m then dtOfYMD c 0 else .crash .valueError

/-- `DATEDIF(start_date, end_date, unit)` -/
def DATEDIF (s e : DT) (unit : List Char) : Res Int :=
  if datetimeToNumber s > datetimeToNumber e then .err .num else
  (numberToDatetime (.int (dtInt s))).bind fun ds =>
  (numberToDatetime (.int (dtInt e))).bind fun de =>
    let a := ds.ymd
    let b := de.ymd
    let months0 := (b.y - a.y) * 12 + (b.m - a.m)
    let months := if b.d < a.d then months0 - 1 else months0
    let u := unit.map upperChar
    if u = ['Y'] then .ok (months / 12)
    else if u = ['M'] then .ok months
    else if u = ['D'] then .ok (rruleDailyCount ds.day de.day)
    else if u = ['M', 'D'] then
      (replaceYMD ⟨1900, 1, a.d⟩).bind fun x => (replaceYMD ⟨1900, 1, b.d⟩).bind fun y =>
        .ok (rruleDailyCount x.day y.day)
    else if u = ['Y', 'M'] then
      -- monthly recurrences on day 1 of 1900-<m1> … 1900-<m2>
      .ok ((if a.m ≤ b.m then b.m - a.m + 1 else 0) - 1)
    else if u = ['Y', 'D'] then
      (replaceYMD ⟨1900, a.m, a.d⟩).bind fun x => (replaceYMD ⟨1900, b.m, b.d⟩).bind fun y =>
        .ok (rruleDailyCount x.day y.day)
    else .ok 0   -- falls off the end: `None` is cast to Number(0.0)

/-- `yearfrac.d30360e(y1, m1, d1, y2, m2, d2, matu)`; a bare `Exception` when the count is negative -/
def d30360e (a b : YMD) (matu : Bool) : Res Rat :=
  let d2 : Int := if b.m = 2 ∧ b.d ≥ 28 then (if matu then b.d else 30) else (if b.d > 30 then 30 else b.d)
  let d1 : Int := if a.m = 2 ∧ a.d ≥ 28 then 30 else (if a.d > 30 then 30 else a.d)
  let diff := 360 * (b.y - a.y) + 30 * (b.m - a.m) + d2 - d1
  if diff < 0 then .crash .other else .ok ((diff : Rat) / 360)

/-- `yearfrac.act_afb` -/
def actAfb (a b : YMD) : Res Rat :=
  let jd (c : YMD) : Int := daysFromCivil c
  if a.y = b.y then
    let diff := jd b - jd a
    let denom : Rat := if Leap a.y ∧ a.m < 3 then 366 else 365
    if diff < 0 then .crash .other else .ok ((diff : Rat) / denom)
  else if a.y < b.y then
    let diffa := jd ⟨a.y, 12, 31⟩ - jd a + 1
    let denoma : Rat := if Leap a.y ∧ a.m < 3 then 366 else 365
    let diffb := jd b - jd ⟨b.y, 1, 1⟩
    let denomb : Rat := if Leap b.y ∧ b.m ≥ 3 then 366 else 365
    .ok ((diffa : Rat) / denoma + (diffb : Rat) / denomb + ((b.y - a.y - 1 : Int) : Rat))
  else .crash .other

/-- `(end_date - start_date).days` -/
def deltaDays (s e : DT) : Int := e.day - s.day + (if e.sec < s.sec then -1 else 0)

/-- `YEARFRAC(start_date, end_date, basis)` -/
def YEARFRAC (s e : DT) (basis : Num) : Res Rat :=
  if datetimeToNumber s < 1 then .err .value else
  if datetimeToNumber e < 1 then .err .value else
  let se : DT × DT := if datetimeToNumber s > datetimeToNumber e then (e, s) else (s, e)
  let b := basis.toRat
  if b = 0 then d30360e se.1.ymd se.2.ymd true
  else if b = 1 then actAfb se.1.ymd se.2.ymd
  else if b = 2 then .ok ((deltaDays se.1 se.2 : Rat) / 360)
  else if b = 3 then .ok ((deltaDays se.1 se.2 : Rat) / 365)
  else if b = 4 then d30360e se.1.ymd se.2.ymd false
  else .err .value

end XlVerif.Model.C18
