/-
  Model of xlcalculator/xlfunctions/engineering.py: statement-by-statement mirror of `to_int`,
  `handle_places`, `handle_number`, `pad_zeroes`, `conversion`, `convert_bases` and of the twelve
  registered wrappers behind `xl.validate_args`.  The tables PERMITTED_DIGITS, BIT_WIDTHS,
  BASE_NUMBERS, BOUNDS, the digit and places limits and the (origin, destination) pair of every wrapper are
  read from `Gen.C19Eng`, which the translator regenerates on every check by PROBING the registered
  functions (what the code does, not how its source spells it).

  Python values: `int` → `Int`, `float` → `Rat` (ideal reals), `str` → `List Char`.
  Python builtins that the code leans on are modelled by hand (and tied by the correspondence run):
  `int(str, base)` (`pyIntBase`), `bin/oct/hex` (`pyBaseRepr`, digits by core `Nat.toDigits`, which
  prints lower-case letters exactly like Python), `&` and `~` on unbounded two's-complement integers
  (`pyAnd`, core `~~~`), `str.zfill`, `str.upper` (ASCII), `str(int)` (`intRepr`),
  `int(float(text))` on the grammar  ws* sign? (digits+ (. digits*)? | . digits+) ws*.
-/
import XlVerif.Base
import XlVerif.Gen.C19Eng
namespace XlVerif.Model.C19
open XlVerif XlVerif.Gen.C19Eng

/-- Outcome of a piece of the module: a value, an Excel error (raised inside and caught by
    `validate_args`, or passed through), or a Python exception that escapes. -/
inductive Res (α : Type)
  | ok (a : α) | err (c : Code) | crash (k : Crash)
  deriving DecidableEq, Repr

namespace Res
def bind {α β} (r : Res α) (f : α → Res β) : Res β :=
  match r with
  | ok a => f a | err c => err c | crash k => crash k
def map {α β} (f : α → β) (r : Res α) : Res β := r.bind fun a => ok (f a)
end Res

/-- dictionary lookup (`none` = KeyError) -/
def lookup {κ υ : Type} [DecidableEq κ] (k : κ) : List (κ × υ) → Option υ
  | [] => none
  | (k', v) :: rest => if k = k' then some v else lookup k rest

-- ---------------------------------------------------------------- Python primitives

/-- `int(x)` of a Python float: truncation toward zero (ideal reals). -/
def truncRat (q : Rat) : Int := if q < 0 then -((-q).floor) else q.floor

def isDigit (c : Char) : Bool := decide ('0' ≤ c ∧ c ≤ '9')
def isSpace (c : Char) : Bool :=
  c = ' ' ∨ c = '\t' ∨ c = '\n' ∨ c = '\r' ∨ c = Char.ofNat 11 ∨ c = Char.ofNat 12

def decVal (s : List Char) : Nat := s.foldl (fun a c => a * 10 + (c.toNat - 48)) 0

/-- `float(text)` on the modelled grammar (`none` = ValueError). Exponents, `inf`, `nan`, `_` and
    non-ASCII digits are outside the modelled grammar (the harness does not generate them). -/
def pyFloatText (s : List Char) : Option Rat :=
  let s := ((s.dropWhile isSpace).reverse.dropWhile isSpace).reverse
  let (neg, body) : Bool × List Char :=
    match s with
    | '-' :: r => (true, r)
    | '+' :: r => (false, r)
    | r => (false, r)
  let ip := body.takeWhile isDigit
  let fp? : Option (List Char) :=
    match body.dropWhile isDigit with
    | [] => some []
    | '.' :: f => if f.all isDigit then some f else none
    | _ => none
  match fp? with
  | none => none
  | some fp =>
    if ip.isEmpty && fp.isEmpty then none else
      let v : Rat := (decVal (ip ++ fp) : Rat) / ((10 ^ fp.length : Nat) : Rat)
      some (if neg then -v else v)

/-- `to_int(value)` = `int(value)` through `ExcelType.__int__` (`int(float(self.value))`, a
    ValueError becomes #VALUE!; an OverflowError becomes #NUM! — with ideal reals the conversion of a
    finite number never overflows, and the huge value is then rejected by the range checks with the
    same #NUM!). -/
def toInt : S → Res Int
  | .num (.int z) => .ok z
  | .num (.flt q) => .ok (truncRat q)
  | .text s => match pyFloatText s with
    | some q => .ok (truncRat q)
    | none => .err .value
  | .bool b => .ok (if b then 1 else 0)
  | .blank => .ok 0
  | .date q => .ok (truncRat q)
  | .err _ => .crash .typeError

/-- `str(z)` of a Python int. -/
def intRepr (z : Int) : List Char :=
  if z < 0 then '-' :: Nat.toDigits 10 z.natAbs else Nat.toDigits 10 z.toNat

/-- value of one character as a digit for `int(str, base)`. -/
def charDigit (c : Char) : Option Nat :=
  if '0' ≤ c ∧ c ≤ '9' then some (c.toNat - 48)
  else if 'a' ≤ c ∧ c ≤ 'z' then some (c.toNat - 87)
  else if 'A' ≤ c ∧ c ≤ 'Z' then some (c.toNat - 55)
  else none

def intBaseStep (b : Nat) (acc : Nat) (c : Char) : Option Nat :=
  match charDigit c with
  | some d => if d < b then some (acc * b + d) else none
  | none => none

def intBaseFold (b : Nat) : List Char → Nat → Option Nat
  | [], acc => some acc
  | c :: s, acc => match intBaseStep b acc c with
    | some acc' => intBaseFold b s acc'
    | none => none

/-- `int(s, base)` for a string of alphanumeric characters (`none` = ValueError). -/
def pyIntBase (s : List Char) (b : Nat) : Option Nat :=
  if b < 2 ∨ b > 36 ∨ s.isEmpty then none else intBaseFold b s 0

/-- bits of `a` that are not in `m` (`a & ~m` for non-negative `a`, `m`). -/
def natAndNot (a m : Nat) : Nat := a - (a &&& m)

/-- Python `x & y` on unbounded two's-complement integers. -/
def pyAnd : Int → Int → Int
  | .ofNat a, .ofNat b => Int.ofNat (a &&& b)
  | .ofNat a, .negSucc m => Int.ofNat (natAndNot a m)
  | .negSucc m, .ofNat b => Int.ofNat (natAndNot b m)
  | .negSucc m, .negSucc n => .negSucc (m ||| n)

def upperChar (c : Char) : Char := if 'a' ≤ c ∧ c ≤ 'z' then Char.ofNat (c.toNat - 32) else c

/-- `bin(v)`, `oct(v)`, `hex(v)` — the destination *is* the builtin; `"dec"(v)` is a TypeError. -/
def pyBaseRepr (d : EBase) (v : Int) : Res (List Char) :=
  let signed (letter : Char) (b : Nat) : List Char :=
    if v < 0 then '-' :: '0' :: letter :: Nat.toDigits b v.natAbs
    else '0' :: letter :: Nat.toDigits b v.toNat
  match d with
  | .bin => .ok (signed 'b' 2)
  | .oct => .ok (signed 'o' 8)
  | .hex => .ok (signed 'x' 16)
  | .dec => .crash .typeError

/-- `str.zfill(width)`. -/
def zfill (s : List Char) (width : Nat) : List Char :=
  if s.length ≥ width then s else
    let fill := List.replicate (width - s.length) '0'
    match s with
    | c :: r => if c = '+' ∨ c = '-' then c :: (fill ++ r) else fill ++ s
    | [] => fill

/-- `1 << k` (`none` = ValueError: negative shift count). -/
def shl1 (k : Int) : Option Nat := if k < 0 then none else some (2 ^ k.toNat)

-- ---------------------------------------------------------------- the module

/-- `handle_places`; the argument is `none` for `UNUSED`. -/
def handlePlaces : Option S → Res (Option Int)
  | none => .ok none
  | some (.bool _) => .err .value
  | some v => (toInt v).bind fun p => if placesMin ≤ p ∧ p ≤ placesMax then .ok (some p) else .err .num

/-- what `handle_number` returns: an `int` (origin `dec`) or a `str`. -/
inductive NumArg | i (z : Int) | s (str : List Char)
  deriving DecidableEq, Repr

/-- the first half of `handle_number` for an origin other than `dec`: the text of the argument
    (`as_str`). -/
def asStr (number : S) : Res (List Char) :=
  match number with
  | .blank => .ok ['0']
  | .num (.int z) => .ok (intRepr z)
  | .num (.flt q) => if q.isInt then .ok (intRepr (truncRat q)) else .err .num
  | .text s => .ok (if s.isEmpty then ['0'] else s)
  | _ => .crash .other          -- a DateTime: `as_str` is unbound (UnboundLocalError)

/-- the second half: at most ten characters, all of them permitted digits of the origin. -/
def checkDigits (s : List Char) (origin : EBase) : Res NumArg :=
  match lookup origin maxDigits with
  | none => .crash .keyError
  | some most =>
  if s.length > most then .err .num else
    match lookup origin permittedDigits with
    | none => .crash .keyError
    | some perm => if s.all (fun c => decide (c ∈ perm)) then .ok (.s s) else .err .num

def handleNumber (number : S) (origin : EBase) : Res NumArg :=
  match number with
  | .bool _ => .err .value
  | _ =>
    if origin = .dec then (toInt number).map .i
    else (asStr number).bind fun s => checkDigits s origin

def padZeroes (string : List Char) (wasNegative : Bool) (places : Option Int) : Res (List Char) :=
  match places with
  | none => .ok string
  | some p =>
    let desired : Int := if wasNegative && negativeKeepsDigits then string.length else p
    if desired < string.length then .err .num else .ok (zfill string desired.toNat)

/-- the window of a conversion: the smallest and the largest integer it converts
    (`BOUNDS[frozenset([origin, destination])]`, as observed on the running functions). -/
def lookupBound (origin destination : EBase) : Option (Int × Int) :=
  (bounds.find? fun r => r.1 = origin ∧ r.2.1 = destination).map fun r => r.2.2

/-- the signed value of a digit string read in the origin base (the `else` branch of `conversion`). -/
def fromDigits (str : List Char) (origin : EBase) : Res Int :=
  match lookup origin baseNumbers with
  | none => .crash .keyError
  | some b =>
    match pyIntBase str b with
    | none => .crash .valueError
    | some asInt =>
      match lookup origin signWidths with
      | none => .crash .keyError
      | some w =>
        match shl1 (w - 1) with
        | none => .crash .valueError
        | some mask => .ok (pyAnd (Int.ofNat asInt) (~~~(Int.ofNat mask)) - pyAnd (Int.ofNat asInt) (Int.ofNat mask))

/-- the tail of `conversion` once `value` is known and inside the bounds, destination not `dec`. -/
def renderDigits (value : Int) (destination : EBase) (places : Option Int) : Res (List Char) :=
  let wasNegative := decide (value < 0)
  let wrapped : Res Int :=
    if wasNegative then
      match lookup destination bitWidths with
      | none => .crash .keyError
      | some w => match shl1 w with
        | none => .crash .valueError
        | some m => .ok (value + m)
    else .ok value
  wrapped.bind fun v =>
    (pyBaseRepr destination v).bind fun r =>
      padZeroes (if upperCase then (r.drop 2).map upperChar else r.drop 2) wasNegative places

/-- the head of `conversion`: the integer the validated argument denotes. -/
def valueOfArg (number : NumArg) (origin : EBase) : Res Int :=
  if origin = .dec then
    match number with
    | .i z => .ok z
    | .s _ => .crash .typeError
  else
    match number with
    | .i _ => .crash .typeError
    | .s str => fromDigits str origin

def conversion (number : NumArg) (origin destination : EBase) (places : Option Int) : Res S :=
  (valueOfArg number origin).bind fun value =>
    match lookupBound origin destination with
    | none => .crash .keyError
    | some (least, most) =>
      if ¬ (least ≤ value ∧ value ≤ most) then .err .num
      else if destination = .dec then .ok (.num (.int value))
      else (renderDigits value destination places).map .text

/-- `convert_bases`; `places = none` is Python's `None` (the `…2DEC` wrappers), `some none` is `UNUSED`. -/
def convertBases (number : S) (origin destination : EBase) (places : Option (Option S)) : Res S :=
  (match places with
   | none => Res.ok none
   | some pl => handlePlaces pl).bind fun p =>
    (handleNumber number origin).bind fun n =>
      conversion n origin destination p

/-- A registered wrapper behind `xl.validate_args`, called as `xl.FUNCTIONS[name](number[, places])`:
    `sig.bind` (TypeError for an argument the wrapper does not take), an `ExcelError` argument is
    returned at once, `XlAnything` arguments are kept as they are, the result is cast to
    `XlText` / `XlNumber`. -/
def argError : S → Option Code
  | .err c => some c
  | _ => none

def call (name : List Char) (number : S) (places : Option S) : Res S :=
  match lookup name wrappers with
  | none => .crash .keyError
  | some (origin, destination, takesPlaces) =>
    if ¬ takesPlaces ∧ places.isSome then .crash .typeError else
      match argError number with
      | some c => .err c
      | none =>
        match places.bind argError with
        | some c => .err c
        | none => convertBases number origin destination (if takesPlaces then some places else none)

def DEC2BIN := call ['D', 'E', 'C', '2', 'B', 'I', 'N']
def DEC2OCT := call ['D', 'E', 'C', '2', 'O', 'C', 'T']
def DEC2HEX := call ['D', 'E', 'C', '2', 'H', 'E', 'X']
def BIN2DEC (number : S) := call ['B', 'I', 'N', '2', 'D', 'E', 'C'] number none
def BIN2OCT := call ['B', 'I', 'N', '2', 'O', 'C', 'T']
def BIN2HEX := call ['B', 'I', 'N', '2', 'H', 'E', 'X']
def OCT2DEC (number : S) := call ['O', 'C', 'T', '2', 'D', 'E', 'C'] number none
def OCT2BIN := call ['O', 'C', 'T', '2', 'B', 'I', 'N']
def OCT2HEX := call ['O', 'C', 'T', '2', 'H', 'E', 'X']
def HEX2DEC (number : S) := call ['H', 'E', 'X', '2', 'D', 'E', 'C'] number none
def HEX2BIN := call ['H', 'E', 'X', '2', 'B', 'I', 'N']
def HEX2OCT := call ['H', 'E', 'X', '2', 'O', 'C', 'T']

end XlVerif.Model.C19
