/-
  Model of xlcalculator/xlfunctions/financial.py (bodies after `validate_args` has cast the arguments),
  statement by statement, over `Rat` ("ideal reals": a Python float is the exact rational it would be
  without rounding, DESIGN.md §3.1).

  * NPV, SLN, `_xnpv`, XNPV and the argument handling of IRR and XIRR are modelled as written.
  * PMT and PV call `numpy_financial.pmt` / `numpy_financial.pv`; `npfPmt` / `npfPv` are hand models of
    the closed forms those library functions evaluate (both timings, future value, the `rate == 0`
    branch of `np.where`).  `nper` is a natural number here (a non-integral `nper` needs a real power).
  * `x ** t` with a fractional exponent (the XNPV discount weights) is not rational: it is the
    *uninterpreted* parameter `w : Rat → Rat → Rat` (`w b t` stands for `b ** t`).
  * the root finders (`numpy_financial.irr` = `numpy.roots`, `scipy.optimize.newton`) are
    uninterpreted parameters `solve`: IRR and XIRR return the solver's output.
-/
import XlVerif.Base
import XlVerif.Gen.Misc
namespace XlVerif.Model.C20
open XlVerif

/-- Outcome of a financial function body. -/
inductive Res
  | ok (q : Rat)          -- a finite float
  | err (c : Code)        -- an `ExcelError` raised in the body (returned as a value by `validate_args`)
  | crash (k : Crash)     -- a Python exception that escapes
  | posInf                -- `float('inf')`
  | nonfinite             -- numpy's silent inf/nan after a division by zero
  deriving DecidableEq, Repr, Inhabited

/-- Python `sum(list)`: left fold starting at `0`. -/
def pySum (l : List Rat) : Rat := l.foldl (· + ·) 0

/-- `int(x)` of a number: truncation toward zero. -/
def pyInt : Num → Int
  | .int z => z
  | .flt q => if q < 0 then -((-q).floor) else q.floor

-- ------------------------------------------------------------------ NPV

/-- `[val * (1 + rate) ** -(i + 1) for (i, val) in enumerate(cashflow)]`; `i` = index of the head. -/
def npvTerms (rate : Rat) : List Rat → Nat → List Rat
  | [], _ => []
  | v :: vs, i => v * ((1 + rate) ^ (i + 1))⁻¹ :: npvTerms rate vs (i + 1)

/-- `numpy_financial.npv(rate, values)` = `(values / (1+rate)**arange(len(values))).sum()`
    (only reached when `COMPATIBILITY == 'PYTHON'`). -/
def npfNpvTerms (rate : Rat) : List Rat → Nat → List Rat
  | [], _ => []
  | v :: vs, i => v / (1 + rate) ^ i :: npfNpvTerms rate vs (i + 1)

def NPV (rate : Rat) (values : List Rat) : Res :=
  if values.length = 0 then .err .value                       -- `raise ValueExcelError('value1 is required')`
  else if Gen.compatibility = "PYTHON".toList then
    (if 1 + rate = 0 then .nonfinite else .ok (pySum (npfNpvTerms rate values 0)))
  else if 1 + rate = 0 then .crash .zeroDivision              -- `0.0 ** -1`
  else .ok (pySum (npvTerms rate values 0))

-- ------------------------------------------------------------------ PMT / PV (numpy_financial closed forms)

/-- `numpy_financial.pmt(rate, nper, pv, fv, when)`, `when` already converted to 0 / 1. -/
def npfPmt (rate : Rat) (nper : Nat) (pv fv when : Rat) : Res :=
  let temp := (1 + rate) ^ nper
  let maskedRate := if rate = 0 then 1 else rate
  let fact := if rate = 0 then (nper : Rat) else (1 + maskedRate * when) * (temp - 1) / maskedRate
  if fact = 0 then .nonfinite else .ok (-(fv + pv * temp) / fact)

/-- `numpy_financial.pv(rate, nper, pmt, fv, when)`, `when` already converted to 0 / 1. -/
def npfPv (rate : Rat) (nper : Nat) (pmt fv when : Rat) : Res :=
  let temp := (1 + rate) ^ nper
  let fact := if rate = 0 then (nper : Rat) else (1 + rate * when) * (temp - 1) / rate
  if temp = 0 then .nonfinite else .ok (-(fv + pmt * fact) / temp)

/-- PMT: with `COMPATIBILITY == 'EXCEL'` (the shipped setting) `type` is not used and the payment is
    always the end-of-period one; with `'PYTHON'` any non-zero `type` means "begin". -/
def PMT (rate : Rat) (nper : Nat) (pv fv type : Rat) : Res :=
  if Gen.compatibility = "PYTHON".toList then
    npfPmt rate nper pv fv (if type ≠ 0 then 1 else 0)
  else npfPmt rate nper pv fv 0

/-- PV: `when=int(type)`; `_convert_when` knows the keys 0 and 1 only, any other integer ends in
    `[_when_to_num[x] for x in when]` → `TypeError: 'int' object is not iterable`. -/
def PV (rate : Rat) (nper : Nat) (pmt fv : Rat) (type : Num) : Res :=
  let when := pyInt type
  if when = 0 ∨ when = 1 then npfPv rate nper pmt fv when else .crash .typeError

-- ------------------------------------------------------------------ SLN

/-- `(cost - salvage) / life` on `Number`s: `ExcelType.__truediv__` raises `DivZeroExcelError`. -/
def SLN (cost salvage life : Rat) : Res :=
  if life = 0 then .err .div0 else .ok ((cost - salvage) / life)

-- ------------------------------------------------------------------ XNPV

/-- the list summed by `_xnpv`; `d0` = `dates[0]`, `w b t` = `b ** t`. -/
def xnpvTerms (w : Rat → Rat → Rat) (rate d0 : Rat) : List Rat → List Rat → List Rat
  | v :: vs, d :: ds => v / w (1 + rate) ((d - d0) / 365) :: xnpvTerms w rate d0 vs ds
  | _, _ => []                                                 -- `zip` stops at the shorter list

def _xnpv (w : Rat → Rat → Rat) (rate : Rat) (values dates : List Rat) : Res :=
  if rate ≤ -1 then .posInf else
  match dates with
  | [] => .ok 0                                                -- empty `zip`: `sum([])`
  | d0 :: _ => .ok (pySum (xnpvTerms w rate d0 values dates))

/-- XNPV after both ranges were flattened (items that are not numbers dropped). -/
def XNPV (w : Rat → Rat → Rat) (rate : Rat) (values dates : List Rat) : Res :=
  if values.length ≠ dates.length then .err .num else _xnpv w rate values dates

-- ------------------------------------------------------------------ IRR / XIRR (argument handling)

/-- IRR: `npf.irr(xl.flatten(values))`; `guess` is not used.  `none` = numpy's `nan` (no real root). -/
def IRR (solve : List Rat → Option Rat) (values : List Rat) : Res :=
  match solve values with
  | some r => .ok r
  | none => .nonfinite

/-- insertion into a list sorted by date (`series.sort_values('dates')`; ties keep their order). -/
def insertByDate (x : Rat × Rat) : List (Rat × Rat) → List (Rat × Rat)
  | [] => [x]
  | y :: ys => if x.2 < y.2 then x :: y :: ys else y :: insertByDate x ys

/-- the (value, date) rows XIRR hands to the solver: rows with a zero cash flow dropped, sorted by date. -/
def xirrSeries (values dates : List Rat) : List (Rat × Rat) :=
  ((values.zip dates).filter fun p => p.1 ≠ 0).foldl (fun acc x => insertByDate x acc) []

/-- the acceptance test `_xirr` applies to the solver's result. -/
def xirrAccepts (w : Rat → Rat → Rat) (rate : Rat) (values dates : List Rat) : Bool :=
  match _xnpv w rate values dates, _xnpv w rate (values.map fun v => if v < 0 then -v else v) dates with
  | .ok residual, .ok gross =>
      !(rate ≤ -1) && decide ((if residual < 0 then -residual else residual) ≤ gross / 1000000)
  | _, _ => false

/-- XIRR: `solve f guess` stands for `newton(f, guess, maxiter=100)`, `none` = it raised
    `RuntimeError` (no convergence). -/
def XIRR (w : Rat → Rat → Rat) (solve : (Rat → Res) → Rat → Option Rat)
    (values dates : List Rat) (guess : Rat) : Res :=
  if values.length ≠ dates.length then .err .num else
  let s := xirrSeries values dates
  let vs := s.map (·.1)
  let ds := s.map (·.2)
  match solve (fun r => _xnpv w r vs ds) guess with
  | none => .err .num
  | some rate => if xirrAccepts w rate vs ds then .ok rate else .err .num

end XlVerif.Model.C20
