/-
  XlVerif.Model.Evaluator — model of `evaluator.Evaluator` / `EvaluatorContext` and of the evaluation
  of reference nodes (`ast_nodes.RangeNode.eval`), generic in the semantics of functions and operators.
  Shared by C04, C05, C06, C10, C13 (C03 refines the address layer).

  * A formula is an `Fx` tree whose references are already full addresses (`Sheet!A1`); C03 is about
    the text → address step.
  * `Sem` gives the meaning of strict functions/operators (`app`) — arbitrary, possibly raising — and
    the truth value used by the lazy ones.
  * `evalCell` is ONE definition generic in the state it threads (`σ`): instantiated with the mutable
    model it is `Evaluator.evaluate` with its write-backs; instantiated with `Unit` over an immutable
    model it is the reference ("fresh") evaluation.  Cross-cell recursion is bounded by `fuel`
    (CPython: the recursion limit → RecursionError, a RuntimeError that is re-raised unchanged).
-/
import XlVerif.Base
import XlVerif.Gen.OpFuncs
namespace XlVerif.Model.Evaluator
open XlVerif

abbrev Addr := List Char

/-- formula trees after reference resolution -/
inductive Fx
  | lit (v : V)                          -- number / text / logical / error literal
  | ref (a : Addr)                       -- reference to one cell
  | rng (key : Addr)                     -- reference to a range (a key of `model.ranges`)
  | app (f : Nat) (args : List Fx)       -- operator or strict function: all arguments are evaluated
  | iff (c t e : Fx)                     -- IF: only the selected branch is evaluated
  | sc (isAnd : Bool) (args : List Fx)   -- AND / OR: left to right, each evaluated argument (scalar or range)
                                         -- is flattened; stops at the deciding argument
  | fail (reprLen : Nat) (args : List Fx) -- a call of an unknown function: `namespace[name]` raises KeyError
                                         -- before any argument is evaluated
  deriving Repr, Inhabited

/-- Python exceptions escaping `evaluate` (all are RuntimeError or subclasses) with message length -/
inductive ExcKind | cycle | problem | recursion | runtime
  deriving DecidableEq, Repr

inductive Res
  | val (v : V)
  | exc (k : ExcKind) (msgLen : Nat)
  deriving DecidableEq, Repr, Inhabited

/-- outcome of a function body -/
inductive AppR
  | val (v : V)
  | raiseRuntime (msgLen : Nat)          -- a RuntimeError raised by the body: re-raised unchanged
  | raiseOther (reprLen : Nat)           -- any other exception: wrapped once in "Problem evaluating cell…"
  deriving DecidableEq, Repr

structure Sem where
  app : Nat → List V → AppR
  /-- truth value of a condition: `none` = the value is an Excel error (returned as the result).
      AND / OR apply it to the ITEMS of an argument only (scalars, `argVerdict`); IF to the whole value. -/
  truth : V → Option Bool

structure Cell where
  value : V                     -- constant, cached or last computed value
  formula : Option Fx
  formulaLen : Nat := 0         -- length of the formula text (only used in failure messages)
  deriving Repr, Inhabited

structure Range where
  cells : List (List Addr)      -- row-major matrix of member addresses
  value : Option V := none      -- last evaluated array (`XLRange.value`)
  deriving Repr, Inhabited

/-- `Model`: dictionaries as association lists in insertion order -/
structure MState where
  cells : List (Addr × Cell)
  ranges : List (Addr × Range)
  names : List (List Char × Addr)     -- defined names bound to a cell
  deriving Repr, Inhabited

def assoc {β} (k : Addr) : List (Addr × β) → Option β
  | [] => none
  | (k', v) :: rest => if k = k' then some v else assoc k rest

def assocSet {β} (k : Addr) (v : β) : List (Addr × β) → List (Addr × β)
  | [] => [(k, v)]
  | (k', v') :: rest => if k = k' then (k, v) :: rest else (k', v') :: assocSet k v rest

def assocUpdate {β} (k : Addr) (f : β → β) : List (Addr × β) → List (Addr × β)
  | [] => []
  | (k', v') :: rest => if k = k' then (k, f v') :: rest else (k', v') :: assocUpdate k f rest

def MState.cell? (m : MState) (a : Addr) : Option Cell := assoc a m.cells
def MState.range? (m : MState) (a : Addr) : Option Range := assoc a m.ranges

/-- `resolve_names` for names bound to a cell -/
def MState.resolve (m : MState) (a : Addr) : Addr :=
  match assoc a m.names with | some t => t | none => a

/-- `Model.set_cell_value(address, value)` (by address or by defined name) -/
def MState.setCellValue (m : MState) (a : Addr) (v : V) : MState :=
  let a := m.resolve a
  match m.cell? a with
  | some _ => { m with cells := assocUpdate a (fun c => { c with value := v }) m.cells }
  | none => { m with cells := m.cells ++ [(a, { value := v, formula := none })] }

/-- `Model.get_cell_value(address)`: 0 for an address that is not in the model -/
def MState.getCellValue (m : MState) (a : Addr) : V :=
  match m.cell? (m.resolve a) with
  | some c => c.value
  | none => .s (.num (.int 0))

def isEmptyValue : V → Bool
  | .s (.text []) => true
  | .s .blank => true
  | _ => false

/-! ### the verdict of AND / OR on ONE evaluated argument (`logical.py`, the body of `for logical in logicals:`)

    items = xl.flatten([logical()])
    for item in items:                       -- (1) error scan over ALL items of this argument
        if isinstance(item, ExcelError): raise item
    for item in items:                       -- (2) blanks skipped, the first deciding item stops AND / OR
        if Blank.is_blank(item): continue
        if not bool(item): return False      -- AND   (OR: `if bool(item): return True`)
-/

/-- `xl.flatten([val])`: a scalar is one item, an array (a range argument) contributes its cells row-major -/
def argItems : V → List S
  | .s x => [x]
  | .arr rows => rows.flatten

/-- what one evaluated argument means for AND / OR -/
inductive Verdict
  | neutral                 -- go on with the next argument
  | decided (b : Bool)      -- AND / OR returns `b`; the remaining arguments are not evaluated
  | error (v : V)           -- an Excel error among the items: it is the result
  deriving DecidableEq, Repr, Inhabited

/-- loop (1): the leftmost item that is an Excel error (`truth (.s x) = none`) -/
def firstErrorItem (truth : V → Option Bool) : List S → Option S
  | [] => none
  | x :: rest =>
    match truth (.s x) with
    | none => some x
    | some _ => firstErrorItem truth rest

/-- loop (2): blank items are skipped; the truth value of the first item that differs from the neutral
    element (`isAnd`: TRUE for AND, FALSE for OR) -/
def firstDeciding (truth : V → Option Bool) (isAnd : Bool) : List S → Option Bool
  | [] => none
  | x :: rest =>
    if isEmptyValue (.s x) then firstDeciding truth isAnd rest else
    match truth (.s x) with
    | some b => if b = isAnd then firstDeciding truth isAnd rest else some b
    | none => firstDeciding truth isAnd rest      -- not reached after loop (1)

def itemsVerdict (truth : V → Option Bool) (isAnd : Bool) (xs : List S) : Verdict :=
  match firstErrorItem truth xs with
  | some x => .error (.s x)
  | none =>
    match firstDeciding truth isAnd xs with
    | some b => .decided b
    | none => .neutral

/-- sanity: on ONE item the verdict is "error, else blank ⇒ neutral, else its truth value against `isAnd`" -/
theorem itemsVerdict_single (truth : V → Option Bool) (isAnd : Bool) (x : S) :
    itemsVerdict truth isAnd [x] =
      (match truth (.s x) with
       | none => .error (.s x)
       | some b => if isEmptyValue (.s x) then .neutral else if b = isAnd then .neutral else .decided b) := by
  unfold itemsVerdict
  cases h : truth (.s x) with
  | none => simp [firstErrorItem, h]
  | some b =>
    by_cases he : isEmptyValue (.s x) = true
    · simp [firstErrorItem, firstDeciding, h, he]
    · by_cases hb : b = isAnd <;> simp [firstErrorItem, firstDeciding, h, he, hb]

/-- the verdict of AND (`isAnd`) / OR on the evaluated argument `v` -/
def argVerdict (sem : Sem) (isAnd : Bool) (v : V) : Verdict := itemsVerdict sem.truth isAnd (argItems v)

/-- for a scalar argument: an error is the result, a blank is skipped, otherwise the truth value decides -/
theorem argVerdict_scalar (sem : Sem) (isAnd : Bool) (x : S) :
    argVerdict sem isAnd (.s x) =
      (match sem.truth (.s x) with
       | none => .error (.s x)
       | some b => if isEmptyValue (.s x) then .neutral else if b = isAnd then .neutral else .decided b) :=
  itemsVerdict_single sem.truth isAnd x

/-- … which is the whole-value test the model used before arguments were flattened ("blank ⇒ skip, else
    error ⇒ result, else truth value"), for every semantics in which a blank is not an error -/
theorem argVerdict_scalar_legacy (sem : Sem) (isAnd : Bool) (x : S)
    (hblank : isEmptyValue (.s x) = true → sem.truth (.s x) ≠ none) :
    argVerdict sem isAnd (.s x) =
      (if isEmptyValue (.s x) then .neutral else
       match sem.truth (.s x) with
       | none => .error (.s x)
       | some b => if b = isAnd then .neutral else .decided b) := by
  rw [argVerdict_scalar]
  by_cases he : isEmptyValue (.s x) = true
  · cases h : sem.truth (.s x) with
    | none => exact absurd h (hblank he)
    | some b => simp [he]
  · cases h : sem.truth (.s x) <;> simp [he]

/-- how the evaluator reads and writes the model it runs on; `σ` is the threaded state -/
structure Store (σ : Type) where
  cell? : σ → Addr → Option Cell
  range? : σ → Addr → Option Range
  resolve : σ → Addr → Addr
  writeCell : σ → Addr → V → σ        -- `cell.value = value`
  writeRange : σ → Addr → V → σ       -- `context.ranges[addr].value = data`

/-- the mutable model -/
def mutStore : Store MState where
  cell? := MState.cell?
  range? := MState.range?
  resolve := MState.resolve
  writeCell := fun m a v => { m with cells := assocUpdate a (fun c => { c with value := v }) m.cells }
  writeRange := fun m a v => { m with ranges := assocUpdate a (fun r => { r with value := some v }) m.ranges }

/-- an immutable model: write-backs are dropped -/
def pureStore (m : MState) : Store Unit where
  cell? := fun _ a => m.cell? a
  range? := fun _ a => m.range? a
  resolve := fun _ a => m.resolve a
  writeCell := fun _ _ _ => ()
  writeRange := fun _ _ _ => ()

/-- evaluation state inside one `evaluate` call tree -/
structure Ctx (σ : Type) where
  st : σ
  evaluating : List Addr               -- `Evaluator._evaluating`, innermost first
  memo : List (Addr × V)               -- `EvaluatorContext._values` of the current context
  trace : List Addr := []              -- every cell whose `evaluate` ran (observable for laziness), in order

def sumLens (l : List Addr) : Nat := l.foldl (fun n a => n + a.length + 3) 0

section
variable {σ : Type} (S : Store σ) (sem : Sem)

/-- `context.eval_cell(addr)` given the cross-cell evaluator `ce` -/
def evalRef (ce : Ctx σ → Addr → Ctx σ × Res) (c : Ctx σ) (a : Addr) : Ctx σ × Res :=
  match assoc a c.memo with
  | some v => (c, .val v)
  | none =>
    -- a fresh context (empty memo) for the referenced cell; ours is restored afterwards
    let (c', r) := ce { c with memo := [] } a
    match r with
    | .val v => ({ c' with memo := c.memo ++ [(a, v)] }, r)
    | e => ({ c' with memo := c.memo }, e)

/-- the matrix walk of `RangeNode.eval` with the `MAX_EMPTY` counters -/
structure Walk where
  emptyCol : Nat := 0
  emptyRow : Nat := 0
  rows : List (List V) := []        -- `range_cells` (rows in order, cells in order)

def evalRow (ce : Ctx σ → Addr → Ctx σ × Res) :
    Ctx σ → List Addr → Nat → List V → Ctx σ × (Except Res (Nat × List V))
  | c, [], ec, acc => (c, .ok (ec, acc))
  | c, a :: rest, ec, acc =>
    match evalRef ce c a with
    | (c', .val v) =>
      if isEmptyValue v then
        let ec' := ec + 1
        if ec' > Gen.maxEmpty then (c', .ok (ec', acc))         -- `break` (the cell is not appended)
        else evalRow ce c' rest ec' (acc ++ [v])
      else evalRow ce c' rest 0 (acc ++ [v])
    | (c', e) => (c', .error e)

def evalRows (ce : Ctx σ → Addr → Ctx σ × Res) :
    Ctx σ → List (List Addr) → Walk → Ctx σ × (Except Res Walk)
  | c, [], w => (c, .ok w)
  | c, row :: rest, w =>
    match evalRow ce c row w.emptyCol [] with
    | (c', .error e) => (c', .error e)
    | (c', .ok (ec, cells)) =>
      if cells.isEmpty then
        let er := w.emptyRow + 1
        if er > Gen.maxEmpty then (c', .ok { w with emptyCol := ec, emptyRow := er })   -- `break`
        else evalRows ce c' rest { emptyCol := ec, emptyRow := er, rows := w.rows ++ [cells] }
      else evalRows ce c' rest { emptyCol := ec, emptyRow := 0, rows := w.rows ++ [cells] }

def toArray (rows : List (List V)) : V :=
  .arr (rows.map fun r => r.map fun v => match v with | .s x => x | .arr _ => .err .value)

mutual
/-- `node.eval(context)` -/
def evalFx (ce : Ctx σ → Addr → Ctx σ × Res) : Ctx σ → Fx → Ctx σ × Res
  | c, .lit v => (c, .val v)
  | c, .ref a => evalRef ce c a
  | c, .rng key =>
    (match S.range? c.st key with
     | some r =>
       (match evalRows ce c r.cells {} with
        | (c', .ok w) =>
          let data := toArray w.rows
          ({ c' with st := S.writeRange c'.st key data }, .val data)
        | (c', .error e) => (c', e))
     | none => evalRef ce c key)
  | c, .app f args =>
    (match evalArgs ce c args with
     | (c', .ok vs) =>
       (match sem.app f vs with
        | .val v => (c', .val v)
        | .raiseRuntime n => (c', .exc .runtime n)
        | .raiseOther n => (c', .exc .problem n))     -- wrapped by `evaluate` (length fixed up there)
     | (c', .error e) => (c', e))
  | c, .iff cond t e =>
    (match evalFx ce c cond with
     | (c', .val v) =>
       (match sem.truth v with
        | none => (c', .val v)
        | some true => evalFx ce c' t
        | some false => evalFx ce c' e)
     | r => r)
  | c, .sc isAnd args => evalSc ce c isAnd args
  | c, .fail n _ => (c, .exc .problem n)

def evalArgs (ce : Ctx σ → Addr → Ctx σ × Res) : Ctx σ → List Fx → Ctx σ × (Except Res (List V))
  | c, [] => (c, .ok [])
  | c, a :: rest =>
    (match evalFx ce c a with
     | (c', .val v) =>
       (match evalArgs ce c' rest with
        | (c'', .ok vs) => (c'', .ok (v :: vs))
        | (c'', .error e) => (c'', .error e))
     | (c', e) => (c', .error e))

/-- AND / OR: the arguments are evaluated left to right; each evaluated argument is flattened and judged
    (`argVerdict`: an error item anywhere in it is the result; blanks are skipped; the first deciding item
    stops AND / OR) — the arguments after a deciding / erroneous one are NOT evaluated -/
def evalSc (ce : Ctx σ → Addr → Ctx σ × Res) : Ctx σ → Bool → List Fx → Ctx σ × Res
  | c, isAnd, [] => (c, .val (.s (.bool isAnd)))
  | c, isAnd, a :: rest =>
    (match evalFx ce c a with
     | (c', .val v) =>
       (match argVerdict sem isAnd v with
        | .neutral => evalSc ce c' isAnd rest
        | .decided b => (c', .val (.s (.bool b)))
        | .error e => (c', .val e))
     | r => r)
end

/-- `Evaluator.evaluate(addr)` with the cross-cell recursion bounded by `fuel` -/
def evalCell : Nat → Ctx σ → Addr → Ctx σ × Res
  | 0, c, _ => (c, .exc .recursion 0)
  | fuel + 1, c, a =>
    let a := S.resolve c.st a
    match S.cell? c.st a with
    | none => (c, .val (.s .blank))
    | some cell =>
      match cell.formula with
      | none => (c, .val cell.value)
      | some f =>
        if c.evaluating.contains a then
          (c, .exc .cycle (20 + a.length + sumLens c.evaluating))
        else
          let c1 := { c with evaluating := a :: c.evaluating, trace := c.trace ++ [a] }
          let (c2, r) := evalFx S sem (evalCell fuel) c1 f
          let c3 := { c2 with evaluating := c.evaluating }
          match r with
          | .val v => ({ c3 with st := S.writeCell c3.st a v }, .val v)
          | .exc .problem n =>
            -- `raise RuntimeError(f"Problem evaluating cell {addr} formula {formula}: {repr(err)}")`
            (c3, .exc .runtime (35 + a.length + cell.formulaLen + n))
          | e => (c3, e)
end

/-- `Evaluator(model).evaluate(addr)` on the mutable model; fuel = CPython's recursion budget -/
def evaluate (sem : Sem) (fuel : Nat) (m : MState) (a : Addr) : MState × Res × List Addr :=
  let (c, r) := evalCell mutStore sem fuel { st := m, evaluating := [], memo := [] } a
  (c.st, r, c.trace)

/-- the reference evaluation: a pure function of the model's *inputs* -/
def fresh (sem : Sem) (fuel : Nat) (m : MState) (a : Addr) : Res :=
  (evalCell (pureStore m) sem fuel { st := (), evaluating := [], memo := [] } a).2

/-- the inputs of a model: stored values of formula cells and cached range arrays erased -/
def erase (m : MState) : MState :=
  { m with
    cells := m.cells.map fun (a, c) => (a, if c.formula.isSome then { c with value := .s .blank } else c),
    ranges := m.ranges.map fun (a, r) => (a, { r with value := none }) }

/-- number of formula cells (an upper bound on the nesting depth once cycles are cut) -/
def formulaCount (m : MState) : Nat := (m.cells.filter fun (_, c) => c.formula.isSome).length

end XlVerif.Model.Evaluator
