/-
  XlVerif.Model.Parser — model of `parser.FormulaParser` (xlcalculator/parser.py):
  `shunting_yard` (token insertion for call parentheses, defined-name substitution, the operator loop
  driven by the generated `Gen.operators` table, `were_values`/`arg_count`) and `build_ast`.
  Shared by C01, C02.

  Not modelled: the `':'` re-assembly pass (OFFSET/INDEX pointer expressions).  `needsReassembly`
  recognises the formulas that enter it; for them the model answers `unsupported`.
-/
import XlVerif.Model.Tokenizer
import XlVerif.Gen.Operators
namespace XlVerif.Model.Parser
open XlVerif XlVerif.Model.Tokenizer

inductive PErr
  | lex (e : Tokenizer.Err)
  | valueError | syntaxError | indexError | keyError
  | unsupported
  deriving DecidableEq, Repr

/-- the parse tree: `OperandNode`/`RangeNode` (by token subtype), `OperatorNode`, `FunctionNode` -/
inductive Ast
  | operand (t : Tok)
  | unop (t : Tok) (right : Ast)
  | binop (t : Tok) (left right : Ast)
  | func (t : Tok) (args : List Ast)
  deriving Repr, Inhabited

/-- RPN items produced by `shunting_yard` (`create_node`; `num_args` for functions) -/
inductive Node
  | operand (t : Tok)
  | operator (t : Tok)
  | func (t : Tok) (numArgs : Nat)
  deriving Repr, Inhabited

/-- step A: insert tokens for '(' and ')' of calls, set the text of sub-expression parentheses,
    substitute defined names -/
def prepare (names : List (List Char × List Char)) : List Tok → List Tok
  | [] => []
  | t :: rest =>
    if t.t = .function && t.st = .start then
      { t with st := .none } :: tok ['('] .arglist .start :: prepare names rest
    else if t.t = .function && t.st = .stop then
      tok [')'] .arglist .stop :: prepare names rest
    else if t.t = .subexpr && t.st = .start then { t with v := .s ['('] } :: prepare names rest
    else if t.t = .subexpr && t.st = .stop then { t with v := .s [')'] } :: prepare names rest
    else if t.t = .operand && t.st = .range then
      (match t.v with
       | .s v => (match Value.lookup v names with
                  | some target => { t with v := .s target } :: prepare names rest
                  | none => t :: prepare names rest)
       | _ => t :: prepare names rest)
    else t :: prepare names rest

def isInfix (pat s : List Char) : Bool :=
  match s with
  | [] => pat.isEmpty
  | _ :: tl => pat.isPrefixOf s || isInfix pat tl

/-- does the `':'` re-assembly pass touch this token list? -/
def needsReassembly (ts : List Tok) : Bool :=
  ts.any fun t => t.st ≠ .text &&
    (match t.v with
     | .s v => (match v with | ':' :: _ => true | _ => false) ||
               isInfix ":OFFSET".toList v || isInfix ":INDEX".toList v
     | .f _ => false)

/-- `OPERATORS[...]`: precedence and right-associativity of an operator token -/
def opInfo (t : Tok) : Option (Nat × Bool) :=
  let key : Option (List Char) :=
    if t.t = .opPre && t.v = .s ['-'] then some ['u', '-']
    else match t.v with | .s v => some v | .f _ => none
  match key with
  | none => none
  | some k => (Gen.operators.find? fun r => r.key = k).map fun r => (r.prec, r.rightAssoc)

def isOperator (t : Tok) : Bool := t.t = .opPre || t.t = .opIn || t.t = .opPost

def createNode (t : Tok) (numArgs : Nat := 0) : Except PErr Node :=
  if t.t = .operand then .ok (.operand t)
  else if t.t = .function then .ok (.func t numArgs)
  else if isOperator t then .ok (.operator t)
  else .error .valueError

structure SY where
  output : List Node := []       -- in order
  stack : List Tok := []         -- top first
  wereValues : List Bool := []   -- top first
  argCount : List Nat := []      -- top first
  deriving Repr

def setTopTrue : List Bool → List Bool
  | [] => []
  | _ :: r => true :: r

/-- pop operators to the output while `p` holds for the top of the stack -/
def popWhile (p : Tok → Bool) : Nat → SY → Except PErr SY
  | 0, s => .ok s
  | fuel + 1, s =>
    match s.stack with
    | t :: rest =>
      if p t then
        match createNode t with
        | .ok n => popWhile p fuel { s with output := s.output ++ [n], stack := rest }
        | .error e => .error e
      else .ok s
    | [] => .ok s

def step (s : SY) (t : Tok) : Except PErr SY :=
  if t.t = .operand then
    (createNode t).map fun n => { s with output := s.output ++ [n], wereValues := setTopTrue s.wereValues }
  else if t.t = .function then
    .ok { s with stack := t :: s.stack, argCount := 0 :: s.argCount,
                 wereValues := false :: setTopTrue s.wereValues }
  else if t.t = .argument then
    match popWhile (fun x => x.st ≠ .start) (s.stack.length + 1) s with
    | .error e => .error e
    | .ok s =>
      match s.wereValues with
      | [] => .error .indexError
      | w :: ws =>
        let ac := if w then (match s.argCount with | a :: r => some ((a + 1) :: r) | [] => none)
                  else some s.argCount
        match ac with
        | none => .error .indexError
        | some ac =>
          if s.stack.isEmpty then .error .valueError
          else .ok { s with wereValues := false :: ws, argCount := ac }
  else if isOperator t then
    match opInfo t with
    | none => .error .keyError
    | some (p1, right1) =>
      -- every operator on the stack must be in the table too
      let popIt (x : Tok) : Bool :=
        isOperator x && (match opInfo x with
          | some (p2, _) => if right1 then p1 < p2 else p1 ≤ p2
          | none => false)
      let bad := s.stack.takeWhile isOperator |>.any fun x => (opInfo x).isNone
      if bad then .error .keyError else
      (popWhile popIt (s.stack.length + 1) s).map fun s => { s with stack := t :: s.stack }
  else if t.st = .start then .ok { s with stack := t :: s.stack }
  else if t.st = .stop then
    match popWhile (fun x => x.st ≠ .start) (s.stack.length + 1) s with
    | .error e => .error e
    | .ok s =>
      match s.stack with
      | [] => .error .syntaxError
      | _ :: rest =>
        (match rest with
         | f :: rest' =>
           if f.t = .function then
             match s.argCount, s.wereValues with
             | a :: ar, w :: wr =>
               (createNode f (if w then a + 1 else a)).map fun n =>
                 { s with output := s.output ++ [n], stack := rest', argCount := ar, wereValues := wr }
             | _, _ => .error .indexError
           else .ok { s with stack := rest }
         | [] => .ok { s with stack := rest })
  else .ok s

def drain (s : SY) : Except PErr (List Node) :=
  match popWhile (fun x => x.st ≠ .start && x.st ≠ .stop) (s.stack.length + 1) s with
  | .error e => .error e
  | .ok s => if s.stack.isEmpty then .ok s.output else .error .syntaxError

def shuntingYard (names : List (List Char × List Char)) (raw : List Tok) : Except PErr (List Node) :=
  let ts := prepare names raw
  if needsReassembly ts then .error .unsupported else
  match ts.foldlM step ({} : SY) with
  | .error e => .error e
  | .ok s => drain s

/-- `build_ast` -/
def buildAst : List Node → List Ast → Except PErr Ast
  | [], st => match st with | a :: _ => .ok a | [] => .error .indexError
  | .operand t :: rest, st => buildAst rest (.operand t :: st)
  | .operator t :: rest, st =>
    if t.t = .opIn then
      match st with
      | r :: l :: st' => buildAst rest (.binop t l r :: st')
      | _ => .error .indexError
    else
      match st with
      | r :: st' => buildAst rest (.unop t r :: st')
      | _ => .error .indexError
  | .func t n :: rest, st =>
    if st.length < n then .error .indexError
    else buildAst rest (.func t (st.take n).reverse :: st.drop n)

/-- `FormulaParser().parse(formula, named_ranges)` -/
def parse (names : List (List Char × List Char)) (formula : List Char) : Except PErr Ast :=
  match tokenize formula with
  | .error e => .error (.lex e)
  | .ok ts =>
    match shuntingYard names ts with
    | .error e => .error e
    | .ok nodes => buildAst nodes []

end XlVerif.Model.Parser
