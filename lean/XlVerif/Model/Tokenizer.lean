/-
  XlVerif.Model.Tokenizer — model of `tokenizer.ExcelParser.getTokens` (xlcalculator/tokenizer.py),
  all four passes, statement by statement.  Shared by C01, C02 (and C03 for reference texts).

  The formula is a `List Char`; the character loop is structural on the remaining characters
  (`offset` of the Python is implicit).  Python exceptions that can escape are modelled:
  `IndexError` (pop from an empty token stack, `currentChar()` past the end after a comma),
  `ValueError` (`float(token)` of a non-numeric token before `%`).
-/
import XlVerif.Base
import XlVerif.Model.Value
import XlVerif.Gen.TokConsts
namespace XlVerif.Model.Tokenizer
open XlVerif XlVerif.Model.Value

inductive TType
  | noop | operand | function | subexpr | argument | opPre | opIn | opPost | wspace | unknown
  | arglist    -- inserted by the parser for the parentheses of a call
  deriving DecidableEq, Repr, Inhabited

inductive TSub
  | none | start | stop | text | number | logical | error | range | math | concat | intersect | union
  | noneLit    -- TOK_SUBTYPE_NONE ("none": the 'None' operand between two commas)
  | pointer    -- created by the parser's ':' re-assembly
  deriving DecidableEq, Repr, Inhabited

/-- `tvalue`: a string, or a float (the tokenizer stores `float(token) / 100` and `0.01` for `%`) -/
inductive TV | s (v : List Char) | f (q : Rat)
  deriving DecidableEq, Repr, Inhabited

structure Tok where
  v : TV
  t : TType
  st : TSub
  deriving DecidableEq, Repr, Inhabited

def tok (v : List Char) (t : TType) (st : TSub := .none) : Tok := ⟨.s v, t, st⟩

inductive Err | indexError | valueError
  deriving DecidableEq, Repr

/-- lexer state -/
structure St where
  toks : List Tok := []          -- `tokens.items`, in order
  stack : List Tok := []         -- `tokenStack.items`, top first
  acc : List Char := []          -- `token`
  deriving Repr

def St.emit (st : St) (t : Tok) : St := { st with toks := st.toks ++ [t] }

/-- `if len(token) > 0: tokens.add(token, <type>); token = ""` -/
def St.flushAs (st : St) (t : TType) : St :=
  if st.acc.isEmpty then st else { st with toks := st.toks ++ [tok st.acc t], acc := [] }

/-- `tokens.addRef(tokenStack.pop())` — pop returns `f_token("", token.ttype, STOP)` -/
def St.popStop (st : St) : Except Err St :=
  match st.stack with
  | [] => .error .indexError
  | t :: rest => .ok { st with toks := st.toks ++ [⟨.s [], t.t, .stop⟩], stack := rest }

def St.push (st : St) (t : Tok) : St := { st with toks := st.toks ++ [t], stack := t :: st.stack }

def isBlank (c : Char) : Bool := c = ' ' || c = '\n'

/-- `re.match(r'^([0-9]+\.?[0-9]*|\.[0-9]+)[eE]$', token)`: a decimal numeral — digits with an optional
    point and optional fraction digits, or a point followed by digits — then exactly one `e`/`E`
    (the greedy/backtracking search of `re` accepts exactly this language) -/
def matchSN (t : List Char) : Bool :=
  let ip := t.takeWhile isDigit
  match t.dropWhile isDigit with
  | [] => false
  | c :: more =>
    if c = '.' then
      let fp := more.takeWhile isDigit
      let tl := more.dropWhile isDigit
      (!ip.isEmpty || !fp.isEmpty) && (tl = ['e'] || tl = ['E'])
    else !ip.isEmpty && more.isEmpty && (c = 'e' || c = 'E')

/-- the lexer mode (`inString`, `inPath`, `inRange`, `inError`; at most one is set at a time in
    the flows below; `inRange` can coexist with nothing else) -/
inductive Mode | normal | inString | inPath | inRange | inError
  deriving DecidableEq, Repr

def isErrorLiteral (t : List Char) : Bool := Gen.tokErrorLiterals.contains t
def isComparator (a b : Char) : Bool := Gen.tokComparators.contains [a, b]
def isOperatorChar (c : Char) : Bool := Gen.tokOperators.contains c

/-- `float(token) / 100` for the `%` folding (`none` = ValueError; non-finite texts are outside the model) -/
def percentOf (t : List Char) : Option Rat :=
  match pyFloatOfText t with
  | some (.fin q) => some (q / 100)
  | _ => Option.none

/-- The character loop (pass 1).  `skipWs = true` models being inside the inner
    `while (not EOF()) and currentChar() in (" ", "\n")` loop. -/
def lex (mode : Mode) (skipWs : Bool) (st : St) : List Char → Except Err St
  | [] => .ok st
  | c :: cs =>
    match mode with
    | .inString =>
      if c = '"' then
        if cs.head? = some '"' then lex .inString false { st with acc := st.acc ++ ['"'] } cs.tail
        else lex .normal false { st with toks := st.toks ++ [tok st.acc .operand .text], acc := [] } cs
      else lex .inString false { st with acc := st.acc ++ [c] } cs
    | .inPath =>
      if c = '\'' then
        if cs.head? = some '\'' then lex .inPath false { st with acc := st.acc ++ ['\''] } cs.tail
        else lex .normal false st cs
      else lex .inPath false { st with acc := st.acc ++ [c] } cs
    | .inRange =>
      lex (if c = ']' then .normal else .inRange) false { st with acc := st.acc ++ [c] } cs
    | .inError =>
      let t := st.acc ++ [c]
      if isErrorLiteral t then
        lex .normal false { st with toks := st.toks ++ [tok t .operand .error], acc := [] } cs
      else lex .inError false { st with acc := t } cs
    | .normal =>
      if skipWs && isBlank c then lex .normal true st cs
      -- scientific notation check
      else if (c = '+' || c = '-') && st.acc.length > 1 && matchSN st.acc then
        lex .normal false { st with acc := st.acc ++ [c] } cs
      else if c = '"' then lex .inString false (st.flushAs .unknown) cs
      else if c = '\'' then lex .inPath false (st.flushAs .unknown) cs
      else if c = '[' then lex .inRange false { st with acc := st.acc ++ [c] } cs
      else if c = '#' then
        let st := st.flushAs .unknown
        lex .inError false { st with acc := st.acc ++ [c] } cs
      else if c = '{' then
        let st := st.flushAs .unknown
        let st := st.push (tok "ARRAY".toList .function .start)
        lex .normal false (st.push (tok "ARRAYROW".toList .function .start)) cs
      else if c = ';' then
        (match (st.flushAs .operand).popStop with
         | .error e => .error e
         | .ok st =>
           let st := st.emit (tok [','] .argument)
           lex .normal false (st.push (tok "ARRAYROW".toList .function .start)) cs)
      else if c = '}' then
        (match (st.flushAs .operand).popStop with
         | .error e => .error e
         | .ok st => match st.popStop with
           | .error e => .error e
           | .ok st => lex .normal false st cs)
      else if isBlank c then
        lex .normal true ((st.flushAs .operand).emit (tok [] .wspace)) cs
      else if (match cs.head? with | some d => isComparator c d | Option.none => false) then
        lex .normal false ((st.flushAs .operand).emit (tok (c :: cs.take 1) .opIn .logical)) cs.tail
      else if isOperatorChar c then
        lex .normal false ((st.flushAs .operand).emit (tok [c] .opIn)) cs
      else if c = '%' then
        if st.acc.isEmpty then
          lex .normal false ((st.emit (tok ['*'] .opIn)).emit ⟨.f (1 / 100), .operand, .none⟩) cs
        else
          (match percentOf st.acc with
           | some q => lex .normal false { st with toks := st.toks ++ [⟨.f q, .operand, .none⟩], acc := [] } cs
           | Option.none => .error .valueError)
      else if c = '(' then
        if st.acc.isEmpty then lex .normal false (st.push (tok [] .subexpr .start)) cs
        else
          let t := tok st.acc .function .start
          lex .normal false { st with toks := st.toks ++ [t], stack := t :: st.stack, acc := [] } cs
      else if c = ',' then
        let st := st.flushAs .operand
        let isFn : Bool := match st.stack with | t :: _ => decide (t.t = .function) | [] => false
        let st := if isFn then st.emit (tok [','] .argument) else st.emit (tok [','] .opIn .union)
        if cs.isEmpty then .error .indexError            -- `currentChar()` after the last character
        else if cs.head? = some ',' then lex .normal false (st.emit (tok "None".toList .operand .noneLit)) cs
        else lex .normal false st cs
      else if c = ')' then
        (match (st.flushAs .operand).popStop with
         | .error e => .error e
         | .ok st => lex .normal false st cs)
      else lex .normal false { st with acc := st.acc ++ [c] } cs
termination_by cs => cs.length
decreasing_by all_goals (simp only [List.length_cons, List.length_tail]; omega)

/-- the prologue: drop leading blanks, then one `=` -/
def stripLeading : List Char → List Char
  | [] => []
  | c :: cs => if isBlank c then stripLeading cs else if c = '=' then cs else c :: cs

def pass1 (formula : List Char) : Except Err (List Tok) :=
  match lex .normal false {} (stripLeading formula) with
  | .error e => .error e
  | .ok st => .ok (st.flushAs .operand).toks

/-! ### pass 2: white-space tokens become intersection operators or disappear -/

def isOperandLike (t : Tok) (side : TSub) : Bool :=
  (t.t = .function && t.st = side) || (t.t = .subexpr && t.st = side) || t.t = .operand

/-- `prev` = previous token of the *input* list (`tokens.previous()`), `rest` = following tokens -/
def pass2Aux (prev : Option Tok) : List Tok → List Tok
  | [] => []
  | t :: rest =>
    if t.t = .wspace then
      let keep :=
        match prev, rest with
        | some p, n :: _ => isOperandLike p .stop && isOperandLike n .start
        | _, _ => false          -- BOF or EOF
      (if keep then [⟨t.v, .opIn, .intersect⟩] else []) ++ pass2Aux (some t) rest
    else t :: pass2Aux (some t) rest

def pass2 (ts : List Tok) : List Tok := pass2Aux Option.none ts

/-! ### pass 3: prefix minus, noop plus, subtypes, `@` -/

def prevIsValue (p : Tok) : Bool :=
  (p.t = .function && p.st = .stop) || (p.t = .subexpr && p.st = .stop) || p.t = .opPost || p.t = .operand

/-- `float(token.tvalue)` succeeds? -/
def floatOk : TV → Bool
  | .f _ => true
  | .s v => (pyFloatOfText v).isSome

def retype (prev : Option Tok) (t : Tok) : Tok :=
  if t.t = .opIn && t.v = .s ['-'] then
    match prev with
    | Option.none => { t with t := .opPre }
    | some p => if prevIsValue p then { t with st := .math } else { t with t := .opPre }
  else if t.t = .opIn && t.v = .s ['+'] then
    match prev with
    | Option.none => { t with t := .noop }
    | some p => if prevIsValue p then { t with st := .math } else { t with t := .noop }
  else if t.t = .opIn && t.st = .none then
    match t.v with
    | .s (c :: _) =>
      if c = '<' || c = '>' || c = '=' then { t with st := .logical }
      else if t.v = .s ['&'] then { t with st := .concat } else { t with st := .math }
    | _ => { t with st := .math }
  else if t.t = .operand && t.st = .none then
    if floatOk t.v then { t with st := .number }
    else if t.v = .s "TRUE".toList || t.v = .s "FALSE".toList then { t with st := .logical }
    else { t with st := .range }
  else if t.t = .function then
    match t.v with
    | .s ('@' :: rest) => { t with v := .s rest }
    | _ => t
  else t

/-- the retyped list; `prev` is the previous element of the list being traversed (already retyped,
    but `retype` never changes the properties `prevIsValue` looks at) -/
def pass3Aux (prev : Option Tok) : List Tok → List Tok
  | [] => []
  | t :: rest => let t' := retype prev t; t' :: pass3Aux (some t') rest

def pass3 (ts : List Tok) : List Tok := pass3Aux Option.none ts

/-- pass 4: drop the noops -/
def pass4 (ts : List Tok) : List Tok := ts.filter fun t => t.t ≠ .noop

/-- `ExcelParser().getTokens(formula).items` -/
def getTokens (formula : List Char) : Except Err (List Tok) :=
  match pass1 formula with
  | .error e => .error e
  | .ok ts => .ok (pass4 (pass3 (pass2 ts)))

/-- `FormulaParser.tokenize`: a leading `=` is removed first -/
def tokenize (formula : List Char) : Except Err (List Tok) :=
  match formula with
  | '=' :: rest => getTokens rest
  | f => getTokens f

end XlVerif.Model.Tokenizer
