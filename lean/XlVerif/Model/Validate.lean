/-
  XlVerif.Model.Validate — model of `xl.validate_args` / `xl._validate` / `xl._safe_validate`
  (xlfunctions/xl.py), generic in the function body, driven by the parameter annotations of the
  generated registry (`Gen.Registry`).  Shared by C07, C08, C10, C14.
-/
import XlVerif.Model.Value
import XlVerif.Gen.Registry
namespace XlVerif.Model.Validate
open XlVerif XlVerif.Model.Value XlVerif.Gen

/-- What is bound to one parameter: a single value, or the tuple bound to `*args`.
    Items of a tuple may themselves be arrays (ranges): `Item.arr`. -/
inductive Item | sc (v : Py) | arr (rows : List (List S))
  deriving DecidableEq, Repr, Inhabited

inductive PArg | one (x : Item) | many (xs : List Item)
  deriving Repr, Inhabited

/-- a validated parameter as handed to the body -/
inductive VArg
  | s (x : S)                    -- a typed scalar
  | a (rows : List (List S))     -- an Array
  | tup (xs : List S)            -- a validated, flattened tuple
  | raw (x : Item)               -- un-annotated / Expr parameters are passed through
  | rawMany (xs : List Item)
  deriving Repr, Inhabited

/-- `xl.flatten` of a tuple of items: arrays contribute their cells row-major. -/
def flattenItems : List Item → List (S ⊕ Py)
  | [] => []
  | .sc v :: rest => .inr v :: flattenItems rest
  | .arr rows :: rest => (rows.flatten.map .inl) ++ flattenItems rest

/-- `Number.cast` / `Text.cast` / `Boolean.cast` / `cast_from_native` of one Python value -/
def castScalar (ext : Ext) (t : XlT) (v : Py) : R S :=
  match t with
  | .anything => castFromNative v
  | _ =>
    match pyToS v with
    | .ok s =>
      (match t with
       | .number => (match toNumber ext s with
                     | .ok n => .ok (.num n)
                     | .nonfinite => .ok (.text "<nonfinite>".toList)   -- outside the modelled domain
                     | .xl c => .xl c
                     | .py k => .py k)
       | .text => .ok (.text (toStr ext s))
       | .boolean => (match toBoolean s with | .ok b => .ok (.bool b) | .xl c => .xl c | .py k => .py k)
       | _ => .ok s)
    | .xl c => .xl c
    | .py k => .py k

def annotScalar? : Annot → Option XlT
  | .xlNumber => some .number | .xlText => some .text | .xlBoolean => some .boolean
  | .xlAnything => some .anything | _ => none

def typedOf (x : S ⊕ Py) : Py :=
  match x with
  | .inr v => v
  | .inl s => match s with
    | .num n => .xNumber n | .text t => .xText t | .bool b => .xBoolean b | .blank => .xBlank
    | .date d => .xDateTime d | .err c => .xErr c

def isErrPy : Py → Option Code | .xErr c => some c | _ => none

def isBlankPy : Py → Bool | .xBlank => true | .none => true | _ => false

/-- first Excel error among flattened items -/
def firstErrItem : List (S ⊕ Py) → Option Code
  | [] => none
  | x :: rest => match isErrPy (typedOf x) with | some c => some c | none => firstErrItem rest

/-- `_validate(Tuple[itype], val)`: flatten; for Number/Text/Anything items the leftmost error is
    raised; blank items of a number list are skipped; every other item goes through `_safe_validate`
    (uncastable items are dropped). -/
def validateTuple (ext : Ext) (t : XlT) (xs : List Item) : R (List S) :=
  let flat := flattenItems xs
  match firstErrItem flat with
  | some c => .xl c
  | none =>
    -- number lists skip blank items (a reference to an empty cell is not a zero)
    let flat := if t = .number then flat.filter (fun x => !isBlankPy (typedOf x)) else flat
    .ok (flat.filterMap fun x => match castScalar ext t (typedOf x) with
                                 | .ok s => some s
                                 | _ => none)

/-- `_validate(annotation, value)` for one bound parameter. `none` result = pass through. -/
def validateParam (ext : Ext) (p : Param) (a : PArg) : R VArg :=
  match a with
  | .one (.sc v) =>
    (match annotScalar? p.annot with
     | some t => (match castScalar ext t v with | .ok s => .ok (.s s) | .xl c => .xl c | .py k => .py k)
     | none => .ok (.raw (.sc v)))
  | .one (.arr rows) =>
    (match p.annot with
     | .xlArray => .ok (.a rows)
     | _ => .ok (.raw (.arr rows)))
  | .many xs =>
    (match p.annot with
     | .tuple inner =>
       (match annotScalar? inner with
        | some t => (match validateTuple ext t xs with | .ok l => .ok (.tup l) | .xl c => .xl c | .py k => .py k)
        | none => .ok (.rawMany xs))
     | _ => .ok (.rawMany xs))

/-- step 1 of the wrapper: go through the bound arguments in order; an argument that *is* an Excel
    error is returned at once; a validation failure is returned as its error. -/
def validateAll (ext : Ext) : List Param → List PArg → R (List VArg)
  | p :: ps, a :: as =>
    (match a with
     | .one (.sc (.xErr c)) => .xl c
     | _ =>
       match validateParam ext p a with
       | .ok v => (match validateAll ext ps as with
                   | .ok vs => .ok (v :: vs) | .xl c => .xl c | .py k => .py k)
       | .xl c => .xl c
       | .py k => .py k)
  | _, _ => .ok []

/-- The whole wrapper around an arbitrary body. A body may *raise* an Excel error (`.xl`), which the
    wrapper returns as a value; the return cast is applied by `ret`. -/
def wrapper (ext : Ext) (f : Func) (body : List VArg → R S) (ret : S → R S) (bound : List PArg) : R S :=
  if f.validated then
    match validateAll ext f.params bound with
    | .ok vs =>
      (match body vs with
       | .ok r => ret r
       | .xl c => .ok (.err c)
       | .py k => .py k)
    | .xl c => .ok (.err c)
    | .py k => .py k
  else
    body (bound.map fun a => match a with | .one x => .raw x | .many xs => .rawMany xs)

def findFunc (name : List Char) : Option Func := registry.find? fun f => f.name == name

/-! ### the IS-family and NA (information.py), on an already typed argument -/
def ISERROR (x : S) : Bool := (isErr x).isSome
def ISERR (x : S) : Bool := match x with | .err .na => false | .err _ => true | _ => false
def ISNA (x : S) : Bool := match x with | .err .na => true | _ => false
def ISNUMBER (x : S) : S := match x with | .err c => .err c | .num _ => .bool true | _ => .bool false
def ISTEXT (x : S) : S := match x with | .err c => .err c | .text _ => .bool true | _ => .bool false
def ISBLANK (x : S) : S :=
  match x with | .err c => .err c | .blank => .bool true | .text [] => .bool true | _ => .bool false
def NA : S := .err .na

end XlVerif.Model.Validate
