/-
  XlVerif.Model.Value — model of the value layer of xlcalculator:
  `xlfunctions/func_xltypes.py` (ExcelType and its five subclasses: casts, arithmetic, sort keys),
  `xlfunctions/xl.py` (`_validate` for the scalar aliases) and `xlfunctions/operator.py`.

  Shared by C07, C08, C09, C10, C14, C15.  Core Lean only.

  Python values ("spellings") are `Py`; typed Excel scalars are `S` (Base.lean).  Library behaviour
  that is not modelled enters through `Ext` (uninterpreted parameters, DESIGN.md §3.1/§3.7).
-/
import XlVerif.Base
import XlVerif.Gen.TypeTables
namespace XlVerif.Model.Value
open XlVerif

/-- Uninterpreted library behaviour. -/
structure Ext where
  /-- `utils.datetime_to_number(dateutil.parser.parse(text))`; `none` = the parser raises. -/
  dateParse : List Char → Option Rat
  /-- `str(float)` -/
  floatRepr : Rat → List Char
  /-- `str(datetime)` of the date with this serial -/
  dateRepr : Rat → List Char
  /-- `base ** exponent` for a non-integer exponent (float pow); `none` = OverflowError -/
  powFrac : Rat → Rat → Option Rat

/-- The `Ext` used by the drivers: no text is a date; float/date text forms are not produced. -/
def Ext.none : Ext :=
  ⟨fun _ => Option.none, fun _ => "<float>".toList, fun _ => "<datetime>".toList, fun _ _ => Option.none⟩

/-- A Python value as it can reach the library: native spellings, numpy scalars, the library's own
    typed objects and Excel errors. Dates are represented by their exact serial. -/
inductive Py
  | int (z : Int) | float (q : Rat) | bool (b : Bool) | str (s : List Char) | none
  | datetime (serial : Rat)
  | npInt64 (z : Int) | npFloat64 (q : Rat) | npInt32 (z : Int) | npFloat32 (q : Rat)
  | xNumber (n : Num) | xText (s : List Char) | xBoolean (b : Bool) | xBlank | xDateTime (serial : Rat)
  | xErr (c : Code)
  deriving DecidableEq, Repr, Inhabited

/-- `type(value).__module__ + '.' + __name__` for native spellings (keys of `Gen.nativeToXltype`). -/
def Py.nativeTypeName : Py → Option (List Char)
  | .int _ => some "builtins.int".toList
  | .float _ => some "builtins.float".toList
  | .bool _ => some "builtins.bool".toList
  | .str _ => some "builtins.str".toList
  | .none => some "builtins.NoneType".toList
  | .datetime _ => some "datetime.datetime".toList
  | .npInt64 _ => some "numpy.int64".toList
  | .npFloat64 _ => some "numpy.float64".toList
  | .npInt32 _ => some "numpy.int32".toList
  | .npFloat32 _ => some "numpy.float32".toList
  | _ => Option.none

def lookup {β} (k : List Char) : List (List Char × β) → Option β
  | [] => Option.none
  | (k', v) :: rest => if k = k' then some v else lookup k rest

/-- result of a cast / operation: a typed value, an Excel error *raised* (to be converted by
    `validate_args`), or a Python exception. -/
inductive R (α : Type)
  | ok (a : α) | xl (c : Code) | py (k : Crash)
  deriving DecidableEq, Repr, Inhabited

namespace R
def bind {α β} (r : R α) (f : α → R β) : R β :=
  match r with | ok a => f a | xl c => xl c | py k => py k
instance : Monad R where
  pure := R.ok
  bind := R.bind
@[simp] theorem bind_ok {α β} (a : α) (f : α → R β) : (R.ok a >>= f) = f a := rfl
@[simp] theorem bind_xl {α β} (c : Code) (f : α → R β) : ((R.xl c : R α) >>= f) = R.xl c := rfl
@[simp] theorem bind_py {α β} (k : Crash) (f : α → R β) : ((R.py k : R α) >>= f) = R.py k := rfl
end R

/-- `NATIVE_TO_XLTYPE[type(value)](value)`: wrap a native spelling in its Excel type, driven by the
    generated table (so un-registering a native type changes this function). -/
def wrapNative (v : Py) : Option S :=
  match v.nativeTypeName with
  | Option.none => Option.none
  | some tn =>
    match lookup tn Gen.nativeToXltype, v with
    | some cls, .int z => if cls = "Number".toList then some (.num (.int z)) else Option.none
    | some cls, .npInt64 z => if cls = "Number".toList then some (.num (.int z)) else Option.none
    | some cls, .npInt32 z => if cls = "Number".toList then some (.num (.int z)) else Option.none
    | some cls, .float q => if cls = "Number".toList then some (.num (.flt q)) else Option.none
    | some cls, .npFloat64 q => if cls = "Number".toList then some (.num (.flt q)) else Option.none
    | some cls, .npFloat32 q => if cls = "Number".toList then some (.num (.flt q)) else Option.none
    | some cls, .bool b => if cls = "Boolean".toList then some (.bool b) else Option.none
    | some cls, .str s => if cls = "Text".toList then some (.text s) else Option.none
    | some cls, .none => if cls = "Blank".toList then some .blank else Option.none
    | some cls, .datetime d => if cls = "DateTime".toList then some (.date d) else Option.none
    | _, _ => Option.none

/-- the typed object a `Py` already is, if it is one of the library's objects -/
def Py.typed? : Py → Option S
  | .xNumber n => some (.num n) | .xText s => some (.text s) | .xBoolean b => some (.bool b)
  | .xBlank => some .blank | .xDateTime d => some (.date d) | .xErr c => some (.err c)
  | _ => Option.none

/-- `ExcelType.cast_from_native(value)` (`XlAnything`): errors and typed objects pass, natives are
    wrapped, an unregistered type raises `KeyError`. -/
def castFromNative (v : Py) : R S :=
  match v.typed? with
  | some s => .ok s
  | Option.none =>
    match wrapNative v with
    | some s => .ok s
    | Option.none => .py .keyError

/-! ### Python `int(str)` / `float(str)` on the decimal grammar -/

def isWs (c : Char) : Bool := c = ' ' || c = '\t' || c = '\n' || c = '\r' || c.toNat = 11 || c.toNat = 12
def isDigit (c : Char) : Bool := '0' ≤ c && c ≤ '9'
def digitVal (c : Char) : Nat := c.toNat - '0'.toNat

def stripL : List Char → List Char
  | [] => []
  | c :: s => if isWs c then stripL s else c :: s
def strip (s : List Char) : List Char := (stripL (stripL s).reverse).reverse

/-- digits with optional single underscores between digits (PEP 515); returns value and count -/
def digitsUS : List Char → Option (Nat × Nat × List Char)
  | [] => Option.none
  | c :: s =>
    if isDigit c then
      let rec go (acc n : Nat) : List Char → Nat × Nat × List Char
        | [] => (acc, n, [])
        | d :: r =>
          if isDigit d then go (acc * 10 + digitVal d) (n + 1) r
          else if d = '_' then
            match r with
            | e :: r' => if isDigit e then go (acc * 10 + digitVal e) (n + 1) r' else (acc, n, d :: r)
            | [] => (acc, n, d :: r)
          else (acc, n, d :: r)
      some (go (digitVal c) 1 s)
    else Option.none

def signOf : List Char → Int × List Char
  | '+' :: s => (1, s)
  | '-' :: s => (-1, s)
  | s => (1, s)

/-- Python `int(text)` for ASCII decimal text (`none` = ValueError). -/
def pyIntOfText (t : List Char) : Option Int :=
  let (sg, r) := signOf (strip t)
  match digitsUS r with
  | some (v, _, []) => some (sg * v)
  | _ => Option.none

inductive PyFloat | fin (q : Rat) | nonfinite
  deriving DecidableEq, Repr

def lower (c : Char) : Char := if 'A' ≤ c ∧ c ≤ 'Z' then Char.ofNat (c.toNat + 32) else c
def upper (c : Char) : Char := if 'a' ≤ c ∧ c ≤ 'z' then Char.ofNat (c.toNat - 32) else c

def pow10 (e : Int) : Rat := if e ≥ 0 then ((10 : Rat) ^ e.toNat) else 1 / ((10 : Rat) ^ (-e).toNat)

/-- doubles overflow to infinity from here on (ideal-real model: everything below is finite) -/
def floatMax : Rat := (2 : Rat) ^ 1024

/-- Python `float(text)` for ASCII text (`none` = ValueError).  The result is the exact decimal
    value (ideal reals), `nonfinite` for inf/nan spellings and for values that overflow. -/
def pyFloatOfText (t : List Char) : Option PyFloat :=
  let (sg, r) := signOf (strip t)
  let lw := r.map lower
  if lw = "inf".toList ∨ lw = "infinity".toList ∨ lw = "nan".toList then some .nonfinite else
  -- mantissa: digits [. [digits]] | . digits
  let mant : Option (Nat × Nat × List Char) :=   -- (integer value of all digits, #fraction digits, rest)
    match digitsUS r with
    | some (iv, _, '.' :: r1) =>
      (match digitsUS r1 with
       | some (fv, fn, r2) => some (iv * 10 ^ fn + fv, fn, r2)
       | Option.none => some (iv, 0, r1))
    | some (iv, _, r1) => some (iv, 0, r1)
    | Option.none =>
      match r with
      | '.' :: r1 => (match digitsUS r1 with
                      | some (fv, fn, r2) => some (fv, fn, r2)
                      | Option.none => Option.none)
      | _ => Option.none
  match mant with
  | Option.none => Option.none
  | some (m, fn, rest) =>
    let fin (e : Int) : Option PyFloat :=
      let q : Rat := (sg : Rat) * (m : Rat) * pow10 (e - fn)
      if q ≥ floatMax ∨ q ≤ -floatMax then some .nonfinite else some (.fin q)
    match rest with
    | [] => fin 0
    | c :: r3 =>
      if c = 'e' ∨ c = 'E' then
        let (es, r4) := signOf r3
        match digitsUS r4 with
        | some (ev, _, []) => fin (es * ev)
        | _ => Option.none
      else Option.none

/-! ### `__number__`, `__bool__`, `__str__` of every type -/

/-- `Text.__bool__(by_content_only=True)` -/
def textBoolByContent (s : List Char) : Option Bool :=
  let l := s.map lower
  if Gen.booleanTexts.contains l then some (l = "true".toList) else Option.none

/-- outcome of a numeric cast: a number, a non-finite float, `#VALUE!`, or a crash -/
inductive NumR | ok (n : Num) | nonfinite | xl (c : Code) | py (k : Crash)
  deriving DecidableEq, Repr

/-- `Text.__number__`: int → FINITE float → boolean text → date.  A text that `float()` reads as a non-finite
    value (`inf`, `nan`, a numeral beyond the float range) is not a number (repair D23a): it falls through to
    the remaining conversions like any text `float()` rejects. -/
def textNumber (ext : Ext) (s : List Char) : NumR :=
  match pyIntOfText s with
  | some z => .ok (.int z)
  | Option.none =>
    match pyFloatOfText s with
    | some (.fin q) => .ok (.flt q)
    | _ =>
      match textBoolByContent s with
      | some b => .ok (.int (if b then 1 else 0))
      | Option.none =>
        match ext.dateParse s with
        | some d => .ok (.flt d)
        | Option.none => .xl .value

/-- `Number.cast(value)` on a typed scalar: the `__Number__` of each class. -/
def toNumber (ext : Ext) : S → NumR
  | .num n => .ok n
  | .text s => textNumber ext s
  | .bool b => .ok (.int (if b then 1 else 0))
  | .blank => .ok (.flt 0)
  | .date d => .ok (.flt d)
  | .err c => .xl c   -- not reached through validate_args (errors return first); `cast` raises #VALUE!

/-- `str(x)` of a typed scalar (`__str__`) -/
def toStr (ext : Ext) : S → List Char
  | .num (.int z) => (toString z).toList
  | .num (.flt q) => ext.floatRepr q
  | .text s => s
  | .bool b => if b then "True".toList else "False".toList
  | .blank => []
  | .date d => ext.dateRepr d
  | .err c => c.text

/-- `bool(x)` of a typed scalar (`__bool__`): non-empty text is true unless it spells a boolean. -/
def truthy : S → Bool
  | .num n => n.toRat ≠ 0
  | .text s => match textBoolByContent s with | some b => b | Option.none => !s.isEmpty
  | .bool b => b
  | .blank => false
  | .date _ => true
  | .err _ => true

/-- `Boolean.cast(value)` (`__Boolean__`): text only by content. -/
def toBoolean : S → R Bool
  | .text s => match textBoolByContent s with | some b => .ok b | Option.none => .xl .value
  | .err _ => .xl .value
  | x => .ok (truthy x)

/-- a scalar alias of `func_xltypes` -/
inductive XlT | number | text | boolean | datetime | anything
  deriving DecidableEq, Repr

/-- `ExcelType.cast` for a `Py`: typed objects dispatch to `__<Target>__`, natives are wrapped first,
    unknown native types raise `#VALUE!` ("Unknown object type"). -/
def pyToS (v : Py) : R S :=
  match v.typed? with
  | some s => .ok s
  | Option.none => match wrapNative v with | some s => .ok s | Option.none => .xl .value

/-- Python arithmetic on numbers: int∘int stays int, anything with a float is float. -/
def Num.add : Num → Num → Num
  | .int a, .int b => .int (a + b)
  | a, b => .flt (a.toRat + b.toRat)
def Num.sub : Num → Num → Num
  | .int a, .int b => .int (a - b)
  | a, b => .flt (a.toRat - b.toRat)
def Num.mul : Num → Num → Num
  | .int a, .int b => .int (a * b)
  | a, b => .flt (a.toRat * b.toRat)

/-! ### The operators of `operator.py` on typed scalars (arguments after `validate_args`) -/

/-- outcome of an operator: value, Excel error *value* (returned), non-finite float, Python exception -/
inductive OpR | val (s : S) | nonfinite | py (k : Crash)
  deriving DecidableEq, Repr

def OpR.ofNum : NumR → (Num → OpR) → OpR
  | .ok n, k => k n
  | .nonfinite, _ => .nonfinite
  | .xl c, _ => .val (.err c)
  | .py c, _ => .py c

/-- `left ∘ right` for `+ - *` through `ExcelType.__add__` etc.: both operands `Number.cast`. -/
def arith (ext : Ext) (f : Num → Num → Num) (l r : S) : OpR :=
  OpR.ofNum (toNumber ext l) fun a => OpR.ofNum (toNumber ext r) fun b => .val (.num (f a b))

/-! ### sort keys and comparisons -/

/-- payload of a sort key -/
inductive Key | n (q : Rat) | t (s : List Char)
  deriving DecidableEq, Repr

/-- `(sort_precedence, payload)`; `none` models `DateTime.__Blank__() is None` → AttributeError. -/
def sortKeyNB : S → Option (Nat × Key)
  | .num n => some (0, .n n.toRat)
  | .text s => some (1, .t (s.map upper))
  | .bool b => some (2, .n (if b then 1 else 0))
  | .date d => some (0, .n d)
  | _ => Option.none

/-- `x.__Blank__()`: the blank equivalent of the other operand's type -/
def blankOf : S → Option S
  | .num _ => some (.num (.int 0))
  | .text _ => some (.text [])
  | .bool _ => some (.bool false)
  | .date _ => some (.num (.int 0))   -- `DateTime.__Blank__` is None: `Blank._sort_key` then uses Number(0)
  | .blank => some (.num (.int 0))    -- handled before: two blanks have key (0, 0)
  | .err _ => Option.none

/-- `self._sort_key(other)` -/
def sortKey (self other : S) : Option (Nat × Key) :=
  match self with
  | .blank =>
    (match other with
     | .blank => some (0, .n 0)
     | o => (blankOf o).bind sortKeyNB)
  | s => sortKeyNB s

def Key.lt : Key → Key → Option Bool
  | .n a, .n b => some (a < b)
  | .t a, .t b => some (a < b)
  | _, _ => Option.none      -- Python: '<' not supported between str and int → TypeError
def Key.eq : Key → Key → Bool
  | .n a, .n b => a = b
  | .t a, .t b => a = b
  | _, _ => false

/-- Python tuple comparison of two keys -/
def keyLt (a b : Nat × Key) : Option Bool :=
  if a.1 < b.1 then some true else if b.1 < a.1 then some false else Key.lt a.2 b.2
def keyEq (a b : Nat × Key) : Bool := a.1 = b.1 && Key.eq a.2 b.2

inductive Cmp | eq | ne | lt | gt | le | ge
  deriving DecidableEq, Repr

/-- the rich comparison `left <op> right` of `ExcelType` (on typed scalars) -/
def richCmp (op : Cmp) (l r : S) : OpR :=
  match sortKey l r, sortKey r l with
  | some a, some b =>
    let lt := keyLt a b
    let gt := keyLt b a
    let eq := keyEq a b
    let ofO : Option Bool → OpR := fun o => match o with | some v => .val (.bool v) | Option.none => .py .typeError
    (match op with
     | .eq => .val (.bool eq)
     | .ne => .val (.bool (!eq))
     | .lt => ofO lt
     | .gt => ofO gt
     | .le => if eq then .val (.bool true) else ofO lt
     | .ge => if eq then .val (.bool true) else ofO gt)
  | _, _ => .py .attributeError

def isBlank : S → Bool | .blank => true | _ => false
def isErr : S → Option Code | .err c => some c | _ => Option.none

/-- `validate_args` for a binary operator: the leftmost error argument is returned. -/
def firstErr (l r : S) : Option Code :=
  match isErr l with
  | some c => some c
  | Option.none => isErr r

/-- The twelve infix operators on typed scalars, as the evaluator reaches them
    (`OperatorNode.eval` → `INFIX_OP_TO_FUNC` → wrapper → body → return cast). -/
inductive BinOp | add | sub | mul | div | eq | ne | lt | gt | le | ge
  deriving DecidableEq, Repr

def binop (ext : Ext) (op : BinOp) (l r : S) : OpR :=
  match firstErr l r with
  | some c => .val (.err c)
  | Option.none =>
    match op with
    | .add => arith ext Num.add l r
    | .sub => arith ext Num.sub l r
    | .mul => arith ext Num.mul l r
    | .div =>
      -- body: `if right == 0: raise DivZero` then `left / right` (float division, zero check again)
      (match richCmp .eq r (.num (.int 0)) with
       | .val (.bool true) => .val (.err .div0)
       | .py k => .py k
       | _ =>
         OpR.ofNum (toNumber ext r) fun b =>
           if b.toRat = 0 then .val (.err .div0) else
           OpR.ofNum (toNumber ext l) fun a => .val (.num (.flt (a.toRat / b.toRat))))
    | .eq => richCmp .eq l r
    | .ne => richCmp .ne l r
    | .lt => if isBlank l || isBlank r then .val (.bool false) else richCmp .lt l r
    | .gt => if isBlank l || isBlank r then .val (.bool false) else richCmp .gt l r
    | .le => if isBlank l || isBlank r then .val (.bool false) else richCmp .le l r
    | .ge => if isBlank l || isBlank r then .val (.bool false) else richCmp .ge l r

/-- Python `==` on two *native* operands — what `OP_EQ(left, right)` computes when it is called as a
    library function with untyped values (the wrapper-less `=`/`<>` do not cast; known finding D57). -/
def nativeEq : Py → Py → Option Bool
  | .str a, .str b => some (a = b)
  | .none, .none => some true
  | .datetime a, .datetime b => some (a = b)
  | a, b =>
    let numOf : Py → Option Rat := fun v => match v with
      | .int z => some z | .float q => some q | .bool t => some (if t then 1 else 0)
      | .npInt64 z => some z | .npFloat64 q => some q | .npInt32 z => some z | .npFloat32 q => some q
      | _ => Option.none
    match a.typed?, b.typed? with
    | Option.none, Option.none =>
      (match numOf a, numOf b with
       | some x, some y => some (x = y)
       | _, _ => some false)
    | _, _ => Option.none    -- a typed operand: not this function's business

/-- `OP_NEG` / `OP_PERCENT`: the argument is `XlNumber`-cast by the wrapper. -/
def neg (ext : Ext) (x : S) : OpR :=
  match isErr x with
  | some c => .val (.err c)
  | Option.none => OpR.ofNum (toNumber ext x) fun a => .val (.num (Num.mul (.int (-1)) a))

def percent (ext : Ext) (x : S) : OpR :=
  match isErr x with
  | some c => .val (.err c)
  | Option.none => OpR.ofNum (toNumber ext x) fun a => .val (.num (.flt (a.toRat * (1 / 100))))

/-- is this number integer-valued? (`float(power) != int(power)` test of POWER) -/
def Num.isIntegral (n : Num) : Bool := n.toRat.den = 1

/-- Python `a ** b` on numbers for an integer-valued exponent: `int ** non-negative int` stays int,
    everything else is float; exact over ideal reals. `base ≠ 0 ∨ exponent ≥ 0` is guaranteed by the
    caller. -/
def Num.powInt (a : Num) (e : Int) (expIsInt : Bool) : Num :=
  match a, expIsInt, decide (0 ≤ e) with
  | .int z, true, true => .int (z ^ e.toNat)
  | _, _, _ => .flt (a.toRat ^ e)

/-- `^` = `math.POWER(number, power)`: both `XlNumber`-cast, parameter by parameter; 0 to a negative
    power is #DIV/0!, a negative base with a fractional exponent is #NUM!, overflow is #NUM!. -/
def power (ext : Ext) (l r : S) : OpR :=
  -- `validate_args` goes through the two `XlNumber` parameters in order: an error argument is
  -- returned, a failing cast is #VALUE!, and only then is the next parameter looked at.
  match isErr l with
  | some c => .val (.err c)
  | Option.none =>
    OpR.ofNum (toNumber ext l) fun a =>
      match isErr r with
      | some c => .val (.err c)
      | Option.none =>
        OpR.ofNum (toNumber ext r) fun b =>
          if a.toRat = 0 ∧ b.toRat < 0 then .val (.err .div0)
          else if a.toRat < 0 ∧ ¬ Num.isIntegral b then .val (.err .num)
          else if Num.isIntegral b then
            .val (.num (Num.powInt a b.toRat.num (match b with | .int _ => true | .flt _ => false)))
          else match ext.powFrac a.toRat b.toRat with
            | some q => .val (.num (.flt q))
            | Option.none => .val (.err .num)

/-- `&` = `text.CONCAT(l, r)`: both operands `Text.cast` (an error operand is returned). -/
def concat (ext : Ext) (l r : S) : OpR :=
  match firstErr l r with
  | some c => .val (.err c)
  | Option.none => .val (.text (toStr ext l ++ toStr ext r))

end XlVerif.Model.Value
