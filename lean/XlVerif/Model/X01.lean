/-
  XlVerif.Model.X01 — the integrated pipeline, part 1: COMPILE.

  "a workbook of constants and formula TEXTS → compiled model" = `ModelCompiler.read_and_parse_dict`
  (+ `build_defined_names` for names bound to cells, as `parse_archive` places it) + `build_ranges` +
  `Model.build_code`, composed from the models the property builders wrote separately:

    formula text ──Tokenizer.getTokens──▶ terms (C03.termsLoop)          [XLFormula.__post_init__]
    formula text ──Parser.parse names───▶ Ast ──toFx sheet keys──▶ Fx    [build_code + ASTNode.eval]
    terms ──C03.resolveRanges──▶ model.ranges, blank member cells        [build_ranges]

  `toFx` is the static part of `OperandNode.eval` / `RangeNode.eval` / `OperatorNode.eval` /
  `FunctionNode.eval`: everything those methods decide from the node alone (which function object is
  called, with how many arguments, which address a reference token denotes, which value a literal token
  has) — the result is a formula tree `Fx` of the shared evaluator model (`Model/Evaluator.lean`), whose
  `evalFx` is the dynamic part.  A function id is the position of the function in `Gen.registry`
  (`xl.FUNCTIONS`, sorted by name; regenerated from the running code on every check).

  Core Lean only (linked into `drv_x01`).
-/
import XlVerif.Model.Parser
import XlVerif.Model.C01
import XlVerif.Model.C03
import XlVerif.Model.Evaluator
import XlVerif.Model.Value
import XlVerif.Gen.Registry
import XlVerif.Gen.OpFuncs
namespace XlVerif.Model.X01
open XlVerif XlVerif.Model.Tokenizer XlVerif.Model.Parser XlVerif.Model.Evaluator XlVerif.Model.Value

abbrev Text := List Char

/-! ## the function table -/

/-- `xl.FUNCTIONS[name]`: position in the registry -/
def funcIndex (name : Text) : Option Nat :=
  let i := Gen.registry.findIdx fun f => f.name == name
  if i < Gen.registry.length then some i else none

def funcAt (id : Nat) : Option Gen.Func := Gen.registry[id]?

/-- `s.replace(pat, '')` (left to right, non-overlapping); `fuel` ≥ `s.length` -/
def removeAll (pat : Text) : Nat → Text → Text
  | 0, s => s
  | _, [] => []
  | fuel + 1, c :: cs =>
    if !pat.isEmpty && pat.isPrefixOf (c :: cs) then removeAll pat fuel ((c :: cs).drop pat.length)
    else c :: removeAll pat fuel cs

/-- `self.tvalue.upper().replace('_XLFN.', '')` -/
def callName (tvalue : Text) : Text :=
  let u := tvalue.map Value.upper
  removeAll "_XLFN.".toList u.length u

/-- outcome of `inspect.signature(func).bind(*self.args)` -/
inductive Arity
  | ok | tooMany | missing (pname : Text)
  deriving DecidableEq, Repr

/-- positional binding of `n` arguments: parameters are filled in order, `*args` absorbs the rest; a
    parameter left unfilled must have a default -/
def arityCheck : List Gen.Param → Nat → Arity
  | [], 0 => .ok
  | [], _ + 1 => .tooMany
  | p :: ps, 0 => if p.variadic || p.hasDefault then arityCheck ps 0 else .missing p.name
  | p :: ps, n + 1 => if p.variadic then .ok else arityCheck ps n

/-- `len(repr(KeyError(name)))` for a name without quotes / escapes -/
def keyErrorLen (name : Text) : Nat := name.length + 12
/-- `len(repr(TypeError('too many positional arguments')))` -/
def tooManyLen : Nat := 42
/-- `len(repr(TypeError("missing a required argument: 'p'")))` -/
def missingLen (p : Text) : Nat := 44 + p.length
/-- `len(repr(ValueExcelError("Could not convert 'v' to float.")))` (`Number.cast` of an operand text) -/
def castErrLen (v : Text) : Nat := 49 + v.length

/-! ## compile errors -/

inductive CErr
  | exc (k : Crash)               -- a Python exception raised while the model is built
  | unsupported (what : Text)     -- outside this model (non-finite literal, pointer token, named range …)
  deriving DecidableEq, Repr

def crashOfPErr : PErr → CErr
  | .lex .indexError => .exc .indexError
  | .lex .valueError => .exc .valueError
  | .valueError => .exc .valueError
  | .syntaxError => .exc .syntaxError
  | .indexError => .exc .indexError
  | .keyError => .exc .keyError
  | .unsupported => .unsupported "reassembly".toList

/-! ## `ASTNode.eval`, the static part -/

def litFx (x : S) : Fx := .lit (.s x)

/-- `OperandNode.eval` / `RangeNode.eval` for one operand token; `sheet` = `context.sheet` (the sheet of the
    cell that holds the formula), `keys` = the keys of `model.ranges` -/
def operandFx (sheet : Text) (keys : List Text) (t : Tok) : Except CErr Fx :=
  match t.st with
  | .range =>
    (match t.v with
     | .s v =>
       let addr := C03.fullAddress v sheet
       .ok (if keys.contains addr then .rng addr else .ref addr)
     | .f _ => .error (.unsupported "range-float".toList))
  | .pointer => .error (.unsupported "pointer".toList)
  | .logical =>
    (match t.v with
     | .s v =>
       (match toBoolean (.text v) with
        | .ok b => .ok (litFx (.bool b))
        | _ => .error (.unsupported "logical-text".toList))
     | .f _ => .error (.unsupported "logical-float".toList))
  | .text =>
    (match t.v with
     | .s v => .ok (litFx (.text v))
     | .f _ => .error (.unsupported "text-float".toList))
  | .error =>
    (match t.v with
     | .s v =>
       (match C01.codeOfText v with
        | some c => .ok (litFx (.err c))
        | none => .error (.unsupported "error-code".toList))
     | .f _ => .error (.unsupported "error-float".toList))
  | _ =>
    (match t.v with
     | .s v =>                                   -- `Number.cast(self.tvalue)` of a string
       (match textNumber Ext.none v with
        | .ok n => .ok (litFx (.num n))
        | .nonfinite => .error (.unsupported "nonfinite-literal".toList)
        | .xl _ => .ok (.fail (castErrLen v) [])  -- ValueExcelError RAISED by the node (e.g. the `None` operand)
        | .py _ => .error (.unsupported "literal".toList))
     | .f q => .ok (litFx (.num (.flt q))))      -- a folded percent literal (a float)

def nameIF : Text := "IF".toList
def nameAND : Text := "AND".toList
def nameOR : Text := "OR".toList

/-- the call node once its arguments are compiled -/
def callFx (tvalue : Text) (args : List Fx) : Fx :=
  let name := callName tvalue
  match funcIndex name with
  | none => .fail (keyErrorLen name) args                 -- `context.namespace[func_name]`: KeyError
  | some id =>
    match funcAt id with
    | none => .fail (keyErrorLen name) args
    | some f =>
      match arityCheck f.params args.length with           -- `sig.bind(*self.args)`: TypeError
      | .tooMany => .fail tooManyLen args
      | .missing p => .fail (missingLen p) args
      | .ok =>
        if name = nameIF then
          (match args with
           | [c] => .iff c (litFx (.bool true)) (litFx (.bool false))
           | [c, t] => .iff c t (litFx (.bool false))
           | [c, t, e] => .iff c t e
           | _ => .fail tooManyLen args)
        else if name = nameAND then (if args.isEmpty then litFx (.err .null) else .sc true args)
        else if name = nameOR then (if args.isEmpty then litFx (.err .null) else .sc false args)
        else .app id args

/-- an operator node: the function object bound to the symbol in the (regenerated) table -/
def opFx (table : List (Text × Text)) (sym : Text) (args : List Fx) : Except CErr Fx :=
  match lookup sym table with
  | none => .ok (.fail (keyErrorLen sym) args)             -- `INFIX_OP_TO_FUNC[self.tvalue]`: KeyError
  | some fname =>
    match funcIndex fname with
    | some id => .ok (.app id args)
    | none => .error (.unsupported fname)

mutual
/-- `node.eval(context)`, statically: the parse tree becomes a formula tree of the evaluator model -/
def toFx (sheet : Text) (keys : List Text) : Ast → Except CErr Fx
  | .operand t => operandFx sheet keys t
  | .unop t r =>
    if t.t = .opPre then
      match t.v with
      | .s sym =>
        (match toFx sheet keys r with
         | .ok r' => opFx Gen.prefixOpToFunc sym [r']
         | .error e => .error e)
      | .f _ => .error (.unsupported "operator-float".toList)
    else .error (.unsupported "postfix".toList)
  | .binop t l r =>
    (match t.v with
     | .s sym =>
       (match toFx sheet keys l with
        | .ok l' =>
          (match toFx sheet keys r with
           | .ok r' => opFx Gen.infixOpToFunc sym [l', r']
           | .error e => .error e)
        | .error e => .error e)
     | .f _ => .error (.unsupported "operator-float".toList))
  | .func t args =>
    (match t.v with
     | .s tvalue =>
       (match toFxList sheet keys args with
        | .ok args' => .ok (callFx tvalue args')
        | .error e => .error e)
     | .f _ => .error (.unsupported "function-float".toList))
def toFxList (sheet : Text) (keys : List Text) : List Ast → Except CErr (List Fx)
  | [] => .ok []
  | a :: as =>
    (match toFx sheet keys a with
     | .ok a' =>
       (match toFxList sheet keys as with
        | .ok as' => .ok (a' :: as')
        | .error e => .error e)
     | .error e => .error e)
end

/-! ## the workbook source and `read_and_parse_dict` -/

inductive Content
  | const (v : S)
  | formula (text : Text)
  deriving Repr, Inhabited, DecidableEq

structure Source where
  cells : List (Text × Content)        -- the input dict, in order (keys with or without sheet)
  names : List (Text × Text) := []     -- defined name ↦ reference text (`Sheet1!$A$1`)
  defaultSheet : Text := "Sheet1".toList
  deriving Repr, Inhabited

/-- `XLFormula`: text, sheet, terms -/
structure PreFormula where
  text : Text
  sheet : Text
  terms : List Text
  deriving Repr, Inhabited

structure PreCell where
  value : S
  formula : Option PreFormula
  deriving Repr, Inhabited

/-- `XLFormula.__post_init__`: the token values of the range operands, made full addresses -/
def formulaTerms (sheet : Text) (text : Text) : Except CErr (List Text) :=
  match getTokens text with
  | .error .indexError => .error (.exc .indexError)
  | .error .valueError => .error (.exc .valueError)
  | .ok ts =>
    let refs := ts.filterMap fun t =>
      if t.t = .operand && t.st = .range then (match t.v with | .s v => some v | .f _ => none) else none
    .ok (C03.termsLoop sheet refs [])

/-- the loop of `read_and_parse_dict` -/
def readCells (ds : Text) : List (Text × Content) → List (Text × PreCell) → Except CErr (List (Text × PreCell))
  | [], acc => .ok acc
  | (item, c) :: rest, acc =>
    let addr := if C03.has '!' item then item else ds ++ ['!'] ++ item
    match c with
    | .const v =>
      (match C03.xlCellCheck addr with
       | .val () => readCells ds rest (assocSet addr ⟨v, none⟩ acc)
       | _ => .error (.exc .valueError))
    | .formula text =>
      let sheet := C03.sheetOf addr
      (match formulaTerms sheet text with            -- `XLFormula(...)` is constructed first
       | .error e => .error e
       | .ok terms =>
         (match C03.xlCellCheck addr with
          | .val () => readCells ds rest (assocSet addr ⟨.blank, some ⟨text, sheet, terms⟩⟩ acc)
          | _ => .error (.exc .valueError)))

/-- `build_defined_names` for names bound to a cell (a name of an absent cell is not loaded) -/
def bindNames (cells : List (Text × PreCell)) : List (Text × Text) → List (Text × Text) →
    Except CErr (List (Text × Text))
  | [], acc => .ok acc
  | (n, t) :: rest, acc =>
    let a := C03.nameAddress t
    if C03.has ':' a then .error (.unsupported "named-range".toList)
    else if (assoc a cells).isSome then bindNames cells rest (assocSet n a acc)
    else bindNames cells rest acc

/-- `cells[a] = XLCell(a, None)` for the members of a range that have no cell yet -/
def addBlanks : List Text → List (Text × PreCell) → Except CErr (List (Text × PreCell))
  | [], cells => .ok cells
  | a :: rest, cells =>
    if (assoc a cells).isSome then addBlanks rest cells
    else
      match C03.xlCellCheck a with
      | .val () => addBlanks rest (cells ++ [(a, ⟨.blank, none⟩)])
      | _ => .error (.exc .valueError)

structure Built where
  cells : List (Text × PreCell)
  ranges : List (Text × Range)
  deriving Repr, Inhabited

/-- body of the inner loop of `build_ranges` for one term -/
def buildTerm (ds : Text) (b : Built) (term : Text) : Except CErr Built :=
  let reg : Except CErr (Text × Built) :=
    if C03.has ':' term then
      let range := if C03.has '!' term then term else ds ++ ['!'] ++ term
      match C03.resolveRanges range with
      | .val (_, m) => .ok (range, { b with ranges := assocSet range { cells := m } b.ranges })
      | _ => .error (.exc .valueError)
    else .ok (term, b)
  match reg with
  | .error e => .error e
  | .ok (range, b) =>
    match assoc range b.ranges with
    | some r =>
      (match addBlanks r.cells.flatten b.cells with
       | .ok cells => .ok { b with cells := cells }
       | .error e => .error e)
    | none => .ok b

def buildTerms (ds : Text) : List Text → Built → Except CErr Built
  | [], b => .ok b
  | t :: rest, b =>
    match buildTerm ds b t with
    | .ok b' => buildTerms ds rest b'
    | .error e => .error e

/-- `build_ranges`: over the formulas present when it starts, in insertion order -/
def buildRanges (ds : Text) (cells : List (Text × PreCell)) : Except CErr Built :=
  buildTerms ds ((cells.filterMap fun kc => kc.2.formula.map (·.terms)).flatten) { cells := cells, ranges := [] }

/-- `Model.build_code` for one cell -/
def compileCell (names : List (Text × Text)) (keys : List Text) (a : Text) (c : PreCell) : Except CErr (Addr × Cell) :=
  match c.formula with
  | none => .ok (a, { value := .s c.value, formula := none })
  | some f =>
    match parse names f.text with
    | .error e => .error (crashOfPErr e)
    | .ok ast =>
      match toFx f.sheet keys ast with
      | .error e => .error e
      | .ok fx => .ok (a, { value := .s .blank, formula := some fx, formulaLen := f.text.length })

def compileCells (names : List (Text × Text)) (keys : List Text) :
    List (Text × PreCell) → Except CErr (List (Addr × Cell))
  | [] => .ok []
  | (a, c) :: rest =>
    match compileCell names keys a c with
    | .error e => .error e
    | .ok x =>
      match compileCells names keys rest with
      | .ok xs => .ok (x :: xs)
      | .error e => .error e

/-- `ModelCompiler().read_and_parse_dict(cells)` with the defined names bound where `parse_archive` binds
    them (after the cells are read, before `build_ranges`), then `build_code` -/
def compile (src : Source) : Except CErr MState :=
  match readCells src.defaultSheet src.cells [] with
  | .error e => .error e
  | .ok cells =>
    match bindNames cells src.names [] with
    | .error e => .error e
    | .ok names =>
      match buildRanges src.defaultSheet cells with
      | .error e => .error e
      | .ok b =>
        match compileCells names (b.ranges.map (·.1)) b.cells with
        | .error e => .error e
        | .ok cs => .ok { cells := cs, ranges := b.ranges, names := names }

end XlVerif.Model.X01
