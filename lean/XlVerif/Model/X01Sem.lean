/-
  XlVerif.Model.X01Sem — the integrated pipeline, part 2: the LIBRARY SEMANTICS `libSem : Sem`.

  `libSem.app id args` is what `xl.FUNCTIONS[name](*args)` computes for the function at position `id`
  of `Gen.registry`, composed from the models the property builders wrote separately:

    * the `validate_args` wrapper: `sig.bind`, the loop "an error argument is returned, every other
      argument is `_validate`d by its annotation" (`Model/Validate.validateParam`, driven by the
      function's registry entry), the body, the return cast by the return annotation;
    * the bodies: operators and casts `Model/Value`, text `Model/C17`, math / rounding `Model/C16`,
      aggregates `Model/C14`, criteria / lookups `Model/C15`, dates `Model/C18`, base conversion
      `Model/C19`, financial `Model/C20`, NOT `Model/C10`, the IS-family `Model/Validate`.

  What the property models leave open and this file adds (glue that only the pipeline exercises):
    * `Array` arguments at scalar parameters (`Number.cast(Array)` → `#VALUE!`), `DateTime.cast` of
      an `XlDateTime` parameter (whole days), omitted optional parameters, the return casts;
    * `str(float)` for floats with a short decimal expansion (`x01Ext.floatRepr`), `str(datetime)`
      for whole days — the property drivers run with `Ext.none`;
    * the int / float type of the results of CEILING / FLOOR / TRUNC … (C16 states values only).

  Outside the model (the driver answers `unsupported:<name>`): functions whose value is transcendental
  or float-only except at their exact points (SIN(0), SQRT of a square, LOG10 of a power of ten …),
  IRR / XIRR / XNPV / VDB / YEARFRAC, SUMIF(S) (pandas 3 removed `applymap`), the volatile ones,
  `Array` operands of operators, times of day.

  Core Lean only (linked into `drv_x01`).
-/
import XlVerif.Model.X01
import XlVerif.Model.Validate
import XlVerif.Model.C10
import XlVerif.Model.C14
import XlVerif.Model.C15
import XlVerif.Model.C16
import XlVerif.Model.C17
import XlVerif.Model.C18
import XlVerif.Model.C19
import XlVerif.Model.C20
namespace XlVerif.Model.X01
open XlVerif XlVerif.Model.Evaluator XlVerif.Model.Value XlVerif.Model.Validate XlVerif.Gen

/-! ## sentinels (message lengths no real message has) -/

/-- `raiseRuntime (unsupBase + id)`: the function `id` is not integrated -/
def unsupBase : Nat := 1000000000
/-- `raiseRuntime (dynBase + id)`: the function `id` is integrated, but not on these arguments -/
def dynBase : Nat := 2000000000
/-- `raiseRuntime nonfiniteMark`: an operator produced a non-finite float -/
def nonfiniteMark : Nat := 2900000000
/-- `raiseRuntime inexactMark` (strict run only): a float that double arithmetic does not represent exactly -/
def inexactMark : Nat := 3000000000
/-- `raiseOther (crashBase * (k + 1))`: the body raised the Python exception with index `k`
    (the length of its `repr` is not modelled) -/
def crashBase : Nat := 1000000

def crashIdx : Crash → Nat
  | .typeError => 0 | .valueError => 1 | .zeroDivision => 2 | .overflow => 3 | .recursion => 4
  | .keyError => 5 | .indexError => 6 | .attributeError => 7 | .assertion => 8
  | .invalidOperation => 9 | .runtime => 10 | .syntaxError => 11 | .other => 12

def crashLen (k : Crash) : Nat := crashBase * (crashIdx k + 1)

/-! ## `str(float)`, `str(datetime)` -/

def natDigits (n : Nat) : List Char := (toString n).toList

/-- strip trailing zeros of a positive number: `(c, k)` with `n = c · 10^k`, `10 ∤ c` -/
def stripZeros : Nat → Nat → Nat → Nat × Nat
  | 0, n, k => (n, k)
  | fuel + 1, n, k => if n != 0 && n % 10 == 0 then stripZeros fuel (n / 10) (k + 1) else (n, k)

def pow2Exp : Nat → Nat → Nat → Option Nat
  | 0, _, _ => none
  | fuel + 1, d, k => if d == 1 then some k else if d % 2 == 0 then pow2Exp fuel (d / 2) (k + 1) else none

/-- smallest `k` with `d ∣ 10^k`, when `d = 2^a · 5^b` -/
def decExp : Nat → Nat → Nat → Option Nat
  | 0, _, _ => none
  | fuel + 1, d, k =>
    if d == 1 then some k
    else if d % 10 == 0 then decExp fuel (d / 10) (k + 1)
    else if d % 2 == 0 then decExp fuel (d / 2) (k + 1)
    else if d % 5 == 0 then decExp fuel (d / 5) (k + 1)
    else none

/-- `|q| = c · 10^x` with `10 ∤ c` for a non-zero `q` with a finite decimal expansion -/
def decimalOf (q : Rat) : Option (Nat × Int) :=
  if q = 0 then none else
  match decExp (q.den + 1) q.den 0 with
  | none => none
  | some k =>
    let m := q.num.natAbs * 10 ^ k / q.den
    let (c, z) := stripZeros (m + 1) m 0
    some (c, (z : Int) - (k : Int))

def absR (q : Rat) : Rat := if q < 0 then -q else q

/-- binary mantissa and exponent of a positive rational that IS a (normal) double:
    `q = mant · 2^e` with `2^52 ≤ mant < 2^53` -/
def binaryOf (q : Rat) : Option (Nat × Int) :=
  if q ≤ 0 then none else
  match pow2Exp (q.den + 1) q.den 0 with
  | none => none
  | some j =>
    let k : Int := (Nat.log2 q.num.natAbs : Int) - (j : Int)          -- floor(log2 q)
    if k < -1022 ∨ k > 1023 then none else
    let e := k - 52
    let mr : Rat := q / (2 : Rat) ^ e
    if mr.den = 1 then some (mr.num.toNat, e) else none

/-- a float that double arithmetic represents exactly -/
def exactRat (q : Rat) : Bool := q = 0 || (binaryOf (absR q)).isSome

def pow10R (e : Int) : Rat := (10 : Rat) ^ e

/-- `floor(log10 q)` for `q > 0` -/
def log10Floor (q : Rat) : Int :=
  let est : Int := ((natDigits q.num.natAbs).length : Int) - ((natDigits q.den).length : Int)
  if pow10R est ≤ q then est else est - 1

/-- David Gay's shortest round-trip digits (what `repr(float)` prints) of the positive double `q = mant · 2^e`:
    the shortest decimal inside the rounding interval of `q`, the closest one among those; `(c, x)` = `c · 10^x` -/
def shortestLoop (q lo hi : Rat) (incl : Bool) (E : Int) : Nat → Nat → Nat × Int
  | 0, _ => (0, 0)
  | fuel + 1, n =>
    let x : Int := E - (n : Int) + 1
    let step := pow10R x
    let dl : Rat := ((q / step).floor : Rat) * step
    let dh := dl + step
    let inside (d : Rat) : Bool := if incl then decide (lo ≤ d) && decide (d ≤ hi) else decide (lo < d) && decide (d < hi)
    let pick : Option Rat :=
      match inside dl, inside dh with
      | true, true => some (if q - dl ≤ dh - q then dl else dh)
      | true, false => some dl
      | false, true => some dh
      | false, false => none
    match pick with
    | some d =>
      let c := (d / step).floor.toNat
      let (c', z) := stripZeros (c + 1) c 0
      (c', x + (z : Int))
    | none => shortestLoop q lo hi incl E fuel (n + 1)

def shortestDigits (q : Rat) (mant : Nat) (e : Int) : Nat × Int :=
  let ulp := (2 : Rat) ^ e
  let lowgap := if mant = 2 ^ 52 then ulp / 2 else ulp
  shortestLoop q (q - lowgap / 2) (q + ulp / 2) (mant % 2 == 0) (log10Floor q) 18 1

/-- the significant digits `repr(float)` prints for the double nearest to `|q|` (`q ≠ 0`): the exact expansion of
    a decimal with at most 15 significant digits (the 15-digit round-trip guarantee), the shortest round-trip
    digits of a rational that is a double; `none`: neither -/
def reprDigits (q : Rat) : Option (Nat × Int) :=
  let a := absR q
  match decimalOf a with
  | some (c, x) =>
    if (natDigits c).length ≤ 15 then some (c, x)
    else (binaryOf a).map fun me => shortestDigits a me.1 me.2
  | none => none

def floatMarker : List Char := "<float>".toList

/-- `repr(float)` of the double nearest to `q` -/
def floatRepr (q : Rat) : List Char :=
  if q = 0 then "0.0".toList else
  match reprDigits q with
  | none => floatMarker
  | some (c, x) =>
    let ds := natDigits c
    let n := ds.length
    let e : Int := x + (n : Int) - 1                      -- decimal exponent of the leading digit
    let sign := if q < 0 then ['-'] else []
    let body : List Char :=
      if -4 ≤ e ∧ e < 16 then
        if 0 ≤ x then ds ++ List.replicate x.toNat '0' ++ ['.', '0']
        else if 0 ≤ e then ds.take (e.toNat + 1) ++ '.' :: ds.drop (e.toNat + 1)
        else '0' :: '.' :: List.replicate ((-e).toNat - 1) '0' ++ ds
      else
        let mant := match ds with
          | [d] => [d]
          | d :: rest => d :: '.' :: rest
          | [] => []
        let ea := natDigits e.natAbs
        mant ++ 'e' :: (if e < 0 then '-' else '+') :: (if ea.length < 2 then '0' :: ea else ea)
    sign ++ body

def pad (w : Nat) (n : Int) : List Char :=
  let ds := natDigits n.toNat
  List.replicate (w - ds.length) '0' ++ ds

/-- `str(datetime)` of a whole-day serial -/
def dateRepr (d : Rat) : List Char :=
  if d.den ≠ 1 then "<datetime>".toList else
  match C18.numberToDatetime (.flt d) with
  | .ok t =>
    let c := t.ymd
    pad 4 c.y ++ '-' :: pad 2 c.m ++ '-' :: pad 2 c.d ++ " 00:00:00".toList
  | _ => "<datetime>".toList

/-- the library behaviour assumed by the pipeline: no text is a date (the harness discards workbooks in
    which `dateutil` accepted one), `str(float)` / `str(datetime)` as above, no fractional powers -/
def x01Ext : Ext := ⟨fun _ => none, floatRepr, dateRepr, fun _ _ => none⟩

/-! ## results of the adapters -/

/-- outcome of one piece of a modelled call -/
inductive XR (α : Type)
  | ok (a : α)
  | xl (c : Code)        -- an Excel error RAISED (the wrapper returns it as a value)
  | py (k : Crash)       -- a Python exception
  | rt (n : Nat)         -- a RuntimeError (subclass, e.g. NotImplementedError) with a message of length `n`:
                        -- `evaluate` re-raises it unchanged
  | unsup                -- outside the model
  deriving Repr, Inhabited

namespace XR
def bind {α β} (r : XR α) (f : α → XR β) : XR β :=
  match r with | ok a => f a | xl c => xl c | py k => py k | rt n => rt n | unsup => unsup
def map {α β} (f : α → β) (r : XR α) : XR β := r.bind fun a => ok (f a)
instance : Monad XR where
  pure := XR.ok
  bind := XR.bind
end XR

def XR.ofR {α} : R α → XR α
  | .ok a => .ok a | .xl c => .xl c | .py k => .py k

def vInt (z : Int) : V := .s (.num (.int z))
def vFlt (q : Rat) : V := .s (.num (.flt q))
def vNum (n : Num) : V := .s (.num n)
def vText (t : List Char) : V := .s (.text t)
def vBool (b : Bool) : V := .s (.bool b)
def vErr (c : Code) : V := .s (.err c)

/-! ## arguments -/

def pyOfS : S → Py
  | .num n => .xNumber n | .text t => .xText t | .bool b => .xBoolean b | .blank => .xBlank
  | .date d => .xDateTime d | .err c => .xErr c

def itemOfV : V → Item
  | .s x => .sc (pyOfS x)
  | .arr rows => .arr rows

/-- `sig.bind(*args)`: one value per parameter, `*args` takes the rest; omitted parameters are not bound -/
def bindArgs : List Param → List Item → List PArg
  | [], _ => []
  | p :: ps, args =>
    if p.variadic then [.many args]
    else match args with
      | a :: as => .one a :: bindArgs ps as
      | [] => []

/-- `DateTime.cast(value)` for whole days; the result is the serial of the datetime -/
def castDateTimeS (x : S) : XR S :=
  let ofNum (n : Num) : XR S :=
    if n.toRat.den ≠ 1 then .unsup else
    match C18.castDateTime n with
    | .ok t => .ok (.date (C18.datetimeToNumber t))
    | .err c => .xl c
    | .crash k => .py k
  match x with
  | .date d => .ok (.date d)
  | .num n => ofNum n
  | .bool b => .ok (.date (if b then 36525 else 36524))        -- `Boolean.datetime_true / _false`
  | .blank => .rt 0                                            -- `ExcelType.__datetime__`: NotImplementedError()
  | .text s =>
    (match pyFloatOfText s with
     | some (.fin q) =>                                         -- `number_to_datetime(float(self.value))` …
       (match ofNum (.flt q) with
        | .py _ => .xl .value                                   -- … inside `try … except (ValueError, OverflowError)`
        | r => r)
     | some .nonfinite => .unsup
     | none => .xl .value)                                      -- dateutil refuses every text (`x01Ext`)
  | .err _ => .xl .value

def isScalarAnnot : Annot → Bool
  | .xlNumber => true | .xlText => true | .xlBoolean => true | .xlDateTime => true | _ => false

/-- `_validate(annotation, value)` for one bound parameter: `Validate.validateParam`, plus the two cases it
    leaves open — an `Array` at a scalar parameter (`Number.cast(Array)` raises #VALUE!) and `DateTime.cast` -/
def validateParamX (ext : Ext) (p : Param) (a : PArg) : XR VArg :=
  match a, p.annot with
  | .one (.arr _), .xlNumber => .xl .value
  | .one (.arr _), .xlText => .xl .value
  | .one (.arr _), .xlBoolean => .xl .value
  | .one (.arr _), .xlDateTime => .xl .value
  | .one (.sc v), .xlDateTime =>
    (match pyToS v with
     | .ok s => (castDateTimeS s).map VArg.s
     | .xl c => .xl c
     | .py k => .py k)
  | .one (.sc _), .xlNumber =>
    (match validateParam ext p a with
     | .ok (.s (.num n)) => .ok (.s (.num n))
     | .ok _ => .unsup                                          -- the non-finite placeholder of `castScalar`
     | .xl c => .xl c
     | .py k => .py k)
  | _, _ => XR.ofR (validateParam ext p a)

/-- step 1 of the wrapper (`Validate.validateAll` with `validateParamX`) -/
def validateAllX (ext : Ext) : List Param → List PArg → XR (List VArg)
  | p :: ps, a :: as =>
    (match a with
     | .one (.sc (.xErr c)) => .xl c
     | _ =>
       match validateParamX ext p a with
       | .ok v => (validateAllX ext ps as).map (v :: ·)
       | .xl c => .xl c
       | .py k => .py k
       | .rt n => .rt n
       | .unsup => .unsup)
  | _, _ => .ok []

/-- step 3 of the wrapper: `_validate(sig.return_annotation, res, 'return')` -/
def retCast (ext : Ext) (ret : Annot) (v : V) : XR V :=
  match v with
  | .arr _ => (match ret with
               | .xlNumber => .xl .value | .xlText => .xl .value | .xlBoolean => .xl .value
               | .xlDateTime => .xl .value | _ => .ok v)
  | .s x =>
    match ret with
    | .xlNumber => (match XR.ofR (castScalar ext .number (pyOfS x)) with
                    | .ok (.num n) => .ok (vNum n) | .ok _ => .unsup | .xl c => .xl c | .py k => .py k
                    | .rt n => .rt n | .unsup => .unsup)
    | .xlText => (XR.ofR (castScalar ext .text (pyOfS x))).map V.s
    | .xlBoolean => (XR.ofR (castScalar ext .boolean (pyOfS x))).map V.s
    | .xlDateTime => (castDateTimeS x).map V.s
    | _ => .ok v                                                -- XlAnything / a class / no annotation

/-- the whole `validate_args` wrapper around a body (an Excel error raised by a cast of the RETURN value
    is not caught by the wrapper: it escapes as an exception — modelled as outside the domain) -/
def wrapX (ext : Ext) (f : Func) (body : List VArg → XR V) (args : List V) : XR V :=
  let bound := bindArgs f.params (args.map itemOfV)
  if f.validated then
    match validateAllX ext f.params bound with
    | .ok vs =>
      (match body vs with
       | .ok r => (match retCast ext f.ret r with
                   | .ok v => .ok v | .xl _ => .unsup | .py k => .py k | .rt n => .rt n | .unsup => .unsup)
       | .xl c => .ok (vErr c)
       | .py k => .py k
       | .rt n => .rt n
       | .unsup => .unsup)
    | .xl c => .ok (vErr c)
    | .py k => .py k
    | .rt n => .rt n
    | .unsup => .unsup
  else
    body (bound.map fun a => match a with | .one x => .raw x | .many xs => .rawMany xs)

/-! ## bodies -/

def sOfItem : Item → Option S
  | .sc v => v.typed?
  | .arr _ => none

/-- `Array.cast(value)` of an `XlArray` parameter -/
def rowsOf : VArg → Option (List (List S))
  | .a rows => some rows
  | .raw (.sc v) => v.typed?.map fun s => [[s]]
  | .raw (.arr rows) => some rows
  | _ => none

def ofC15 : C15.Res → XR V
  | .ok (.err c) => .ok (vErr c)
  | .ok v => .ok (.s v)
  | .crash k => .py k
  | .unmodelled => .unsup

def ofC17 {α} (f : α → V) : C17.R α → XR V
  | .ok a => .ok (f a)
  | .error c => .xl c

def ofC18 {α} (f : α → V) : C18.Res α → XR V
  | .ok a => .ok (f a)
  | .err c => .xl c
  | .crash k => .py k

def ofC19 : C19.Res S → XR V
  | .ok s => .ok (.s s)
  | .err c => .xl c
  | .crash .other => .unsup
  | .crash k => .py k

def ofC20 : C20.Res → XR V
  | .ok q => .ok (vFlt q)
  | .err c => .xl c
  | .crash k => .py k
  | .posInf => .unsup
  | .nonfinite => .unsup

def ofVR (f : Num → V) : C14.VR Num → XR V
  | .ok n => .ok (f n)
  | .error (.xl c) => .xl c
  | .error .nonfinite => .unsup
  | .error (.py k) => .py k

/-- results of C16: an uninterpreted primitive that does not answer (`lift .diverge`) is "outside the model" -/
def ofC16 {α} (f : α → V) : C16.Res α → XR V
  | .val a => .ok (f a)
  | .xlerr c => .xl c
  | .crash .other => .unsup
  | .crash k => .py k
  | .nan => .unsup | .posInf => .unsup | .negInf => .unsup

/-- `decimal.Decimal(str(number))` -/
def decOfNum : Num → Option C16.Dec
  | .int z => some ⟨decide (z < 0), z.natAbs, 0⟩
  | .flt q =>
    if q = 0 then some ⟨false, 0, -1⟩ else
    match reprDigits q with
    | none => none
    | some (c, x) =>
      let n := (natDigits c).length
      let e : Int := x + (n : Int) - 1
      if -4 ≤ e ∧ e < 16 ∧ 0 ≤ x then some ⟨decide (q < 0), c * 10 ^ (x.toNat + 1), -1⟩   -- `123.0`
      else some ⟨decide (q < 0), c, x⟩

def rvalFlt : C16.RVal → V
  | .dec d => vFlt d.toRat
  | .num n => vFlt n.toRat

def isSquare (n : Nat) : Bool := Nat.sqrt n * Nat.sqrt n == n

def pow10Log : Nat → Nat → Nat → Option Nat
  | 0, _, _ => none
  | fuel + 1, n, k => if n == 1 then some k else if n % 10 == 0 then pow10Log fuel (n / 10) (k + 1) else none

def at0 (q : Rat) (v : Rat) : Out Rat := if q = 0 then .val v else .diverge
def at1 (q : Rat) (v : Rat) : Out Rat := if q = 1 then .val v else .diverge

/-- the primitives at the arguments where their value is rational and libm is exact; `.diverge` = not modelled -/
def exactPrims : C16.Prims where
  sin q := at0 q 0
  cos q := at0 q 1
  tan q := at0 q 0
  asin q := at0 q 0
  acos q := at1 q 0
  atan q := at0 q 0
  cosh q := at0 q 1
  asinh q := at0 q 0
  acosh q := at1 q 0
  exp q := at0 q 1
  ln q := at1 q 0
  log10 q :=
    if q.den = 1 ∧ 0 < q.num then
      (match pow10Log (q.num.toNat + 1) q.num.toNat 0 with
       | some k => if k ≤ 15 then .val k else .diverge
       | none => .diverge)
    else .diverge
  sqrt q :=
    if 0 ≤ q ∧ isSquare q.num.toNat ∧ isSquare q.den then
      .val ((Nat.sqrt q.num.toNat : Rat) / (Nat.sqrt q.den : Rat))
    else .diverge
  degrees q := at0 q 0
  radians q := at0 q 0
  atan2 y x := if y = 0 ∧ 0 < x then .val 0 else .diverge
  pow x y :=
    if y.den = 1 ∧ y.num.natAbs ≤ 4096 then
      (if x = 0 ∧ y < 0 then .crash .zeroDivision else .val (x ^ y.num))
    else .diverge
  logb x b := if x = 1 then .val 0 else if x = b then .val 1 else .diverge
  pi := 0

def numOfV : VArg → Option Num
  | .s (.num n) => some n
  | _ => none

def wholeNat (n : Num) : Option Nat :=
  let q := n.toRat
  if q.den = 1 ∧ 0 ≤ q.num then some q.num.toNat else none

def dtOf (d : Rat) : C18.Res C18.DT := C18.numberToDatetime (.flt d)

def dateV (t : C18.DT) : V := .s (.date (C18.datetimeToNumber t))

def argOfV : V → C14.Arg
  | .s x => .scalar (pyOfS x)
  | .arr rows => .arr (rows.map fun r => r.map pyOfS)

def flattenVs : List V → List S
  | [] => []
  | .s x :: rest => x :: flattenVs rest
  | .arr rows :: rest => rows.flatten ++ flattenVs rest

def textsOf : List S → Option (List (List Char))
  | [] => some []
  | .text t :: rest => (textsOf rest).map (t :: ·)
  | _ :: _ => none

def numsOf : List S → Option (List Num)
  | [] => some []
  | .num n :: rest => (numsOf rest).map (n :: ·)
  | _ :: _ => none

/-- body (after `validate_args`) of the function called `name`; `none` = the function is not integrated.
    `args` are the evaluated arguments (for the bodies modelled together with their wrapper). -/
def bodyOf (ext : Ext) (name : String) : Option (List VArg → XR V) :=
  let P := exactPrims
  let n1 (f : Num → XR V) : Option (List VArg → XR V) :=
    some fun vs => match vs with | [.s (.num a)] => f a | _ => .unsup
  let n2 (f : Num → Num → XR V) : Option (List VArg → XR V) :=
    some fun vs => match vs with | [.s (.num a), .s (.num b)] => f a b | _ => .unsup
  let t1 (f : List Char → XR V) : Option (List VArg → XR V) :=
    some fun vs => match vs with | [.s (.text a)] => f a | _ => .unsup
  let rnd (f : C16.Dec → Num → C16.Res C16.RVal) : Option (List VArg → XR V) :=
    some fun vs =>
      let go (x nd : Num) : XR V :=
        if (C16.pyInt nd).natAbs > 400 then .unsup else
        match decOfNum x with
        | some d => ofC16 rvalFlt (f d nd)
        | none => .unsup
      match vs with
      | [.s (.num x)] => go x (.int 0)
      | [.s (.num x), .s (.num nd)] => go x nd
      | _ => .unsup
  -- `Model.C19.pyFloatText` covers plain decimals; Python's `float` also reads exponents, `_`, inf / nan
  let c19Gap (x : S) : Bool := match x with
    | .text t => (C19.pyFloatText t).isNone && (pyFloatOfText t).isSome
    | _ => false
  let conv (nm : String) : Option (List VArg → XR V) :=
    some fun vs => match vs with
      | [.s x] => if c19Gap x then .unsup else ofC19 (C19.call nm.toList x none)
      | [.s x, .s p] => if c19Gap x || c19Gap p then .unsup else ofC19 (C19.call nm.toList x (some p))
      | _ => .unsup
  let dt1 (f : C18.DT → XR V) (d : Rat) : XR V :=
    match dtOf d with | .ok t => f t | .err c => .xl c | .crash k => .py k
  match name with
  -- math.py ----------------------------------------------------------------------------------
  | "ABS" => n1 fun a => ofC16 vNum (C16.ABS a)
  | "ACOS" => n1 fun a => ofC16 vNum (C16.ACOS P a)
  | "ACOSH" => n1 fun a => ofC16 vNum (C16.ACOSH P a)
  | "ASIN" => n1 fun a => ofC16 vNum (C16.ASIN P a)
  | "ASINH" => n1 fun a => ofC16 vNum (C16.ASINH P a)
  | "ATAN" => n1 fun a => ofC16 vNum (C16.ATAN P a)
  | "ATAN2" => n2 fun a b => ofC16 vNum (C16.ATAN2 P a b)
  | "COS" => n1 fun a => ofC16 vNum (C16.COS P a)
  | "COSH" => n1 fun a => ofC16 vNum (C16.COSH P a)
  | "DEGREES" => n1 fun a => ofC16 vNum (C16.DEGREES P a)
  | "EXP" => n1 fun a => ofC16 vNum (C16.EXP P a)
  | "LN" => n1 fun a => ofC16 vNum (C16.LN P a)
  | "LOG10" => n1 fun a => ofC16 vNum (C16.LOG10 P a)
  | "LOG" => some fun vs => match vs with
      | [.s (.num a)] => ofC16 vNum (C16.LOG P a (.int 10))
      | [.s (.num a), .s (.num b)] => ofC16 vNum (C16.LOG P a b)
      | _ => .unsup
  | "RADIANS" => n1 fun a => ofC16 vNum (C16.RADIANS P a)
  | "SIN" => n1 fun a => ofC16 vNum (C16.SIN P a)
  | "SQRT" => n1 fun a => ofC16 vNum (C16.SQRT P a)
  | "TAN" => n1 fun a => ofC16 vNum (C16.TAN P a)
  | "POWER" => n2 fun a b => ofC16 vNum (C16.POWER P a b)
  | "SIGN" => n1 fun a => ofC16 vNum (C16.SIGN a)
  | "FACT" => n1 fun a => if a.toRat > 3000 then .unsup else ofC16 vNum (C16.FACT a)
  | "FACTDOUBLE" => n1 fun a => if a.toRat > 3000 then .unsup else ofC16 vNum (C16.FACTDOUBLE a)
  | "MOD" => n2 fun a b => ofC16 vNum (C16.MOD a b)
  | "ROUND" => rnd C16.ROUND
  | "ROUNDUP" => rnd C16.ROUNDUP
  | "ROUNDDOWN" => rnd C16.ROUNDDOWN
  | "INT" => n1 fun a => match decOfNum a with
      | some d => ofC16 rvalFlt (C16.INT d)
      | none => .unsup
  | "TRUNC" => some fun vs =>
      let go (x nd : Num) : XR V :=
        if (C16.pyInt nd).natAbs > 400 then .unsup else
        match decOfNum x with
        | some d => ofC16 (fun r => match r with | .num n => vNum n | .dec e => vFlt e.toRat) (C16.TRUNC d nd)
        | none => .unsup
      match vs with
      | [.s (.num x)] => go x (.int 0)
      | [.s (.num x), .s (.num nd)] => go x nd
      | _ => .unsup
  | "EVEN" => n1 fun a => match decOfNum a with
      | some d => ofC16 (fun r => match r with | .num n => vNum n | .dec e => vFlt e.toRat) (C16.EVEN d)
      | none => .unsup
  | "CEILING" => n2 fun a s => match decOfNum a, decOfNum s with
      | some x, some y => ofC16 (fun r => match r with | .num n => vNum n | .dec e => vFlt e.toRat) (C16.CEILING x y)
      | _, _ => .unsup
  | "FLOOR" => n2 fun a s => match decOfNum a, decOfNum s with
      | some x, some y =>
        -- `significance * math.floor(number / significance)`: a `Number` times an int keeps the type of the significance
        ofC16 (fun r => match r with
          | .num n => vNum n
          | .dec e => (match s with
                       | .int _ => (if e.toRat.den = 1 then vInt e.toRat.num else vFlt e.toRat)
                       | .flt _ => vFlt e.toRat)) (C16.FLOOR x y)
      | _, _ => .unsup
  -- text.py ----------------------------------------------------------------------------------
  | "LEN" => t1 fun t => ofC17 vInt (C17.LEN t)
  -- `str.upper` / `str.lower` are modelled for ASCII
  | "LOWER" => t1 fun t => if t.all (fun c => c.toNat < 128) then ofC17 vText (C17.LOWER t) else .unsup
  | "UPPER" => t1 fun t => if t.all (fun c => c.toNat < 128) then ofC17 vText (C17.UPPER t) else .unsup
  | "TRIM" => t1 fun t => ofC17 vText (C17.TRIM t)
  | "EXACT" => some fun vs => match vs with
      | [.s (.text a), .s (.text b)] => ofC17 vBool (C17.EXACT a b)
      | _ => .unsup
  | "LEFT" => some fun vs => match vs with
      | [.s (.text t)] => ofC17 vText (C17.LEFT t (.int 1))
      | [.s (.text t), .s (.num n)] => ofC17 vText (C17.LEFT t n)
      | _ => .unsup
  | "RIGHT" => some fun vs => match vs with
      | [.s (.text t)] => ofC17 vText (C17.RIGHT t (.int 1))
      | [.s (.text t), .s (.num n)] => ofC17 vText (C17.RIGHT t n)
      | _ => .unsup
  | "MID" => some fun vs => match vs with
      | [.s (.text t), .s (.num a), .s (.num b)] => ofC17 vText (C17.MID t a b)
      | _ => .unsup
  | "FIND" => some fun vs => match vs with
      | [.s (.text a), .s (.text b)] => ofC17 vInt (C17.FIND a b (.int 1))
      | [.s (.text a), .s (.text b), .s (.num n)] => ofC17 vInt (C17.FIND a b n)
      | _ => .unsup
  | "REPLACE" => some fun vs => match vs with
      | [.s (.text a), .s (.num p), .s (.num k), .s (.text b)] => ofC17 vText (C17.REPLACE a p k b)
      | _ => .unsup
  | "CONCAT" => some fun vs => match vs with
      | [.tup xs] => (match textsOf xs with
                      | some ts => ofC17 vText (C17.CONCAT ts)
                      | none => .unsup)
      | [] => ofC17 vText (C17.CONCAT [])
      | _ => .unsup
  | "CONCATENATE" => some fun vs => match vs with
      -- `CONCAT([Text.cast(parameter) for parameter in parameters])`: one list argument, no count limit
      | [.tup xs] => .ok (vText ((xs.map (toStr ext)).flatten))
      | [] => .ok (vText [])
      | _ => .unsup
  -- statistics.py / lookup.py (criteria and lookups) -----------------------------------------
  | "COUNTIF" => some fun vs => match vs with
      | [r, .s crit] => (match rowsOf r with
                         | some rows => ofC15 (C15.COUNTIF ext rows.flatten crit)
                         | none => .unsup)
      | [_, .raw (.arr _)] => .xl .value               -- "Array criteria not supported."
      | _ => .unsup
  | "COUNTIFS" => some fun vs => match vs with
      | [r, .s crit] => (match rowsOf r with
                         | some rows => ofC15 (C15.COUNTIFS ext rows.flatten crit [])
                         | none => .unsup)
      | [r, .s crit, .tup rest] => (match rowsOf r with
                                    | some rows => ofC15 (C15.COUNTIFS ext rows.flatten crit rest)
                                    | none => .unsup)
      | _ => .unsup
  | "MATCH" => some fun vs =>
      -- `Model.C15.MATCH` models `sorted(lookup_array)` and the list `!=` of CPython (error and blank cells
      -- included); `Res.unmodelled` (long arrays that are not one run) is "outside the model" (`ofC15`)
      match vs with
      | [.s key, r] => (match rowsOf r with
                        | some rows => ofC15 (C15.MATCH key rows (.num (.int 1)))
                        | none => .unsup)
      | [.s key, r, .s mt] => (match rowsOf r with
                               | some rows => ofC15 (C15.MATCH key rows mt)
                               | none => .unsup)
      | _ => .unsup
  | "VLOOKUP" => some fun vs => match vs with
      | [.s key, r, .s (.num col)] => (match rowsOf r with
                                       | some rows => ofC15 (C15.VLOOKUP key rows col false)
                                       | none => .unsup)
      | [.s key, r, .s (.num col), .raw (.sc rl)] =>
        (match rowsOf r, rl.typed? with
         | some rows, some x =>
           -- `raise NotImplementedError('Excact match only supported at the moment.')`: a RuntimeError
           if truthy x then .rt 42 else ofC15 (C15.VLOOKUP key rows col false)
         | _, _ => .unsup)
      | _ => .unsup
  | "CHOOSE" => some fun vs => match vs with
      | .s idx :: rest =>
        let items : List Item := match rest with | [.rawMany xs] => xs | _ => []
        (match C15.CHOOSE ext idx ((List.range items.length).map fun (i : Nat) => S.num (.int (Int.ofNat i))) with
         | .ok (.num (.int i)) =>
           (match items[i.toNat]? with
            | some (.sc v) => (match v.typed? with | some s => .ok (.s s) | none => .unsup)
            | some (.arr rows) => .ok (.arr rows)
            | none => .unsup)
         | r => ofC15 r)
      | _ => .unsup
  -- date.py ----------------------------------------------------------------------------------
  | "DATE" => some fun vs => match vs with
      | [.s (.num y), .s (.num m), .s (.num d)] => ofC18 dateV (C18.DATE y m d)
      | _ => .unsup
  | "DAY" => n1 fun a => ofC18 vInt (C18.DAY a)
  | "MONTH" => n1 fun a => ofC18 vInt (C18.MONTH a)
  | "YEAR" => n1 fun a => ofC18 vInt (C18.YEAR a)
  | "WEEKDAY" => some fun vs => match vs with
      | [.s (.num a)] => ofC18 vInt (C18.WEEKDAY a none)
      | [.s (.num a), .s (.num rt)] => ofC18 vInt (C18.WEEKDAY a (some rt))
      | _ => .unsup
  | "ISOWEEKNUM" => some fun vs => match vs with
      | [.s (.date d)] => dt1 (fun t => ofC18 vInt (C18.ISOWEEKNUM t)) d
      | _ => .unsup
  | "DAYS" => some fun vs => match vs with
      | [.s (.date e), .s (.date s)] => dt1 (fun te => dt1 (fun ts => ofC18 vFlt (C18.DAYS te ts)) s) e
      | _ => .unsup
  | "EDATE" => some fun vs => match vs with
      | [.s (.date d), .s (.num k)] => dt1 (fun t => ofC18 dateV (C18.EDATE t k)) d
      | _ => .unsup
  | "EOMONTH" => some fun vs => match vs with
      | [.s (.date d), .s (.num k)] => dt1 (fun t => ofC18 vFlt (C18.EOMONTH t k)) d
      | _ => .unsup
  | "DATEDIF" => some fun vs => match vs with
      | [.s (.date a), .s (.date b), .s (.text u)] =>
        dt1 (fun ta => dt1 (fun tb =>
          let uu := u.map C18.upperChar
          -- a unit that is none of the six falls off the end: `None`, which the return cast refuses
          if uu = ['Y'] ∨ uu = ['M'] ∨ uu = ['D'] ∨ uu = ['M', 'D'] ∨ uu = ['Y', 'M'] ∨ uu = ['Y', 'D'] then
            ofC18 vInt (C18.DATEDIF ta tb u)
          else (match C18.DATEDIF ta tb u with
                | .err c => .xl c
                | .crash k => .py k
                | .ok _ => .ok (.s .blank))) b) a
      | _ => .unsup
  -- engineering.py ---------------------------------------------------------------------------
  | "BIN2DEC" => conv "BIN2DEC" | "BIN2HEX" => conv "BIN2HEX" | "BIN2OCT" => conv "BIN2OCT"
  | "DEC2BIN" => conv "DEC2BIN" | "DEC2HEX" => conv "DEC2HEX" | "DEC2OCT" => conv "DEC2OCT"
  | "HEX2BIN" => conv "HEX2BIN" | "HEX2DEC" => conv "HEX2DEC" | "HEX2OCT" => conv "HEX2OCT"
  | "OCT2BIN" => conv "OCT2BIN" | "OCT2DEC" => conv "OCT2DEC" | "OCT2HEX" => conv "OCT2HEX"
  -- financial.py -----------------------------------------------------------------------------
  | "NPV" => some fun vs => match vs with
      | [.s (.num r)] => ofC20 (C20.NPV r.toRat [])
      | [.s (.num r), .tup xs] => (match numsOf xs with
                                  | some ns => ofC20 (C20.NPV r.toRat (ns.map Num.toRat))
                                  | none => .unsup)
      | _ => .unsup
  | "SLN" => some fun vs => match vs with
      | [.s (.num c), .s (.num s), .s (.num l)] => ofC20 (C20.SLN c.toRat s.toRat l.toRat)
      | _ => .unsup
  | "PMT" => some fun vs =>
      let go (r n pv fv ty : Num) : XR V :=
        match wholeNat n with
        | some k => if k > 4096 then .unsup else ofC20 (C20.PMT r.toRat k pv.toRat fv.toRat ty.toRat)
        | none => .unsup
      match vs.mapM numOfV with
      | some [r, n, pv] => go r n pv (.int 0) (.int 0)
      | some [r, n, pv, fv] => go r n pv fv (.int 0)
      | some [r, n, pv, fv, ty] => go r n pv fv ty
      | _ => .unsup
  | "PV" => some fun vs =>
      let go (r n pmt fv ty : Num) : XR V :=
        match wholeNat n with
        | some k => if k > 4096 then .unsup else ofC20 (C20.PV r.toRat k pmt.toRat fv.toRat ty)
        | none => .unsup
      match vs.mapM numOfV with
      | some [r, n, pmt] => go r n pmt (.int 0) (.int 0)
      | some [r, n, pmt, fv] => go r n pmt fv (.int 0)
      | some [r, n, pmt, fv, ty] => go r n pmt fv ty
      | _ => .unsup
  -- logical.py / information.py --------------------------------------------------------------
  | "NOT" => some fun vs => match vs with
      | [.raw (.sc v)] => (match v.typed? with
                           | some (.err c) => .xl c
                           | some x => .ok (C10.notV (.s x))
                           | none => .unsup)
      | _ => .unsup
  | "TRUE" => some fun _ => .ok (vBool true)
  | "FALSE" => some fun _ => .ok (vBool false)
  | "NA" => some fun _ => .ok (vErr .na)
  | "ISBLANK" => some fun vs => match vs with | [.s x] => .ok (.s (ISBLANK x)) | _ => .unsup
  | "ISNUMBER" => some fun vs => match vs with | [.s x] => .ok (.s (ISNUMBER x)) | _ => .unsup
  | "ISTEXT" => some fun vs => match vs with | [.s x] => .ok (.s (ISTEXT x)) | _ => .unsup
  | "ISEVEN" => n1 fun a => .ok (vBool (C16.ISEVEN a))
  | "ISODD" => n1 fun a => .ok (vBool (C16.ISODD a))
  | "ISERR" => some fun vs => match vs with
      | [.raw (.sc v)] => (match v.typed? with | some x => .ok (vBool (ISERR x)) | none => .unsup)
      | [.raw (.arr _)] => .ok (vBool false)
      | _ => .unsup
  | "ISERROR" => some fun vs => match vs with
      | [.raw (.sc v)] => (match v.typed? with | some x => .ok (vBool (ISERROR x)) | none => .unsup)
      | [.raw (.arr _)] => .ok (vBool false)
      | _ => .unsup
  | "ISNA" => some fun vs => match vs with
      | [.raw (.sc v)] => (match v.typed? with | some x => .ok (vBool (ISNA x)) | none => .unsup)
      | [.raw (.arr _)] => .ok (vBool false)
      | _ => .unsup
  | "OP_PERCENT" => n1 fun a => .ok (vFlt (a.toRat * (1 / 100)))
  | _ => none

/-- functions modelled together with their wrapper (the aggregates of C14: `Tuple[XlNumber]`,
    un-annotated `*values`, `Tuple[XlArray]`) -/
def aggregateOf (ext : Ext) (name : String) : Option (List V → XR V) :=
  let go (f : List C14.Arg → C14.VR Num) : Option (List V → XR V) :=
    some fun args => match ofVR vNum (f (args.map argOfV)) with
      | .xl c => .ok (vErr c)                          -- raised inside the wrapper: returned as a value
      | r => r
  match name with
  | "SUM" => go (C14.SUM ext)
  | "AVERAGE" => go (C14.AVERAGE ext)
  | "MIN" => go (C14.MIN ext)
  | "MAX" => go (C14.MAX ext)
  | "COUNT" => go C14.COUNT
  | "COUNTA" => go C14.COUNTA
  | "SUMPRODUCT" => go (C14.SUMPRODUCT ext)
  | _ => none

/-! ## operators (`Model/Value`, as `Model/C01` applies them, with the library behaviour `ext`) -/

/-- `Model.C01.applyInfix` with the library behaviour as a parameter -/
def applyInfixE (ext : Ext) (fname : List Char) (l r : S) : OpR :=
  if fname = "OP_MUL".toList then binop ext .mul l r
  else if fname = "OP_DIV".toList then binop ext .div l r
  else if fname = "OP_ADD".toList then binop ext .add l r
  else if fname = "OP_SUB".toList then binop ext .sub l r
  else if fname = "POWER".toList then power ext l r
  else if fname = "CONCAT".toList then concat ext l r
  else if fname = "OP_EQ".toList then binop ext .eq l r
  else if fname = "OP_NE".toList then binop ext .ne l r
  else if fname = "OP_GT".toList then binop ext .gt l r
  else if fname = "OP_LT".toList then binop ext .lt l r
  else if fname = "OP_GE".toList then binop ext .ge l r
  else if fname = "OP_LE".toList then binop ext .le l r
  else .py .other

/-- `Model.C01.applyPrefix` with the library behaviour as a parameter -/
def applyPrefixE (ext : Ext) (fname : List Char) (x : S) : OpR :=
  if fname = "OP_NEG".toList then neg ext x
  else if fname = "OP_PERCENT".toList then percent ext x
  else .py .other

def ofOpR : OpR → AppR
  | .val s => .val (.s s)
  | .nonfinite => .raiseRuntime nonfiniteMark
  | .py k => .raiseOther (crashLen k)

def isInfixName (n : List Char) : Bool := Gen.infixOpToFunc.any fun e => e.2 == n
def isPrefixName (n : List Char) : Bool := Gen.prefixOpToFunc.any fun e => e.2 == n

/-- `^` / POWER outside the model: a non-integral power of a non-negative base is irrational
    (`Value.power` answers `#NUM!` there, the `OverflowError` convention of `Ext.powFrac`), and a huge
    exponent is not computed -/
def powerOutside (fname : List Char) (l r : S) : Bool :=
  fname = "POWER".toList &&
  (match toNumber Ext.none l, toNumber Ext.none r with
   | .ok a, .ok b => (decide (0 ≤ a.toRat) && !(Num.isIntegral b)) || decide (b.toRat.num.natAbs > 4096)
   | _, _ => false)

def ofXR (id : Nat) : XR V → AppR
  | .ok v => .val v
  | .xl c => .val (vErr c)
  | .py k => .raiseOther (crashLen k)
  | .rt n => .raiseRuntime n
  | .unsup => .raiseRuntime (dynBase + id)

/-- every other registered function -/
def funApp (ext : Ext) (id : Nat) (f : Func) (args : List V) : AppR :=
  let name := String.ofList f.name
  match aggregateOf ext name with
  | some g => ofXR id (g args)
  | none =>
    match bodyOf ext name with
    | some body => ofXR id (wrapX ext f body args)
    | none => .raiseRuntime (unsupBase + id)

/-- `func(*args)` for the function at position `id` of the registry -/
def appOf (ext : Ext) (id : Nat) (args : List V) : AppR :=
  match funcAt id with
  | none => .raiseOther (crashLen .keyError)
  | some f =>
    match args with
    | [.s x, .s y] =>
      if isInfixName f.name then ofOpR (applyInfixE ext f.name x y) else funApp ext id f args
    | [.s x] =>
      if isPrefixName f.name then ofOpR (applyPrefixE ext f.name x) else funApp ext id f args
    | _ => funApp ext id f args

/-- `bool(test)` as IF / AND / OR use it (`Model.C10.truthOf`) -/
def libTruth : V → Option Bool := C10.truthOf

/-- the library semantics, for a given library behaviour -/
def libSemOf (ext : Ext) : Sem := ⟨appOf ext, libTruth⟩

/-- **the library semantics of the pipeline** -/
def libSem : Sem := libSemOf x01Ext

/-- `sem` restricted to the domain of the model: `^` / POWER outside it raises the sentinel.  The driver
    validates `guardOf libSem`; the theorems are about `libSem` (and every other `Sem`). -/
def guardOf (sem : Sem) : Sem where
  app id args :=
    match funcAt id, args with
    | some f, [.s x, .s y] => if powerOutside f.name x y then .raiseRuntime (dynBase + id) else sem.app id args
    | _, _ => sem.app id args
  truth := sem.truth

/-! ## the exactness probes: is every float of this evaluation exact in double arithmetic (strict)? if not, is
       every step at least well-conditioned (soft)? -/

def niceS : S → Bool
  | .num (.flt q) => exactRat q
  | .num (.int z) => z.natAbs < 2 ^ 53          -- `float(int)` is exact
  | .date d => d.den = 1
  | _ => true

def niceV : V → Bool
  | .s x => niceS x
  | .arr rows => rows.all fun r => r.all niceS

def negS : S → Bool
  | .num n => n.toRat < 0
  | _ => false

def negV : V → Bool
  | .s x => negS x
  | .arr rows => rows.any fun r => r.any negS

def isPrefixCall (id : Nat) : Bool :=
  match funcAt id with | some f => isPrefixName f.name | none => false

/-- `sem`, except that a call that takes or returns a number outside `niceS` raises the sentinel `inexactMark`;
    so does a float zero computed from a negative argument or by the unary minus (IEEE: possibly `-0.0`, whose
    text differs; ideal reals have one zero) -/
def strictOf (sem : Sem) : Sem where
  app id args :=
    if args.all niceV then
      (match sem.app id args with
       | .val v =>
         if !niceV v then .raiseRuntime inexactMark
         else if v == .s (.num (.flt 0)) && (args.any negV || isPrefixCall id) then .raiseRuntime inexactMark
         else .val v
       | r => r)
    else .raiseRuntime inexactMark
  truth := sem.truth

def magS : S → Rat
  | .num n => absR n.toRat
  | .date d => absR d
  | _ => 0

def maxMag : List V → Rat
  | [] => 0
  | .s x :: rest => max (magS x) (maxMag rest)
  | .arr rows :: rest => max (rows.flatten.foldl (fun m x => max m (magS x)) 0) (maxMag rest)

/-- functions that are continuous in their numeric arguments with a small condition number -/
def smoothNames : List String :=
  ["OP_ADD", "OP_SUB", "OP_MUL", "OP_DIV", "OP_NEG", "OP_PERCENT", "SUM", "AVERAGE", "ABS", "MIN", "MAX", "SUMPRODUCT",
   "POWER", "SLN"]
/-- … of which these add (a result much smaller than the operands is a cancellation: its rounding error is not small) -/
def additiveNames : List String := ["OP_ADD", "OP_SUB", "SUM", "AVERAGE", "SUMPRODUCT", "SLN"]
def compareNames : List String := ["OP_EQ", "OP_NE", "OP_LT", "OP_GT", "OP_LE", "OP_GE"]

/-- the soft probe: like `strictOf`, but a float that is not a double (0.1, 1E-20, 1/3) may go through a
    well-conditioned step — a smooth function without cancellation, a comparison whose operands are a relative
    1e-6 apart; every other use of such a float (rounding, text conversion, truncation, a near-tie comparison …)
    raises `inexactMark`.  An evaluation that passes is compared with a relative tolerance of 1e-9. -/
def softOf (sem : Sem) : Sem where
  app id args :=
    match (strictOf sem).app id args with
    | .raiseRuntime n =>
      if n ≠ inexactMark then .raiseRuntime n else
      let name := match funcAt id with | some f => String.ofList f.name | none => ""
      let r := sem.app id args
      if smoothNames.contains name then
        (match r with
         | .val (.s (.num (.flt x))) =>
           let m := maxMag args
           -- a zero (possibly -0.0, or the ideal value of a residue), and a result that IS a double although an
           -- operand was none (0.2^-2 = 25: the code computes 24.999999999999996, and nothing downstream would
           -- see that the value is tainted): not vouched for
           if x = 0 || exactRat x then .raiseRuntime inexactMark
           else if decide (absR x < (2 : Rat) ^ (-1021 : Int)) then .raiseRuntime inexactMark     -- subnormal: few bits
           else if additiveNames.contains name && decide (absR x * 1000 < m) then .raiseRuntime inexactMark
           else r
         | _ => r)
      else if compareNames.contains name then
        (match args with
         | [.s (.num a), .s (.num b)] =>
           let x := a.toRat
           let y := b.toRat
           if decide (absR (x - y) * 1000000 > max (absR x) (absR y)) then r else .raiseRuntime inexactMark
         | _ => r)
      else .raiseRuntime inexactMark
    | r => r
  truth := sem.truth

/-! ## coverage -/

def volatileNames : List String := ["NOW", "TODAY", "RAND", "RANDBETWEEN"]

/-- is the registered function `f` integrated (everywhere, or at least on part of its domain)? -/
def integrated (f : Func) : Bool :=
  let name := String.ofList f.name
  isInfixName f.name || isPrefixName f.name || (aggregateOf x01Ext name).isSome || (bodyOf x01Ext name).isSome
    || name == "IF" || name == "AND" || name == "OR"

/-- integrated only at their exact points (elsewhere `unsupported`) -/
def exactPointOnly : List String :=
  ["ACOS", "ACOSH", "ASIN", "ASINH", "ATAN", "ATAN2", "COS", "COSH", "DEGREES", "EXP", "LN", "LOG", "LOG10",
   "RADIANS", "SIN", "SQRT", "TAN"]

def integratedNames : List String := (Gen.registry.filter integrated).map fun f => String.ofList f.name
def notIntegratedNames : List String := (Gen.registry.filter fun f => !integrated f).map fun f => String.ofList f.name

end XlVerif.Model.X01
