/-
  XlVerif.Props.C01 — Formulas evaluate under Excel's operator precedence and associativity.

  `C01`: for every well-formed operator formula `e` (numeric literals — plain, decimal, scientific,
  percent —, cell references, parentheses, unary minus, the twelve binary operators), every placement of
  blanks `b`, and every assignment of numbers to cells, evaluating the text `render b e` with the model of
  tokenizer → parser → `OperatorNode.eval` → operator functions returns `denote e env`, the value of the
  expression under Excel's grammar (the grammar itself is `Spec.C02.WF`: unary minus tightest, then `%`,
  `^`, `* /`, `+ -`, `&`, comparisons; binary operators left-associative).  Unbounded in the size of `e`;
  it composes `C02.parse_render` (text ↦ tree, all blank placements) with `eval_denote` (tree ↦ value)
  and the table obligation `op_func_table`.  Full strength: texts produced by `&` that flow into an
  arithmetic operator or a unary minus (`(1&2)+3 = 15`) are covered — Spec and model hold the same text
  and `Lemmas.C01.pyIntOfText_intOfText` shows the model's `int(text)` reads every `-?digits+` text as
  the reference reading `intOfText` does.

  `denote` is `undef` — and nothing is claimed — where the statement is silent: text form of
  non-integers and booleans under `&`, non-integral exponents, `0^0`, texts that are not `-?digits+` in
  arithmetic (Excel and the library read `1-2` as a date).  Hypotheses: the cells hold numbers, integral
  ones as Python ints (`EnvOK`); every literal is a finite double (`LitsFinite`).
-/
import XlVerif.Lemmas.C01
import XlVerif.Props.C02
namespace XlVerif.Props.C01
open XlVerif XlVerif.Model.Tokenizer XlVerif.Model.Parser XlVerif.Model.C01
open XlVerif.Spec.C02 XlVerif.Spec.C01 XlVerif.Lemmas.C02 XlVerif.Lemmas.C01

/-! ### table obligation -/

/-- `op_func_table`: `INFIX_OP_TO_FUNC` binds every operator symbol to the function the semantics names
    (`*`↦OP_MUL, `/`↦OP_DIV, `+`↦OP_ADD, `-`↦OP_SUB, `^`↦POWER, `&`↦CONCAT, `=`↦OP_EQ, `<>`↦OP_NE, `<`↦OP_LT,
    `>`↦OP_GT, `<=`↦OP_LE, `>=`↦OP_GE) and `PREFIX_OP_TO_FUNC` binds `-` to OP_NEG -/
theorem op_func_table : OpFuncOK Gen.infixOpToFunc Gen.prefixOpToFunc := by
  constructor
  · intro o; cases o <;> decide
  · decide

/-! ### tree ↦ value -/

/-- `eval_denote`: evaluation of the expected parse tree = `denote` -/
theorem eval_denote (m : Model.C01.Env) (s : Spec.C01.Env) (henv : EnvOK m s) (e : Expr)
    (hwf : WF e) (hin : inC01 e = true) (hfin : LitsFinite e)
    (hu : denote s e ≠ .undef) : Agree (evalAst m (astOf e)) (denote s e) :=
  Lemmas.C01.eval_denote op_func_table m s henv e hwf hin hfin hu

/-- the model's `int(text)` reads every `-?digits+` text as the reference semantics does -/
theorem int_of_text (t : List Char) (z : Int) (h : intOfText t = some z) :
    Model.Value.pyIntOfText t = some z := pyIntOfText_intOfText t z h

/-! ### text ↦ value -/

theorem evaluate_render (e : Expr) (hwf : WF e) (b : Blanks) (m : Model.C01.Env) :
    evaluateFormula (render b e) m = evalAst m (astOf e) := by
  unfold evaluateFormula
  rw [Props.C02.parse_render e hwf b]

/-- **C01.** The formula text of `e`, with any blanks, evaluates to `denote e`. -/
theorem C01 (e : Expr) (b : Blanks) (m : Model.C01.Env) (s : Spec.C01.Env) (henv : EnvOK m s)
    (hwf : WF e) (hin : inC01 e = true) (hfin : LitsFinite e)
    (hu : denote s e ≠ .undef) : Agree (evaluateFormula (render b e) m) (denote s e) := by
  rw [evaluate_render e hwf b m]
  exact eval_denote m s henv e hwf hin hfin hu

/-- the earlier guarded form, kept as a corollary -/
theorem C01_partial (e : Expr) (b : Blanks) (m : Model.C01.Env) (s : Spec.C01.Env) (henv : EnvOK m s)
    (hwf : WF e) (hin : inC01 e = true) (hfin : LitsFinite e)
    (hu : denote s e ≠ .undef) : Agree (evaluateFormula (render b e) m) (denote s e) :=
  C01 e b m s henv hwf hin hfin hu

/-! #### non-vacuity of the hypotheses -/

/-- cells A1 = 7, B1 = 3, C1 = 2.5 (everything else 0) -/
def sampleModelEnv : Model.C01.Env := fun a =>
  if a = "A1".toList then some (.int 7) else if a = "B1".toList then some (.int 3)
  else if a = "C1".toList then some (.flt (5 / 2)) else some (.int 0)
def sampleSpecEnv : Spec.C01.Env := fun a =>
  if a = "A1".toList then 7 else if a = "B1".toList then 3 else if a = "C1".toList then 5 / 2 else 0

example : EnvOK sampleModelEnv sampleSpecEnv := by
  intro a
  unfold sampleModelEnv sampleSpecEnv
  split_ifs
  · exact ⟨_, rfl, by simp [Num.toRat], fun _ => ⟨7, rfl⟩⟩
  · exact ⟨_, rfl, by simp [Num.toRat], fun _ => ⟨3, rfl⟩⟩
  · refine ⟨_, rfl, by simp [Num.toRat], fun h => ?_⟩
    exfalso
    have h1 := (Rat.den_eq_one_iff _).mp h
    have h2 : (2 * ((5 / 2 : ℚ).num : ℚ)) = 5 := by rw [h1]; norm_num
    have h3 : 2 * (5 / 2 : ℚ).num = 5 := by exact_mod_cast h2
    omega
  · exact ⟨_, rfl, by simp [Num.toRat], fun _ => ⟨0, rfl⟩⟩

/-- `A1 - B1 * 2 < -(C1 ^ 2) & 50%` … a sample using every kind of construct: `-A1^2 + B1*(C1-5%) <= A1&B1` -/
def sampleExpr : Expr :=
  .bin .le
    (.bin .add (.bin .pow (.neg (.ref { first := { col := ['A'], row := [1] } })) (.num { ip := [2] } false))
      (.bin .mul (.ref { first := { col := ['B'], row := [1] } })
        (.paren (.bin .sub (.ref { first := { col := ['C'], row := [1] } }) (.num { ip := [5] } true)))))
    (.bin .cat (.ref { first := { col := ['A'], row := [1] } }) (.ref { first := { col := ['B'], row := [1] } }))

example : WF sampleExpr ∧ inC01 sampleExpr = true := by
  refine ⟨?_, by decide⟩
  simp [sampleExpr, WF, Ref.WF, SheetQ.WF, Cell.WF, NumLit.WF, NumLit.PctOK, AllDigits, Expr.level, negPrec,
    BinOp.prec]

example : LitFinite { ip := [2] } := by
  unfold LitFinite litValue Model.Value.floatMax
  norm_num [digitsVal, NumLit.fdigits, expInt]
  exact lt_of_lt_of_le (by norm_num : (2 : ℚ) < 2 ^ 2) (pow_le_pow_right₀ (by norm_num) (by norm_num))

/-- `(A1 & 2) + 3`: a text produced by `&` flows into `+`; the value is defined (73 + … = 75) -/
def sampleArith : Expr :=
  .bin .add (.paren (.bin .cat (.ref { first := { col := ['A'], row := [1] } }) (.num { ip := [2] } false)))
    (.num { ip := [3] } false)

example : denote sampleSpecEnv sampleArith = .num 75 := by
  have h1 : intText 7 = ['7'] := by decide
  have h2 : intText 2 = ['2'] := by decide
  have h3 : intOfText ['7', '2'] = some 72 := by decide
  simp [sampleArith, denote, arith2, toNum, Spec.C01.concat, catArg, exactInt, sampleSpecEnv, cellAddr,
    digitChar, digitsVal, litValue, NumLit.fdigits, expInt, h1, h2, h3]
  norm_num

example : LitsFinite sampleArith := by
  have h : ∀ d : Nat, d < 10 → LitFinite { ip := [d] } := by
    intro d hd
    unfold LitFinite litValue Model.Value.floatMax
    have e : ((digitsVal ([d] ++ ({ ip := [d] } : NumLit).fdigits) : Nat) : ℚ) *
        (10 : ℚ) ^ (expInt ({ ip := [d] } : NumLit).exp - ((({ ip := [d] } : NumLit).fdigits.length : Nat) : Int)) =
        (d : ℚ) := by
      simp [NumLit.fdigits, expInt, digitsVal]
    rw [e]
    have : (d : ℚ) < 10 := by exact_mod_cast hd
    calc (d : ℚ) < 2 ^ 4 := by linarith
      _ ≤ 2 ^ 1024 := pow_le_pow_right₀ (by norm_num) (by norm_num)
  simp only [sampleArith, LitsFinite]
  exact ⟨⟨trivial, h 2 (by norm_num)⟩, h 3 (by norm_num)⟩

/-! ### scientific literals with any decimal mantissa (defect D0101, repaired)

  The tokenizer's scientific-notation guard used to glue the exponent sign only onto the normalised
  mantissa `d(.ddd)?`; `=80E-3` evaluated to `-3` (`80E` read as a name, then `- 3`).  With the guard
  widened to every decimal numeral the grammar (`NumLit.WF`) covers `80E-3`, `12.5E+0`, `.5E+1`, `5.E-1`
  as well, and `C01` applies to them like to any other literal. -/

def lit80Em3 : NumLit := { ip := [8, 0], exp := some (true, [3]) }
def litDot5Ep1 : NumLit := { ip := [], fp := some [5], exp := some (false, [1]) }
def lit5DotEm1 : NumLit := { ip := [5], fp := some [], exp := some (true, [1]) }

example : lit80Em3.text = "80E-3".toList ∧ litDot5Ep1.text = ".5E+1".toList ∧
    lit5DotEm1.text = "5.E-1".toList := by decide

example : lit80Em3.WF ∧ litDot5Ep1.WF ∧ lit5DotEm1.WF := by
  simp [lit80Em3, litDot5Ep1, lit5DotEm1, NumLit.WF, NumLit.fdigits, AllDigits]

example : litValue lit80Em3 = 2 / 25 ∧ litValue litDot5Ep1 = 5 ∧ litValue lit5DotEm1 = 1 / 2 := by
  norm_num [lit80Em3, litDot5Ep1, lit5DotEm1, litValue, digitsVal, NumLit.fdigits, expInt]

/-- `=80E-3` evaluates to 0.08, whatever the cells hold: an instance of `C01` -/
theorem C01_sci_mantissa_example (m : Model.C01.Env) (s : Spec.C01.Env) (henv : EnvOK m s) :
    Agree (evaluateFormula "=80E-3".toList m) (.num (2 / 25)) := by
  have hv : litValue lit80Em3 = 2 / 25 := by
    norm_num [lit80Em3, litValue, digitsVal, NumLit.fdigits, expInt]
  have hr : render Blanks.none (.num lit80Em3 false) = "=80E-3".toList := by decide
  have hd : denote s (.num lit80Em3 false) = .num (2 / 25) := by simp [denote, hv]
  have hfin : LitsFinite (.num lit80Em3 false) := by
    show litValue lit80Em3 < Model.Value.floatMax
    rw [hv]; unfold Model.Value.floatMax
    calc (2 / 25 : ℚ) < 2 ^ 1 := by norm_num
      _ ≤ 2 ^ 1024 := pow_le_pow_right₀ (by norm_num) (by norm_num)
  have := C01 (.num lit80Em3 false) Blanks.none m s henv
    (by simp [WF, lit80Em3, NumLit.WF, NumLit.fdigits, AllDigits]) rfl hfin (by rw [hd]; simp)
  rwa [hr, hd] at this

/-! ### division by zero -/

/-- `C01_div0`: a division whose divisor denotes 0 (and whose operands are numbers) evaluates to
    #DIV/0!, in every rendering -/
theorem C01_div0 (l r : Expr) (b : Blanks) (m : Model.C01.Env) (s : Spec.C01.Env) (henv : EnvOK m s)
    (hwf : WF (.bin .div l r)) (hin : inC01 (.bin .div l r) = true) (hfin : LitsFinite (.bin .div l r))
    (a : Rat) (hl : denote s l = .num a) (hr : denote s r = .num 0) :
    evaluateFormula (render b (.bin .div l r)) m = .val (.err .div0) := by
  have hd : denote s (.bin .div l r) = .err .div0 := by
    simp [denote, hl, hr, arith2, toNum, divide]
  have := C01 (.bin .div l r) b m s henv hwf hin hfin (by rw [hd]; simp)
  rw [hd] at this
  exact agree_err this

/-- the Spec itself: `x / 0` is #DIV/0! whatever number `x` is -/
theorem denote_div0 (s : Spec.C01.Env) (l r : Expr) (a : Rat) (hl : denote s l = .num a)
    (hr : denote s r = .num 0) : denote s (.bin .div l r) = .err .div0 := by
  simp [denote, hl, hr, arith2, toNum, divide]

/-! ### redundant parentheses and blanks never change the result -/

theorem astOf_eraseParens (e : Expr) : astOf (eraseParens e) = astOf e := by
  induction e using Expr.rec (motive_2 := fun as => astsOf (eraseParensArgs as) = astsOf as) with
  | num n p => rfl
  | str s => rfl
  | bool b => rfl
  | err c => rfl
  | ref r => rfl
  | neg e ih => simp [eraseParens, astOf, ih]
  | bin o l r ihl ihr => simp [eraseParens, astOf, ihl, ihr]
  | paren e ih => simpa [eraseParens, astOf] using ih
  | call a f args ih => simp [eraseParens, astOf, ih]
  | nil => rfl
  | cons a as iha ihas => simp [eraseParensArgs, astsOf, iha, ihas]

/-- `C01_parens_blanks_irrelevant`: two well-formed renderings that differ only in redundant
    parentheses and in blanks evaluate alike (whatever the cells hold, errors and exceptions included) -/
theorem C01_parens_blanks_irrelevant (e e' : Expr) (hwf : WF e) (hwf' : WF e')
    (h : eraseParens e = eraseParens e') (b b' : Blanks) (m : Model.C01.Env) :
    evaluateFormula (render b e) m = evaluateFormula (render b' e') m := by
  rw [evaluate_render e hwf b m, evaluate_render e' hwf' b' m, ← astOf_eraseParens e, ← astOf_eraseParens e', h]

example : eraseParens (.paren (.bin .add (.paren (.num { ip := [1] } false)) (.num { ip := [2] } false))) =
    eraseParens (.bin .add (.num { ip := [1] } false) (.paren (.paren (.num { ip := [2] } false)))) := by
  simp [eraseParens]

/-! ### precedence and associativity -/

/-- atoms: operands that need no parentheses anywhere -/
def Tight (e : Expr) : Prop := WF e ∧ e.level = 9

theorem none_sub (i : Nat) : Blanks.none.sub i = Blanks.none := rfl

theorem render_none (e : Expr) : render Blanks.none e = '=' :: body Blanks.none e := by
  simp [render, none_sub, Blanks.slot, Blanks.none, sp]

/-- the text `a o1 b o2 c` (no parentheses) is the rendering of BOTH groupings … -/
theorem flat_text (o1 o2 : BinOp) (a b c : Expr) :
    body Blanks.none (.bin o2 (.bin o1 a b) c) = body Blanks.none (.bin o1 a (.bin o2 b c)) := by
  simp [body, none_sub, Blanks.slot, Blanks.none, sp]

/-- … but only one of them is well-formed, i.e. is what the text means: the left grouping iff the
    second operator does not bind tighter (ties group to the left: left associativity) … -/
theorem wf_left_iff (o1 o2 : BinOp) (a b c : Expr) (ha : Tight a) (hb : Tight b) (hc : Tight c) :
    WF (.bin o2 (.bin o1 a b) c) ↔ o2.prec ≤ o1.prec := by
  have h1 := BinOp.prec_lt o1
  have h2 := BinOp.prec_lt o2
  obtain ⟨hwa, hla⟩ := ha
  obtain ⟨hwb, hlb⟩ := hb
  obtain ⟨hwc, hlc⟩ := hc
  have e1 : (Expr.bin o1 a b).level = o1.prec := rfl
  have e2 : (Expr.bin o2 b c).level = o2.prec := rfl
  simp only [WF, hwa, hwb, hwc, hla, hlb, hlc, e1, e2, true_and]
  simp only [negPrec] at h1 h2
  omega

/-- … and the right grouping iff the second operator binds strictly tighter -/
theorem wf_right_iff (o1 o2 : BinOp) (a b c : Expr) (ha : Tight a) (hb : Tight b) (hc : Tight c) :
    WF (.bin o1 a (.bin o2 b c)) ↔ o1.prec < o2.prec := by
  have h1 := BinOp.prec_lt o1
  have h2 := BinOp.prec_lt o2
  obtain ⟨hwa, hla⟩ := ha
  obtain ⟨hwb, hlb⟩ := hb
  obtain ⟨hwc, hlc⟩ := hc
  have e1 : (Expr.bin o1 a b).level = o1.prec := rfl
  have e2 : (Expr.bin o2 b c).level = o2.prec := rfl
  simp only [WF, hwa, hwb, hwc, hla, hlb, hlc, e1, e2, true_and]
  simp only [negPrec] at h1 h2
  omega

/-- every flat text `a o1 b o2 c` has exactly one reading -/
theorem flat_unique (o1 o2 : BinOp) (a b c : Expr) (ha : Tight a) (hb : Tight b) (hc : Tight c) :
    (WF (.bin o2 (.bin o1 a b) c) ∧ ¬ WF (.bin o1 a (.bin o2 b c))) ∨
    (¬ WF (.bin o2 (.bin o1 a b) c) ∧ WF (.bin o1 a (.bin o2 b c))) := by
  rw [wf_left_iff o1 o2 a b c ha hb hc, wf_right_iff o1 o2 a b c ha hb hc]
  omega

/-- all binary operators associate to the left: `a o b o c` is `(a o b) o c` -/
theorem left_assoc (o : BinOp) (a b c : Expr) (ha : Tight a) (hb : Tight b) (hc : Tight c) :
    WF (.bin o (.bin o a b) c) ∧ ¬ WF (.bin o a (.bin o b c)) := by
  rw [wf_left_iff o o a b c ha hb hc, wf_right_iff o o a b c ha hb hc]
  omega

/-- the precedence order of the statement: `^` over `* /` over `+ -` over `&` over the comparisons -/
theorem prec_order :
    BinOp.pow.prec > BinOp.mul.prec ∧ BinOp.mul.prec = BinOp.div.prec ∧ BinOp.div.prec > BinOp.add.prec ∧
    BinOp.add.prec = BinOp.sub.prec ∧ BinOp.sub.prec > BinOp.cat.prec ∧ BinOp.cat.prec > BinOp.eq.prec ∧
    BinOp.eq.prec = BinOp.ne.prec ∧ BinOp.ne.prec = BinOp.lt.prec ∧ BinOp.lt.prec = BinOp.gt.prec ∧
    BinOp.gt.prec = BinOp.le.prec ∧ BinOp.le.prec = BinOp.ge.prec ∧ negPrec > BinOp.pow.prec := by decide

/-- unary minus binds tighter than every binary operator: `-a o b` is `(-a) o b`, never `-(a o b)` -/
theorem neg_binds_tightest (o : BinOp) (a b : Expr) (ha : Tight a) (hb : Tight b) :
    WF (.bin o (.neg a) b) ∧ ¬ WF (.neg (.bin o a b)) ∧
    body Blanks.none (.bin o (.neg a) b) = body Blanks.none (.neg (.bin o a b)) := by
  have h := BinOp.prec_lt o
  refine ⟨?_, ?_, ?_⟩
  · have e1 : (Expr.neg a).level = negPrec := rfl
    simp only [WF, ha.1, hb.1, ha.2, hb.2, e1, true_and]
    simp only [negPrec] at h ⊢; omega
  · have e1 : (Expr.bin o a b).level = o.prec := rfl
    simp only [WF, e1, not_and, not_le]
    intro _; exact h
  · simp [body, none_sub, Blanks.slot, Blanks.none, sp]

/-- a unary minus may directly follow any binary operator: `a ^ -b`, `a * -b` -/
theorem neg_after_operator (o : BinOp) (a b : Expr) (ha : Tight a) (hb : Tight b) :
    WF (.bin o a (.neg b)) := by
  have h := BinOp.prec_lt o
  have e1 : (Expr.neg b).level = negPrec := rfl
  simp only [WF, ha.1, hb.1, ha.2, hb.2, e1, true_and]
  simp only [negPrec] at h ⊢; omega

/-- `%` belongs to the literal: `2^3%` is `2^(3%)` -/
example : treeOf (.bin .pow (.num { ip := [2] } false) (.num { ip := [3] } true)) =
    .binop ['^'] (.num ['2']) (.pct (3 / 100)) := by
  simp [treeOf, NumLit.text, NumLit.value, NumLit.fdigits, digitsVal, digitChar, BinOp.sym]

example (r : Ref) (h : r.WF) : Tight (.ref r) := ⟨h, rfl⟩
example (e : Expr) (h : WF e) : Tight (.paren e) := ⟨h, rfl⟩

/-- the flat text `=a o1 b o2 c` evaluates as `(a o1 b) o2 c` when `o2` does not bind tighter … -/
theorem C01_flat_left (o1 o2 : BinOp) (a b c : Expr) (ha : Tight a) (hb : Tight b) (hc : Tight c)
    (hp : o2.prec ≤ o1.prec) (m : Model.C01.Env) (s : Spec.C01.Env) (henv : EnvOK m s)
    (hin : inC01 (.bin o2 (.bin o1 a b) c) = true) (hfin : LitsFinite (.bin o2 (.bin o1 a b) c))
    (hu : denote s (.bin o2 (.bin o1 a b) c) ≠ .undef) :
    Agree (evaluateFormula ('=' :: body Blanks.none (.bin o1 a (.bin o2 b c))) m)
      (denote s (.bin o2 (.bin o1 a b) c)) := by
  rw [← flat_text, ← render_none]
  exact C01 _ _ m s henv ((wf_left_iff o1 o2 a b c ha hb hc).mpr hp) hin hfin hu

/-- … and as `a o1 (b o2 c)` when `o2` binds strictly tighter -/
theorem C01_flat_right (o1 o2 : BinOp) (a b c : Expr) (ha : Tight a) (hb : Tight b) (hc : Tight c)
    (hp : o1.prec < o2.prec) (m : Model.C01.Env) (s : Spec.C01.Env) (henv : EnvOK m s)
    (hin : inC01 (.bin o1 a (.bin o2 b c)) = true) (hfin : LitsFinite (.bin o1 a (.bin o2 b c)))
    (hu : denote s (.bin o1 a (.bin o2 b c)) ≠ .undef) :
    Agree (evaluateFormula ('=' :: body Blanks.none (.bin o2 (.bin o1 a b) c)) m)
      (denote s (.bin o1 a (.bin o2 b c))) := by
  rw [flat_text, ← render_none]
  exact C01 _ _ m s henv ((wf_right_iff o1 o2 a b c ha hb hc).mpr hp) hin hfin hu

/-! ### known finding D3: `%` after a parenthesis is folded into `* 0.01` -/

theorem lex_pct_empty (st : St) (cs : List Char) (hacc : st.acc = []) :
    lex .normal false st ('%' :: cs) =
      lex .normal false { st with toks := st.toks ++ [tok ['*'] .opIn, ⟨.f (1 / 100), .operand, .none⟩] } cs := by
  cases cs <;>
  · conv => lhs; rw [lex]
    simp [isBlank, hacc, St.emit, isComparator, Gen.tokComparators, isOperatorChar, Gen.tokOperators]

theorem D3_pass1 : pass1 "2^(3)%".toList =
    .ok [tok ['2'] .operand, tok ['^'] .opIn, tok [] .subexpr .start, tok ['3'] .operand,
         ⟨.s [], .subexpr, .stop⟩, tok ['*'] .opIn, ⟨.f (1 / 100), .operand, .none⟩] := by
  rw [pass1_eq]
  have h0 : stripLeading "2^(3)%".toList = ['2', '^', '(', '3', ')', '%'] := by decide
  rw [h0]
  have h1 := lex_plain ['2'] (by decide) {} ['^', '(', '3', ')', '%']
  simp only [List.cons_append, List.nil_append] at h1
  rw [h1, fin_lex_delim (rest := ['^', '(', '3', ')', '%']) (hd := by show _ ∨ _ ∨ _ ∨ _; decide) (hsn := by intro h; simp at h)]
  rw [lex_op1 _ '^' _ (by decide) (by simp [St.flushAs]) (by intro d hd; simp at hd; subst hd; decide)]
  rw [lex_lparen _ _ (by simp [St.flushAs])]
  have h2 := lex_plain ['3'] (by decide)
    { toks := (({ acc := ['2'] } : St).flushAs .operand).toks ++ [tok ['^'] .opIn] ++ [tok [] .subexpr .start],
      stack := tok [] .subexpr .start :: (({ acc := ['2'] } : St).flushAs .operand).stack,
      acc := (({ acc := ['2'] } : St).flushAs .operand).acc } [')', '%']
  simp only [List.cons_append, List.nil_append] at h2
  simp only [St.flushAs] at h2 ⊢
  simp only [List.isEmpty_cons, Bool.false_eq_true, if_false, List.nil_append, List.cons_append] at h2 ⊢
  rw [h2, fin_lex_delim (rest := [')', '%']) (hd := by show _ ∨ _ ∨ _ ∨ _; decide) (hsn := by intro h; simp at h)]
  simp only [St.flushAs, List.nil_append, List.isEmpty_cons, Bool.false_eq_true, if_false]
  rw [lex_rparen _ _ (tok [] .subexpr .start) [] rfl rfl]
  rw [lex_pct_empty _ _ rfl]
  simp [lex, fin, St.flushAs, tok]

theorem D3_tokens : getTokens "2^(3)%".toList =
    .ok [⟨.s ['2'], .operand, .number⟩, ⟨.s ['^'], .opIn, .math⟩, ⟨.s [], .subexpr, .start⟩,
         ⟨.s ['3'], .operand, .number⟩, ⟨.s [], .subexpr, .stop⟩, ⟨.s ['*'], .opIn, .math⟩,
         ⟨.f (1 / 100), .operand, .number⟩] := by
  unfold getTokens
  rw [D3_pass1]
  have hf2 : (Model.Value.pyFloatOfText ['2']).isSome = true := by
    have := floatOk_numText { ip := [2] } (by simp [NumLit.WF, AllDigits])
    simpa [floatOk, NumLit.text, digitChar] using this
  have hf3 : (Model.Value.pyFloatOfText ['3']).isSome = true := by
    have := floatOk_numText { ip := [3] } (by simp [NumLit.WF, AllDigits])
    simpa [floatOk, NumLit.text, digitChar] using this
  simp [pass2, pass2Aux, pass3, pass3Aux, retype, pass4, tok, prevIsValue, hf2, hf3, floatOk]

theorem D3_parse : parse [] "=2^(3)%".toList =
    .ok (.binop ⟨.s ['*'], .opIn, .math⟩
          (.binop ⟨.s ['^'], .opIn, .math⟩ (.operand ⟨.s ['2'], .operand, .number⟩)
            (.operand ⟨.s ['3'], .operand, .number⟩))
          (.operand ⟨.f (1 / 100), .operand, .number⟩)) := by
  have h1 : tokenize "=2^(3)%".toList = getTokens "2^(3)%".toList := rfl
  unfold parse
  rw [h1, D3_tokens]
  rfl

/-- Known finding D3: `=2^(3)%` is evaluated as `(2^3) * 0.01 = 0.08`; under Excel's grammar `%` is a
    postfix operator binding tighter than `^`, so the value is `2^0.03 ≈ 1.021`. -/
theorem D3_paren_percent (m : Model.C01.Env) :
    evaluateFormula "=2^(3)%".toList m = .val (.num (.flt (2 / 25))) := by
  unfold evaluateFormula
  rw [D3_parse]
  have h2 : Model.Value.textNumber ext0 ['2'] = Model.Value.NumR.ok (.int 2) := by decide
  have h3 : Model.Value.textNumber ext0 ['3'] = Model.Value.NumR.ok (.int 3) := by decide
  simp [evalAst, evalOperand, Model.Value.lookup, Gen.infixOpToFunc, applyInfix, h2, h3, Model.Value.power,
    Model.Value.binop, Model.Value.firstErr, Model.Value.isErr, Model.Value.toNumber, Model.Value.OpR.ofNum,
    Model.Value.arith, Num.toRat, Model.Value.Num.isIntegral, Model.Value.Num.powInt, Model.Value.Num.mul]
  norm_num

end XlVerif.Props.C01
