/-
  XlVerif.Props.C02 — Every well-formed formula parses to the tree its text denotes.

  Main theorem `C02`: for EVERY abstract formula `e` of the grammar `Spec.C02.Expr` that is well-formed
  (`WF`: atoms lexically valid, parentheses wherever Excel's grammar requires them) and EVERY blank
  oracle `b` (an arbitrary run of blanks/newlines, independently chosen, at every token boundary the
  statement allows, leading and trailing ones included), the statement-by-statement model of
  `FormulaParser().parse` (`Model/Tokenizer.lean`, `Model/Parser.lean`) applied to the characters
  `render b e` succeeds and its result, with the token bookkeeping forgotten (`shape`), is exactly
  `treeOf e`.  Unbounded: by induction on `e` and on the character lists; no size or depth bound.

  Ingredients (each a theorem below or in `Lemmas/C02*.lean`):
    `lex_render`            the character loop emits the raw tokens of `e` for any blank placement
    `string_roundtrip`      `"` ++ escape s ++ `"` lexes to ONE text operand with value `s`, ANY `s`
    `quoted_sheet_roundtrip` the same for `'…'` sheet names
    `errlit`                the seven error literals (table obligation on `Gen.tokErrorLiterals`)
    `passes_render`         passes 2–4: white-space tokens vanish, subtypes, prefix minus, `@`
    `sy_render`             shunting yard on the tokens of `e` = RPN of `treeOf e`, from `TableOK` only
    `call_argcount`         `num_args` = number of written arguments (`were_values`/`arg_count`)
    `build_rpn`             `build_ast` rebuilds the tree, left and right in written order
  Table obligations (re-checked against the regenerated tables on every run):
    `tableOK_gen : TableOK Gen.operators`   (order/associativity conditions, no literal numbers)
    `errTableOK_gen : ErrTableOK Gen.tokErrorLiterals`
    `matchSN_table`           (the model's `matchSN` agrees with the PROBED tokenizer on ~1570 candidate tokens)

  Known finding D3 (not in the grammar above: `%` is only written after numeric literals): a
  reference followed by `%` makes the tokenizer raise ValueError — `D3_ref_percent` is the kernel-checked
  counter-example to the stronger statement "`%` may follow any operand".
-/
import XlVerif.Lemmas.C02Clean
import XlVerif.Lemmas.C02LexE
import XlVerif.Lemmas.C02Pct
namespace XlVerif.Props.C02
open XlVerif XlVerif.Model.Tokenizer XlVerif.Model.Parser XlVerif.Model.C02 XlVerif.Spec.C02
open XlVerif.Lemmas.C02

/-! ### table obligations -/

/-- `parser.OPERATORS` orders the twelve binary operators as Excel's grammar does, all of them
    left-associative, and the unary minus above them, right-associative -/
theorem tableOK_gen : TableOK Gen.operators := by unfold TableOK; decide

/-- `TableOK` is a condition on order and associativity, not on the literal numbers: an equivalent
    renumbering of the table still satisfies it -/
example : TableOK (Gen.operators.map fun r => { r with prec := 10 * r.prec + 3 }) := by
  unfold TableOK; decide

/-- the tokenizer's error-literal list holds the seven codes, none a proper prefix of another -/
theorem errTableOK_gen : ErrTableOK Gen.tokErrorLiterals := by
  intro c
  cases c <;> exact ⟨_, rfl, by decide, by decide, by decide⟩

/-- the scientific-notation guard of the tokenizer BEHAVES like `Model.Tokenizer.matchSN` (any decimal numeral —
    `ddd`, `ddd.`, `ddd.ddd`, `.ddd` — followed by one `e`/`E`; repair D0101: it used to demand a mantissa
    `d(.ddd)?`, which left the sign of `80E-3` outside the literal): on every candidate token of the regenerated
    table (all texts of length 1..4 over `0 5 . E e A` and some longer ones, each PROBED on the running tokenizer with
    `=<text>+1`) the model glues the sign exactly when the code does.  The tie is behavioural, so an equivalent
    rewrite of the regex in the source (hoisted, compiled, renamed, restated) keeps this obligation. -/
theorem matchSN_table : Gen.tokSNCandidates.all (fun t => matchSN t == Gen.tokSNGlued.contains t) = true := by
  decide +kernel

/-- the candidates hold both kinds (non-vacuity of `matchSN_table`) -/
example : Gen.tokSNGlued.length ≥ 40 ∧ Gen.tokSNCandidates.length ≥ 1500 ∧
    Gen.tokSNGlued.contains "12.5E".toList = true ∧ Gen.tokSNGlued.contains "A1E5E".toList = false := by decide +kernel

/-- … and of the error-literal and comparator probes: the near-misses among the candidates are NOT literals -/
example : Gen.tokErrorCandidates.length > Gen.tokErrorLiterals.length ∧ Gen.tokComparators.length = 3 := by decide

example : ["1E", "1.5e", "80E", "12.5E", "0.5e", "5.E", ".5E", "007E"].all (fun t => matchSN t.toList) = true := by
  decide
example : ["E", ".E", "1", "1.5", "A1E", "1E5", "1EE", "1.2.3E", "1E+", "-1E", "1_0E", " 1E"].all
    (fun t => !matchSN t.toList) = true := by decide

theorem lexHyps : LexHyps := ⟨errTableOK_gen, percentOf_numText⟩

/-! ### ingredients -/

/-- `lex_render`: pass 1 on the text of `e` (any blank placement) followed by a delimiter-headed
    continuation appends exactly the raw token list of `e` -/
theorem lex_render (e : Expr) (hwf : WF e) (b : Blanks) (st : St) (rest : List Char)
    (hacc : st.acc = []) (hd : Delim rest) :
    fin (lex .normal false st (body b e ++ rest)) =
      fin (lex .normal false { st with toks := st.toks ++ raw b e } rest) :=
  lexInv lexHyps e hwf b st rest hacc hd

example : Delim ("+1".toList) := Or.inr (Or.inl (by decide))
example : Delim [] := trivial

/-- `string_roundtrip`: for ANY text `s` (quotes, apostrophes, `! # % ( ) , : ; [ ] { }`, blanks,
    newlines, non-ASCII), lexing `"` ++ (s with every `"` doubled) ++ `"` in operand position yields
    exactly one text operand whose value is `s` -/
theorem string_roundtrip (s : List Char) (st : St) (rest : List Char) (hacc : st.acc = [])
    (hr : rest.head? ≠ some '"') :
    lex .normal false st ('"' :: escape '"' s ++ '"' :: rest) =
      lex .normal false { st with toks := st.toks ++ [tok s .operand .text] } rest :=
  Lemmas.C02.string_roundtrip s st rest hacc hr

example : ("+1".toList).head? ≠ some '"' := by decide

/-- `quoted_sheet_roundtrip`: `'` ++ (name with every `'` doubled) ++ `'` contributes exactly `name`
    to the reference token, for ANY characters in `name` -/
theorem quoted_sheet_roundtrip (s : List Char) (st : St) (rest : List Char) (hacc : st.acc = [])
    (hr : rest.head? ≠ some '\'') :
    lex .normal false st ('\'' :: escape '\'' s ++ '\'' :: rest) =
      lex .normal false { st with acc := s } rest :=
  Lemmas.C02.quoted_sheet_roundtrip s st rest hacc hr

/-- `errlit`: each of the seven error literals lexes to one error operand -/
theorem errlit (c : Code) (st : St) (rest : List Char) (hacc : st.acc = []) :
    lex .normal false st (c.text ++ rest) =
      lex .normal false { st with toks := st.toks ++ [tok c.text .operand .error] } rest :=
  errlit_roundtrip errTableOK_gen c st rest hacc

/-- `passes_render`: passes 2–4 turn the raw tokens of a rendering (with trailing blanks) into the
    token list of `e`: no white-space token survives, whatever the blank placement -/
theorem passes_render (b : Blanks) (e : Expr) (hwf : WF e) (r : Run) :
    pass4 (pass3 (pass2 (raw b e ++ wsT r))) = toks e :=
  passes_raw b e hwf r

/-- `sy_render`: the shunting yard on the token list of `e` gives the RPN of `treeOf e`; the operator
    table enters only through `TableOK` -/
theorem sy_render (e : Expr) (hwf : WF e) : shuntingYard [] (toks e) = .ok (rpn e) := by
  obtain ⟨T⟩ := tbl_of_tableOK tableOK_gen
  exact sy_toks T e hwf

/-- `call_argcount`: the function node of a call carries `num_args` = the number of written arguments
    (0 included), after the RPN of the arguments in written order -/
theorem call_argcount (a : Bool) (f : List Char) (args : List Expr) (hwf : WF (.call a f args)) :
    shuntingYard [] (toks (.call a f args)) = .ok (rpnArgs args ++ [.func (fnName f) args.length]) := by
  rw [sy_render _ hwf]; simp [rpn]

/-- `build_rpn`: `build_ast` on the RPN of `e` rebuilds the tree of `e` -/
theorem build_rpn (e : Expr) : buildAst (rpn e) [] = .ok (astOf e) := buildAst_rpn e

theorem shape_astOf (e : Expr) : shape (astOf e) = treeOf e := Lemmas.C02.shape_astOf e

/-! ### the token-level theorem -/

/-- from the token list of `e` (what `getTokens` returns) to the tree of `e` -/
theorem C02_tokens (e : Expr) (hwf : WF e) :
    (match shuntingYard [] (toks e) with
     | Except.error x => Except.error x
     | Except.ok nodes => buildAst nodes []) = .ok (astOf e) := by
  rw [sy_render e hwf]; exact build_rpn e

/-! ### the character-level theorem -/

theorem stripLeading_sp (r : Run) (c : Char) (cs : List Char) (hb : isBlank c = false) (he : c ≠ '=') :
    stripLeading (sp r ++ c :: cs) = c :: cs := by
  induction r with
  | nil => simp [sp, stripLeading, hb, he]
  | cons x r ih =>
    have hx : isBlank (if x = true then '\n' else ' ') = true := by cases x <;> decide
    simp only [sp, List.map_cons, List.cons_append, stripLeading, hx, if_true] at ih ⊢
    exact ih

/-- `getTokens` on blanks, the expression, blanks -/
theorem getTokens_render (e : Expr) (hwf : WF e) (b : Blanks) (r0 r1 : Run) :
    getTokens (sp r0 ++ body b e ++ sp r1) = .ok (toks e) := by
  obtain ⟨c, cs, hc, hok⟩ := body_head e hwf b
  unfold getTokens
  rw [pass1_eq, List.append_assoc, hc, List.cons_append, stripLeading_sp r0 c _ hok.1 hok.2.1,
    ← List.cons_append, ← hc]
  rw [lex_render e hwf b {} (sp r1) rfl (delim_sp_nil r1), lex_sp_end r1 _ rfl]
  simp only [fin, List.nil_append]
  rw [flushAs_nil _ _ rfl]
  simp only [passes_render b e hwf r1]

theorem tokenize_noEq (f : List Char) (h : f.head? ≠ some '=') : tokenize f = getTokens f := by
  unfold tokenize
  split
  · rename_i rest; simp at h
  · rfl

theorem parse_of_tokens (f : List Char) (e : Expr) (hwf : WF e) (h : tokenize f = .ok (toks e)) :
    (parse [] f).map shape = .ok (treeOf e) := by
  unfold parse
  rw [h]
  simp only
  have := C02_tokens e hwf
  rw [sy_render e hwf] at this ⊢
  simp only at this ⊢
  rw [this]
  simp [Except.map, shape_astOf]

/-- the parse result itself (token bookkeeping included) is the expected AST -/
theorem parse_render (e : Expr) (hwf : WF e) (b : Blanks) : parse [] (render b e) = .ok (astOf e) := by
  have h : tokenize (render b e) = .ok (toks e) := by
    unfold render tokenize
    exact getTokens_render e hwf (b.sub 0) (b.slot 0) (b.slot 1)
  unfold parse
  rw [h]
  simp only
  rw [sy_render e hwf]
  exact build_rpn e

/-- **C02.** Every well-formed formula, in every rendering (a leading `=`, arbitrary runs of blanks and
    newlines at every token boundary, leading and trailing ones included), parses to exactly the tree
    it denotes. -/
theorem C02 : ∀ (e : Expr) (_ : WF e) (b : Blanks),
    (parse [] (render b e)).map shape = .ok (treeOf e) := by
  intro e hwf b
  apply parse_of_tokens _ e hwf
  unfold render tokenize
  exact getTokens_render e hwf (b.sub 0) (b.slot 0) (b.slot 1)

/-- the leading `=` is irrelevant: the same text without it parses to the same tree -/
theorem C02_no_eq : ∀ (e : Expr) (_ : WF e) (b : Blanks),
    (parse [] (renderNoEq b e)).map shape = .ok (treeOf e) := by
  intro e hwf b
  apply parse_of_tokens _ e hwf
  obtain ⟨c, cs, hc, hok⟩ := body_head e hwf (b.sub 0)
  rw [tokenize_noEq]
  · exact getTokens_render e hwf (b.sub 0) (b.slot 0) (b.slot 1)
  · unfold renderNoEq
    rw [List.append_assoc, hc]
    cases hr : b.slot 0 with
    | nil => simp [sp]; exact fun h => hok.2.1 h
    | cons x r => cases x <;> simp [sp]

/-- `leading_eq_blank_at`: with or without `=`, with or without `@`, whatever the blanks — one tree -/
theorem leading_eq_blank_at_irrelevant (e : Expr) (hwf : WF e) (b b' : Blanks) :
    (parse [] (render b e)).map shape = (parse [] (renderNoEq b' e)).map shape := by
  rw [C02 e hwf b, C02_no_eq e hwf b']

theorem treeOf_at (a : Bool) (f : List Char) (args : List Expr) :
    treeOf (.call a f args) = treeOf (.call (!a) f args) := by
  simp [treeOf]

/-- redundant parentheses leave no node -/
theorem treeOf_paren (e : Expr) : treeOf (.paren e) = treeOf e := by simp [treeOf]

/-! ### non-vacuity: a formula with every construct is well-formed -/

/-- `=@SUM( "a""b,(", -(TRUE<=#N/A), 'My ''S'!$A$1:B2 , 12.5% , 1.5E+20 )` -/
def sample : Expr :=
  .call true "SUM".toList
    [.str "a\"b,(".toList,
     .neg (.paren (.bin .le (.bool true) (.err .na))),
     .ref { sheet := .quoted "My 'S".toList, first := { colAbs := true, col := ['A'], rowAbs := true, row := [1] },
            last := some { col := ['B'], row := [2] } },
     .num { ip := [1, 2], fp := some [5] } true,
     .num { ip := [1], fp := some [5], exp := some (false, [2, 0]) } false]

example : WF sample := by
  simp [sample, WF, WFs, NameWF, nameCh, specialChars, Ref.WF, SheetQ.WF, Cell.WF, NumLit.WF, NumLit.PctOK,
    AllDigits, Expr.level, negPrec, BinOp.prec]

example : WF (.bin .sub (.bin .sub (.ref { first := { col := ['A'], row := [1] } }) (.num { ip := [2] } false))
    (.paren (.bin .add (.num { ip := [3] } false) (.num { ip := [4] } false)))) := by
  simp [WF, Ref.WF, SheetQ.WF, Cell.WF, NumLit.WF, AllDigits, Expr.level, BinOp.prec]

/-! ### the driver's well-formedness flag -/

theorem allDigitsB_iff (ds : List Nat) : allDigitsB ds = true ↔ AllDigits ds := by
  simp [allDigitsB, AllDigits]

theorem numLit_wfB_iff (n : NumLit) : n.wfB = true ↔ n.WF := by
  unfold NumLit.wfB NumLit.WF
  simp only [Bool.and_eq_true, Bool.or_eq_true, Bool.not_eq_true', List.isEmpty_eq_false_iff, allDigitsB_iff]
  constructor
  · rintro ⟨⟨⟨h1, h2⟩, h3⟩, h4⟩
    refine ⟨h1, h2, ?_, ?_⟩
    · cases hf : n.fp with
      | none => trivial
      | some f => rw [hf] at h3; simpa [allDigitsB_iff] using h3
    · cases he : n.exp with
      | none => trivial
      | some x =>
        obtain ⟨ng, ds⟩ := x
        rw [he] at h4
        simpa [allDigitsB_iff] using h4
  · rintro ⟨h1, h2, h3, h4⟩
    refine ⟨⟨⟨h1, h2⟩, ?_⟩, ?_⟩
    · cases hf : n.fp with
      | none => rfl
      | some f => rw [hf] at h3; simpa [allDigitsB_iff] using h3
    · cases he : n.exp with
      | none => rfl
      | some x =>
        obtain ⟨ng, ds⟩ := x
        rw [he] at h4
        simpa [allDigitsB_iff] using h4

theorem cell_wfB_iff (c : Cell) : c.wfB = true ↔ c.WF := by
  unfold Cell.wfB Cell.WF
  simp [allDigitsB_iff, and_assoc]

theorem nameWFB_iff (f : List Char) : nameWFB f = true ↔ NameWF f := by
  unfold nameWFB NameWF
  simp

theorem sheet_wfB_iff (s : SheetQ) : s.wfB = true ↔ s.WF := by
  cases s <;> simp [SheetQ.wfB, SheetQ.WF, nameWFB_iff]

theorem ref_wfB_iff (r : Ref) : r.wfB = true ↔ r.WF := by
  unfold Ref.wfB Ref.WF
  cases r.last <;> simp [sheet_wfB_iff, cell_wfB_iff, and_assoc]

/-- the Boolean well-formedness test the driver reports is the predicate of the theorems -/
theorem wfB_iff (e : Expr) : wfB e = true ↔ WF e := by
  induction e using Expr.rec (motive_2 := fun as => wfsB as = true ↔ WFs as) with
  | num n p => cases p <;> simp [wfB, WF, numLit_wfB_iff, NumLit.pctOKB, NumLit.PctOK]
  | str s => simp [wfB, WF]
  | bool b => simp [wfB, WF]
  | err c => simp [wfB, WF]
  | ref r => simp [wfB, WF, ref_wfB_iff]
  | neg e ih => simp [wfB, WF, ih]
  | bin o l r ihl ihr => simp [wfB, WF, ihl, ihr, and_assoc]
  | paren e ih => simp [wfB, WF, ih]
  | call a f args ih => simp [wfB, WF, nameWFB_iff, ih]
  | nil => simp [wfsB, WFs]
  | cons a as iha ihas => simp [wfsB, WFs, iha, ihas]

/-! ### known finding D3: `%` after a reference -/

/-- Counter-example to the stronger statement in which `%` may follow any operand (as Excel allows):
    `=A1%` does not parse — the tokenizer computes `float("A1")` and raises ValueError. -/
theorem D3_ref_percent : parse [] "=A1%".toList = .error (.lex .valueError) := by
  have h1 : tokenize "=A1%".toList = getTokens "A1%".toList := rfl
  have h2 : stripLeading "A1%".toList = "A1%".toList := by decide
  have h3 : lex .normal false {} "A1%".toList = .error .valueError := by
    have := lex_plain ['A', '1'] (by decide) {} ['%']
    simp only [List.cons_append, List.nil_append] at this
    show lex .normal false {} ['A', '1', '%'] = _
    rw [this, lex]
    have hp : percentOf ['A', '1'] = none := by decide
    simp [isBlank, hp, isComparator, Gen.tokComparators, isOperatorChar, Gen.tokOperators]
  unfold parse
  rw [h1]
  unfold getTokens pass1
  rw [h2, h3]

end XlVerif.Props.C02
