/-
  C03 — references denote exactly the addressed cells on the right sheet.

  Theorems are about `Model.C03` (the statement-by-statement mirror of tokenizer.py / utils.py /
  xltypes.py / ast_nodes.py / evaluator.py / model.py) and hold for every input named in their
  statement; the correspondence run ties `Model.C03` to the running code.  What the functions and
  operators compute (`un`, `bin`) is a parameter of every theorem about evaluation.
-/
import XlVerif.Model.C03
import XlVerif.Spec.C03
import XlVerif.Lemmas.C03Eval
import XlVerif.Lemmas.C03Rect
import XlVerif.Lemmas.C03Build
import Mathlib.Data.List.Nodup
namespace XlVerif.Props.C03
open XlVerif XlVerif.Model.C03 XlVerif.Lemmas.C03

/-- text literal -/
def t0 (s : String) : Text := s.toList

/-! ## col_roundtrip — `col2num` / `num2col` are bijective base 26, for every column, unbounded -/

theorem colValue_foldl (s : Text) (a : Nat) :
    s.foldl (fun a c => a * 26 + (c.toNat - 64)) a = a * 26 ^ s.length + lval s := by
  induction s generalizing a with
  | nil => simp [lval]
  | cons c t ih =>
    simp only [List.foldl_cons, List.length_cons, lval]
    rw [ih]; ring

/-- the reference value of a column name (`Spec.colValue`, most significant letter first, A=1 … Z=26)
    is the value the lemmas work with -/
theorem colValue_eq_lval (s : Text) : Spec.C03.colValue s = lval s := by
  unfold Spec.C03.colValue
  rw [colValue_foldl]; simp

theorem isColName_iff (s : Text) : Spec.C03.isColName s = true ↔ s ≠ [] ∧ ∀ c ∈ s, isUpper c = true := by
  unfold Spec.C03.isColName isUpper
  cases s with
  | nil => simp
  | cons c t => simp [List.all_eq_true]

/-- **col_roundtrip (numbers)**: for every `n ≥ 1`, `num2col n` is a column name (one or more letters
    `A`–`Z`) whose bijective base-26 value is `n`, and `col2num` maps it back to `n`. -/
theorem col_roundtrip_num (n : Nat) (h : 1 ≤ n) :
    ∃ s, num2col (n : Int) = some s ∧ Spec.C03.isColName s = true ∧ Spec.C03.colValue s = n ∧
      col2num s = some (n : Int) := by
  refine ⟨colLetters n, ?_, ?_, ?_, ?_⟩
  · unfold num2col colLetters
    have : ¬ ((n : Int) < 1) := by omega
    simp [this]
  · exact (isColName_iff _).mpr ⟨colLetters_ne_nil n h, colLetters_upper n⟩
  · rw [colValue_eq_lval, colLetters_lval]
  · rw [col2num_eq_lval _ (colLetters_ne_nil n h) (colLetters_upper n), colLetters_lval]

/-- **col_roundtrip (names)**: for every column name `s ∈ [A-Z]⁺`, `col2num s` is its bijective
    base-26 value `n ≥ 1`, and `num2col n` is `s` again. -/
theorem col_roundtrip_name (s : Text) (hs : Spec.C03.isColName s = true) :
    ∃ n : Nat, 1 ≤ n ∧ Spec.C03.colValue s = n ∧ col2num s = some (n : Int) ∧ num2col (n : Int) = some s := by
  obtain ⟨hne, hu⟩ := (isColName_iff s).mp hs
  have hpos : 1 ≤ lval s := by
    cases s with
    | nil => exact absurd rfl hne
    | cons c t =>
      have hc := up_bounds c (hu c (by simp))
      simp only [lval]
      have : 1 * 26 ^ t.length ≤ (c.toNat - 64) * 26 ^ t.length := Nat.mul_le_mul_right _ (by omega)
      have : 0 < 26 ^ t.length := Nat.pow_pos (by omega)
      omega
  refine ⟨lval s, hpos, colValue_eq_lval s, col2num_eq_lval s hne hu, ?_⟩
  unfold num2col
  have : ¬ ((lval s : Int) < 1) := by omega
  simp only [this, if_false, Int.toNat_natCast]
  rw [num2colLoop_lval_inv s (lval s) [] hu (Nat.le_refl _)]; simp

/-- `num2col` is injective and `col2num` is injective on column names (consequences of the round trip) -/
theorem num2col_injective (a b : Nat) (ha : 1 ≤ a) (hb : 1 ≤ b) (h : num2col (a : Int) = num2col (b : Int)) : a = b := by
  obtain ⟨s, h1, _, _, h2⟩ := col_roundtrip_num a ha
  obtain ⟨t, h3, _, _, h4⟩ := col_roundtrip_num b hb
  rw [h1, h3] at h
  injection h with h
  subst h
  rw [h2] at h4
  injection h4 with h4
  omega

/-- **agreement with openpyxl on 1 … 18278**: `get_column_letter` is `num2col`, and
    `column_index_from_string` inverts it. -/
theorem col_openpyxl_agrees (n : Nat) (h1 : 1 ≤ n) (h2 : n ≤ 18278) :
    ∃ s, num2col (n : Int) = some s ∧ getColumnLetter (n : Int) = .val s ∧ columnIndexFromString s = .val n := by
  refine ⟨colLetters n, ?_, getColumnLetter_eq n h1 h2, ?_⟩
  · unfold num2col colLetters
    have : ¬ ((n : Int) < 1) := by omega
    simp [this]
  · rw [columnIndexFromString_upper _ (colLetters_ne_nil n h1) (colLetters_length n h2) (colLetters_upper n),
      colLetters_lval]

example : num2col 26 = some "Z".toList ∧ num2col 27 = some "AA".toList ∧ num2col 702 = some "ZZ".toList ∧
    num2col 703 = some "AAA".toList ∧ col2num "AAA".toList = some 703 := by decide

/-! ## rect_shape — a range denotes exactly its rows × columns cells, row-major -/

/-- text of a cell address as the model prints it (`Sheet!A1`; no prefix for the empty sheet) -/
def addrText (a : Spec.C03.Addr) : Text := cellKey (sheetPrefix a.sheet) a.col a.row

theorem rectTexts_eq_rect (sheet : Text) (c1 r1 c2 r2 : Nat) :
    rectTexts (sheetPrefix sheet) c1 r1 c2 r2 = (Spec.C03.rect ⟨sheet, c1, r1, c2, r2⟩).map (·.map addrText) := by
  unfold rectTexts Spec.C03.rect rangeIncl addrText
  simp [List.map_map, Function.comp_def]

/-- how a sheet-qualified or unqualified range is written: an optional prefix `S!` -/
inductive Prefix
  | none
  | sheet (S : Text)

def Prefix.text : Prefix → Text
  | .none => []
  | .sheet S => S ++ ['!']

/-- the sheet a prefix stands for (`default` when there is none) -/
def Prefix.denotes (p : Prefix) (default : Text) (S' : Text) : Prop :=
  match p with
  | .none => S' = default
  | .sheet S => (∀ ch ∈ S, ch ≠ ',') ∧ resolveSheet S = some S'

theorem resolveRanges_spelt_range (p : Prefix) (dflt S' : Text) (hp : p.denotes dflt S')
    (d1 d2 d3 d4 : Bool) (c1 r1 c2 r2 : Nat)
    (hc1 : 1 ≤ c1) (hc1' : c1 ≤ 18278) (hc2 : 1 ≤ c2) (hc2' : c2 ≤ 18278) (hr1 : 1 ≤ r1) (hr2 : 1 ≤ r2) :
    resolveRanges (p.text ++ rangeText d1 c1 d2 r1 d3 c2 d4 r2) dflt =
      .val (S', rectTexts (sheetPrefix S') c1 r1 c2 r2) := by
  have hb := rangeBoundaries_range d1 c1 d2 r1 d3 c2 d4 r2 hc1 hc1' hc2 hc2'
  have hch := rangeText_chars d1 c1 d2 r1 d3 c2 d4 r2
  cases p with
  | none =>
    simp only [Prefix.denotes] at hp
    rw [hp]
    simpa [Prefix.text] using resolveRanges_unqualified _ dflt c1 r1 c2 r2 hch hb hc1 hc2 hc2' hr1 hr2
  | sheet S =>
    obtain ⟨h2, h3⟩ := hp
    simpa [Prefix.text] using resolveRanges_qualified S S' _ dflt c1 r1 c2 r2 h2 h3 hch hb hc1 hc2 hc2' hr1 hr2

theorem resolveRanges_spelt_cell (p : Prefix) (dflt S' : Text) (hp : p.denotes dflt S')
    (dc dr : Bool) (c r : Nat) (hc1 : 1 ≤ c) (hc1' : c ≤ 18278) (hr1 : 1 ≤ r) :
    resolveRanges (p.text ++ coordText dc c dr r) dflt = .val (S', rectTexts (sheetPrefix S') c r c r) := by
  have hb := rangeBoundaries_cell dc c dr r hc1 hc1'
  have hch := coordText_chars dc c dr r
  cases p with
  | none =>
    simp only [Prefix.denotes] at hp
    rw [hp]
    simpa [Prefix.text] using resolveRanges_unqualified _ dflt c r c r hch hb hc1 hc1 hc1' hr1 hr1
  | sheet S =>
    obtain ⟨h2, h3⟩ := hp
    simpa [Prefix.text] using resolveRanges_qualified S S' _ dflt c r c r h2 h3 hch hb hc1 hc1 hc1' hr1 hr1

/-- **rect_shape**: for all bounds `1 ≤ c1, c2 ≤ 18278`, `1 ≤ r1, r2`, every `$` spelling and every
    sheet prefix, `resolve_ranges` of the text `[S!][$]C1[$]R1:[$]C2[$]R2` gives the sheet the prefix stands
    for and exactly the addresses of `Spec.rect` — rows `r1 … r2`, in each row columns `c1 … c2`, row-major. -/
theorem rect_shape (p : Prefix) (dflt S' : Text) (hp : p.denotes dflt S')
    (d1 d2 d3 d4 : Bool) (c1 r1 c2 r2 : Nat)
    (hc1 : 1 ≤ c1) (hc1' : c1 ≤ 18278) (hc2 : 1 ≤ c2) (hc2' : c2 ≤ 18278) (hr1 : 1 ≤ r1) (hr2 : 1 ≤ r2) :
    resolveRanges (p.text ++ rangeText d1 c1 d2 r1 d3 c2 d4 r2) dflt =
      .val (S', (Spec.C03.rect ⟨S', c1, r1, c2, r2⟩).map (·.map addrText)) := by
  rw [resolveRanges_spelt_range p dflt S' hp d1 d2 d3 d4 c1 r1 c2 r2 hc1 hc1' hc2 hc2' hr1 hr2, rectTexts_eq_rect]

/-- the rectangle has `r2 - r1 + 1` rows of `c2 - c1 + 1` cells each; its cells are exactly the cells
    within the bounds, each once. -/
theorem rect_rows_cols (g : Spec.C03.Range) :
    (Spec.C03.rect g).length = g.r2 + 1 - g.r1 ∧
    (∀ row ∈ Spec.C03.rect g, row.length = g.c2 + 1 - g.c1) ∧
    (∀ a, a ∈ (Spec.C03.rect g).flatten ↔
      a.sheet = g.sheet ∧ g.c1 ≤ a.col ∧ a.col ≤ g.c2 ∧ g.r1 ≤ a.row ∧ a.row ≤ g.r2) ∧
    (Spec.C03.rect g).flatten.Nodup := by
  unfold Spec.C03.rect
  refine ⟨by simp, ?_, ?_, ?_⟩
  · intro row hrow
    obtain ⟨r, _, rfl⟩ := List.mem_map.mp hrow
    simp
  · intro a
    constructor
    · intro h
      obtain ⟨row, hrow, ha⟩ := List.mem_flatten.mp h
      obtain ⟨r, hr, rfl⟩ := List.mem_map.mp hrow
      obtain ⟨c, hc, rfl⟩ := List.mem_map.mp ha
      rw [List.mem_range'_1] at hc hr
      refine ⟨rfl, ?_, ?_, ?_, ?_⟩ <;> simp only <;> omega
    · rintro ⟨hs, h1, h2, h3, h4⟩
      apply List.mem_flatten.mpr
      refine ⟨_, List.mem_map.mpr ⟨a.row, by rw [List.mem_range'_1]; omega, rfl⟩, ?_⟩
      refine List.mem_map.mpr ⟨a.col, by rw [List.mem_range'_1]; omega, ?_⟩
      cases a; simp only at hs; subst hs; rfl
  · rw [List.nodup_flatten]
    constructor
    · intro row hrow
      obtain ⟨r, _, rfl⟩ := List.mem_map.mp hrow
      apply List.Nodup.map
      · intro c c' h; injection h
      · exact List.nodup_range'
    · rw [List.pairwise_map]
      have hn : (List.range' g.r1 (g.r2 + 1 - g.r1)).Nodup := List.nodup_range'
      apply List.Pairwise.imp _ hn
      intro r r' hne
      show List.Disjoint _ _
      intro a h1 h2
      obtain ⟨c, _, rfl⟩ := List.mem_map.mp h1
      obtain ⟨c', _, h⟩ := List.mem_map.mp h2
      injection h with _ _ hr
      exact hne hr.symm

/-- different cells have different address texts (so the matrix of `resolve_ranges` has no duplicates) -/
theorem addrText_injective_on_sheet (sheet : Text) (c r c' r' : Nat)
    (h : addrText ⟨sheet, c, r⟩ = addrText ⟨sheet, c', r'⟩) : c = c' ∧ r = r' :=
  cellKey_injective _ h

theorem rect_texts_nodup (sheet : Text) (c1 r1 c2 r2 : Nat) :
    ((Spec.C03.rect ⟨sheet, c1, r1, c2, r2⟩).map (·.map addrText)).flatten.Nodup := by
  have hn := (rect_rows_cols ⟨sheet, c1, r1, c2, r2⟩).2.2.2
  have hm := (rect_rows_cols ⟨sheet, c1, r1, c2, r2⟩).2.2.1
  have e : ((Spec.C03.rect ⟨sheet, c1, r1, c2, r2⟩).map (·.map addrText)).flatten =
      (Spec.C03.rect ⟨sheet, c1, r1, c2, r2⟩).flatten.map addrText := by
    simp [List.map_flatten]
  rw [e]
  apply List.Nodup.map_on _ hn
  intro a ha b hb hab
  have ha' := (hm a).mp ha
  have hb' := (hm b).mp hb
  obtain ⟨as, ac, ar⟩ := a
  obtain ⟨bs, bc, br⟩ := b
  simp only at ha' hb'
  obtain ⟨rfl, _⟩ := ha'
  obtain ⟨rfl, _⟩ := hb'
  obtain ⟨e1, e2⟩ := addrText_injective_on_sheet _ _ _ _ _ hab
  subst e1; subst e2; rfl

example : resolveRanges "'My Sheet'!$B$2:C$3".toList =
    .val ("My Sheet".toList, [["My Sheet!B2".toList, "My Sheet!C2".toList],
                              ["My Sheet!B3".toList, "My Sheet!C3".toList]]) := by decide

example : (Prefix.sheet "'It''s'".toList).denotes [] "It's".toList ∧
    (Prefix.sheet "A!B".toList).denotes [] "A!B".toList := by
  refine ⟨⟨by decide, by decide⟩, ⟨by decide, by decide⟩⟩

/-! ## dollar_irrelevant — all `$` spellings of a cell or range address denote the same cells -/

/-- **dollar_irrelevant (resolve_ranges)**: the `$` flags of a range text do not matter. -/
theorem dollar_irrelevant_range (p : Prefix) (dflt S' : Text) (hp : p.denotes dflt S')
    (d1 d2 d3 d4 e1 e2 e3 e4 : Bool) (c1 r1 c2 r2 : Nat)
    (hc1 : 1 ≤ c1) (hc1' : c1 ≤ 18278) (hc2 : 1 ≤ c2) (hc2' : c2 ≤ 18278) (hr1 : 1 ≤ r1) (hr2 : 1 ≤ r2) :
    resolveRanges (p.text ++ rangeText d1 c1 d2 r1 d3 c2 d4 r2) dflt =
    resolveRanges (p.text ++ rangeText e1 c1 e2 r1 e3 c2 e4 r2) dflt := by
  rw [resolveRanges_spelt_range p dflt S' hp d1 d2 d3 d4 c1 r1 c2 r2 hc1 hc1' hc2 hc2' hr1 hr2,
    resolveRanges_spelt_range p dflt S' hp e1 e2 e3 e4 c1 r1 c2 r2 hc1 hc1' hc2 hc2' hr1 hr2]

/-- **dollar_irrelevant (single cell through resolve_ranges)**: `A1`, `$A1`, `A$1`, `$A$1` all give `[[S!A1]]`. -/
theorem dollar_irrelevant_cell (p : Prefix) (dflt S' : Text) (hp : p.denotes dflt S')
    (dc dr : Bool) (c r : Nat) (hc1 : 1 ≤ c) (hc1' : c ≤ 18278) (hr1 : 1 ≤ r) :
    resolveRanges (p.text ++ coordText dc c dr r) dflt = .val (S', [[addrText ⟨S', c, r⟩]]) := by
  rw [resolveRanges_spelt_cell p dflt S' hp dc dr c r hc1 hc1' hr1]
  unfold rectTexts rangeIncl addrText
  simp

theorem coordChar_no_bang (coords : Text) (h : ∀ ch ∈ coords, coordChar ch) : ∀ ch ∈ coords, ch ≠ '!' :=
  fun ch hc => coordChar_ne ch (h ch hc) '!' (Or.inr (Or.inl rfl))

/-- `full_address` / `terms` strip the `$` of the coordinates and leave the sheet prefix alone — whatever
    the sheet name contains (`$`, `!`, …) -/
theorem stripCoordDollar_spelt (p : Prefix) (coords : Text) (h : ∀ ch ∈ coords, ch ≠ '!') :
    stripCoordDollar (p.text ++ coords) = p.text ++ removeChar '$' coords := by
  cases p with
  | none => simpa [Prefix.text] using stripCoordDollar_unqualified coords h
  | sheet S => simpa [Prefix.text] using stripCoordDollar_qualified S coords h

/-- **dollar_irrelevant (evaluation)**: a reference to a cell evaluates through `full_address` to the
    same address whatever its `$` flags, for every sheet prefix. -/
theorem dollar_irrelevant_fullAddress_cell (p : Prefix) (dc dr : Bool) (c r : Nat) (ctx : Text) :
    fullAddress (p.text ++ coordText dc c dr r) ctx = fullAddress (p.text ++ coordText false c false r) ctx := by
  unfold fullAddress
  simp only [stripCoordDollar_spelt p _ (coordChar_no_bang _ (coordText_chars _ _ _ _)), removeChar_coordText]

theorem dollar_irrelevant_fullAddress_range (p : Prefix) (d1 d2 d3 d4 : Bool) (c1 r1 c2 r2 : Nat) (ctx : Text) :
    fullAddress (p.text ++ rangeText d1 c1 d2 r1 d3 c2 d4 r2) ctx =
    fullAddress (p.text ++ rangeText false c1 false r1 false c2 false r2) ctx := by
  unfold fullAddress
  simp only [stripCoordDollar_spelt p _ (coordChar_no_bang _ (rangeText_chars _ _ _ _ _ _ _ _)), removeChar_rangeText]

section
variable (un : Nat → V → V) (bin : Nat → V → V → V) (me : Nat)

/-- a range node is evaluated through its full address only -/
theorem rangeNodeEval_congr (wb : Wb) (ec : Text → Out V) (s s' t t' : Text)
    (h : fullAddress t s = fullAddress t' s') :
    rangeNodeEval me wb ec s t = rangeNodeEval me wb ec s' t' := by
  unfold rangeNodeEval; rw [h]

/-- **dollar_irrelevant**: `=REF` evaluates to the same value for all four `$` spellings of a cell and
    all sixteen of a range, in every workbook and context, for every sheet name (also one with a `$`). -/
theorem dollar_irrelevant (wb : Wb) (ec : Text → Out V) (ctx : Text) (p : Prefix)
    (d1 d2 d3 d4 : Bool) (c1 r1 c2 r2 : Nat) :
    evalExpr un bin me wb ec ctx (.ref (p.text ++ coordText d1 c1 d2 r1)) =
      evalExpr un bin me wb ec ctx (.ref (p.text ++ coordText false c1 false r1)) ∧
    evalExpr un bin me wb ec ctx (.ref (p.text ++ rangeText d1 c1 d2 r1 d3 c2 d4 r2)) =
      evalExpr un bin me wb ec ctx (.ref (p.text ++ rangeText false c1 false r1 false c2 false r2)) := by
  constructor
  · exact rangeNodeEval_congr me wb ec ctx ctx _ _ (dollar_irrelevant_fullAddress_cell p d1 d2 c1 r1 ctx)
  · exact rangeNodeEval_congr me wb ec ctx ctx _ _ (dollar_irrelevant_fullAddress_range p d1 d2 d3 d4 c1 r1 c2 r2 ctx)

end

/-- also the terms recorded for `build_ranges` ignore the `$` flags -/
theorem dollar_irrelevant_terms (sheetName : Text) (d1 d2 d3 d4 : Bool) (c1 r1 c2 r2 : Nat) :
    formulaTerms sheetName (.ref (rangeText d1 c1 d2 r1 d3 c2 d4 r2)) =
    formulaTerms sheetName (.ref (rangeText false c1 false r1 false c2 false r2)) := by
  simp only [formulaTerms, Expr.refs, termsLoop, List.contains_nil, Bool.false_eq_true, if_false,
    stripCoordDollar_unqualified _ (coordChar_no_bang _ (rangeText_chars _ _ _ _ _ _ _ _)),
    removeChar_rangeText, List.nil_append]

example : fullAddress "$A$1".toList "Sheet1".toList = "Sheet1!A1".toList ∧
    fullAddress "US$!$A$1".toList "Sheet1".toList = "US$!A1".toList ∧
    fullAddress "A!B!A$1".toList "Sheet1".toList = "A!B!A1".toList ∧
    fullAddress "'x'!A$1".toList "Sheet1".toList ≠ "x!A1".toList := by decide   -- quotes are the tokenizer's job

/-! ## sheet_default — an unqualified reference means the sheet of the cell that holds the formula,
    through any chain of cross-sheet evaluations -/

/-- every reference of the formula written out with the sheet `S` it is resolved on -/
def qualifyExpr (S : Text) (e : Expr) : Expr := e.mapRef fun t => fullAddress t S

/-- the workbook in which every formula has been qualified with the sheet of its own cell -/
def qualifyWb (wb : Wb) : Wb :=
  { wb with cells := wb.cells.map fun kc =>
      (kc.1, { kc.2 with formula := kc.2.formula.map fun fm =>
        { fm with ast := qualifyExpr (sheetOf kc.1) fm.ast } }) }

/-- a text that already carries a sheet is its own full address (up to the `$` of its coordinates) -/
theorem fullAddress_qualified (A b X : Text) (hb : ∀ ch ∈ b, ch ≠ '!') :
    fullAddress (A ++ '!' :: b) X = A ++ '!' :: removeChar '$' b := by
  unfold fullAddress
  rw [stripCoordDollar_qualified A b hb]
  have : has '!' (A ++ '!' :: removeChar '$' b) = true := (has_iff _ _).mpr (by simp)
  simp only [this, if_true]

/-- a text without a sheet gets the context sheet -/
theorem fullAddress_unqualified (t S : Text) (ht : ∀ ch ∈ t, ch ≠ '!') :
    fullAddress t S = S ++ '!' :: removeChar '$' t := by
  unfold fullAddress
  rw [stripCoordDollar_unqualified t ht]
  have : has '!' (removeChar '$' t) = false := has_false '!' _ (removeChar_ne_mem '$' t '!' ht)
  simp only [this, Bool.false_eq_true, if_false]
  simp

/-- qualifying twice is qualifying once: the full address of a reference no longer depends on a context -/
theorem fullAddress_idem (t S X : Text) : fullAddress (fullAddress t S) X = fullAddress t S := by
  cases hr : rsplitLast '!' t with
  | some p =>
    obtain ⟨sh, co⟩ := p
    obtain ⟨ht, hco⟩ := rsplitLast_some_mem '!' t sh co hr
    rw [ht, fullAddress_qualified sh co S hco,
      fullAddress_qualified sh _ X (removeChar_ne_mem '$' co '!' hco), removeChar_idem]
  | none =>
    have ht := rsplitLast_none_mem '!' t hr
    rw [fullAddress_unqualified t S ht,
      fullAddress_qualified S _ X (removeChar_ne_mem '$' t '!' ht), removeChar_idem]

section
variable (un : Nat → V → V) (bin : Nat → V → V → V) (me : Nat)

/-- **an unqualified reference in a formula on sheet `S` is the reference `S!…`**: evaluating the
    qualified formula in ANY context gives what the original formula gives in the context of `S`. -/
theorem evalExpr_qualify (wb wb' : Wb) (hr : wb'.ranges = wb.ranges) (ec : Text → Out V) (S X : Text)
    (e : Expr) :
    evalExpr un bin me wb' ec X (qualifyExpr S e) = evalExpr un bin me wb ec S e := by
  induction e with
  | num z => rfl
  | ref t =>
    simp only [qualifyExpr, Expr.mapRef, evalExpr]
    unfold rangeNodeEval
    rw [fullAddress_idem t S X, hr]
  | un f a ih =>
    simp only [qualifyExpr, Expr.mapRef, evalExpr] at ih ⊢
    rw [ih]
  | bin f a b iha ihb =>
    simp only [qualifyExpr, Expr.mapRef, evalExpr] at iha ihb ⊢
    rw [iha, ihb]

/-- the evaluator with an arbitrary policy for the context sheet of a cell (`evalCell` is the policy
    "the sheet of the cell itself", `Evaluator._get_context(addr)`) -/
def evalCellP (ctxOf : Text → Text) (wb : Wb) : Nat → List Text → Text → Out V
  | 0, _, _ => .diverge
  | fuel + 1, evaluating, addr =>
    match dget wb.cells addr with
    | none => .val (.s .blank)
    | some cell =>
      match cell.formula with
      | none => .val (.s cell.value)
      | some fm =>
        if evaluating.contains addr then .crash .runtime
        else wrapRuntime (evalExpr un bin me wb (evalCellP ctxOf wb fuel (evaluating ++ [addr])) (ctxOf addr) fm.ast)

theorem evalCellP_sheetOf (wb : Wb) : ∀ (fuel : Nat) (ev : List Text) (addr : Text),
    evalCellP un bin me sheetOf wb fuel ev addr = evalCell un bin me wb fuel ev addr
  | 0, _, _ => rfl
  | fuel + 1, ev, addr => by
    have ih : evalCellP un bin me sheetOf wb fuel (ev ++ [addr]) = evalCell un bin me wb fuel (ev ++ [addr]) :=
      funext fun a => evalCellP_sheetOf wb fuel (ev ++ [addr]) a
    cases hc : dget wb.cells addr with
    | none => simp [evalCellP, evalCell, hc]
    | some cell =>
      cases hf : cell.formula with
      | none => simp [evalCellP, evalCell, hc, hf]
      | some fm => simp [evalCellP, evalCell, hc, hf, ih]

/-- **sheet_default**: evaluating any cell of a workbook gives the same result as evaluating it in the
    workbook whose formulas have all been qualified with the sheet of their own cell (whatever the sheet
    names contain) — and there the
    context sheet is irrelevant (`ctxOf` arbitrary: the sheet of the top-level cell, of the calling cell,
    a constant …).  Hence an unqualified reference in the formula of `S!x` reads sheet `S` however deep
    and across however many sheets the evaluation chain runs (induction on the depth `fuel`). -/
theorem sheet_default (wb : Wb) (ctxOf : Text → Text) :
    ∀ (fuel : Nat) (ev : List Text) (addr : Text),
      evalCellP un bin me ctxOf (qualifyWb wb) fuel ev addr = evalCell un bin me wb fuel ev addr
  | 0, _, _ => rfl
  | fuel + 1, ev, addr => by
    unfold evalCellP evalCell
    have hget : dget (qualifyWb wb).cells addr = (dget wb.cells addr).map fun (c : Cell) =>
        { c with formula := c.formula.map fun (fm : Formula) => { fm with ast := qualifyExpr (sheetOf addr) fm.ast } } := by
      unfold qualifyWb
      exact dget_map (fun k (c : Cell) =>
        { c with formula := c.formula.map fun (fm : Formula) => { fm with ast := qualifyExpr (sheetOf k) fm.ast } }) wb.cells addr
    rw [hget]
    cases hc : dget wb.cells addr with
    | none => rfl
    | some cell =>
      cases hf : cell.formula with
      | none => simp [hf]
      | some fm =>
        have ih : evalCellP un bin me ctxOf (qualifyWb wb) fuel (ev ++ [addr]) =
            evalCell un bin me wb fuel (ev ++ [addr]) :=
          funext fun a => sheet_default wb ctxOf fuel (ev ++ [addr]) a
        simp only [Option.map_some, hf, ih]
        rw [evalExpr_qualify un bin me wb (qualifyWb wb) rfl _ (sheetOf addr) (ctxOf addr) fm.ast]

/-- in the qualified workbook no reference depends on a context: every reference carries its sheet -/
theorem qualified_has_sheet (S t : Text) : has '!' (fullAddress t S) = true := by
  cases hr : rsplitLast '!' t with
  | some p =>
    obtain ⟨sh, co⟩ := p
    obtain ⟨ht, hco⟩ := rsplitLast_some_mem '!' t sh co hr
    rw [ht, fullAddress_qualified sh co S hco]; exact (has_iff _ _).mpr (by simp)
  | none =>
    rw [fullAddress_unqualified t S (rsplitLast_none_mem '!' t hr)]; exact (has_iff _ _).mpr (by simp)

end

/-- the sheet of a cell address is the text before its LAST `!` (the sheet name may contain `!`) -/
theorem sheetOf_key (S rest : Text) (h : ∀ ch ∈ rest, ch ≠ '!') : sheetOf (S ++ '!' :: rest) = S := by
  unfold sheetOf
  rw [rsplitLast_append '!' S rest h]

/-! ## terms — every reference of a formula is recorded, references on different sheets stay apart -/

/-- the term `XLFormula.__post_init__` records for a range operand is its full address on the formula's sheet -/
theorem termsLoop_spec (S : Text) : ∀ (refs acc : List Text), (∀ x ∈ acc, fullAddress x S = x) →
    (∀ x ∈ acc, x ∈ termsLoop S refs acc) ∧ (∀ tv ∈ refs, fullAddress tv S ∈ termsLoop S refs acc)
  | [], acc, _ => ⟨fun x hx => by simpa [termsLoop] using hx, fun tv h => by cases h⟩
  | tv :: rest, acc, hfix => by
    unfold termsLoop
    by_cases hc : acc.contains tv = true
    · simp only [hc, if_true]
      obtain ⟨h1, h2⟩ := termsLoop_spec S rest acc hfix
      refine ⟨h1, ?_⟩
      intro x hx
      rcases List.mem_cons.mp hx with rfl | hx
      · have hmem : x ∈ acc := by simpa using hc
        rw [hfix x hmem]; exact h1 x hmem
      · exact h2 x hx
    · simp only [hc, Bool.false_eq_true, if_false]
      have hfix' : ∀ x ∈ acc ++ [fullAddress tv S], fullAddress x S = x := by
        intro x hx
        rcases List.mem_append.mp hx with hx | hx
        · exact hfix x hx
        · have : x = fullAddress tv S := by simpa using hx
          rw [this, fullAddress_idem]
      obtain ⟨h1, h2⟩ := termsLoop_spec S rest (acc ++ [fullAddress tv S]) hfix'
      refine ⟨fun x hx => h1 x (List.mem_append.mpr (Or.inl hx)), ?_⟩
      intro x hx
      rcases List.mem_cons.mp hx with rfl | hx
      · exact h1 _ (List.mem_append.mpr (Or.inr (by simp)))
      · exact h2 x hx

/-- **terms_complete**: every range operand of a formula — whatever else the formula mentions — has its
    full address among the formula's terms (nothing is lost to the duplicate test). -/
theorem terms_complete (S : Text) (e : Expr) : ∀ tv ∈ e.refs, fullAddress tv S ∈ formulaTerms S e :=
  (termsLoop_spec S e.refs [] (by intro x hx; cases hx)).2

/-- **terms_distinct_sheets**: two references with the SAME coordinates (any `$` spellings) on two DIFFERENT
    sheets in one formula give two different terms, and both are recorded. -/
theorem terms_distinct_sheets (S S1 S2 coords1 coords2 : Text) (e : Expr) (hS : S1 ≠ S2)
    (h1 : ∀ ch ∈ coords1, ch ≠ '!') (h2 : ∀ ch ∈ coords2, ch ≠ '!')
    (hsame : removeChar '$' coords1 = removeChar '$' coords2)
    (hr1 : S1 ++ '!' :: coords1 ∈ e.refs) (hr2 : S2 ++ '!' :: coords2 ∈ e.refs) :
    S1 ++ '!' :: removeChar '$' coords1 ∈ formulaTerms S e ∧
    S2 ++ '!' :: removeChar '$' coords1 ∈ formulaTerms S e ∧
    S1 ++ '!' :: removeChar '$' coords1 ≠ S2 ++ '!' :: removeChar '$' coords1 := by
  refine ⟨?_, ?_, ?_⟩
  · have := terms_complete S e _ hr1
    rwa [fullAddress_qualified S1 coords1 S h1] at this
  · have := terms_complete S e _ hr2
    rwa [fullAddress_qualified S2 coords2 S h2, ← hsame] at this
  · intro heq
    have hnb := removeChar_ne_mem '$' coords1 '!' h1
    have e1 := rsplitLast_append '!' S1 _ hnb
    have e2 := rsplitLast_append '!' S2 _ hnb
    rw [heq, e2] at e1
    injection e1 with e1
    injection e1 with e1 _
    exact hS e1.symm

/-- **build_ranges registers every range term of every formula**: after `build_ranges`, each term `S!…:…` of
    each formula cell is a key of `ranges` holding the matrix `resolve_ranges` gives for it. -/
theorem build_ranges_registers_terms (dflt : Text) (wb wb' : Wb) (hok : RangesOK wb)
    (hb : buildRanges dflt wb = .val wb') (key : Text) (cell : Cell) (fm : Formula)
    (hcell : (key, cell) ∈ wb.cells) (hfm : cell.formula = some fm) :
    ∀ t ∈ fm.terms, has ':' t = true → has '!' t = true →
      ∃ sh m, resolveRanges t = .val (sh, m) ∧ dget wb'.ranges t = some m := by
  unfold buildRanges at hb
  intro t ht
  apply (buildRangesTerms_registers dflt _ wb wb' hok hb).2 t
  simp only [List.mem_flatten, List.mem_filterMap]
  exact ⟨fm.terms, ⟨(key, cell), hcell, by simp [hfm]⟩, ht⟩

/-- hence every range operand of every formula — also a rectangle whose coordinates another operand of the
    same formula uses on another sheet — is registered under its full address. -/
theorem every_range_reference_registered (dflt : Text) (wb wb' : Wb) (hok : RangesOK wb)
    (hb : buildRanges dflt wb = .val wb') (key : Text) (cell : Cell) (fm : Formula)
    (hcell : (key, cell) ∈ wb.cells) (hfm : cell.formula = some fm)
    (hterms : fm.terms = formulaTerms fm.sheetName fm.tokens)
    (tv : Text) (htv : tv ∈ fm.tokens.refs) (hcolon : has ':' (fullAddress tv fm.sheetName) = true) :
    ∃ sh m, resolveRanges (fullAddress tv fm.sheetName) = .val (sh, m) ∧
      dget wb'.ranges (fullAddress tv fm.sheetName) = some m :=
  build_ranges_registers_terms dflt wb wb' hok hb key cell fm hcell hfm _
    (by rw [hterms]; exact terms_complete _ _ tv htv) hcolon (qualified_has_sheet _ _)

example : formulaTerms (t0 "Sheet1") (.bin 1 (.un 0 (.ref (t0 "Jan!$A$1:$B$2"))) (.un 0 (.ref (t0 "Feb 2024!$A$1:$B$2"))))
    = [t0 "Jan!A1:B2", t0 "Feb 2024!A1:B2"] := by decide

/-! ## range_values_once — a range hands every member's current value over, exactly once

  FULL STATEMENT (the goal; it does NOT hold for the current code — known finding D6):

      theorem range_values_once (wb) (ec) (ctx t rows)
          (hkey : dget wb.ranges (fullAddress t ctx) = some rows)
          (hne : ∀ row ∈ rows, row ≠ []) (hs : ∀ a ∈ rows.flatten, scalarAt ec a) :
          rangeNodeEval Gen.maxEmpty wb ec ctx t = .val (.arr (rows.map fun row => row.map (valOf ec)))

  i.e. the array a range-consuming function receives has the shape of the range and holds at (i, j)
  the current value of the member (i, j) — every member once, no matter how many blank cells lie in
  between.  `RangeNode.eval` stops reading a row once more than MAX_EMPTY empty cells have been seen in a
  row-major run (cumulative across rows) and drops the rows that follow while they start with an empty
  cell, so the statement is proved under the guard `noTruncation` (no such run), which is a decidable
  predicate on the blank pattern of the range; `range_truncated` below is the kernel-checked
  counter-example to the full statement. -/

section
variable (me : Nat)

/-- **C03_range_partial**: under the guard "no run of more than MAX_EMPTY empty cells (row-major)" a
    range evaluates to the matrix of its members' current values: same shape, every member exactly once,
    in row-major order. -/
theorem C03_range_partial (wb : Wb) (ec : Text → Out V) (ctx t : Text) (rows : List (List Text))
    (hkey : dget wb.ranges (fullAddress t ctx) = some rows)
    (hne : ∀ row ∈ rows, row ≠ []) (hs : ∀ a ∈ rows.flatten, scalarAt ec a)
    (hguard : noTruncation me (blankPattern ec rows) = true) :
    rangeNodeEval me wb ec ctx t = .val (.arr (rows.map fun row => row.map (valOf ec))) := by
  unfold rangeNodeEval
  simp only [hkey]
  unfold noTruncation at hguard
  rw [readRows_ok me ec rows 0 0 hne hs hguard]
  rfl

/-- table obligation: the cut-off of the running code is not lower than the one recorded in known
    finding D6 (a lower MAX_EMPTY truncates ranges that are read completely today) -/
theorem maxEmpty_not_lowered : 100 ≤ Gen.maxEmpty := by decide

/-- the guard is "the longest run of empty members is at most MAX_EMPTY" -/
theorem guard_is_maxBlankRun (pattern : List (List Bool)) :
    noTruncation me pattern = true ↔ maxBlankRun pattern ≤ me := noTruncation_iff me pattern

/-- a range without any empty member always satisfies the guard -/
theorem guard_of_no_blank (pattern : List (List Bool)) (h : ∀ b ∈ pattern.flatten, b = false) :
    noTruncation me pattern = true := by
  unfold noTruncation
  generalize pattern.flatten = l at h
  generalize (0 : Nat) = cnt
  induction l generalizing cnt with
  | nil => rfl
  | cons b bs ih =>
    have hb : b = false := h b (by simp)
    subst hb
    simp only [runOK]
    exact ih (fun x hx => h x (by simp [hx])) 0

end

/-- a sparse column: 300 one-cell rows `r0 … r299`, `r0 = 1`, `r299 = 5`, everything else empty -/
def sparseRows : List (List Text) := (List.range 300).map fun i => [natRepr i]
def sparseCell (a : Text) : Out V :=
  if a = natRepr 0 then .val (.s (.num (.int 1)))
  else if a = natRepr 299 then .val (.s (.num (.int 5)))
  else .val (.s (.text []))

/-- non-vacuity of `C03_range_partial`: a range with blanks that meets the guard -/
example : noTruncation Gen.maxEmpty [[false, true, true], [true, false, true]] = true := by decide

set_option maxRecDepth 100000 in
/-- **kernel-checked counter-example to the full statement (D6)**: the sparse column is read as 201 rows
    only — `1`, a hundred empty cells, a hundred empty rows — and the `5` of the last member is lost;
    the guard is indeed violated there. -/
theorem range_truncated :
    readRows Gen.maxEmpty sparseCell sparseRows 0 0 ≠ .val (sparseRows.map fun row => row.map (valOf sparseCell)) ∧
    (∃ m, readRows Gen.maxEmpty sparseCell sparseRows 0 0 = .val m ∧ m.length = 201 ∧
      S.num (.int 5) ∉ m.flatten) ∧
    noTruncation Gen.maxEmpty (blankPattern sparseCell sparseRows) = false := by
  refine ⟨by decide +kernel, ⟨_, rfl, by decide +kernel, by decide +kernel⟩, by decide +kernel⟩


/-! ## build_ranges — what the model holds for a range, and the blank cells it creates -/

/-- **every range registered while the model is built (formula ranges by `build_ranges`, named ranges by
    `build_defined_names`) holds exactly the matrix `resolve_ranges` gives for its key** — for every input
    dict / archive and every list of defined names. -/
theorem build_registers_resolved_ranges (dflt : Text) (items : List (Text × Item)) (names : List (Text × Text))
    (wb : Wb) (h : compile dflt items names = .val wb) :
    ∀ k m, dget wb.ranges k = some m → ∃ sh, resolveRanges k = .val (sh, m) :=
  compile_RangesOK dflt items names wb h

/-- one term of `build_ranges`: a range term `S!…:…` is registered under its own text, afterwards every
    member has a cell; cells that existed keep their content, the new ones are blank
    (`XLCell(address, None)`). -/
theorem build_ranges_term (dflt : Text) (wb wb' : Wb) (term : Text) (hok : RangesOK wb)
    (hb : buildRangesTerm dflt wb term = .val wb') (h1 : has ':' term = true) (h2 : has '!' term = true) :
    (∃ sh m, resolveRanges term = .val (sh, m) ∧ dget wb'.ranges term = some m ∧
        ∀ a ∈ m.flatten, dhas wb'.cells a = true) ∧
    (∀ k, dhas wb.cells k = true → dget wb'.cells k = dget wb.cells k) ∧
    (∀ k, dhas wb.cells k = false → dhas wb'.cells k = true → dget wb'.cells k = some ⟨.blank, none⟩) := by
  obtain ⟨_, _, a, b, c⟩ := buildRangesTerm_spec dflt wb wb' term hok hb
  exact ⟨c h1 h2, a, b⟩

/-- in a built model, the matrix registered for the key `S!C1R1:C2R2` is the rectangle of `Spec.rect` -/
theorem registered_range_is_rect (wb : Wb) (hok : RangesOK wb) (S S' : Text)
    (hp : (Prefix.sheet S).denotes [] S') (c1 r1 c2 r2 : Nat)
    (hc1 : 1 ≤ c1) (hc1' : c1 ≤ 18278) (hc2 : 1 ≤ c2) (hc2' : c2 ≤ 18278) (hr1 : 1 ≤ r1) (hr2 : 1 ≤ r2)
    (rows : List (List Text))
    (hkey : dget wb.ranges ((Prefix.sheet S).text ++ rangeText false c1 false r1 false c2 false r2) = some rows) :
    rows = (Spec.C03.rect ⟨S', c1, r1, c2, r2⟩).map (·.map addrText) := by
  obtain ⟨sh, hr⟩ := hok _ _ hkey
  have := rect_shape (Prefix.sheet S) "Sheet1".toList S' hp false false false false c1 r1 c2 r2 hc1 hc1' hc2 hc2' hr1 hr2
  rw [this] at hr
  injection hr with hr
  injection hr with _ hr
  exact hr.symm

section
variable (un : Nat → V → V) (bin : Nat → V → V → V) (me : Nat)

/-- **range reference = values of the rectangle** (composition of `build_registers_resolved_ranges`,
    `rect_shape`, `dollar_irrelevant` and `C03_range_partial`): in a built model, a reference
    `S![$]C1[$]R1:[$]C2[$]R2` whose range is registered evaluates — under the D6 guard — to the matrix of the
    current values of the cells of `Spec.rect`, row-major, each exactly once. -/
theorem range_reference_reads_rect (wb : Wb) (hok : RangesOK wb) (ec : Text → Out V) (ctx S : Text)
    (hp : (Prefix.sheet S).denotes [] S)
    (d1 d2 d3 d4 : Bool) (c1 r1 c2 r2 : Nat)
    (hc1 : 1 ≤ c1) (hc12 : c1 ≤ c2) (hc2' : c2 ≤ 18278) (hr1 : 1 ≤ r1) (hr12 : r1 ≤ r2)
    (rows : List (List Text))
    (hkey : dget wb.ranges ((Prefix.sheet S).text ++ rangeText false c1 false r1 false c2 false r2) = some rows)
    (hs : ∀ a ∈ rows.flatten, scalarAt ec a)
    (hguard : noTruncation me (blankPattern ec rows) = true) :
    evalExpr un bin me wb ec ctx (.ref ((Prefix.sheet S).text ++ rangeText d1 c1 d2 r1 d3 c2 d4 r2)) =
      .val (.arr ((Spec.C03.rect ⟨S, c1, r1, c2, r2⟩).map (·.map fun a => valOf ec (addrText a)))) := by
  have hrect := registered_range_is_rect wb hok S S hp c1 r1 c2 r2 hc1 (by omega) (by omega) hc2' hr1 (by omega) rows hkey
  have hfa : fullAddress ((Prefix.sheet S).text ++ rangeText d1 c1 d2 r1 d3 c2 d4 r2) ctx =
      (Prefix.sheet S).text ++ rangeText false c1 false r1 false c2 false r2 := by
    have e : (Prefix.sheet S).text ++ rangeText d1 c1 d2 r1 d3 c2 d4 r2 = S ++ '!' :: rangeText d1 c1 d2 r1 d3 c2 d4 r2 := by
      simp [Prefix.text]
    rw [e, fullAddress_qualified S _ ctx (coordChar_no_bang _ (rangeText_chars _ _ _ _ _ _ _ _)), removeChar_rangeText]
    simp [Prefix.text, rangeText, coordText, dollar]
  have hne : ∀ row ∈ rows, row ≠ [] := by
    rw [hrect]
    intro row hrow
    obtain ⟨r0, hr0, rfl⟩ := List.mem_map.mp hrow
    have hl := (rect_rows_cols ⟨S, c1, r1, c2, r2⟩).2.1 r0 hr0
    intro hnil
    have : r0.length = 0 := by
      have := congrArg List.length hnil
      simpa using this
    simp only at hl
    omega
  have := C03_range_partial me wb ec ctx _ rows (by rw [hfa]; exact hkey) hne hs hguard
  simp only [evalExpr, this, hrect, List.map_map, Function.comp_def]

end


/-! ## reference_denotes — the tie to `Spec.denoteRef` -/

/-- the sheet a spelt reference addresses when it occurs in a formula on sheet `ctx` -/
def Prefix.sheetOpt : Prefix → Option Text
  | .none => Option.none
  | .sheet S => Option.some S

theorem fullAddress_spelt (p : Prefix) (ctx E coords : Text) (hE : p.sheetOpt.getD ctx = E)
    (hch : ∀ ch ∈ coords, coordChar ch) :
    fullAddress (p.text ++ coords) ctx = E ++ ['!'] ++ removeChar '$' coords := by
  have hnb := coordChar_no_bang coords hch
  cases p with
  | none =>
    simp only [Prefix.sheetOpt, Option.getD_none] at hE
    subst hE
    simp only [Prefix.text, List.nil_append]
    rw [fullAddress_unqualified coords ctx hnb]; simp
  | sheet S =>
    simp only [Prefix.sheetOpt, Option.getD_some] at hE
    subst hE
    have e : (Prefix.sheet S).text ++ coords = S ++ '!' :: coords := by simp [Prefix.text]
    rw [e, fullAddress_qualified S coords ctx hnb]; simp

/-- the scalar of an outcome (blank when it is not a scalar value) -/
def sval : Out V → S
  | .val (.s x) => x
  | _ => .blank

theorem valOf_eq_sval (ec : Text → Out V) (a : Text) : valOf ec a = sval (ec a) := by
  unfold valOf sval; rfl

theorem scalar_val (x : S) : Spec.C03.scalar (.val (.s x)) = .val x := rfl
theorem sval_val (x : S) : sval (.val (.s x)) = x := rfl

/-- scalar read by the reference semantics -/
theorem seqOut_scalars (cur : Spec.C03.Addr → Out V) (row : List Spec.C03.Addr)
    (h : ∀ a ∈ row, ∃ x, cur a = .val (.s x)) :
    Spec.C03.seqOut (row.map fun a => Spec.C03.scalar (cur a)) =
      .val (row.map fun a => sval (cur a)) := by
  induction row with
  | nil => rfl
  | cons a t ih =>
    obtain ⟨x, hx⟩ := h a (by simp)
    have iht := ih (fun b hb => h b (by simp [hb]))
    simp only [List.map_cons, Spec.C03.seqOut, hx, scalar_val, sval_val, iht]

theorem rangeValues_scalars (cur : Spec.C03.Addr → Out V) (g : Spec.C03.Range)
    (h : ∀ a ∈ (Spec.C03.rect g).flatten, ∃ x, cur a = .val (.s x)) :
    Spec.C03.rangeValues cur g =
      .val (.arr ((Spec.C03.rect g).map (·.map fun a => sval (cur a)))) := by
  unfold Spec.C03.rangeValues
  have : ∀ (rows : List (List Spec.C03.Addr)), (∀ a ∈ rows.flatten, ∃ x, cur a = .val (.s x)) →
      Spec.C03.seqOut (rows.map fun row => Spec.C03.seqOut (row.map fun a => Spec.C03.scalar (cur a))) =
        .val (rows.map (·.map fun a => sval (cur a))) := by
    intro rows
    induction rows with
    | nil => intro _; rfl
    | cons r t ih =>
      intro hr
      have h1 := seqOut_scalars cur r (fun a ha => hr a (by simp [ha]))
      have h2 := ih (fun a ha => hr a (by
        simp only [List.flatten_cons, List.mem_append]; exact Or.inr ha))
      simp only [List.map_cons, Spec.C03.seqOut, h1, h2]
  rw [this _ h]

section
variable (un : Nat → V → V) (bin : Nat → V → V → V) (me : Nat)

/-- **reference_denotes (cell)**: a reference to a cell — any `$` spelling, unqualified or qualified with a
    sheet name of any spelling (`$`, `!`, blanks, apostrophes) — evaluates to what `Spec.denoteRef` says: the current value of the cell with that
    sheet (the formula's own sheet when unqualified), column and row. -/
theorem reference_denotes_cell (wb : Wb) (ec : Text → Out V) (names : List Char → Option Spec.C03.Target)
    (ctx : Text) (p : Prefix) (hctx : ctx ≠ []) (hS : ∀ S, p = .sheet S → S ≠ [])
    (dc dr : Bool) (c r : Nat)
    (hnr : dget wb.ranges (addrText ⟨p.sheetOpt.getD ctx, c, r⟩) = none) :
    evalExpr un bin me wb ec ctx (.ref (p.text ++ coordText dc c dr r)) =
      Spec.C03.denoteRef (fun a => ec (addrText a)) names ctx (.cell p.sheetOpt c r) := by
  have hne : p.sheetOpt.getD ctx ≠ [] := by
    cases p with
    | none => simpa [Prefix.sheetOpt] using hctx
    | sheet S => simpa [Prefix.sheetOpt] using hS S rfl
  have hfa := fullAddress_spelt p ctx _ (coordText dc c dr r) rfl (coordText_chars dc c dr r)
  rw [removeChar_coordText] at hfa
  have hkey : addrText ⟨p.sheetOpt.getD ctx, c, r⟩ = p.sheetOpt.getD ctx ++ ['!'] ++ (colLetters c ++ natRepr r) := by
    simp [addrText, cellKey, sheetPrefix, hne]
  simp only [evalExpr, rangeNodeEval, hfa, Spec.C03.denoteRef]
  rw [← hkey, hnr]

/-- **reference_denotes (range)**: a reference to a rectangle whose range is registered in a built model
    evaluates — under the D6 guard — to what `Spec.denoteRef` says: the values of the cells of `Spec.rect` on
    the addressed sheet (the formula's own sheet when unqualified), row-major, each exactly once. -/
theorem reference_denotes_range (wb : Wb) (hok : RangesOK wb) (ec : Text → Out V)
    (names : List Char → Option Spec.C03.Target) (ctx : Text) (p : Prefix) (E : Text)
    (hE : p.sheetOpt.getD ctx = E) (hp : (Prefix.sheet E).denotes [] E)
    (d1 d2 d3 d4 : Bool) (c1 r1 c2 r2 : Nat)
    (hc1 : 1 ≤ c1) (hc12 : c1 ≤ c2) (hc2' : c2 ≤ 18278) (hr1 : 1 ≤ r1) (hr12 : r1 ≤ r2)
    (rows : List (List Text))
    (hkey : dget wb.ranges ((Prefix.sheet E).text ++ rangeText false c1 false r1 false c2 false r2) = some rows)
    (hs : ∀ a ∈ rows.flatten, scalarAt ec a)
    (hguard : noTruncation me (blankPattern ec rows) = true) :
    evalExpr un bin me wb ec ctx (.ref (p.text ++ rangeText d1 c1 d2 r1 d3 c2 d4 r2)) =
      Spec.C03.denoteRef (fun a => ec (addrText a)) names ctx (.range p.sheetOpt c1 r1 c2 r2) := by
  have hrect := registered_range_is_rect wb hok E E hp c1 r1 c2 r2 hc1 (by omega) (by omega) hc2' hr1 (by omega) rows hkey
  -- the reference, whatever its spelling, is evaluated through the key of the qualified, `$`-free text
  have h1 : fullAddress (p.text ++ rangeText d1 c1 d2 r1 d3 c2 d4 r2) ctx =
      fullAddress ((Prefix.sheet E).text ++ rangeText false c1 false r1 false c2 false r2) ctx := by
    rw [fullAddress_spelt p ctx E _ hE (rangeText_chars _ _ _ _ _ _ _ _),
      fullAddress_spelt (Prefix.sheet E) ctx E _ rfl (rangeText_chars _ _ _ _ _ _ _ _),
      removeChar_rangeText, removeChar_rangeText]
  have h2 : evalExpr un bin me wb ec ctx (.ref (p.text ++ rangeText d1 c1 d2 r1 d3 c2 d4 r2)) =
      evalExpr un bin me wb ec ctx (.ref ((Prefix.sheet E).text ++ rangeText false c1 false r1 false c2 false r2)) :=
    rangeNodeEval_congr me wb ec ctx ctx _ _ h1
  rw [h2, range_reference_reads_rect un bin me wb hok ec ctx E hp false false false false c1 r1 c2 r2
    hc1 hc12 hc2' hr1 hr12 rows hkey hs hguard]
  simp only [Spec.C03.denoteRef, hE]
  rw [rangeValues_scalars]
  · simp only [valOf_eq_sval]
  · intro a ha
    have : addrText a ∈ rows.flatten := by
      rw [hrect]
      simp only [List.mem_flatten, List.mem_map]
      obtain ⟨row, hrow, har⟩ := List.mem_flatten.mp ha
      exact ⟨row.map addrText, ⟨row, hrow, rfl⟩, List.mem_map.mpr ⟨a, har, rfl⟩⟩
    exact hs _ this

end

/-! ## blank_not_error — a missing or empty cell reads as blank, never as an error -/

section
variable (un : Nat → V → V) (bin : Nat → V → V → V) (me : Nat)

/-- **blank_not_error (cell)**: a cell that was never stored evaluates to BLANK — not to an error, not
    to an exception — at every depth of an evaluation. -/
theorem blank_not_error (wb : Wb) (fuel : Nat) (ev : List Text) (addr : Text) (h : dget wb.cells addr = none) :
    evalCell un bin me wb (fuel + 1) ev addr = .val (.s .blank) := by
  unfold evalCell; simp [h]

/-- a stored constant reads as itself: an empty constant (`None` or `''`) reads as an empty value -/
theorem const_reads_itself (wb : Wb) (fuel : Nat) (ev : List Text) (addr : Text) (v : S)
    (h : dget wb.cells addr = some ⟨v, none⟩) :
    evalCell un bin me wb (fuel + 1) ev addr = .val (.s v) := by
  unfold evalCell; simp [h]

/-- **blank_not_error (cells created by `build_ranges`)**: a cell that `build_ranges` creates for an empty
    member of a referenced range evaluates to BLANK, exactly like a cell that was never stored — at every
    depth, whoever reads it (D0301 fixed). -/
theorem blank_materialised (dflt : Text) (wb wb' : Wb) (term : Text) (hok : RangesOK wb)
    (hb : buildRangesTerm dflt wb term = .val wb') (k : Text)
    (h1 : dhas wb.cells k = false) (h2 : dhas wb'.cells k = true) (fuel : Nat) (ev : List Text) :
    evalCell un bin me wb' (fuel + 1) ev k = .val (.s .blank) := by
  obtain ⟨_, _, _, hnew, _⟩ := buildRangesTerm_spec dflt wb wb' term hok hb
  exact const_reads_itself un bin me wb' fuel ev k .blank (hnew k h1 h2)

/-- **blank_not_error (reference)**: `=REF` to a missing cell is BLANK for every spelling and context. -/
theorem blank_ref (wb : Wb) (fuel : Nat) (ev : List Text) (ctx t : Text)
    (hr : dget wb.ranges (fullAddress t ctx) = none) (hc : dget wb.cells (fullAddress t ctx) = none) :
    evalExpr un bin me wb (evalCell un bin me wb (fuel + 1) ev) ctx (.ref t) = .val (.s .blank) := by
  simp only [evalExpr, rangeNodeEval, hr]
  exact blank_not_error un bin me wb fuel ev _ hc

/-- **blank_not_error (range)**: a range all of whose members are missing or empty evaluates to an
    array of empty values (possibly cut short, D6) — never to an error. -/
theorem blank_range (wb : Wb) (ec : Text → Out V) (ctx t : Text) (rows : List (List Text))
    (hkey : dget wb.ranges (fullAddress t ctx) = some rows)
    (hs : ∀ a ∈ rows.flatten, ∃ x, ec a = .val (.s x) ∧ isEmptyS x = true) :
    ∃ m, rangeNodeEval me wb ec ctx t = .val (.arr m) ∧ ∀ x ∈ m.flatten, isEmptyS x = true := by
  unfold rangeNodeEval
  simp only [hkey]
  obtain ⟨m, h1, h2⟩ := readRows_empty me ec rows 0 0 hs
  exact ⟨m, by rw [h1]; rfl, h2⟩

end

/-! ## name_denotes — a defined name evaluates as the cell or range it is bound to -/

theorem doubleQuotes_chars (s : Text) : ∀ ch ∈ doubleQuotes s, ch ∈ s ∨ ch = '\'' := by
  induction s with
  | nil => intro ch h; simp [doubleQuotes] at h
  | cons c t ih =>
    intro ch h
    by_cases hc : c = '\''
    · subst hc
      simp only [doubleQuotes, if_true, List.mem_cons] at h
      rcases h with h | h | h
      · exact Or.inr h
      · exact Or.inr h
      · rcases ih ch h with h | h
        · exact Or.inl (by simp [h])
        · exact Or.inr h
    · simp only [doubleQuotes, hc, if_false, List.mem_cons] at h
      rcases h with h | h
      · exact Or.inl (by simp [h])
      · rcases ih ch h with h | h
        · exact Or.inl (by simp [h])
        · exact Or.inr h

theorem quoteSheet_chars (s : Text) : ∀ ch ∈ quoteSheet s, ch ∈ s ∨ ch = '\'' := by
  intro ch h
  unfold quoteSheet at h
  rcases List.mem_cons.mp h with h | h
  · exact Or.inr h
  · rcases List.mem_append.mp h with h | h
    · exact doubleQuotes_chars s ch h
    · exact Or.inr (by simpa using h)

/-- **the address a defined name is bound to**: for the text `'Sheet'!<coords>` (quoted spelling, any
    `$` in the coordinates, any non-empty sheet name — also with `$`, `!` or apostrophes) it is `Sheet!<coords without $>` — the very address a reference with the same
    text has in a formula (`full_address` of the token the tokenizer makes of it). -/
theorem nameAddress_quoted (S coords X : Text) (hne : S ≠ [])
    (hch : ∀ ch ∈ coords, coordChar ch) :
    nameAddress (quoteSheet S ++ '!' :: coords) = S ++ '!' :: removeChar '$' coords ∧
    fullAddress (tokRef (quoteSheet S ++ '!' :: coords)) X = S ++ '!' :: removeChar '$' coords := by
  have hnb := coordChar_no_bang coords hch
  have hc2 : ∀ ch ∈ removeChar '$' coords, ch ≠ '!' := removeChar_ne_mem '$' coords '!' hnb
  constructor
  · unfold nameAddress
    simp only [stripCoordDollar_qualified _ coords hnb, rsplitLast_append '!' _ _ hc2, resolveSheet_quoted S hne,
      Option.getD_some]
    simp
  · rw [tokRef_quoted S coords (fun c hc => coordChar_ne c (hch c hc) '\'' (Or.inr (Or.inr rfl))),
      fullAddress_qualified S coords X hnb]

/-- what `build_defined_names` records for one name: a cell name is bound to the address of its text
    when that cell exists, a range name is bound to the key under which its matrix is registered. -/
theorem defineName_binds (wb wb' : Wb) (name text : Text) (h : defineName wb name text = .val wb') :
    (has ':' (nameAddress text) = false ∧ dhas wb.cells (nameAddress text) = true ∧
        dget wb'.names name = some (.cell (nameAddress text)) ∧ wb'.ranges = wb.ranges ∧ wb'.cells = wb.cells) ∨
    (has ':' (nameAddress text) = false ∧ dhas wb.cells (nameAddress text) = false ∧ wb' = wb) ∨
    (has ':' (nameAddress text) = true ∧ dget wb'.names name = some (.range (nameAddress text)) ∧
        (∃ sh m, resolveRanges (nameAddress text) = .val (sh, m) ∧ dget wb'.ranges (nameAddress text) = some m) ∧
        wb'.cells = wb.cells) := by
  unfold defineName at h
  by_cases hcolon : has ':' (nameAddress text) = true
  · right; right
    cases hr : resolveRanges (nameAddress text) with
    | val p =>
      obtain ⟨sh, m⟩ := p
      simp only [hcolon, Bool.not_true, Bool.false_eq_true, if_false, hr] at h
      injection h with h
      subst h
      exact ⟨hcolon, dget_dset_same _ _ _, ⟨sh, m, rfl, dget_dset_same _ _ _⟩, rfl⟩
    | crash k => simp only [hcolon, Bool.not_true, Bool.false_eq_true, if_false, hr] at h; cases h
    | nan => simp only [hcolon, Bool.not_true, Bool.false_eq_true, if_false, hr] at h; cases h
    | posInf => simp only [hcolon, Bool.not_true, Bool.false_eq_true, if_false, hr] at h; cases h
    | negInf => simp only [hcolon, Bool.not_true, Bool.false_eq_true, if_false, hr] at h; cases h
    | diverge => simp only [hcolon, Bool.not_true, Bool.false_eq_true, if_false, hr] at h; cases h
  · have hcolon' : has ':' (nameAddress text) = false := by simpa using hcolon
    simp only [hcolon', Bool.not_false, if_true] at h
    by_cases hcell : dhas wb.cells (nameAddress text) = true
    · left
      simp only [hcell, if_true] at h
      injection h with h
      subst h
      exact ⟨hcolon', hcell, dget_dset_same _ _ _, rfl, rfl⟩
    · right; left
      have hcell' : dhas wb.cells (nameAddress text) = false := by simpa using hcell
      simp only [hcell', Bool.false_eq_true, if_false] at h
      injection h with h
      exact ⟨hcolon', hcell', h.symm⟩

section
variable (un : Nat → V → V) (bin : Nat → V → V → V) (me : Nat)

/-- **name_denotes**: in a formula, a defined name bound to the text `'Sheet'!<coords>` (a cell or a
    range, any `$`, any non-empty sheet name) evaluates exactly as the reference `'Sheet'!<coords>` written in
    its place — in every workbook, context and for every evaluation of the cells. -/
theorem name_denotes (wb : Wb) (ec : Text → Out V) (ctx : Text) (names : Dict Defn) (n : Text) (d : Defn)
    (S coords : Text) (hne : S ≠ []) (hch : ∀ ch ∈ coords, coordChar ch)
    (hbound : dget names n = some d) (haddr : defnAddress d = nameAddress (quoteSheet S ++ '!' :: coords)) :
    evalExpr un bin me wb ec ctx (substNames names (.ref n)) =
    evalExpr un bin me wb ec ctx (.ref (tokRef (quoteSheet S ++ '!' :: coords))) := by
  obtain ⟨h1, h2⟩ := nameAddress_quoted S coords ctx hne hch
  simp only [substNames, Expr.mapRef, hbound, evalExpr]
  apply rangeNodeEval_congr
  rw [h2, haddr, h1,
    fullAddress_qualified S _ ctx (removeChar_ne_mem '$' coords '!' (coordChar_no_bang coords hch)), removeChar_idem]

/-- a name that is not bound is left alone (and names never capture other operands) -/
theorem name_unbound (names : Dict Defn) (t : Text) (h : dget names t = none) :
    substNames names (.ref t) = .ref t := by
  simp [substNames, Expr.mapRef, h]

/-- top-level `evaluate(name)` of a name bound to a cell evaluates that cell -/
theorem evaluate_name (wb : Wb) (fuel : Nat) (n a : Text) (h : dget wb.names n = some (.cell a)) :
    evaluate un bin me wb fuel n = evalCell un bin me wb fuel [] a := by
  unfold evaluate; simp [h]

end

/-! ## the model on concrete workbooks (kernel-evaluated): fixed defects stay fixed, known finding D6 -/

def t (s : String) : Text := s.toList
def num (z : Int) : Item := .const (.num (.int z))
def sumOf (r : String) : Expr := .un 0 (.ref (t r))
def plus (a b : Expr) : Expr := .bin 0 a b
def evalIn (items : List (Text × Item)) (names : List (Text × Text)) (addr : String) : Out V :=
  match compile (t "Sheet1") items names with
  | .val wb => evaluate cUn cBin Gen.maxEmpty wb 50 (t addr)
  | o => o.map fun _ => V.s .blank

/-- D5 (fixed): `=$A$1+$A$1` reads A1 -/
example : evalIn [(t "A1", num 3), (t "B1", .formula (plus (.ref (t "$A$1")) (.ref (t "A$1"))))] [] "Sheet1!B1"
    = .val (.s (.num (.flt 6))) := by decide +kernel

/-- D8 (fixed) and the context rule: a chain Sheet1 → Sheet2 → 'My Sheet' → Sheet1, each step adding
    the unqualified `B1` of its own sheet -/
example : evalIn
    [(t "Sheet1!A1", .formula (.ref (t "Sheet2!A1"))), (t "Sheet1!B1", num 1),
     (t "Sheet2!A1", .formula (plus (.ref (t "B1")) (.ref (t "'My Sheet'!A1")))), (t "Sheet2!B1", num 20),
     (t "My Sheet!A1", .formula (plus (.ref (t "$B$1")) (.ref (t "Sheet1!A2")))), (t "My Sheet!B1", num 300),
     (t "Sheet1!A2", .formula (sumOf "B1:B2")), (t "Sheet1!B2", num 4000)] [] "Sheet1!A1"
    = .val (.s (.num (.flt 4321))) := by decide +kernel

/-- D7 / D9 / D1101 (fixed): names bound to a range and to a cell of a quoted sheet with an apostrophe -/
example : evalIn
    [(t "It's!A1", num 100), (t "It's!A2", num 2),
     (t "Sheet1!C1", .formula (plus (.un 0 (.ref (t "rng"))) (.ref (t "nm"))))]
    [(t "rng", t "'It''s'!$A$1:$A$2"), (t "nm", t "'It''s'!$A$1")] "Sheet1!C1"
    = .val (.s (.num (.flt 202))) := by decide +kernel

/-- the model of `A1 = 1`, `B52 = 5`, `P1: =SUM(A1:B52)` with the range registered as `build_ranges` does
    (the 102 empty members are left out: a missing cell reads blank just as a materialised one is empty) -/
def d6Workbook : Wb :=
  match resolveRanges (t "Sheet1!A1:B52") with
  | .val (_, m) =>
    { cells := [(t "Sheet1!A1", ⟨.num (.int 1), none⟩), (t "Sheet1!B52", ⟨.num (.int 5), none⟩),
                (t "Sheet1!P1", ⟨.blank, some ⟨t "Sheet1", sumOf "A1:B52", [], sumOf "A1:B52"⟩⟩)],
      ranges := [(t "Sheet1!A1:B52", m)] }
  | _ => {}

/-- **D6 (known)**: `=SUM(A1:B52)` with `A1 = 1`, `B52 = 5` gives 1 (and 6 without the cut-off) -/
example : evaluate cUn cBin Gen.maxEmpty d6Workbook 5 (t "Sheet1!P1") = .val (.s (.num (.flt 1))) ∧
    evaluate cUn cBin 1000 d6Workbook 5 (t "Sheet1!P1") = .val (.s (.num (.flt 6))) := by decide +kernel

/-- D0301 (fixed): the empty cell `A2` lies inside the referenced range `A1:A3`; `=A2+0` is 0, exactly
    like the never-stored `Z9` -/
example : evalIn [(t "A1", num 1), (t "A3", num 5), (t "P1", .formula (sumOf "A1:A3")),
      (t "P2", .formula (plus (.ref (t "A2")) (.num 0)))] [] "Sheet1!P2" = .val (.s (.num (.flt 0))) ∧
    evalIn [(t "A1", num 1), (t "A3", num 5), (t "P1", .formula (sumOf "A1:A3")),
      (t "P2", .formula (plus (.ref (t "Z9")) (.num 0)))] [] "Sheet1!P2" = .val (.s (.num (.flt 0))) := by
  decide +kernel

/-- D0302 / D1102 (fixed): sheets named `US$` and `A!B` are read, also through unqualified references of
    their own formulas and through defined names -/
example : evalIn [(t "US$!A1", num 3), (t "A!B!A1", num 40), (t "A!B!A2", num 500),
      (t "A!B!C1", .formula (plus (.ref (t "$A$1")) (.un 0 (.ref (t "nm"))))),
      (t "Sheet1!P1", .formula (plus (.ref (t "'US$'!$A$1")) (.ref (t "'A!B'!C1"))))]
      [(t "nm", t "'A!B'!$A$1:$A$2")] "Sheet1!P1" = .val (.s (.num (.flt 583))) := by decide +kernel

/-- the same rectangle on two sheets in ONE formula: both ranges are registered and read -/
example : evalIn [(t "Jan!A1", num 1), (t "Jan!B1", num 2), (t "Jan!A2", num 3), (t "Jan!B2", num 4),
      (t "Feb 2024!A1", num 10), (t "Feb 2024!B1", num 20), (t "Feb 2024!A2", num 30), (t "Feb 2024!B2", num 40),
      (t "Sheet1!P1", .formula (.bin 1 (sumOf "Jan!$A$1:$B$2") (sumOf "'Feb 2024'!$A$1:$B$2")))] [] "Sheet1!P1"
    = .val (.s (.num (.flt (-90)))) := by decide +kernel

/-- a range consumer shows the CURRENT values after `set_cell_value` on an input two formulas below its
    members: 48 before, 408 after `Input!A1 := 100` -/
example : (match compile (t "Input") [(t "Input!A1", num 10), (t "Input!B1", .formula (plus (.ref (t "A1")) (.ref (t "A1")))),
      (t "Calc Sheet!C1", .formula (plus (.ref (t "Input!B1")) (.num 1))),
      (t "Calc Sheet!C2", .formula (plus (.ref (t "Input!B1")) (.num 2))), (t "Calc Sheet!C3", num 5),
      (t "Calc Sheet!E1", .formula (sumOf "C1:C3"))] [] with
    | .val wb =>
      (evaluate cUn cBin Gen.maxEmpty wb 9 (t "Calc Sheet!E1"),
       match setCellValue wb (t "Input!A1") (.num (.int 100)) with
       | .val wb2 => evaluate cUn cBin Gen.maxEmpty wb2 9 (t "Calc Sheet!E1")
       | _ => .diverge)
    | _ => (.diverge, .diverge)) = (.val (.s (.num (.flt 48))), .val (.s (.num (.flt 408)))) := by decide +kernel

def twoSheets : Wb :=
  match compile (t "Sheet1") [(t "Sheet2!A1", .formula (.ref (t "B1"))), (t "A1", .formula (.ref (t "B1"))),
    (t "Sheet2!B1", num 2), (t "B1", num 1)] [] with
  | .val wb => wb
  | _ => {}

/-- `sheet_default` at work: two `=B1` on two sheets read their own sheets -/
example : evaluate cUn cBin Gen.maxEmpty twoSheets 5 (t "Sheet1!A1") = .val (.s (.num (.int 1))) ∧
    evaluate cUn cBin Gen.maxEmpty twoSheets 5 (t "Sheet2!A1") = .val (.s (.num (.int 2))) :=
  ⟨by decide +kernel, by decide +kernel⟩

/-- non-vacuity of `reference_denotes_range` / `range_reference_reads_rect`: a built model (which satisfies
    `RangesOK` by `build_registers_resolved_ranges`) holds the key of `=SUM($A$1:B2)`, and the prefix
    hypothesis is met by `Sheet1` -/
example : (match compile (t "Sheet1") [(t "A1", num 1), (t "B2", num 2), (t "C1", .formula (sumOf "$A$1:B2"))] [] with
    | .val wb => (dget wb.ranges ((Prefix.sheet (t "Sheet1")).text ++ rangeText false 1 false 1 false 2 false 2)).isSome
    | _ => false) = true ∧
    (Prefix.sheet (t "Sheet1")).denotes [] (t "Sheet1") :=
  ⟨by decide +kernel, ⟨by decide, by decide⟩⟩

end XlVerif.Props.C03
