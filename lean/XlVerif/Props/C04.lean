/-
  C04 — evaluation always reflects the current inputs (no stale results).

  All theorems are about `Model/Evaluator.lean` (the mirror of evaluator.py / model.py /
  RangeNode.eval, with the write-backs of `cell.value` and `XLRange.value`, the per-context memo and
  the in-progress stack) and hold for EVERY function semantics `sem`, every model, every address and
  every fuel (the same fuel on both sides: fuel is CPython's recursion budget; `no_recursion_outcome`
  below shows that the `recursion` outcome cannot occur once fuel exceeds the number of formula cells).

    * `evalCell_pure`   stored values of formula cells and cached range arrays never influence a
                        result, and `evaluate` changes nothing else;
    * `memo_sound`      the evaluator with its contexts and memos computes the memo-free, state-free
                        reference value `Spec.C04.value` — a memo hit returns what a re-evaluation
                        would return;
    * `C04`             after ANY history of `set_cell_value` / `evaluate` / `get_cell_value` calls,
                        `evaluate a` returns the value a fresh workbook holding the current inputs
                        gives, and stores it as the cell's value;
    * `set_by_name_eq_set_by_addr`, `get_last_*`.

  Not needed (and therefore not assumed): that `set` only targets input cells — a `set` on a formula
  cell is ignored by every later evaluation (`C04` holds for such histories too); `get_last_input`
  is where input-ness matters.
-/
import XlVerif.Lemmas.C04Ref
import XlVerif.Lemmas.C04Fuel
import XlVerif.Model.C04
namespace XlVerif.Props.C04
open XlVerif XlVerif.Model.Evaluator XlVerif.Model.C04 XlVerif.Lemmas.C04

/-! ### purity -/

/-- Stored values of formula cells and cached range arrays never influence a result, and evaluation
    changes nothing else: the model after `evaluate` has the same inputs, and the result is the
    reference evaluation of the inputs. -/
theorem evalCell_pure (sem : Sem) (fuel : Nat) (m : MState) (a : Addr) :
    erase (evaluate sem fuel m a).1 = erase m ∧ (evaluate sem fuel m a).2.1 = fresh sem fuel (erase m) a := by
  have h := evalCell_sim sem (compat_mut_pure m) fuel
    { st := m, evaluating := [], memo := [] } { st := (), evaluating := [], memo := [] } a ⟨rfl, rfl, rfl, rfl⟩
  exact ⟨h.1.st, h.2⟩

/-- the same in the form "if `evaluate` returns `(m', r, _)` …" -/
theorem evalCell_pure' (sem : Sem) (fuel : Nat) (m m' : MState) (a : Addr) (r : Res) (tr : List Addr)
    (h : evaluate sem fuel m a = (m', r, tr)) : erase m' = erase m ∧ r = fresh sem fuel (erase m) a := by
  have := evalCell_pure sem fuel m a
  rw [h] at this
  exact this

/-- the trace (which cells had their formula evaluated, in order) is that of the reference run too -/
theorem trace_pure (sem : Sem) (fuel : Nat) (m : MState) (a : Addr) :
    (evaluate sem fuel m a).2.2 =
      (evalCell (pureStore (erase m)) sem fuel { st := (), evaluating := [], memo := [] } a).1.trace := by
  have h := evalCell_sim sem (compat_mut_pure m) fuel
    { st := m, evaluating := [], memo := [] } { st := (), evaluating := [], memo := [] } a ⟨rfl, rfl, rfl, rfl⟩
  exact h.1.trace

/-- the reference evaluation itself never reads a stored value of a formula cell or a cached array -/
theorem fresh_erase (sem : Sem) (fuel : Nat) (m : MState) (a : Addr) :
    fresh sem fuel (erase m) a = fresh sem fuel m a := by
  have h := evalCell_sim sem (compat_pure_erase m) fuel
    { st := (), evaluating := [], memo := [] } { st := (), evaluating := [], memo := [] } a ⟨trivial, rfl, rfl, rfl⟩
  exact h.2.symm

/-- two models with the same inputs give the same results -/
theorem evaluate_congr (sem : Sem) (fuel : Nat) (m m' : MState) (a : Addr) (h : erase m = erase m') :
    (evaluate sem fuel m a).2.1 = (evaluate sem fuel m' a).2.1 := by
  rw [(evalCell_pure sem fuel m a).2, (evalCell_pure sem fuel m' a).2, h]

/-! ### the memo -/

/-- The evaluator — with a context per cell, the per-context memo `_values`, the restored in-progress
    stack and the trace — computes the reference value, which is defined without any of them: whenever
    a memo entry is used instead of re-evaluating a cell, the re-evaluation would have returned it. -/
theorem memo_sound (sem : Sem) (fuel : Nat) (m : MState) (a : Addr) :
    fresh sem fuel m a = Spec.C04.value Gen.maxEmpty sem fuel m a := by
  unfold fresh Spec.C04.value
  rw [pureStore_eq_roStore]
  exact (evalCell_ref sem fuel { st := (), evaluating := [], memo := [] } a rfl).1

/-- inside a run: a context whose memo entries are reference values (`Inv`) answers a reference — hit
    or miss — with the reference value, and keeps the invariant -/
theorem memo_hit_sound {τ : Type} (E : List Addr) (cv : Addr → Res) (ce : Ctx τ → Addr → Ctx τ × Res)
    (hg : GoodV E cv ce) (c : Ctx τ) (a : Addr) (hi : Inv E cv c) :
    (evalRef ce c a).2 = cv a ∧ Inv E cv (evalRef ce c a).1 :=
  ⟨(evalRef_ref hg a hi).2, (evalRef_ref hg a hi).1⟩

/-- `Evaluator.evaluate` returns the value of the cell in a fresh workbook with the same inputs -/
theorem evaluate_eq_value (sem : Sem) (fuel : Nat) (m : MState) (a : Addr) :
    (evaluate sem fuel m a).2.1 = Spec.C04.value Gen.maxEmpty sem fuel m a := by
  rw [(evalCell_pure sem fuel m a).2, fresh_erase, memo_sound]

/-! ### fuel -/

/-- With more fuel than the model has formula cells the out-of-fuel outcome (CPython: RecursionError)
    cannot occur — for ANY model: a cyclic one yields the `cycle` outcome instead, because the
    in-progress stack is duplicate-free and holds formula cells only.  So for such fuel every theorem
    of this file is about values, Excel errors, cycle reports and failures of function bodies only. -/
theorem no_recursion_outcome (sem : Sem) (fuel : Nat) (m : MState) (a : Addr) (h : formulaCount m < fuel) (n : Nat) :
    (evaluate sem fuel m a).2.1 ≠ .exc .recursion n := by
  rw [evaluate_eq_value]
  intro e
  exact cellVal_norec Gen.maxEmpty sem m fuel [] a List.nodup_nil (fun _ hx => by cases hx) (by simpa using h) ⟨n, e⟩

/-! ### defined names -/

/-- Setting an input through a defined name is setting it through its address. -/
theorem set_by_name_eq_set_by_addr (m : MState) (n a : Addr) (v : V)
    (hn : assoc n m.names = some a) (ha : assoc a m.names = none) :
    m.setCellValue n v = m.setCellValue a v := by
  rw [setCellValue_eq, setCellValue_eq]
  simp [MState.resolve, hn, ha]

theorem get_by_name_eq_get_by_addr (m : MState) (n a : Addr)
    (hn : assoc n m.names = some a) (ha : assoc a m.names = none) :
    m.getCellValue n = m.getCellValue a := by
  simp [MState.getCellValue, MState.resolve, hn, ha]

theorem evaluate_by_name_eq_evaluate_by_addr (sem : Sem) (fuel : Nat) (m : MState) (n a : Addr)
    (hn : assoc n m.names = some a) (ha : assoc a m.names = none) :
    evaluate sem fuel m n = evaluate sem fuel m a := by
  have hr : m.resolve n = m.resolve a := by simp [MState.resolve, hn, ha]
  cases fuel with
  | zero => rfl
  | succ k =>
    have : ∀ c : Ctx MState, c.st = m → evalCell mutStore sem (k + 1) c n = evalCell mutStore sem (k + 1) c a := by
      intro c hc
      rw [evalCell, evalCell]
      simp only [mutStore_resolve, hc, hr]
    unfold evaluate
    rw [this _ rfl]

/-- The second spelling of an address, an `XLCell` object: setting through it is setting through its address
    (for an address that is not itself a defined name — an `XLCell` is never looked up among the names). -/
theorem set_by_cell_eq_set_by_addr (m : MState) (a : Addr) (v : V) (ha : assoc a m.names = none) :
    setCellValueH m (.cell a) v = m.setCellValue a v := by
  have hr : m.resolve a = a := by simp [MState.resolve, ha]
  rw [setCellValue_eq, hr]
  show (match m.cell? a with
        | some _ => ({ m with cells := assocUpdate a (fun c => { c with value := v }) m.cells } : MState)
        | none => ({ m with cells := m.cells ++ [(a, ({ value := v, formula := none } : Cell))] } : MState)) = _
  cases m.cell? a <;> rfl

theorem get_by_cell_eq_get_by_addr (m : MState) (a : Addr) (ha : assoc a m.names = none) :
    getCellValueH m (.cell a) = m.getCellValue a := by
  have hr : m.resolve a = a := by simp [MState.resolve, ha]
  show (match m.cell? a with | some c => c.value | none => V.s (.num (.int 0))) = _
  unfold MState.getCellValue
  rw [hr]
  cases m.cell? a <;> rfl

theorem assoc_append_new {β} (a : Addr) (x : β) (l : List (Addr × β)) (h : assoc a l = none) :
    assoc a (l ++ [(a, x)]) = some x := by
  induction l with
  | nil => simp [assoc]
  | cons p rest ih =>
    obtain ⟨k, c⟩ := p
    by_cases hk : a = k
    · simp [assoc, hk] at h
    · simp only [assoc, hk, if_false] at h
      simp only [List.cons_append, assoc, hk, if_false]
      exact ih h

/-- … in particular a cell the model does not hold yet is CREATED with the value, and read back (D0402) -/
theorem set_by_cell_creates (m : MState) (a : Addr) (v : V) (hc : m.cell? a = none) :
    getCellValueH (setCellValueH m (.cell a) v) (.cell a) = v := by
  have h1 : setCellValueH m (.cell a) v = { m with cells := m.cells ++ [(a, { value := v, formula := none })] } := by
    show (match m.cell? a with
          | some _ => ({ m with cells := assocUpdate a (fun c => { c with value := v }) m.cells } : MState)
          | none => ({ m with cells := m.cells ++ [(a, ({ value := v, formula := none } : Cell))] } : MState)) = _
    rw [hc]
  rw [h1]
  show (match assoc a (m.cells ++ [(a, ({ value := v, formula := none } : Cell))]) with
        | some c => c.value | none => V.s (.num (.int 0))) = v
  rw [assoc_append_new a _ m.cells hc]

/-- a name bound to a cell, the hypotheses of the three theorems above -/
example : ∃ (m : MState) (n a : Addr), assoc n m.names = some a ∧ assoc a m.names = none :=
  ⟨{ cells := [("S!A1".toList, { value := .s (.num (.int 1)), formula := none })], ranges := [],
     names := [("rate".toList, "S!A1".toList)] }, "rate".toList, "S!A1".toList, by decide, by decide⟩

/-! ### `get_cell_value` returns the last value set or computed -/

/-- … the value just set (by address or by name) -/
theorem get_last_set (m : MState) (a : Addr) (v : V) : (m.setCellValue a v).getCellValue a = v := by
  obtain ⟨c, hc, hv⟩ := setCellValue_cell?_same m a v
  simp [MState.getCellValue, hc, hv]

/-- … and a `set` does not change what is read at any other address -/
theorem get_after_set_other (m : MState) (a b : Addr) (v : V) (h : m.resolve b ≠ m.resolve a) :
    (m.setCellValue a v).getCellValue b = m.getCellValue b := by
  simp [MState.getCellValue, setCellValue_cell?_other m a _ v h]

/-- … `0` for an address that is not in the model (as coded) -/
theorem get_unknown (m : MState) (a : Addr) (h : m.cell? (m.resolve a) = none) :
    m.getCellValue a = .s (.num (.int 0)) := by
  simp [MState.getCellValue, h]

/-- … the value just computed: `evaluate` stores its result as the cell's value -/
theorem get_last_computed (sem : Sem) (fuel : Nat) (m : MState) (a : Addr) (v : V)
    (hc : (m.cell? (m.resolve a)).isSome) (hr : (evaluate sem fuel m a).2.1 = .val v) :
    (evaluate sem fuel m a).1.getCellValue a = v := by
  have he := (evalCell_pure sem fuel m a).1
  have hres := resolve_of_erase_eq he a
  have hcell := cell?_of_erase_eq he (m.resolve a)
  unfold MState.getCellValue
  rw [hres]
  cases fuel with
  | zero => simp [evaluate, evalCell] at hr
  | succ k =>
    revert he hres hcell hr
    unfold evaluate
    rw [evalCell]
    simp only [mutStore_resolve, mutStore_cell, mutStore_writeCell]
    cases h1 : m.cell? (m.resolve a) with
    | none => simp [h1] at hc
    | some cell =>
      simp only
      cases hf : cell.formula with
      | none =>
        simp only [h1]
        intro hr _ _ _
        cases hr; rfl
      | some f =>
        simp only [List.contains_nil, Bool.false_eq_true, if_false]
        rcases h3 : evalFx mutStore sem (evalCell mutStore sem k)
          { st := m, evaluating := [m.resolve a], memo := [], trace := [] ++ [m.resolve a] } f with ⟨c2, r⟩
        cases r with
        | val w =>
          simp only [Res.val.injEq]
          intro hr _ _ hcell
          subst hr
          have hw : MState.cell? { c2.st with cells := assocUpdate (m.resolve a) (fun c => { c with value := w }) c2.st.cells }
              (m.resolve a) = (c2.st.cell? (m.resolve a)).map fun c => { c with value := w } :=
            assoc_assocUpdate_same _ _ _
          rw [hw] at hcell ⊢
          cases h4 : c2.st.cell? (m.resolve a) with
          | none => rw [h4] at hcell; simp at hcell
          | some c0 => rfl
        | exc kind n =>
          intro hr _ _ _
          cases kind <;> simp at hr

/-- … and `evaluate` never changes what is read at an input (constant) cell -/
theorem get_input_after_evaluate (sem : Sem) (fuel : Nat) (m : MState) (a b : Addr)
    (hb : ∀ c, m.cell? (m.resolve b) = some c → c.formula = none) :
    (evaluate sem fuel m a).1.getCellValue b = m.getCellValue b := by
  have he := (evalCell_pure sem fuel m a).1
  have hres := resolve_of_erase_eq he b
  have hcell := cell?_of_erase_eq he (m.resolve b)
  unfold MState.getCellValue
  rw [hres]
  cases h1 : m.cell? (m.resolve b) with
  | none =>
    rw [h1] at hcell
    cases h2 : (evaluate sem fuel m a).1.cell? (m.resolve b) with
    | none => rfl
    | some c' => rw [h2] at hcell; simp at hcell
  | some c =>
    rw [h1] at hcell
    cases h2 : (evaluate sem fuel m a).1.cell? (m.resolve b) with
    | none => rw [h2] at hcell; simp at hcell
    | some c' =>
      rw [h2] at hcell
      simp only [Option.map_some, Option.some.injEq] at hcell
      obtain ⟨hf, _, hv⟩ := eraseCell_eq hcell
      have := hb c h1
      exact hv (by rw [hf, this])

/-! ### histories -/

/-- the invariant of a history: the model always has the inputs of the `set` calls performed so far -/
theorem run_inputs (sem : Sem) (fuel : Nat) : ∀ (h : List Op) (m m' : MState), erase m = erase m' →
    erase (run sem fuel m h).1 = erase (inputsAfter m' h) := by
  intro h
  induction h with
  | nil => intro m m' e; exact e
  | cons op rest ih =>
    intro m m' e
    cases op with
    | set a v => exact ih _ _ (erase_setCellValue_congr e a v)
    | eval a => exact ih _ _ ((evalCell_pure sem fuel m a).1.trans e)
    | get a => exact ih _ _ e

/-- **C04.** After any history `pre` of `set_cell_value` (by address or by defined name), `evaluate` and
    `get_cell_value` calls on any model `m0`, `evaluate a` returns the value a fresh workbook holding
    the current inputs gives for `a` — and stores it as the cell's value. -/
theorem C04 (sem : Sem) (fuel : Nat) (m0 : MState) (pre : List Op) (a : Addr) :
    (evaluate sem fuel (run sem fuel m0 pre).1 a).2.1
        = Spec.C04.value Gen.maxEmpty sem fuel (inputsAfter m0 pre) a
    ∧ (∀ v, ((run sem fuel m0 pre).1.cell? ((run sem fuel m0 pre).1.resolve a)).isSome →
          (evaluate sem fuel (run sem fuel m0 pre).1 a).2.1 = .val v →
          (evaluate sem fuel (run sem fuel m0 pre).1 a).1.getCellValue a = v) := by
  refine ⟨?_, fun v hc hr => get_last_computed sem fuel _ a v hc hr⟩
  rw [(evalCell_pure sem fuel _ a).2, run_inputs sem fuel pre m0 m0 rfl, fresh_erase, memo_sound]

/-- the same for all `evaluate` calls of a history at once: their results are the reference results -/
theorem C04_history (sem : Sem) (fuel : Nat) : ∀ (h : List Op) (m m' : MState), erase m = erase m' →
    evalResults (run sem fuel m h).2 = Spec.C04.results Gen.maxEmpty sem fuel m' h := by
  intro h
  induction h with
  | nil => intro m m' _; rfl
  | cons op rest ih =>
    intro m m' e
    cases op with
    | set a v =>
      show evalResults (run sem fuel (m.setCellValue a v) rest).2 = _
      rw [results_set, setInput_eq]
      exact ih _ _ (erase_setCellValue_congr e a v)
    | eval a =>
      show (evaluate sem fuel m a).2.1 :: evalResults (run sem fuel (evaluate sem fuel m a).1 rest).2 = _
      rw [results_eval, ih _ m' ((evalCell_pure sem fuel m a).1.trans e),
        (evalCell_pure sem fuel m a).2, e, fresh_erase, memo_sound]
    | get a =>
      show evalResults (run sem fuel m rest).2 = _
      rw [results_get]
      exact ih _ _ e

/-- the inputs of a history are what the user set: for an input cell, `get_cell_value` after any
    history returns what it returns on the model that only saw the `set` calls — i.e. the last value
    set for the cell (`get_last_set`, `get_after_set_other`), or its initial constant -/
theorem get_last_input (sem : Sem) (fuel : Nat) (m0 : MState) (h : List Op) (b : Addr)
    (hb : ∀ c, (inputsAfter m0 h).cell? ((inputsAfter m0 h).resolve b) = some c → c.formula = none) :
    (run sem fuel m0 h).1.getCellValue b = (inputsAfter m0 h).getCellValue b := by
  have he := run_inputs sem fuel h m0 m0 rfl
  have hres := resolve_of_erase_eq he b
  have hcell := cell?_of_erase_eq he ((inputsAfter m0 h).resolve b)
  unfold MState.getCellValue
  rw [hres]
  cases h1 : (inputsAfter m0 h).cell? ((inputsAfter m0 h).resolve b) with
  | none =>
    rw [h1] at hcell
    cases h2 : (run sem fuel m0 h).1.cell? ((inputsAfter m0 h).resolve b) with
    | none => rfl
    | some c' => rw [h2] at hcell; simp at hcell
  | some c =>
    rw [h1] at hcell
    cases h2 : (run sem fuel m0 h).1.cell? ((inputsAfter m0 h).resolve b) with
    | none => rw [h2] at hcell; simp at hcell
    | some c' =>
      rw [h2] at hcell
      simp only [Option.map_some, Option.some.injEq] at hcell
      obtain ⟨hf, _, hv⟩ := eraseCell_eq hcell
      have := hb c h1
      exact hv (by rw [hf, this])

/-! ### a concrete history (non-vacuity): A1 = 1, B1 = A1, C1 = B1; evaluate C1, set A1, evaluate C1 -/

example : evalResults (run sem0 9 wb [.eval wbC, .set "x".toList (.s (.num (.int 7))), .eval wbC]).2
    = [.val (.s (.num (.int 1))), .val (.s (.num (.int 7)))] := by decide

example : (run sem0 9 wb [.eval wbC, .set wbA (.s (.num (.int 7))), .eval wbC, .get wbB]).2.getLast?
    = some (.got (.s (.num (.int 7)))) := by decide

example : ((wb.cell? (wb.resolve wbC)).isSome) ∧ (evaluate sem0 9 wb wbC).2.1 = .val (.s (.num (.int 1))) := by
  decide

example : formulaCount wb < 9 := by decide

example : ∀ c, wb.cell? (wb.resolve wbA) = some c → c.formula = none := by
  intro c h
  have : wb.cell? (wb.resolve wbA) = some { value := .s (.num (.int 1)), formula := none } := by
    unfold MState.cell? MState.resolve wb
    simp [assoc, wbA]
  rw [this] at h; cases h; rfl

/-- hypothesis of `get_after_set_other` -/
example : wb.resolve wbB ≠ wb.resolve wbA := by decide

/-- hypothesis of `get_unknown` -/
example : wb.cell? (wb.resolve "S!Z9".toList) = none := by decide

/-- hypothesis of `evaluate_congr`, met by two different models: `evaluate` changed the stored value of C1 -/
example : erase (evaluate sem0 9 wb wbC).1 = erase wb
    ∧ (evaluate sem0 9 wb wbC).1.getCellValue wbC ≠ wb.getCellValue wbC :=
  ⟨(evalCell_pure sem0 9 wb wbC).1, by decide⟩

/-- hypothesis of `get_last_input` after a history with an evaluation and a set -/
example : ∀ c, (inputsAfter wb [.eval wbC, .set wbA (.s (.num (.int 7)))]).cell?
      ((inputsAfter wb [.eval wbC, .set wbA (.s (.num (.int 7)))]).resolve wbA) = some c → c.formula = none := by
  intro c h
  have : (inputsAfter wb [.eval wbC, .set wbA (.s (.num (.int 7)))]).cell?
      ((inputsAfter wb [.eval wbC, .set wbA (.s (.num (.int 7)))]).resolve wbA)
      = some { value := .s (.num (.int 7)), formula := none } := by
    simp [inputsAfter, MState.setCellValue, MState.cell?, MState.resolve, wb, assoc, assocUpdate, wbA]
  rw [this] at h; cases h; rfl

end XlVerif.Props.C04
