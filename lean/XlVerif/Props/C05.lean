/-
  C05 — evaluation is deterministic, idempotent and order-independent; nothing accumulates.

  Corollaries of the purity theorem of C04 (`Props/C04.evalCell_pure`) and of the write-log lemmas
  (`Lemmas/C05Log.lean`), for every function semantics `sem` *that is a function* (`Sem.app` is one —
  this is where the statement's exclusion of the volatile RAND / RANDBETWEEN / NOW / TODAY enters),
  every model, every fuel:

    * `order_independent`   whatever was evaluated before, by however many evaluators sharing the
                            model, the value obtained for `a` is the reference value of the inputs;
    * `idempotent`          a second `evaluate` returns the same result and leaves the model exactly
                            as the first left it;
    * `frame`               constants, formula trees, defined names, range matrices and the key list
                            of the cells are unchanged; an unknown address adds nothing;
    * `namespace_private`   an evaluator's function table is the copy taken at its construction;
    * `retained_bounded`    after the first pass over a schedule the retained state (model, stored
                            values, cached arrays, every evaluator's in-progress stack) is a fixed
                            point: `n` passes leave exactly what one pass leaves, for every `n ≥ 1`.

  Memory clause — what the model can carry: what stays reachable between two calls is the model plus
  each evaluator's stack (`Model.C04.Sys`); contexts and memos are local to one call (`Ctx`, dropped on
  return — the D10 repair; with the former class-level `lru_cache` every context stayed reachable).
  The allocator's behaviour (resident-set size) is not modelled; the correspondence run measures live
  objects and traced memory of the real interpreter.
-/
import XlVerif.Lemmas.C05Log
import XlVerif.Props.C04
import XlVerif.Model.C08
namespace XlVerif.Props.C05
open XlVerif XlVerif.Model.Evaluator XlVerif.Model.C04 XlVerif.Lemmas.C04 XlVerif.Lemmas.C05

/-! ### order independence -/

/-- every result of a schedule is the reference value of its cell for the *initial* inputs, however
    many evaluators there are and whatever ran before -/
theorem sched_results (sem : Sem) (fuel : Nat) (m : MState) (k : Nat) (sched : List (Nat × Addr)) :
    (Sys.runSched sem fuel (Sys.init m k) sched).2
      = sched.map fun p => Spec.C04.value Gen.maxEmpty sem fuel m p.2 := by
  rw [(runSched_eq sem fuel m sched (Sys.init m k) (allEmpty_init m k) rfl).2]
  apply List.map_congr_left
  intro p _
  rw [Props.C04.fresh_erase, Props.C04.memo_sound]

/-- **order_independent.** For any two schedules (sequences with repetition of `evaluate` calls over any
    cells, issued by any of `k1` resp. `k2` evaluators sharing the model) the value then obtained for
    `a` — by any evaluator — is the same: the reference value of the inputs. -/
theorem order_independent (sem : Sem) (fuel : Nat) (m : MState) (k1 k2 : Nat)
    (s1 s2 : List (Nat × Addr)) (e1 e2 : Nat) (a : Addr) :
    (Sys.evaluate sem fuel (Sys.runSched sem fuel (Sys.init m k1) s1).1 e1 a).2
        = Spec.C04.value Gen.maxEmpty sem fuel m a
    ∧ (Sys.evaluate sem fuel (Sys.runSched sem fuel (Sys.init m k2) s2).1 e2 a).2
        = (Sys.evaluate sem fuel (Sys.runSched sem fuel (Sys.init m k1) s1).1 e1 a).2 := by
  have key : ∀ (k : Nat) (s : List (Nat × Addr)) (e : Nat),
      (Sys.evaluate sem fuel (Sys.runSched sem fuel (Sys.init m k) s).1 e a).2
        = Spec.C04.value Gen.maxEmpty sem fuel m a := by
    intro k s e
    have h := sched_results sem fuel m k (s ++ [(e, a)])
    have hs : ∀ (l : List (Nat × Addr)) (st : Sys), (Sys.runSched sem fuel st (l ++ [(e, a)])).2
        = (Sys.runSched sem fuel st l).2 ++ [(Sys.evaluate sem fuel (Sys.runSched sem fuel st l).1 e a).2] := by
      intro l
      induction l with
      | nil => intro st; rfl
      | cons p rest ih => intro st; obtain ⟨e', a'⟩ := p; simp [Sys.runSched, ih]
    rw [hs, sched_results, List.map_append] at h
    simpa using h
  exact ⟨key k1 s1 e1, by rw [key, key]⟩

/-! ### idempotence -/

/-- **idempotent.** Evaluating a cell again returns the same result and leaves the model exactly as
    the first evaluation left it. -/
theorem idempotent (sem : Sem) (fuel : Nat) (m : MState) (a : Addr) :
    (evaluate sem fuel (evaluate sem fuel m a).1 a).2.1 = (evaluate sem fuel m a).2.1
    ∧ (evaluate sem fuel (evaluate sem fuel m a).1 a).1 = (evaluate sem fuel m a).1 := by
  have he := (Props.C04.evalCell_pure sem fuel m a).1
  refine ⟨Props.C04.evaluate_congr sem fuel _ _ a he, ?_⟩
  rw [evaluate_replay sem fuel (evaluate sem fuel m a).1 a, he, evaluate_replay sem fuel m a]
  exact replay_idem _ _

/-- … and so does any number of further evaluations -/
theorem idempotent_n (sem : Sem) (fuel : Nat) (m : MState) (a : Addr) (n : Nat) :
    (Nat.repeat (fun x => (evaluate sem fuel x a).1) (n + 1) m) = (evaluate sem fuel m a).1 := by
  induction n with
  | zero => rfl
  | succ k ih =>
    show (evaluate sem fuel (Nat.repeat (fun x => (evaluate sem fuel x a).1) (k + 1) m) a).1 = _
    rw [ih]; exact (idempotent sem fuel m a).2

/-! ### frame -/

theorem eraseCell_formulaLen (c : Cell) : (eraseCell c).formulaLen = c.formulaLen := by
  unfold eraseCell; split <;> rfl

/-- what two models with the same inputs share -/
theorem frame_of_erase_eq {m m' : MState} (h : erase m' = erase m) :
    m'.names = m.names
    ∧ m'.cells.map Prod.fst = m.cells.map Prod.fst
    ∧ (m'.cells.map fun p => (p.1, p.2.formula, p.2.formulaLen)) = (m.cells.map fun p => (p.1, p.2.formula, p.2.formulaLen))
    ∧ (∀ a c, m.cell? a = some c → c.formula = none → m'.cell? a = some c)
    ∧ (m'.ranges.map fun p => (p.1, p.2.cells)) = (m.ranges.map fun p => (p.1, p.2.cells)) := by
  obtain ⟨hc, hr, hn⟩ := (erase_eq_iff m' m).1 h
  refine ⟨hn, ?_, ?_, ?_, ?_⟩
  · have := congrArg (List.map Prod.fst) hc
    simpa [List.map_map, Function.comp_def] using this
  · have := congrArg (List.map fun p : Addr × Cell => (p.1, p.2.formula, p.2.formulaLen)) hc
    simpa [List.map_map, Function.comp_def, eraseCell_formulaLen] using this
  · intro a c h1 h2
    have := cell?_of_erase_eq h a
    rw [h1] at this
    cases h3 : m'.cell? a with
    | none => rw [h3] at this; simp at this
    | some c' =>
      rw [h3] at this
      simp only [Option.map_some, Option.some.injEq] at this
      obtain ⟨hf, hl, hv⟩ := eraseCell_eq this
      obtain ⟨v', f', n'⟩ := c'
      obtain ⟨v, f, n⟩ := c
      simp only at hf hl hv h2
      subst hf hl
      rw [hv h2]
  · have := congrArg (List.map fun p : Addr × Range => (p.1, p.2.cells)) hr
    simpa [List.map_map, Function.comp_def, eraseRange] using this

/-- **frame.** `evaluate` leaves defined names, the key list of the cells (so it neither adds nor removes
    a cell), every formula tree, every constant cell and every range matrix unchanged. -/
theorem frame (sem : Sem) (fuel : Nat) (m : MState) (a : Addr) :
    (evaluate sem fuel m a).1.names = m.names
    ∧ (evaluate sem fuel m a).1.cells.map Prod.fst = m.cells.map Prod.fst
    ∧ ((evaluate sem fuel m a).1.cells.map fun p => (p.1, p.2.formula, p.2.formulaLen))
        = (m.cells.map fun p => (p.1, p.2.formula, p.2.formulaLen))
    ∧ (∀ b c, m.cell? b = some c → c.formula = none → (evaluate sem fuel m a).1.cell? b = some c)
    ∧ ((evaluate sem fuel m a).1.ranges.map fun p => (p.1, p.2.cells)) = (m.ranges.map fun p => (p.1, p.2.cells)) :=
  frame_of_erase_eq (Props.C04.evalCell_pure sem fuel m a).1

/-- the same after a whole schedule by several evaluators -/
theorem frame_sched (sem : Sem) (fuel : Nat) (m : MState) (k : Nat) (sched : List (Nat × Addr)) :
    let m' := (Sys.runSched sem fuel (Sys.init m k) sched).1.model
    m'.names = m.names
    ∧ m'.cells.map Prod.fst = m.cells.map Prod.fst
    ∧ (m'.cells.map fun p => (p.1, p.2.formula, p.2.formulaLen)) = (m.cells.map fun p => (p.1, p.2.formula, p.2.formulaLen))
    ∧ (∀ b c, m.cell? b = some c → c.formula = none → m'.cell? b = some c)
    ∧ (m'.ranges.map fun p => (p.1, p.2.cells)) = (m.ranges.map fun p => (p.1, p.2.cells)) := by
  intro m'
  apply frame_of_erase_eq
  show erase (Sys.runSched sem fuel (Sys.init m k) sched).1.model = erase m
  rw [(runSched_eq sem fuel m sched (Sys.init m k) (allEmpty_init m k) rfl).1]
  exact replay_erase m sem fuel sched m rfl

/-- `evaluate` of an address that is not in the model adds nothing: the model is returned unchanged -/
theorem evaluate_unknown (sem : Sem) (fuel : Nat) (m : MState) (a : Addr) (h : m.cell? (m.resolve a) = none) :
    (evaluate sem fuel m a).1 = m := by
  cases fuel with
  | zero => rfl
  | succ k =>
    unfold evaluate
    rw [evalCell]
    simp only [mutStore_resolve, mutStore_cell, h]

/-- `evaluate` of a constant cell returns its value and leaves the model unchanged -/
theorem evaluate_constant (sem : Sem) (fuel : Nat) (m : MState) (a : Addr) (c : Cell)
    (h : m.cell? (m.resolve a) = some c) (hf : c.formula = none) :
    evaluate sem (fuel + 1) m a = (m, .val c.value, []) := by
  unfold evaluate
  rw [evalCell]
  simp only [mutStore_resolve, mutStore_cell, h, hf]

example : wb.cell? (wb.resolve "S!Z9".toList) = none := by decide

/-- hypotheses of `evaluate_constant` -/
example : ∃ c, wb.cell? (wb.resolve wbA) = some c ∧ c.formula = none :=
  ⟨{ value := .s (.num (.int 1)), formula := none }, by simp [MState.cell?, MState.resolve, wb, assoc, wbA], rfl⟩

/-- hypothesis of `frame_of_erase_eq`, met by a model that differs from the initial one -/
example : erase (evaluate sem0 9 wb wbC).1 = erase wb
    ∧ (evaluate sem0 9 wb wbC).1.getCellValue wbC ≠ wb.getCellValue wbC :=
  ⟨(Props.C04.evalCell_pure sem0 9 wb wbC).1, by decide⟩

/-! ### the function table of an evaluator -/

open XlVerif.Model.C08 in
/-- **namespace_private.** An evaluator's namespace is the copy of the global table taken when it was
    constructed: later registrations and later evaluators do not change it. -/
theorem namespace_private (s : RegState) (ops : List RegOp) :
    (ops.foldl RegState.step (s.step .newEvaluator)).evaluators[s.evaluators.length]? = some s.global := by
  have gen : ∀ (ops : List RegOp) (t : RegState) (i : Nat) (h : i < t.evaluators.length),
      (ops.foldl RegState.step t).evaluators[i]? = some t.evaluators[i] := by
    intro ops
    induction ops with
    | nil => intro t i h; simp
    | cons op rest ih =>
      intro t i h
      cases op with
      | register n f => simpa [RegState.step] using ih { t with global := nsSet t.global n f } i h
      | newEvaluator =>
        have := ih { t with evaluators := t.evaluators ++ [t.global] } i (by simp; omega)
        simpa [RegState.step, List.getElem_append_left h] using this
  have := gen ops (s.step .newEvaluator) s.evaluators.length (by simp [RegState.step])
  simpa [RegState.step] using this

/-! ### nothing accumulates -/

/-- the context a top-level `evaluate` ends with has an empty in-progress stack (the context itself
    and its memo are dropped by `evaluate`) -/
theorem context_dropped (sem : Sem) (fuel : Nat) (m : MState) (a : Addr) :
    (evalCell mutStore sem fuel { st := m, evaluating := [], memo := [] } a).1.evaluating = [] :=
  (evalCell_log sem fuel m a).2.2

/-- one pass over a schedule reaches a fixed point of the retained state -/
theorem pass_fixed (sem : Sem) (fuel : Nat) (m : MState) (k : Nat) (sched : List (Nat × Addr)) :
    (Sys.runSched sem fuel (Sys.runSched sem fuel (Sys.init m k) sched).1 sched).1
      = (Sys.runSched sem fuel (Sys.init m k) sched).1 := by
  have h1 := (runSched_eq sem fuel m sched (Sys.init m k) (allEmpty_init m k) rfl).1
  rw [h1]
  have h2 := (runSched_eq sem fuel m sched
    { model := replay (Sys.init m k).model (schedWrites sem fuel (erase m) sched), stacks := (Sys.init m k).stacks }
    (allEmpty_init m k) (replay_erase m sem fuel sched m rfl)).1
  rw [h2]
  simp only [Sys.mk.injEq, and_true]
  exact replay_idem _ _

/-- **retained_bounded.** `n + 1` passes over the same schedule (any cells, any repetitions, any number of
    evaluators) leave exactly the state one pass leaves — model, stored values, cached arrays and every
    evaluator's stack: what is retained is a function of the inputs and the schedule's cells, not of `n`. -/
theorem retained_bounded (sem : Sem) (fuel : Nat) (m : MState) (k : Nat) (sched : List (Nat × Addr)) (n : Nat) :
    Sys.rounds sem fuel sched (n + 1) (Sys.init m k) = Sys.rounds sem fuel sched 1 (Sys.init m k) := by
  have hfix : ∀ j, Sys.rounds sem fuel sched j (Sys.runSched sem fuel (Sys.init m k) sched).1
      = (Sys.runSched sem fuel (Sys.init m k) sched).1 := by
    intro j
    induction j with
    | zero => rfl
    | succ i ih => rw [rounds_succ, pass_fixed]; exact ih
  show Sys.rounds sem fuel sched n (Sys.runSched sem fuel (Sys.init m k) sched).1 = _
  rw [hfix]; rfl

/-- … in particular its size -/
theorem retained_size (sem : Sem) (fuel : Nat) (m : MState) (k : Nat) (sched : List (Nat × Addr)) (n : Nat) :
    (Sys.rounds sem fuel sched (n + 1) (Sys.init m k)).size = (Sys.rounds sem fuel sched 1 (Sys.init m k)).size := by
  rw [retained_bounded]

/-- and the number of cells and ranges never changes at all -/
theorem retained_counts (sem : Sem) (fuel : Nat) (m : MState) (k : Nat) (sched : List (Nat × Addr)) :
    (Sys.runSched sem fuel (Sys.init m k) sched).1.model.cells.length = m.cells.length
    ∧ (Sys.runSched sem fuel (Sys.init m k) sched).1.model.ranges.length = m.ranges.length
    ∧ (Sys.runSched sem fuel (Sys.init m k) sched).1.stacks = List.replicate k [] := by
  obtain ⟨_, h2, _, _, h5⟩ := frame_sched sem fuel m k sched
  refine ⟨?_, ?_, ?_⟩
  · have := congrArg List.length h2; simpa using this
  · have := congrArg List.length h5; simpa using this
  · rw [(runSched_eq sem fuel m sched (Sys.init m k) (allEmpty_init m k) rfl).1]; rfl

/-! ### a concrete schedule (non-vacuity): two evaluators, C1 B1 C1 in one order and B1 C1 in another -/

example :
    (Sys.runSched sem0 9 (Sys.init wb 2)
        [(0, wbC), (1, wbB), (0, wbC)]).2
      = [.val (.s (.num (.int 1))), .val (.s (.num (.int 1))), .val (.s (.num (.int 1)))] := by decide

example :
    (Sys.rounds sem0 9 [(0, wbC), (1, wbB)] 3 (Sys.init wb 2)).size
      = (Sys.rounds sem0 9 [(0, wbC), (1, wbB)] 1 (Sys.init wb 2)).size := by
  decide

end XlVerif.Props.C05
