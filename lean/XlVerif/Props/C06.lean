/-
  C06 — circular references are reported, acyclic sharing is never flagged, failure reports stay small.

  All theorems are about `Model.Evaluator.evaluate` (the model of `Evaluator.evaluate`, with the D11/D12
  repairs that are in /repo now: the in-progress stack `_evaluating` on the evaluator, nested RuntimeErrors
  re-raised unchanged) for EVERY model `m`, function semantics `sem` and entry address `a`.
  `fuel` is CPython's recursion budget; outcome `recursion` = RecursionError.
-/
import XlVerif.Lemmas.C06
import XlVerif.Spec.C06
namespace XlVerif.Props.C06
open XlVerif XlVerif.Model.Evaluator XlVerif.Model.C06 XlVerif.Lemmas.C06 XlVerif.Spec.C06

/-- the result component of `evaluate` -/
def outcome (sem : Sem) (fuel : Nat) (m : MState) (a : Addr) : Res := (evaluate sem fuel m a).2.1

theorem wfe_nil (m : MState) : WFE m [] := ⟨List.nodup_nil, fun _ h => by cases h⟩

/-- instantiate the induction principle at the top-level call of `evaluate` -/
theorem evaluate_post {sem : Sem} {m : MState} {Post : Nat → List Addr → Addr → Res → Prop}
    (P : PostOK sem m Post) (fuel : Nat) (a : Addr) :
    Post fuel [] a (outcome sem fuel m a) ∧ ∀ n, outcome sem fuel m a ≠ .exc .problem n := by
  have := cell_post (lawful_mut m) P fuel { st := m, evaluating := [], memo := [] } a
    (agree_mut_refl m) (wfe_nil m)
  exact ⟨this.2.2.1, this.2.2.2⟩

/-! ### termination -/

theorem postOK_term (sem : Sem) (m : MState) :
    PostOK sem m (fun fuel E _ r => ∀ n, r = .exc .recursion n → fuel + E.length ≤ formulaCount m) := {
  val := by intros; simp_all
  zero := fun E a hW n _ => by have := wfe_length hW; omega
  cycle := by intros; simp_all
  up := fun fuel E a f b k n hW hf hn hb hp hk n' he => by
    cases he
    have := hp n rfl
    simp only [List.length_cons] at this
    omega
  rt := by intros; simp_all
  pb := by intros; simp_all }


/-- **terminates.** With a recursion budget above the number of formula cells the outcome is never
    `RecursionError` — for every model, cyclic or not, and every function semantics. -/
theorem terminates (sem : Sem) (m : MState) (a : Addr) (fuel : Nat) (h : formulaCount m < fuel) :
    ∀ n, outcome sem fuel m a ≠ .exc .recursion n := by
  have P := postOK_term sem m
  intro n hn
  have := (evaluate_post P fuel a).1 n hn
  simp at this
  omega

/-- a model on which the bound is tight enough to be meaningful: the two-cell cycle of D11 -/
example : formulaCount { cells := [(['A'], { value := .s .blank, formula := some (.ref ['B']) }),
    (['B'], { value := .s .blank, formula := some (.ref ['A']) })], ranges := [], names := [] } < 3 := by decide

/-! ### soundness of cycle reports -/

theorem postOK_cycle (sem : Sem) (m : MState) :
    PostOK sem m (fun _ E a r => ∀ n, r = .exc .cycle n →
    ∃ y, Reach (deps m) (m.resolve a) y ∧ (y ∈ E ∨ OnCycle (deps m) y)) := {
  val := by intros; simp_all
  zero := by intros; simp_all
  cycle := fun fuel E a hW hin n _ => ⟨m.resolve a, .refl _, .inl hin⟩
  up := fun fuel E a f b k n hW hf hn hb hp hk n' he => by
    cases he
    obtain ⟨y, hy, hy2⟩ := hp n rfl
    have hdep : m.resolve b ∈ deps m (m.resolve a) := by
      simp only [deps, hf]; exact List.mem_map.mpr ⟨b, hb, rfl⟩
    rcases hy2 with hy2 | hy2
    · rcases List.mem_cons.mp hy2 with rfl | hy2
      · exact ⟨m.resolve a, .refl _, .inr ⟨m.resolve b, hdep, hy⟩⟩
      · exact ⟨y, .step hdep hy, .inl hy2⟩
    · exact ⟨y, .step hdep hy, .inr hy2⟩
  rt := by intros; simp_all
  pb := by intros; simp_all }


/-- every cycle report points at a real cycle: the entry cell reaches a cell that depends on itself -/
theorem cycle_report_real (sem : Sem) (m : MState) (a : Addr) (fuel n : Nat)
    (h : outcome sem fuel m a = .exc .cycle n) : ReachesCycle (deps m) (m.resolve a) := by
  have P := postOK_cycle sem m
  obtain ⟨y, hy, hy2⟩ := (evaluate_post P fuel a).1 n h
  rcases hy2 with hy2 | hy2
  · cases hy2
  · exact ⟨y, hy, hy2⟩

/-- **cycle_sound.** If the dependency graph below `a` is acyclic — a cell may be referenced several
    times in one formula or be reached along several paths — no cycle is ever reported.  Lazy nodes are
    allowed (`deps` lists all their branches). -/
theorem cycle_sound (sem : Sem) (m : MState) (a : Addr) (fuel : Nat)
    (h : AcyclicBelow (deps m) (m.resolve a)) : ∀ n, outcome sem fuel m a ≠ .exc .cycle n :=
  fun n hn => h (cycle_report_real sem m a fuel n hn)


/-! ### completeness of cycle reports -/

theorem outcome_eq (sem : Sem) (fuel : Nat) (m : MState) (a : Addr) :
    outcome sem fuel m a = (evalCell mutStore sem fuel { st := m, evaluating := [], memo := [] } a).2 := rfl

/-- a strict cell that evaluates to a VALUE has no cycle below it (contrapositive of completeness) -/
theorem value_acyclic (sem : Sem) (m : MState) (a : Addr) (fuel : Nat) (v : V)
    (hs : strictModel m) (hr : smallRanges m) (h : outcome sem fuel m a = .val v) :
    AcyclicBelow (deps m) (m.resolve a) := by
  rw [outcome_eq] at h
  exact cell_val (lawful_mut m) hs hr fuel { st := m, evaluating := [], memo := [] } _ a v
    (agree_mut_refl m) (wfe_nil m) rfl (Prod.ext rfl h)

/-- **cycle_complete.** In a strict model (formulas built from literals, cell references, ranges and
    strict functions / operators; ranges of at most `MAX_EMPTY` cells, so that every member is visited),
    if `a` reaches a cell that depends on itself — through any chain of cell or range references, a self
    reference included — then `evaluate` ends with an exception, never with a value and (given the recursion
    budget) never with RecursionError: it is the cycle report, or the RuntimeError of a function body that
    raised earlier in evaluation order. -/
theorem cycle_complete (sem : Sem) (m : MState) (a : Addr) (fuel : Nat)
    (hs : strictModel m) (hr : smallRanges m) (hfuel : formulaCount m < fuel)
    (hc : ReachesCycle (deps m) (m.resolve a)) :
    ∃ k n, outcome sem fuel m a = .exc k n ∧ (k = .cycle ∨ k = .runtime) := by
  cases h : outcome sem fuel m a with
  | val v => exact absurd hc (value_acyclic sem m a fuel v hs hr h)
  | exc k n =>
    refine ⟨k, n, rfl, ?_⟩
    cases k with
    | cycle => exact .inl rfl
    | runtime => exact .inr rfl
    | recursion => exact absurd h (terminates sem m a fuel hfuel n)
    | problem => exact absurd h ((evaluate_post (postOK_true sem m) fuel a).2 n)

/-- functions that never raise -/
def totalSem (sem : Sem) : Prop := ∀ g vs, ∃ v, sem.app g vs = .val v

/-- in a strict model whose functions never raise, the only exceptions are the cycle report and
    RecursionError -/
theorem strict_total_exc (sem : Sem) (m : MState) (a : Addr) (fuel : Nat)
    (hs : strictModel m) (ht : totalSem sem) : ∀ n, outcome sem fuel m a ≠ .exc .runtime n := by
  have P : PostOK sem m (fun _ _ _ r => ∀ n, r ≠ .exc .runtime n) := {
    val := by intros; simp
    zero := by intros; simp
    cycle := by intros; simp
    up := fun fuel E a f b k n hW hf hn hb hp hk => hp
    rt := fun fuel E a g vs n hW ha => by obtain ⟨v, hv⟩ := ht g vs; rw [hv] at ha; cases ha
    pb := fun fuel E a cell f n hW hc hf hn hsrc => by
      rcases hsrc with ⟨g, vs, h⟩ | h
      · obtain ⟨v, hv⟩ := ht g vs; rw [hv] at h; cases h
      · have := strict_failLens f (hs (m.resolve a) f (by simp [formulaAt, hc, hf]))
        rw [this] at h; cases h }
  exact (evaluate_post P fuel a).1

/-- **cycle_complete_total.** … and when the functions of the model never raise, the outcome is exactly
    the cycle report. -/
theorem cycle_complete_total (sem : Sem) (m : MState) (a : Addr) (fuel : Nat)
    (hs : strictModel m) (hr : smallRanges m) (ht : totalSem sem) (hfuel : formulaCount m < fuel)
    (hc : ReachesCycle (deps m) (m.resolve a)) :
    ∃ n, outcome sem fuel m a = .exc .cycle n := by
  obtain ⟨k, n, h, hk⟩ := cycle_complete sem m a fuel hs hr hfuel hc
  rcases hk with rfl | rfl
  · exact ⟨n, h⟩
  · exact absurd h (strict_total_exc sem m a fuel hs ht n)

/-- for strict models with total functions the cycle report is EXACTLY the presence of a reachable cycle -/
theorem cycle_iff (sem : Sem) (m : MState) (a : Addr) (fuel : Nat)
    (hs : strictModel m) (hr : smallRanges m) (ht : totalSem sem) (hfuel : formulaCount m < fuel) :
    (∃ n, outcome sem fuel m a = .exc .cycle n) ↔ ReachesCycle (deps m) (m.resolve a) :=
  ⟨fun ⟨n, h⟩ => cycle_report_real sem m a fuel n h,
   cycle_complete_total sem m a fuel hs hr ht hfuel⟩

/-! ### size of failure reports -/

theorem formulaAt_cell {m : MState} {e : Addr} {f : Fx} (h : formulaAt m e = some f) :
    ∃ cell, m.cell? e = some cell ∧ cell.formula = some f := by
  simp only [formulaAt] at h
  cases hc : m.cell? e with
  | none => simp [hc] at h
  | some cell => exact ⟨cell, rfl, by simpa [hc] using h⟩

theorem postOK_msg (sem : Sem) (m : MState) (B : Nat)
    (hrt : ∀ g vs n, sem.app g vs = .raiseRuntime n → n ≤ B)
    (hot : ∀ g vs n, sem.app g vs = .raiseOther n → n ≤ B)
    (hfl : ∀ x f, formulaAt m x = some f → ∀ n ∈ failLens f, n ≤ B) :
    PostOK sem m (fun _ _ _ r =>
    (∀ n, r = .exc .cycle n → n ≤ cycleMsgBound (formulaCount m) (maxAddrLen m)) ∧
    (∀ n, r = .exc .runtime n → n ≤ failMsgBound (maxAddrLen m) (maxFormulaLen m) B) ∧
    (∀ n, r = .exc .recursion n → n = 0)) := {
  val := by intros; simp
  zero := by intros; simp
  cycle := fun fuel E a hW hin => by
    refine ⟨fun n hn => ?_, by simp, by simp⟩
    cases hn
    obtain ⟨f, hf⟩ := hW.2 _ hin
    obtain ⟨cell, hc, _⟩ := formulaAt_cell hf
    have h1 := (cell_bounds hc).1
    have h2 := sumLens_le E (maxAddrLen m) (fun e he => by
      obtain ⟨f, hf⟩ := hW.2 _ he
      obtain ⟨cell, hc, _⟩ := formulaAt_cell hf
      exact (cell_bounds hc).1)
    have h3 := Nat.mul_le_mul_right (maxAddrLen m + 3) (wfe_length hW)
    unfold cycleMsgBound
    omega
  up := fun fuel E a f b k n hW hf hn hb hp hk => hp
  rt := fun fuel E a g vs n hW ha => by
    refine ⟨by simp, fun n' hn => ?_, by simp⟩
    cases hn
    have := hrt g vs n ha
    unfold failMsgBound; omega
  pb := fun fuel E a cell f n hW hc hf hn hsrc => by
    refine ⟨by simp, fun n' hn' => ?_, by simp⟩
    cases hn'
    have hb := cell_bounds hc
    have hn : n ≤ B := by
      rcases hsrc with ⟨g, vs, h⟩ | h
      · exact hot g vs n h
      · exact hfl (m.resolve a) f (by simp [formulaAt, hc, hf]) n h
    unfold failMsgBound; omega }


/-- **message_linear.** Whatever the depth of the dependency chain a failure travelled through:
    * a cycle report is at most `20 + L + N·(L+3)` characters (`N` formula cells, addresses ≤ `L`):
      linear in the length of the chain in progress;
    * any other failure report carries ONE wrapper "Problem evaluating cell … formula …: <repr>" around the
      innermost failure (`≤ 35 + L + M + B`, `M` the longest formula text, `B` the longest `repr` of a raised
      exception) or is a RuntimeError of a function body re-raised unchanged (`≤ B`) — it never grows per level;
    * the un-wrapped form (`problem`) never leaves `evaluate`. -/
theorem message_linear (sem : Sem) (m : MState) (a : Addr) (fuel B : Nat)
    (hrt : ∀ g vs n, sem.app g vs = .raiseRuntime n → n ≤ B)
    (hot : ∀ g vs n, sem.app g vs = .raiseOther n → n ≤ B)
    (hfl : ∀ x f, formulaAt m x = some f → ∀ n ∈ failLens f, n ≤ B) :
    (∀ n, outcome sem fuel m a = .exc .cycle n → n ≤ cycleMsgBound (formulaCount m) (maxAddrLen m)) ∧
    (∀ n, outcome sem fuel m a = .exc .runtime n → n ≤ failMsgBound (maxAddrLen m) (maxFormulaLen m) B) ∧
    (∀ n, outcome sem fuel m a = .exc .recursion n → n = 0) ∧
    (∀ n, outcome sem fuel m a ≠ .exc .problem n) := by
  have P := postOK_msg sem m B hrt hot hfl
  have := evaluate_post P fuel a
  exact ⟨this.1.1, this.1.2.1, this.1.2.2, this.2⟩


/-! ### work -/

/-- the cells whose formula evaluation was started, in order (`Ctx.trace`) -/
def trace (sem : Sem) (fuel : Nat) (m : MState) (a : Addr) : List Addr := (evaluate sem fuel m a).2.2

/-- **work_linear_chain.** In a chain (every formula hands at most one address to `eval_cell`; a memo hit
    costs no evaluation) at most `formulaCount m` formula evaluations are started, whatever the outcome —
    a value, a cycle report or a failure at any depth.  Together with `message_linear` (no growth of the
    message per level) the cost of reporting a failure is linear in the chain length; each level does O(1)
    work on the way up (`except RuntimeError: raise`). -/
theorem work_linear_chain (sem : Sem) (m : MState) (a : Addr) (fuel : Nat) (hch : chainModel m) :
    (trace sem fuel m a).length ≤ formulaCount m := by
  have := cell_chain (sem := sem) (lawful_mut m) hch fuel { st := m, evaluating := [], memo := [] } a
    (agree_mut_refl m) (wfe_nil m)
  simpa [trace, evaluate] using this

/-! ### one evaluator, several evaluations (an `Evaluator` object is reused; a failure must leave no trace) -/

/-- **evaluating_restored.** `evaluate` leaves `_evaluating` exactly as it found it on EVERY path — value, cycle
    report, wrapped failure, re-raised RuntimeError (subclasses included), RecursionError — for every model,
    state and function semantics.  (A `pop` that is skipped on the re-raise path breaks exactly this.) -/
theorem evaluating_restored (sem : Sem) (fuel : Nat) (e : EvState) (a : Addr) :
    (evaluateOn sem fuel e a).1.evaluating = e.evaluating := by
  simp only [evaluateOn]
  exact XlVerif.Lemmas.C06.evaluating_restored mutStore sem fuel _ a

/-- after any history of evaluations the in-progress list is what it was before (empty for a new evaluator) -/
theorem history_evaluating (sem : Sem) (fuel : Nat) (hist : List Addr) :
    ∀ e : EvState, (runHist sem fuel e hist).1.evaluating = e.evaluating := by
  induction hist with
  | nil => intro e; rfl
  | cons a rest ih =>
    intro e
    simp only [runHist]
    rw [ih, evaluating_restored]

/-- an evaluator state reachable from a new evaluator on model `m`: same formulas / ranges / names, nothing in
    progress (stored values may have been overwritten by earlier evaluations) -/
def GoodEv (m : MState) (e : EvState) : Prop := Agree mutStore m e.st ∧ e.evaluating = []

theorem goodEv_new (m : MState) : GoodEv m { st := m } := ⟨agree_mut_refl m, rfl⟩

theorem evaluateOn_post {sem : Sem} {m : MState} {Post : Nat → List Addr → Addr → Res → Prop}
    (P : PostOK sem m Post) (fuel : Nat) (e : EvState) (a : Addr) (h : GoodEv m e) :
    (Post fuel [] a (evaluateOn sem fuel e a).2 ∧ ∀ n, (evaluateOn sem fuel e a).2 ≠ .exc .problem n) ∧
    GoodEv m (evaluateOn sem fuel e a).1 := by
  have := cell_post (lawful_mut m) P fuel { st := e.st, evaluating := e.evaluating, memo := [] } a h.1
    (by rw [h.2]; exact wfe_nil m)
  simp only [evaluateOn]
  simp only [h.2] at this ⊢
  exact ⟨⟨this.2.2.1, this.2.2.2⟩, this.1, this.2.1⟩

/-- every postcondition of a single evaluation on a new evaluator holds for EVERY evaluation of a history on one
    evaluator -/
theorem history_post {sem : Sem} {m : MState} {Post : Nat → List Addr → Addr → Res → Prop}
    (P : PostOK sem m Post) (fuel : Nat) (hist : List Addr) :
    ∀ e : EvState, GoodEv m e →
      (∀ p ∈ hist.zip (runHist sem fuel e hist).2, Post fuel [] p.1 p.2 ∧ ∀ n, p.2 ≠ .exc .problem n) ∧
      GoodEv m (runHist sem fuel e hist).1 := by
  induction hist with
  | nil => intro e h; exact ⟨by simp [runHist], h⟩
  | cons a rest ih =>
    intro e h
    have h1 := evaluateOn_post P fuel e a h
    have h2 := ih _ h1.2
    simp only [runHist, List.zip_cons_cons, List.mem_cons]
    refine ⟨fun p hp => ?_, h2.2⟩
    rcases hp with rfl | hp
    · exact h1.1
    · exact h2.1 p hp

/-- **history_cycle_sound.** On one evaluator, whatever was evaluated before and however it ended: a cycle report
    for entry `a` means that `a` reaches a real cycle.  An acyclic entry point is never flagged after a failure. -/
theorem history_cycle_sound (sem : Sem) (m : MState) (fuel : Nat) (hist : List Addr) (a : Addr) (n : Nat)
    (h : (a, Res.exc .cycle n) ∈ hist.zip (runHist sem fuel { st := m } hist).2) :
    ReachesCycle (deps m) (m.resolve a) := by
  obtain ⟨y, hy, hy2⟩ := ((history_post (postOK_cycle sem m) fuel hist _ (goodEv_new m)).1 _ h).1 n rfl
  rcases hy2 with hy2 | hy2
  · cases hy2
  · exact ⟨y, hy, hy2⟩

/-- **history_terminates / history_message_linear.** The budget and the message bounds hold for every
    evaluation of a history as well. -/
theorem history_terminates (sem : Sem) (m : MState) (fuel : Nat) (hist : List Addr) (a : Addr) (n : Nat)
    (hf : formulaCount m < fuel) :
    (a, Res.exc .recursion n) ∉ hist.zip (runHist sem fuel { st := m } hist).2 := by
  intro h
  have := ((history_post (postOK_term sem m) fuel hist _ (goodEv_new m)).1 _ h).1 n rfl
  simp at this
  omega

theorem history_message_linear (sem : Sem) (m : MState) (fuel B : Nat) (hist : List Addr) (a : Addr) (r : Res)
    (hrt : ∀ g vs n, sem.app g vs = .raiseRuntime n → n ≤ B)
    (hot : ∀ g vs n, sem.app g vs = .raiseOther n → n ≤ B)
    (hfl : ∀ x f, formulaAt m x = some f → ∀ n ∈ failLens f, n ≤ B)
    (h : (a, r) ∈ hist.zip (runHist sem fuel { st := m } hist).2) :
    (∀ n, r = .exc .cycle n → n ≤ cycleMsgBound (formulaCount m) (maxAddrLen m)) ∧
    (∀ n, r = .exc .runtime n → n ≤ failMsgBound (maxAddrLen m) (maxFormulaLen m) B) ∧
    (∀ n, r ≠ .exc .problem n) := by
  have := (history_post (postOK_msg sem m B hrt hot hfl) fuel hist _ (goodEv_new m)).1 _ h
  exact ⟨this.1.1, this.1.2.1, this.2⟩

/-- the executable oracle of the correspondence (`Spec.C06.cyclicFrom` on `deps m`) only answers "cyclic" when a
    cycle is reachable; its completeness for `fuel > formulaCount m` is cross-checked on every generated graph
    against an independent Python implementation (Kahn's algorithm) by the harness -/
theorem oracle_sound (m : MState) (a : Addr) (fuel : Nat)
    (h : cyclicFrom (deps m) fuel [] (m.resolve a) = true) : ReachesCycle (deps m) (m.resolve a) :=
  cyclicFrom_sound _ fuel [] _ (fun _ hp => by cases hp) h

/-! ### the hypotheses are satisfiable; the theorems bite on small models -/
section examples

def adr (s : String) : Addr := s.toList
def fcell (f : Fx) (len : Nat := 3) : Cell := { value := .s .blank, formula := some f, formulaLen := len }
def ccell (n : Int) : Cell := { value := .s (.num (.int n)), formula := none }

/-- function semantics: `0` adds (never raises), everything else raises KeyError-like -/
def sumSem : Sem where
  app := fun g vs => if g = 0 then .val (vs.headD (.s .blank)) else .raiseOther 12
  truth := fun _ => some true

/-- A = B + C, B = C, C = 1: a diamond with a repeated reference, acyclic -/
def diamond : MState :=
  { cells := [(adr "A", fcell (.app 0 [.ref (adr "B"), .ref (adr "C"), .ref (adr "B")])),
              (adr "B", fcell (.ref (adr "C"))), (adr "C", ccell 1)], ranges := [], names := [] }

/-- A = B, B = SUM(R) with R = {A, C}: a cycle closed through a range -/
def rangeCycle : MState :=
  { cells := [(adr "A", fcell (.ref (adr "B"))), (adr "B", fcell (.app 0 [.rng (adr "R")])), (adr "C", ccell 1)],
    ranges := [(adr "R", { cells := [[adr "C", adr "A"]] })], names := [] }

/-- A = A -/
def selfRef : MState := { cells := [(adr "A", fcell (.ref (adr "A")))], ranges := [], names := [] }

example : strictModelB diamond = true ∧ strictModelB rangeCycle = true := by decide
example : cyclicFrom (deps diamond) 5 [] (adr "A") = false := by decide
example : cyclicFrom (deps rangeCycle) 5 [] (adr "A") = true := by decide
example : cyclicFrom (deps selfRef) 5 [] (adr "A") = true := by decide
/-- hypothesis of `cycle_complete` met: the entry cell of `rangeCycle` reaches a cycle … -/
example : ReachesCycle (deps rangeCycle) (rangeCycle.resolve (adr "A")) :=
  cyclicFrom_sound _ 5 [] _ (fun _ h => by cases h) (by decide)
/-- … and the model reports it (message: "Cycle detected for A:" + "\n- B" + "\n- A") -/
example : outcome sumSem 10 rangeCycle (adr "A") = .exc .cycle 29 := by decide
example : outcome sumSem 10 selfRef (adr "A") = .exc .cycle 25 := by decide
/-- acyclic sharing is evaluated, not flagged -/
example : outcome sumSem 10 diamond (adr "A") = .val (.s (.num (.int 1))) := by decide
/-- D11 would be: no report however large the budget. With the in-progress stack three levels suffice. -/
example : ∀ fuel, 2 < fuel → ∀ n, outcome sumSem fuel rangeCycle (adr "A") ≠ .exc .recursion n :=
  fun fuel h => terminates sumSem rangeCycle (adr "A") fuel
    (by have h2 : formulaCount rangeCycle = 2 := (by decide); omega)
/-- a failure at the bottom of a chain of depth 3 is wrapped once (35 + 1 + 3 + 12), not once per level -/
def failChain : MState :=
  { cells := [(adr "A", fcell (.ref (adr "B"))), (adr "B", fcell (.ref (adr "C"))),
              (adr "C", fcell (.app 5 []))], ranges := [], names := [] }
example : outcome sumSem 10 failChain (adr "A") = .exc .runtime 51 := by decide
example : chainModel failChain := by
  intro a f h
  simp only [formulaAt, MState.cell?, failChain, assoc] at h
  split at h
  · cases h; decide
  · split at h
    · cases h; decide
    · split at h
      · cases h; decide
      · cases h
example : (trace sumSem 10 failChain (adr "A")).length = 3 := by decide
/-- one evaluator: the failing chain evaluated at A, then at B, C and A again — the same report each time, never
    a cycle report, nothing left in progress -/
example : (runHist sumSem 10 { st := failChain } [adr "A", adr "B", adr "C", adr "A"]).2 =
    [.exc .runtime 51, .exc .runtime 51, .exc .runtime 51, .exc .runtime 51] := by decide
example : (runHist sumSem 10 { st := rangeCycle } [adr "A", adr "C", adr "B"]).2 =
    [.exc .cycle 29, .val (.s (.num (.int 1))), .exc .cycle 29] := by decide

end examples

end XlVerif.Props.C06
