/-
  C07 — Excel errors are values that propagate; typed operands never crash.
  Theorems about `Model.Value` (operators) and `Model.Validate` (the `validate_args` wrapper, generic
  in the function body, so they cover every registered function at once) plus `decide` obligations
  on the regenerated registry.
-/
import XlVerif.Model.Validate
namespace XlVerif.Props.C07
open XlVerif XlVerif.Model.Value XlVerif.Model.Validate XlVerif.Gen

/-! ### operators: an error operand is the result, the left one first -/

@[simp] theorem isErr_err (c : Code) : isErr (.err c) = some c := rfl

theorem binop_error_left (ext : Ext) (op : BinOp) (c : Code) (r : S) :
    binop ext op (.err c) r = .val (.err c) := by
  simp [binop, firstErr, isErr]

theorem binop_error_right (ext : Ext) (op : BinOp) (l : S) (c : Code) (hl : isErr l = none) :
    binop ext op l (.err c) = .val (.err c) := by
  simp [binop, firstErr, hl]

theorem other_ops_error (ext : Ext) (c : Code) (x : S) (hx : isErr x = none) :
    power ext (.err c) x = .val (.err c) ∧
    concat ext (.err c) x = .val (.err c) ∧ concat ext x (.err c) = .val (.err c) ∧
    neg ext (.err c) = .val (.err c) ∧ percent ext (.err c) = .val (.err c) := by
  simp [power, concat, neg, percent, firstErr, hx]

/-- `^` validates its two numeric parameters in order: an error exponent is the result whenever the
    base is an operand that coerces to a number (a non-numeric text base gives its own #VALUE! first) -/
theorem power_error_right (ext : Ext) (c : Code) (x : S) (n : Num) (hx : isErr x = none)
    (hn : toNumber ext x = .ok n) : power ext x (.err c) = .val (.err c) := by
  simp [power, hx, hn, OpR.ofNum]

/-- leftmost error wins when both operands are errors -/
theorem binop_two_errors (ext : Ext) (op : BinOp) (c d : Code) :
    binop ext op (.err c) (.err d) = .val (.err c) ∧ power ext (.err c) (.err d) = .val (.err c) ∧
    concat ext (.err c) (.err d) = .val (.err c) := by
  simp [binop, power, concat, firstErr, isErr]

/-! ### operators never raise a Python exception, whatever the operand types -/

theorem toNumber_ne_py (ext : Ext) (s : S) (k : Crash) : toNumber ext s ≠ .py k := by
  cases s <;> simp [toNumber]
  rename_i t
  simp only [textNumber]
  repeat' split
  all_goals simp

theorem ofNum_ne_py (ext : Ext) (s : S) (f : Num → OpR) (k : Crash) (hf : ∀ n, f n ≠ .py k) :
    OpR.ofNum (toNumber ext s) f ≠ .py k := by
  have := toNumber_ne_py ext s
  cases h : toNumber ext s <;> simp [OpR.ofNum]
  · exact hf _
  · exact fun e => this _ (by rw [h, e])

theorem arith_ne_py (ext : Ext) (f : Num → Num → Num) (l r : S) (k : Crash) : arith ext f l r ≠ .py k := by
  unfold arith
  exact ofNum_ne_py ext l _ k fun a => ofNum_ne_py ext r _ k fun b => by simp

/-- a sort key whose payload kind is determined by its precedence -/
def wellKey : Nat × Key → Prop
  | (0, .n _) => True | (1, .t _) => True | (2, .n _) => True | _ => False

theorem sortKey_some (l r : S) (hl : isErr l = none) (hr : isErr r = none) :
    ∃ kk, sortKey l r = some kk ∧ wellKey kk := by
  cases l <;> cases r <;> first | (exact ⟨_, rfl, trivial⟩) | (simp [isErr] at hl hr)

theorem keyLt_well (a b : Nat × Key) (ha : wellKey a) (hb : wellKey b) : ∃ v, keyLt a b = some v := by
  obtain ⟨p, x⟩ := a
  obtain ⟨q, y⟩ := b
  unfold wellKey at ha hb
  split at ha <;> split at hb <;> simp_all [keyLt, Key.lt]

theorem richCmp_ne_py (op : Cmp) (l r : S) (hl : isErr l = none) (hr : isErr r = none) (k : Crash) :
    richCmp op l r ≠ .py k := by
  obtain ⟨a, h1, h1'⟩ := sortKey_some l r hl hr
  obtain ⟨b, h2, h2'⟩ := sortKey_some r l hr hl
  unfold richCmp
  rw [h1, h2]
  obtain ⟨v1, e1⟩ := keyLt_well a b h1' h2'
  obtain ⟨v2, e2⟩ := keyLt_well b a h2' h1'
  cases op <;> simp [e1, e2] <;> split <;> simp

/-- **No operator raises**: for operands of every scalar type (number, text, boolean, blank, date,
    error) each of the twelve infix operators, unary minus, percent, `^` and `&` returns a value,
    an Excel error or a non-finite marker — never a Python exception. -/
theorem ops_total (ext : Ext) (l r : S) (k : Crash) :
    (∀ op, binop ext op l r ≠ .py k) ∧ power ext l r ≠ .py k ∧ concat ext l r ≠ .py k ∧
    neg ext l ≠ .py k ∧ percent ext l ≠ .py k := by
  refine ⟨fun op => ?_, ?_, ?_, ?_, ?_⟩
  · unfold binop
    cases hfe : firstErr l r with
    | some c => simp
    | none =>
      have hl : isErr l = none := by
        unfold firstErr at hfe; cases h : isErr l <;> simp_all
      have hr : isErr r = none := by
        unfold firstErr at hfe; simp [hl] at hfe; exact hfe
      cases op <;> simp only
      · exact arith_ne_py ext _ l r k
      · exact arith_ne_py ext _ l r k
      · exact arith_ne_py ext _ l r k
      · have h0 := richCmp_ne_py .eq r (.num (.int 0)) hr rfl k
        split
        · simp
        · rename_i k' hk; exact fun e => h0 (by rw [hk, e])
        · refine ofNum_ne_py ext r _ k fun b => ?_
          split
          · simp
          · exact ofNum_ne_py ext l _ k fun a => by simp
      · exact richCmp_ne_py .eq l r hl hr k
      · exact richCmp_ne_py .ne l r hl hr k
      all_goals
        split
        · simp
        · first
          | exact richCmp_ne_py .lt l r hl hr k
          | exact richCmp_ne_py .gt l r hl hr k
          | exact richCmp_ne_py .le l r hl hr k
          | exact richCmp_ne_py .ge l r hl hr k
  · unfold power
    split
    · simp
    · refine ofNum_ne_py ext l _ k fun a => ?_
      split
      · simp
      · refine ofNum_ne_py ext r _ k fun b => ?_
        repeat' split
        all_goals simp
  · unfold concat; split <;> simp
  · unfold neg; split
    · simp
    · exact ofNum_ne_py ext l _ k fun a => by simp
  · unfold percent; split
    · simp
    · exact ofNum_ne_py ext l _ k fun a => by simp

/-- the only errors an arithmetic operator produces itself are #VALUE! and #DIV/0! (and `^` #NUM!) -/
theorem arith_error_codes (ext : Ext) (l r : S) (c : Code) (hl : isErr l = none) (hr : isErr r = none) :
    (arith ext Num.add l r = .val (.err c) → c = .value) ∧
    (arith ext Num.sub l r = .val (.err c) → c = .value) ∧
    (arith ext Num.mul l r = .val (.err c) → c = .value) := by
  have key : ∀ f, arith ext f l r = .val (.err c) → c = .value := by
    intro f h
    unfold arith at h
    have tn : ∀ s, isErr s = none → ∀ d, toNumber ext s = .xl d → d = .value := by
      intro s hs d hd
      cases s <;> simp [toNumber, isErr] at hd hs
      rename_i t
      simp only [textNumber] at hd
      repeat' split at hd
      all_goals simp at hd
      exact hd.symm
    cases h1 : toNumber ext l <;> simp [h1, OpR.ofNum] at h
    · cases h2 : toNumber ext r <;> simp [h2, OpR.ofNum] at h
      exact (tn r hr _ h2) ▸ h.symm ▸ rfl
    · exact (tn l hl _ h1) ▸ h.symm ▸ rfl
  exact ⟨key _, key _, key _⟩

/-! ### whole operator trees: an error anywhere is never swallowed, and nothing raises -/

/-- an expression built from infix operators over scalar operands -/
inductive OpTree | leaf (s : S) | node (op : BinOp) (l r : OpTree)

/-- evaluation as `OperatorNode.eval` does it: both operands first, then the operator function -/
def OpTree.eval (ext : Ext) : OpTree → OpR
  | .leaf s => .val s
  | .node op l r =>
    match l.eval ext, r.eval ext with
    | .val a, .val b => binop ext op a b
    | .val _, o => o
    | o, _ => o

def OpTree.hasErr : OpTree → Prop
  | .leaf s => ∃ c, s = .err c
  | .node _ l r => l.hasErr ∨ r.hasErr

def OpTree.leftmost : OpTree → S
  | .leaf s => s
  | .node _ l _ => l.leftmost

/-- no operator tree raises a Python exception, whatever the operand types -/
theorem tree_total (ext : Ext) (t : OpTree) (k : Crash) : t.eval ext ≠ .py k := by
  induction t with
  | leaf s => simp [OpTree.eval]
  | node op l r ihl ihr =>
    simp only [OpTree.eval]
    cases hl : l.eval ext <;> cases hr : r.eval ext <;> simp_all
    exact (ops_total ext _ _ k).1 op

/-- the leftmost operand being an error decides the whole tree (the model has no non-finite VALUE: an
    overflow elsewhere in the tree ends its evaluation with the `nonfinite` marker) -/
theorem tree_leftmost_error (ext : Ext) (t : OpTree) (c : Code) (h : t.leftmost = .err c) :
    t.eval ext = .val (.err c) ∨ t.eval ext = .nonfinite := by
  induction t with
  | leaf s => simp_all [OpTree.eval, OpTree.leftmost]
  | node op l r ihl _ =>
    simp only [OpTree.leftmost] at h
    simp only [OpTree.eval]
    rcases ihl h with hl | hl
    · rw [hl]; cases hr : r.eval ext
      · exact Or.inl (binop_error_left ext op c _)
      · exact Or.inr rfl
      · exact absurd hr (tree_total ext r _)
    · rw [hl]; exact Or.inr (by cases r.eval ext <;> rfl)

/-- **errors are never swallowed**: a tree with an error operand anywhere evaluates to an Excel error
    or a non-finite marker raised earlier (left of it) — never to an ordinary value -/
theorem tree_error_propagates (ext : Ext) (t : OpTree) (h : t.hasErr) :
    (∃ c, t.eval ext = .val (.err c)) ∨ t.eval ext = .nonfinite := by
  induction t with
  | leaf s => obtain ⟨c, rfl⟩ := h; exact Or.inl ⟨c, rfl⟩
  | node op l r ihl ihr =>
    simp only [OpTree.eval]
    rcases h with h | h
    · rcases ihl h with ⟨c, hc⟩ | hc
      · rw [hc]; cases hr : r.eval ext
        · exact Or.inl ⟨c, binop_error_left ext op c _⟩
        · exact Or.inr rfl
        · exact absurd hr (tree_total ext r _)
      · rw [hc]; exact Or.inr (by cases r.eval ext <;> rfl)
    · cases hl : l.eval ext with
      | py k => exact absurd hl (tree_total ext l k)
      | nonfinite => exact Or.inr (by cases r.eval ext <;> rfl)
      | val a =>
        rcases ihr h with ⟨c, hc⟩ | hc
        · rw [hc]
          cases ha : isErr a with
          | some d =>
            have : a = .err d := by cases a <;> simp_all [isErr]
            subst this; exact Or.inl ⟨d, binop_error_left ext op d _⟩
          | none => exact Or.inl ⟨c, binop_error_right ext op a c ha⟩
        · rw [hc]; exact Or.inr rfl

example : (OpTree.node .add (.node .mul (.leaf (.num (.int 2))) (.leaf (.err .na))) (.leaf (.text "x".toList))).hasErr :=
  Or.inl (Or.inr ⟨_, rfl⟩)

/-! ### the `validate_args` wrapper: first error wins, for an arbitrary body -/

/-- If every earlier argument validates and argument `i` is an Excel error, the wrapper returns that
    error — whatever the function body is. -/
theorem validateAll_first_error (ext : Ext) :
    ∀ (ps : List Param) (pre : List PArg) (post : List PArg) (c : Code),
      pre.length ≤ ps.length →
      (∀ j (hj : j < pre.length) (hp : j < ps.length), ∃ v, validateParam ext ps[j] pre[j] = .ok v ∧
          ∀ d, pre[j] ≠ .one (.sc (.xErr d))) →
      pre.length < ps.length →
      validateAll ext ps (pre ++ .one (.sc (.xErr c)) :: post) = .xl c
  | [], pre, post, c, _, _, hlt => by simp at hlt
  | p :: ps, [], post, c, _, _, _ => by simp [validateAll]
  | p :: ps, a :: pre, post, c, hle, hok, hlt => by
    obtain ⟨v, hv, hne⟩ := hok 0 (by simp) (by simp)
    simp only [List.getElem_cons_zero] at hv hne
    have ih := validateAll_first_error ext ps pre post c (by simpa using hle)
      (fun j hj hp => by
        have := hok (j + 1) (by simpa using hj) (by simpa using hp)
        simpa using this)
      (by simpa using hlt)
    simp only [List.cons_append, validateAll]
    cases a with
    | one x =>
      cases x with
      | sc w =>
        cases w <;> first | (simp only [hv, ih]) | (exact absurd rfl (hne _))
      | arr rows => simp only [hv, ih]
    | many xs => simp only [hv, ih]

theorem first_error_wins (ext : Ext) (f : Func) (body : List VArg → R S) (ret : S → R S)
    (pre post : List PArg) (c : Code) (hv : f.validated = true)
    (hle : pre.length < f.params.length)
    (hok : ∀ j (hj : j < pre.length) (hp : j < f.params.length),
        ∃ v, validateParam ext f.params[j] pre[j] = .ok v ∧ ∀ d, pre[j] ≠ .one (.sc (.xErr d))) :
    wrapper ext f body ret (pre ++ .one (.sc (.xErr c)) :: post) = .ok (.err c) := by
  unfold wrapper
  rw [if_pos hv, validateAll_first_error ext f.params pre post c (Nat.le_of_lt hle) hok hle]

/-- an error element of a list/range argument of Number/Text/Anything items: the leftmost is returned -/
theorem tuple_error_wins (ext : Ext) (t : XlT) (xs : List Item) (c : Code)
    (h : firstErrItem (flattenItems xs) = some c) : validateTuple ext t xs = .xl c := by
  simp [validateTuple, h]

theorem tuple_no_error_ok (ext : Ext) (t : XlT) (xs : List Item)
    (h : firstErrItem (flattenItems xs) = none) : ∃ l, validateTuple ext t xs = .ok l := by
  simp [validateTuple, h]

/-! ### obligations on the regenerated registry (`Gen.Registry.registry`) -/

def names (l : List String) : List (List Char) := l.map String.toList

/-- functions that deliberately inspect errors or take no argument -/
def unwrappedAllowed : List (List Char) :=
  names ["ISERR", "ISERROR", "ISNA", "NOW", "OP_EQ", "OP_NE", "PI", "TODAY"]

/-- every registered function carries the `validate_args` wrapper, except the error-inspecting
    IS-functions, `=`/`<>` (which return an error operand in their body) and argument-less ones -/
theorem all_wrapped :
    registry.all (fun f => f.validated || unwrappedAllowed.contains f.name) = true := by decide +kernel

/-- the aggregating functions' list parameters have an item type whose errors are raised -/
def aggregates : List (List Char) :=
  names ["SUM", "AVERAGE", "MIN", "MAX", "CONCAT", "CONCATENATE", "NPV"]

def raisingTuple : Annot → Bool
  | .tuple .xlNumber => true | .tuple .xlText => true | .tuple .xlAnything => true | _ => false

theorem aggregates_raise_errors :
    aggregates.all (fun n => match findFunc n with
      | some f => f.validated && f.params.any (fun p => p.variadic && raisingTuple p.annot)
      | none => false) = true := by decide +kernel

/-- the operator functions the evaluator dispatches to exist and are wrapped (or handle errors in
    their body: OP_EQ / OP_NE) -/
theorem operator_functions_present :
    (names ["OP_ADD", "OP_SUB", "OP_MUL", "OP_DIV", "OP_GT", "OP_LT", "OP_GE", "OP_LE", "OP_NEG",
            "OP_PERCENT", "POWER", "CONCAT"]).all
      (fun n => match findFunc n with | some f => f.validated | none => false) = true := by decide +kernel

/-! ### the IS-family, NA -/

theorem is_family (x : S) :
    (ISERROR x = true ↔ ∃ c, x = .err c) ∧
    (ISERR x = true ↔ ∃ c, x = .err c ∧ c ≠ .na) ∧
    (ISNA x = true ↔ x = .err .na) ∧ NA = .err .na := by
  cases x <;> simp [ISERROR, ISERR, ISNA, NA, isErr]
  rename_i c; cases c <;> simp

theorem type_tests_non_error (x : S) (h : isErr x = none) :
    (ISNUMBER x = .bool true ↔ ∃ n, x = .num n) ∧ (ISTEXT x = .bool true ↔ ∃ t, x = .text t) ∧
    (ISBLANK x = .bool true ↔ x = .blank ∨ x = .text []) ∧
    (∃ b, ISNUMBER x = .bool b) ∧ (∃ b, ISTEXT x = .bool b) ∧ (∃ b, ISBLANK x = .bool b) := by
  cases x <;> simp [ISNUMBER, ISTEXT, ISBLANK, isErr] at h ⊢
  rename_i t; cases t <;> simp

/-! ### non-vacuity -/
example : binop Ext.none .add (.num (.int 1)) (.err .na) = .val (.err .na) := by decide
example : binop Ext.none .div (.num (.int 1)) (.num (.int 0)) = .val (.err .div0) := by decide
example : binop Ext.none .add (.text "x".toList) (.num (.int 1)) = .val (.err .value) := by decide
example : binop Ext.none .eq .blank (.date 43831) = .val (.bool false) := by decide
example : (findFunc "SUM".toList).isSome = true := by decide +kernel

end XlVerif.Props.C07
