/-
  C08 — functions coerce arguments the Excel way, however the value is spelt.
  The body of a wrapped function only ever sees the *validated* value of each argument
  (`wrapper_sees_validated_only`), and validation maps every spelling of one value to the same typed
  scalar (`spelling_*`), so the result is the same for every spelling — for an arbitrary body, i.e.
  for all registered functions at once.
-/
import XlVerif.Model.C08
import XlVerif.Lemmas.C08Numeral
namespace XlVerif.Props.C08
open XlVerif XlVerif.Model.Value XlVerif.Model.Validate XlVerif.Model.C08 XlVerif.Gen

/-! ### the native-type table has the registrations the coercions rely on -/

theorem native_table_ok :
    lookup "builtins.int".toList nativeToXltype = some "Number".toList ∧
    lookup "builtins.float".toList nativeToXltype = some "Number".toList ∧
    lookup "numpy.int64".toList nativeToXltype = some "Number".toList ∧
    lookup "numpy.float64".toList nativeToXltype = some "Number".toList ∧
    lookup "builtins.str".toList nativeToXltype = some "Text".toList ∧
    lookup "builtins.bool".toList nativeToXltype = some "Boolean".toList ∧
    lookup "builtins.NoneType".toList nativeToXltype = some "Blank".toList ∧
    lookup "datetime.datetime".toList nativeToXltype = some "DateTime".toList := by decide +kernel

theorem boolean_texts_ok : booleanTexts = ["false".toList, "true".toList] := by decide

/-! ### every spelling of one value validates to the same typed scalar -/

/-- the integer `z` as int, numpy.int64 or Number object -/
theorem spelling_int (ext : Ext) (z : Int) :
    castScalar ext .number (.int z) = .ok (.num (.int z)) ∧
    castScalar ext .number (.npInt64 z) = .ok (.num (.int z)) ∧
    castScalar ext .number (.xNumber (.int z)) = .ok (.num (.int z)) := by
  refine ⟨?_, ?_, ?_⟩ <;> rfl

/-- the float `q` as float, numpy.float64 or Number object -/
theorem spelling_float (ext : Ext) (q : Rat) :
    castScalar ext .number (.float q) = .ok (.num (.flt q)) ∧
    castScalar ext .number (.npFloat64 q) = .ok (.num (.flt q)) ∧
    castScalar ext .number (.xNumber (.flt q)) = .ok (.num (.flt q)) := by
  refine ⟨?_, ?_, ?_⟩ <;> rfl

/-- TRUE = 1, FALSE = 0, whether native or Boolean object -/
theorem spelling_bool (ext : Ext) (b : Bool) :
    castScalar ext .number (.bool b) = .ok (.num (.int (if b then 1 else 0))) ∧
    castScalar ext .number (.xBoolean b) = .ok (.num (.int (if b then 1 else 0))) := by
  refine ⟨?_, ?_⟩ <;> rfl

/-- a blank (None or the BLANK object) is 0 -/
theorem spelling_blank (ext : Ext) :
    castScalar ext .number .none = .ok (.num (.flt 0)) ∧
    castScalar ext .number .xBlank = .ok (.num (.flt 0)) := by
  refine ⟨?_, ?_⟩ <;> rfl

/-- text (native str or Text object) is read by `textNumber` -/
theorem spelling_text (ext : Ext) (s : List Char) :
    castScalar ext .number (.str s) = castScalar ext .number (.xText s) := rfl

/-- **numeric text**: every well-formed decimal or scientific numeral, with optional sign, exponent and
    surrounding blanks, is coerced to the number it denotes (Lemmas/C08Numeral.lean) -/
theorem spelling_numeric_text (ext : Ext) (n : Spec.C08.Numeral) (h : n.wf)
    (hfin : -floatMax < n.value ∧ n.value < floatMax) :
    ∃ v : Num, castScalar ext .number (.str n.render) = .ok (.num v) ∧ v.toRat = n.value := by
  have key := Lemmas.C08Numeral.textNumber_render ext n h hfin
  have e : castScalar ext .number (.str n.render) =
      (match textNumber ext n.render with
       | .ok m => .ok (.num m) | .nonfinite => .ok (.text "<nonfinite>".toList)
       | .xl c => .xl c | .py k => .py k) := rfl
  rw [e, key]
  refine ⟨_, rfl, ?_⟩
  split
  · rename_i hc
    simp only [Num.toRat, Lemmas.C08Numeral.intValue, Spec.C08.Numeral.value, hc.2]
    have hfp : n.fp = [] := h.2.2.2.1 hc.1
    simp [hfp, Spec.C08.pow10]
    split <;> simp [Rat.intCast_mul, Rat.intCast_natCast] <;> rfl
  · rfl

/-- text that is not numeric gives #VALUE! -/
theorem non_numeric_text_is_VALUE (ext : Ext) (s : List Char)
    (h1 : pyIntOfText s = none) (h2 : pyFloatOfText s = none) (h3 : textBoolByContent s = none)
    (h4 : ext.dateParse s = none) :
    castScalar ext .number (.str s) = .xl .value ∧ castScalar ext .number (.xText s) = .xl .value := by
  have : textNumber ext s = .xl .value := by simp [textNumber, h1, h2, h3, h4]
  constructor <;> (show (match textNumber ext s with | .ok m => _ | .nonfinite => _ | .xl c => _ | .py k => _) = _; rw [this])

/-- text parameters accept numbers and booleans by their text form -/
theorem text_param_accepts (ext : Ext) (z : Int) (b : Bool) :
    castScalar ext .text (.int z) = .ok (.text (toString z).toList) ∧
    castScalar ext .text (.bool b) = .ok (.text (if b then "True".toList else "False".toList)) ∧
    castScalar ext .text .none = .ok (.text []) := by
  refine ⟨rfl, ?_, rfl⟩
  cases b <;> rfl

/-- The body of a wrapped function sees only validated values: two argument lists that validate
    alike give the same result, whatever the body. -/
theorem wrapper_sees_validated_only (ext : Ext) (f : Func) (body : List VArg → R S) (ret : S → R S)
    (a b : List PArg) (hv : f.validated = true)
    (h : validateAll ext f.params a = validateAll ext f.params b) :
    wrapper ext f body ret a = wrapper ext f body ret b := by
  simp [wrapper, hv, h]

/-- `validateAll` depends on the argument in position `i` only through its validation against the
    `i`-th parameter -/
theorem validateAll_at (ext : Ext) :
    ∀ (ps : List Param) (pre post : List PArg) (v w : Py),
      isErrPy v = none → isErrPy w = none →
      (∀ h : pre.length < ps.length,
          validateParam ext ps[pre.length] (.one (.sc v)) = validateParam ext ps[pre.length] (.one (.sc w))) →
      validateAll ext ps (pre ++ .one (.sc v) :: post) = validateAll ext ps (pre ++ .one (.sc w) :: post)
  | [], pre, post, v, w, _, _, _ => by cases pre <;> simp [validateAll]
  | p :: ps, [], post, v, w, hv, hw, h => by
    have e := h (by simp)
    simp only [List.length_nil, List.getElem_cons_zero] at e
    simp only [List.nil_append, validateAll, e]
    cases v <;> cases w <;> simp_all [isErrPy]
  | p :: ps, a :: pre, post, v, w, hv, hw, h => by
    have ih := validateAll_at ext ps pre post v w hv hw (fun hlt => by
      have := h (by simpa using hlt)
      simpa using this)
    simp only [List.cons_append, validateAll, ih]

/-- **Spelling invariance for every function and position**: if two (non-error) spellings of an
    argument cast alike for every scalar alias and the parameter in that position is declared with a
    scalar alias (XlNumber, XlText, XlBoolean, XlAnything), any wrapped function returns the same
    result for both spellings — whatever its body. -/
theorem spelling_invariant (ext : Ext) (f : Func) (body : List VArg → R S) (ret : S → R S)
    (pre post : List PArg) (v w : Py) (hv : f.validated = true)
    (h : ∀ t, castScalar ext t v = castScalar ext t w)
    (hv' : isErrPy v = none) (hw' : isErrPy w = none)
    (hp : ∀ hlt : pre.length < f.params.length, annotScalar? f.params[pre.length].annot ≠ none) :
    wrapper ext f body ret (pre ++ .one (.sc v) :: post) =
      wrapper ext f body ret (pre ++ .one (.sc w) :: post) := by
  apply wrapper_sees_validated_only ext f body ret _ _ hv
  apply validateAll_at ext f.params pre post v w hv' hw'
  intro hlt
  obtain ⟨t, ht⟩ := Option.ne_none_iff_exists'.mp (hp hlt)
  simp [validateParam, ht, h t]

/-! ### arithmetic coerces numeric text, booleans and blanks; & converts both operands to text -/

theorem arith_coerces (ext : Ext) (l r : S) (a b : Num)
    (hl : toNumber ext l = .ok a) (hr : toNumber ext r = .ok b)
    (el : isErr l = none) (er : isErr r = none) :
    binop ext .add l r = .val (.num (Num.add a b)) ∧
    binop ext .sub l r = .val (.num (Num.sub a b)) ∧
    binop ext .mul l r = .val (.num (Num.mul a b)) := by
  simp [binop, firstErr, el, er, arith, hl, hr, OpR.ofNum]

theorem coercion_values (ext : Ext) :
    toNumber ext (.bool true) = .ok (.int 1) ∧ toNumber ext (.bool false) = .ok (.int 0) ∧
    toNumber ext .blank = .ok (.flt 0) ∧ ∀ s, toNumber ext (.text s) = textNumber ext s :=
  ⟨rfl, rfl, rfl, fun _ => rfl⟩

theorem concat_textifies (ext : Ext) (l r : S) (el : isErr l = none) (er : isErr r = none) :
    concat ext l r = .val (.text (toStr ext l ++ toStr ext r)) := by
  simp [concat, firstErr, el, er]

/-! ### function names: case-insensitive, `_xlfn.` ignored -/

def isUpperName (s : List Char) : Bool := s.all fun c => upper c == c

/-- every key of the registry is upper-case and free of the `_XLFN.` marker, so the resolved (upper-cased)
    name finds it -/
theorem registry_names_upper : registry.all (fun f => isUpperName f.name) = true := by decide +kernel

theorem toNat_ofNat_small (n : Nat) (h : n < 55296) : (Char.ofNat n).toNat = n := by
  unfold Char.ofNat
  have : n.isValidChar := Or.inl h
  simp [this, Char.ofNatAux, Char.toNat]

theorem upper_idem (c : Char) : upper (upper c) = upper c := by
  unfold upper
  by_cases h : 'a' ≤ c ∧ c ≤ 'z'
  · simp only [h, and_self, if_true]
    have h1 : 97 ≤ c.toNat ∧ c.toNat ≤ 122 := by
      obtain ⟨ha, hz⟩ := h
      have ha' : ('a').toNat ≤ c.toNat := ha
      have hz' : c.toNat ≤ ('z').toNat := hz
      exact ⟨ha', hz'⟩
    have hv : (Char.ofNat (c.toNat - 32)).toNat = c.toNat - 32 := toNat_ofNat_small _ (by omega)
    have hn : ¬ ('a' ≤ Char.ofNat (c.toNat - 32) ∧ Char.ofNat (c.toNat - 32) ≤ 'z') := by
      intro ⟨h2, _⟩
      have h2' : ('a').toNat ≤ (Char.ofNat (c.toNat - 32)).toNat := h2
      rw [hv] at h2'
      have : ('a').toNat = 97 := rfl
      omega
    simp [hn]
  · simp [h]

theorem resolve_case_insensitive (s : List Char) :
    resolveName (s.map upper) = resolveName s := by
  unfold resolveName
  rw [List.map_map]
  congr 1
  apply List.map_congr_left
  intro c _
  exact upper_idem c

theorem removeAllAux_skip (pat : List Char) : ∀ (l t : List Char),
    removeAllAux pat l.length (l ++ t) = removeAllAux pat 0 t
  | [], t => by cases t <;> rfl
  | _ :: l, t => by simpa [removeAllAux] using removeAllAux_skip pat l t

theorem removeAll_prefix (pat t : List Char) (h : pat ≠ []) : removeAll pat (pat ++ t) = removeAll pat t := by
  cases pat with
  | nil => exact absurd rfl h
  | cons c p =>
    have hp : (c :: p).isPrefixOf (c :: (p ++ t)) = true := by
      have : (c :: p).isPrefixOf ((c :: p) ++ t) = true := by simp
      simpa using this
    simp only [removeAll, List.cons_append, removeAllAux, ne_eq, reduceCtorEq, not_false_eq_true, hp,
      and_self, if_true, List.length_cons, Nat.add_sub_cancel]
    exact removeAllAux_skip (c :: p) p t

/-- an `_xlfn.` prefix (in any case) is ignored -/
theorem xlfn_prefix_ignored (s : List Char) :
    resolveName ("_xlfn.".toList ++ s) = resolveName s ∧ resolveName ("_XLFN.".toList ++ s) = resolveName s := by
  constructor <;>
  · unfold resolveName
    rw [List.map_append]
    exact removeAll_prefix xlfnPrefix _ (by decide)

/-! ### registration: visible to evaluators created afterwards, earlier evaluators unchanged -/

theorem nsLookup_set (ns : Namespace) (k : List Char) (v : Nat) : nsLookup (nsSet ns k v) k = some v := by
  induction ns with
  | nil => simp [nsSet, nsLookup]
  | cons kv rest ih =>
    obtain ⟨k', v'⟩ := kv
    by_cases h : k = k' <;> simp [nsSet, nsLookup, h, ih]

theorem nsLookup_set_other (ns : Namespace) (k k' : List Char) (v : Nat) (h : k' ≠ k) :
    nsLookup (nsSet ns k v) k' = nsLookup ns k' := by
  induction ns with
  | nil => simp [nsSet, nsLookup, h]
  | cons kv rest ih =>
    obtain ⟨k2, v2⟩ := kv
    by_cases h2 : k = k2
    · subst h2; simp [nsSet, nsLookup, h]
    · by_cases h3 : k' = k2 <;> simp [nsSet, nsLookup, h2, h3, ih]

/-- a function registered before an evaluator is created is in that evaluator's namespace -/
theorem register_visible (s : RegState) (n : List Char) (f : Nat) :
    let s' := (s.step (.register n f)).step .newEvaluator
    ∃ ns, s'.evaluators.getLast? = some ns ∧ nsLookup ns n = some f := by
  simp [RegState.step, nsLookup_set]

/-- evaluators created earlier are not affected by later registrations or evaluator creations -/
theorem earlier_evaluators_unchanged (s : RegState) (ops : List RegOp) :
    ∀ i (h : i < s.evaluators.length),
      (ops.foldl RegState.step s).evaluators[i]? = some s.evaluators[i] := by
  induction ops generalizing s with
  | nil => intro i h; simp
  | cons op ops ih =>
    intro i h
    cases op with
    | register n f => simpa [RegState.step] using ih { s with global := nsSet s.global n f } i h
    | newEvaluator =>
      have := ih { s with evaluators := s.evaluators ++ [s.global] } i (by simp; omega)
      simpa [RegState.step, List.getElem_append_left h] using this

/-! ### no numeric parameter is annotated with a bare class -/

def bareClass : Annot → Bool
  | .cls _ => true | .tuple (.cls _) => true | _ => false

theorem all_params_coercing :
    registry.all (fun f => f.params.all fun p => !bareClass p.annot) = true := by decide +kernel

/-! ### non-vacuity -/
example : binop Ext.none .add (.text "3".toList) (.num (.int 1)) = .val (.num (.int 4)) := by decide
example : binop Ext.none .add (.bool true) (.num (.int 1)) = .val (.num (.int 2)) := by decide
example : binop Ext.none .add .blank (.num (.int 1)) = .val (.num (.flt 1)) := by decide +kernel
example : castScalar Ext.none .number (.str " 2.5e1 ".toList) = .ok (.num (.flt 25)) := by decide +kernel
example : castScalar Ext.none .number (.str "3 apples".toList) = .xl .value := by decide +kernel
example : resolveName "_xlfn.StDev.S".toList = "STDEV.S".toList := by decide

end XlVerif.Props.C08
