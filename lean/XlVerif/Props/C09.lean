/-
  C09 — the comparison operators implement one total order on values.
  Theorems are about `Model.Value.binop` (the mirror of operator.py + func_xltypes.py's sort keys)
  and hold for all scalar values and any `Ext`.
-/
import XlVerif.Model.Value
import XlVerif.Spec.C09
import XlVerif.Gen.TypeTables
namespace XlVerif.Props.C09
open XlVerif XlVerif.Model.Value XlVerif.Spec.C09

/-! ### the generated tables have the shape the order needs -/

/-- `sort_precedence`: Number = DateTime = Blank = 0 < Text = 1 < Boolean = 2 -/
theorem sort_precedence_table :
    Gen.sortPrecedence = [("Number".toList, 0), ("Text".toList, 1), ("Boolean".toList, 2),
                          ("DateTime".toList, 0), ("Blank".toList, 0)] := by decide

theorem upper_eq (c : Char) : upper c = upperAscii c := rfl

/-! ### closed form of the six operators on non-blank scalars -/

/-- the sort key as a function of the order class -/
def keyOf : Cls → Nat × Key
  | .number q => (0, .n q)
  | .text u => (1, .t u)
  | .logical b => (2, .n (if b then 1 else 0))

theorem sortKey_of_cls {a b : S} {x : Cls} (h : cls a = some x) : sortKey a b = some (keyOf x) := by
  cases a <;> simp [cls] at h <;> subst h <;> simp [sortKey, sortKeyNB, keyOf, upper_eq]

theorem keyLt_keyOf (x y : Cls) : keyLt (keyOf x) (keyOf y) = some (Cls.ltb x y) := by
  cases x <;> cases y <;> simp [keyOf, keyLt, Key.lt, Cls.ltb]
  rename_i a b; cases a <;> cases b <;> simp <;> grind

theorem keyEq_keyOf (x y : Cls) : keyEq (keyOf x) (keyOf y) = decide (x = y) := by
  cases x <;> cases y <;> simp [keyOf, keyEq, Key.eq]
  rename_i a b; cases a <;> cases b <;> simp <;> grind

theorem firstErr_none {a b : S} {x y : Cls} (ha : cls a = some x) (hb : cls b = some y) :
    firstErr a b = none ∧ isBlank a = false ∧ isBlank b = false := by
  cases a <;> cases b <;> simp [cls] at ha hb <;> simp [firstErr, isErr, isBlank]

/-- **Refinement.** On non-blank scalars every comparison operator is the Spec order. -/
theorem cmp_refines (ext : Ext) {a b : S} {x y : Cls} (ha : cls a = some x) (hb : cls b = some y) :
    binop ext .lt a b = .val (.bool (Cls.ltb x y)) ∧
    binop ext .gt a b = .val (.bool (Cls.ltb y x)) ∧
    binop ext .eq a b = .val (.bool (decide (x = y))) ∧
    binop ext .ne a b = .val (.bool (!decide (x = y))) ∧
    binop ext .le a b = .val (.bool (Cls.ltb x y || decide (x = y))) ∧
    binop ext .ge a b = .val (.bool (Cls.ltb y x || decide (x = y))) := by
  obtain ⟨h1, h2, h3⟩ := firstErr_none ha hb
  have k1 : keyEq (keyOf y) (keyOf x) = decide (x = y) := by
    rw [keyEq_keyOf]; by_cases h : x = y <;> simp [h, eq_comm]
  simp only [binop, h1, h2, h3, richCmp, sortKey_of_cls ha, sortKey_of_cls hb, keyLt_keyOf,
    keyEq_keyOf, Bool.or_self, Bool.false_eq_true, if_false]
  refine ⟨trivial, trivial, trivial, trivial, ?_, ?_⟩
  · by_cases h : x = y <;> simp [h]
  · by_cases h : x = y <;> simp [h]

/-! ### the Spec order is a strict total order (for every value, every length of text) -/

theorem list_trichotomy (a b : List Char) : a < b ∨ a = b ∨ b < a := by
  rcases Decidable.em (a < b) with h | h
  · exact Or.inl h
  · have h1 : b ≤ a := List.not_lt.mp h
    rcases Decidable.em (b < a) with h2 | h2
    · exact Or.inr (Or.inr h2)
    · exact Or.inr (Or.inl (List.le_antisymm (List.not_lt.mp h2) h1))

theorem lt_irrefl (x : Cls) : ¬ Cls.lt x x := by
  cases x <;> simp [Cls.lt, Cls.ltb]

theorem lt_asymm {x y : Cls} : Cls.lt x y → ¬ Cls.lt y x := by
  cases x <;> cases y <;> simp [Cls.lt, Cls.ltb]
  · intro h; grind
  · exact List.lt_asymm
  · intro h1 h2 h3; simp [h2] at h3

theorem lt_trans {x y z : Cls} : Cls.lt x y → Cls.lt y z → Cls.lt x z := by
  cases x <;> cases y <;> cases z <;> simp [Cls.lt, Cls.ltb]
  · intro h1 h2; grind
  · exact List.lt_trans
  · intro h1 h2 h3; simp [h2] at h3

theorem lt_trichotomous (x y : Cls) : Cls.lt x y ∨ x = y ∨ Cls.lt y x := by
  cases x <;> cases y <;> simp [Cls.lt, Cls.ltb]
  · grind
  · exact list_trichotomy _ _
  · rename_i a b; cases a <;> cases b <;> simp

/-! ### C09 for the implementation model -/

def isTrue (r : OpR) : Prop := r = .val (.bool true)

/-- the six results are booleans: comparisons of non-blank scalars never crash -/
theorem cmp_total (ext : Ext) {a b : S} {x y : Cls} (ha : cls a = some x) (hb : cls b = some y)
    (op : BinOp) (hop : op = .lt ∨ op = .gt ∨ op = .eq ∨ op = .ne ∨ op = .le ∨ op = .ge) :
    ∃ v, binop ext op a b = .val (.bool v) := by
  obtain ⟨h1, h2, h3, h4, h5, h6⟩ := cmp_refines ext ha hb
  rcases hop with h | h | h | h | h | h <;> subst h <;> exact ⟨_, by assumption⟩

/-- exactly one of `a<b`, `a=b`, `a>b` is TRUE -/
theorem trichotomy (ext : Ext) {a b : S} {x y : Cls} (ha : cls a = some x) (hb : cls b = some y) :
    (isTrue (binop ext .lt a b) ∧ ¬ isTrue (binop ext .eq a b) ∧ ¬ isTrue (binop ext .gt a b)) ∨
    (¬ isTrue (binop ext .lt a b) ∧ isTrue (binop ext .eq a b) ∧ ¬ isTrue (binop ext .gt a b)) ∨
    (¬ isTrue (binop ext .lt a b) ∧ ¬ isTrue (binop ext .eq a b) ∧ isTrue (binop ext .gt a b)) := by
  obtain ⟨h1, h2, h3, _, _, _⟩ := cmp_refines ext ha hb
  simp only [isTrue, h1, h2, h3, OpR.val.injEq, S.bool.injEq, decide_eq_true_eq]
  rcases lt_trichotomous x y with h | h | h
  · exact Or.inl ⟨h, fun e => lt_irrefl x (e ▸ h), lt_asymm h⟩
  · subst h; exact Or.inr (Or.inl ⟨lt_irrefl x, rfl, lt_irrefl x⟩)
  · exact Or.inr (Or.inr ⟨lt_asymm h, fun e => lt_irrefl x (e ▸ h), h⟩)

/-- `a<=b` = (`a<b` or `a=b`), `a>=b` = (`a>b` or `a=b`), `a<>b` = not(`a=b`), `a<b` = `b>a` -/
theorem derived_ops (ext : Ext) {a b : S} {x y : Cls} (ha : cls a = some x) (hb : cls b = some y) :
    (isTrue (binop ext .le a b) ↔ isTrue (binop ext .lt a b) ∨ isTrue (binop ext .eq a b)) ∧
    (isTrue (binop ext .ge a b) ↔ isTrue (binop ext .gt a b) ∨ isTrue (binop ext .eq a b)) ∧
    (isTrue (binop ext .ne a b) ↔ ¬ isTrue (binop ext .eq a b)) ∧
    (binop ext .lt a b = binop ext .gt b a) := by
  obtain ⟨h1, h2, h3, h4, h5, h6⟩ := cmp_refines ext ha hb
  obtain ⟨_, g2, _, _, _, _⟩ := cmp_refines ext hb ha
  simp only [isTrue, h1, h2, h3, h4, h5, h6, g2, OpR.val.injEq, S.bool.injEq, decide_eq_true_eq,
    Bool.or_eq_true, Bool.not_eq_true', decide_eq_false_iff_not, and_true]

/-- `<` is transitive -/
theorem lt_transitive (ext : Ext) {a b c : S} {x y z : Cls}
    (ha : cls a = some x) (hb : cls b = some y) (hc : cls c = some z) :
    isTrue (binop ext .lt a b) → isTrue (binop ext .lt b c) → isTrue (binop ext .lt a c) := by
  have h1 := (cmp_refines ext ha hb).1
  have h2 := (cmp_refines ext hb hc).1
  have h3 := (cmp_refines ext ha hc).1
  simp only [isTrue, h1, h2, h3, OpR.val.injEq, S.bool.injEq, decide_eq_true_eq]
  exact lt_trans

/-! ### `=` is an equivalence compatible with `<`; `<=` is a total preorder whose symmetric part is `=` -/

/-- `=` is reflexive, symmetric and transitive on non-blank scalars -/
theorem eq_equivalence (ext : Ext) {a b c : S} {x y z : Cls}
    (ha : cls a = some x) (hb : cls b = some y) (hc : cls c = some z) :
    isTrue (binop ext .eq a a) ∧
    (isTrue (binop ext .eq a b) → isTrue (binop ext .eq b a)) ∧
    (isTrue (binop ext .eq a b) → isTrue (binop ext .eq b c) → isTrue (binop ext .eq a c)) := by
  have h0 := (cmp_refines ext ha ha).2.2.1
  have h1 := (cmp_refines ext ha hb).2.2.1
  have h2 := (cmp_refines ext hb ha).2.2.1
  have h3 := (cmp_refines ext hb hc).2.2.1
  have h4 := (cmp_refines ext ha hc).2.2.1
  simp only [isTrue, h0, h1, h2, h3, h4, OpR.val.injEq, S.bool.injEq, decide_eq_true_eq]
  exact ⟨trivial, fun h => h.symm, fun h g => h.trans g⟩

/-- values that compare equal are indistinguishable by `<` and `>` against any third value -/
theorem eq_congruence (ext : Ext) {a b c : S} {x y z : Cls}
    (ha : cls a = some x) (hb : cls b = some y) (hc : cls c = some z)
    (he : isTrue (binop ext .eq a b)) :
    binop ext .lt a c = binop ext .lt b c ∧ binop ext .lt c a = binop ext .lt c b ∧
    binop ext .eq a c = binop ext .eq b c := by
  have h1 := (cmp_refines ext ha hb).2.2.1
  simp only [isTrue, h1, OpR.val.injEq, S.bool.injEq, decide_eq_true_eq] at he
  subst he
  rw [(cmp_refines ext ha hc).1, (cmp_refines ext hb hc).1, (cmp_refines ext hc ha).1,
    (cmp_refines ext hc hb).1, (cmp_refines ext ha hc).2.2.1, (cmp_refines ext hb hc).2.2.1]
  exact ⟨rfl, rfl, rfl⟩

/-- `<=` is total, transitive, and `a<=b ∧ b<=a` is exactly `a=b` -/
theorem le_total_preorder (ext : Ext) {a b c : S} {x y z : Cls}
    (ha : cls a = some x) (hb : cls b = some y) (hc : cls c = some z) :
    (isTrue (binop ext .le a b) ∨ isTrue (binop ext .le b a)) ∧
    (isTrue (binop ext .le a b) → isTrue (binop ext .le b c) → isTrue (binop ext .le a c)) ∧
    (isTrue (binop ext .le a b) ∧ isTrue (binop ext .le b a) ↔ isTrue (binop ext .eq a b)) := by
  have h1 := (cmp_refines ext ha hb).2.2.2.2.1
  have h2 := (cmp_refines ext hb ha).2.2.2.2.1
  have h3 := (cmp_refines ext hb hc).2.2.2.2.1
  have h4 := (cmp_refines ext ha hc).2.2.2.2.1
  have h5 := (cmp_refines ext ha hb).2.2.1
  simp only [isTrue, h1, h2, h3, h4, h5, OpR.val.injEq, S.bool.injEq, decide_eq_true_eq,
    Bool.or_eq_true]
  have L : ∀ {p q : Cls}, Cls.ltb p q = true ↔ Cls.lt p q := fun {p q} => Iff.rfl
  refine ⟨?_, ?_, ?_⟩
  · rcases lt_trichotomous x y with h | h | h
    · exact Or.inl (Or.inl h)
    · exact Or.inl (Or.inr h)
    · exact Or.inr (Or.inl h)
  · rintro (h | h) (g | g)
    · exact Or.inl (lt_trans h g)
    · subst g; exact Or.inl h
    · subst h; exact Or.inl g
    · exact Or.inr (h.trans g)
  · constructor
    · rintro ⟨h | h, g | g⟩
      · exact absurd g (lt_asymm h)
      · exact g.symm
      · exact h
      · exact h
    · intro h; exact ⟨Or.inr h, Or.inr h.symm⟩

/-- `>=` is the negation of `<`, `<=` the negation of `>` -/
theorem ge_iff_not_lt (ext : Ext) {a b : S} {x y : Cls} (ha : cls a = some x) (hb : cls b = some y) :
    (isTrue (binop ext .ge a b) ↔ ¬ isTrue (binop ext .lt a b)) ∧
    (isTrue (binop ext .le a b) ↔ ¬ isTrue (binop ext .gt a b)) := by
  obtain ⟨h1, h2, _, _, h5, h6⟩ := cmp_refines ext ha hb
  simp only [isTrue, h1, h2, h5, h6, OpR.val.injEq, S.bool.injEq, decide_eq_true_eq, Bool.or_eq_true]
  rcases lt_trichotomous x y with h | h | h
  · have := lt_asymm h
    exact ⟨⟨fun g => g.elim (fun g => absurd g this) (fun g => absurd (g ▸ h) (lt_irrefl _)), fun g => absurd h g⟩,
           ⟨fun _ => this, fun _ => Or.inl h⟩⟩
  · subst h; exact ⟨⟨fun _ => lt_irrefl x, fun _ => Or.inr rfl⟩, ⟨fun _ => lt_irrefl x, fun _ => Or.inr rfl⟩⟩
  · have := lt_asymm h
    exact ⟨⟨fun _ => this, fun _ => Or.inl h⟩,
           ⟨fun g => g.elim (fun g => absurd g this) (fun g => absurd (g ▸ h) (lt_irrefl _)), fun g => absurd h g⟩⟩

/-- numbers (dates as serials) order numerically; texts order case-insensitively; every number is
    below every text, every text below FALSE, FALSE below TRUE -/
theorem order_classes (ext : Ext) (p q : Num) (d : Rat) (s t : List Char) :
    (isTrue (binop ext .lt (.num p) (.num q)) ↔ p.toRat < q.toRat) ∧
    (isTrue (binop ext .lt (.date d) (.num q)) ↔ d < q.toRat) ∧
    (isTrue (binop ext .eq (.date d) (.num q)) ↔ d = q.toRat) ∧
    (isTrue (binop ext .lt (.text s) (.text t)) ↔ s.map upperAscii < t.map upperAscii) ∧
    (isTrue (binop ext .eq (.text s) (.text t)) ↔ s.map upperAscii = t.map upperAscii) ∧
    isTrue (binop ext .lt (.num p) (.text t)) ∧ isTrue (binop ext .lt (.date d) (.text t)) ∧
    isTrue (binop ext .lt (.text t) (.bool false)) ∧ isTrue (binop ext .lt (.text t) (.bool true)) ∧
    isTrue (binop ext .lt (.num p) (.bool false)) ∧
    isTrue (binop ext .lt (.bool false) (.bool true)) := by
  refine ⟨?_, ?_, ?_, ?_, ?_, ?_, ?_, ?_, ?_, ?_, ?_⟩
  all_goals
    first
    | (rw [isTrue, (cmp_refines ext (a := _) (b := _) rfl rfl).1]; simp [Cls.ltb])
    | (rw [isTrue, (cmp_refines ext (a := _) (b := _) rfl rfl).2.2.1]; simp)

/-- a blank is equal to 0, to the empty text and to FALSE (in both operand orders), two blanks are
    equal, and a blank is not equal to anything else of those types -/
theorem blank_equalities (ext : Ext) (b : S) (hb : b = .blank ∨ (∃ n, b = .num n) ∨ (∃ s, b = .text s) ∨ (∃ v, b = .bool v)) :
    binop ext .eq .blank b = .val (.bool (blankEquals b)) ∧
    binop ext .eq b .blank = .val (.bool (blankEquals b)) ∧
    binop ext .ne .blank b = .val (.bool (!blankEquals b)) := by
  rcases hb with h | ⟨n, h⟩ | ⟨s, h⟩ | ⟨v, h⟩ <;> subst h
  · simp [binop, firstErr, isErr, richCmp, sortKey, keyEq, Key.eq, blankEquals]
  · simp [binop, firstErr, isErr, richCmp, sortKey, sortKeyNB, blankOf, keyEq, Key.eq, blankEquals, Num.toRat]
    constructor <;> (congr 1; simp [eq_comm])
  · simp [binop, firstErr, isErr, richCmp, sortKey, sortKeyNB, blankOf, keyEq, Key.eq, blankEquals]
    cases s <;> simp
  · cases v <;> simp [binop, firstErr, isErr, richCmp, sortKey, sortKeyNB, blankOf, keyEq, Key.eq, blankEquals]

/-! ### non-vacuity -/
example : cls (.num (.int 3)) = some (.number 3) := by simp [cls, Num.toRat]
example : binop Ext.none .lt (.text "1".toList) (.num (.int 5)) = .val (.bool false) := by decide
example : binop Ext.none .gt (.num (.int 5)) (.text "1".toList) = .val (.bool false) := by decide
example : binop Ext.none .eq (.text "true".toList) (.bool true) = .val (.bool false) := by decide
example : binop Ext.none .eq (.text "Abc".toList) (.text "aBC".toList) = .val (.bool true) := by decide
example : binop Ext.none .eq .blank .blank = .val (.bool true) := by decide

end XlVerif.Props.C09
