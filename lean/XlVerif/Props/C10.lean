/-
  C10 — IF / AND / OR / NOT select lazily and follow Excel's truth rules.

  The theorems are about the bodies of logical.py on thunks (`Model.C10`): `c`, `a`, `b`, the argument lists
  and the state `s` are ARBITRARY — a thunk may return a value, raise, run out of recursion budget or close a
  cycle; nothing is assumed about it.  "Lazy" is therefore stated in the strongest form: the result (value,
  final state, trace) does not depend on the unselected thunk AT ALL.  The embedding theorems tie the bodies
  to the shared evaluator model (`Fx.iff`, `Fx.sc`), where the state is the evaluation context with its trace.
-/
import XlVerif.Lemmas.C10
import XlVerif.Lemmas.C06
import XlVerif.Props.C06
namespace XlVerif.Props.C10
open XlVerif XlVerif.Model.Evaluator XlVerif.Model.Value XlVerif.Model.C10 XlVerif.Lemmas.C10
open XlVerif.Spec.C10 (Truth truth truthV)

variable {τ : Type}

/-! ### IF -/

/-- **if_selects.** With the condition evaluating to `v` (in state `s1`):
    TRUE / a non-zero number ↦ the then-thunk is run from `s1`; FALSE / zero / blank ↦ the else-thunk;
    an error ↦ the error itself, no branch is run. -/
theorem if_selects (c a b : XExpr τ) (s s1 : τ) (v : V) (hc : c s = (s1, .val v)) :
    (truthV v = .yes → IF_ truthOf c a b s = a s1) ∧
    (truthV v = .no → IF_ truthOf c a b s = b s1) ∧
    (∀ e, truthV v = .error e → IF_ truthOf c a b s = (s1, .val v)) := by
  have h := truthOf_spec v
  refine ⟨fun ht => ?_, fun ht => ?_, fun e ht => ?_⟩ <;> rw [ht] at h
  · simp [IF_, hc, h]
  · simp [IF_, hc, h]
  · obtain ⟨rfl, h2⟩ := h
    simp [IF_, hc, h2]

/-- omitted branches: `IF(c, a)` is FALSE and `IF(c)` is TRUE / FALSE (as coded) — D25 -/
theorem if_omitted (c a : XExpr τ) (s s1 : τ) (v : V) (hc : c s = (s1, .val v)) :
    (truthV v = .no → IF2_ truthOf c a s = (s1, .val (.s (.bool false)))) ∧
    (truthV v = .yes → IF2_ truthOf c a s = a s1) ∧
    (truthV v = .yes → IF1_ truthOf c s = (s1, .val (.s (.bool true)))) ∧
    (truthV v = .no → IF1_ truthOf c s = (s1, .val (.s (.bool false)))) := by
  have h := if_selects c a (constT (.s (.bool false))) s s1 v hc
  have h1 := if_selects c (constT (.s (.bool true))) (constT (.s (.bool false))) s s1 v hc
  exact ⟨fun ht => by rw [IF2_, h.2.1 ht]; rfl, fun ht => by rw [IF2_, h.1 ht],
    fun ht => by rw [IF1_, h1.1 ht]; rfl, fun ht => by rw [IF1_, h1.2.1 ht]; rfl⟩

/-- a failing condition is the result; no branch is run -/
theorem if_cond_fails (c a b : XExpr τ) (s s1 : τ) (k : ExcKind) (n : Nat) (hc : c s = (s1, .exc k n)) :
    IF_ truthOf c a b s = (s1, .exc k n) := by simp [IF_, hc]

/-- **if_lazy.** The unselected branch is irrelevant: replacing it by ANY other thunk — one that raises,
    diverges, closes a cycle, logs a spy call — changes neither the result nor the final state. -/
theorem if_lazy (c a b : XExpr τ) (s s1 : τ) (v : V) (hc : c s = (s1, .val v)) :
    (truthV v = .yes → ∀ b', IF_ truthOf c a b s = IF_ truthOf c a b' s) ∧
    (truthV v = .no → ∀ a', IF_ truthOf c a b s = IF_ truthOf c a' b s) ∧
    (∀ e, truthV v = .error e → ∀ a' b', IF_ truthOf c a b s = IF_ truthOf c a' b' s) := by
  refine ⟨fun ht b' => ?_, fun ht a' => ?_, fun e ht a' b' => ?_⟩
  · rw [(if_selects c a b s s1 v hc).1 ht, (if_selects c a b' s s1 v hc).1 ht]
  · rw [(if_selects c a b s s1 v hc).2.1 ht, (if_selects c a' b s s1 v hc).2.1 ht]
  · rw [(if_selects c a b s s1 v hc).2.2 e ht, (if_selects c a' b' s s1 v hc).2.2 e ht]

/-- the model body refines the statement's IF wherever the statement is defined -/
theorem if_refines (c a b : XExpr τ) (s : τ)
    (hd : ∀ s', Spec.C10.IF (lift c) (lift a) (lift b) s ≠ (s', .undef)) :
    lift (IF_ truthOf c a b) s = Spec.C10.IF (lift c) (lift a) (lift b) s := by
  cases hc : c s with
  | mk s1 r =>
    cases r with
    | exc k n => simp [lift, Spec.C10.IF, IF_, hc, toOut]
    | val v =>
      have h := if_selects c a b s s1 v hc
      have hl : lift c s = (s1, .val v) := by simp [lift, hc, toOut]
      cases ht : truthV v with
      | yes =>
        have e1 : lift (IF_ truthOf c a b) s = lift a s1 := by simp only [lift, h.1 ht]
        have e2 : Spec.C10.IF (lift c) (lift a) (lift b) s = lift a s1 := by simp only [Spec.C10.IF, hl, ht]
        rw [e1, e2]
      | no =>
        have e1 : lift (IF_ truthOf c a b) s = lift b s1 := by simp only [lift, h.2.1 ht]
        have e2 : Spec.C10.IF (lift c) (lift a) (lift b) s = lift b s1 := by simp only [Spec.C10.IF, hl, ht]
        rw [e1, e2]
      | error e =>
        have e1 : lift (IF_ truthOf c a b) s = (s1, .val v) := by simp only [lift, h.2.2 e ht, toOut]
        have e2 : Spec.C10.IF (lift c) (lift a) (lift b) s = (s1, .val v) := by simp only [Spec.C10.IF, hl, ht]
        rw [e1, e2]
      | undef => exact absurd (by simp only [Spec.C10.IF, hl, ht]) (hd s1)

/-! ### traces: `trace (IF c a b) = trace c ++ trace (selected)` -/

/-- what a thunk appends to the trace when run from `s` -/
def traceOf {σ : Type} (t : XExpr (Ctx σ)) (s : Ctx σ) : List Addr := (t s).1.trace.drop s.trace.length

/-- `t` run from `s` only appends to the trace (true of every thunk of the evaluator: `eval_extends`) -/
def ExtendsAt {σ : Type} (t : XExpr (Ctx σ)) (s : Ctx σ) : Prop := ∃ l, (t s).1.trace = s.trace ++ l

theorem trace_eq {σ : Type} {t : XExpr (Ctx σ)} {s : Ctx σ} (h : ExtendsAt t s) :
    (t s).1.trace = s.trace ++ traceOf t s := by
  obtain ⟨l, hl⟩ := h
  simp [traceOf, hl]

/-- **if_lazy (trace).** The trace of `IF(c, a, b)` is the trace of the condition followed by the trace of the
    selected branch; the unselected branch contributes nothing (it need not even be trace-extending). -/
theorem if_trace {σ : Type} (c a b : XExpr (Ctx σ)) (s s1 : Ctx σ) (v : V) (hc : c s = (s1, .val v))
    (hec : ExtendsAt c s) :
    (truthV v = .yes → ExtendsAt a s1 → traceOf (IF_ truthOf c a b) s = traceOf c s ++ traceOf a s1) ∧
    (truthV v = .no → ExtendsAt b s1 → traceOf (IF_ truthOf c a b) s = traceOf c s ++ traceOf b s1) ∧
    (∀ e, truthV v = .error e → traceOf (IF_ truthOf c a b) s = traceOf c s) := by
  have h := if_selects c a b s s1 v hc
  have h1 : s1.trace = s.trace ++ traceOf c s := by have := trace_eq hec; rwa [hc] at this
  refine ⟨fun ht hea => ?_, fun ht heb => ?_, fun e ht => ?_⟩
  · have h2 := trace_eq hea
    show ((IF_ truthOf c a b s).1.trace).drop s.trace.length = _
    rw [h.1 ht, h2, h1, List.append_assoc, List.drop_left]
  · have h2 := trace_eq heb
    show ((IF_ truthOf c a b s).1.trace).drop s.trace.length = _
    rw [h.2.1 ht, h2, h1, List.append_assoc, List.drop_left]
  · show ((IF_ truthOf c a b s).1.trace).drop s.trace.length = _
    rw [h.2.2 e ht]
    show s1.trace.drop s.trace.length = _
    rw [h1, List.drop_left]

/-! ### AND / OR -/

/-- all thunks of the list run in sequence from `s`, each to a value: the evaluated prefix -/
inductive Run : List (XExpr τ) → τ → List V → τ → Prop
  | nil (s : τ) : Run [] s [] s
  | cons {t : XExpr τ} {ts : List (XExpr τ)} {s s1 s2 : τ} {v : V} {vs : List V} :
      t s = (s1, .val v) → Run ts s1 vs s2 → Run (t :: ts) s (v :: vs) s2

/-- **and_or_spec (shape).** `AND`/`OR` run their argument thunks left to right and stop at the first argument
    that is not neutral: exactly one of
    (1) every argument was run, each neutral (all non-blank items TRUE for AND / FALSE for OR): the result is
        TRUE (AND) / FALSE (OR);
    (2) after a neutral prefix one argument contains an error or a deciding item: the result is that error /
        FALSE (AND) / TRUE (OR), the final state is the state after THAT argument — the remaining thunks
        (`post`) are never run, whatever they are;
    (3) after a neutral prefix one argument thunk fails: the failure is the result. -/
theorem and_or_shape (isAnd : Bool) (ts : List (XExpr τ)) (s : τ) :
    (∃ vs s', Run ts s vs s' ∧ (∀ v ∈ vs, stepOf isAnd v = .continue) ∧
        SC isAnd ts s = (s', .val (.s (.bool isAnd))))
    ∨ (∃ pre t post vs s1 s2 v, ts = pre ++ t :: post ∧ Run pre s vs s1 ∧ (∀ w ∈ vs, stepOf isAnd w = .continue) ∧
        t s1 = (s2, .val v) ∧
        ((∃ c, stepOf isAnd v = .error c ∧ SC isAnd ts s = (s2, .val (.s (.err c))))
         ∨ (stepOf isAnd v = .decided ∧ SC isAnd ts s = (s2, .val (.s (.bool (!isAnd)))))))
    ∨ (∃ pre t post vs s1 s2 k n, ts = pre ++ t :: post ∧ Run pre s vs s1 ∧ (∀ w ∈ vs, stepOf isAnd w = .continue) ∧
        t s1 = (s2, .exc k n) ∧ SC isAnd ts s = (s2, .exc k n)) := by
  induction ts generalizing s with
  | nil => exact .inl ⟨[], s, .nil s, by simp, rfl⟩
  | cons t rest ih =>
    cases ht : t s with
    | mk s1 r =>
      cases r with
      | exc k n =>
        exact .inr (.inr ⟨[], t, rest, [], s, s1, k, n, rfl, .nil s, by simp, ht, by simp [SC, ht]⟩)
      | val v =>
        cases hs : stepOf isAnd v with
        | error c =>
          exact .inr (.inl ⟨[], t, rest, [], s, s1, v, rfl, .nil s, by simp, ht,
            .inl ⟨c, hs, by simp [SC, ht, hs]⟩⟩)
        | decided =>
          exact .inr (.inl ⟨[], t, rest, [], s, s1, v, rfl, .nil s, by simp, ht,
            .inr ⟨hs, by simp [SC, ht, hs]⟩⟩)
        | «continue» =>
          have hSC : SC isAnd (t :: rest) s = SC isAnd rest s1 := by simp [SC, ht, hs]
          rcases ih s1 with ⟨vs, s', hr, hall, he⟩ | ⟨pre, t', post, vs, s2, s3, w, hts, hr, hall, ht', hres⟩ |
              ⟨pre, t', post, vs, s2, s3, k, n, hts, hr, hall, ht', hres⟩
          · refine .inl ⟨v :: vs, s', .cons ht hr, ?_, by rw [hSC, he]⟩
            intro x hx
            rcases List.mem_cons.mp hx with rfl | hx
            · exact hs
            · exact hall x hx
          · refine .inr (.inl ⟨t :: pre, t', post, v :: vs, s2, s3, w, by simp [hts], .cons ht hr, ?_, ht', ?_⟩)
            · intro x hx
              rcases List.mem_cons.mp hx with rfl | hx
              · exact hs
              · exact hall x hx
            · rw [hSC]; exact hres
          · refine .inr (.inr ⟨t :: pre, t', post, v :: vs, s2, s3, k, n, by simp [hts], .cons ht hr, ?_, ht', ?_⟩)
            · intro x hx
              rcases List.mem_cons.mp hx with rfl | hx
              · exact hs
              · exact hall x hx
            · rw [hSC]; exact hres

/-- **and_or short-circuit.** The thunks after the first non-neutral argument are irrelevant: they can be
    replaced by anything (thunks that raise, diverge, log spy calls) without changing result or state. -/
theorem and_or_lazy (isAnd : Bool) (pre : List (XExpr τ)) (t : XExpr τ) (post post' : List (XExpr τ)) (s s1 s2 : τ)
    (vs : List V) (r : Res) (hr : Run pre s vs s1) (hall : ∀ w ∈ vs, stepOf isAnd w = .continue)
    (ht : t s1 = (s2, r)) (hstop : ∀ v, r = .val v → stepOf isAnd v ≠ .continue) :
    SC isAnd (pre ++ t :: post) s = SC isAnd (pre ++ t :: post') s := by
  induction hr with
  | nil s =>
    cases r with
    | exc k n => simp [SC, ht]
    | val v =>
      have := hstop v rfl
      cases hs : stepOf isAnd v <;> simp_all [SC]
  | @cons t0 ts0 s0 s1' s2' v0 vs0 h _ ih =>
    have h0 := hall v0 (by simp)
    simp only [List.cons_append, SC, h, h0]
    exact ih (fun w hw => hall w (by simp [hw])) ht

/-- the items of ONE evaluated argument: an error anywhere among them is the verdict, whatever precedes it
    (D1001), and the first error in order is reported -/
theorem stepOf_error_iff (isAnd : Bool) (v : V) (c : Code) :
    stepOf isAnd v = .error c ↔ (flat v).findSome? Spec.C10.errOf = some c := by
  unfold stepOf
  rw [firstError_eq]
  cases h : (flat v).findSome? Spec.C10.errOf with
  | some c' => simp
  | none => simp only; split <;> simp

theorem stepOf_error_of_mem (isAnd : Bool) (v : V) (c : Code) (h : S.err c ∈ flat v) :
    ∃ c', stepOf isAnd v = .error c' := by
  cases hf : (flat v).findSome? Spec.C10.errOf with
  | some c' => exact ⟨c', (stepOf_error_iff isAnd v c').mpr hf⟩
  | none =>
    have := List.findSome?_eq_none_iff.mp hf _ h
    simp [Spec.C10.errOf] at this

/-- **and_or_error.** If an evaluated argument (one reached after a neutral prefix) contains an error item,
    the result of AND / OR is an error value — wherever the item stands inside that argument. -/
theorem and_or_error (isAnd : Bool) (pre : List (XExpr τ)) (t : XExpr τ) (post : List (XExpr τ)) (s s1 s2 : τ)
    (vs : List V) (v : V) (c : Code) (hr : Run pre s vs s1) (hall : ∀ w ∈ vs, stepOf isAnd w = .continue)
    (ht : t s1 = (s2, .val v)) (herr : S.err c ∈ flat v) :
    ∃ c', SC isAnd (pre ++ t :: post) s = (s2, .val (.s (.err c'))) := by
  obtain ⟨c', hc'⟩ := stepOf_error_of_mem isAnd v c herr
  refine ⟨c', ?_⟩
  induction hr with
  | nil s => simp [SC, ht, hc']
  | @cons t0 ts0 s0 s1' s2' v0 vs0 h _ ih =>
    have h0 := hall v0 (by simp)
    simp only [List.cons_append, SC, h, h0]
    exact ih (fun w hw => hall w (by simp [hw])) ht

/-- the second loop: some item decides iff a non-blank item has the deciding truth value -/
theorem decides_iff (isAnd : Bool) (xs : List S) :
    decides isAnd xs = true ↔ ∃ x ∈ xs, isBlankItem x = false ∧ truthy x ≠ isAnd := by
  induction xs with
  | nil => simp [decides]
  | cons x rest ih =>
    simp only [decides]
    by_cases hb : isBlankItem x = true
    · simp only [hb, if_true, ih, List.mem_cons]
      constructor
      · rintro ⟨y, hy, h⟩; exact ⟨y, .inr hy, h⟩
      · rintro ⟨y, hy | hy, h⟩
        · subst hy; simp [hb] at h
        · exact ⟨y, hy, h⟩
    · have hb' : isBlankItem x = false := by simpa using hb
      simp only [hb', Bool.false_eq_true, if_false]
      by_cases ht : truthy x = isAnd
      · simp only [ht, if_true, ih, List.mem_cons]
        constructor
        · rintro ⟨y, hy, h⟩; exact ⟨y, .inr hy, h⟩
        · rintro ⟨y, hy | hy, h⟩
          · subst hy; exact absurd ht h.2
          · exact ⟨y, hy, h⟩
      · simp only [ht, if_false, true_iff]
        exact ⟨x, by simp, hb', ht⟩

/-- **and_or_spec (value).** Read together with `and_or_shape`:
    an evaluated argument is NEUTRAL iff it has no error item and every non-blank item is TRUE (AND) / FALSE (OR);
    it DECIDES iff it has no error item and some non-blank item is FALSE (AND) / TRUE (OR).
    Hence AND = TRUE iff all arguments were run and every non-blank element is true (numbers: non-zero), AND = FALSE
    iff the last evaluated argument holds a false non-blank element — the conjunction of the truth values of the
    non-blank elements; dually for OR. -/
theorem and_or_spec (isAnd : Bool) (v : V) :
    (stepOf isAnd v = .continue ↔
      firstError (flat v) = none ∧ ∀ x ∈ flat v, isBlankItem x = false → truthy x = isAnd) ∧
    (stepOf isAnd v = .decided ↔
      firstError (flat v) = none ∧ ∃ x ∈ flat v, isBlankItem x = false ∧ truthy x ≠ isAnd) := by
  unfold stepOf
  cases hf : firstError (flat v) with
  | some c => simp
  | none =>
    simp only [true_and]
    have hd := decides_iff isAnd (flat v)
    by_cases h : decides isAnd (flat v) = true
    · obtain ⟨x, hx, hb, ht⟩ := hd.mp h
      have h1 : ¬ ∀ x ∈ flat v, isBlankItem x = false → truthy x = isAnd := fun hall => ht (hall x hx hb)
      have h2 : ∃ x ∈ flat v, isBlankItem x = false ∧ truthy x ≠ isAnd := ⟨x, hx, hb, ht⟩
      simp [h, h1, h2]
    · have h1 : ∀ x ∈ flat v, isBlankItem x = false → truthy x = isAnd := by
        intro x hx hb
        by_cases ht : truthy x = isAnd
        · exact ht
        · exact absurd (hd.mpr ⟨x, hx, hb, ht⟩) h
      have h2 : ¬ ∃ x ∈ flat v, isBlankItem x = false ∧ truthy x ≠ isAnd := fun hex => h (hd.mpr hex)
      simp [h, h2]
      exact h1

/-- the model body refines the statement's AND / OR wherever the statement is defined -/
theorem and_or_refines (isAnd : Bool) (ts : List (XExpr τ)) :
    ∀ s : τ, (∀ s', Spec.C10.andOr isAnd (ts.map lift) s ≠ (s', .undef)) →
      lift (SC isAnd ts) s = Spec.C10.andOr isAnd (ts.map lift) s := by
  induction ts with
  | nil => intro s _; rfl
  | cons t rest ih =>
    intro s hd
    cases ht : t s with
    | mk s1 r =>
      have hl : lift t s = (s1, toOut r) := by simp [lift, ht]
      cases r with
      | exc k n => simp [lift, SC, ht, Spec.C10.andOr, toOut]
      | val v =>
        have hsp := stepOf_spec isAnd v
        simp only [List.map_cons, Spec.C10.andOr, hl, toOut] at hd ⊢
        cases hv : Spec.C10.verdict isAnd (Spec.C10.elems v) with
        | error c => rw [hv] at hsp; simp [lift, SC, ht, hsp, toOut]
        | decided => rw [hv] at hsp; simp [lift, SC, ht, hsp, toOut]
        | «continue» =>
          rw [hv] at hsp hd
          have := ih s1 (by simpa using hd)
          simp only [lift, SC, ht, hsp] at this ⊢
          exact this
        | undef => rw [hv] at hd; exact absurd rfl (hd s1)

/-- **and_or_spec (value).** On error-free items in the statement's domain the verdict on the elements of the
    evaluated arguments is the conjunction / disjunction of the truth values of the non-blank elements:
    an argument is neutral iff ALL its non-blank elements are TRUE (AND) / FALSE (OR). -/
theorem verdict_junction (isAnd : Bool) (xs : List S) (he : xs.findSome? Spec.C10.errOf = none)
    (hd : ∀ x ∈ Spec.C10.nonBlank xs, truth x ≠ .undef) :
    (Spec.C10.verdict isAnd xs = .continue ↔ Spec.C10.junction isAnd xs = isAnd) ∧
    (Spec.C10.verdict isAnd xs = .decided ↔ Spec.C10.junction isAnd xs = !isAnd) := by
  have hu : (Spec.C10.nonBlank xs).any (fun x => decide (truth x = .undef)) = false := by
    apply Bool.eq_false_iff.mpr
    intro h
    obtain ⟨x, hx, hc⟩ := List.any_eq_true.mp h
    exact hd x hx (by simpa using hc)
  unfold Spec.C10.verdict Spec.C10.junction
  simp only [he, hu]
  cases isAnd with
  | true =>
    by_cases ha : (Spec.C10.nonBlank xs).all (fun x => decide (truth x = .yes)) = true
    · simp [ha]
    · simp [ha]
  | false =>
    by_cases ha : (Spec.C10.nonBlank xs).any (fun x => decide (truth x = .yes)) = true
    · have : ¬ (Spec.C10.nonBlank xs).all (fun x => decide (decide (truth x = .yes) = false)) = true := by
        intro hall
        obtain ⟨x, hx, hc⟩ := List.any_eq_true.mp ha
        have := List.all_eq_true.mp hall x hx
        simp_all
      rw [if_neg this]
      simp only [Bool.false_eq_true, if_false, ha]
      simp
    · have : (Spec.C10.nonBlank xs).all (fun x => decide (decide (truth x = .yes) = false)) = true := by
        apply List.all_eq_true.mpr
        intro x hx
        have : ¬ decide (truth x = .yes) = true := fun hc => ha (List.any_eq_true.mpr ⟨x, hx, hc⟩)
        simpa using this
      have ha' := Bool.eq_false_iff.mpr ha
      rw [if_pos this]
      simp only [Bool.false_eq_true, if_false, ha']
      simp

/-! ### NOT -/

/-- **not_spec.** NOT returns an error argument and otherwise negates the truth value -/
theorem not_spec (a : XExpr τ) (s s1 : τ) (v : V) (ha : a s = (s1, .val v)) :
    (truthV v = .yes → NOT_ a s = (s1, .val (.s (.bool false)))) ∧
    (truthV v = .no → NOT_ a s = (s1, .val (.s (.bool true)))) ∧
    (∀ e, truthV v = .error e → NOT_ a s = (s1, .val (.s (.err e)))) := by
  have h := truthOf_spec v
  refine ⟨fun ht => ?_, fun ht => ?_, fun e ht => ?_⟩ <;> rw [ht] at h
  · cases v with
    | arr r => simp [truthV] at ht
    | s x => cases x <;> simp_all [NOT_, notV, truthOf]
  · cases v with
    | arr r => simp [truthV] at ht
    | s x => cases x <;> simp_all [NOT_, notV, truthOf]
  · obtain ⟨rfl, _⟩ := h
    simp [NOT_, ha, notV]

theorem not_refines (a : XExpr τ) (s : τ) (hd : ∀ s', Spec.C10.NOT (lift a) s ≠ (s', .undef)) :
    lift (NOT_ a) s = Spec.C10.NOT (lift a) s := by
  cases ha : a s with
  | mk s1 r =>
    cases r with
    | exc k n => simp [lift, Spec.C10.NOT, NOT_, ha, toOut]
    | val v =>
      have h := not_spec a s s1 v ha
      have hl : lift a s = (s1, .val v) := by simp [lift, ha, toOut]
      cases ht : truthV v with
      | yes =>
        have e1 : lift (NOT_ a) s = (s1, .val (.s (.bool false))) := by simp only [lift, h.1 ht, toOut]
        rw [e1]; simp only [Spec.C10.NOT, hl, ht]
      | no =>
        have e1 : lift (NOT_ a) s = (s1, .val (.s (.bool true))) := by simp only [lift, h.2.1 ht, toOut]
        rw [e1]; simp only [Spec.C10.NOT, hl, ht]
      | error e =>
        have e1 : lift (NOT_ a) s = (s1, .val (.s (.err e))) := by simp only [lift, h.2.2 e ht, toOut]
        rw [e1]; simp only [Spec.C10.NOT, hl, ht]
      | undef => exact absurd (by simp only [Spec.C10.NOT, hl, ht]) (hd s1)


/-! ### embedding into the shared evaluator model -/
section embed
open XlVerif.Lemmas.C06 XlVerif.Model.C06
variable {σ : Type} (S : Store σ) (sem : Sem) (ce : Ctx σ → Addr → Ctx σ × Res)

/-- `Fx.iff` of the evaluator model IS the IF body applied to the thunks of its three arguments -/
theorem evalFx_iff (a b d : Fx) (c : Ctx σ) :
    evalFx S sem ce c (.iff a b d) =
      IF_ sem.truth (fun x => evalFx S sem ce x a) (fun x => evalFx S sem ce x b) (fun x => evalFx S sem ce x d) c := by
  simp only [evalFx, IF_]
  cases evalFx S sem ce c a with
  | mk c' r =>
    cases r with
    | exc k n => rfl
    | val v =>
      simp only
      cases sem.truth v with
      | none => rfl
      | some bb => cases bb <;> rfl

/-- `Fx.sc` of the evaluator model is the loop `SCs` over the thunks of its arguments (each evaluated argument
    flattened and judged by `Evaluator.itemsVerdict`, generic in the truth function) … -/
theorem evalSc_eq (isAnd : Bool) (args : List Fx) : ∀ c : Ctx σ,
    evalSc S sem ce c isAnd args = SCs sem.truth isAnd (args.map fun a x => evalFx S sem ce x a) c := by
  induction args with
  | nil => intro c; simp [evalSc, SCs]
  | cons a rest ih =>
    intro c
    simp only [evalSc, List.map_cons, SCs, argVerdict]
    cases evalFx S sem ce c a with
    | mk c' r =>
      cases r with
      | exc k n => rfl
      | val v =>
        simp only
        cases itemsVerdict sem.truth isAnd (argItems v) with
        | neutral => exact ih c'
        | decided b => rfl
        | error e => rfl

/-- … which, under the truth function of logical.py, IS the loop of logical.py (`SC`: flatten, errors first,
    blanks skipped, the first deciding item stops) — for ARBITRARY argument thunks: scalar-valued or
    array-valued (range arguments), returning, raising or diverging.  (Before the evaluator model flattened
    its AND / OR arguments this held for scalar-valued arguments only.) -/
theorem SCs_eq_SC {τ : Type} (isAnd : Bool) (ts : List (XExpr τ)) :
    ∀ s, SCs truthOf isAnd ts s = SC isAnd ts s := by
  induction ts with
  | nil => intro s; rfl
  | cons t rest ih =>
    intro s
    simp only [SCs, SC]
    cases ht : t s with
    | mk s1 r =>
      cases r with
      | exc k n => rfl
      | val v =>
        simp only [itemsVerdict_truthOf]
        cases stepOf isAnd v with
        | error c => rfl
        | decided => rfl
        | «continue» => exact ih s1

/-- the per-argument verdict of the evaluator model under logical.py's truth function is `stepOf` -/
theorem argVerdict_eq_stepOf (hsem : sem.truth = truthOf) (isAnd : Bool) (v : V) :
    argVerdict sem isAnd v = stepVerdict isAnd (stepOf isAnd v) := by
  rw [argVerdict, hsem, itemsVerdict_truthOf]

/-- **the embedding of AND / OR.**  In the evaluator model — any store, any cross-cell evaluator, any strict
    functions, the truth function of logical.py — `Fx.sc isAnd args` evaluates exactly like the body of
    AND / OR (`SC`) applied to the thunks of its argument formulas, whatever these are: literals, cell
    references, RANGES (arrays), nested calls.  Hence `and_or_shape`, `and_or_lazy`, `and_or_error`,
    `and_or_spec` and `and_or_refines` all speak about `Fx.sc`. -/
theorem evalSc_eq_SC (hsem : sem.truth = truthOf) (isAnd : Bool) (args : List Fx) (c : Ctx σ) :
    evalSc S sem ce c isAnd args = SC isAnd (args.map fun a x => evalFx S sem ce x a) c := by
  rw [evalSc_eq, hsem, SCs_eq_SC]

theorem evalFx_sc (hsem : sem.truth = truthOf) (isAnd : Bool) (args : List Fx) (c : Ctx σ) :
    evalFx S sem ce c (.sc isAnd args) = SC isAnd (args.map fun a x => evalFx S sem ce x a) c := by
  rw [evalFx, evalSc_eq_SC S sem ce hsem]

/-- with at least one argument that is also the registered function `AND` / `OR` (`ANDOR_`: `#NULL!` without
    arguments) on the embedded formulas -/
theorem evalLx_andor_fx (hsem : sem.truth = truthOf) (isAnd : Bool) (args : List Fx) (hne : args ≠ []) (c : Ctx σ) :
    evalLx S sem ce (.andor isAnd (args.map .fx)) c = evalFx S sem ce c (.sc isAnd args) := by
  have hth : thunks S sem ce (args.map .fx) = args.map fun a x => evalFx S sem ce x a := by
    induction args with
    | nil => rfl
    | cons a rest ih =>
      simp only [List.map_cons, thunks, evalLx]
      cases rest with
      | nil => rfl
      | cons b r => rw [ih (by simp)]
  have hemp : (thunks S sem ce (args.map .fx)).isEmpty = false := by
    rw [hth]; cases args with
    | nil => exact absurd rfl hne
    | cons a r => rfl
  rw [evalFx_sc S sem ce hsem, evalLx, ANDOR_, hemp, hth]
  rfl

/-- a static cycle (or any other poison) in the branch that is NOT selected has no effect: the unselected
    sub-formula can be replaced by any other formula -/
theorem iff_unselected (cond t e t' e' : Fx) (c c1 : Ctx σ) (v : V)
    (hc : evalFx S sem ce c cond = (c1, .val v)) :
    (sem.truth v = some true → evalFx S sem ce c (.iff cond t e) = evalFx S sem ce c (.iff cond t e')) ∧
    (sem.truth v = some false → evalFx S sem ce c (.iff cond t e) = evalFx S sem ce c (.iff cond t' e)) ∧
    (sem.truth v = none → evalFx S sem ce c (.iff cond t e) = (c1, .val v)) := by
  refine ⟨fun h => ?_, fun h => ?_, fun h => ?_⟩ <;> simp [evalFx, hc, h]

/-- `Evaluator.evaluate` on a cell whose formula is a formula of the shared model is `evalEntry` on the
    embedded formula: the entry-cell evaluation used by the correspondence adds nothing of its own -/
theorem evalEntry_fx (fuel : Nat) (c : Ctx σ) (a : Addr) (cell : Cell) (f : Fx)
    (hcell : S.cell? c.st (S.resolve c.st a) = some cell) (hf : cell.formula = some f) :
    evalCell S sem (fuel + 1) c a = evalEntry S sem fuel c (S.resolve c.st a) cell.formulaLen (.fx f) := by
  simp only [evalCell, hcell, hf, evalEntry, evalLx]
  split
  · rfl
  · generalize evalFx S sem (evalCell S sem fuel)
      { st := c.st, evaluating := S.resolve c.st a :: c.evaluating, memo := c.memo,
        trace := c.trace ++ [S.resolve c.st a] } f = p
    obtain ⟨c2, r⟩ := p
    cases r with
    | val v => rfl
    | exc k n => cases k <;> rfl

variable {S sem}
/-- every thunk of the evaluator only appends to the trace (in a context of an evaluation of model `m`) -/
theorem eval_extends {m : MState} (hL : Lawful S m) (fuel : Nat) (f : Fx) (c : Ctx σ)
    (hA : Agree S m c.st) (hW : WFE m c.evaluating) :
    ExtendsAt (fun x => evalFx S sem (evalCell S sem fuel) x f) c ∧
    Agree S m (evalFx S sem (evalCell S sem fuel) c f).1.st ∧
    (evalFx S sem (evalCell S sem fuel) c f).1.evaluating = c.evaluating := by
  let I : Ctx σ → Prop := fun x => (Agree S m x.st ∧ x.evaluating = c.evaluating) ∧ ∃ l, x.trace = c.trace ++ l
  have F : Frame S (evalCell S sem fuel) I (rcOf m) := {
    memo := fun x mm hx => hx
    wr := fun x k v hx => ⟨⟨hL.wr _ _ _ hx.1.1, hx.1.2⟩, hx.2⟩
    rng := fun x k hx => hx.1.1.rng k
    ce := fun x b hx => by
      have := cell_postK hL (postOK_true sem m) (fun tr => ∃ l, tr = c.trace ++ l)
        (fun tr y ⟨l, h⟩ => ⟨l ++ [y], by simp [h]⟩) fuel x b hx.1.1 (by rw [hx.1.2]; exact hW) hx.2
      exact ⟨⟨this.1.1, by rw [this.1.2.1]; exact hx.1.2⟩, this.2⟩ }
  have := (fx_prov (sem := sem) F f c ⟨⟨hA, rfl⟩, [], by simp⟩).1
  exact ⟨this.2, this.1.1, this.1.2⟩

/-- **if_lazy on the evaluator.** In an evaluation of ANY model: if the condition of `IF(cond, t, e)` evaluates
    to TRUE / a non-zero number (FALSE / zero / blank), the cells whose evaluation is started are those of the
    condition followed by those of `t` (of `e`) — evaluated from the context the condition left behind. -/
theorem iff_trace {m : MState} (hL : Lawful S m) (hsem : sem.truth = truthOf) (fuel : Nat) (cond t e : Fx)
    (c c1 : Ctx σ) (v : V) (hA : Agree S m c.st) (hW : WFE m c.evaluating)
    (hc : evalFx S sem (evalCell S sem fuel) c cond = (c1, .val v)) :
    let th := fun g x => evalFx S sem (evalCell S sem fuel) x g
    (truthV v = .yes → traceOf (th (.iff cond t e)) c = traceOf (th cond) c ++ traceOf (th t) c1) ∧
    (truthV v = .no → traceOf (th (.iff cond t e)) c = traceOf (th cond) c ++ traceOf (th e) c1) := by
  intro th
  have h0 := eval_extends (sem := sem) hL fuel cond c hA hW
  rw [hc] at h0
  have hA1 : Agree S m c1.st := h0.2.1
  have hW1 : WFE m c1.evaluating := by rw [h0.2.2]; exact hW
  have key := if_trace (th cond) (th t) (th e) c c1 v hc h0.1
  have heq : th (.iff cond t e) = IF_ truthOf (th cond) (th t) (th e) := by
    funext x; simp only [th]; rw [evalFx_iff, hsem]
  rw [heq]
  exact ⟨fun ht => key.1 ht (eval_extends hL fuel t c1 hA1 hW1).1,
         fun ht => key.2.1 ht (eval_extends hL fuel e c1 hA1 hW1).1⟩
end embed

/-! ### one evaluator, a SEQUENCE of truth assignments: an earlier failed evaluation has no effect -/
section history
open XlVerif.Model.C06 (EvState evaluateOn)

/-- `evaluate` on a cell holding an IF / AND / OR / NOT formula leaves `_evaluating` as it found it on every
    path: value, error value, failure of the selected branch, cycle report -/
theorem evalEntry_restores {σ : Type} (S : Store σ) (sem : Sem) (fuel : Nat) (c : Ctx σ) (a : Addr) (len : Nat)
    (f : Lx) : (evalEntry S sem fuel c a len f).1.evaluating = c.evaluating := by
  simp only [evalEntry]
  split
  · rfl
  · generalize evalLx S sem (evalCell S sem fuel) f _ = p
    obtain ⟨c2, r⟩ := p
    cases r with
    | val v => rfl
    | exc k n => cases k <;> rfl

/-- whatever was evaluated before on the same evaluator and however it ended (a poisoned branch that was
    selected: unknown function, circular reference, raising cell), and whatever inputs were set in between:
    nothing stays in progress -/
theorem steps_evaluating (sem : Sem) (fuel : Nat) (steps : List HStep) :
    ∀ e : EvState, (steps.foldl (stepOn sem fuel) e).evaluating = e.evaluating := by
  induction steps with
  | nil => intro e; rfl
  | cons st rest ih =>
    intro e
    simp only [List.foldl_cons]
    rw [ih]
    cases st with
    | cell a => exact XlVerif.Props.C06.evaluating_restored sem fuel e a
    | entry a len f =>
      simp only [stepOn, evaluateLxOn]
      exact evalEntry_restores mutStore sem fuel _ a len f
    | set a v => rfl

/-- **if_lazy over histories.** After ANY history on one evaluator that started new, the evaluation of a cell
    holding `f` is the evaluation a NEW evaluator would perform on the current inputs (`evaluateLx` on the
    current store): result and trace.  Together with `if_selects` / `if_lazy`: once the inputs select the healthy
    branch, the earlier failure of the poisoned branch has no effect. -/
theorem reused_eq_fresh (sem : Sem) (fuel : Nat) (m : MState) (steps : List HStep) (a : Addr) (len : Nat) (f : Lx) :
    let e := steps.foldl (stepOn sem fuel) { st := m }
    (evaluateLxOn sem fuel e a len f).2 = evaluateLx sem fuel e.st a len f := by
  intro e
  have h : e.evaluating = [] := steps_evaluating sem fuel steps { st := m }
  simp only [evaluateLxOn, evaluateLx, h]
end history

/-! ### the hypotheses are satisfiable; regression examples (D17, D25, D1001) on the model -/
section examples
def adr (s : String) : Addr := s.toList
def exSem : Sem := { app := fun _ _ => .raiseOther 12, truth := truthOf }
def tt : V := .s (.bool true)
def ff : V := .s (.bool false)
def one : V := .s (.num (.int 1))
def na : V := .s (.err .na)
def ctx0 : Ctx Unit := { st := (), evaluating := [], memo := [] }
def K (v : V) : XExpr (Ctx Unit) := constT v
/-- a thunk that would raise, and one that logs a spy call -/
def boom : XExpr (Ctx Unit) := fun s => (s, .exc .runtime 4)
def spyT (k : Nat) (v : V) : XExpr (Ctx Unit) := fun s => ({ s with trace := s.trace ++ [spyAddr k] }, .val v)

example : truthV tt = .yes ∧ truthV ff = .no ∧ truthV (.s .blank) = .no ∧ truthV na = .error .na := by decide
/-- IF(TRUE, spy 1, boom): the poisoned branch is not run -/
example : (IF_ truthOf (K tt) (spyT 1 one) boom ctx0).2 = .val one ∧
    (IF_ truthOf (K tt) (spyT 1 one) boom ctx0).1.trace = [spyAddr 1] := by decide
/-- D17: IF(#N/A, 1, 2) is #N/A, no branch runs -/
example : (IF_ truthOf (K na) (spyT 1 one) (spyT 2 one) ctx0).2 = .val na ∧
    (IF_ truthOf (K na) (spyT 1 one) (spyT 2 one) ctx0).1.trace = [] := by decide
/-- D25: IF(FALSE, 5) is FALSE -/
example : (IF2_ truthOf (K ff) (K one) ctx0).2 = .val ff := by decide
/-- AND(TRUE, FALSE, boom) = FALSE: the third argument is not run; AND(TRUE, #N/A) = #N/A (D17) -/
example : (SC true [K tt, spyT 1 ff, boom] ctx0).2 = .val ff := by decide
example : (SC true [K tt, K na] ctx0).2 = .val na := by decide
/-- D1001: a range [FALSE, #N/A] gives #N/A like [#N/A, FALSE] -/
example : (SC true [K (.arr [[.bool false, .err .na]])] ctx0).2 = .val na ∧
    (SC true [K (.arr [[.err .na, .bool false]])] ctx0).2 = .val na := by decide
/-- blanks are skipped, an all-blank AND is TRUE, an all-blank OR is FALSE; no arguments: #NULL! -/
example : (SC true [K (.arr [[.blank, .text []]])] ctx0).2 = .val tt ∧
    (SC false [K (.arr [[.blank, .text []]])] ctx0).2 = .val ff ∧
    (ANDOR_ true ([] : List (XExpr (Ctx Unit))) ctx0).2 = .val (.s (.err .null)) := by decide
example : (NOT_ (K tt) ctx0).2 = .val ff ∧ (NOT_ (K (.s .blank)) ctx0).2 = .val tt ∧ (NOT_ (K na) ctx0).2 = .val na := by
  decide

/-- A1 = IF(TRUE, 1, A1): the static cycle through the unselected branch is not an error … -/
def lazyIf (b : Bool) : Fx := .iff (.lit (.s (.bool b))) (.lit one) (.ref (adr "A1"))
def lazyCycle (b : Bool) : MState :=
  { cells := [(adr "A1", { value := .s .blank, formula := some (lazyIf b), formulaLen := 14 })],
    ranges := [], names := [] }
example : (evaluate exSem 10 (lazyCycle true) (adr "A1")).2.1 = .val one := by decide
/-- … and it IS one when the branch is selected -/
example : (evaluate exSem 10 (lazyCycle false) (adr "A1")).2.1 = .exc .cycle 27 := by decide
/-- a RANGE argument through `Fx.sc` of the evaluator model: B1:B4 = TRUE, FALSE, (blank), TRUE;
    `=AND(B1:B4, A1)` is FALSE — the FALSE inside the range decides and the (self-referencing, i.e. cyclic)
    second argument is not evaluated; `=OR(B1:B4, A1)` is TRUE for the same reason;
    with #N/A in B4 both are #N/A although a deciding item precedes the error (D1001) -/
def rangeSc (isAnd : Bool) (b4 : V) (b1 : V := tt) : MState :=
  { cells := [(adr "A1", { value := .s .blank, formula := some (.sc isAnd [.rng (adr "B1:B4"), .ref (adr "A1")]),
                           formulaLen := 15 }),
              (adr "B1", { value := b1, formula := none }), (adr "B2", { value := ff, formula := none }),
              (adr "B3", { value := .s .blank, formula := none }), (adr "B4", { value := b4, formula := none })],
    ranges := [(adr "B1:B4", { cells := [[adr "B1"], [adr "B2"], [adr "B3"], [adr "B4"]] })], names := [] }
example : (evaluate exSem 10 (rangeSc true tt) (adr "A1")).2.1 = .val ff := by decide
example : (evaluate exSem 10 (rangeSc false tt) (adr "A1")).2.1 = .val tt := by decide
example : (evaluate exSem 10 (rangeSc true na) (adr "A1")).2.1 = .val na ∧
    (evaluate exSem 10 (rangeSc false na) (adr "A1")).2.1 = .val na := by decide
/-- a neutral range does not stop: `=OR(B1:B4, A1)` over FALSE, FALSE, (blank), FALSE evaluates the cyclic
    second argument -/
example : (evaluate exSem 10 (rangeSc false ff ff) (adr "A1")).2.1 = .exc .cycle 27 := by decide
/-- hypotheses of `and_or_lazy` / `and_or_error` are met by a run with a neutral prefix -/
example : Run [K tt, K (.s .blank)] ctx0 [tt, .s .blank] ctx0 := .cons rfl (.cons rfl (.nil _))
example : ∀ w ∈ [tt, V.s .blank], stepOf true w = .continue := by decide
end examples

end XlVerif.Props.C10
