/-
  C11 — a workbook file loads into a model with the same cells and formulas.

  Theorems about `Model.C11.load` (the mirror of reader.py / patch.py / model.py / xltypes.py / utils.py
  after openpyxl's contract) for EVERY abstract workbook and EVERY ignore list.  openpyxl's XML parsing,
  value typing and formula translator are part of the model (hand-written contract), not verified; the
  correspondence check ties model and contract to the running code.
-/
import XlVerif.Lemmas.C11Names
import XlVerif.Lemmas.C11Text
import XlVerif.Lemmas.C11Addr
import XlVerif.Lemmas.C11Scan
namespace XlVerif.Props.C11
open XlVerif XlVerif.Model.C11 XlVerif.Lemmas.C11
open XlVerif.Spec.C11 (Text Coord PyVal Stored FTok FForm SCell Sheet Target TargetForm DefName Workbook
  colName digits coordText refText renderToks findMaster sharedOK textOK CellSpec shownFormula formulaText valueOf)

/-! ### The loaded model, unfolded -/

/-- When loading does not raise, the model is the composition of the five steps of `parse_archive`. -/
theorem load_ok {wb : Workbook} {ig : List Text} {m : M} (h : load wb ig = .ok m) :
    m = buildRanges (linkCells (buildDefinedNames (readCells wb ig) (readDefinedNames wb))) := by
  unfold load at h
  simp only at h
  split at h
  · cases h
  · injection h with h; exact h.symm

/-- The cells of the loaded model: the stored cells, back-linked to the names, then the placeholders. -/
theorem load_cells_eq {wb : Workbook} {ig : List Text} {m : M} (h : load wb ig = .ok m) :
    m.cells = (areaMembers m.formulae).foldl addBlank
      ((buildDefinedNames (readCells wb ig) (readDefinedNames wb)).names.foldl
        (fun cs d => linkOne cs d.1 d.2) (dofList (cellEntries wb ig))) := by
  have e := load_ok h
  have hf : m.formulae = (linkCells (buildDefinedNames (readCells wb ig) (readDefinedNames wb))).formulae := by
    rw [e, buildRanges_formulae]
  rw [hf, e, buildRanges_cells]
  simp only [linkCells, buildDefinedNames_cells, readCells]

/-! ### `load_cells`: the key set -/

/-- **load_cells.** The keys of `model.cells` are exactly the addresses `S!c` of the cells stored on the
    sheets that are not ignored, plus the members of the areas that the formulas of the model refer to
    (`build_ranges` gives those a blank placeholder). -/
theorem load_cells {wb : Workbook} {ig : List Text} {m : M} (h : load wb ig = .ok m) (k : Text) :
    k ∈ dkeys m.cells ↔ k ∈ (cellEntries wb ig).map Prod.fst ∨ k ∈ areaMembers m.formulae := by
  rw [load_cells_eq h, dkeys_addBlanks, dkeys_linkAll, dofList_eq, dkeys_dsetAll]
  simp [dkeys]


/-- The stored part of the key set, written as the statement writes it: `S!c` for every cell `c`
    stored on a sheet `S` that is not ignored. -/
theorem stored_keys (wb : Workbook) (ig : List Text) (k : Text) :
    k ∈ (cellEntries wb ig).map Prod.fst ↔
      ∃ sh ∈ wb.sheets, sh.name ∉ ig ∧ ∃ c ∈ sh.cells, k = Spec.C11.addr sh.name c.coord := by
  have key : ∀ sh : Sheet, (sheetEntries wb.sst sh).map Prod.fst
      = sh.cells.map fun c => Spec.C11.addr sh.name c.coord := by
    intro sh
    unfold sheetEntries
    rw [List.map_map]
    have := parseCells_coordinate wb.sst [] sh.cells
    have h2 : (parseCells wb.sst [] sh.cells).map (fun pc : PCell => sh.name ++ '!' :: pc.coordinate)
        = ((parseCells wb.sst [] sh.cells).map PCell.coordinate).map (fun co => sh.name ++ '!' :: co) := by
      rw [List.map_map]; rfl
    show List.map (fun pc : PCell => sh.name ++ '!' :: pc.coordinate) _ = _
    rw [h2, this, List.map_map]; rfl
  constructor
  · intro h
    obtain ⟨e, he, rfl⟩ := List.mem_map.mp h
    obtain ⟨sh, hsh, hig, hes⟩ := mem_cellEntries he
    have : e.1 ∈ (sheetEntries wb.sst sh).map Prod.fst := List.mem_map_of_mem (f := Prod.fst) hes
    rw [key] at this
    obtain ⟨c, hc, hk⟩ := List.mem_map.mp this
    exact ⟨sh, hsh, hig, c, hc, hk.symm⟩
  · rintro ⟨sh, hsh, hig, c, hc, rfl⟩
    have h1 : Spec.C11.addr sh.name c.coord ∈ (sheetEntries wb.sst sh).map Prod.fst := by
      rw [key]; exact List.mem_map_of_mem (f := fun c => Spec.C11.addr sh.name c.coord) hc
    obtain ⟨e, he, hk⟩ := List.mem_map.mp h1
    refine List.mem_map.mpr ⟨e, ?_, hk⟩
    unfold cellEntries
    refine List.mem_flatMap.mpr ⟨sh, List.mem_filter.mpr ⟨hsh, ?_⟩, he⟩
    simpa using hig

/-- `load_cells` with the stored part spelt out. -/
theorem load_cells_stored {wb : Workbook} {ig : List Text} {m : M} (h : load wb ig = .ok m) (k : Text) :
    k ∈ dkeys m.cells ↔
      (∃ sh ∈ wb.sheets, sh.name ∉ ig ∧ ∃ c ∈ sh.cells, k = Spec.C11.addr sh.name c.coord)
      ∨ k ∈ areaMembers m.formulae := by
  rw [load_cells h, stored_keys]

/-! ### addresses are injective -/

/-- `S!c = S'!c'` only for the same sheet name and the same coordinate — whatever characters the sheet
    names contain (the coordinate part never contains `!`). -/
theorem address_injective {s1 s2 : Text} {c1 c2 : Coord}
    (h : Spec.C11.addr s1 c1 = Spec.C11.addr s2 c2) : s1 = s2 ∧ c1 = c2 := addr_injective h

/-- The hypothesis "addresses pairwise different" of the theorems below follows from the invariants of a
    SpreadsheetML file: sheet names pairwise different, one `<c>` per coordinate on each sheet. -/
theorem addresses_distinct (wb : Workbook) (ig : List Text) (hs : (wb.sheets.map (·.name)).Nodup)
    (hc : ∀ sh ∈ wb.sheets, (sh.cells.map (·.coord)).Nodup) :
    ((cellEntries wb ig).map Prod.fst).Nodup := nodup_keys wb ig hs hc

/-! ### `load_content`: constant or formula text + cached result, per storage form -/

/-- Every entry the reader produced is in the model with its address, value and formula
    (hypothesis: addresses are pairwise different, i.e. distinct sheet names and coordinates). -/
theorem load_content_entry {wb : Workbook} {ig : List Text} {m : M} (h : load wb ig = .ok m)
    (hn : ((cellEntries wb ig).map Prod.fst).Nodup) {a : Text} {c : XLCell}
    (hm : (a, c) ∈ cellEntries wb ig) :
    ∃ x, dget m.cells a = some x ∧ x.address = a ∧ x.value = c.value ∧ x.formula = c.formula := by
  have hkey : a ∈ dkeys ((buildDefinedNames (readCells wb ig) (readDefinedNames wb)).names.foldl
      (fun cs d => linkOne cs d.1 d.2) (dofList (cellEntries wb ig))) := by
    rw [dkeys_linkAll, dofList_eq, dkeys_dsetAll]
    exact Or.inr (List.mem_map_of_mem (f := Prod.fst) hm)
  have h1 : (dget m.cells a).map content = some (content c) := by
    rw [load_cells_eq h, dget_addBlanks, if_pos hkey, content_linkAll, dofList_eq,
      dget_dsetAll_of_nodup _ _ _ _ hn hm]
    rfl
  obtain ⟨sh, _, _, hes⟩ := mem_cellEntries hm
  have haddr : c.address = a := (sheetEntries_address hes).1
  cases hx : dget m.cells a with
  | none => rw [hx] at h1; cases h1
  | some x =>
    rw [hx] at h1
    simp only [Option.map_some, Option.some.injEq, content, Prod.mk.injEq] at h1
    exact ⟨x, rfl, h1.1.trans haddr, h1.2.1, h1.2.2⟩

/-- **load_content.** Under the well-formedness of a SpreadsheetML file (`SheetWF`: shared groups have one
    master that precedes its members; the scanner reads the formulas back) every cell the statement
    demands (`Spec.C11.cells`: per storage form the constant, or the formula text together with the cached
    result; shared members expanded) is in the model under its address with that value and that formula. -/
theorem load_content {wb : Workbook} {ig : List Text} {m : M} (h : load wb ig = .ok m)
    (hwf : ∀ sh ∈ wb.sheets, SheetWF sh) (hn : ((cellEntries wb ig).map Prod.fst).Nodup)
    {s : CellSpec} (hs : s ∈ Spec.C11.cells wb ig) :
    ∃ x, dget m.cells s.address = some x ∧ x.address = s.address ∧ x.value = s.value ∧
      x.formula.map (·.formula) = s.formula := by
  rw [← cells_refine wb ig hwf] at hs
  obtain ⟨⟨a, c⟩, he, rfl⟩ := List.mem_map.mp hs
  obtain ⟨x, h1, h2, h3, h4⟩ := load_content_entry h hn he
  exact ⟨x, h1, h2, h3, by rw [h4]; rfl⟩

/-- `load_content` for one stored cell `c` of a sheet `sh` that is not ignored: the model holds, under
    `sh!c`, the value of `c`'s storage form (`valueOf`: number, text, boolean, date, error text, nothing —
    for a formula cell this is the cached result) and the formula text `c` shows. -/
theorem load_content_stored {wb : Workbook} {ig : List Text} {m : M} (h : load wb ig = .ok m)
    (hwf : ∀ sh ∈ wb.sheets, SheetWF sh) (hn : ((cellEntries wb ig).map Prod.fst).Nodup)
    {sh : Sheet} (hsh : sh ∈ wb.sheets) (hig : sh.name ∉ ig) {c : SCell} (hc : c ∈ sh.cells) :
    ∃ f x, shownFormula sh.cells c = some f ∧ dget m.cells (Spec.C11.addr sh.name c.coord) = some x ∧
      x.address = Spec.C11.addr sh.name c.coord ∧ x.value = valueOf wb.sst c.stored ∧
      x.formula.map (·.formula) = f := by
  obtain ⟨f, hf, hmem⟩ := spec_cell_mem hsh hig (hwf sh hsh).2.1 hc
  obtain ⟨x, h1, h2, h3, h4⟩ := load_content h hwf hn hmem
  exact ⟨f, x, hf, h1, h2, h3, h4⟩

/-- The cells of the model are, in this order of keys, exactly what the statement lists. -/
theorem load_refines_spec (wb : Workbook) (ig : List Text) (hwf : ∀ sh ∈ wb.sheets, SheetWF sh) :
    (cellEntries wb ig).map specOfE = Spec.C11.cells wb ig := cells_refine wb ig hwf

/-! ### `shared_expands` -/

/-- **shared_expands.** The formula a member of a shared group gets is the master's formula, token by
    token, with every cell reference displaced by the member's offset (`FTok.shift`) and everything else
    (text literals, function names, sheet prefixes, operators) unchanged. -/
theorem shared_expands (master : Text) (origin dest : Coord) :
    translate master origin dest = formulaText
      ((scan master).map (FTok.shift ((dest.col : Int) - origin.col) ((dest.row : Int) - origin.row))) := by
  unfold translate formulaText
  rw [List.map_congr_left fun t _ => shiftTok_eq _ _ t]

/-- A `$`-absolute coordinate of the master is kept; a relative one keeps its offset to the cell: the
    member `d` further sees the coordinate `d` further (as long as it stays on the sheet — otherwise
    openpyxl raises and the file is not SpreadsheetML). -/
theorem shift_keeps_relative_offset (ac ar : Bool) (col row : Nat) (dc dr : Int) :
    FTok.shift dc dr (.cell ac col ar row)
      = .cell ac (Spec.C11.displace ac col dc) ar (Spec.C11.displace ar row dr)
    ∧ (ac = true → Spec.C11.displace ac col dc = col)
    ∧ (ac = false → 0 ≤ (col : Int) + dc → ((Spec.C11.displace ac col dc : Nat) : Int) = col + dc)
    ∧ (ar = true → Spec.C11.displace ar row dr = row)
    ∧ (ar = false → 0 ≤ (row : Int) + dr → ((Spec.C11.displace ar row dr : Nat) : Int) = row + dr) := by
  refine ⟨rfl, ?_, ?_, ?_, ?_⟩
  · intro h; simp [Spec.C11.displace, h]
  · intro h h0; subst h
    show ((((col : Int) + dc).toNat : Nat) : Int) = col + dc
    omega
  · intro h; simp [Spec.C11.displace, h]
  · intro h h0; subst h
    show ((((row : Int) + dr).toNat : Nat) : Int) = row + dr
    omega

/-- In the loaded model: a member `c` of group `si` whose master `mc` carries the tokens `toks` shows
    `toks` displaced by `c - mc`. -/
theorem shared_member_formula {wb : Workbook} {ig : List Text} {m : M} (h : load wb ig = .ok m)
    (hwf : ∀ sh ∈ wb.sheets, SheetWF sh) (hn : ((cellEntries wb ig).map Prod.fst).Nodup)
    {sh : Sheet} (hsh : sh ∈ wb.sheets) (hig : sh.name ∉ ig) {c : SCell} (hc : c ∈ sh.cells)
    {si : Nat} (hf : c.formula = some (.member si)) {mc : Coord} {toks : List FTok}
    (hm : findMaster si sh.cells = some (mc, toks)) :
    ∃ x, dget m.cells (Spec.C11.addr sh.name c.coord) = some x ∧
      x.formula.map (·.formula) = some (formulaText
        (toks.map (FTok.shift ((c.coord.col : Int) - mc.col) ((c.coord.row : Int) - mc.row)))) := by
  obtain ⟨f, x, h1, h2, _, _, h5⟩ := load_content_stored h hwf hn hsh hig hc
  refine ⟨x, h2, ?_⟩
  rw [h5]
  simp only [shownFormula, hf, hm] at h1
  injection h1 with h1
  exact h1.symm

/-- A syntactic sufficient condition for the hypothesis `scanOK` of `SheetWF`: formulas written as
    well-separated tokens (`ToksOK`: text literals without inner quote, single operator characters, function
    names directly before `(`, names/numbers that do not look like references, bare or quoted sheet
    prefixes, references that the reference pattern reads back, none glued to the next token) are read
    back by the scanner token for token. -/
theorem scan_reads_back (toks : List FTok) (h : ToksOK toks) : scan (renderToks toks) = toks :=
  scan_render toks h

theorem scanOK_of_separated (cells : List SCell)
    (h : ∀ c ∈ cells, ∀ toks, (c.formula = some (.plain toks) ∨ ∃ si, c.formula = some (.master si toks)) →
      ToksOK toks) : scanOK cells = true := by
  unfold scanOK
  apply List.all_eq_true.mpr
  intro c hc
  split
  · rename_i toks hf
    simpa using scan_render toks (h c hc toks (Or.inl hf))
  · rename_i si toks hf
    simpa using scan_render toks (h c hc toks (Or.inr ⟨si, hf⟩))
  · rfl

/-- `SUM('My Sheet'!A1:$B$3)+LEN("A1")*x1.5` is well separated. -/
example : ToksOK [.lit "SUM".toList, .lit ['('], .pfx "'My Sheet'".toList, .cell false 1 false 1, .lit [':'],
    .cell true 2 true 3, .lit [')'], .lit ['+'], .lit "LEN".toList, .lit ['('], .lit "\"A1\"".toList, .lit [')'],
    .lit ['*'], .lit "x1.5".toList] := by
  refine .cons _ _ (.func 'S' "UM".toList _ (by decide +kernel) (by decide +kernel)) ?_
  refine .cons _ _ (.sym '(' _ (by decide +kernel) (by decide +kernel) (by decide +kernel)) ?_
  refine .cons _ _ (.pfxQuoted "My Sheet'".toList "My Sheet".toList _ (by decide +kernel)) ?_
  refine .cons _ _ (.cell false 1 false 1 'A' ['1'] _ (by decide +kernel) (by decide +kernel) (afterWord_of_head (c := ':') (by decide +kernel) (by decide))
    (by decide +kernel) (by decide +kernel) (by decide +kernel)) ?_
  refine .cons _ _ (.sym ':' _ (by decide +kernel) (by decide +kernel) (by decide +kernel)) ?_
  refine .cons _ _ (.cell true 2 true 3 '$' "B$3".toList _ (by decide +kernel) (by decide +kernel) (afterWord_of_head (c := ')') (by decide +kernel) (by decide))
    (by decide +kernel) (by decide +kernel) (by decide +kernel)) ?_
  refine .cons _ _ (.sym ')' _ (by decide +kernel) (by decide +kernel) (by decide +kernel)) ?_
  refine .cons _ _ (.sym '+' _ (by decide +kernel) (by decide +kernel) (by decide +kernel)) ?_
  refine .cons _ _ (.func 'L' "EN".toList _ (by decide +kernel) (by decide +kernel)) ?_
  refine .cons _ _ (.sym '(' _ (by decide +kernel) (by decide +kernel) (by decide +kernel)) ?_
  refine .cons _ _ (.str "A1".toList _ (by decide +kernel)) ?_
  refine .cons _ _ (.sym ')' _ (by decide +kernel) (by decide +kernel) (by decide +kernel)) ?_
  refine .cons _ _ (.sym '*' _ (by decide +kernel) (by decide +kernel) (by decide +kernel)) ?_
  refine .cons _ _ (.word 'x' "1.5".toList _ (by decide +kernel) (by intro c h; simp [renderToks] at h) (by decide +kernel) (by decide +kernel)) ?_
  exact .nil

/-! ### `ignored_sheets_contribute_nothing` -/

/-- **ignored_sheets_contribute_nothing.** Every cell of the loaded model is either (address, value and
    formula of) a cell the reader produced from a sheet that is NOT ignored, or an empty placeholder
    (`XLCell(address, None)`, no formula) for a member of an area some formula refers to.  In particular
    nothing stored on an ignored sheet reaches the model. -/
theorem ignored_sheets_contribute_nothing {wb : Workbook} {ig : List Text} {m : M}
    (h : load wb ig = .ok m) {k : Text} {x : XLCell} (hx : dget m.cells k = some x) :
    (∃ sh ∈ wb.sheets, sh.name ∉ ig ∧ ∃ e ∈ sheetEntries wb.sst sh, e.1 = k ∧ content x = content e.2)
    ∨ (x = blank k ∧ k ∈ areaMembers m.formulae) := by
  rw [load_cells_eq h, dget_addBlanks] at hx
  split at hx
  · left
    have h1 := content_linkAll (buildDefinedNames (readCells wb ig) (readDefinedNames wb)).names
      (dofList (cellEntries wb ig)) k
    rw [hx] at h1
    cases h0 : dget (dofList (cellEntries wb ig)) k with
    | none => rw [h0] at h1; cases h1
    | some c0 =>
      rw [h0] at h1
      simp only [Option.map_some, Option.some.injEq] at h1
      rw [dofList_eq] at h0
      rcases dget_dsetAll_some _ _ _ _ h0 with h2 | h2
      · obtain ⟨sh, hsh, hig, hes⟩ := mem_cellEntries h2
        exact ⟨sh, hsh, hig, (k, c0), hes, rfl, h1⟩
      · cases h2
  · right
    split at hx
    · rename_i hk
      injection hx with hx
      exact ⟨hx.symm, hk⟩
    · cases hx

/-! ### `cached_before_eval` -/

/-- the names of the model are among the defined names of the workbook. -/
theorem load_names_keys {wb : Workbook} {ig : List Text} {m : M} (h : load wb ig = .ok m) {k : Text}
    (hk : k ∈ dkeys m.names) : k ∈ wb.names.map (·.name) := by
  rw [load_ok h, buildRanges_names] at hk
  simp only [linkCells] at hk
  rcases dkeys_buildDefinedNames _ _ _ hk with h1 | h1
  · simp [readCells, dkeys] at h1
  · unfold readDefinedNames at h1
    obtain ⟨e, he, rfl⟩ := List.mem_map.mp h1
    obtain ⟨d, hd, hde⟩ := List.mem_filterMap.mp he
    dsimp only at hde
    split at hde
    · injection hde with hde; rw [← hde]; exact List.mem_map_of_mem (f := (·.name)) hd
    · cases hde

/-- **cached_before_eval.** Before any evaluation `get_cell_value(S!c)` returns what the file stores for
    that cell: the constant, or for a formula cell its cached result (`valueOf` of the storage form; `None`
    when the file has no `<v>`).  (`S!c` is not the name of a defined name — names cannot contain `!`.) -/
theorem cached_before_eval {wb : Workbook} {ig : List Text} {m : M} (h : load wb ig = .ok m)
    (hwf : ∀ sh ∈ wb.sheets, SheetWF sh) (hn : ((cellEntries wb ig).map Prod.fst).Nodup)
    {sh : Sheet} (hsh : sh ∈ wb.sheets) (hig : sh.name ∉ ig) {c : SCell} (hc : c ∈ sh.cells)
    (hname : Spec.C11.addr sh.name c.coord ∉ wb.names.map (·.name)) :
    getCellValue m (Spec.C11.addr sh.name c.coord) = valueOf wb.sst c.stored := by
  obtain ⟨f, x, _, h2, _, h4, _⟩ := load_content_stored h hwf hn hsh hig hc
  have h0 : dget m.names (Spec.C11.addr sh.name c.coord) = none :=
    (dget_none_iff _ _).mpr fun hk => hname (load_names_keys h hk)
  unfold getCellValue
  simp only [h0, h2, h4]

/-! ### `names_bound` -/

/-- **names_bound.** For every visible defined name `n` (not hidden, not `#REF!`; names pairwise different)
    with target text `t`, and `a = normAddress t` (the `$` dropped, the sheet part unquoted): if `a` is a
    single cell, `n` is bound to *the cell of the model* at `a` when the workbook stores such a cell on a
    sheet that is not ignored, and `n` is not defined otherwise; if `a` is an area, `n` is bound to the
    `XLRange` of `a` (its matrix of member addresses: `mkRange`). -/
theorem names_bound {wb : Workbook} {ig : List Text} {m : M} (h : load wb ig = .ok m)
    (hn : ((readDefinedNames wb).map Prod.fst).Nodup) {n t : Text} (hm : (n, t) ∈ readDefinedNames wb) :
    ((normAddress t).contains ':' = false →
        (normAddress t ∈ (cellEntries wb ig).map Prod.fst →
          dget m.names n = some (.cell (normAddress t)) ∧ normAddress t ∈ dkeys m.cells)
        ∧ (normAddress t ∉ (cellEntries wb ig).map Prod.fst → dget m.names n = none))
    ∧ ((normAddress t).contains ':' = true → dget m.names n = some (.range (mkRange (normAddress t) n))) := by
  have hnames : m.names = (buildDefinedNames (readCells wb ig) (readDefinedNames wb)).names := by
    rw [load_ok h, buildRanges_names]; rfl
  have hb := buildDefinedNames_names (readDefinedNames wb) (readCells wb ig) n t hn hm
  rw [← hnames] at hb
  have hhas : dhas (readCells wb ig).cells (normAddress t) = true ↔
      normAddress t ∈ (cellEntries wb ig).map Prod.fst := by
    rw [dhas_iff]; simp only [readCells]; rw [dofList_eq, dkeys_dsetAll]; simp [dkeys]
  refine ⟨fun hc => ⟨fun hin => ⟨?_, ?_⟩, fun hout => ?_⟩, fun hc => ?_⟩
  · rw [hb]; unfold boundTo; simp only [hc, hhas.mpr hin]; rfl
  · exact (load_cells h _).mpr (Or.inl hin)
  · have : dhas (readCells wb ig).cells (normAddress t) = false := by
      cases hd : dhas (readCells wb ig).cells (normAddress t)
      · rfl
      · exact absurd (hhas.mp hd) hout
    rw [hb]; unfold boundTo; simp only [hc, this]; rfl
  · rw [hb]; unfold boundTo; simp only [hc]; rfl


/-! ### `names_bound` against the statement -/

/-- **names_bound_spec_partial.**  GOAL (full strength, refuted for this model — counter-example below,
    `' lead'!$A$1:$A$2`): *for every visible defined name with a cell or area target the model's binding is
    the statement's (`Spec.C11.binding`)*.  Proved: the same for every target inside `GoodTarget` (sheet name
    non-empty, no blank at either end, not beginning with an apostrophe, without `:` and `,`) — `$`, `!` and
    apostrophes inside the sheet name are covered since the repairs D0302, D1102, D1101: a name for a loaded
    cell is bound to that cell of the model, a name for an area is bound to the `XLRange` of that area with
    exactly the members the statement lists. -/
theorem names_bound_spec_partial {wb : Workbook} {ig : List Text} {m : M} (h : load wb ig = .ok m)
    (hwf : ∀ sh ∈ wb.sheets, SheetWF sh) (hn : ((readDefinedNames wb).map Prod.fst).Nodup)
    {d : DefName} (hd : d ∈ wb.names) {t : Target} (ht : d.target = .ref t) (hg : GoodTarget t) :
    match Spec.C11.binding wb ig d with
    | .cell a => dget m.names d.name = some (.cell a) ∧ a ∈ dkeys m.cells
    | .range a rows => dget m.names d.name = some (.range ⟨a, d.name, t.sheet, rows⟩)
    | .free => True := by
  unfold Spec.C11.binding
  simp only [ht]
  cases hh : d.hidden with
  | true => simp
  | false =>
    simp only [Bool.false_eq_true, if_false]
    have hmem : (d.name, Model.C11.Target.text t) ∈ readDefinedNames wb := by
      unfold readDefinedNames
      apply List.mem_filterMap.mpr
      refine ⟨d, hd, ?_⟩
      have hnr : Model.C11.Target.text t ≠ "#REF!".toList := targetText_ne_ref t
      simp only [ht, targetText, hh, Bool.not_false, Bool.true_and, decide_eq_true_eq]
      rw [if_pos hnr]
    have hnb := names_bound h hn hmem
    rw [normAddress_good t hg] at hnb
    obtain ⟨hne, hc, _, ha, hst, h1, h2, h3⟩ := hg
    have hcolon_bare : ∀ c : Coord, ':' ∉ bare c := fun c hx => (bare_chars c _ hx).2.2.1 rfl
    cases hs : t.snd with
    | none =>
      simp only
      have haddr : Spec.C11.Target.address t = Spec.C11.addr t.sheet t.c1 := by
        unfold Spec.C11.Target.address; rw [hs]
      have hnocolon : (Spec.C11.addr t.sheet t.c1).contains ':' = false := by
        cases hcon : (Spec.C11.addr t.sheet t.c1).contains ':'
        · rfl
        · exfalso
          have := List.contains_iff_mem.mp hcon
          unfold Spec.C11.addr at this
          rcases List.mem_append.mp this with hx | hx
          · exact hc hx
          · rcases List.mem_cons.mp hx with hx | hx
            · revert hx; decide
            · exact hcolon_bare t.c1 hx
      by_cases hany : ((Spec.C11.cells wb ig).any fun c => c.address == Spec.C11.addr t.sheet t.c1) = true
      · simp only [hany, if_true]
        obtain ⟨s, hsm, hsa⟩ := List.any_eq_true.mp hany
        have hsa' : s.address = Spec.C11.addr t.sheet t.c1 := by simpa using hsa
        rw [← cells_refine wb ig hwf] at hsm
        obtain ⟨e, he, hes⟩ := List.mem_map.mp hsm
        have hkey : Spec.C11.addr t.sheet t.c1 ∈ (cellEntries wb ig).map Prod.fst := by
          rw [← hsa', ← hes]; exact List.mem_map_of_mem (f := Prod.fst) he
        rw [haddr] at hnb
        exact (hnb.1 hnocolon).1 hkey
      · simp only [hany]; trivial
    | some p =>
      obtain ⟨a, c2, b⟩ := p
      simp only
      have hc2 := h3 (a, c2, b) hs
      have haddr : Spec.C11.Target.address t = t.sheet ++ '!' :: (bare t.c1 ++ ':' :: bare c2) := by
        unfold Spec.C11.Target.address Spec.C11.addr; rw [hs]; simp [bare_eq_coordText, List.append_assoc]
      have hcolon : (Spec.C11.Target.address t).contains ':' = true := by
        apply List.contains_iff_mem.mpr
        rw [haddr]; simp
      have hr := hnb.2 hcolon
      rw [hr]
      have hrr : resolveRanges (Spec.C11.Target.address t) = (t.sheet, Spec.C11.members t.sheet t.c1 c2) := by
        rw [haddr]
        exact resolveRanges_area t.sheet t.c1 c2 hne (resolveSheet_plain _ ha hst) h1 h2 hc2.1 hc2.2
      simp [mkRange, hrr]

/-! ### Loading does not raise -/

/-- **load_total.**  Every workbook loads — whatever its sheet names contain (`!` included, repair D1102) —
    as long as no visible name is an area without rows (reversed corners, which SpreadsheetML never
    stores: `link_cells_to_defined_names` raises "This isn't a dim2 array" for those; example below). -/
theorem load_total (wb : Workbook) (ig : List Text)
    (h : ∀ d ∈ readDefinedNames wb, (normAddress d.2).contains ':' = true →
      (mkRange (normAddress d.2) d.1).cells ≠ []) :
    ∃ m, load wb ig = .ok m := by
  have h0 : NoEmptyArea (readCells wb ig) := by
    intro k r hk; simp [readCells] at hk
  have h3 := emptyRangeCrash_false_of _ (buildDefinedNames_noEmptyArea _ _ h0 h)
  unfold load; simp [h3]

/-- regression for finding D1102 (fixed in /repo, commit db75663): a sheet named `A!B` loads and its cell is
    addressed `A!B!A1`. -/
example : ((load Examples.bangWb []).toOption.map fun m => dkeys m.cells) = some ["A!B!A1".toList] := by
  decide +kernel

/-- the hypothesis of `load_total` is met by an ordinary workbook … -/
example : ∀ d ∈ readDefinedNames Examples.exWb, (normAddress d.2).contains ':' = true →
    (mkRange (normAddress d.2) d.1).cells ≠ [] := by decide +kernel
/-- … and is needed: an area name with reversed rows makes loading raise. -/
example : load { sst := [], sheets := [], names := [⟨"r".toList, false,
    .ref ⟨"S".toList, false, true, ⟨1, 3⟩, true, some (true, ⟨1, 1⟩, true)⟩⟩] } [] = .error .other := by
  decide +kernel

/-! ### the hypotheses of the theorems above are met by an ordinary workbook -/

example : ∀ sh ∈ Examples.exWb.sheets, SheetWF sh := by decide +kernel
example : ((cellEntries Examples.exWb []).map Prod.fst).Nodup := by decide +kernel
example : ((readDefinedNames Examples.exWb).map Prod.fst).Nodup := by decide +kernel
example : (Examples.exWb.sheets.map (·.name)).Nodup ∧ ∀ sh ∈ Examples.exWb.sheets, (sh.cells.map (·.coord)).Nodup := by
  decide +kernel
example : ∃ m, load Examples.exWb ["S2".toList] = .ok m := load_total _ _ (by decide +kernel)
/-- the member `B2` of the group whose master `A2` holds `A1+$A$1` shows `=B1+$A$1`. -/
example : ((load Examples.exWb []).toOption.bind fun m => (dget m.cells "My Sheet!B2".toList).bind
    fun c => c.formula.map (·.formula)) = some "=B1+$A$1".toList := by decide +kernel
/-- `rng` covers `A1:B3`; the empty members get no cell from the name itself, but the formula on `S2`
    refers to the same area, so `build_ranges` adds blank placeholders for `A3` and `B3`. -/
example : ((load Examples.exWb []).toOption.map fun m => dkeys m.cells) = some
    ["My Sheet!A1".toList, "My Sheet!B1".toList, "My Sheet!A2".toList, "My Sheet!B2".toList, "S2!A1".toList,
     "My Sheet!A3".toList, "My Sheet!B3".toList] := by decide +kernel

/-! ### D1101 (repaired): a doubled apostrophe in a quoted sheet name stands for one apostrophe -/

/-- regression examples for finding D1101 (fixed in /repo, commit 076c17f): the target `'It''s'!$A$1` is
    normalised to the address `It's!A1` of the stored cell and the name is bound as the statement demands.
    If `resolve_sheet` stops un-doubling, the model changes with the code and these no longer check. -/
example : normAddress (targetText (.ref ⟨"It's".toList, true, true, ⟨1, 1⟩, true, none⟩)) = "It's!A1".toList := by
  decide +kernel
example : ((load Examples.aposWb []).toOption.map fun m => dget m.names "ap".toList)
      = some (some (.cell "It's!A1".toList))
    ∧ Spec.C11.bindings Examples.aposWb [] = [("ap".toList, .cell "It's!A1".toList)] := by decide +kernel

/-- the guard of `names_bound_spec_partial` is met by the names of ordinary workbooks — apostrophes, `$`
    and `!` in the sheet name included. -/
example : GoodTarget ⟨"My Sheet".toList, true, true, ⟨1, 1⟩, true, some (true, ⟨2, 3⟩, true)⟩ := by decide +kernel
example : GoodTarget ⟨"It's".toList, true, true, ⟨1, 1⟩, true, none⟩ := by decide +kernel
example : GoodTarget ⟨"US$".toList, true, true, ⟨1, 1⟩, true, none⟩ ∧
    GoodTarget ⟨"A!B".toList, true, true, ⟨1, 1⟩, true, some (true, ⟨1, 2⟩, true)⟩ := by decide +kernel

/-- regressions for D0302 and D1102 (fixed): a `$` or `!` of the sheet name survives normalisation. -/
example : normAddress (targetText (.ref ⟨"US$".toList, true, true, ⟨1, 1⟩, true, none⟩)) = "US$!A1".toList
    ∧ normAddress (targetText (.ref ⟨"A!B".toList, true, true, ⟨1, 1⟩, true, some (true, ⟨1, 2⟩, true)⟩))
      = "A!B!A1:A2".toList := by decide +kernel

/-- kernel-checked counter-example to the full-strength goal of `names_bound_spec_partial` (outside the
    guard): `resolve_sheet` strips blanks, so the area name `' lead'!$A$1:$A$2` is bound to cells of a sheet
    `lead` that does not exist. -/
example : ¬ GoodTarget ⟨" lead".toList, true, true, ⟨1, 1⟩, true, some (true, ⟨1, 2⟩, true)⟩ := by decide +kernel
example : (mkRange (normAddress (targetText
    (.ref ⟨" lead".toList, true, true, ⟨1, 1⟩, true, some (true, ⟨1, 2⟩, true)⟩))) "n".toList).cells
      = [["lead!A1".toList], ["lead!A2".toList]] := by decide +kernel

end XlVerif.Props.C11
